/-
  Props/C09.lean — evaluating a diagram computes its compositional meaning.

  Statement (properties.jsonl C09): the tensor a tensor-functor assigns to a diagram equals the
  layer-by-layer composite (identity on the left wires) ⊗ (tensor of the box) ⊗ (identity on the
  right wires) of the tensors it assigns to the boxes, with swaps, cups, caps, daggered boxes,
  spiders, bubbles and sums interpreted by their defining tensors; in particular evaluation is
  invariant under interchange and normalisation, and `Diagram.eval` is the identity-on-arrays
  functor.

  Model: `TFunctor.call` (Model/Tensor.lean) transcribes the single-pass loop of
  `tensor.Functor.__call__` (tensor.py:365-391: `tensordot` on tracked axis positions, then
  `moveaxis` of the new axes; swaps special-cased as a `moveaxis` of the running array);
  `TFunctor.layerwise` is the reference semantics: the fold of
  `acc >> (Tensor.id(F left) @ F(box) @ Tensor.id(F right))` over the layers, with
  `F(swap) = Tensor.swap`, `F(cup) = Tensor.cups`, `F(cap) = Tensor.caps`,
  `F(f†) = F(f).dagger()` (tensor.py:352-361).

  PROVED (over any commutative star semiring, all diagrams, all object maps incl. dimension 1
  and multi-wire `Dim`s, all arrays; `GaussInt`, at which the compiled model runs, is one):
  * `functor_eval_eq_layers`: on every well-typed diagram (`Diagram.WF`, the C01 predicate)
    whose `Swap`/`Cup`/`Cap` boxes are genuine (`Genuine`: a swap exchanges its first wire with
    the rest, a cup has two input wires and no output, a cap the converse — what the classes of
    discopy guarantee) the two programs return the SAME result: the same tensor, or the same
    error (an array of the wrong size, or `Tensor.cups` refusing non-adjoint dimension tuples
    because winding numbers are erased).  No hypothesis on the functor.
    Proof: induction over the layers with the loop invariant `Inv` (the running array has axes
    `[F dom | F scan | 1…1]` and, reshaped, is the composite so far); the box branch is
    `stepBox_spec` (`tensordotAxes_block` for tensor.py:381-385, `moveaxisOrder_moveback` for
    386-389), the swap branch `stepSwap_spec` (`moveaxisOrder_blockswap` for 369-377).
  * `functor_eval_eq_layers_of_boxOK`: the same from the weaker hypothesis that every box is
    sent to a well-formed tensor of the type the functor assigns to it (`BoxOK`), discharged by
    `boxOK_of_genuine`: generators and daggered generators, swaps, nested cups and caps of
    every dimension tuple (`Proofs/TensorCups.lean`).
  * `functor_eval_eq_layers_of_expr`: the same for any diagram produced by the op language
    (`Expr.eval`, well-typed by C01) whose boxes pass the Boolean test the driver reports.
  * `call_ofBox`: a box seen as a one-box diagram evaluates to `F(box)` (the `Box` branch of
    `__call__`, tensor.py:356-361, agrees with the loop).
  * `functor_eval_type`, `functor_ty_monoidal`, `obj_to_dim_ignores_z`.
  * `functor_box_eq_one_box_diagram`: for EVERY genuine box, swaps included, the loop on the one-box
    diagram returns the defining tensor `F(box)`; `functor_swap_box_type`: for a bare swap that is
    `Tensor.swap(F(left), F(right)) : F(left) @ F(right) → F(right) @ F(left)`.
  * `eval_empty_sum_typed`, `eval_sum_typed` (Model/TensorSum.lean: the `Sum` branch,
    tensor.py:338-340, as the left fold of `Tensor.__add__` from `Tensor.zeros`): the image of a
    formal sum has the image types; for no term it is the well-formed zero tensor.  (That the
    array of a sum WITH terms is the entrywise sum rests on the oracle of the harness.)

  * `eval_invariant_interchange`, `eval_invariant_normal_form`: if `F(d)` is defined then
    `F(d.interchange(i, j, left))` and `F(d.normal_form(left))` (monoidal.Diagram.normalize /
    normal_form as modelled in Model/Diagram.lean) are the SAME tensor.  Core:
    `tensor_layer_exchange` (two layers on disjoint wires commute, as an equality of tensors),
    associativity of `>>`, and `functor_eval_eq_layers` on both sides.

  NOT PROVED as Lean theorems (oracle of harness/props/c09.py only):
  * invariance under the RIGID normal form (snake removal, C07) — only the monoidal
    normalisation is covered above.
  * spiders, sums: a spider is a generator whose array is `Tensor.spiderArray` (recorded in the
    model, covered as a generator); sums (`Tensor.add` fold) are not part of `TFunctor.call`;
    the harness checks them on real code.
    `Diagram.eval` IS the call of the identity-on-arrays functor (tensor.py:429): nothing to
    prove, the harness checks it.
  * invariance under interchange / normal form is proved for bubble-free diagrams only
    (`TFunctor`); for diagrams with bubbles it follows in the same way from
    `functor_eval_eq_layers_bubbles` but is not stated (oracle only).

  BUBBLES (Model/TensorBubble.lean, Proofs/TensorBubble.lean).  A `tensor.Bubble` is a box that
  carries a function `func : R → R` (ANY function: a parameter of the model; the driver runs
  it at a small expression language over ℤ[i]) and a diagram `inside`; `BFunctor.call n` is
  `tensor.Functor.__call__` with the `Bubble` branch of tensor.py:336-337, `n` bounding the
  nesting depth.  PROVED, for every functor, every function, every nesting depth:
  * `eval_bubble`: `F(bubble) = F(bubble.inside).map(bubble.func)`, for the bubble as the
    argument of the functor and as a one-box diagram (`bubble.eval()`);
  * `bubble_map_entrywise`: `.map(f)` keeps dom/cod and its entry at every index `i` is
    `f(entry i)` — "applies the function entry-wise";
  * `functor_eval_eq_layers_bubbles`: the single-pass evaluation of a diagram whose boxes may be
    bubbles (around diagrams with bubbles, …) equals the reference semantics `BFunctor.ref`:
    the layer-by-layer composite with every bubble interpreted by the entrywise image of the
    layer-by-layer composite of its inside.  Hypotheses: the diagram and all insides are
    well-typed with genuine `Swap`/`Cup`/`Cap` boxes, and a bubble is a generic box with the
    dom/cod of its inside (`BFunctor.Good`: the default of monoidal.py:786; the driver's `bfgood`).
  * `functor_eval_eq_layers_bubbles_level`: one level of the same (composite of `self(box)`).
  * `functor_eval_eq_layers_bubbles_of_table`: the same in the form the driver runs (bubbles as
    a table keyed by box, Boolean hypotheses `bfgood`).
  * `bubble_free_agrees`: with no bubble in the table `BFunctor.call` is `TFunctor.call`.
-/
import Proofs.TensorInterchange
import Proofs.TensorBubble
import Proofs.TensorSum
import Proofs.GaussInt

namespace DV.C09
open DV DV.TFunctor

section
variable {R : Type} [CommSemiring R] [StarRing R]

/-- The object map ignores winding numbers (tensor.py:341-351). -/
theorem obj_to_dim_ignores_z (F : TFunctor R) (o : Ob) (z : Int) :
    F.ty [{ o with z := z }] = F.ty [o] := by
  simp [TFunctor.ty]

/-- The object map is monoidal: `F(s @ t) = F(s) @ F(t)`, `F(Ty()) = Dim(1)`. -/
theorem functor_ty_monoidal (F : TFunctor R) (s t : Ty) :
    F.ty (s ++ t) = F.ty s ++ F.ty t ∧ F.ty [] = [] :=
  ⟨ty_append F s t, rfl⟩

/-- Single-pass evaluation = layer-by-layer composite, from `BoxOK`. -/
theorem functor_eval_eq_layers_of_boxOK (F : TFunctor R) (d : Diagram) (hwf : d.WF)
    (hsw : ∀ b ∈ d.boxes, SwapOK b) (hbox : ∀ b ∈ d.boxes, BoxOK F b) :
    F.call d = F.layerwise d :=
  call_eq_layerwise F d hwf hsw hbox

/-- Every genuine box is sent to a well-formed tensor of the right type. -/
theorem boxOK_of_genuine (F : TFunctor R) (b : Box) (hb : Genuine b) : BoxOK F b :=
  TFunctor.boxOK_of_genuine F b hb

/-- **C09: single-pass evaluation = layer-by-layer composite**, for every functor, every
    well-typed diagram with genuine swap/cup/cap boxes, all dimensions, all arrays. -/
theorem functor_eval_eq_layers (F : TFunctor R) (d : Diagram) (hwf : d.WF)
    (hgen : ∀ b ∈ d.boxes, Genuine b) :
    F.call d = F.layerwise d :=
  call_eq_layerwise F d hwf (fun b hb => (hgen b hb).1)
    (fun b hb => TFunctor.boxOK_of_genuine F b (hgen b hb))

/-- The form the correspondence check exercises: a diagram built by the op language (well-typed
    by C01's `Expr.eval_wf`) whose special boxes pass the driver's Boolean test `fgenuine`. -/
theorem functor_eval_eq_layers_of_expr (F : TFunctor R) (e : Expr) (d : Diagram)
    (h : e.eval = .ok d) (hg : d.boxes.all TFunctor.genuineB = true) :
    F.call d = F.layerwise d :=
  functor_eval_eq_layers F d (Expr.eval_wf e h)
    (fun b hb => genuine_of_genuineB b (List.all_eq_true.1 hg b hb))

/-- The `Box` branch of `__call__` agrees with the loop on the one-box diagram. -/
theorem call_ofBox (F : TFunctor R) (b : Box) (hk : b.kind ≠ .swap) (hb : BoxOK F b) :
    F.call (Diagram.ofBox b) = F.box b := by
  rw [call_eq_layerwise F _ (Diagram.ofBox_wf b)
    (fun b' hb' => by
      have : b' = b := by simpa [Diagram.ofBox] using hb'
      intro h; rw [this] at h; exact absurd h hk)
    (fun b' hb' => by
      have : b' = b := by simpa [Diagram.ofBox] using hb'
      rw [this]; exact hb)]
  exact layerwise_ofBox F b hb

/-- The exchange law behind invariance under interchange, for tensors: two layers whose boxes
    act on disjoint wires commute (`f : A → B` left of `g : C → D`, any `L`, `M`, `Rr`):
    `(L ⊗ f ⊗ M ⊗ C ⊗ Rr) ≫ (L ⊗ B ⊗ M ⊗ g ⊗ Rr) = (L ⊗ A ⊗ M ⊗ g ⊗ Rr) ≫ (L ⊗ f ⊗ M ⊗ D ⊗ Rr)`.
    By `functor_eval_eq_layers` this is what one adjacent interchange does to the evaluation. -/
theorem tensor_layer_exchange (L M Rr : List Nat) (f g : Tensor R) (hf : f.WF) (hg : g.WF) :
    Tensor.thenCore (Tensor.layerT L ((M ++ g.dom) ++ Rr) f)
        (Tensor.layerT ((L ++ f.cod) ++ M) Rr g)
      = Tensor.thenCore (Tensor.layerT ((L ++ f.dom) ++ M) Rr g)
          (Tensor.layerT L ((M ++ g.cod) ++ Rr) f) :=
  Tensor.layer_exchange L M Rr f g hf hg

/-- **Evaluation is invariant under interchange**: if `F(d)` is defined, then
    `F(d.interchange(i, j, left)) = F(d)` (the single-pass evaluation of both). -/
theorem eval_invariant_interchange (F : TFunctor R) (d d' : Diagram) (i j : Int) (left : Bool)
    (hwf : d.WF) (hgen : ∀ b ∈ d.boxes, Genuine b) (h : d.interchange i j left = .ok d')
    (t : Tensor R) (ht : F.call d = .ok t) : F.call d' = .ok t := by
  have p := pres_interchange F hwf (fun b hb => TFunctor.boxOK_of_genuine F b (hgen b hb)) h
  rw [functor_eval_eq_layers F d hwf hgen] at ht
  rw [functor_eval_eq_layers F d' p.1 (fun b hb => hgen b (p.2.1 b hb))]
  exact p.2.2 t ht

/-- **Evaluation is invariant under normalisation**: if `F(d)` is defined, then
    `F(d.normal_form(left)) = F(d)`. -/
theorem eval_invariant_normal_form (F : TFunctor R) (d d' : Diagram) (left : Bool) (fuel : Nat)
    (hwf : d.WF) (hgen : ∀ b ∈ d.boxes, Genuine b) (h : d.normalForm left fuel = .ok d')
    (t : Tensor R) (ht : F.call d = .ok t) : F.call d' = .ok t := by
  have p := pres_normalForm F hwf (fun b hb => TFunctor.boxOK_of_genuine F b (hgen b hb)) h
  rw [functor_eval_eq_layers F d hwf hgen] at ht
  rw [functor_eval_eq_layers F d' p.1 (fun b hb => hgen b (p.2.1 b hb))]
  exact p.2.2 t ht

/-- The result of evaluation has the type the functor assigns to the diagram. -/
theorem functor_eval_type (F : TFunctor R) (d : Diagram) (t : Tensor R) (h : F.call d = .ok t) :
    t.WF ∧ t.dom = F.ty d.dom ∧ t.cod = F.ty d.cod := by
  unfold TFunctor.call at h
  split at h
  · cases h
  · exact mk?_ok h

/-! ### bare boxes, formal sums -/

/-- **The functor on a bare box = the functor on its one-box diagram**, for EVERY genuine box,
    swaps included.  `TFunctor.box` is the defining tensor (`Tensor.swap(F(left), F(right))` with
    `left, right = box.dom[:1], box.dom[1:]` for a `Swap`; `Tensor.cups/caps`; the array or the
    adjoint of the array of a generator); `call (ofBox b)` is the loop of tensor.py:365-391 run on
    `Diagram(b.dom, b.cod, [b], [0])` — which is what discopy does with a `Swap` object handed to
    the functor (it is excluded from the `Box` branch, tensor.py:356-357).  A special case for bare
    swaps that exchanges the roles of the two wires would break this equality whenever
    `F(left) ≠ F(right)` (the example below has `[3]` and `[2]`). -/
theorem functor_box_eq_one_box_diagram (F : TFunctor R) (b : Box) (hb : Genuine b) :
    F.call (Diagram.ofBox b) = F.box b := by
  have hok : BoxOK F b := TFunctor.boxOK_of_genuine F b hb
  rw [call_eq_layerwise F _ (Diagram.ofBox_wf b)
    (fun b' hb' => by
      have : b' = b := by simpa [Diagram.ofBox] using hb'
      rw [this]; exact hb.1)
    (fun b' hb' => by
      have : b' = b := by simpa [Diagram.ofBox] using hb'
      rw [this]; exact hok)]
  exact layerwise_ofBox F b hok

/-- The tensor of a bare genuine swap box: type `F(left) @ F(right) → F(right) @ F(left)`. -/
theorem functor_swap_box_type (F : TFunctor R) (b : Box) (hk : b.kind = .swap) (hb : Genuine b)
    (t : Tensor R) (h : F.call (Diagram.ofBox b) = .ok t) :
    t = Tensor.swap (F.ty (pySlice b.dom none (some 1))) (F.ty (pySlice b.dom (some 1) none)) ∧
      t.dom = F.ty b.dom ∧ t.cod = F.ty b.cod := by
  rw [functor_box_eq_one_box_diagram F b hb] at h
  have hty := TFunctor.boxOK_of_genuine F b hb t h
  simp only [TFunctor.box, hk] at h
  cases h
  exact ⟨rfl, hty.2.1, hty.2.2⟩

/-- **The image of the empty formal sum is the zero tensor of the image types**
    (tensor.py:338-340, `sum(map(self, diagram), Tensor.zeros(dom, cod))` with no term): a
    well-formed `Tensor` with `dom = F(dom)`, `cod = F(cod)`, every entry zero — not a bare `0`. -/
theorem eval_empty_sum_typed [DecidableEq R] (F : TFunctor R) (dom cod : Ty) :
    ∃ t, F.callSum dom cod [] = .ok t ∧ t.dom = F.ty dom ∧ t.cod = F.ty cod ∧ t.WF ∧
      ∀ x ∈ t.arr.data.toList, x = 0 :=
  ⟨Tensor.zeros (F.ty dom) (F.ty cod), TFunctor.callSum_nil F dom cod, rfl, rfl,
    Tensor.zeros_wf _ _, Tensor.zeros_data _ _⟩

/-- The image of a formal sum with any number of terms, when defined, has the image types. -/
theorem eval_sum_typed [DecidableEq R] (F : TFunctor R) (dom cod : Ty) (terms : List Diagram)
    (t : Tensor R) (h : F.callSum dom cod terms = .ok t) :
    t.dom = F.ty dom ∧ t.cod = F.ty cod :=
  TFunctor.callSum_type F dom cod terms t h

/-! ### bubbles -/

/-- A generic box (in particular a bubble) meets the hypothesis on special boxes vacuously. -/
theorem genuine_of_gen (b : Box) (hk : b.kind = .gen) : Genuine b :=
  ⟨fun h' => (by rw [hk] at h'; cases h'), fun h' => (by rw [hk] at h'; cases h'),
    fun h' => (by rw [hk] at h'; cases h')⟩

/-- **`Tensor.map` is entrywise** (tensor.py:258-261): same dom/cod, well-formed, and the entry
    at every multi-index is the image of the entry. -/
theorem bubble_map_entrywise (f : R → R) (t : Tensor R) (h : t.WF) :
    (t.map f).WF ∧ (t.map f).dom = t.dom ∧ (t.map f).cod = t.cod ∧
    ∀ i, InRange (t.dom ++ t.cod) i → (t.map f).entry i = f (t.entry i) :=
  ⟨Tensor.map_wf f t h, rfl, rfl, fun _ hi => Tensor.map_entry f t h hi⟩

/-- **`eval_bubble`**, the functor applied to the `Bubble` object (tensor.py:336-337):
    `F(bubble) = F(bubble.inside).map(bubble.func)`. -/
theorem eval_bubble_box (F : BFunctor R) (n : Nat) (b : Box) (s : BubbleSpec R)
    (h : F.bub b = some s) :
    F.box (n + 1) b = BFunctor.mapE s.func (F.call n s.inside) :=
  BFunctor.box_bubble F n b s h

/-- **`eval_bubble`**, the bubble as a diagram (`bubble.eval()`, or a bubble met by the loop):
    `eval (bubble f d) = (eval d).map f`. -/
theorem eval_bubble (F : BFunctor R) (hG : F.Good) (n : Nat) (b : Box) (s : BubbleSpec R)
    (h : F.bub b = some s) :
    F.call (n + 1) (Diagram.ofBox b) = BFunctor.mapE s.func (F.call n s.inside) := by
  rw [BFunctor.call_ofBox hG (n + 1) b (genuine_of_gen b (hG.kind b s h))]
  exact BFunctor.box_bubble F n b s h

/-- One level: a diagram whose boxes may be bubbles evaluates to the layer-by-layer composite of
    the tensors `self(box)` of its boxes. -/
theorem functor_eval_eq_layers_bubbles_level (F : BFunctor R) (hG : F.Good) (n : Nat)
    (d : Diagram) (hwf : d.WF) (hgen : ∀ b ∈ d.boxes, Genuine b) :
    F.call n d = F.layerwise n d :=
  BFunctor.call_eq_layerwise hG n d hwf hgen

/-- **C09 with bubbles, nested to any depth**: single-pass evaluation = the layer-by-layer
    composite in which a bubble is the entrywise image of the layer-by-layer composite of its
    inside (`BFunctor.ref`, `BFunctor.refBox`). -/
theorem functor_eval_eq_layers_bubbles (F : BFunctor R) (hG : F.Good) (n : Nat) (d : Diagram)
    (hwf : d.WF) (hgen : ∀ b ∈ d.boxes, Genuine b) :
    F.call n d = F.ref n d :=
  BFunctor.call_eq_ref hG n d hwf hgen

/-- The form the correspondence check exercises: the bubbles of a request are a table keyed by
    box, every inside and the outer diagram are values of the op language (well-typed by C01)
    and the driver's Boolean tests `bfgood` hold. -/
theorem functor_eval_eq_layers_bubbles_of_table (base : TFunctor R)
    (tab : List (Box × BubbleSpec R)) (hB : BFunctor.goodTableB tab = true)
    (hins : ∀ p ∈ tab, ∃ e : Expr, e.eval = .ok p.2.inside)
    (e : Expr) (d : Diagram) (h : e.eval = .ok d) (hg : d.boxes.all TFunctor.genuineB = true)
    (n : Nat) :
    (BFunctor.ofTable base tab).call n d = (BFunctor.ofTable base tab).ref n d :=
  functor_eval_eq_layers_bubbles _
    (BFunctor.good_ofTable base tab hB (fun p hp => by
      obtain ⟨e', he'⟩ := hins p hp
      exact Expr.eval_wf e' he'))
    n d (Expr.eval_wf e h)
    (fun b hb => genuine_of_genuineB b (List.all_eq_true.1 hg b hb))

/-- The defining tensor of a bubble in the reference semantics. -/
theorem ref_bubble (F : BFunctor R) (n : Nat) (b : Box) (s : BubbleSpec R)
    (h : F.bub b = some s) :
    F.refBox (n + 1) b = BFunctor.mapE s.func (F.ref n s.inside) := by
  simp only [BFunctor.refBox, h, BFunctor.ref]

/-- A table without bubbles: the model of this section is the model of the previous one. -/
theorem bubble_free_agrees (F : BFunctor R) (h : ∀ b, F.bub b = none) (n : Nat) (d : Diagram) :
    F.call n d = F.base.call d :=
  BFunctor.call_no_bubbles F h n d

end

/-! ### non-vacuity: a concrete rigid diagram with a generator, a daggered generator, a swap, a
    cap and a cup, a functor into Gaussian-integer tensors with unequal dimensions; the
    hypotheses hold and both programs return the same tensor (finite check, support only). -/

def xa : Ob := ⟨"a", 0⟩
def xb : Ob := ⟨"b", 0⟩
def bf : Box := { name := "f", dom := [xa], cod := [xb, xa] }
def bg : Box := { name := "g", dom := [xa], cod := [xa], dagger := true }
def bsw : Box := Box.swap xb xa
def bcap : Box := Box.cap xb xb.r
def bcup : Box := Box.cup xb xb.r

/-- `f ; swap ; (g† ⊗ b) ; (a ⊗ b ⊗ cap) ; (a ⊗ b ⊗ cup)` -/
def d0 : Diagram :=
  ⟨[xa], [xa, xb], [bf, bsw, bg, bcap, bcup], [0, 0, 0, 2, 2],
    ⟨[xa], [xa, xb],
      [⟨[], bf, []⟩, ⟨[], bsw, []⟩, ⟨[], bg, [xb]⟩, ⟨[xa, xb], bcap, []⟩, ⟨[xa, xb], bcup, []⟩]⟩⟩

def F0 : TFunctor GaussInt where
  ob := fun o => if o.name = "a" then [2] else [3]
  ar := fun b => if b.name = "f" then
      ⟨[12], #[⟨1, 0⟩, ⟨0, 1⟩, ⟨2, 0⟩, ⟨0, 0⟩, ⟨1, -1⟩, ⟨3, 0⟩, ⟨0, 0⟩, ⟨1, 0⟩, ⟨0, 2⟩, ⟨1, 1⟩, ⟨0, 0⟩, ⟨-1, 0⟩]⟩
    else ⟨[4], #[⟨1, 0⟩, ⟨0, 1⟩, ⟨2, 0⟩, ⟨1, 1⟩]⟩

example : d0.WF := by
  refine ⟨rfl, rfl, rfl, rfl, ?_⟩
  simp [LArrow.WF, d0, Chain, Layer.dom, Layer.cod, bf, bg, bsw, bcap, bcup, Box.swap, Box.cap,
    Box.cup, xa, xb, Ob.r]

example : ∀ b ∈ d0.boxes, Genuine b := by
  intro b hb
  simp only [d0, List.mem_cons, List.not_mem_nil, or_false] at hb
  rcases hb with rfl | rfl | rfl | rfl | rfl <;>
    refine ⟨?_, ?_, ?_⟩ <;> intro h <;>
    first
      | (simp [bf, bg, bsw, bcap, bcup, Box.swap, Box.cap, Box.cup] at h; done)
      | exact ⟨xb, xb.r, rfl, rfl⟩
      | rfl

-- the evaluation of `d0` under `F0` succeeds (finite check): the equality below is not an
-- equality of two errors
set_option maxRecDepth 100000 in
example : (F0.call d0).toOption.isSome = true := by decide +kernel

/-- the theorem applies to `d0`, `F0` -/
example : F0.call d0 = F0.layerwise d0 :=
  functor_eval_eq_layers F0 d0
    (by
      refine ⟨rfl, rfl, rfl, rfl, ?_⟩
      simp [LArrow.WF, d0, Chain, Layer.dom, Layer.cod, bf, bg, bsw, bcap, bcup, Box.swap,
        Box.cap, Box.cup, xa, xb, Ob.r])
    (by
      intro b hb
      simp only [d0, List.mem_cons, List.not_mem_nil, or_false] at hb
      rcases hb with rfl | rfl | rfl | rfl | rfl <;>
        refine ⟨?_, ?_, ?_⟩ <;> intro h <;>
        first
          | (simp [bf, bg, bsw, bcap, bcup, Box.swap, Box.cap, Box.cup] at h; done)
          | exact ⟨xb, xb.r, rfl, rfl⟩
          | rfl)

/-- a bare swap box with DIFFERENT images (`b ↦ [3]`, `a ↦ [2]`) is genuine ... -/
theorem bsw_genuine : Genuine bsw :=
  ⟨fun _ => rfl, fun h => by simp [bsw, Box.swap] at h, fun h => by simp [bsw, Box.swap] at h⟩

/-- ... and the functor on the box object is `Tensor.swap [3] [2] : [3, 2] → [2, 3]` -/
example : F0.call (Diagram.ofBox bsw) = .ok (Tensor.swap [3] [2]) :=
  (functor_box_eq_one_box_diagram F0 bsw bsw_genuine).trans rfl

example : (Tensor.swap (R := GaussInt) [3] [2]).dom = [3, 2] ∧
    (Tensor.swap (R := GaussInt) [3] [2]).cod = [2, 3] ∧
    (Tensor.swap (R := GaussInt) [3] [2]) ≠ Tensor.mk' [3, 2] [2, 3] (Tensor.swap [2] [3]).arr := by
  decide +kernel

/-- the empty sum `[b] → [a, b]` under `F0`: the zero tensor `[3] → [2, 3]`, and a two-term sum -/
example : F0.callSum [xb] [xa, xb] [] = .ok (Tensor.zeros [3] [2, 3]) := rfl

set_option maxRecDepth 100000 in
example : (F0.callSum [xa] [xa, xb] [d0, d0]).toOption.isSome = true := by decide +kernel

/-! ### non-vacuity for bubbles: two bubbles around EQUAL insides with DIFFERENT functions in one
    diagram (Python's `==`/`repr` cannot tell them apart), and a bubble around that diagram
    (nesting depth 2), over Gaussian integers. -/

def bh : Box := { name := "h", dom := [xa], cod := [xa] }
def dIn : Diagram := Diagram.ofBox bh
def bb1 : Box := { name := "Bubble", dom := [xa], cod := [xa], data := "b1" }
def bb2 : Box := { name := "Bubble", dom := [xa], cod := [xa], data := "b2" }
/-- `h.bubble(func=square) >> h.bubble(func=plus_i)` -/
def dTwo : Diagram :=
  ⟨[xa], [xa], [bb1, bb2], [0, 0], ⟨[xa], [xa], [⟨[], bb1, []⟩, ⟨[], bb2, []⟩]⟩⟩
def bb3 : Box := { name := "Bubble", dom := [xa], cod := [xa], data := "b3" }
/-- `h >> (h.bubble(square) >> h.bubble(plus_i)).bubble(func=double)` -/
def dOut : Diagram :=
  ⟨[xa], [xa], [bh, bb3], [0, 0], ⟨[xa], [xa], [⟨[], bh, []⟩, ⟨[], bb3, []⟩]⟩⟩

def B0 : BFunctor GaussInt where
  base := { ob := fun _ => [2], ar := fun _ => ⟨[4], #[⟨1, 0⟩, ⟨0, 1⟩, ⟨2, 0⟩, ⟨1, 1⟩]⟩ }
  bub := fun b =>
    if b = bb1 then some ⟨fun x => x * x, dIn⟩
    else if b = bb2 then some ⟨fun x => x + ⟨0, 1⟩, dIn⟩
    else if b = bb3 then some ⟨fun x => x + x, dTwo⟩
    else none

theorem dTwo_wf : dTwo.WF := by
  refine ⟨rfl, rfl, rfl, rfl, ?_⟩
  simp [LArrow.WF, dTwo, Chain, Layer.dom, Layer.cod, bb1, bb2]

theorem dOut_wf : dOut.WF := by
  refine ⟨rfl, rfl, rfl, rfl, ?_⟩
  simp [LArrow.WF, dOut, Chain, Layer.dom, Layer.cod, bh, bb3]

theorem B0_cases {b : Box} {s : BubbleSpec GaussInt} (h : B0.bub b = some s) :
    (b = bb1 ∧ s.inside = dIn) ∨ (b = bb2 ∧ s.inside = dIn) ∨ (b = bb3 ∧ s.inside = dTwo) := by
  unfold B0 at h
  simp only at h
  split at h
  · rename_i hb; cases h; exact Or.inl ⟨hb, rfl⟩
  · split at h
    · rename_i hb; cases h; exact Or.inr (Or.inl ⟨hb, rfl⟩)
    · split at h
      · rename_i hb; cases h; exact Or.inr (Or.inr ⟨hb, rfl⟩)
      · cases h

theorem B0_good : B0.Good where
  kind b s h := by rcases B0_cases h with ⟨rfl, _⟩ | ⟨rfl, _⟩ | ⟨rfl, _⟩ <;> rfl
  dom b s h := by rcases B0_cases h with ⟨rfl, e⟩ | ⟨rfl, e⟩ | ⟨rfl, e⟩ <;> rw [e] <;> rfl
  cod b s h := by rcases B0_cases h with ⟨rfl, e⟩ | ⟨rfl, e⟩ | ⟨rfl, e⟩ <;> rw [e] <;> rfl
  wf b s h := by
    rcases B0_cases h with ⟨_, e⟩ | ⟨_, e⟩ | ⟨_, e⟩ <;> rw [e]
    · exact Diagram.ofBox_wf bh
    · exact Diagram.ofBox_wf bh
    · exact dTwo_wf
  gen b s h := by
    rcases B0_cases h with ⟨_, e⟩ | ⟨_, e⟩ | ⟨_, e⟩ <;> rw [e] <;> intro b' hb'
    · have : b' = bh := by simpa [dIn, Diagram.ofBox] using hb'
      rw [this]; exact genuine_of_gen _ rfl
    · have : b' = bh := by simpa [dIn, Diagram.ofBox] using hb'
      rw [this]; exact genuine_of_gen _ rfl
    · simp only [dTwo, List.mem_cons, List.not_mem_nil, or_false] at hb'
      rcases hb' with rfl | rfl <;> exact genuine_of_gen _ rfl

/-- the theorem applies to `dOut`, `B0` at depth 2 -/
example : B0.call 2 dOut = B0.ref 2 dOut :=
  functor_eval_eq_layers_bubbles B0 B0_good 2 dOut dOut_wf (by
    intro b hb
    simp only [dOut, List.mem_cons, List.not_mem_nil, or_false] at hb
    rcases hb with rfl | rfl <;> exact genuine_of_gen _ rfl)

-- the evaluation succeeds (so the equality is not one of two errors) and the two bubbles
-- around the same inside are NOT interchangeable: `square` then `plus_i` is not `square` twice
set_option maxRecDepth 100000 in
example : (B0.call 2 dOut).toOption.isSome = true := by decide +kernel

set_option maxRecDepth 100000 in
example : B0.call 1 dTwo ≠
    ({ B0 with bub := fun b => if b = bb1 ∨ b = bb2 then some ⟨fun x => x * x, dIn⟩ else none }
      : BFunctor GaussInt).call 1 dTwo := by decide +kernel

-- fuel below the nesting depth is reported, never silently wrong
example : B0.call 1 dOut = .error .fuel := by decide +kernel

end DV.C09
