/-
  Props/C09.lean — evaluating a diagram computes its compositional meaning.

  Statement (properties.jsonl C09): the tensor a tensor-functor assigns to a diagram equals the
  layer-by-layer composite (identity on the left wires) ⊗ (tensor of the box) ⊗ (identity on the
  right wires) of the tensors it assigns to the boxes, with swaps, cups, caps, daggered boxes,
  spiders, bubbles and sums interpreted by their defining tensors; in particular evaluation is
  invariant under interchange and normalisation, and `Diagram.eval` is the identity-on-arrays
  functor.

  Model: `TFunctor.call` (Model/Tensor.lean) transcribes the single-pass loop of
  `tensor.Functor.__call__` (tensor.py:365-391: `tensordot` on tracked axis positions, then
  `moveaxis` of the new axes; swaps special-cased as a `moveaxis` of the running array);
  `TFunctor.layerwise` is the reference semantics: the fold of
  `acc >> (Tensor.id(F left) @ F(box) @ Tensor.id(F right))` over the layers, with
  `F(swap) = Tensor.swap`, `F(cup) = Tensor.cups`, `F(cap) = Tensor.caps`,
  `F(f†) = F(f).dagger()` (tensor.py:352-361).

  PROVED (over any commutative star semiring, all diagrams, all object maps incl. dimension 1
  and multi-wire `Dim`s, all arrays; `GaussInt`, at which the compiled model runs, is one):
  * `functor_eval_eq_layers_partial`: on a well-typed diagram (`Diagram.WF`, the C01 predicate)
    whose swap boxes are swaps, if every box is sent to a well-formed tensor of the type the
    functor assigns to it (`BoxOK`), the two programs return the SAME result — the same tensor,
    or the same error when some `F(box)` fails (wrong array size).  Proof: induction over the
    layers with the loop invariant `Inv` (running array has axes `[F dom | F scan | 1…1]` and,
    reshaped, is the composite so far); box branch `stepBox_spec`, swap branch `stepSwap_spec`.
  * `BoxOK` is discharged for generators and daggered generators (`boxOK_gen`), swaps
    (`boxOK_swap`), and cups/caps when every object is sent to at most one wire — an `int` or a
    `Dim` of length ≤ 1, "dimension per atomic type" in the property's words (`boxOK_cup`,
    `boxOK_cap`).  Hence `functor_eval_eq_layers_atomic` has no hypothesis on `F(box)` at all.
  * `call_ofBox`: a box seen as a one-box diagram evaluates to `F(box)` (the `Box` branch of
    `__call__`, tensor.py:356-361, agrees with the loop).
  * `obj_to_dim_ignores_z`: winding numbers are erased by the object map.

  NOT PROVED (stated as `def … : Prop`, no theorem claims them):
  * `functor_eval_eq_layers_full`: the same without `BoxOK`, i.e. also for cups/caps over an
    object sent to a multi-wire `Dim` (nested cups of rigid.py:449-454; `Tensor.cups` then
    raises unless the Dim is a palindrome).  Covered by correspondence + oracle only.
  * invariance under interchange / normal form as a Lean theorem needs the SMC layer-exchange
    lemma (C05/C06) instantiated at tensors; the algebra it needs is proved under C08
    (`interchange_law`, unit laws).  Checked by the oracle of harness/props/c09.py.
  * spiders, bubbles, sums: a spider is a generator whose array is `Tensor.spiderArray`
    (recorded in the model, covered by `boxOK_gen`); bubbles (`map func`) and sums
    (`Tensor.add` fold) are not part of `TFunctor.call`; the harness checks them on real code.
-/
import Proofs.TensorFunctor
import Proofs.GaussInt

namespace DV.C09
open DV DV.TFunctor

section
variable {R : Type} [CommSemiring R] [StarRing R]

/-- The object map ignores winding numbers (tensor.py:341-351). -/
theorem obj_to_dim_ignores_z (F : TFunctor R) (o : Ob) (z : Int) :
    F.ty [{ o with z := z }] = F.ty [o] := by
  simp [TFunctor.ty]

/-- The object map is monoidal: `F(s @ t) = F(s) @ F(t)`, `F(Ty()) = Dim(1)`. -/
theorem functor_ty_monoidal (F : TFunctor R) (s t : Ty) :
    F.ty (s ++ t) = F.ty s ++ F.ty t ∧ F.ty [] = [] :=
  ⟨ty_append F s t, rfl⟩

/-- **Single-pass evaluation = layer-by-layer composite** (both branches of the loop). -/
theorem functor_eval_eq_layers_partial (F : TFunctor R) (d : Diagram) (hwf : d.WF)
    (hsw : ∀ b ∈ d.boxes, SwapOK b) (hbox : ∀ b ∈ d.boxes, BoxOK F b) :
    F.call d = F.layerwise d :=
  call_eq_layerwise F d hwf hsw hbox

/-- Generators, daggered generators and swaps always satisfy `BoxOK`. -/
theorem boxOK_gen_swap (F : TFunctor R) (b : Box) (h : b.kind = .gen ∨ (b.kind = .swap ∧ SwapOK b)) :
    BoxOK F b := by
  rcases h with h | ⟨h, hs⟩
  · exact boxOK_gen F b h
  · exact boxOK_swap F b h hs

/-- With one dimension per atomic type (every object sent to at most one wire) the equality of
    the two programs holds for ALL well-typed rigid diagrams with genuine swap/cup/cap boxes,
    all arrays. -/
theorem functor_eval_eq_layers_atomic (F : TFunctor R) (hF : Atomic F) (d : Diagram)
    (hwf : d.WF) (hgen : ∀ b ∈ d.boxes, Genuine b) :
    F.call d = F.layerwise d :=
  call_eq_layerwise F d hwf (fun b hb => (hgen b hb).1)
    (fun b hb => boxOK_of_atomic F hF b (hgen b hb))

/-- Diagrams without cups and caps: every object map (multi-wire `Dim`s included). -/
theorem functor_eval_eq_layers_monoidal (F : TFunctor R) (d : Diagram) (hwf : d.WF)
    (hk : ∀ b ∈ d.boxes, b.kind = .gen ∨ (b.kind = .swap ∧ SwapOK b)) :
    F.call d = F.layerwise d :=
  call_eq_layerwise F d hwf
    (fun b hb => by
      rcases hk b hb with h | ⟨_, hs⟩
      · intro h'; rw [h] at h'; cases h'
      · exact hs)
    (fun b hb => boxOK_gen_swap F b (hk b hb))

/-- The `Box` branch of `__call__` agrees with the loop on the one-box diagram. -/
theorem call_ofBox (F : TFunctor R) (b : Box) (hk : b.kind ≠ .swap) (hb : BoxOK F b) :
    F.call (Diagram.ofBox b) = F.box b := by
  rw [call_eq_layerwise F _ (Diagram.ofBox_wf b)
    (fun b' hb' => by
      have : b' = b := by simpa [Diagram.ofBox] using hb'
      intro h; rw [this] at h; exact absurd h hk)
    (fun b' hb' => by
      have : b' = b := by simpa [Diagram.ofBox] using hb'
      rw [this]; exact hb)]
  exact layerwise_ofBox F b hb

/-- The result of evaluation has the type the functor assigns to the diagram. -/
theorem functor_eval_type (F : TFunctor R) (d : Diagram) (t : Tensor R) (h : F.call d = .ok t) :
    t.WF ∧ t.dom = F.ty d.dom ∧ t.cod = F.ty d.cod := by
  unfold TFunctor.call at h
  split at h
  · cases h
  · exact mk?_ok h

/-- FULL statement (NOT proved): no hypothesis on `F(box)`; includes cups/caps over objects
    sent to multi-wire `Dim`s. -/
def functor_eval_eq_layers_full : Prop :=
  ∀ (F : TFunctor R) (d : Diagram), d.WF → (∀ b ∈ d.boxes, Genuine b) → F.call d = F.layerwise d

end

/-! ### non-vacuity: a concrete rigid diagram with a generator, a daggered generator, a swap, a
    cap and a cup, a functor into Gaussian-integer tensors with unequal dimensions; the
    hypotheses hold and both programs return the same tensor (finite check, support only). -/

def xa : Ob := ⟨"a", 0⟩
def xb : Ob := ⟨"b", 0⟩
def bf : Box := { name := "f", dom := [xa], cod := [xb, xa] }
def bg : Box := { name := "g", dom := [xa], cod := [xa], dagger := true }
def bsw : Box := Box.swap xb xa
def bcap : Box := Box.cap xb xb.r
def bcup : Box := Box.cup xb xb.r

/-- `f ; swap ; (g† ⊗ b) ; (a ⊗ b ⊗ cap) ; (a ⊗ b ⊗ cup)` -/
def d0 : Diagram :=
  ⟨[xa], [xa, xb], [bf, bsw, bg, bcap, bcup], [0, 0, 0, 2, 2],
    ⟨[xa], [xa, xb],
      [⟨[], bf, []⟩, ⟨[], bsw, []⟩, ⟨[], bg, [xb]⟩, ⟨[xa, xb], bcap, []⟩, ⟨[xa, xb], bcup, []⟩]⟩⟩

def F0 : TFunctor GaussInt where
  ob := fun o => if o.name = "a" then [2] else [3]
  ar := fun b => if b.name = "f" then
      ⟨[12], #[⟨1, 0⟩, ⟨0, 1⟩, ⟨2, 0⟩, ⟨0, 0⟩, ⟨1, -1⟩, ⟨3, 0⟩, ⟨0, 0⟩, ⟨1, 0⟩, ⟨0, 2⟩, ⟨1, 1⟩, ⟨0, 0⟩, ⟨-1, 0⟩]⟩
    else ⟨[4], #[⟨1, 0⟩, ⟨0, 1⟩, ⟨2, 0⟩, ⟨1, 1⟩]⟩

example : d0.WF := by
  refine ⟨rfl, rfl, rfl, rfl, ?_⟩
  simp [LArrow.WF, d0, Chain, Layer.dom, Layer.cod, bf, bg, bsw, bcap, bcup, Box.swap, Box.cap,
    Box.cup, xa, xb, Ob.r]

example : Atomic F0 := by
  intro o; unfold F0; simp only; split <;> decide

example : ∀ b ∈ d0.boxes, Genuine b := by
  intro b hb
  simp only [d0, List.mem_cons, List.not_mem_nil, or_false] at hb
  rcases hb with rfl | rfl | rfl | rfl | rfl <;>
    refine ⟨?_, ?_, ?_⟩ <;> intro h <;>
    first
      | (simp [bf, bg, bsw, bcap, bcup, Box.swap, Box.cap, Box.cup] at h; done)
      | exact ⟨xb, xb.r, rfl, rfl, rfl⟩
      | rfl

-- the evaluation of `d0` under `F0` succeeds (finite check): the equality below is not an
-- equality of two errors
set_option maxRecDepth 100000 in
example : (F0.call d0).toOption.isSome = true := by decide +kernel

/-- the theorem applies to `d0`, `F0` -/
example : F0.call d0 = F0.layerwise d0 :=
  functor_eval_eq_layers_atomic F0 (by intro o; unfold F0; simp only; split <;> decide) d0
    (by
      refine ⟨rfl, rfl, rfl, rfl, ?_⟩
      simp [LArrow.WF, d0, Chain, Layer.dom, Layer.cod, bf, bg, bsw, bcap, bcup, Box.swap,
        Box.cap, Box.cup, xa, xb, Ob.r])
    (by
      intro b hb
      simp only [d0, List.mem_cons, List.not_mem_nil, or_false] at hb
      rcases hb with rfl | rfl | rfl | rfl | rfl <;>
        refine ⟨?_, ?_, ?_⟩ <;> intro h <;>
        first
          | (simp [bf, bg, bsw, bcap, bcup, Box.swap, Box.cap, Box.cup] at h; done)
          | exact ⟨xb, xb.r, rfl, rfl, rfl⟩
          | rfl)

end DV.C09
