/-
  Props/C09.lean — evaluating a diagram computes its compositional meaning.
  (being filled in; see Proofs/TensorFunctor*.lean)
-/
import Model.Tensor

namespace DV.C09
open DV

/-- The object map ignores winding numbers (tensor.py:341-351). -/
theorem obj_to_dim_ignores_z {R} (F : TFunctor R) (o : Ob) (z : Int) :
    F.ty [{ o with z := z }] = F.ty [o] := by
  simp [TFunctor.ty]

end DV.C09
