import Model.Functor
namespace DV.C04
theorem placeholder : True := trivial
end DV.C04
