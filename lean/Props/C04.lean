/-
  Props/C04.lean — C04 "functors are functorial".
  Quantified over ALL functors: object images of any length including empty (`ob`), box images
  arbitrary diagrams; the only hypothesis is `Functor.okOn` (box images are well-typed diagrams
  from the image of the domain to the image of the codomain).

  Proved: typing (image WF, dom/cod are the images of dom/cod), `F(Id) = Id(F)`,
  `F(a >> b) = F(a) >> F(b)`, `F(a @ b) = F(a) @ F(b)`, adjoints `F(t.l) = F(t).l`, `F(t.r) = F(t).r` for every winding
  number, the special rules for swaps/cups/caps, dagger for generator boxes.
  NOT proved here (kept as `Prop`s; checked by the law oracle on the real code on every run):
  `F_slice`, `F_sum`.  `F_dagger` is proved for diagrams whose boxes satisfy the box-level dagger
  law (`F_dagger_partial`; generator boxes do) and refuted in general (`F6_swap_witness`).  FALSE for the code (finding F6, witnessed on the real code):
  `F(Swap(x,y)†) = F(Swap(x,y))†` when both images have ≥ 2 wires.
-/
import Proofs.FunctorDagger

namespace DV.C04
open DV

/-- The image of a well-typed diagram is well-typed, from `F(dom)` to `F(cod)`. -/
theorem F_typing (F : Functor) (d r : Diagram) (hd : d.WF) (hok : ∀ b ∈ d.boxes, F.okOn b)
    (h : F.apply d = .ok r) : r.WF ∧ F.ty d.dom = .ok r.dom ∧ F.ty d.cod = .ok r.cod :=
  F.apply_props hd hok h

theorem F_id (F : Functor) (t t' : Ty) (h : F.ty t = .ok t') :
    F.apply (Diagram.id t) = .ok (Diagram.id t') := F.apply_id h

/-- `F(a >> b) = F(a) >> F(b)`. -/
theorem F_then (F : Functor) (a b ab fa fb : Diagram) (ha : a.WF) (hb : b.WF)
    (hok : ∀ bx ∈ a.boxes, F.okOn bx) (hab : a.then b = .ok ab)
    (hfa : F.apply a = .ok fa) (hfb : F.apply b = .ok fb) :
    ∃ r, fa.then fb = .ok r ∧ F.apply ab = .ok r := F.apply_then ha hb hok hab hfa hfb

/-- Images of types are monoid homomorphisms (lengths of images arbitrary). -/
theorem F_ty_tensor (F : Functor) (a b ta tb : Ty) (ha : F.ty a = .ok ta) (hb : F.ty b = .ok tb) :
    F.ty (a ++ b) = .ok (ta ++ tb) := F.ty_append ha hb

/-- Rigid functors send left/right adjoint types to the adjoints of the images. -/
theorem F_adjoint_l (F : Functor) (t t' : Ty) (h : F.ty t = .ok t') : F.ty (Ty.l t) = .ok (Ty.l t') :=
  F.ty_l h
theorem F_adjoint_r (F : Functor) (t t' : Ty) (h : F.ty t = .ok t') : F.ty (Ty.r t) = .ok (Ty.r t') :=
  F.ty_r h

/-- Cups, caps and swaps go to the (nested) cups, caps and swaps of the image types. -/
theorem F_cup (F : Functor) (b : Box) (h : b.kind = .cup) (l r : Ty)
    (hl : F.ty (b.dom.take 1) = .ok l) (hr : F.ty (b.dom.drop 1) = .ok r) :
    F.box b = Diagram.cups l r := F.box_cup b h hl hr
theorem F_cap (F : Functor) (b : Box) (h : b.kind = .cap) (l r : Ty)
    (hl : F.ty (b.cod.take 1) = .ok l) (hr : F.ty (b.cod.drop 1) = .ok r) :
    F.box b = Diagram.caps l r := F.box_cap b h hl hr
theorem F_swap (F : Functor) (b : Box) (h : b.kind = .swap) (l r : Ty)
    (hl : F.ty (b.dom.take 1) = .ok l) (hr : F.ty (b.dom.drop 1) = .ok r) :
    F.box b = Diagram.swap l r := F.box_swap b h hl hr

/-- Dagger of a generator box. -/
theorem F_dagger_box (F : Functor) (b : Box) (hk : b.kind = .gen) (hd : b.dagger = false)
    (x : Diagram) (hx : F.box b = .ok x) : F.box b.dag = .ok x.dagger := F.box_dagger b hk hd hx

/-- `F(a @ b) = F(a) @ F(b)` as an equality of all five fields. -/
theorem F_tensor (F : Functor) (a b ab fa fb : Diagram) (ha : a.WF) (hb : b.WF)
    (hoka : ∀ bx ∈ a.boxes, F.okOn bx) (hokb : ∀ bx ∈ b.boxes, F.okOn bx)
    (hab : a.tensor b = .ok ab) (hfa : F.apply a = .ok fa) (hfb : F.apply b = .ok fb) :
    ∃ r, fa.tensor fb = .ok r ∧ F.apply ab = .ok r :=
  F.apply_tensor ha hb hoka hokb hab hfa hfb

/-- `F(d†) = F(d)†` for every diagram whose boxes satisfy the box-level dagger law. -/
theorem F_dagger_partial (F : Functor) (d fd : Diagram) (hd : d.WF)
    (hok : ∀ b ∈ d.boxes, F.okOn b)
    (hdag : ∀ b ∈ d.boxes, ∀ x, F.box b = .ok x → F.box b.dag = .ok x.dagger)
    (hfd : F.apply d = .ok fd) : F.apply d.dagger = .ok fd.dagger :=
  F.apply_dagger hd hok hdag hfd

/-- The box-level dagger law holds for generator boxes (flagged or not) … -/
theorem F_dagger_box_flagged (F : Functor) (b : Box) (hk : b.kind = .gen) (hd : b.dagger = true)
    (y : Diagram) (hy : F.arLookup b.dag = .ok y) (hw : y.WF) (x : Diagram) (hx : F.box b = .ok x) :
    F.box b.dag = .ok x.dagger := F.box_dagger_flagged b hk hd hy hw hx

/-- … and FAILS for `Swap(x, y)` when both images have two wires (finding F6, witnessed on the
    real code as well): so the full statement `F_dagger` below is false and is not claimed. -/
theorem F6_swap_witness :
    (match F6.F.box F6.sw, F6.F.box F6.sw.dag with
     | .ok a, .ok b => a.dagger.eqv b
     | _, _ => true) = false := F6.swap_dagger_law_fails

/-- NOT A THEOREM (refuted by `F6_swap_witness`). -/
def F_dagger : Prop :=
  ∀ (F : Functor) (d fd : Diagram), d.WF → (∀ b ∈ d.boxes, F.okOn b) →
    F.apply d = .ok fd → F.apply d.dagger = .ok fd.dagger

/-! Non-vacuity: a functor with an empty and a two-wire object image, applied to a 2-box diagram. -/
private def x : Ob := ⟨"x", 0⟩
private def y : Ob := ⟨"y", 0⟩
private def p : Ob := ⟨"p", 0⟩
private def q : Ob := ⟨"q", 0⟩
private def f : Box := { name := "f", dom := [x], cod := [y] }
private def g : Box := { name := "g", dom := [y], cod := [x] }
private def k : Box := { name := "k", dom := [p, q], cod := [] }
private def F0 : Functor :=
  { ob := [("x", [p, q]), ("y", [])],
    ar := [(f, Diagram.ofBox k), (g, (Diagram.ofBox k).dagger)] }

example : (match F0.apply (match Diagram.mk? [x, x] [x, y] [f, g, f] [0, 0, 1] with
      | .ok d => d | .error _ => Diagram.id []) with
    | .ok r => r.dom == [p, q, p, q] && r.cod == [p, q] && r.boxes.length == 3
    | .error _ => false) = true := by decide
example : F0.ty (Ty.l [x, y]) = .ok (Ty.l [p, q]) := by decide

end DV.C04
