/-
  Props/C04.lean — C04 "functors are functorial".
  Quantified over ALL functors: object images of any length including empty (`ob`), box images
  arbitrary diagrams; the only hypothesis is `Functor.okOn` (box images are well-typed diagrams
  from the image of the domain to the image of the codomain).

  Proved: typing (image WF, dom/cod are the images of dom/cod), `F(Id) = Id(F)`,
  `F(a >> b) = F(a) >> F(b)`, `F(a @ b) = F(a) @ F(b)`, adjoints `F(t.l) = F(t).l`, `F(t.r) = F(t).r` for every winding
  number, the special rules for swaps/cups/caps, dagger for generator boxes;
  `F_slice`: `F(d[i:j]) = F(d)[i':j']` for EVERY pair of Python bounds (omitted, negative, beyond the
  end, `i > j`: normalised by `pyLo`/`pyHi`, i.e. CPython's clamping), `i' = Σ_{k<i} |F(box_k).boxes|`
  (`Functor.imgIdx`), both slices always exist; `F_sum_*`: `F(a + b) = F(a) + F(b)`,
  `F(Sum([], dom, cod)) = Sum([], F dom, F cod)`, `F(Sum([d])) = Sum([F d])`, typing of the image of a
  sum, and `F` commutes with `Sum.then`, `Sum.tensor` (and `Sum.dagger` under the box-level dagger
  law).  Bubbles are not modelled (out of scope).
  Box maps with FORMAL SUMS among their images (`FunctorS`, Model/FunctorSumImg.lean; an arrow of the
  target is a plain diagram or a sum, `DS`): `F_typing_sumimg`, `F_id_sumimg`, `F_box_sumimg`,
  `F_then_sumimg`, `F_tensor_sumimg` — the image of a composite / tensor is the library's `>>` / `@`
  of the images, which on sums is the sum over all pairs of terms, the terms of the left image
  varying slowest (`DS.thenD`, `DS.tensorD` = the order of cat.py:717 / monoidal.py:752);
  `F_sumimg_plain`: on plain images this model IS `Functor.apply`; `F_dagger_box_sumimg`;
  `F_dagger_sumimg_witness`: `F(d†) = F(d)†` is FALSE as `==` for two boxes sent to two-term sums
  (same terms, different order — finding F4c04a), so no dagger law is claimed for sum images.
  `F_dagger` is proved for diagrams whose boxes satisfy the box-level dagger
  law (`F_dagger_partial`; generator boxes do) and refuted in general (`F6_swap_witness`).  FALSE for the code (finding F6, witnessed on the real code):
  `F(Swap(x,y)†) = F(Swap(x,y))†` when both images have ≥ 2 wires.
  FREE-CATEGORY level (`cat.Functor` on a plain `cat.Arrow`, cat.py:878-879, the branch monoidal and
  rigid functors never reach; `CFunctor.applyArrow`, Model/CatArrow.lean, plain images): `CF_image`
  (closed form: the boxes of the box images one after the other, from `F(dom)`), `CF_id`, `CF_then`,
  `CF_thenN` (`F(a.then(b₁, …, bₙ)) = F(a).then(F(b₁), …, F(bₙ))`), `CF_typing`.  Formal sums as box
  images at that level are not in `CFunctor`: a plain arrow is the diagram on one-wire types with every
  offset 0, and the correspondence sends such requests to `FunctorS.applyS` (`F_then_sumimg`).
-/
import Proofs.FunctorSum
import Proofs.FunctorSumImg
import Proofs.CatFunctor

namespace DV.C04
open DV

/-- The image of a well-typed diagram is well-typed, from `F(dom)` to `F(cod)`. -/
theorem F_typing (F : Functor) (d r : Diagram) (hd : d.WF) (hok : ∀ b ∈ d.boxes, F.okOn b)
    (h : F.apply d = .ok r) : r.WF ∧ F.ty d.dom = .ok r.dom ∧ F.ty d.cod = .ok r.cod :=
  F.apply_props hd hok h

theorem F_id (F : Functor) (t t' : Ty) (h : F.ty t = .ok t') :
    F.apply (Diagram.id t) = .ok (Diagram.id t') := F.apply_id h

/-- `F(a >> b) = F(a) >> F(b)`. -/
theorem F_then (F : Functor) (a b ab fa fb : Diagram) (ha : a.WF) (hb : b.WF)
    (hok : ∀ bx ∈ a.boxes, F.okOn bx) (hab : a.then b = .ok ab)
    (hfa : F.apply a = .ok fa) (hfb : F.apply b = .ok fb) :
    ∃ r, fa.then fb = .ok r ∧ F.apply ab = .ok r := F.apply_then ha hb hok hab hfa hfb

/-- Images of types are monoid homomorphisms (lengths of images arbitrary). -/
theorem F_ty_tensor (F : Functor) (a b ta tb : Ty) (ha : F.ty a = .ok ta) (hb : F.ty b = .ok tb) :
    F.ty (a ++ b) = .ok (ta ++ tb) := F.ty_append ha hb

/-- Rigid functors send left/right adjoint types to the adjoints of the images. -/
theorem F_adjoint_l (F : Functor) (t t' : Ty) (h : F.ty t = .ok t') : F.ty (Ty.l t) = .ok (Ty.l t') :=
  F.ty_l h
theorem F_adjoint_r (F : Functor) (t t' : Ty) (h : F.ty t = .ok t') : F.ty (Ty.r t) = .ok (Ty.r t') :=
  F.ty_r h

/-- Cups, caps and swaps go to the (nested) cups, caps and swaps of the image types. -/
theorem F_cup (F : Functor) (b : Box) (h : b.kind = .cup) (l r : Ty)
    (hl : F.ty (b.dom.take 1) = .ok l) (hr : F.ty (b.dom.drop 1) = .ok r) :
    F.box b = Diagram.cups l r := F.box_cup b h hl hr
theorem F_cap (F : Functor) (b : Box) (h : b.kind = .cap) (l r : Ty)
    (hl : F.ty (b.cod.take 1) = .ok l) (hr : F.ty (b.cod.drop 1) = .ok r) :
    F.box b = Diagram.caps l r := F.box_cap b h hl hr
theorem F_swap (F : Functor) (b : Box) (h : b.kind = .swap) (l r : Ty)
    (hl : F.ty (b.dom.take 1) = .ok l) (hr : F.ty (b.dom.drop 1) = .ok r) :
    F.box b = Diagram.swap l r := F.box_swap b h hl hr

/-- Dagger of a generator box. -/
theorem F_dagger_box (F : Functor) (b : Box) (hk : b.kind = .gen) (hd : b.dagger = false)
    (x : Diagram) (hx : F.box b = .ok x) : F.box b.dag = .ok x.dagger := F.box_dagger b hk hd hx

/-- `F(a @ b) = F(a) @ F(b)` as an equality of all five fields. -/
theorem F_tensor (F : Functor) (a b ab fa fb : Diagram) (ha : a.WF) (hb : b.WF)
    (hoka : ∀ bx ∈ a.boxes, F.okOn bx) (hokb : ∀ bx ∈ b.boxes, F.okOn bx)
    (hab : a.tensor b = .ok ab) (hfa : F.apply a = .ok fa) (hfb : F.apply b = .ok fb) :
    ∃ r, fa.tensor fb = .ok r ∧ F.apply ab = .ok r :=
  F.apply_tensor ha hb hoka hokb hab hfa hfb

/-- `F(d†) = F(d)†` for every diagram whose boxes satisfy the box-level dagger law. -/
theorem F_dagger_partial (F : Functor) (d fd : Diagram) (hd : d.WF)
    (hok : ∀ b ∈ d.boxes, F.okOn b)
    (hdag : ∀ b ∈ d.boxes, ∀ x, F.box b = .ok x → F.box b.dag = .ok x.dagger)
    (hfd : F.apply d = .ok fd) : F.apply d.dagger = .ok fd.dagger :=
  F.apply_dagger hd hok hdag hfd

/-- The box-level dagger law holds for generator boxes (flagged or not) … -/
theorem F_dagger_box_flagged (F : Functor) (b : Box) (hk : b.kind = .gen) (hd : b.dagger = true)
    (y : Diagram) (hy : F.arLookup b.dag = .ok y) (hw : y.WF) (x : Diagram) (hx : F.box b = .ok x) :
    F.box b.dag = .ok x.dagger := F.box_dagger_flagged b hk hd hy hw hx

/-- … and FAILS for `Swap(x, y)` when both images have two wires (finding F6, witnessed on the
    real code as well): so the full statement `F_dagger` below is false and is not claimed. -/
theorem F6_swap_witness :
    (match F6.F.box F6.sw, F6.F.box F6.sw.dag with
     | .ok a, .ok b => a.dagger.eqv b
     | _, _ => true) = false := F6.swap_dagger_law_fails

/-- NOT A THEOREM (refuted by `F6_swap_witness`). -/
def F_dagger : Prop :=
  ∀ (F : Functor) (d fd : Diagram), d.WF → (∀ b ∈ d.boxes, F.okOn b) →
    F.apply d = .ok fd → F.apply d.dagger = .ok fd.dagger

/-! ### Slices -/

/-- `F(d[i:j]) = F(d)[i':j']` for all Python slice bounds `i`, `j` (`none` = omitted), where
    `i' = Σ_{k < pyLo n i} |F(box_k).boxes|`, `j' = Σ_{k < pyHi n j} |F(box_k).boxes|` and `pyLo`, `pyHi`
    are CPython's normalisation of the bounds to `[0, n]`.  Both slices always exist; when the
    normalised `i` exceeds the normalised `j` both sides are the identity on the image of the type
    before box `i`. -/
theorem F_slice (F : Functor) (d fd : Diagram) (hd : d.WF) (hok : ∀ b ∈ d.boxes, F.okOn b)
    (hfd : F.apply d = .ok fd) (i j : Option Int) :
    ∃ s fs, d.slice i j = .ok s ∧ F.apply s = .ok fs ∧
      fd.slice (some (F.imgIdx d.boxes (pyLo d.boxes.length i) : Nat))
               (some (F.imgIdx d.boxes (pyHi d.boxes.length j) : Nat)) = .ok fs :=
  F.apply_slice hd hok hfd i j

/-- The plain case `0 ≤ i, j ≤ len(d)`: no normalisation needed. -/
theorem F_slice_nat (F : Functor) (d fd : Diagram) (hd : d.WF) (hok : ∀ b ∈ d.boxes, F.okOn b)
    (hfd : F.apply d = .ok fd) (i j : Nat) (hi : i ≤ d.boxes.length) (hj : j ≤ d.boxes.length) :
    ∃ s fs, d.slice (some (i : Int)) (some (j : Int)) = .ok s ∧ F.apply s = .ok fs ∧
      fd.slice (some (F.imgIdx d.boxes i : Nat)) (some (F.imgIdx d.boxes j : Nat)) = .ok fs :=
  F.apply_slice_nat hd hok hfd i j hi hj

/-- The slice the law speaks about is made of the boxes and offsets `d.boxes[i:j]`, `d.offsets[i:j]`. -/
theorem slice_boxes (d s : Diagram) (hd : d.WF) (i j : Option Int) (h : d.slice i j = .ok s) :
    s.boxes = pySlice d.boxes i j ∧ s.offsets = pySlice d.offsets i j :=
  Diagram.slice_boxes hd i j h

/-- The re-indexed bounds are monotone and stay within the image (`imgIdx … len(d) = len(F(d))`). -/
theorem imgIdx_mono (F : Functor) (bs : List Box) (a b : Nat) (h : a ≤ b) :
    F.imgIdx bs a ≤ F.imgIdx bs b := F.imgIdx_mono bs h

/-! ### Formal sums (cat.py:833-835) -/

/-- Typing: the image of a well-typed sum is a well-typed sum from `F(dom)` to `F(cod)`. -/
theorem F_sum_typing (F : Functor) (s r : Sum) (hs : s.WF) (hok : F.okOnSum s)
    (h : F.applySum s = .ok r) : r.WF ∧ F.ty s.dom = .ok r.dom ∧ F.ty s.cod = .ok r.cod :=
  F.applySum_wf hs hok h

/-- The terms of the image are the images of the terms, and on a well-typed sum the constructor's
    re-validation never refuses them. -/
theorem F_sum_terms (F : Functor) (s : Sum) (ts : List Diagram) (d c : Ty) (hs : s.WF)
    (hok : F.okOnSum s) (hm : F.Maps s.terms ts) (hd : F.ty s.dom = .ok d) (hc : F.ty s.cod = .ok c) :
    F.applySum s = .ok ⟨ts, d, c⟩ := (F.applySum_props hs hok hm hd hc).1

/-- `F(Sum([], dom, cod)) = Sum([], F(dom), F(cod))`. -/
theorem F_sum_empty (F : Functor) (dom cod d c : Ty) (hd : F.ty dom = .ok d) (hc : F.ty cod = .ok c) :
    F.applySum (Sum.zero dom cod) = .ok (Sum.zero d c) := F.applySum_zero hd hc

/-- `F(Sum([x])) = Sum([F(x)])`. -/
theorem F_sum_single (F : Functor) (x fx : Diagram) (hx : x.WF) (hok : ∀ b ∈ x.boxes, F.okOn b)
    (h : F.apply x = .ok fx) : F.applySum (Sum.single x) = .ok (Sum.single fx) :=
  F.applySum_single hx hok h

/-- `F(a + b) = F(a) + F(b)` (no hypothesis on the functor or on the terms). -/
theorem F_sum_add (F : Functor) (a b ab fa fb : Sum) (hd : a.dom = b.dom) (hc : a.cod = b.cod)
    (hab : a.add b = .ok ab) (hfa : F.applySum a = .ok fa) (hfb : F.applySum b = .ok fb) :
    ∃ r, fa.add fb = .ok r ∧ F.applySum ab = .ok r := F.applySum_add hd hc hab hfa hfb

/-- `F(a >> b) = F(a) >> F(b)` for sums. -/
theorem F_sum_then (F : Functor) (a b ab fa fb : Sum) (ha : a.WF) (hb : b.WF) (hoka : F.okOnSum a)
    (hokb : F.okOnSum b) (h : a.cod = b.dom) (hab : a.then b = .ok ab)
    (hfa : F.applySum a = .ok fa) (hfb : F.applySum b = .ok fb) :
    ∃ r, fa.then fb = .ok r ∧ F.applySum ab = .ok r :=
  F.applySum_then ha hb hoka hokb h hab hfa hfb

/-- `F(a @ b) = F(a) @ F(b)` for sums. -/
theorem F_sum_tensor (F : Functor) (a b ab fa fb : Sum) (ha : a.WF) (hb : b.WF) (hoka : F.okOnSum a)
    (hokb : F.okOnSum b) (hab : a.tensor b = .ok ab)
    (hfa : F.applySum a = .ok fa) (hfb : F.applySum b = .ok fb) :
    ∃ r, fa.tensor fb = .ok r ∧ F.applySum ab = .ok r :=
  F.applySum_tensor ha hb hoka hokb hab hfa hfb

/-- `F(a†) = F(a)†` for sums whose boxes satisfy the box-level dagger law (cf. `F_dagger_partial`). -/
theorem F_sum_dagger_partial (F : Functor) (a a' fa : Sum) (ha : a.WF) (hok : F.okOnSum a)
    (hdag : ∀ t ∈ a.terms, ∀ b ∈ t.boxes, ∀ x, F.box b = .ok x → F.box b.dag = .ok x.dagger)
    (had : a.dagger = .ok a') (hfa : F.applySum a = .ok fa) :
    ∃ r, fa.dagger = .ok r ∧ F.applySum a' = .ok r := F.applySum_dagger ha hok hdag had hfa

/-! ### Box maps with formal sums among their images (Model/FunctorSumImg.lean) -/

/-- The image of a well-typed diagram is well-typed (each term of it, when it is a formal sum), from
    `F(dom)` to `F(cod)`. -/
theorem F_typing_sumimg (F : FunctorS) (d : Diagram) (r : DS) (hd : d.WF)
    (hok : ∀ b ∈ d.boxes, F.okOn b) (h : F.applyS d = .ok r) :
    r.WF ∧ F.ty d.dom = .ok r.dom ∧ F.ty d.cod = .ok r.cod := F.applyS_props hd hok h

theorem F_id_sumimg (F : FunctorS) (t t' : Ty) (h : F.ty t = .ok t') :
    F.applyS (Diagram.id t) = .ok (.diag (Diagram.id t')) := F.applyS_id h

/-- The image of a one-box diagram is what the box map says (a sum stays that sum, term by term). -/
theorem F_box_sumimg (F : FunctorS) (b : Box) (x : DS) (hb : F.okOn b) (hx : F.box b = .ok x) :
    F.applyS (Diagram.ofBox b) = .ok x := F.applyS_ofBox hb hx

/-- `F(a >> b) = F(a) >> F(b)` when box images may be formal sums: the library's `>>` of the two
    images (`DS.then`: `Diagram.then`, or `Sum.then` after wrapping a plain operand) succeeds and is
    the image of the composite; its value `DS.thenD` lists, for sums, every pair of terms
    `f >> g`, `f` in `F(a)` varying slowest. -/
theorem F_then_sumimg (F : FunctorS) (a b ab : Diagram) (fa fb : DS) (ha : a.WF) (hb : b.WF)
    (hoka : ∀ bx ∈ a.boxes, F.okOn bx) (hokb : ∀ bx ∈ b.boxes, F.okOn bx)
    (hab : a.then b = .ok ab) (hfa : F.applyS a = .ok fa) (hfb : F.applyS b = .ok fb) :
    fa.then fb = .ok (fa.thenD fb) ∧ F.applyS ab = .ok (fa.thenD fb) :=
  F.applyS_then ha hb hoka hokb hab hfa hfb

/-- `F(a @ b) = F(a) @ F(b)` when box images may be formal sums (terms `f @ g`, `f` slowest). -/
theorem F_tensor_sumimg (F : FunctorS) (a b ab : Diagram) (fa fb : DS) (ha : a.WF) (hb : b.WF)
    (hoka : ∀ bx ∈ a.boxes, F.okOn bx) (hokb : ∀ bx ∈ b.boxes, F.okOn bx)
    (hab : a.tensor b = .ok ab) (hfa : F.applyS a = .ok fa) (hfb : F.applyS b = .ok fb) :
    fa.tensor fb = .ok (fa.tensorD fb) ∧ F.applyS ab = .ok (fa.tensorD fb) :=
  F.applyS_tensor ha hb hoka hokb hab hfa hfb

/-- The terms of a composite of two sums, explicitly: all pairs, left factor slowest. -/
theorem thenD_terms_sumimg (sa sb : Sum) :
    (DS.thenD (.sum sa) (.sum sb)) =
      .sum ⟨sa.terms.flatMap fun f => sb.terms.map (Diagram.thenD f), sa.dom, sb.cod⟩ := rfl

/-- With plain images only, the model with sums among the images is `Functor.apply`. -/
theorem F_sumimg_plain (F : Functor) (d : Diagram) : F.toS.applyS d = DS.ofDiag (F.apply d) :=
  F.toS_applyS d

/-- The image of a daggered generator is the dagger of the image (`Sum.dagger` for a sum). -/
theorem F_dagger_box_sumimg (F : FunctorS) (b : Box) (hk : b.kind = .gen) (hd : b.dagger = false)
    (x : DS) (hx : F.box b = .ok x) : F.box b.dag = x.dagger := F.box_dagger b hk hd hx

/-- `F(d†) = F(d)†` FAILS as `==` for `f >> g` with `F(f) = a + b`, `F(g) = c + e`: four terms on
    each side, the same ones, in different orders (finding F4c04a; same root cause as F15). -/
theorem F_dagger_sumimg_witness :
    (match SumImgDagger.lhs, SumImgDagger.rhs with
     | .ok p, .ok q => p.eqv q
     | _, _ => true) = false ∧
    (SumImgDagger.termsOf SumImgDagger.lhs).length = 4 ∧
    (SumImgDagger.termsOf SumImgDagger.lhs).all
      (fun t => (SumImgDagger.termsOf SumImgDagger.rhs).contains t) = true :=
  ⟨SumImgDagger.lhs_ne_rhs, SumImgDagger.four_terms.1, SumImgDagger.same_terms.1⟩

/-- NOT A THEOREM (refuted by `F_dagger_sumimg_witness`). -/
def F_dagger_sumimg : Prop :=
  ∀ (F : FunctorS) (d : Diagram) (fd : DS), d.WF → (∀ b ∈ d.boxes, F.okOn b) →
    F.applyS d = .ok fd → F.applyS d.dagger = fd.dagger

/-! Non-vacuity: a functor with an empty and a two-wire object image, applied to a 2-box diagram. -/
private def x : Ob := ⟨"x", 0⟩
private def y : Ob := ⟨"y", 0⟩
private def p : Ob := ⟨"p", 0⟩
private def q : Ob := ⟨"q", 0⟩
private def f : Box := { name := "f", dom := [x], cod := [y] }
private def g : Box := { name := "g", dom := [y], cod := [x] }
private def k : Box := { name := "k", dom := [p, q], cod := [] }
private def F0 : Functor :=
  { ob := [("x", [p, q]), ("y", [])],
    ar := [(f, Diagram.ofBox k), (g, (Diagram.ofBox k).dagger)] }

example : (match F0.apply (match Diagram.mk? [x, x] [x, y] [f, g, f] [0, 0, 1] with
      | .ok d => d | .error _ => Diagram.id []) with
    | .ok r => r.dom == [p, q, p, q] && r.cod == [p, q] && r.boxes.length == 3
    | .error _ => false) = true := by decide
example : F0.ty (Ty.l [x, y]) = .ok (Ty.l [p, q]) := by decide

/-! Slices and sums: a functor whose box images have 2, 0 and 1 boxes (so the bounds really move),
    on `f >> g >> f >> e`; bounds `[1:3]`, `[-3:]`, `[2:1]` (empty, `i > j`), `[:7]`. -/
private def h1 : Box := { name := "h1", dom := [p], cod := [q, q] }
private def h2 : Box := { name := "h2", dom := [q, q], cod := [p] }
private def e : Box := { name := "e", dom := [y], cod := [y] }
private def h3 : Box := { name := "h3", dom := [p], cod := [p] }
private def h1d : Diagram := Diagram.ofBox h1
private def h2d : Diagram := Diagram.ofBox h2
private def F1 : Functor :=
  { ob := [("x", [p]), ("y", [p])],
    ar := [(f, h1d.thenD h2d), (g, Diagram.id [p]), (e, Diagram.ofBox h3)] }
private def d1 : Diagram :=
  match Diagram.mk? [x] [y] [f, g, f, e] [0, 0, 0, 0] with
  | .ok d => d | .error _ => Diagram.id []

private def sliceLaw (F : Functor) (d : Diagram) (i j : Option Int) : Bool :=
  match F.apply d, d.slice i j with
  | .ok fd, .ok s =>
    (match F.apply s, fd.slice (some (F.imgIdx d.boxes (pyLo d.boxes.length i) : Nat))
        (some (F.imgIdx d.boxes (pyHi d.boxes.length j) : Nat)) with
     | .ok a, .ok b => a == b && decide (a.boxes.length = F.imgIdx s.boxes s.boxes.length)
     | _, _ => false)
  | _, _ => false

example : (d1.boxes.length, (match F1.apply d1 with | .ok r => r.boxes.length | .error _ => 0),
    F1.imgIdx d1.boxes 1, F1.imgIdx d1.boxes 2, F1.imgIdx d1.boxes 3) = (4, 5, 2, 2, 4) := by decide
example : sliceLaw F1 d1 (some 1) (some 3) = true := by decide
example : sliceLaw F1 d1 (some (-3)) none = true := by decide
example : sliceLaw F1 d1 (some 2) (some 1) = true := by decide
example : sliceLaw F1 d1 none (some 7) = true := by decide

private def s1 : Sum := ⟨[d1, d1], [x], [y]⟩
example : (match F1.applySum s1, F1.apply d1 with
    | .ok r, .ok fd => r == ⟨[fd, fd], [p], [p]⟩ && fd.boxes.length == 5
    | _, _ => false) = true := by decide
example : F1.applySum (Sum.zero [x, y] [y]) = .ok (Sum.zero [p, p] [p]) := by decide

/-! Sum images: `f ↦ k + k'` (two terms), `g ↦ Sum([])` / a one-term sum; `F(f >> g)`, `F(f @ f)`. -/
private def k' : Box := { name := "k'", dom := [p, q], cod := [] }
private def m1 : Box := { name := "m1", dom := [], cod := [p, q] }
private def m2 : Box := { name := "m2", dom := [], cod := [p, q] }
private def FS0 : FunctorS :=
  { ob := [("x", [p, q]), ("y", [])],
    ar := [(f, .sum ⟨[Diagram.ofBox k, Diagram.ofBox k'], [p, q], []⟩),
           (g, .sum ⟨[Diagram.ofBox m1, Diagram.ofBox m2], [], [p, q]⟩)] }
private def fg : Diagram := (Diagram.ofBox f).thenD (Diagram.ofBox g)
private def ff : Diagram := (Diagram.ofBox f).tensorD (Diagram.ofBox f)

private def termBoxes : Except Err DS → List (List String × List Int)
  | .ok (.sum s) => s.terms.map fun t => (t.boxes.map (·.name), t.offsets)
  | _ => []

example : termBoxes (FS0.applyS fg) =
    [(["k", "m1"], [0, 0]), (["k", "m2"], [0, 0]), (["k'", "m1"], [0, 0]), (["k'", "m2"], [0, 0])] := by
  decide
example : termBoxes (FS0.applyS ff) =
    [(["k", "k"], [0, 0]), (["k", "k'"], [0, 0]), (["k'", "k"], [0, 0]), (["k'", "k'"], [0, 0])] := by
  decide
example : (match FS0.applyS (Diagram.ofBox f), FS0.applyS (Diagram.ofBox g), FS0.applyS fg with
    | .ok a, .ok b, .ok ab => (match a.then b with | .ok r => r == ab | .error _ => false)
    | _, _, _ => false) = true := by decide
example : FS0.okOn f := by
  intro x hx
  have : x = .sum ⟨[Diagram.ofBox k, Diagram.ofBox k'], [p, q], []⟩ := by
    have h : FS0.box f = .ok (.sum ⟨[Diagram.ofBox k, Diagram.ofBox k'], [p, q], []⟩) := by decide
    rw [h] at hx; exact (Except.ok.inj hx).symm
  subst this
  refine ⟨?_, by decide, by decide⟩
  intro t ht
  simp only [List.mem_cons, List.not_mem_nil, or_false] at ht
  rcases ht with rfl | rfl
  · exact ⟨Diagram.ofBox_wf _, rfl, rfl⟩
  · exact ⟨Diagram.ofBox_wf _, rfl, rfl⟩

/-! ### The free-category level: `cat.Functor` on plain arrows (cat.py:878-879) -/

/-- The image in closed form: it starts on the image of the domain and its boxes are the boxes of
    the box images, one after the other. -/
theorem CF_image (F : CFunctor) (a r : LArrow) (h : F.applyArrow a = .ok r) :
    ∃ t imgs, F.obj a.dom = .ok t ∧ F.images a.boxes = .ok imgs ∧ AJunctions t imgs ∧
      r = ⟨t, alastCod t imgs, (imgs.map (·.boxes)).flatten⟩ := F.applyArrow_eq h

/-- With box images typed `F(dom) → F(cod)` the image of a well-typed arrow exists, is well-typed,
    and goes from the image of the domain to the image of the codomain. -/
theorem CF_typing (F : CFunctor) (a : LArrow) (t : Ty) (imgs : List LArrow)
    (hF : F.ImagesWF) (ha : a.WF) (hb : ∀ l ∈ a.boxes, F.okOn l)
    (ht : F.obj a.dom = .ok t) (hi : F.images a.boxes = .ok imgs) :
    ∃ r, F.applyArrow a = .ok r ∧ r.WF ∧ F.obj a.dom = .ok r.dom ∧ F.obj a.cod = .ok r.cod :=
  F.applyArrow_typed hF ha hb ht hi

theorem CF_id (F : CFunctor) (t t' : Ty) (h : F.obj t = .ok t') :
    F.applyArrow (LArrow.id t) = .ok (LArrow.id t') := F.applyArrow_id h

/-- `F(a >> b) = F(a) >> F(b)` for functors of the free category. -/
theorem CF_then (F : CFunctor) (a b ab fa fb : LArrow) (ha : a.WF)
    (hok : ∀ l ∈ a.boxes, F.okOn l) (hab : a.then b = .ok ab)
    (hfa : F.applyArrow a = .ok fa) (hfb : F.applyArrow b = .ok fb) :
    ∃ r, fa.then fb = .ok r ∧ F.applyArrow ab = .ok r := F.applyArrow_then ha hok hab hfa hfb

/-- `F(a.then(b₁, …, bₙ)) = F(a).then(F(b₁), …, F(bₙ))`. -/
theorem CF_thenN (F : CFunctor) (a d fa : LArrow) (bs fbs : List LArrow)
    (ha : a.WF) (hbs : ∀ b ∈ bs, b.WF)
    (hok : ∀ l ∈ a.boxes, F.okOn l) (hoks : ∀ b ∈ bs, ∀ l ∈ b.boxes, F.okOn l)
    (h : a.thenN bs = .ok d) (hfa : F.applyArrow a = .ok fa) (hfbs : F.ImagesOf bs fbs) :
    ∃ r, fa.thenN fbs = .ok r ∧ F.applyArrow d = .ok r :=
  F.applyArrow_thenN ha hbs hok hoks h hfa hfbs

private def ox : Ty := [{ name := "x" }]
private def oy : Ty := [{ name := "y" }]
private def oz : Ty := [{ name := "z" }]
private def cf : Layer := ⟨[], { name := "f", dom := ox, cod := oy }, []⟩
private def cg : Layer := ⟨[], { name := "g", dom := oy, cod := oz }, []⟩
private def ca : Layer := ⟨[], { name := "a", dom := oy, cod := oy }, []⟩
private def cb : Layer := ⟨[], { name := "b", dom := oy, cod := ox }, []⟩
/-- x ↦ y, y ↦ y, z ↦ x; f ↦ a >> a, g ↦ b. -/
private def CF0 : CFunctor :=
  { ob := [(ox, oy), (oy, oy), (oz, ox)],
    ar := [(cf, ⟨⟨oy, oy, [ca, ca]⟩, false⟩), (cg, ⟨cb.arrow, true⟩)] }

example : CF0.applyArrow ⟨ox, oz, [cf, cg]⟩ = .ok ⟨oy, ox, [ca, ca, cb]⟩ := by decide
example : (match CF0.applyArrow cf.arrow, CF0.applyArrow cg.arrow with
    | .ok a, .ok b => a.then b
    | _, _ => .error .value) = CF0.applyArrow ⟨ox, oz, [cf, cg]⟩ := by decide
example : CF0.okOn cf := by
  intro x hx
  have h : CF0.box cf = .ok ⟨⟨oy, oy, [ca, ca]⟩, false⟩ := by decide
  rw [h] at hx; cases hx; exact ⟨by decide, by decide⟩
example : CF0.ImagesOf [cg.arrow] [cb.arrow] := ⟨by decide, trivial⟩

end DV.C04
