/-
  Props/C06.lean — C06 "monoidal normal form is a sound, idempotent, canonical representative".

  PARTIAL.  Proved (for all diagrams, both `left` settings, all prefixes of the trace):
    * every step accepted by the step relation `rstep` (a redex followed by the interchange the
      code performs) is a legal single interchange: well-typed, same dom/cod, same boxes, an
      instance of the exchange relation, same denotation under every monoidal functor;
    * the model's transcription of `normalize` yields exactly such a trace (so no step of it
      can fail), and the code's own trace is checked against `rstep` on every run;
    * a returned normal form has no redex left and is a fixed point of `normal_form`;
    * `normal_form` is a function of the `normalize` trace, with the CACHE OF ALL STEPS of
      rewriting.py:146-151: it raises NotImplementedError iff the trace hands out a diagram that is
      `==` to ANY earlier step (not only to the input: the trace of a disconnected diagram may leave
      the input along a tail and cycle elsewhere), otherwise it returns the last step of the trace;
      with more passes of fuel than there are diagrams to visit the model never runs out of fuel:
      it returns a fixed point or reports non-termination.
  NOT proved (full statements below as `Prop`s that no theorem claims; supported — not proved —
  by the exhaustive interchanger-class exploration of the thorough tier on the real code):
    * `C06_termination`: for connected diagrams the rewriting terminates;
    * `C06_canonicity`: interchanger-equivalent connected diagrams have the same normal form.
  These are the confluence/termination theorems of arXiv:1804.07832.
-/
import Proofs.Normalize
import Proofs.NormalFormRepeat

namespace DV.C06
open DV

/-- One accepted step is a legal single interchange. -/
theorem step_legal (left : Bool) (d d' : Diagram) (hd : d.WF) (h : rstep left d d' = true) :
    d'.WF ∧ d'.dom = d.dom ∧ d'.cod = d.cod ∧ Exch d d' ∧ d'.boxes.Perm d.boxes :=
  let ok := rstep_ok hd h; ⟨ok.wf, ok.dom, ok.cod, ok.exch, ok.perm⟩

/-- Every prefix of an accepted trace: well-typed, same type, same boxes. -/
theorem trace_typed (left : Bool) (d : Diagram) (steps : List Diagram) (hd : d.WF)
    (h : checkTrace left d steps 0 = none) :
    ∀ s ∈ steps, s.WF ∧ s.dom = d.dom ∧ s.cod = d.cod ∧ s.boxes.Perm d.boxes :=
  checkTrace_ok hd h

/-- Every prefix of an accepted trace denotes the input's morphism under every monoidal functor. -/
theorem trace_sound {O M : Type} (C : SMC O M) (F : MFunctor C) (left : Bool) (d : Diagram)
    (steps : List Diagram) (hd : d.WF) (h : checkTrace left d steps 0 = none) :
    ∀ s ∈ steps, F.eval s = F.eval d :=
  checkTrace_sound F hd h

/-- One pass of the model's transcription of `normalize` yields an accepted trace ending in the
    diagram it returns (hence, by `trace_typed`/`trace_sound`, legal steps only). -/
theorem model_normalize_is_trace (left : Bool) (d d' : Diagram) (steps : List Diagram)
    (h : normalizePass left (d.boxes.length - 1) 0 d [] = .ok (d', steps)) :
    checkTrace left d steps 0 = none ∧ lastOr d steps = d' :=
  let r := normalizePass_trace (d0 := d) (acc := []) rfl rfl h; ⟨r.1, r.2.1⟩

/-- A returned normal form is terminal and a fixed point (idempotence). -/
theorem normal_form_fixed (left : Bool) (fuel : Nat) (d n : Diagram)
    (h : d.normalForm left fuel = .ok n) :
    terminal left n = true ∧ ∀ fuel', n.normalForm left (fuel' + 1) = .ok n :=
  let r := normalFormLoop_fixed h; ⟨r.1, fun f => r.2 f []⟩

/-- `normal_form` as a function of the `normalize` trace (fuel = passes): NotImplementedError iff a
    step is `==` to an earlier step, else the last step of a finished trace. -/
theorem normal_form_of_trace (left : Bool) (fuel : Nat) (d : Diagram) (steps : List Diagram)
    (fin : Bool) (h : normalizeTrace left fuel d [] = .ok (steps, fin)) :
    d.normalForm left fuel =
      if hasRepeat [] steps then .error .notImpl
      else if fin then .ok (lastOr d steps) else .error .fuel := by
  obtain ⟨steps', hs, hl⟩ := normalFormLoop_of_trace (cache := []) h
  simp only [List.nil_append] at hs
  subst hs
  exact hl

/-- Non-termination is REPORTED whichever earlier diagram the trace comes back to: if step `j` of
    the trace is `==` to an earlier step `i` (not necessarily the input, not necessarily the first
    step), `normal_form` raises NotImplementedError. -/
theorem normal_form_detects_any_repeat (left : Bool) (fuel : Nat) (d : Diagram)
    (steps : List Diagram) (fin : Bool) (h : normalizeTrace left fuel d [] = .ok (steps, fin))
    (i j : Nat) (hij : i < j) (hj : j < steps.length)
    (he : (steps[i]'(by omega)).eqv steps[j] = true) :
    d.normalForm left fuel = .error .notImpl := by
  rw [normal_form_of_trace left fuel d steps fin h,
    (hasRepeat_iff [] steps).mpr ⟨j, hj, Or.inr ⟨i, hij, he⟩⟩]
  rfl

/-- … and only then: NotImplementedError means that some step repeated an earlier one. -/
theorem normal_form_notimpl_only_on_repeat (left : Bool) (fuel : Nat) (d : Diagram)
    (steps : List Diagram) (fin : Bool) (h : normalizeTrace left fuel d [] = .ok (steps, fin))
    (hn : d.normalForm left fuel = .error .notImpl) :
    ∃ (i j : Nat) (hij : i < j) (hj : j < steps.length),
      (steps[i]'(by omega)).eqv steps[j] = true := by
  rw [normal_form_of_trace left fuel d steps fin h] at hn
  by_cases hr : hasRepeat [] steps = true
  · obtain ⟨j, hj, hc | ⟨i, hi, he⟩⟩ := (hasRepeat_iff [] steps).mp hr
    · obtain ⟨c, hc, _⟩ := hc
      cases hc
    · exact ⟨i, j, hi, hj, he⟩
  · simp only [hr, Bool.false_eq_true, if_false] at hn
    split at hn <;> cases hn

/-- The index the driver's `nfrepeat` reports exists exactly when NotImplementedError is raised. -/
theorem normal_form_notimpl_iff_first_repeat (left : Bool) (fuel : Nat) (d : Diagram)
    (steps : List Diagram) (fin : Bool) (h : normalizeTrace left fuel d [] = .ok (steps, fin)) :
    d.normalForm left fuel = .error .notImpl ↔ (firstRepeat [] steps 0).isSome = true := by
  rw [normal_form_of_trace left fuel d steps fin h, firstRepeat_isSome]
  by_cases hr : hasRepeat [] steps = true
  · simp [hr]
  · simp only [hr, Bool.false_eq_true, if_false, iff_false]
    split <;> simp

/-- Without a repeat a finished trace is walked to its end: the value is its last step. -/
theorem normal_form_returns_last_of_trace (left : Bool) (fuel : Nat) (d : Diagram)
    (steps : List Diagram) (h : normalizeTrace left fuel d [] = .ok (steps, true))
    (hr : hasRepeat [] steps = false) : d.normalForm left fuel = .ok (lastOr d steps) := by
  rw [normal_form_of_trace left fuel d steps true h, hr]
  rfl

/-- With more passes of fuel than there are diagrams the trace can visit (`U` lists them up to
    `==`), the model never answers "out of fuel": it returns a fixed point or reports
    non-termination. -/
theorem normal_form_no_fuel_error (left : Bool) (fuel : Nat) (d : Diagram) (steps U : List Diagram)
    (fin : Bool) (h : normalizeTrace left fuel d [] = .ok (steps, fin))
    (hU : ∀ s ∈ steps, ∃ u ∈ U, u.eqv s = true) (hfuel : U.length < fuel) :
    d.normalForm left fuel = .error .notImpl ∨
      ∃ n, d.normalForm left fuel = .ok n ∧ terminal left n = true ∧
        ∀ fuel', n.normalForm left (fuel' + 1) = .ok n := by
  cases fin with
  | false =>
    left
    have hlen := normalizeTrace_length h
    simp only [List.length_nil, Nat.zero_add] at hlen
    obtain ⟨i, j, hij, hj, he⟩ := exists_repeat_of_finite hU (by omega)
    exact normal_form_detects_any_repeat left fuel d steps false h i j hij hj he
  | true =>
    have hnf := normal_form_of_trace left fuel d steps true h
    by_cases hr : hasRepeat [] steps = true
    · left; rw [hnf, hr]; rfl
    · right
      simp only [hr, Bool.false_eq_true, if_false, if_true] at hnf
      exact ⟨_, hnf, normal_form_fixed left fuel d _ hnf⟩

/-- The interchanger equivalence generated by `Exch`. -/
inductive ExchEquiv : Diagram → Diagram → Prop
  | refl (d) : ExchEquiv d d
  | step {a b c} : ExchEquiv a b → (Exch b c ∨ Exch c b) → ExchEquiv a c

/-- NOT PROVED. -/
def C06_termination : Prop :=
  ∀ (left : Bool) (d : Diagram), d.WF → connected d →
    ∃ fuel n, d.normalForm left fuel = .ok n

/-- NOT PROVED. -/
def C06_canonicity : Prop :=
  ∀ (left : Bool) (d e n m : Diagram) (f g : Nat), d.WF → e.WF → ExchEquiv d e →
    connected d →
    d.normalForm left f = .ok n → e.normalForm left g = .ok m → n = m

/-! Non-vacuity: the spiral-like example normalises in the model, the trace is accepted. -/
private def x : Ob := ⟨"x", 0⟩
private def f : Box := { name := "f", dom := [x], cod := [x] }
private def g : Box := { name := "g", dom := [x], cod := [x] }
private def d0 : Diagram :=
  match Diagram.mk? [x, x] [x, x] [g, f] [1, 0] with | .ok d => d | .error _ => Diagram.id []

example : d0.WF := by
  have : Diagram.mk? [x, x] [x, x] [g, f] [1, 0] = .ok d0 := by decide
  exact Diagram.mk?_wf this
example : wired ({ d0 with boxes := [f, g], offsets := [0, 0] }) 0 1 := ⟨_, rfl, by decide⟩
example : (match normalizePass false 1 0 d0 [] with
    | .ok (_, steps) => steps.length == 1 && (checkTrace false d0 steps 0).isNone
    | .error _ => false) = true := by decide
example : (match d0.normalForm false 10 with
    | .ok n => n.boxes == [f, g] && n.offsets == [0, 1] && terminal false n
    | .error _ => false) = true := by decide

/-! Non-vacuity of the repeat theorems: two nested closed loops
    `unit0 >> Id(x) @ unit1 >> Id(x) @ counit1 >> counit0` (disconnected).  Its right normalisation
    never ends, never comes back to the input, and repeats a later step: NotImplementedError. -/
private def bx (n : String) (dom cod : Ty) : Box := { name := n, dom := dom, cod := cod }
private def loops : Diagram :=
  match Diagram.mk? [] [] [bx "unit0" [] [x], bx "unit1" [] [x], bx "counit1" [x] [], bx "counit0" [x] []]
      [0, 1, 1, 0] with
  | .ok d => d | .error _ => Diagram.id []

example : loops.boxes.length = 4 := by decide
example : (match normalizeTrace false 8 loops [] with
    | .ok (steps, fin) => !fin && steps.all (fun s => !(s.eqv loops)) && hasRepeat [] steps
    | .error _ => false) = true := by decide +kernel
example : loops.normalForm false 8 = .error .notImpl := by decide +kernel

end DV.C06
