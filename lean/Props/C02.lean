/-
  Props/C02.lean — C02 "diagrams obey the strict dagger-monoidal and sum laws as equalities".
  Property theorems only; proofs are appeals to Proofs/Laws.lean and Proofs/SumLaws.lean.

  Every diagram law is stated as `=` between full `Diagram` structures (all five fields, the
  hand-maintained `layers` included).  That is stronger than the code's `==`
  (`Diagram.eqv`, monoidal.py:438-442, which ignores `layers`); `eqv_of_eq` is the bridge.
  Operations return `Except Err _`; a law "lhs == rhs" reads "both sides are defined and are
  the same value".

  NOT claimed, because false for the code (and the model): `(a @ b)[::-1] == a[::-1] @ b[::-1]`
  (holds only up to interchange; `dagger_tensor_fails`; the property does not list it).

  PARTIAL — sums, left distributivity.  `Sum.__eq__` compares ORDERED term lists, and
  `a >> (b + c)` lists its terms `f1 g, f1 h, f2 g, …` while `(a >> b) + (a >> c)` lists
  `f1 g, f2 g, …, f1 h, …`.  So `ThenDistribL` / `TensorDistribL` (sum × sum, full strength) are
  kept as unproved `def … : Prop`; their negations are theorems (`not_thenDistribL`,
  `not_tensorDistribL`, concrete witness `(f1 + f2) >> (g + h)`, finding F15).  Proved instead:
  `then_distrib_l_partial` / `tensor_distrib_l_partial` (left operand with at most one term —
  in particular any diagram) and `…_distrib_l_perm` (all sums, equal up to a permutation of
  the terms).  Right distributivity, dagger, units and the empty sum are proved in full.

  SPECIAL BOXES (Model/Special.lean): the box subclasses with their own constructor signature /
  `dagger` override (grammar Word, Swap, Cup, Cap, Discard, MixedState, Measure, Encode, Digits/Bits,
  Ket, Bra, Copy, Match, ClassicalGate, QuantumGate, rotations, Controlled, circuit.Box, Scalar,
  zx Scalar/spiders/Had, tensor Spider), modelled at box level (constructor arguments, dom, cod,
  dagger).  Proved: dagger is identity on objects for ALL of them (`special_dagger_dom/_cod`) and
  involutive on the `Plain` ones.  PARTIAL: `SpecialDaggerInvolutive` (all of them) is FALSE for
  the code — `circuit.Box(_dagger=None)`, `QuantumGate(data=…)`, `Scalar(name=…)` with non-real
  data (findings F42a-c) — kept as an unproved `def`, refuted by `not_specialDaggerInvolutive`.
  The diagram-level theorems above are about the generic `Box`; they use a box only through
  `Box.dag` being involutive and identity on objects, which is what is proved here for the
  special classes (diagrams OF special boxes are exercised on the real code by the zoo stream).
-/
import Proofs.SumLaws
import Proofs.Special

namespace DV.C02
open DV

/-- `=` implies the code's `==`. -/
theorem eqv_of_eq (a b : Diagram) (h : a = b) : a.eqv b = true := Diagram.eqv_of_eq h

/-! ### Composition: associative, unital -/

/-- `(a >> b) >> c == a >> (b >> c)`, for arbitrary operands, refusals included: either both
    bracketings are refused or both are defined and equal. -/
theorem then_assoc (a b c : Diagram) :
    (a.then b >>= fun ab => ab.then c) = (b.then c >>= fun bc => a.then bc) :=
  Diagram.then_assoc a b c

theorem then_assoc_ok (a b c ab bc : Diagram) (h1 : a.then b = .ok ab) (h2 : b.then c = .ok bc) :
    ∃ d, ab.then c = .ok d ∧ a.then bc = .ok d := Diagram.then_assoc_ok h1 h2

theorem id_then (a : Diagram) (ha : a.WF) : (Diagram.id a.dom).then a = .ok a :=
  Diagram.id_then ha

theorem then_id (a : Diagram) (ha : a.WF) : a.then (Diagram.id a.cod) = .ok a :=
  Diagram.then_id ha

/-! ### Tensor: associative, unital (unit `Ty()`), the left-to-right whiskered composite -/

theorem tensor_assoc (a b c : Diagram) (ha : a.WF) (hb : b.WF) (hc : c.WF) :
    ∃ ab bc d, a.tensor b = .ok ab ∧ b.tensor c = .ok bc ∧
      ab.tensor c = .ok d ∧ a.tensor bc = .ok d := Diagram.tensor_assoc ha hb hc

theorem tensor_id_nil_left (a : Diagram) (ha : a.WF) : (Diagram.id []).tensor a = .ok a :=
  Diagram.tensor_id_nil_left ha

theorem tensor_id_nil_right (a : Diagram) (ha : a.WF) : a.tensor (Diagram.id []) = .ok a :=
  Diagram.tensor_id_nil_right ha

/-- `a @ b == a @ Id(b.dom) >> Id(a.cod) @ b`. -/
theorem tensor_eq_whisker (a b : Diagram) (ha : a.WF) (hb : b.WF) :
    ∃ l r d, a.tensor (Diagram.id b.dom) = .ok l ∧ (Diagram.id a.cod).tensor b = .ok r ∧
      l.then r = .ok d ∧ a.tensor b = .ok d := Diagram.tensor_eq_whisker ha hb

/-! ### Dagger: involutive, identity on objects, reverses composition -/

theorem dagger_dagger (d : Diagram) (h : d.WF) : d.dagger.dagger = d := Diagram.dagger_dagger h

theorem dagger_id (t : Ty) : (Diagram.id t).dagger = Diagram.id t := Diagram.dagger_id t

theorem dagger_dom_cod (d : Diagram) (h : d.WF) : d.dagger.dom = d.cod ∧ d.dagger.cod = d.dom :=
  ⟨Diagram.dagger_dom h, Diagram.dagger_cod h⟩

/-- `(a >> b)[::-1] == b[::-1] >> a[::-1]`. -/
theorem dagger_then (a b d : Diagram) (h : a.then b = .ok d) :
    b.dagger.then a.dagger = .ok d.dagger := Diagram.dagger_then h

/-- Not a law: dagger does not commute with tensor as `==` (only up to interchange). -/
theorem dagger_tensor_fails :
    ∃ a b ab : Diagram, a.WF ∧ b.WF ∧ a.tensor b = .ok ab ∧
      ∃ r : Diagram, a.dagger.tensor b.dagger = .ok r ∧ ab.dagger.eqv r = false :=
  Diagram.dagger_tensor_fails

/-! ### Slicing -/

/-- `d[:i] >> d[i:] == d` for EVERY integer `i` (Python clamps: negative and out-of-range too). -/
theorem slice_then (d : Diagram) (h : d.WF) (i : Int) :
    ∃ p q, d.slice none (some i) = .ok p ∧ d.slice (some i) none = .ok q ∧ p.then q = .ok d :=
  Diagram.slice_then h i

/-! ### A bare box and the one-box diagram that wraps it -/

/-- `box >> Id(box.cod) == box` and `Id(box.dom) >> box == box` under the code's asymmetric
    `Box.__eq__` (monoidal.py:701-707): the composite is a plain `Diagram`, not a `Box` instance. -/
theorem box_then_id_eq (b : Box) :
    ∃ d, (Diagram.ofBox b).then (Diagram.id b.cod) = .ok d ∧ b.eqvDiagram d = true ∧
      d = Diagram.ofBox b := Box.then_id_eq b

theorem box_id_then_eq (b : Box) :
    ∃ d, (Diagram.id b.dom).then (Diagram.ofBox b) = .ok d ∧ b.eqvDiagram d = true ∧
      d = Diagram.ofBox b := Box.id_then_eq b

/-! ### Formal sums -/

/-- The empty sum is the unit of `+`. -/
theorem add_unit_l (a : Sum) (ha : a.WF) : (Sum.zero a.dom a.cod).add a = .ok a :=
  Sum.add_unit_l ha
theorem add_unit_r (a : Sum) (ha : a.WF) : a.add (Sum.zero a.dom a.cod) = .ok a :=
  Sum.add_unit_r ha

theorem add_assoc (a b c : Sum) (ha : a.WF) (hb : b.WF) (hc : c.WF)
    (h1 : a.dom = b.dom) (h2 : a.cod = b.cod) (h3 : b.dom = c.dom) (h4 : b.cod = c.cod) :
    ∃ ab bc r, a.add b = .ok ab ∧ b.add c = .ok bc ∧ ab.add c = .ok r ∧ a.add bc = .ok r :=
  Sum.add_assoc ha hb hc h1 h2 h3 h4

/-- Composition / tensor with the empty sum is the empty sum. -/
theorem then_empty_l (d c : Ty) (b : Sum) : (Sum.zero d c).then b = .ok (Sum.zero d b.cod) :=
  Sum.then_empty_l d c b
theorem then_empty_r (a : Sum) (d c : Ty) : a.then (Sum.zero d c) = .ok (Sum.zero a.dom c) :=
  Sum.then_empty_r a d c
theorem tensor_empty_l (d c : Ty) (b : Sum) :
    (Sum.zero d c).tensor b = .ok (Sum.zero (d ++ b.dom) (c ++ b.cod)) := Sum.tensor_empty_l d c b
theorem tensor_empty_r (a : Sum) (d c : Ty) :
    a.tensor (Sum.zero d c) = .ok (Sum.zero (a.dom ++ d) (a.cod ++ c)) := Sum.tensor_empty_r a d c
theorem dagger_empty (d c : Ty) : (Sum.zero d c).dagger = .ok (Sum.zero c d) := Sum.dagger_empty d c

/-- `(a + b) >> c == (a >> c) + (b >> c)`. -/
theorem then_distrib_r (a b c : Sum) (ha : a.WF) (hb : b.WF) (hc : c.WF)
    (hd : a.dom = b.dom) (hcod : a.cod = b.cod) (h : a.cod = c.dom) :
    ∃ ab ac bc r, a.add b = .ok ab ∧ a.then c = .ok ac ∧ b.then c = .ok bc ∧
      ab.then c = .ok r ∧ ac.add bc = .ok r := Sum.then_distrib_r ha hb hc hd hcod h

/-- `(a + b) @ c == (a @ c) + (b @ c)`. -/
theorem tensor_distrib_r (a b c : Sum) (ha : a.WF) (hb : b.WF) (hc : c.WF)
    (hd : a.dom = b.dom) (hcod : a.cod = b.cod) :
    ∃ ab ac bc r, a.add b = .ok ab ∧ a.tensor c = .ok ac ∧ b.tensor c = .ok bc ∧
      ab.tensor c = .ok r ∧ ac.add bc = .ok r := Sum.tensor_distrib_r ha hb hc hd hcod

/-- `(a + b)[::-1] == a[::-1] + b[::-1]`. -/
theorem dagger_distrib (a b : Sum) (ha : a.WF) (hb : b.WF) (hd : a.dom = b.dom)
    (hcod : a.cod = b.cod) :
    ∃ ab a' b' r, a.add b = .ok ab ∧ a.dagger = .ok a' ∧ b.dagger = .ok b' ∧
      ab.dagger = .ok r ∧ a'.add b' = .ok r := Sum.dagger_distrib ha hb hd hcod

theorem sum_dagger_dagger (a : Sum) (ha : a.WF) : ∃ a', a.dagger = .ok a' ∧ a'.dagger = .ok a :=
  Sum.dagger_dagger ha

/-- Full-strength left distributivity (sum × sum) — NOT proved; see the header. -/
def ThenDistribL : Prop := Sum.ThenDistribL
def TensorDistribL : Prop := Sum.TensorDistribL

/-- … it is false for the code as it is (witness `(f1 + f2) >> (g + h)`, finding F15). -/
theorem not_thenDistribL : ¬ ThenDistribL := Sum.not_thenDistribL
theorem not_tensorDistribL : ¬ TensorDistribL := Sum.not_tensorDistribL

/-- `a >> (b + c) == (a >> b) + (a >> c)` when `a` has at most one term (any diagram `a`). -/
theorem then_distrib_l_partial (a b c : Sum) (ha : a.WF) (hb : b.WF) (hc : c.WF)
    (hd : b.dom = c.dom) (hcod : b.cod = c.cod) (h : a.cod = b.dom) (hlen : a.terms.length ≤ 1) :
    ∃ bc ab ac r, b.add c = .ok bc ∧ a.then b = .ok ab ∧ a.then c = .ok ac ∧
      a.then bc = .ok r ∧ ab.add ac = .ok r := Sum.then_distrib_l_partial ha hb hc hd hcod h hlen

theorem tensor_distrib_l_partial (a b c : Sum) (ha : a.WF) (hb : b.WF) (hc : c.WF)
    (hd : b.dom = c.dom) (hcod : b.cod = c.cod) (hlen : a.terms.length ≤ 1) :
    ∃ bc ab ac r, b.add c = .ok bc ∧ a.tensor b = .ok ab ∧ a.tensor c = .ok ac ∧
      a.tensor bc = .ok r ∧ ab.add ac = .ok r := Sum.tensor_distrib_l_partial ha hb hc hd hcod hlen

/-- For all sums both sides have the same types and the same terms up to a permutation. -/
theorem then_distrib_l_perm (a b c : Sum) (ha : a.WF) (hb : b.WF) (hc : c.WF)
    (hd : b.dom = c.dom) (hcod : b.cod = c.cod) (h : a.cod = b.dom) :
    ∃ bc ab ac l r, b.add c = .ok bc ∧ a.then b = .ok ab ∧ a.then c = .ok ac ∧
      a.then bc = .ok l ∧ ab.add ac = .ok r ∧
      l.dom = r.dom ∧ l.cod = r.cod ∧ l.terms.Perm r.terms :=
  Sum.then_distrib_l_perm ha hb hc hd hcod h

theorem tensor_distrib_l_perm (a b c : Sum) (ha : a.WF) (hb : b.WF) (hc : c.WF)
    (hd : b.dom = c.dom) (hcod : b.cod = c.cod) :
    ∃ bc ab ac l r, b.add c = .ok bc ∧ a.tensor b = .ok ab ∧ a.tensor c = .ok ac ∧
      a.tensor bc = .ok l ∧ ab.add ac = .ok r ∧
      l.dom = r.dom ∧ l.cod = r.cod ∧ l.terms.Perm r.terms :=
  Sum.tensor_distrib_l_perm ha hb hc hd hcod

/-- A diagram met by a sum operation is wrapped as a one-term sum, and the operations agree
    with those on diagrams: `Sum([f]) >> Sum([g]) == Sum([f >> g])` etc. -/
theorem single_then (f g : Diagram) (hf : f.WF) (hg : g.WF) (h : f.cod = g.dom) :
    ∃ fg, f.then g = .ok fg ∧ (Sum.single f).then (Sum.single g) = .ok (Sum.single fg) :=
  ⟨_, Diagram.then_spec hf hg h, Sum.single_then hf hg h⟩
theorem single_tensor (f g : Diagram) (hf : f.WF) (hg : g.WF) :
    ∃ fg, f.tensor g = .ok fg ∧ (Sum.single f).tensor (Sum.single g) = .ok (Sum.single fg) :=
  ⟨_, Diagram.tensor_eq_tensorD hf hg, Sum.single_tensor hf hg⟩
theorem single_dagger (f : Diagram) (hf : f.WF) :
    (Sum.single f).dagger = .ok (Sum.single f.dagger) := Sum.single_dagger hf

/-! ### Special box subclasses: dagger at box level (Model/Special.lean) -/

open DV.Special in
/-- `box[::-1].dom == box.cod` for every special box, all flags, all sizes. -/
theorem special_dagger_dom (b : SBox) : b.dag.dom = b.cod := SBox.dag_dom b

open DV.Special in
theorem special_dagger_cod (b : SBox) : b.dag.cod = b.dom := SBox.dag_cod b

open DV.Special in
/-- `box[::-1][::-1] == box` (as `=` on all constructor arguments) on the `Plain` boxes — on ALL
    boxes once the model switch `f42Fixed` follows the repair of F42a-c. -/
theorem special_dagger_dagger_partial (b : SBox) (h : SBox.f42Fixed = true ∨ b.Plain) : b.dag.dag = b :=
  SBox.dag_dag b h

open DV.Special in
theorem special_dagger_plain (b : SBox) (h : b.Plain) : b.dag.Plain := SBox.dag_plain b h

open DV.Special in
/-- Full strength (no `Plain`) for the code as it is (`dagW false`): FALSE, see
    `not_specialDaggerInvolutive`. -/
def SpecialDaggerInvolutive : Prop := ∀ b : SBox, (b.dagW false).dagW false = b

open DV.Special in
theorem not_specialDaggerInvolutive : ¬ SpecialDaggerInvolutive :=
  fun h => SBox.not_dag_dag_cbox_none (h _)

open DV.Special in
theorem not_specialDaggerInvolutive_quantumGate_data :
    ((SBox.quantumGate "'W'" 1 "0.5" (some false)).dagW false).dagW false
      ≠ .quantumGate "'W'" 1 "0.5" (some false) := SBox.not_dag_dag_quantumGate_data

open DV.Special in
theorem not_specialDaggerInvolutive_scalar_named :
    ((SBox.scalar "'foo'" 0 1 false).dagW false).dagW false ≠ .scalar "'foo'" 0 1 false :=
  SBox.not_dag_dag_scalar_named

open DV.Special in
/-- With the patch proposed in notes/finding_F42.diff the involution holds for every special box. -/
theorem special_dagger_dagger_patched (b : SBox) : (b.dagW true).dagW true = b :=
  SBox.dagW_true_involutive b

section
open DV.Special DV.Special.SBox
-- the uniform distribution on a bit and its dagger (the classical cap of circuits)
example : (mixedState [bit]).dag = SBox.discard [bit] ∧ (mixedState [bit]).dag.dom = [bit] := by decide
-- a word with a domain: dagger swaps dom and cod although the constructor lists cod first
example : (word "'w'" [⟨"'n'", 0⟩, ⟨"'n'", 0⟩] [⟨"'s'", 0⟩] "-" false).dag.dom
    = [⟨"'n'", 0⟩, ⟨"'n'", 0⟩] := by decide
-- non-destructive measurement overriding bits: qubit @ bit -> qubit @ bit, dagger an Encode
example : (measure 1 false true).dom = [qubit, bit] ∧ (measure 1 false true).cod = [qubit, bit]
    ∧ (measure 1 false true).dag = encode 1 false true := by decide
example : (measure 2 true false).Plain ∧ (scalar "'scalar'" 1 2 false).Plain
    ∧ (cbox "'m'" [bit] [qubit] "-" (some true)).Plain := by decide
end

/-! ### Non-vacuity: concrete non-trivial instances (a scalar box, an effect, a daggered box,
    empty domains) on which the laws' hypotheses hold and the operations are defined. -/

private def x : Ob := ⟨"'x'", 0⟩
private def y : Ob := ⟨"'y'", 0⟩
private def f : Box := { name := "'f'", dom := [x], cod := [y, y] }
private def s : Box := { name := "'s'", dom := [], cod := [] }
private def e : Box := { name := "'e'", dom := [y], cod := [], dagger := true }

private def okWith {α} (r : Except Err α) (p : α → Bool) : Bool :=
  match r with | .error _ => false | .ok d => p d
private def d3 : Except Err Diagram := Diagram.mk? [x] [y] [f, s, e] [0, 1, 0]

example : okWith d3 (fun d => d.boxes.length == 3) = true := by decide
-- slicing at every point from -5 to 5 recomposes to the same three-box diagram
example : ([-5, -4, -3, -2, -1, 0, 1, 2, 3, 4, 5] : List Int).all (fun i =>
    okWith d3 fun d => okWith (d.slice none (some i)) fun p => okWith (d.slice (some i) none) fun q =>
      okWith (p.then q) fun r => r == d) = true := by decide
-- whiskering law on (f ⊗ e†)
example : okWith ((Diagram.ofBox f).tensor (Diagram.ofBox e)) (fun d =>
    d.boxes == [f, e] && d.offsets == [0, 2]) = true := by decide
-- a two-term sum composed with a one-term sum
example : okWith ((Sum.mk [Diagram.ofBox f, Diagram.ofBox f] [x] [y, y]).then
    (Sum.single (Diagram.id [y, y]))) (fun r => r.terms.length == 2) = true := by decide

end DV.C02
