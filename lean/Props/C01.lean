import Model
namespace DV.C01
theorem placeholder : True := trivial
end DV.C01
