/-
  Props/C01.lean — C01 "every diagram the library hands back is well-typed".
  Property theorems only; proofs are appeals to Proofs/WF.lean and Proofs/WFOps.lean.

  Free-category level (class `cat`, Model/CatArrow.lean): `LArrow.WF a` says that reading the boxes of
  a plain arrow from its domain, each box finds its own domain and the reading ends on the codomain.
  The n-ary calling convention of `then` / `tensor` (cat.py:307-310, monoidal.py:384-385, 419-422)
  is `Diagram.thenN` / `Diagram.tensorN` / `LArrow.thenN`; `cat.Functor.__call__` is `CFunctor.apply`.

  `Diagram.WF d` says: `boxes`/`offsets` are the projections of the layer view, the layer
  view reads from `d.dom` to `d.cod`, each layer finding `left ++ box.dom ++ right` — i.e.
  the statement of C01 for one value.
-/
import Proofs.WFOps
import Proofs.Foliate
import Proofs.CircuitBox
import Proofs.CatArrow
import Proofs.TyClass

namespace DV.C01
open DV

/-- Closure over all sequences of operations of the op language (composition, tensor, dagger,
    slicing, indexing, interchange, normal form, swaps, permutations, cups, caps, the public
    constructor): whatever `eval` returns is well-typed. -/
theorem eval_wf (e : Expr) (d : Diagram) (h : e.eval = .ok d) : d.WF := Expr.eval_wf e h

/-- The scanning public constructor returns only well-typed values carrying exactly the
    requested fields (ill-typed requests are therefore refused). -/
theorem mk_ok (dom cod : Ty) (bs : List Box) (os : List Int) (d : Diagram)
    (h : Diagram.mk? dom cod bs os = .ok d) :
    d.WF ∧ d.dom = dom ∧ d.cod = cod ∧ d.boxes = bs ∧ d.offsets = os := Diagram.mk?_ok h

/-- `>>` on well-typed operands succeeds exactly when the types match … -/
theorem then_ok_iff (a b : Diagram) (ha : a.WF) (hb : b.WF) :
    (∃ d, a.then b = .ok d) ↔ a.cod = b.dom := Diagram.then_ok_iff ha hb

/-- … and is refused with an axiom error otherwise. -/
theorem then_refused (a b : Diagram) (ha : a.WF) (hb : b.WF) (h : a.cod ≠ b.dom) :
    a.then b = .error .axiom := Diagram.then_err ha hb h

theorem then_wf (a b d : Diagram) (ha : a.WF) (hb : b.WF) (h : a.then b = .ok d) :
    d.WF ∧ d.dom = a.dom ∧ d.cod = b.cod := Diagram.then_props ha hb h

/-- `@` on well-typed operands always succeeds and is well-typed. -/
theorem tensor_wf (a b : Diagram) (ha : a.WF) (hb : b.WF) :
    ∃ d, a.tensor b = .ok d ∧ d.WF ∧ d.dom = a.dom ++ b.dom ∧ d.cod = a.cod ++ b.cod := by
  obtain ⟨d, h⟩ := Diagram.tensor_total ha hb
  exact ⟨d, h, Diagram.tensor_props ha hb h⟩

theorem dagger_wf (d : Diagram) (h : d.WF) :
    d.dagger.WF ∧ d.dagger.dom = d.cod ∧ d.dagger.cod = d.dom :=
  ⟨Diagram.dagger_wf h, h.lcod, h.ldom⟩

theorem slice_wf (d d' : Diagram) (s t : Option Int) (hd : d.WF) (h : d.slice s t = .ok d') :
    d'.WF := Diagram.slice_wf s t hd h

/-- Reversed slices `d[a:b:-1]` (the dagger is the case `a = b = None`). -/
theorem slice_rev_wf (d d' : Diagram) (s t : Option Int) (hd : d.WF) (h : d.sliceRev s t = .ok d') :
    d'.WF := Diagram.sliceRev_wf s t hd h

theorem interchange_wf (d d' : Diagram) (i j : Int) (left : Bool) (hd : d.WF)
    (h : d.interchange i j left = .ok d') : d'.WF ∧ d'.dom = d.dom ∧ d'.cod = d.cod :=
  Diagram.interchange_wf hd h

/-- Transposes (rigid.py:252-279) of well-typed diagrams are well-typed. -/
theorem transpose_wf (d d' : Diagram) (left : Bool) (hd : d.WF) (h : d.transpose left = .ok d') :
    d'.WF := Diagram.transpose_wf hd h

/-- Every diagram yielded by `foliate` (rewriting.py:155-255) is well-typed with the input's
    domain, codomain and boxes, and every slice it returns is well-typed. -/
theorem foliate_wf (d : Diagram) (steps slices : List Diagram) (hd : d.WF)
    (h : d.foliate = .ok (steps, slices)) :
    (∀ s ∈ steps, s.WF ∧ s.dom = d.dom ∧ s.cod = d.cod ∧ s.boxes.Perm d.boxes) ∧
    (∀ s ∈ slices, s.WF) :=
  let r := Diagram.foliate_reach hd h
  ⟨fun s hs => (r.1 s hs).wf hd, r.2⟩

/-- Every step yielded by one `normalize` pass is well-typed with the input's type. -/
theorem normalize_steps_wf (left : Bool) (d d' : Diagram) (steps : List Diagram) (hd : d.WF)
    (h : normalizePass left (d.boxes.length - 1) 0 d [] = .ok (d', steps)) :
    ∀ s ∈ steps, s.WF ∧ s.dom = d.dom ∧ s.cod = d.cod :=
  (normalizePass_wf hd (by simp) h).2

theorem normal_form_wf (d d' : Diagram) (left : Bool) (fuel : Nat) (hd : d.WF)
    (h : d.normalForm left fuel = .ok d') : d'.WF ∧ d'.dom = d.dom ∧ d'.cod = d.cod :=
  Diagram.normalForm_wf hd h

theorem swap_wf (l r : Ty) (d : Diagram) (h : Diagram.swap l r = .ok d) :
    d.WF ∧ d.dom = l ++ r ∧ d.cod = r ++ l := Diagram.swap_props h

theorem permutation_wf (p : List Int) (dom : Ty) (d : Diagram)
    (h : Diagram.permutation p dom = .ok d) : d.WF ∧ d.dom = dom := Diagram.permutation_props h

theorem cups_wf (l r : Ty) (d : Diagram) (h : Diagram.cups l r = .ok d) : d.WF :=
  Diagram.cups_wf h

theorem caps_wf (l r : Ty) (d : Diagram) (h : Diagram.caps l r = .ok d) : d.WF :=
  Diagram.caps_wf h

/-! ### The n-ary calling convention: `recv.then(b₁, …, bₙ)`, `recv.tensor(b₁, …, bₙ)` -/

/-- n-ary composition of well-typed diagrams is accepted exactly when every junction matches —
    the junction between the receiver and the first argument included, whatever the receiver is
    (an identity is no exception). -/
theorem thenN_ok_iff (a : Diagram) (bs : List Diagram) (ha : a.WF) (hbs : ∀ b ∈ bs, b.WF) :
    (∃ d, a.thenN bs = .ok d) ↔ Junctions a.cod bs := Diagram.thenN_ok_iff ha hbs

/-- … and is refused with an axiom error otherwise. -/
theorem thenN_refused (a : Diagram) (bs : List Diagram) (ha : a.WF) (hbs : ∀ b ∈ bs, b.WF)
    (h : ¬ Junctions a.cod bs) : a.thenN bs = .error .axiom := Diagram.thenN_refused ha hbs h

/-- What it hands back is well-typed, starts where the receiver starts, ends where the last
    argument ends and has the boxes of the receiver and of all arguments, in order. -/
theorem thenN_wf (a d : Diagram) (bs : List Diagram) (ha : a.WF) (hbs : ∀ b ∈ bs, b.WF)
    (h : a.thenN bs = .ok d) :
    d.WF ∧ d.dom = a.dom ∧ d.cod = lastCod a.cod bs ∧
      d.boxes = a.boxes ++ (bs.map (·.boxes)).flatten := Diagram.thenN_props ha hbs h

/-- The n-ary tensor always succeeds on well-typed diagrams and is well-typed. -/
theorem tensorN_wf (a : Diagram) (bs : List Diagram) (ha : a.WF) (hbs : ∀ b ∈ bs, b.WF) :
    ∃ d, a.tensorN bs = .ok d ∧ d.WF ∧ d.dom = a.dom ++ (bs.map (·.dom)).flatten ∧
      d.cod = a.cod ++ (bs.map (·.cod)).flatten := Diagram.tensorN_props ha hbs

/-! ### The class `cat`: plain arrows and functors (cat.py) -/

/-- `Arrow(dom, cod, boxes)` hands back a value exactly when the boxes read from `dom` to `cod`,
    and then the value carries the requested fields. -/
theorem cat_mk_ok_iff (dom cod : Ty) (bs : List Layer) (a : LArrow) :
    LArrow.mk? dom cod bs = .ok a ↔ a = ⟨dom, cod, bs⟩ ∧ Chain dom bs cod := LArrow.mk?_ok_iff

theorem cat_mk_refused (dom cod : Ty) (bs : List Layer) (h : ¬ Chain dom bs cod) :
    LArrow.mk? dom cod bs = .error .axiom := LArrow.mk?_refused h

/-- `recv.then(b₁, …, bₙ)` on plain arrows is accepted exactly when every junction matches,
    receiver/first argument included (no hypothesis on the receiver: it may have no boxes). -/
theorem cat_thenN_ok_iff (a : LArrow) (bs : List LArrow) :
    (∃ d, a.thenN bs = .ok d) ↔ AJunctions a.cod bs := LArrow.thenN_ok_iff a bs

theorem cat_thenN_refused (a : LArrow) (bs : List LArrow) (h : ¬ AJunctions a.cod bs) :
    a.thenN bs = .error .axiom := LArrow.thenN_refused h

theorem cat_thenN_wf (a d : LArrow) (bs : List LArrow) (ha : a.WF) (hbs : ∀ b ∈ bs, b.WF)
    (h : a.thenN bs = .ok d) :
    d.WF ∧ d.dom = a.dom ∧ d.cod = alastCod a.cod bs := by
  refine ⟨LArrow.thenN_wf ha hbs h, ?_, ?_⟩
  all_goals (obtain ⟨_, rfl⟩ := LArrow.thenN_ok h; rfl)

/-- `cat.Functor.__call__` as written (cat.py:866-867), for ANY pair of object / arrow mappings —
    consistent or not —: if an image is handed back, it is well-typed and starts on the image of
    the domain. -/
theorem cat_functor_wf (F : CFunctor) (a r : LArrow) (hF : F.ImagesWF)
    (h : F.applyArrow a = .ok r) : r.WF ∧ F.obj a.dom = .ok r.dom := F.applyArrow_wf hF h

/-- It is handed back exactly when the images of the boxes compose, starting on the image of the
    domain; otherwise the request is refused … -/
theorem cat_functor_ok_iff (F : CFunctor) (a : LArrow) :
    (∃ r, F.applyArrow a = .ok r) ↔
      ∃ t imgs, F.obj a.dom = .ok t ∧ F.images a.boxes = .ok imgs ∧ AJunctions t imgs :=
  F.applyArrow_ok_iff a

/-- … with an axiom error. -/
theorem cat_functor_refused (F : CFunctor) (a : LArrow) (t : Ty) (imgs : List LArrow)
    (ht : F.obj a.dom = .ok t) (hi : F.images a.boxes = .ok imgs) (hj : ¬ AJunctions t imgs) :
    F.applyArrow a = .error .axiom := CFunctor.applyArrow_refused ht hi hj

/-- If every box image is typed `F(dom) → F(cod)`, the image of a well-typed arrow is accepted,
    well-typed, and goes from the image of the domain to the image of the codomain. -/
theorem cat_functor_typed (F : CFunctor) (a : LArrow) (t : Ty) (imgs : List LArrow)
    (hF : F.ImagesWF) (ha : a.WF) (hb : ∀ l ∈ a.boxes, F.okOn l)
    (ht : F.obj a.dom = .ok t) (hi : F.images a.boxes = .ok imgs) :
    ∃ r, F.applyArrow a = .ok r ∧ r.WF ∧ F.obj a.dom = .ok r.dom ∧ F.obj a.cod = .ok r.cod :=
  F.applyArrow_typed hF ha hb ht hi

/-- Closure over all sequences of operations of the class `cat` (scanning constructor, boxes,
    identities, n-ary `then` — `>>`, `<<` are the one-argument case —, dagger, slices, reversed
    slices, indexing, functor application with arbitrary mappings whose images are well-typed):
    whatever is handed back is well-typed. -/
theorem cat_eval_wf (e : CExpr) (x : CVal) (hF : e.ImagesWF) (h : e.eval = .ok x) : x.arrow.WF :=
  (CExpr.eval_wf e hF h).1


/-! ### Circuits: the class-specific box daggers (quantum/circuit.py, quantum/gates.py)

The dagger of a diagram splices `box.dagger()` of each box's own class into the reversed layers
without re-scanning, so it is well-typed only because every class's dagger exchanges dom and cod. -/

/-- Every box class of quantum.circuit / quantum.gates (Measure and Encode with all their flags,
    Discard, MixedState on any type, Digits/Bits, Ket, Bra, Copy, Match, Swap, quantum, controlled,
    rotation and classical gates, scalars, plain boxes): its own `dagger()` goes the other way. -/
theorem circuit_box_dagger_exchanges (b : CB.CBox) :
    b.dagger.dom = b.cod ∧ b.dagger.cod = b.dom := ⟨CB.CBox.dagger_dom b, CB.CBox.dagger_cod b⟩

/-- The dagger of a well-typed circuit, computed as the library does (reversed layers, each box
    replaced by its class's own dagger, nothing re-scanned), is well-typed and goes `cod → dom`. -/
theorem circuit_dagger_wf (d : Diagram) (ls : List CB.CLayer) (hd : d.WF)
    (hl : d.layers.boxes = ls.map CB.CLayer.toLayer) :
    (CB.circuitDagger d ls).WF ∧ (CB.circuitDagger d ls).dom = d.cod ∧
      (CB.circuitDagger d ls).cod = d.dom :=
  ⟨CB.circuitDagger_wf hd hl, rfl, rfl⟩

/-- … and on everything C01 reads (types of the boxes, left and right wires of every layer) it is
    the generic dagger of the model, which is what the shape correspondence of the semantic
    classes compares against. -/
theorem circuit_dagger_shape (ls : List CB.CLayer) :
    ((CB.cdagger ls).map CB.CLayer.toLayer).map (fun l => (l.left, l.box.dom, l.box.cod, l.right)) =
    ((ls.map CB.CLayer.toLayer).reverse.map Layer.dag).map
      (fun l => (l.left, l.box.dom, l.box.cod, l.right)) := CB.cdagger_shape ls

/-! Non-vacuity for the circuit boxes: the flags matter.  `Encode(1, reset_bits=True)` goes
    `bit → qubit @ bit`; its dagger is `Measure(1, override_bits=True) : qubit @ bit → bit`, and a
    `Measure(1)` without the flag would not find its domain there. -/
example : (CB.CBox.encode 1 true true).dagger = .measure 1 true true := rfl
example : (CB.CBox.encode 1 true true).cod = [CB.qubit, CB.bit] := by decide
example : (CB.CBox.measure 1 true false).dom ≠ (CB.CBox.encode 1 true true).cod := by decide
example : (CB.CBox.mixedState [CB.bit]).dagger.dom = [CB.bit] := by decide
example : (CB.CBox.discard (CB.pow CB.qubit 1)).dom ≠ (CB.CBox.mixedState [CB.bit]).cod := by decide

/-! Non-vacuity: a concrete three-box diagram with a scalar box and an effect evaluates, so the
    hypotheses above are met by a non-trivial value; and an out-of-range offset is refused. -/

private def x : Ob := ⟨"x", 0⟩
private def y : Ob := ⟨"y", 0⟩
private def f : Box := { name := "f", dom := [x], cod := [y, y] }
private def s : Box := { name := "s", dom := [], cod := [] }
private def e : Box := { name := "e", dom := [y], cod := [] }

private def isErr (r : Except Err Diagram) (e : Err) : Bool :=
  match r with | .error e' => e' == e | .ok _ => false
private def okWith (r : Except Err Diagram) (p : Diagram → Bool) : Bool :=
  match r with | .error _ => false | .ok d => p d

example : okWith (Expr.interchange (.mk [x] [y] [f, s, e] [0, 1, 0]) 1 2 false).eval
    (fun d => d.boxes == [f, e, s] && d.offsets == [0, 0, 0]) = true := by decide
example : isErr (Diagram.mk? [x] [x] [s] [5]) .axiom = true := by decide
example : isErr (Diagram.mk? [x, y] [x, y] [s] [-1]) .axiom = true := by decide

/-! Non-vacuity for the n-ary convention and the class `cat`: `Id(x).then(f, g)` with
    `f : y → z`, `g : z → x` is refused although its receiver has no boxes and `f >> g` composes;
    from `Id(y)` it is accepted.  A functor with `ar = {f ↦ f, g ↦ h}`, `h : x → y` (images that do
    not compose) is refused on `f >> g`; so is `ob = {y ↦ x, …}` with `ar[f]` still starting on `y`. -/
private def z : Ob := ⟨"z", 0⟩
private def cf : Layer := ⟨[], { name := "f", dom := [y], cod := [z] }, []⟩
private def cg : Layer := ⟨[], { name := "g", dom := [z], cod := [x] }, []⟩
private def ch : Layer := ⟨[], { name := "h", dom := [x], cod := [y] }, []⟩
private def bx (l : Layer) : CVal := ⟨l.arrow, true⟩
private def idOb : List (Ty × Ty) := [([x], [x]), ([y], [y]), ([z], [z])]

example : (CExpr.thenN (.id [x]) [.box cf, .box cg]).eval = .error .axiom := by decide
example : (CExpr.thenN (.id [y]) [.box cf, .box cg]).eval =
    .ok ⟨⟨[y], [x], [cf, cg]⟩, false⟩ := by decide
example : (CExpr.functor ⟨idOb, [(cf, bx cf), (cg, bx ch)]⟩ (.mk [y] [x] [cf, cg])).eval =
    .error .axiom := by decide
example : (CExpr.functor ⟨[([x], [x]), ([y], [x]), ([z], [z])], [(cf, bx cf), (cg, bx cg)]⟩
    (.mk [y] [x] [cf, cg])).eval = .error .axiom := by decide
example : (CExpr.functor ⟨[([x], [y]), ([y], [z]), ([z], [x])], [(cf, bx cg), (cg, bx ch)]⟩
    (.mk [y] [x] [cf, cg])).eval = .ok ⟨⟨[z], [y], [cg, ch]⟩, false⟩ := by decide
example : isErr (Expr.thenN (.id [x]) [.box e, .box s]).eval .axiom = true := by decide
example : okWith (Expr.thenN (.id [y]) [.box e, .box s]).eval
    (fun d => d.boxes == [e, s] && d.dom == [y]) = true := by decide

/-! ### Across type classes: the coercion of `Ty.tensor` / `Ty.__getitem__` to the class of the receiver

`t @ u` is `type(t).upgrade(Ty(*t.objects, *u.objects))` (monoidal.py:126-130): dom and cod of a tensor
of diagrams of DIFFERENT classes are computed with it (monoidal.py:425).  For C01 the coercion has to hand
back the objects it was given — then `Diagram.tensor` is the class-free `tensor_wf` above — or refuse. -/

/-- The statement: a coercion that answers, answers with the same objects. -/
def TyClassKeepsObjects (c : TyClass) : Prop :=
  ∀ t r : Ty, t.Flat → c.upgrade t = .ok r → r = t

/-- Named type classes (monoidal.Ty, rigid.Ty, circuit.Ty): the objects as they are. -/
theorem tyclass_ty_keeps : TyClassKeepsObjects .ty :=
  fun t r _ h => by rw [TyClass.upgrade_ty] at h; injection h with h; exact h.symm

/-- PRO (zx, cartesian, rigid.PRO, monoidal.PRO): the objects as they are ... -/
theorem tyclass_pro_keeps : TyClassKeepsObjects .pro :=
  fun _ _ hz h => TyClass.upgrade_pro_keeps h hz

/-- ... and a type with a wire that is not PRO's generating object `1` is refused: `PRO(n) @ Ty('x')`,
    hence `zx.Z(1, 2) @ rigid.Box('f', x, y)`, is a TypeError. -/
theorem tyclass_pro_refuses_named (t u : Ty) (h : ∃ o ∈ u, o.name ≠ "1") :
    Ty.tensorAs .pro t u = .error .type :=
  TyClass.upgrade_pro_refuses (by
    obtain ⟨o, ho, hn⟩ := h
    exact ⟨o, by simp [ho], hn⟩)

example : Ty.tensorAs .pro [⟨"1", 0⟩, ⟨"1", 0⟩] [⟨"'x'", 0⟩] = .error .type := by decide
example : Ty.tensorAs .pro [⟨"1", 0⟩] [⟨"1", 0⟩, ⟨"1", 0⟩] = .ok [⟨"1", 0⟩, ⟨"1", 0⟩, ⟨"1", 0⟩] := by decide
example : Ty.tensorAs .ty [⟨"'x'", 1⟩] [⟨"1", 0⟩] = .ok [⟨"'x'", 1⟩, ⟨"1", 0⟩] := by decide

/-- Dim does NOT keep the objects: `Dim(2) @ PRO(1)` is `Dim(2)` (finding F5c01a) ... -/
theorem tyclass_dim_drops_one : ¬ TyClassKeepsObjects .dim := fun h => by
  have := h [⟨"2", 0⟩, ⟨"1", 0⟩] [⟨"2", 0⟩] (by intro o ho; simp at ho; rcases ho with rfl | rfl <;> rfl) TyClass.upgrade_dim_drops
  exact absurd this (by decide)

/-- ... it keeps them on types whose names are ints > 1 (every type of class Dim is one). -/
theorem tyclass_dim_keeps_partial (t : Ty) (h : ∀ o ∈ t, nameKind o.name = .pos ∧ o.z = 0) :
    TyClass.upgrade .dim t = .ok t := dimObs_keeps h

example : TyClass.upgrade .dim [⟨"2", 0⟩, ⟨"3", 0⟩] = .ok [⟨"2", 0⟩, ⟨"3", 0⟩] :=
  tyclass_dim_keeps_partial _ (by decide)

end DV.C01
