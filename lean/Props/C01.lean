/-
  Props/C01.lean — C01 "every diagram the library hands back is well-typed".
  Property theorems only; proofs are appeals to Proofs/WF.lean and Proofs/WFOps.lean.

  `Diagram.WF d` says: `boxes`/`offsets` are the projections of the layer view, the layer
  view reads from `d.dom` to `d.cod`, each layer finding `left ++ box.dom ++ right` — i.e.
  the statement of C01 for one value.
-/
import Proofs.WFOps
import Proofs.Foliate
import Proofs.CircuitBox

namespace DV.C01
open DV

/-- Closure over all sequences of operations of the op language (composition, tensor, dagger,
    slicing, indexing, interchange, normal form, swaps, permutations, cups, caps, the public
    constructor): whatever `eval` returns is well-typed. -/
theorem eval_wf (e : Expr) (d : Diagram) (h : e.eval = .ok d) : d.WF := Expr.eval_wf e h

/-- The scanning public constructor returns only well-typed values carrying exactly the
    requested fields (ill-typed requests are therefore refused). -/
theorem mk_ok (dom cod : Ty) (bs : List Box) (os : List Int) (d : Diagram)
    (h : Diagram.mk? dom cod bs os = .ok d) :
    d.WF ∧ d.dom = dom ∧ d.cod = cod ∧ d.boxes = bs ∧ d.offsets = os := Diagram.mk?_ok h

/-- `>>` on well-typed operands succeeds exactly when the types match … -/
theorem then_ok_iff (a b : Diagram) (ha : a.WF) (hb : b.WF) :
    (∃ d, a.then b = .ok d) ↔ a.cod = b.dom := Diagram.then_ok_iff ha hb

/-- … and is refused with an axiom error otherwise. -/
theorem then_refused (a b : Diagram) (ha : a.WF) (hb : b.WF) (h : a.cod ≠ b.dom) :
    a.then b = .error .axiom := Diagram.then_err ha hb h

theorem then_wf (a b d : Diagram) (ha : a.WF) (hb : b.WF) (h : a.then b = .ok d) :
    d.WF ∧ d.dom = a.dom ∧ d.cod = b.cod := Diagram.then_props ha hb h

/-- `@` on well-typed operands always succeeds and is well-typed. -/
theorem tensor_wf (a b : Diagram) (ha : a.WF) (hb : b.WF) :
    ∃ d, a.tensor b = .ok d ∧ d.WF ∧ d.dom = a.dom ++ b.dom ∧ d.cod = a.cod ++ b.cod := by
  obtain ⟨d, h⟩ := Diagram.tensor_total ha hb
  exact ⟨d, h, Diagram.tensor_props ha hb h⟩

theorem dagger_wf (d : Diagram) (h : d.WF) :
    d.dagger.WF ∧ d.dagger.dom = d.cod ∧ d.dagger.cod = d.dom :=
  ⟨Diagram.dagger_wf h, h.lcod, h.ldom⟩

theorem slice_wf (d d' : Diagram) (s t : Option Int) (hd : d.WF) (h : d.slice s t = .ok d') :
    d'.WF := Diagram.slice_wf s t hd h

/-- Reversed slices `d[a:b:-1]` (the dagger is the case `a = b = None`). -/
theorem slice_rev_wf (d d' : Diagram) (s t : Option Int) (hd : d.WF) (h : d.sliceRev s t = .ok d') :
    d'.WF := Diagram.sliceRev_wf s t hd h

theorem interchange_wf (d d' : Diagram) (i j : Int) (left : Bool) (hd : d.WF)
    (h : d.interchange i j left = .ok d') : d'.WF ∧ d'.dom = d.dom ∧ d'.cod = d.cod :=
  Diagram.interchange_wf hd h

/-- Transposes (rigid.py:252-279) of well-typed diagrams are well-typed. -/
theorem transpose_wf (d d' : Diagram) (left : Bool) (hd : d.WF) (h : d.transpose left = .ok d') :
    d'.WF := Diagram.transpose_wf hd h

/-- Every diagram yielded by `foliate` (rewriting.py:155-255) is well-typed with the input's
    domain, codomain and boxes, and every slice it returns is well-typed. -/
theorem foliate_wf (d : Diagram) (steps slices : List Diagram) (hd : d.WF)
    (h : d.foliate = .ok (steps, slices)) :
    (∀ s ∈ steps, s.WF ∧ s.dom = d.dom ∧ s.cod = d.cod ∧ s.boxes.Perm d.boxes) ∧
    (∀ s ∈ slices, s.WF) :=
  let r := Diagram.foliate_reach hd h
  ⟨fun s hs => (r.1 s hs).wf hd, r.2⟩

/-- Every step yielded by one `normalize` pass is well-typed with the input's type. -/
theorem normalize_steps_wf (left : Bool) (d d' : Diagram) (steps : List Diagram) (hd : d.WF)
    (h : normalizePass left (d.boxes.length - 1) 0 d [] = .ok (d', steps)) :
    ∀ s ∈ steps, s.WF ∧ s.dom = d.dom ∧ s.cod = d.cod :=
  (normalizePass_wf hd (by simp) h).2

theorem normal_form_wf (d d' : Diagram) (left : Bool) (fuel : Nat) (hd : d.WF)
    (h : d.normalForm left fuel = .ok d') : d'.WF ∧ d'.dom = d.dom ∧ d'.cod = d.cod :=
  Diagram.normalForm_wf hd h

theorem swap_wf (l r : Ty) (d : Diagram) (h : Diagram.swap l r = .ok d) :
    d.WF ∧ d.dom = l ++ r ∧ d.cod = r ++ l := Diagram.swap_props h

theorem permutation_wf (p : List Int) (dom : Ty) (d : Diagram)
    (h : Diagram.permutation p dom = .ok d) : d.WF ∧ d.dom = dom := Diagram.permutation_props h

theorem cups_wf (l r : Ty) (d : Diagram) (h : Diagram.cups l r = .ok d) : d.WF :=
  Diagram.cups_wf h

theorem caps_wf (l r : Ty) (d : Diagram) (h : Diagram.caps l r = .ok d) : d.WF :=
  Diagram.caps_wf h

/-! ### Circuits: the class-specific box daggers (quantum/circuit.py, quantum/gates.py)

The dagger of a diagram splices `box.dagger()` of each box's own class into the reversed layers
without re-scanning, so it is well-typed only because every class's dagger exchanges dom and cod. -/

/-- Every box class of quantum.circuit / quantum.gates (Measure and Encode with all their flags,
    Discard, MixedState on any type, Digits/Bits, Ket, Bra, Copy, Match, Swap, quantum, controlled,
    rotation and classical gates, scalars, plain boxes): its own `dagger()` goes the other way. -/
theorem circuit_box_dagger_exchanges (b : CB.CBox) :
    b.dagger.dom = b.cod ∧ b.dagger.cod = b.dom := ⟨CB.CBox.dagger_dom b, CB.CBox.dagger_cod b⟩

/-- The dagger of a well-typed circuit, computed as the library does (reversed layers, each box
    replaced by its class's own dagger, nothing re-scanned), is well-typed and goes `cod → dom`. -/
theorem circuit_dagger_wf (d : Diagram) (ls : List CB.CLayer) (hd : d.WF)
    (hl : d.layers.boxes = ls.map CB.CLayer.toLayer) :
    (CB.circuitDagger d ls).WF ∧ (CB.circuitDagger d ls).dom = d.cod ∧
      (CB.circuitDagger d ls).cod = d.dom :=
  ⟨CB.circuitDagger_wf hd hl, rfl, rfl⟩

/-- … and on everything C01 reads (types of the boxes, left and right wires of every layer) it is
    the generic dagger of the model, which is what the shape correspondence of the semantic
    classes compares against. -/
theorem circuit_dagger_shape (ls : List CB.CLayer) :
    ((CB.cdagger ls).map CB.CLayer.toLayer).map (fun l => (l.left, l.box.dom, l.box.cod, l.right)) =
    ((ls.map CB.CLayer.toLayer).reverse.map Layer.dag).map
      (fun l => (l.left, l.box.dom, l.box.cod, l.right)) := CB.cdagger_shape ls

/-! Non-vacuity for the circuit boxes: the flags matter.  `Encode(1, reset_bits=True)` goes
    `bit → qubit @ bit`; its dagger is `Measure(1, override_bits=True) : qubit @ bit → bit`, and a
    `Measure(1)` without the flag would not find its domain there. -/
example : (CB.CBox.encode 1 true true).dagger = .measure 1 true true := rfl
example : (CB.CBox.encode 1 true true).cod = [CB.qubit, CB.bit] := by decide
example : (CB.CBox.measure 1 true false).dom ≠ (CB.CBox.encode 1 true true).cod := by decide
example : (CB.CBox.mixedState [CB.bit]).dagger.dom = [CB.bit] := by decide
example : (CB.CBox.discard (CB.pow CB.qubit 1)).dom ≠ (CB.CBox.mixedState [CB.bit]).cod := by decide

/-! Non-vacuity: a concrete three-box diagram with a scalar box and an effect evaluates, so the
    hypotheses above are met by a non-trivial value; and an out-of-range offset is refused. -/

private def x : Ob := ⟨"x", 0⟩
private def y : Ob := ⟨"y", 0⟩
private def f : Box := { name := "f", dom := [x], cod := [y, y] }
private def s : Box := { name := "s", dom := [], cod := [] }
private def e : Box := { name := "e", dom := [y], cod := [] }

private def isErr (r : Except Err Diagram) (e : Err) : Bool :=
  match r with | .error e' => e' == e | .ok _ => false
private def okWith (r : Except Err Diagram) (p : Diagram → Bool) : Bool :=
  match r with | .error _ => false | .ok d => p d

example : okWith (Expr.interchange (.mk [x] [y] [f, s, e] [0, 1, 0]) 1 2 false).eval
    (fun d => d.boxes == [f, e, s] && d.offsets == [0, 0, 0]) = true := by decide
example : isErr (Diagram.mk? [x] [x] [s] [5]) .axiom = true := by decide
example : isErr (Diagram.mk? [x, y] [x, y] [s] [-1]) .axiom = true := by decide

end DV.C01
