/-
  Props/C20.lean — C20 "the drawing layout is a faithful planar embedding of the diagram".
  Property theorems only; proofs are appeals to Proofs/Layout.lean and Proofs/LayoutDiagram.lean.

  What is modelled (Model/Layout.lean): `drawing.diagram2nx` with `make_space` and `add_box`
  (no bubbles), over the core `Diagram` — only the lengths of `dom`, `cod`, of each box's
  `dom`/`cod` and the offsets are read (`Shape`, `shapeOf`).  Horizontal coordinates are exact
  rationals (`Rat`; they are dyadic but NOT multiples of 1/2: see `ex_fine`), heights are
  integers in quarter-units.  `g.nodes` is the `pos` dict, `g.edges` the edges,
  `g.scans[k]` the open wires before box `k` (`g.scans[n]`: after the last box).
  `p.sep 1 a b` means: `a` and `b` are placed and `x a + 1 ≤ x b`; `p.eqx a b`: same `x`.

  PROVED (every layout clause of the property, at full strength, for every well-typed diagram):
  node census, edges = wiring (against the independent wire follower `follow`), strictly
  increasing open wires at every height (indeed gaps ≥ 1), the loop invariant and its
  preservation by `make_space` + `add_box`, boxes strictly between their neighbours (centre and
  every port, gaps ≥ 1 — so the polygon `draw_box` draws, ports ∓ 1/4 plus at most 1/4 of
  dagger slant, stays clear of the wires), vertical wires, downward edges, no crossing.

  Last clause ("a diagram declared with the function-call syntax (diagramize), using its wires
  in planar order, has the wiring its function body describes"): Model/Diagramize.lean models
  `diagramize`, its inner `apply`, `cat.Box.__call__`, `nx2diagram` and the `networkx.DiGraph`
  operations they use, one-for-one with their error behaviour; a function body is the data its
  run produces (`Body`: the calls in program order with their argument wires and `offset=`, and
  the returned tuple; a wire is a `Node` value).  PROVED: `diagramize_spec` (every planar body:
  result well typed, `dom -> cod`, boxes = called boxes in program order, offset of each box = the
  position of its first argument among the wires open at that moment, codomain = the returned
  wires), `planar_sound` (the decidable predicate means what it says), and the inverse
  `nx2diagram_diagram2nx` (for every well-typed diagram, given the `offset` attribute on the
  nodes of boxes WITHOUT inputs — exactly what the code needs, `nx2diagram_diagram2nx_raw`,
  `nx2diagram_needs_offset`).  What the code does outside the hypothesis is recorded as
  theorems about concrete bodies (`ex_nonplanar_accepted`, …): these are NOT claims of C20.

  Back-end clause, the part that is pure list/dict code: Model/Spiders.lean models
  `MatBackend.draw_spiders` (drawing.py:438-453) — which boxes are drawn as spiders, grouped into one
  `nx.draw_networkx_nodes` call per shape, each node with its own colour, and the `ValueError` of
  `zip(*colors.items())` on an empty group.  PROVED for every graph: it never raises, the node lists
  of the calls put together are a permutation of the spiders of the graph (each spider drawn exactly
  once, nothing else), every node is drawn in the call of its own shape, one call per shape, no
  empty call (`draw_spiders_*`).  Tied to /repo by reading the scatter collections the real method
  leaves on the axis (stream `attr_spiders` of the check).

  NOT PROVED / not modelled (oracle only, harness/props/c20.py + harness/attrlib.py): the rest of
  the two back-ends (`MatBackend`, `TikzBackend`, `draw`, `draw_box`, the quantum drawing methods,
  `equation`, `pregroup_draw`: matplotlib / file output), bubbles (`bubble_opening`/`bubble_closing`
  branches of `add_box`).  No theorem here claims them.
-/
import Proofs.LayoutDiagram
import Proofs.Diagramize
import Proofs.Nx2Roundtrip
import Proofs.Spiders

namespace DV.C20
open DV DV.Layout DV.Dz

/-! ### `diagram2nx` on a diagram value -/

/-- `diagram2nx` succeeds on every well-typed diagram and returns the layout of its shape. -/
theorem diagram2nx_total (d : Diagram) (h : d.WF) : diagram2nx d = .ok (layout (shapeOf d)) :=
  diagram2nx_of_wf h

/-- Conversely whatever it returns is that layout, and the shape is in range: ill-typed values
    are refused by the `downgrade()` re-scan before the loop runs. -/
theorem diagram2nx_sound (d : Diagram) (g : Graph) (h : diagram2nx d = .ok g) :
    g = layout (shapeOf d) ∧ (shapeOf d).WF := diagram2nx_ok h

theorem wellTyped_inRange (d : Diagram) (h : d.WF) : (shapeOf d).WF := shapeOf_wf h

/-- The whole layout part of the property for every well-typed diagram (fields of `Faithful`:
    nodes, edges = wiring, open wires increasing, boxes between neighbours, vertical, down). -/
theorem diagram2nx_faithful (d : Diagram) (h : d.WF) :
    ∃ g, diagram2nx d = .ok g ∧ Faithful (shapeOf d) g :=
  ⟨_, diagram2nx_of_wf h, layout_faithful _ (shapeOf_wf h)⟩

/-! ### Node census -/

/-- One node per input, per box, per box port, per output — as a list, in insertion order. -/
theorem nodes_are (sh : Shape) : keys (layout sh).nodes = allNodes sh := layout_keys sh

theorem nodes_count (sh : Shape) :
    (layout sh).nodes.length
      = sh.nIn + (sh.steps.map (fun st => 1 + st.m + st.c)).sum + sh.nOut :=
  layout_nodes_length sh

/-- "exactly one": no node is placed twice. -/
theorem nodes_distinct (sh : Shape) (h : sh.WF) : (keys (layout sh).nodes).Nodup :=
  layout_nodup sh h

/-! ### Edges reproduce the wiring -/

/-- The edges are exactly: for each box `k`, `follow(…) → dom k i → box k → cod k i`, and
    `follow(…) → output i`, where `follow` walks up the diagram from a type position. -/
theorem edges_reproduce_wiring (sh : Shape) (h : sh.WF) (e : Node × Node) :
    e ∈ (layout sh).edges ↔ Wiring sh e := layout_edges_wiring sh h e

theorem edges_count (sh : Shape) :
    (layout sh).edges.length = (sh.steps.map (fun st => 2 * st.m + st.c)).sum + sh.nOut :=
  layout_edges_length sh

/-- The recorded scans are the open wires: entry `p` at height `k` is the node `follow` finds. -/
theorem scans_are_open_wires (sh : Shape) (h : sh.WF) (k : Nat) (sc : List Node)
    (hsc : (layout sh).scans[k]? = some sc) (p : Nat) (hp : p < sc.length) :
    sc[p]? = some (follow ((sh.steps.take k).reverse) p) := scans_follow sh h k sc hsc p hp

/-! ### The loop invariant -/

/-- Shifting every node with `x ≤ limit` left by `pad ≥ 0` never shrinks a gap
    (so it preserves strict order and equality of coordinates) … -/
theorem shift_left_preserves_order (limit pad : Rat) (hp : 0 ≤ pad) (a b g : Rat) (hg : 0 ≤ g)
    (h : a + g ≤ b) : sl limit pad a + g ≤ sl limit pad b := sl_expanding limit pad hp a b g hg h

/-- … and so does shifting every node with `x ≥ limit` right. -/
theorem shift_right_preserves_order (limit pad : Rat) (hp : 0 ≤ pad) (a b g : Rat) (hg : 0 ≤ g)
    (h : a + g ≤ b) : sr limit pad a + g ≤ sr limit pad b := sr_expanding limit pad hp a b g hg h

/-- `make_space` is one such map applied to the whole `pos` dict. -/
theorem make_space_is_expanding_map (p : Pos) (scan : List Node) (st : Step)
    (has : ∀ v ∈ scan, ∃ x, p.x? v = some x) :
    spacePos p scan st = p.mapX (stepG p scan st) ∧ Expanding (stepG p scan st) :=
  ⟨spacePos_eq has, stepG_expanding p scan st⟩

/-- `scan_strictly_increasing`, as a loop invariant: if the open wires are placed, pairwise at
    least one unit apart in scan order, and the keys are unique and old (`Inv`), then after
    `make_space` + `add_box` for an in-range box the same holds for the new scan. -/
theorem scan_strictly_increasing_preserved (n : Nat) (p : Pos) (scan : List Node) (depth : Nat)
    (st : Step) (h : Inv p scan depth) (hin : st.off + st.m ≤ scan.length) :
    Inv (stepPos n p scan depth st) (nextScan scan st depth) (depth + 1) := step_inv n h hin

/-- The invariant holds initially (inputs at `x = 0, 1, 2, …`). -/
theorem scan_strictly_increasing_init (nIn n : Nat) :
    Inv (initSt nIn n).pos (initSt nIn n).scan 0 := init_inv nIn n

/-- Later iterations never undo what an iteration established. -/
theorem later_steps_preserve_facts (n : Nat) (p : Pos) (scan : List Node) (depth : Nat)
    (st : Step) (h : Inv p scan depth) : p.le (stepPos n p scan depth st) := step_le n h

/-! ### The clauses of the property, on the returned graph -/

/-- At every height the open wires appear in strictly increasing horizontal order. -/
theorem scan_strictly_increasing (sh : Shape) (h : sh.WF) :
    ∀ s ∈ (layout sh).scans, s.Pairwise ((layout sh).Left) := fun s hs =>
  (layout_scans_sorted sh h s hs).imp left_of_sep

/-- Stronger: they are at least one unit apart. -/
theorem scan_gap_ge_one (sh : Shape) (h : sh.WF) :
    ∀ s ∈ (layout sh).scans, s.Pairwise ((layout sh).nodes.sep 1) := layout_scans_sorted sh h

/-- Every box — its centre and each of its ports — sits strictly between the wires to its left
    and the wires to its right at its height (at least one unit from each), its offset is in
    range, and each consumed wire enters its port vertically. -/
theorem box_between_neighbours (sh : Shape) (h : sh.WF) (k : Nat) (st : Step) (sc : List Node)
    (hst : sh.steps[k]? = some st) (hsc : (layout sh).scans[k]? = some sc) :
    st.off + st.m ≤ sc.length
    ∧ (∀ a ∈ sc.take st.off, ∀ v ∈ stepNodes st k, (layout sh).nodes.sep 1 a v)
    ∧ (∀ b ∈ sc.drop (st.off + st.m), ∀ v ∈ stepNodes st k, (layout sh).nodes.sep 1 v b)
    ∧ (∀ i, i < st.m → (layout sh).nodes.eqx (sc.getD (st.off + i) default) (domNode k i)) :=
  layout_box_between sh h k st sc hst hsc

/-- Wires between boxes (edges into a domain port or an output) are vertical. -/
theorem dom_wires_vertical (sh : Shape) (h : sh.WF) :
    ∀ e ∈ (layout sh).edges, (e.2.kind = .dom ∨ e.2.kind = .output) →
      (layout sh).nodes.eqx e.1 e.2 := layout_wires_vertical sh h

/-- Every edge points downwards. -/
theorem edges_point_down (sh : Shape) (h : sh.WF) :
    ∀ e ∈ (layout sh).edges, ∃ ya yb, (layout sh).nodes.y? e.1 = some ya
      ∧ (layout sh).nodes.y? e.2 = some yb ∧ yb < ya := layout_edges_down sh h

/-- Hence no two wires cross: two different wires open at the same height are vertical
    segments at least one unit apart. -/
theorem no_crossing (sh : Shape) (h : sh.WF) :
    ∀ s ∈ (layout sh).scans, ∀ a ∈ s, ∀ b ∈ s, a ≠ b →
      (layout sh).nodes.sep 1 a b ∨ (layout sh).nodes.sep 1 b a := layout_no_crossing sh h

/-- The part of `nx2diagram`'s inverse that concerns the layout: the offset of a box with an
    input is the index of its first wire among the open wires (which are pairwise distinct). -/
theorem offset_recoverable (sh : Shape) (h : sh.WF) (k : Nat) (st : Step) (sc : List Node)
    (hst : sh.steps[k]? = some st) (hsc : (layout sh).scans[k]? = some sc) (hm : 0 < st.m) :
    sc.idxOf (follow ((sh.steps.take k).reverse) st.off) = st.off :=
  layout_offset_recoverable sh h k st sc hst hsc hm

/-! ### Non-vacuity: concrete diagrams -/

/-- `f @ Id(x @ x) >> g @ Id(x) >> g` with `f, g : x @ x → x`: three merges. -/
def exMerge : Shape := ⟨4, [⟨2, 1, 0⟩, ⟨2, 1, 0⟩, ⟨2, 1, 0⟩], 1⟩

/-- `Id(x) @ s @ Id(x)` with a state `s : 1 → x @ x @ x` between two wires one unit apart:
    `make_space` has to push both neighbours away. -/
def exWide : Shape := ⟨2, [⟨0, 3, 1⟩], 5⟩

/-- A scalar, an effect, a swap-like `2 → 2` box and a state on three wires. -/
def exMixed : Shape := ⟨3, [⟨0, 0, 1⟩, ⟨1, 0, 0⟩, ⟨2, 2, 0⟩, ⟨0, 2, 2⟩], 4⟩

example : exMerge.WF := by decide
example : exWide.WF := by decide
example : exMixed.WF := by decide
/-- out-of-range offset: not a shape the theorems speak about -/
example : ¬ (⟨1, [⟨0, 0, 5⟩], 1⟩ : Shape).WF := by decide

/-- Coordinates are not multiples of one half: the third box of `exMerge` sits at `17/8`. -/
theorem ex_fine : (layout exMerge).nodes.x? (boxNode 2) = some (17 / 8 : Rat) := by
  decide +kernel

/-- `exWide`: the two inputs end up at `-3/2` and `5/2`, the state at `1/2`, its ports at
    `-1/2, 1/2, 3/2`: every gap is at least 1. -/
theorem ex_wide_positions :
    (keys (layout exWide).nodes).map ((layout exWide).nodes.x?) =
      [some (-3/2), some (5/2), some (1/2), some (-1/2), some (1/2), some (3/2),
       some (-3/2), some (-1/2), some (1/2), some (3/2), some (5/2)] := by
  decide +kernel

example : (layout exWide).scans =
    [[inputNode 0, inputNode 1],
     [inputNode 0, codNode 0 0, codNode 0 1, codNode 0 2, inputNode 1]] := by decide

/-- The initial invariant is about a real state: 3 placed inputs one unit apart. -/
example : (initSt 3 2).scan.length = 3 ∧ (initSt 3 2).pos.x? (inputNode 2) = some 2 := by
  decide +kernel

/-- `exMixed` has 4 boxes, 5 scans, 18 nodes and 14 edges — none of the quantifiers above
    ranges over an empty set. -/
example : (layout exMixed).scans.length = 5 ∧ (layout exMixed).nodes.length = 18
    ∧ (layout exMixed).edges.length = 14 := by decide +kernel

/-- A diagram value: `f : a ⊗ a → a` on the left of a wire, read through `shapeOf`. -/
def exDiagram : Diagram :=
  let a : Ob := ⟨"a", 0⟩
  let f : Box := { name := "f", dom := [a, a], cod := [a] }
  ⟨[a, a, a], [a, a], [f], [0], ⟨[a, a, a], [a, a], [⟨[], f, [a]⟩]⟩⟩

example : shapeOf exDiagram = ⟨3, [⟨2, 1, 0⟩], 2⟩ := by decide
example : (shapeOf exDiagram).WF := by decide

/-! ### `diagramize`: the function-call syntax -/

/-- The decidable predicate `Body.planar` means what it says: it returns `offs` only if the body
    uses its wires in planar order — call `k` (a box of the signature, arguments of the box's
    domain types) takes the contiguous block at position `offs[k]` of the wires open at that
    moment, in order, a call without arguments naming its position with `offset=`; the wires
    left open at the end are exactly the returned tuple; and they have the declared types. -/
theorem planar_sound (sig : List Box) (dom cod : Ty) (body : Body) (offs : List Nat)
    (h : body.planar sig dom cod = some offs) :
    PlanarFrom sig (inputNodes dom) 0 body.calls offs body.ret
      ∧ body.ret.map GNode.obj? = cod.map some := by
  unfold Body.planar at h
  split at h
  · rename_i hc; exact ⟨planarOffsets_sound sig _ _ _ _ _ h, hc⟩
  · cases h

/-- A diagram declared with the function-call syntax, using its wires in planar order, has the
    wiring its function body describes: `diagramize` succeeds, the result is well typed from `dom`
    to `cod`, its boxes are the called boxes in program order, box `k` sits at `offs[k]` — the
    block of the then-open wires that the body passed as arguments, i.e. the position of its
    first argument among them — and its outputs are exactly the returned wires. -/
theorem diagramize_spec (sig : List Box) (hasId : Bool) (dom cod : Ty) (body : Body)
    (offs : List Nat) (hid : hasId = true ∨ sig ≠ [])
    (hp : body.planar sig dom cod = some offs) :
    ∃ d, diagramize sig hasId dom cod body = .ok d ∧ d.WF ∧ d.dom = dom ∧ d.cod = cod
      ∧ d.boxes = body.calls.map (·.box)
      ∧ d.offsets = offs.map (fun (o : Nat) => (o : Int))
      ∧ (∀ (k : Nat) (c : Call) (off : Nat), body.calls[k]? = some c → offs[k]? = some off →
          ((openBefore (inputNodes dom) 0 body.calls offs k).drop off).take c.inputs.length
              = c.inputs
            ∧ ∀ w, c.inputs[0]? = some w →
                (openBefore (inputNodes dom) 0 body.calls offs k).idxOf w = off)
      ∧ openBefore (inputNodes dom) 0 body.calls offs body.calls.length = body.ret
      ∧ body.ret.map GNode.obj? = d.cod.map some := by
  obtain ⟨hpf, hc⟩ := planar_sound sig dom cod body offs hp
  obtain ⟨d, h1, h2, h3, h4, h5, h6⟩ := diagramize_planar hid hpf hc
  obtain ⟨h7, h8⟩ := planarFrom_openBefore sig body.calls _ 0 offs body.ret hpf
  exact ⟨d, h1, h2, h3, h4, h5, h6,
    fun k c off hk ho => ⟨(h7 k c off hk ho).2.2.2.1, fun w hw => planar_first_arg_index hpf hk ho hw⟩,
    h8, by rw [h4]; exact hc⟩

/-! ### `nx2diagram` inverts `diagram2nx` -/

/-- `nx2diagram(diagram2nx(d)) = d` (all five fields) for every well-typed `d`, once the node of
    every box WITHOUT inputs carries the box's offset as its `offset` attribute; nodes of boxes
    with inputs may carry anything or nothing. -/
theorem nx2diagram_diagram2nx (d : Diagram) (h : d.WF) (attr : Nat → OffAttr)
    (hattr : ∀ k b o, d.boxes[k]? = some b → d.offsets[k]? = some o → b.dom = [] →
      (attr k).get = some o) : roundTrip d attr = .ok d := roundTrip_ok h attr hattr

/-- `diagram2nx` sets no such attribute (`getattr(box_node, "offset", 0)` reads 0): the raw
    composite is the identity exactly on diagrams whose input-less boxes all sit at offset 0 … -/
theorem nx2diagram_diagram2nx_raw (d : Diagram) (h : d.WF)
    (h0 : ∀ (k : Nat) (b : Box) (o : Int), d.boxes[k]? = some b → d.offsets[k]? = some o →
      b.dom = [] → o = 0) :
    roundTrip d (fun _ => .absent) = .ok d :=
  roundTrip_ok h _ (fun k b o hb ho hd => by rw [h0 k b o hb ho hd]; rfl)

/-- `Id(a) @ s` with a state `s : 1 → a`. -/
def exState : Diagram :=
  let a : Ob := ⟨"a", 0⟩
  let s : Box := { name := "s", dom := [], cod := [a] }
  ⟨[a], [a, a], [s], [1], ⟨[a], [a, a], [⟨[a], s, []⟩]⟩⟩

/-- `s @ Id(a)`. -/
def exStateLeft : Diagram :=
  let a : Ob := ⟨"a", 0⟩
  let s : Box := { name := "s", dom := [], cod := [a] }
  ⟨[a], [a, a], [s], [0], ⟨[a], [a, a], [⟨[], s, [a]⟩]⟩⟩

/-- … and on other diagrams it silently returns a different diagram: for `Id(a) @ s` it returns
    `s @ Id(a)` (documented in `nx2diagram`'s docstring: "Box nodes with no inputs need an offset
    attribute"). -/
theorem nx2diagram_needs_offset :
    roundTrip exState (fun _ => .absent) = .ok exStateLeft ∧ exStateLeft ≠ exState
    ∧ roundTrip exState (fun _ => .int 1) = .ok exState := by decide +kernel

/-! ### Non-vacuity and the behaviour outside the hypothesis -/

def obX : Ob := ⟨"x", 0⟩
def obXr : Ob := ⟨"x", 1⟩
def boxCup : Box := Box.cup obX obXr
def boxCap : Box := Box.cap obXr obX
def boxF : Box := { name := "f", dom := [obX, obX], cod := [obX] }
def boxS : Box := { name := "s", dom := [], cod := [obX] }

/-- The docstring example of `diagramize`:
    `def snake(left): middle, right = cap(offset=1); cup(left, middle); return right`. -/
def snakeBody : Body :=
  ⟨[⟨boxCap, [], some 1⟩, ⟨boxCup, [.input obX 0, .cod obXr 0 0], none⟩], [.cod obX 1 0]⟩

example : snakeBody.planar [boxCup, boxCap] [obX] [obX] = some [1, 0] := by decide +kernel

/-- The snake: `Id(x) @ Cap(x.r, x) >> Cup(x, x.r) @ Id(x)`. -/
theorem ex_snake : diagramize [boxCup, boxCap] false [obX] [obX] snakeBody
    = .ok ⟨[obX], [obX], [boxCap, boxCup], [1, 0],
        ⟨[obX], [obX], [⟨[obX], boxCap, []⟩, ⟨[], boxCup, [obX]⟩]⟩⟩ := by decide +kernel

/-- The open wires before each call of the snake and at the end. -/
example : openBefore (inputNodes [obX]) 0 snakeBody.calls [1, 0] 1
    = [.input obX 0, .cod obXr 0 0, .cod obX 1 0] := by decide +kernel
example : openBefore (inputNodes [obX]) 0 snakeBody.calls [1, 0] 2 = snakeBody.ret := by
  decide +kernel

/-- `def g(a, b, c): return f(a, c), b` — NOT planar (the arguments are not adjacent open wires)
    and all wires have the same type: `nx2diagram` only looks up the FIRST argument
    (drawing.py:226-227), so `diagramize` silently returns `f @ Id(x)`, i.e. `f(a, b), c`. -/
theorem ex_nonplanar_accepted :
    (⟨[⟨boxF, [.input obX 0, .input obX 2], none⟩], [.cod obX 0 0, .input obX 1]⟩ : Body).planar
        [boxF] [obX, obX, obX] [obX, obX] = none
    ∧ diagramize [boxF] false [obX, obX, obX] [obX, obX]
        ⟨[⟨boxF, [.input obX 0, .input obX 2], none⟩], [.cod obX 0 0, .input obX 1]⟩
      = .ok ⟨[obX, obX, obX], [obX, obX], [boxF], [0],
          ⟨[obX, obX, obX], [obX, obX], [⟨[], boxF, [obX]⟩]⟩⟩ := by decide +kernel

/-- `def g(a, b): return b, a` — the returned tuple is only type-checked position by position
    (drawing.py:887-892, 896): a permutation of equally typed wires returns the identity. -/
theorem ex_swap_accepted :
    diagramize [boxF] false [obX, obX] [obX, obX] ⟨[], [.input obX 1, .input obX 0]⟩
      = .ok (Diagram.id [obX, obX]) := by decide +kernel

/-- A wire used twice (`f(a, b)` and again `f(a, b)`): `scan.index(wire)` fails, `ValueError`. -/
theorem ex_used_twice :
    diagramize [boxF] false [obX, obX] [obX, obX]
      ⟨[⟨boxF, [.input obX 0, .input obX 1], none⟩, ⟨boxF, [.input obX 0, .input obX 1], none⟩],
       [.cod obX 0 0, .cod obX 0 1]⟩ = .error (.base .value) := by decide +kernel

/-- An unused wire (`def g(a, b, c): return f(a, b)`): the final `result.cod != cod` check,
    `AxiomError`. -/
theorem ex_unused_wire :
    diagramize [boxF] false [obX, obX, obX] [obX]
      ⟨[⟨boxF, [.input obX 0, .input obX 1], none⟩], [.cod obX 0 0]⟩
      = .error (.base .axiom) := by decide +kernel

/-- A call without arguments and without `offset=`: `None + …`, `TypeError`. -/
theorem ex_missing_offset :
    diagramize [boxS] false [obX] [obX, obX] ⟨[⟨boxS, [], none⟩], [.input obX 0, .cod obX 0 0]⟩
      = .error (.base .type) := by decide +kernel

/-- `offset=5` with one open wire is clamped by the slices (drawing.py:233-234): accepted, the
    state lands at offset 1. -/
theorem ex_offset_clamped :
    diagramize [boxS] false [obX] [obX, obX]
      ⟨[⟨boxS, [], some 5⟩], [.input obX 0, .cod obX 0 0]⟩
      = .ok ⟨[obX], [obX, obX], [boxS], [1], ⟨[obX], [obX, obX], [⟨[obX], boxS, []⟩]⟩⟩ := by
  decide +kernel

/-- A fabricated parameter node (`f(a, Node("input", obj=x, i=7))`) becomes a second input of the
    RESULT: declared `dom = x`, returned diagram `f : x ⊗ x → x` (nothing checks `result.dom`). -/
theorem ex_fabricated_input :
    diagramize [boxF] false [obX] [obX]
      ⟨[⟨boxF, [.input obX 0, .input obX 7], none⟩], [.cod obX 0 0]⟩
      = .ok ⟨[obX, obX], [obX], [boxF], [0], ⟨[obX, obX], [obX], [⟨[], boxF, []⟩]⟩⟩ := by
  decide +kernel

/-- The hypotheses of `nx2diagram_diagram2nx` are met by a concrete diagram with an input-less
    box away from offset 0. -/
example : exState.WF := ⟨rfl, rfl, rfl, rfl, by simp [exState, LArrow.WF, Chain, Layer.dom, Layer.cod]⟩

/-! ### `MatBackend.draw_spiders` (Model/Spiders.lean): every spider is drawn exactly once -/

section Spiders
open DV.Spiders

/-- `MatBackend.draw_spiders` raises on no graph (in particular `zip(*colors.items())` never sees an
    empty dict), and the calls of `nx.draw_networkx_nodes` it makes are `calls g`. -/
theorem draw_spiders_never_raises (g : List BoxNode) : matSpiders g = .ok (calls g) :=
  matSpiders_eq g

/-- The node lists of the calls, put together, are a permutation of the boxes of the graph with
    `draw_as_spider`: each spider is drawn exactly once, and nothing else is. -/
theorem draw_spiders_each_spider_once (g : List BoxNode) :
    ((calls g).flatMap (fun c => c.nodelist)).Perm (spiderNodes g) :=
  calls_perm g

/-- Every node is drawn in the call of its own shape (with its own colour: `node_color` is read off
    the nodes of `nodelist`), it is a spider, and it is a node of the graph. -/
theorem draw_spiders_own_shape (g : List BoxNode) (c : Spiders.Call) (hc : c ∈ calls g) (n : BoxNode)
    (hn : n ∈ c.nodelist) : n.shape = c.shape ∧ n.spider = true ∧ n ∈ g :=
  calls_own_shape g c hc n hn

/-- One call per shape. -/
theorem draw_spiders_one_call_per_shape (g : List BoxNode) :
    ((calls g).map (fun c => c.shape)).Nodup :=
  calls_shapes_nodup g

/-- No call has an empty node list. -/
theorem draw_spiders_no_empty_call (g : List BoxNode) (c : Spiders.Call) (hc : c ∈ calls g) :
    c.nodelist ≠ [] :=
  calls_nonempty g c hc

/-- A Z spider, a Hadamard (the "rectangle" shape), a plain box and an X spider: two calls. -/
example :
    matSpiders [⟨0, true, .circle, .green⟩, ⟨1, true, .rectangle, .yellow⟩,
                ⟨2, false, .circle, .white⟩, ⟨3, true, .circle, .red⟩]
      = .ok [⟨.rectangle, [⟨1, true, .rectangle, .yellow⟩]⟩,
             ⟨.circle, [⟨0, true, .circle, .green⟩, ⟨3, true, .circle, .red⟩]⟩] := by decide

end Spiders

end DV.C20
