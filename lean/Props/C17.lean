/-
  Props/C17.lean — C17 "Export to and import from pyzx graphs preserve the ZX diagram".
  Property theorems only; model in Model/Pyzx.lean, proofs in Proofs/Pyzx.lean.

  PROVED (for all well-typed ZX diagrams over Z/X spiders of any arity and phase, H, SWAP, scalars):
  * `to_pyzx_total`, `to_pyzx_shape`: `to_pyzx` never raises; as many inputs/outputs as wires of
    dom/cod; vertices = input boundaries, then one vertex per spider in box order with its colour,
    doubled phase (mod 2), qubit = offset and row = index + 1, then output boundaries; the edge
    requests are, per spider input leg and per output, producer-of-that-wire → consumer with type
    Hadamard iff an odd number of H boxes lies on the wire (`specEdges`, written with the
    independent upward trace `producer`); every vertex is touched by exactly as many edge requests
    as it has legs; scalar = product of the scalar boxes.
  * `to_pyzx_simple_neighbours`: under the property's simple-graph hypothesis the neighbours of
    every vertex are distinct, so the request list is the adjacency structure and deg = legs there.
  * `scan_tracks_wires`: after any well-typed box list the scan entry at position `k` is the
    (producer, H-parity) of wire `k` found by tracing the wire upwards.
  * `move_spec` / `swaps_move_wire`: a left move's SWAP boxes carry wire `source` to `target` and
    shift the wires in between; the bookkeeping agrees except for the label of the moved entry
    (the closure variable `node`); with the repaired label it agrees exactly (`move_spec_fixed`).
  * `output_search_fixed_moves_left`: with the repaired output search only left moves occur.
  * `from_pyzx_typed`: whatever `from_pyzx` returns (any graph, tree or repaired) is a well-typed
    diagram on `len(inputs)` wires; `roundtrip_typed`.
  * `from_pyzx_spiders`, `roundtrip_spiders`: one spider per inner vertex in vertex order with its
    colour and half phase; the round trip returns the spiders of the diagram with phases mod 1.
  * `from_pyzx_refuses`: undeclared or shared boundary vertices give a ValueError before any work.
  DECIDED WITNESSES of the two defects of `from_pyzx` in the tree (findings C17-1, C17-2):
  `roundtrip_drops_hadamard`, `roundtrip_misplaces_hadamard`, `roundtrip_permutes_outputs`,
  `move_right_off_by_one`; each with the repaired result next to it.
  * `from_pyzx_cod`, `to_pyzx_layered`, `roundtrip_cod`: the number of outputs of an imported
    diagram is counted from the graph (any graph); exported graphs are layered; hence the round
    trip returns a diagram with the inputs and outputs of the exported one.
  NOT PROVED (checked by the oracle on every run):
  * the MEANING clauses (tensorfy of the exported graph = matrix of the diagram; the repaired
    import denotes the graph): pyzx's tensor semantics is outside the model, and so is a matrix
    semantics of ZX diagrams; they rest on the oracle (pyzx.tensorfy vs an independent evaluator).
-/
import Proofs.Pyzx
import Proofs.PyzxCod

namespace DV.C17
open DV DV.Pyzx

/-- `to_pyzx` never raises on a well-typed diagram (no `IndexError` from the scan). -/
theorem to_pyzx_total (d : ZDiagram) (h : d.WF) : ∃ g, toPyzx d = .ok g :=
  ⟨specGraph d, toPyzx_spec d h⟩

/-- Shape of the exported graph. -/
theorem to_pyzx_shape (d : ZDiagram) (h : d.WF) (g : Graph) (hg : toPyzx d = .ok g) :
    g.inputs.length = d.dom ∧ g.outputs.length = d.cod ∧
    g.inputs = List.range d.dom ∧
    g.outputs = (List.range d.cod).map (d.dom + nSpiders d.boxes + ·) ∧
    g.verts = (List.range d.dom).map (fun (i : Nat) => (⟨.boundary, ⟨0, 1⟩, (i : Int), 0⟩ : Vertex))
      ++ specVerts 0 d.boxes
      ++ (List.range d.cod).map
          (fun (i : Nat) => (⟨.boundary, ⟨0, 1⟩, (i : Int), (d.boxes.length : Int) + 1⟩ : Vertex)) ∧
    g.edges = specEdges d.dom [] d.boxes ++ (List.range d.cod).map
      (fun i => mkEdge (producerD d.dom d.boxes.reverse i) (d.dom + nSpiders d.boxes + i)) ∧
    (∀ v, g.deg v = vertexLegs d v) ∧
    g.scalar = specScalar Gauss.one d.boxes := by
  rw [toPyzx_spec d h] at hg
  cases hg
  exact ⟨by simp [specGraph], by simp [specGraph], rfl, rfl, rfl, rfl, toPyzx_degree d h, rfl⟩

/-- Simple-graph hypothesis ⇒ the neighbours of every vertex are pairwise distinct. -/
theorem to_pyzx_simple_neighbours (g : Graph) (h : g.Simple) (v : Nat) : (g.nbrs v).Nodup :=
  nbrs_nodup_of_simple g.edges h v

/-- The scan entry at position `k` is the producer of wire `k` (with the parity of the H boxes). -/
theorem scan_tracks_wires (d : ZDiagram) (h : d.WF) (st : ExpState) (hst : expRun d = .ok st) :
    st.scan.length = d.cod ∧ ∀ k, st.scan[k]? = producer d.dom d.boxes.reverse k := by
  obtain ⟨st', h1, inv, _⟩ := stepBoxes_spec d.boxes 0 (expInit_inv d.dom) h
  simp only [expRun, h1, Except.ok.injEq] at hst
  subst hst
  exact ⟨inv.len, by simpa using inv.scan⟩

/-- The SWAP boxes of a left move carry wire `s` to position `t`, shift the wires in `[t, s)` one
    place to the right and leave the others alone. -/
theorem swaps_move_wire {α} (t s : Nat) (l : List α) (h1 : t ≤ s) (h2 : s < l.length) (k : Nat) :
    (applySwaps (swapsLeft s t) l)[k]? =
      if k < t then l[k]? else if k = t then l[s]? else if k ≤ s then l[k - 1]? else l[k]? :=
  applySwaps_swapsLeft t s l h1 h2 k

/-- `move` (zx.py:157-172) for `target < source`: `swaps` has the width of the scan, consists of
    SWAPs at offsets `source-1 … target`, and the new scan is the action of those swaps on the old
    one — except at `target`, where the tree writes the closure variable `node`. -/
theorem move_spec (fix : Fix) (node : Nat) (scan : List Nat) (source target : Nat)
    (hlt : target < source) (h2 : source < scan.length) :
    (move fix node scan source target).2.2 = scan.length ∧
    (move fix node scan source target).2.1 = swapsLeft source target ∧
    ∀ k, (move fix node scan source target).1[k]? =
      if k = target then some (if fix.moveLabel then scan.getD source node else node)
      else (applySwaps (swapsLeft source target) scan)[k]? :=
  move_left_spec fix node scan source target hlt h2

theorem move_spec_same (fix : Fix) (node : Nat) (scan : List Nat) (p : Nat) :
    move fix node scan p p = (scan, [], scan.length) := move_same fix node scan p

/-- With the proposed repair the bookkeeping is exactly what the swaps do. -/
theorem move_spec_fixed (node : Nat) (scan : List Nat) (source target : Nat)
    (hlt : target < source) (h2 : source < scan.length) :
    (move Fix.all node scan source target).1 = applySwaps (swapsLeft source target) scan :=
  move_left_fixed Fix.all rfl node scan source target hlt h2

/-- With the repaired search (`scan.index(node, target)`) the output loop finds a wire labelled
    `node` at or after `target`: it never needs the right-move branch of `move`. -/
theorem output_search_fixed_moves_left (scan : List Nat) (node target s : Nat)
    (h : outputSource Fix.all scan node target = some s) : target ≤ s ∧ scan[s]? = some node :=
  outputSource_ge Fix.all rfl scan node target s h

/-- Whatever `from_pyzx` returns is well-typed, on `len(graph.inputs)` wires (every graph; the
    tree and every combination of repairs). -/
theorem from_pyzx_typed (fix : Fix) (g : Graph) (d : ZDiagram) (h : fromPyzxWith fix g = .ok d) :
    d.WF ∧ d.dom = g.inputs.length := fromPyzxWith_wf fix g d h

/-- Round trip: a well-typed diagram with the same number of inputs. -/
theorem roundtrip_typed (fix : Fix) (d d' : ZDiagram) (h : d.WF) (g : Graph)
    (hg : toPyzx d = .ok g) (hrt : fromPyzxWith fix g = .ok d') : d'.WF ∧ d'.dom = d.dom := by
  obtain ⟨hw, hd⟩ := fromPyzxWith_wf fix g d' hrt
  exact ⟨hw, by rw [hd, (to_pyzx_shape d h g hg).1]⟩

/-- One spider per inner vertex, in vertex order, with its colour and half its pyzx phase. -/
theorem from_pyzx_spiders (fix : Fix) (g : Graph) (d : ZDiagram) (h : fromPyzxWith fix g = .ok d) :
    spidersKP d.boxes = (innerNodes g).map (vertexKP g) := fromPyzxWith_spiders fix g d h

/-- Round trip: the spiders of the diagram come back in order with their colours and their phases
    reduced mod 1 — in the tree as well: the defects concern the wiring only. -/
theorem roundtrip_spiders (fix : Fix) (d d' : ZDiagram) (h : d.WF) (g : Graph)
    (hg : toPyzx d = .ok g) (hrt : fromPyzxWith fix g = .ok d') :
    spidersKP d'.boxes =
      (d.boxes.filter ZBox.isSpider).map (fun b => some (b.kind, b.phase.export.import)) := by
  rw [toPyzx_spec d h] at hg
  cases hg
  exact Pyzx.roundtrip_spiders fix d d' hrt

/-- Refusal: a boundary vertex missing from inputs + outputs, or a vertex in both lists, gives a
    `ValueError` (zx.py:184-192), whatever the rest of the graph. -/
theorem from_pyzx_refuses (fix : Fix) (g : Graph)
    (h : (∃ v, ∃ _ : v < g.verts.length,
            (g.verts[v]).ty = .boundary ∧ v ∉ g.inputs ∧ v ∉ g.outputs) ∨
         (∃ v, v ∈ g.inputs ∧ v ∈ g.outputs)) :
    fromPyzxWith fix g = .error .value := by
  apply fromPyzxWith_refuses
  rcases h with h | h
  · exact Or.inl ((missingBoundary_iff g).2 h)
  · exact Or.inr ((duplicateBoundary_iff g).2 h)

/-- `from_pyzx` on ANY graph (tree and repairs alike): the diagram's outputs are counted from the
    graph — the inputs, plus the later neighbours of every inner vertex (zx.py:199-200), minus its
    earlier neighbours (zx.py:196-197) — and there are at least as many as declared outputs.  The
    code never compares `len(scan)` with the diagram's codomain; `cod = len(scan)` is an invariant
    of every path that does not raise (`Proofs/PyzxCod.lean`). -/
theorem from_pyzx_cod (fix : Fix) (g : Graph) (d : ZDiagram) (h : fromPyzxWith fix g = .ok d) :
    d.cod + sumLen (nodeInputs g) (innerNodes g) =
      g.inputs.length + sumLen (nodeOutputs g) (innerNodes g) ∧
    g.outputs.length ≤ d.cod := fromPyzxWith_cod fix g d h

/-- The graphs `to_pyzx` returns are layered: inputs, then the spiders, then the outputs; every
    edge runs from a non-output to a LATER non-input; every boundary vertex has one neighbour. -/
theorem to_pyzx_layered (d : ZDiagram) (h : d.WF) (g : Graph) (hg : toPyzx d = .ok g) :
    Layered g d.dom (nSpiders d.boxes) d.cod := by
  rw [toPyzx_spec d h] at hg
  cases hg
  exact specGraph_layered d h

/-- **Round trip: the imported diagram has as many inputs and outputs as the diagram that was
    exported** (double counting of the edges of a layered graph: each is an output of its earlier
    end and an input of its later end) — in the tree and with every repair, without the
    simple-graph hypothesis. -/
theorem roundtrip_cod (fix : Fix) (d d' : ZDiagram) (g : Graph) (h : d.WF)
    (hg : toPyzx d = .ok g) (hrt : fromPyzxWith fix g = .ok d') :
    d'.cod = d.cod ∧ d'.dom = d.dom := by
  rw [toPyzx_spec d h] at hg
  cases hg
  exact Pyzx.roundtrip_cod fix d d' h hrt

/-! ### Witnesses of the defects of `from_pyzx` in the tree, decided on the model -/

private def sp (k : ZKind) (i o : Nat) (off : Nat) (num : Int := 0) (den : Nat := 1) : ZBox :=
  { kind := k, nIn := i, nOut := o, phase := ⟨num, den⟩, off := off }

/-- `Id(1) @ SWAP >> Id(1) @ H @ Id(1) >> X(2, 0) @ Id(1)` -/
private def w1 : ZDiagram := ⟨3, 1, [swapBox 1, hBox 1, sp .X 2 0 0]⟩

/-- Finding C17-1: the H on the moved input is gone after the round trip … -/
theorem roundtrip_drops_hadamard :
    (toPyzx w1 >>= fromPyzx) = .ok ⟨3, 1, [swapBox 1, sp .X 2 0 0]⟩ := by decide

/-- … and stays with the repaired label. -/
theorem roundtrip_keeps_hadamard_fixed : (toPyzx w1 >>= fromPyzxWith Fix.all) = .ok w1 := by decide

/-- `Z(1, 2) >> H @ Id(1)` -/
private def w2 : ZDiagram := ⟨1, 2, [sp .Z 1 2 0, hBox 0]⟩

/-- Finding C17-2: the output loop moves the placed wire again — the H ends on the other output. -/
theorem roundtrip_misplaces_hadamard :
    (toPyzx w2 >>= fromPyzx) = .ok ⟨1, 2, [sp .Z 1 2 0, hBox 0, swapBox 0]⟩ := by decide

theorem roundtrip_places_hadamard_fixed : (toPyzx w2 >>= fromPyzxWith Fix.all) = .ok w2 := by decide

/-- `X(0, 1) @ Z(0, 2) >> SWAP @ Id(1) >> Id(1) @ SWAP`: outputs Z, Z, X -/
private def w3 : ZDiagram := ⟨0, 3, [sp .X 0 1 0, sp .Z 0 2 1, swapBox 0, swapBox 1]⟩

/-- Finding C17-2: three swaps whose composite is the identity up to the two Z legs — the outputs
    come back as X, Z, Z. -/
theorem roundtrip_permutes_outputs :
    (toPyzx w3 >>= fromPyzx)
      = .ok ⟨0, 3, [sp .X 0 1 0, sp .Z 0 2 1, swapBox 0, swapBox 0, swapBox 1]⟩ := by decide

theorem roundtrip_orders_outputs_fixed : (toPyzx w3 >>= fromPyzxWith Fix.all) = .ok w3 := by decide

/-- The `target > source` branch of `move` in the tree puts the entry one place too far left
    (the swaps put wire 0 at position 2); the repaired branch agrees with the swaps. -/
theorem move_right_off_by_one :
    (move Fix.none 7 [7, 8, 9] 0 2).1 = [8, 7, 9] ∧
    applySwaps (move Fix.none 7 [7, 8, 9] 0 2).2.1 [7, 8, 9] = [8, 9, 7] ∧
    (move Fix.all 7 [7, 8, 9] 0 2).1 = [8, 9, 7] := by decide

/-! ### Non-vacuity -/

/-- The docstring example: `Z(1,2,.25) @ Z(1,2,.75) >> Id(1) @ SWAP @ Id(1) >> X(2,1,.5) @ X(2,1,.5)`. -/
private def bialgebra : ZDiagram :=
  ⟨2, 2, [sp .Z 1 2 0 1 4, sp .Z 1 2 2 3 4, swapBox 1, sp .X 2 1 0 1 2, sp .X 2 1 1 1 2]⟩

example : bialgebra.WF := by decide
-- 8 vertices, inputs [0, 1], outputs [6, 7], phases doubled, the adjacency of zx.py:81-89
example : toPyzx bialgebra = .ok
    { verts := [⟨.boundary, ⟨0, 1⟩, 0, 0⟩, ⟨.boundary, ⟨0, 1⟩, 1, 0⟩,
                ⟨.Z, ⟨1, 2⟩, 0, 1⟩, ⟨.Z, ⟨3, 2⟩, 2, 2⟩, ⟨.X, ⟨1, 1⟩, 0, 4⟩, ⟨.X, ⟨1, 1⟩, 1, 5⟩,
                ⟨.boundary, ⟨0, 1⟩, 0, 6⟩, ⟨.boundary, ⟨0, 1⟩, 1, 6⟩]
      edges := [⟨0, 2, .simple⟩, ⟨1, 3, .simple⟩, ⟨2, 4, .simple⟩, ⟨3, 4, .simple⟩,
                ⟨2, 5, .simple⟩, ⟨3, 5, .simple⟩, ⟨4, 6, .simple⟩, ⟨5, 7, .simple⟩]
      inputs := [0, 1]
      outputs := [6, 7]
      scalar := ⟨1, 0, 0⟩ } := by decide
example : (specGraph bialgebra).Simple := by decide
example : (toPyzx bialgebra >>= fromPyzx) = .ok bialgebra := by decide       -- zx.py:137-140
-- Hadamard parity: two H boxes on a wire cancel, one gives a Hadamard edge
example : (toPyzx ⟨1, 1, [hBox 0, hBox 0, sp .Z 1 1 0]⟩).toOption.map (·.edges.map (·.ty))
    = some [.simple, .simple] := by decide
example : (toPyzx ⟨1, 1, [hBox 0, sp .Z 1 1 0, hBox 0]⟩).toOption.map (·.edges.map (·.ty))
    = some [.hadamard, .hadamard] := by decide
-- the upward trace through a swap and an H box
example : producer 2 [hBox 0, swapBox 0] 0 = some (1, true) := by decide
-- a parallel edge leaves the property's domain
example : ¬ (specGraph ⟨1, 1, [sp .Z 1 2 0, sp .X 2 1 0]⟩).Simple := by decide
-- phases: -1/8 of a turn is exported as 7/4 half turns and comes back as 7/8
example : (Phase.mk (-1) 8).export = ⟨7, 4⟩ ∧ (Phase.mk (-1) 8).export.import = ⟨7, 8⟩ := by decide
-- refusal
private def twoBoundaries : List Vertex := [⟨.boundary, ⟨0, 1⟩, 0, 0⟩, ⟨.boundary, ⟨0, 1⟩, 0, 1⟩]
example : fromPyzx ⟨twoBoundaries, [⟨0, 1, .simple⟩], [0], [], Gauss.one⟩ = .error .value := by decide
example : fromPyzx ⟨twoBoundaries, [⟨0, 1, .simple⟩], [0, 1], [1], Gauss.one⟩ = .error .value := by
  decide
example : fromPyzx ⟨twoBoundaries, [⟨0, 1, .hadamard⟩], [0], [1], Gauss.one⟩ = .ok ⟨1, 1, [hBox 0]⟩ := by
  decide
-- a moved wire (move_spec has instances)
example : (move Fix.none 5 [1, 2, 3] 2 0).1 = [5, 1, 2] ∧ (move Fix.all 5 [1, 2, 3] 2 0).1 = [3, 1, 2]
    := by decide

end DV.C17
