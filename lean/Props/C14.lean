/-
  Props/C14.lean — C14 "substituting parameters commutes with evaluation".
  Property theorems only; proofs in Proofs/Param.lean, Proofs/ParamGates.lean and (the executable
  polynomial instance) Proofs/PolyOrder.lean, PolySem.lean, PolyRing.lean, PolyDiagram.lean.

  PARTIAL.  What is proved, about Model/Param.lean:
   * `eval_natural` — for box data in ANY commutative ring and ANY ring homomorphism σ commuting
     with conjugation (a substitution of values, symbols or expressions is one), evaluating the
     substituted diagram equals substituting in the evaluation: induction over the layers of the
     reference evaluator (it uses only Σ and ·);
   * the EXECUTABLE instance satisfies its hypotheses: the model's integer polynomials in normal
     form are a commutative ring under the model's own `add/mul/neg/0/1` (`poly_ring_laws`,
     instance `CommRing NPoly`; `poly_normal_forms_closed`: the operations keep the normal form;
     `normal_form_unique`), the model's substitution is a ring homomorphism of it
     (`subst_is_ring_hom`), hence `eval_natural_poly` — now a theorem, for every polynomial
     diagram (data in normal form or not) — and `eval_natural_poly_simultaneous`;
   * `subs_preserves_*` — per box class, the attribute record (kind, arity, dagger flag,
     mixedness) rebuilt by the class's own `subs` AS THE CODE WRITES IT equals the original for
     every record the class can construct; for `Scalar` and `ClassicalGate` this is FALSE on the
     code as found (findings F5c, F5d): the exact condition is proved (`…_iff`) and the negation
     is `decide`d on a witness; the repaired transcriptions (`Fixes`) are proved to preserve;
   * `subs_keeps_shape` — the diagram-level `subs` keeps dom, the layer structure, and each
     box's name, dom, cod and dagger flag;
   * `free_symbols_spec`, `subs_all_closed`, `lambdify_eq_subs`;
   * SEQUENCES (Model/ParamSeq.lean: the diagram as monoidal.Diagram stores it, with its three
     redundant copies `boxes` / `offsets` / `layers`, and `subs`, `lambdify`, slicing transcribed
     as walks over the copy the code reads): `subs_result_coherent` — the diagram returned by
     `subs` has agreeing copies whatever the argument's `boxes` were; `subs_then_subs`,
     `subs_then_lambdify` — a second substitution / a lambdification of the result is the one-shot
     substitution by the composite; `subs_then_slice` — slices of the result are the substituted
     slices; `subs_views_agree` — boxes read from `.boxes`, from `.layers`, from slices and both
     evaluators (the functor's walk over boxes/offsets, the walk over layers) agree on the result;
     `subs_then_subs_eval` — the evaluation after two substitutions is the evaluation with both
     applied.  The record `subsKeepingLayers` (substituted boxes, old layers) is shown NOT to have
     these properties on a concrete diagram.
   * NESTED DATA (Model/ParamData.lean: the containers a box may be handed as `data` — list,
     tuple, set, frozenset, dict, numpy array, 0-d array — with `recursive_free_symbols`
     cat.py:509-517 and `rmap` cat.py:30-48 transcribed as recursions over them):
     `free_symbols_nested` — the symbols collected are exactly those of the entries;
     `free_symbols_container_irrelevant` — two ways of handing the same entries to a box report
     the same symbols; `free_symbols_nested_flat_box` — and the same as the flat box of
     Model/Param.lean; `rmap_entries_and_containers` — substitution maps the entries in place and
     keeps every container; `lambdify_eq_subs_nested`; `subs_all_closed_nested`; `box_subs_hits_nested` — the early exit of
     `Box.subs` is taken only if no entry mentions the variable.  For 0-d arrays these are FALSE
     on the code as found (finding F4z: the array, not its item, is asked for free symbols):
     proved for data without 0-d arrays and for the repaired transcription, negation `decide`d on
     a witness (`zero_d_array_hides_its_symbols_witness`).
   * BUBBLES (Model/ParamXSyms.lean: tensor.Bubble carries no data, REPORTS the symbols of the
     diagram inside by overriding the property `free_symbols` — tensor.py:699-701 — and rebuilds
     itself around `inside.subs(...)`; cat.Arrow.free_symbols asks every box through the public
     property): `bubble_free_symbols_spec` — the symbols reported for a diagram with bubbles are
     exactly those of the parameters of its boxes, the boxes inside bubbles included;
     `bubble_subs_acts_on_parameters`, `bubble_subs_keeps_shape` (whiskers, declared types and the
     function of each bubble), `bubble_subs_all_closed`; `bubble_eval_natural` — substitution by
     any ring homomorphism commutes with evaluation through the bubbles (which apply an integer
     polynomial entrywise).  A walk over the CACHED attribute `_free_symbols` of the boxes is
     shown by `decide` to drop the symbols inside bubbles
     (`cached_attribute_walk_drops_bubble_symbols`).  Bubbles are un-nested and single-wire in the
     model (nested bubbles, several wires: oracle only).
  What is NOT proved: that sympy's `subs`/`lambdify` ARE ring homomorphisms on sympy
  expressions (sympy's polynomial arithmetic is compared with the model's on every run by the
  streams `psubseval`/`pevalsubs`).  Tensor.subs / CQMap.subs on the evaluated array (findings
  F5a, F5f), the numpy/sympy dispatch of `Parametrized.modules` (F5b) and zx `lambdify` (F5e)
  are oracle-only.
-/
import Proofs.ParamGates
import Proofs.PolyDiagram
import Proofs.ParamSeq
import Proofs.ParamData
import Proofs.ParamXSyms
import Mathlib.Data.ZMod.Basic

namespace DV.C14
open DV.Param

/-- **Substitution commutes with evaluation.** -/
theorem eval_natural {R S : Type} [CommRing R] [CommRing S] [HasConj R] [HasConj S]
    (σ : R →+* S) (hconj : ∀ x, σ (HasConj.conj x) = HasConj.conj (σ x))
    (d : PDiagram R) (i k : Nat) :
    (d.mapData σ).eval i k = σ (d.eval i k) :=
  congrFun (congrFun (evalLayers_natural σ hconj d.layers) i) k

/-! ### the executable instance: integer polynomials in normal form -/

/-- The model's operations keep the normal form (sorted by `Mono.cmp`, trimmed monomials, no zero
    coefficient); `mul` and `subst` even produce it from arbitrary term lists. -/
theorem poly_normal_forms_closed (p q : Poly) (hp : p.WF) (hq : q.WF) :
    (0 : Poly).WF ∧ (1 : Poly).WF ∧ (p + q).WF ∧ (p * q).WF ∧ (-p).WF
      ∧ (∀ c, (Poly.const c).WF) ∧ (∀ i, (Poly.var i).WF) ∧ (∀ σ, (Poly.subst σ p).WF)
      ∧ (∀ v, (Poly.deriv v p).WF) :=
  ⟨Poly.zero_wf, Poly.one_wf, Poly.add_wf hp hq, Poly.mul_wf p q, Poly.neg_wf hp,
   Poly.const_wf, Poly.var_wf, fun σ => Poly.subst_wf σ p, fun v => Poly.deriv_wf v p⟩

/-- The ring operations of `NPoly` ARE the model's operations on the underlying term lists. -/
theorem npoly_ops_are_model_ops (a b : NPoly) :
    (a + b).1 = a.1 + b.1 ∧ (a * b).1 = a.1 * b.1 ∧ (-a).1 = -a.1
      ∧ (0 : NPoly).1 = 0 ∧ (1 : NPoly).1 = 1 := ⟨rfl, rfl, rfl, rfl, rfl⟩

/-- **The model's polynomials in normal form are a commutative ring** (the instance
    `CommRing NPoly` of Proofs/PolyRing.lean; here its laws, spelled out). -/
theorem poly_ring_laws (a b c : NPoly) :
    a + b + c = a + (b + c) ∧ a + b = b + a ∧ 0 + a = a ∧ -a + a = 0
      ∧ a * b * c = a * (b * c) ∧ a * b = b * a ∧ 1 * a = a ∧ a * (b + c) = a * b + a * c :=
  ⟨add_assoc a b c, add_comm a b, zero_add a, neg_add_cancel a, mul_assoc a b c, mul_comm a b,
   one_mul a, mul_add a b c⟩

/-- Normal forms are canonical: two of them denoting the same polynomial (in Mathlib's
    `MvPolynomial ℕ ℤ`) are the same term list. -/
theorem normal_form_unique (p q : Poly) (hp : p.WF) (hq : q.WF) (h : sem p = sem q) : p = q :=
  sem_inj hp hq h

/-- The model's simultaneous substitution is a ring homomorphism. -/
theorem subst_is_ring_hom (σ : Nat → Poly) :
    ∃ f : NPoly →+* NPoly, ∀ a : NPoly, (f a).1 = Poly.subst σ a.1 :=
  ⟨NPoly.substHom σ, fun _ => rfl⟩

/-- **The executable instance** of `eval_natural` (x_v := q on integer polynomials), for every
    polynomial diagram: `eval_natural` at the ring `NPoly` and the homomorphism `substHom`. -/
theorem eval_natural_poly (d : PolyDiagram) (v : Nat) (q : Poly) (i k : Nat) :
    (d.subs v q).eval i k = Poly.subst1 v q (d.eval i k) :=
  eval_natural_poly_proof d v q i k

/-- …and for simultaneous substitutions (lists of pairs). -/
theorem eval_natural_poly_simultaneous (σ : Nat → Poly) (d : PolyDiagram) (i k : Nat) :
    (d.mapData (Poly.subst σ)).eval i k = Poly.subst σ (d.eval i k) :=
  eval_natural_subst σ d.layers i k

/-- `subs` on a tensor diagram keeps the domain, the number of layers, and every layer's
    whiskers and box name, dom, cod, dagger flag. -/
theorem subs_keeps_shape {R S : Type} (f : R → S) (d : PDiagram R) :
    (d.mapData f).dom = d.dom ∧ (d.mapData f).layers.length = d.layers.length ∧
    ∀ (n : Nat) (l : PLayer R), d.layers[n]? = some l →
      ∃ l' : PLayer S, (d.mapData f).layers[n]? = some l' ∧ l'.left = l.left ∧ l'.right = l.right ∧
        l'.box.name = l.box.name ∧ l'.box.dom = l.box.dom ∧ l'.box.cod = l.box.cod ∧
        l'.box.dagger = l.box.dagger := by
  refine ⟨rfl, by simp [PDiagram.mapData], ?_⟩
  intro n l hl
  refine ⟨l.mapData f, ?_, rfl, rfl, rfl, rfl, rfl, rfl⟩
  simp [PDiagram.mapData, List.getElem?_map, hl]

/-! ### per class: what `subs` rebuilds -/

theorem subs_preserves_tensorBox (fx : Fixes) (hit hd hs : Bool) (a : Attr) :
    csubs fx .tensorBox hit hd hs a = .ok a := csubs_preserves_tensorBox fx hit hd hs a

theorem subs_preserves_rotation (fx : Fixes) (hit hd hs : Bool) (a : Attr)
    (h : a.reachable .rotation) : csubs fx .rotation hit hd hs a = .ok a :=
  csubs_preserves_rotation fx hit hd hs a h

theorem subs_preserves_mixedScalar (fx : Fixes) (hit hd hs : Bool) (a : Attr)
    (h : a.reachable .mixedScalar) : csubs fx .mixedScalar hit hd hs a = .ok a :=
  csubs_preserves_mixedScalar fx hit hd hs a h

theorem subs_preserves_sqrt (fx : Fixes) (hit hd hs : Bool) (a : Attr)
    (h : a.reachable .sqrt) : csubs fx .sqrt hit hd hs a = .ok a :=
  csubs_preserves_sqrt fx hit hd hs a h

theorem subs_preserves_zxSpider (fx : Fixes) (hit hd hs : Bool) (a : Attr)
    (h : a.reachable .zxSpider) : csubs fx .zxSpider hit hd hs a = .ok a :=
  csubs_preserves_zxSpider fx hit hd hs a h

theorem subs_preserves_zxScalar (fx : Fixes) (hit hd hs : Bool) (a : Attr)
    (h : a.reachable .zxScalar) : csubs fx .zxScalar hit hd hs a = .ok a :=
  csubs_preserves_zxScalar fx hit hd hs a h

/-- `Scalar.subs` keeps the record iff the scalar is pure — or the repair of F5c is in. -/
theorem subs_preserves_scalar_partial (fx : Fixes) (hit hd hs : Bool) (a : Attr)
    (h : a.reachable .scalar) :
    csubs fx .scalar hit hd hs a = .ok a ↔ (fx.scalarKeepsMixed = true ∨ a.mixed = some false) :=
  csubs_scalar_iff fx hit hd hs a h

/-- F5c, decided: on the code as found a mixed scalar comes back pure. -/
theorem scalar_subs_drops_mixedness_witness :
    csubs {} .scalar true true true ⟨"Scalar", 0, 0, false, some true⟩
      = .ok ⟨"Scalar", 0, 0, false, some false⟩ := by decide

/-- `ClassicalGate.subs` keeps the record iff the gate is not daggered — or the repair of F5d
    is in. -/
theorem subs_preserves_classicalGate_partial (fx : Fixes) (hit : Bool) (a : Attr)
    (h : a.reachable .classicalGate) :
    csubs fx .classicalGate hit true true a = .ok a
      ↔ (fx.cgateKeepsDagger = true ∨ a.dagger = false) :=
  csubs_classicalGate_iff fx hit true a h rfl

/-- F5d, decided: on the code as found a daggered classical gate loses its flag. -/
theorem classicalGate_subs_drops_dagger_witness :
    csubs {} .classicalGate true true true ⟨"ClassicalGate", 2, 1, true, some false⟩
      = .ok ⟨"ClassicalGate", 2, 1, false, some false⟩ := by decide

/-- F5h, decided: on the code as found `Bits(1).subs(x, 2)` raises (data is None). -/
theorem classical_state_subs_raises_witness :
    csubs {} .classicalGate false false false ⟨"Bits", 0, 1, false, some false⟩
      = .error .attribute := by decide

/-- With the three repairs every modelled class keeps every reachable record. -/
theorem subs_preserves_all_when_repaired (cls : Cls) (hit hs : Bool) (a : Attr)
    (h : a.reachable cls) :
    csubs ⟨true, true, true⟩ cls hit true hs a = .ok a := by
  cases cls
  · exact csubs_preserves_tensorBox _ _ _ _ _
  · exact csubs_preserves_rotation _ _ _ _ _ h
  · exact (csubs_scalar_iff _ _ _ _ _ h).mpr (Or.inl rfl)
  · exact csubs_preserves_mixedScalar _ _ _ _ _ h
  · exact csubs_preserves_sqrt _ _ _ _ _ h
  · cases hs with
    | true => exact (csubs_classicalGate_iff _ _ true _ h rfl).mpr (Or.inl rfl)
    | false => simp [csubs]
  · exact csubs_preserves_zxSpider _ _ _ _ _ h
  · exact csubs_preserves_zxScalar _ _ _ _ _ h

/-! ### free symbols -/

/-- The free symbols of a diagram are exactly the symbols occurring in the data of its boxes. -/
theorem free_symbols_spec {R : Type} (fs : R → List Nat) (d : PDiagram R) (v : Nat) :
    v ∈ d.freeSymbols fs ↔ ∃ l ∈ d.layers, ∃ e ∈ l.box.data, v ∈ fs e :=
  mem_freeSymbolsL fs d.layers v

/-- Substituting numbers for all symbols: σ = ι ∘ ev with `ev` into a ring of numbers `K` and
    `ι` the inclusion of numbers.  The result reports no free symbol and every entry of its
    evaluation is (the inclusion of) a number, namely the evaluation over `K`. -/
theorem subs_all_closed {A K : Type} [CommRing A] [CommRing K] [HasConj A] [HasConj K]
    (fs : A → List Nat) (ev : A →+* K) (ι : K →+* A)
    (hι : ∀ x, ι (HasConj.conj x) = HasConj.conj (ι x))
    (hnum : ∀ k, fs (ι k) = []) (d : PDiagram A) :
    (d.mapData (fun e => ι (ev e))).freeSymbols fs = [] ∧
    ∀ i k, (d.mapData (fun e => ι (ev e))).eval i k = ι ((d.mapData ev).eval i k) := by
  refine ⟨freeSymbols_mapData_closed fs _ (fun e => hnum (ev e)) d.layers, ?_⟩
  intro i k
  have h := congrFun (congrFun (evalLayers_natural ι hι (d.mapData ev).layers) i) k
  have e : (d.mapData ev).layers.map (PLayer.mapData ι)
      = d.layers.map (PLayer.mapData (fun e => ι (ev e))) := by
    have := mapData_mapData (ev : A → K) (ι : K → A) d.layers
    simpa [PDiagram.mapData, Function.comp_def] using this
  rw [e] at h
  exact h

/-- `lambdify` on the model: the diagram with every datum evaluated at the given values
    (a diagram over the numbers `K`). -/
def lambdify {A K : Type} (ev : A → K) (d : PDiagram A) : PDiagram K := d.mapData ev

/-- Calling the lambdified diagram gives the same diagram as substituting the values, and it
    evaluates to the evaluation with the values substituted. -/
theorem lambdify_eq_subs {A K : Type} [CommRing A] [CommRing K] [HasConj A] [HasConj K]
    (ev : A →+* K) (hev : ∀ x, ev (HasConj.conj x) = HasConj.conj (ev x))
    (ι : K → A) (d : PDiagram A) :
    (lambdify ev d).mapData ι = d.mapData (fun e => ι (ev e)) ∧
    ∀ i k, (lambdify ev d).eval i k = ev (d.eval i k) := by
  constructor
  · unfold lambdify PDiagram.mapData
    have := mapData_mapData (ev : A → K) ι d.layers
    simp only [Function.comp_def] at this
    rw [this]
  · intro i k
    exact congrFun (congrFun (evalLayers_natural ev hev d.layers) i) k


/-! ### nested box data: the container is not data -/

/-- **The free symbols of a box are exactly the symbols occurring in the entries of its data**,
    however deeply and in whatever containers (list, tuple, set, frozenset, dict values, numpy
    array) the entries sit — for data without 0-d arrays, or with the repaired reading of 0-d
    arrays (`z = true`). -/
theorem free_symbols_nested {R : Type} (z : Bool) (fs : R → List Nat) (d : PData R)
    (h : z = true ∨ d.noZeroD = true) (v : Nat) :
    v ∈ d.freeSymbols z fs ↔ ∃ e ∈ d.entries, v ∈ fs e :=
  PData.mem_freeSymbols_entries z fs v d h

/-- The same entries in two different containers report the same free symbols. -/
theorem free_symbols_container_irrelevant {R : Type} (z : Bool) (fs : R → List Nat)
    (d d' : PData R) (hd : z = true ∨ d.noZeroD = true) (hd' : z = true ∨ d'.noZeroD = true)
    (h : d.entries = d'.entries) (v : Nat) :
    v ∈ d.freeSymbols z fs ↔ v ∈ d'.freeSymbols z fs :=
  PData.freeSymbols_container_irrelevant z fs d d' hd hd' h v

/-- …and the same as the flat box of Model/Param.lean (whose evaluation theorems then apply). -/
theorem free_symbols_nested_flat_box {R : Type} (z : Bool) (fs : R → List Nat) (d : PData R)
    (hd : z = true ∨ d.noZeroD = true) (dom cod : List Nat) (dg : Bool) (v : Nat) :
    v ∈ (({ dom := dom, cod := cod, dagger := dg, data := d.entries } : PBox R).freeSymbols fs)
      ↔ v ∈ d.freeSymbols z fs :=
  PData.freeSymbols_flat_box z fs d hd dom cod dg v

/-- `rmap` (hence `rsubs`, `Box.subs`) maps the entries in place and keeps every container. -/
theorem rmap_entries_and_containers {R S : Type} (f : R → S) (d : PData R) :
    (d.rmap f).entries = d.entries.map f
      ∧ (d.rmap f).rmap (fun _ => ()) = d.rmap (fun _ => ()) :=
  ⟨PData.entries_rmap f d, PData.shape_rmap f d⟩

/-- Nested data: lambdifying (evaluating every entry at the values, `ev`) and reading the numbers
    back as data (`ι`) is the substitution `ι ∘ ev`; two substitutions compose. -/
theorem lambdify_eq_subs_nested {A K : Type} (ev : A → K) (ι : K → A) (d : PData A) :
    (d.rmap ev).rmap ι = d.rmap (fun e => ι (ev e)) :=
  PData.rmap_rmap ev ι d

/-- Substituting closed values for every entry leaves no free symbol, whatever the containers. -/
theorem subs_all_closed_nested {R S : Type} (z : Bool) (fs : S → List Nat) (f : R → S)
    (hclosed : ∀ e, fs (f e) = []) (d : PData R) : (d.rmap f).freeSymbols z fs = [] :=
  PData.freeSymbols_rmap_closed z fs f hclosed d

/-- `Box.subs` substitutes (does not take its early exit) whenever an entry mentions a
    substituted variable. -/
theorem box_subs_hits_nested {R : Type} (z : Bool) (fs : R → List Nat) (vars : List Nat)
    (f : R → R) (d : PData R) (hd : z = true ∨ d.noZeroD = true)
    (h : ∃ v ∈ vars, ∃ e ∈ d.entries, v ∈ fs e) : d.boxSubs z fs vars f = d.rmap f :=
  PData.boxSubs_hits z fs vars f d hd h

/-- Finding F4z on the model: as the code is (`z = false`) a 0-d array holding `x0 + x1` reports
    no free symbol, so `Box.subs` returns the box unchanged; the same entry in a one-element tuple
    is reported and substituted. -/
theorem zero_d_array_hides_its_symbols_witness :
    (PData.zeroD (Poly.var 0 + Poly.var 1)).freeSymbols false Poly.vars = []
    ∧ (PData.zeroD (Poly.var 0 + Poly.var 1)).boxSubs false Poly.vars [0] (Poly.subst1 0 (Poly.const 2))
        = PData.zeroD (Poly.var 0 + Poly.var 1)
    ∧ (PData.node .tuple (.cons (.leaf (Poly.var 0 + Poly.var 1)) .nil)).freeSymbols false Poly.vars = [0, 1]
    ∧ (PData.zeroD (Poly.var 0 + Poly.var 1)).freeSymbols true Poly.vars = [0, 1] := by
  decide

/-! ### sequences of operations on one diagram -/

/-- **The result of `subs` is one value.**  Whatever `boxes`/`offsets` the argument carried, the
    code's walk over the layers (monoidal.py:476-479) succeeds on composable layers and returns a
    diagram whose three copies agree, with the substituted layers. -/
theorem subs_result_coherent {R S : Type} (f : R → S) (d : RDiagram R)
    (h : Chained d.dom d.layers) :
    ∃ s, d.subs f = .ok s ∧ s.Coherent ∧ s.dom = d.dom
      ∧ s.layers = d.layers.map (PLayer.mapData f) :=
  ⟨_, subs_eq f d h, ofLayers_coherent _ _ ((chained_mapData f d.dom d.layers).mpr h), rfl, rfl⟩

/-- **subs then subs** is the substitution by the composite, in one shot. -/
theorem subs_then_subs {R S T : Type} (f : R → S) (g : S → T) (d : RDiagram R) (h : d.Coherent) :
    (d.subs f >>= RDiagram.subs g) = d.subs (g ∘ f) := by
  rw [subs_of_coherent f d h, subs_of_coherent (g ∘ f) d h]
  show RDiagram.subs g (d.mapData f) = _
  rw [subs_of_coherent g _ (mapData_coherent f d h), RDiagram.mapData_mapData]

/-- **subs then lambdify**: calling the lambdification of a substituted diagram on values `ev` is
    substituting the composite — the same diagram as substituting the values in the result. -/
theorem subs_then_lambdify {R S K : Type} (f : R → S) (ev : S → K) (d : RDiagram R)
    (h : d.Coherent) :
    (d.subs f >>= RDiagram.lambdify ev) = d.subs (ev ∘ f)
      ∧ (d.subs f >>= RDiagram.lambdify ev) = (d.subs f >>= RDiagram.subs ev) :=
  ⟨subs_then_subs f ev d h, rfl⟩

/-- **subs then slice**: the slices of the result are the substituted slices of the argument, and
    their boxes are the slices of the result's boxes. -/
theorem subs_then_slice {R S : Type} (f : R → S) (i j : Nat) (d : RDiagram R) (h : d.Coherent) :
    (d.subs f).map (RDiagram.slice i j) = .ok ((d.slice i j).mapData f)
      ∧ ((d.mapData f).slice i j).boxes = sliceL i j (d.mapData f).boxes := by
  refine ⟨?_, (slice_boxes_of_coherent i j _ (mapData_coherent f d h)).1⟩
  rw [subs_of_coherent f d h]
  show Except.ok ((d.mapData f).slice i j) = _
  rw [slice_mapData]

/-- **All ways of reading the result agree**: `.boxes` against `.layers`, offsets, every slice,
    and the two evaluators (boxes + offsets as the functors walk them, layers). -/
theorem subs_views_agree {R S : Type} [Add S] [Mul S] [Zero S] [One S] [HasConj S]
    (f : R → S) (d : RDiagram R) (h : Chained d.dom d.layers) :
    ∃ s, d.subs f = .ok s ∧ s.boxes = s.layers.map (·.box)
      ∧ s.offsets = s.layers.map (·.left.length)
      ∧ (∀ i j, (s.slice i j).boxes = sliceL i j s.boxes)
      ∧ s.evalBoxes = s.eval := by
  obtain ⟨s, hs, hc, _, _⟩ := subs_result_coherent f d h
  exact ⟨s, hs, hc.boxes, hc.offsets, fun i j => (slice_boxes_of_coherent i j s hc).1,
    evalBoxes_eq_eval s hc⟩

/-- **subs then subs, evaluated**: the evaluation after two substitutions (ring homomorphisms
    commuting with conjugation) is the evaluation with both applied to every entry. -/
theorem subs_then_subs_eval {R S T : Type} [CommRing R] [CommRing S] [CommRing T]
    [HasConj R] [HasConj S] [HasConj T] (σ : R →+* S) (τ : S →+* T)
    (hσ : ∀ x, σ (HasConj.conj x) = HasConj.conj (σ x))
    (hτ : ∀ x, τ (HasConj.conj x) = HasConj.conj (τ x))
    (d : RDiagram R) (h : d.Coherent) (s : RDiagram T)
    (hs : (d.subs σ >>= RDiagram.subs τ) = .ok s) (i k : Nat) :
    s.eval i k = τ (σ (d.eval i k)) := by
  rw [subs_of_coherent (⇑σ) d h] at hs
  change RDiagram.subs (⇑τ) (d.mapData σ) = _ at hs
  rw [subs_of_coherent (⇑τ) _ (mapData_coherent (⇑σ) d h)] at hs
  cases hs
  show evalLayers ((d.layers.map (PLayer.mapData σ)).map (PLayer.mapData τ)) i k = _
  rw [congrFun (congrFun (evalLayers_natural τ hτ _) i) k,
      congrFun (congrFun (evalLayers_natural σ hσ _) i) k]
  rfl

/-! ### diagrams with bubbles -/

/-- The free symbols reported for a diagram with bubbles are exactly the symbols occurring in the
    parameters of its boxes — a bubble has no parameter of its own and reports those of the
    diagram inside. -/
theorem bubble_free_symbols_spec {R : Type} (fs : R → List Nat) (ls : List (XLayer R)) (v : Nat) :
    v ∈ xfreeSymbolsL fs ls ↔ ∃ e ∈ xparams ls, v ∈ fs e :=
  mem_xfreeSymbolsL fs ls v

/-- `subs` maps the parameters in place, inside the bubbles too. -/
theorem bubble_subs_acts_on_parameters {R S : Type} (f : R → S) (ls : List (XLayer R)) :
    xparams (ls.map (XLayer.mapData f)) = (xparams ls).map f :=
  xparams_mapData f ls

/-- `subs` keeps the whiskers and the declared type of every box and bubble, and the function of
    every bubble. -/
theorem bubble_subs_keeps_shape {R S : Type} (f : R → S) (l : XLayer R) :
    (l.mapData f).left = l.left ∧ (l.mapData f).right = l.right ∧
    (l.mapData f).box.dom = l.box.dom ∧ (l.mapData f).box.cod = l.box.cod ∧
    ∀ dom cod func inside, l.box = .bubble dom cod func inside →
      (l.mapData f).box = .bubble dom cod func (inside.map (PLayer.mapData f)) :=
  ⟨rfl, rfl, xbox_dom_mapData f l.box, xbox_cod_mapData f l.box,
   fun _ _ _ _ h => by simp [XLayer.mapData, h, XBox.mapData]⟩

/-- Substituting closed values for every parameter: the diagram reports no free symbol. -/
theorem bubble_subs_all_closed {R S : Type} (fs : S → List Nat) (f : R → S)
    (hclosed : ∀ e, fs (f e) = []) (ls : List (XLayer R)) :
    xfreeSymbolsL fs (ls.map (XLayer.mapData f)) = [] :=
  xfreeSymbols_mapData_closed fs f hclosed ls

/-- **Substitution commutes with evaluation through bubbles**: a bubble applies an integer
    polynomial to every entry of the evaluation of its inside, which commutes with every ring
    homomorphism. -/
theorem bubble_eval_natural {R S : Type} [CommRing R] [CommRing S] [HasConj R] [HasConj S]
    (σ : R →+* S) (hconj : ∀ x, σ (HasConj.conj x) = HasConj.conj (σ x))
    (ls : List (XLayer R)) (hls : ∀ l ∈ ls, l.box.isInput) (i k : Nat) :
    xevalLayers (fun n : Int => (n : S)) (ls.map (XLayer.mapData σ)) i k
      = σ (xevalLayers (fun n : Int => (n : R)) ls i k) :=
  congrFun (congrFun (xevalLayers_natural σ hconj ls hls) i) k

/-- `f >> g.bubble(…)` with `f = [x0, 1, 0, 2]`, `g = [1, x1, x1, 3]`, the bubble squaring. -/
def xb0 : List (XLayer Poly) :=
  [ { left := [], right := [],
      box := .plain { dom := [2], cod := [2], dagger := false, data := [Poly.var 0, 1, 0, Poly.const 2] } },
    { left := [], right := [],
      box := .bubble [2] [2] [0, 0, 1]
        [ { left := [], right := [],
            box := { dom := [2], cod := [2], dagger := false,
                     data := [1, Poly.var 1, Poly.var 1, Poly.const 3] } } ] } ]

/-- A walk that unions the attribute `_free_symbols` cached by `Box.__init__` (instead of asking
    each box through its property, as cat.Arrow.free_symbols does) drops the symbols that occur
    only inside bubbles. -/
theorem cached_attribute_walk_drops_bubble_symbols :
    xfreeSymbolsL Poly.vars xb0 = [0, 1] ∧ xcachedSymbolsL Poly.vars xb0 = [0] := by decide

/-! ### non-vacuity -/

example : (1 : Nat) ∈ xfreeSymbolsL Poly.vars xb0 :=
  (bubble_free_symbols_spec Poly.vars xb0 1).mpr ⟨Poly.var 1, by decide, by decide⟩
example : xfreeSymbolsL Poly.vars (xb0.map (XLayer.mapData (fun _ => Poly.const 1))) = [] :=
  bubble_subs_all_closed Poly.vars _ (fun _ => by decide) xb0
example : ∀ l ∈ xb0, l.box.isInput := by
  intro l hl
  simp only [xb0, List.mem_cons, List.mem_nil_iff, or_false] at hl
  rcases hl with rfl | rfl <;> trivial
example : xevalLayers Poly.const xb0 0 1 = Poly.var 0 * (Poly.var 1 * Poly.var 1) + Poly.const 9 := by
  decide


instance : HasConj (ZMod 5) := ⟨id⟩

/-- A two-layer integer diagram with a daggered box, reduced mod 5. -/
def d0 : PDiagram Int :=
  { dom := [2],
    layers := [ { left := [], right := [],
                  box := { dom := [2], cod := [2], dagger := false, data := [7, 1, 0, 3] } },
                { left := [], right := [],
                  box := { dom := [2], cod := [3], dagger := true, data := [1, 2, 3, 4, 5, 6] } } ] }

example : d0.eval 0 2 = 7 * 5 + 1 * 6 := by decide
example : (d0.mapData (Int.castRingHom (ZMod 5))).eval 0 2 = (Int.castRingHom (ZMod 5)) (d0.eval 0 2) :=
  eval_natural (Int.castRingHom (ZMod 5)) (fun _ => rfl) d0 0 2
example : (⟨"Rx", 1, 1, false, some false⟩ : Attr).reachable .rotation := ⟨rfl, rfl⟩
example : (⟨"Scalar", 0, 0, false, some true⟩ : Attr).reachable .scalar := by
  refine ⟨rfl, rfl, rfl, rfl, ?_⟩; simp
def p0 : PolyDiagram :=
  { dom := [],
    layers := [ { left := [], right := [],
                  box := { dom := [], cod := [2], dagger := false,
                           data := [Poly.var 0 * Poly.var 1, 1] } } ] }
example : (PolyDiagram.subs 0 (Poly.const 2) p0).eval 0 0 = Poly.const 2 * Poly.var 1 := by decide
example : (PolyDiagram.subs 0 (Poly.var 1 + 1) p0).eval 0 0
    = Poly.subst1 0 (Poly.var 1 + 1) (p0.eval 0 0) := eval_natural_poly p0 0 (Poly.var 1 + 1) 0 0
example : Poly.subst1 0 (Poly.var 1 + 1) (p0.eval 0 0) = Poly.var 1 * Poly.var 1 + Poly.var 1 := by
  decide
example : (Poly.var 0 * Poly.var 1).WF := Poly.mul_wf _ _

/-- A coherent two-box integer diagram; doubling its data. -/
def r0 : RDiagram Int :=
  RDiagram.ofLayers [2]
    [ { left := [], right := [],
        box := { dom := [2], cod := [2], dagger := false, data := [7, 1, 0, 3] } },
      { left := [], right := [],
        box := { dom := [2], cod := [2], dagger := false, data := [1, 2, 3, 4] } } ]
example : r0.Coherent := ofLayers_coherent _ _ ⟨rfl, rfl, trivial⟩
example : (r0.subs (· * 2) >>= RDiagram.subs (· + 1)) = r0.subs ((· + 1) ∘ (· * 2)) :=
  subs_then_subs _ _ r0 (ofLayers_coherent _ _ ⟨rfl, rfl, trivial⟩)
example : ((r0.mapData (· * 2)).slice 1 2).eval 0 1 = 4 := by decide
/-- The record with substituted boxes and the OLD layers is not one value: the functor's walk
    (boxes) and the layers' walk (what a later `lambdify`, slice or `grad` sees) differ. -/
example : (r0.subsKeepingLayers (· * 2)).evalBoxes 0 0 = 4 * (r0.subsKeepingLayers (· * 2)).eval 0 0
    ∧ (r0.subsKeepingLayers (· * 2)).eval 0 0 ≠ 0 := by decide
example : (((r0.subsKeepingLayers (· * 2)).slice 1 2).boxes.map (·.data))
    ≠ (sliceL 1 2 (r0.subsKeepingLayers (· * 2)).boxes).map (·.data) := by decide
noncomputable example : CommRing NPoly := inferInstance

/-- Nested data: `[(x0·x1, 1), {'k': {x2}}]` and the flat list `[x0·x1, 1, x2]` hold the same entries. -/
def n0 : PData Poly :=
  .node .list (.cons (.node .tuple (.cons (.leaf (Poly.var 0 * Poly.var 1)) (.cons (.leaf 1) .nil)))
    (.cons (.node .dict (.cons (.node .set (.cons (.leaf (Poly.var 2)) .nil)) .nil)) .nil))
def n1 : PData Poly :=
  .node .list (.cons (.leaf (Poly.var 0 * Poly.var 1)) (.cons (.leaf 1) (.cons (.leaf (Poly.var 2)) .nil)))
example : n0.entries = n1.entries := by decide
example : n0.noZeroD = true ∧ n0.freeSymbols false Poly.vars = [0, 1, 2] := by decide
example (v : Nat) : v ∈ n0.freeSymbols false Poly.vars ↔ v ∈ n1.freeSymbols false Poly.vars :=
  free_symbols_container_irrelevant false Poly.vars n0 n1 (Or.inr rfl) (Or.inr rfl) (by decide) v
example : (n0.boxSubs false Poly.vars [2] (Poly.subst1 2 (Poly.const 3))).freeSymbols false Poly.vars = [0, 1] := by
  decide
example : (n0.rmap (fun _ => Poly.const 1)).freeSymbols false Poly.vars = [] :=
  subs_all_closed_nested false Poly.vars _ (fun _ => by decide) n0

end DV.C14
