/-
  Props/C13.lean — C13 "Translation to and from tket preserves the meaning of circuits".
  Property theorems only; proofs in Proofs/Tk*.lean; model in Model/Tk.lean (transcription of
  discopy/quantum/tk.py `to_tk` as it is) and Model/TkSpec.lean (the wire-id specification).

  PARTIAL.  What is proved, for every circuit (any width, any depth, any placement of
  preparations, measurements, post-selections, swaps, classical boxes):

    `to_tk_refines_partial` — if no layer violates one of the excluding conditions of
    `Tk.violation` and the export succeeds, then the exported commands are exactly the commands
    of the specification `canon` (each gate on the ids of its input wires, ids fresh at creation)
    under an injective naming of qubit ids by qubit units and of bit ids by bit units; the
    post-selection is the image of the specified one; and the post-processing, fed with the
    non-post-selected bit units in increasing order (how tk.Circuit.get_counts reads a bitstring),
    applies the specified classical boxes to the specified values and delivers the diagram's bit
    wires in the diagram's order.  This is the clause "a qubit index shifted by a mid-circuit
    preparation" for all circuits of the fragment.

    `to_tk_register_lists`, `to_tk_commands_on_units` — the invariants of the two Python lists.

    `to_tk_keeps_post_selections` — for EVERY circuit, inside or outside the fragment: a successful
    export has exactly one post-selected bit per post-selected qubit (`Bra` bit) of the circuit,
    under distinct keys that are bits of the exported circuit.  The renamings of
    `tk.Circuit.rename_units` (tk.py:71-83: the shift of `prepare_bits`, the transposition of a
    bit swap) never lose or merge an entry, because all old keys are deleted before the new ones
    are written; `chain_shift_keeps_both` is the instance 1 -> 2, 2 -> 3 (in the region of F23),
    `chain_shift_inside` one inside the fragment.

  What is NOT true of the code and therefore not claimed (`Tk.ToTkRefines`, `Tk.ToTkTotal` are the
  full statements, kept as `Prop`s; their negations are theorems below): outside the fragment the
  export is wrong.  Every remaining excluding condition has a concrete counter-witness here, and
  each is a known finding on /repo reproduced by harness/props/c13.py:
    bits_left_of_bit (F23), discard_bit (F24), stale_bits (F25: the export raises, or silently
    reads the wrong register), override_after_pp (F27: specification undefined, the wire to
    overwrite is not a register).
  The conditions measure_left_of_bit (F11), override_destructive (F26) and bit_swap_moves_ps (F28)
  are gone: the model transcribes the repaired code and those circuits are inside the fragment
  (examples at the end); their as-was counter-witnesses were dropped with the as-was model.
  The conditions are sufficient, not necessary: e.g. Bits(0) next to another never-written
  register is excluded although exchanging two blank registers is harmless.

  The import `from_tk` is modelled one-for-one (Model/TkFrom.lean: the position model of
  `make_units_adjacent`; Model/TkImport.lean: the whole function on circuit descriptions, with its
  error behaviour) and compared with the code on every run.  Proved about it, for every width and
  every command list:

    `from_tk_adjacent`, `from_tk_adjacent_restores` — the swaps built for a gate on two different
    units bring the two units, in order, to the returned offset, and the reversed swaps restore the
    wire order (`from_tk_adjacent_upto6` is the older decided table); `from_tk_typed_swaps` — the
    typed transcription builds exactly those swaps.
    `from_tk_well_typed` — whenever the import returns a circuit, it is a well-typed chain from the
    empty type to the codomain of the post-processing.
    `from_tk_gates_on_named_units` — following wire identities through the imported circuit gives
    the command list of the tket circuit: every gate acts on the ids of the units it names, a tket
    SWAP exchanges two ids, every measurement into a bit that is not post-selected writes the bit
    wire `n_qubits + (rank of the bit among the non-post-selected bits)`, measurements into
    post-selected bits become `Bra`s on the measured position; `from_tk_bits_in_order` — before the
    post-processing the bit wires leave in the order of the non-post-selected bits.
    These have the hypothesis `importable`: supported one- and two-qubit ops on existing, different
    qubits, parameters on the lattice of multiples of 1/8, measured bits of rank below `n_bits`;
    `from_tk_importable` — it holds for every `wellFormed` input (measurements of existing qubits
    into existing bits, post-selection keys distinct bits of the circuit).
    `from_tk_total` — on such an input whose post-processing has `n_bits` inputs the import returns
    a circuit; `from_tk_import_partial` puts the four together.
    `make_units_adjacent` is wrong for three units (`from_tk_adjacent_three_units`), which no
    supported op has.
    `from_tk_postselection_deferred` — a decided witness of finding F33: the `Bra` of a post-selected
    measurement comes after a gate that tket applies after the measurement.

  NOT proved: `Tk.FromToRoundTrip` (importing the export of a circuit of the fragment gives the same
  canonical wire-id command list) is stated in Model/TkImport.lean and kept as a `Prop`;
  `round_trip_example` is one instance, the check evaluates it on every generated export.
  Meaning (that the boxes compute what the tket ops compute, that a deferred post-selection is
  harmless when `psFinal` holds) is not in the model: it rests on the oracle of the check.
  Not modelled: pytket's own renaming, command order and op semantics, `Circuit.upgrade`, the
  backend path — these rest on the oracle of the check.
-/
import Proofs.TkWitness
import Proofs.TkImportRank
import Proofs.TkPsCount

namespace DV.C13
open DV DV.Tk

/-- Refinement to wire identities, inside the fragment. -/
theorem to_tk_refines_partial (c : Circ) (st : St) (hclean : c.clean = true) (h : toTk c = .ok st) :
    ∃ sp ρq ρb dreg, canon c = .ok sp ∧ Refines sp st ρq ρb dreg :=
  Tk.toTk_refines hclean h

/-- `qubits` is strictly increasing (duplicate-free), has the length of the current qubit wire
    count, its entries are units of the circuit; before any classical box `bits` likewise. -/
theorem to_tk_register_lists (c : Circ) (st : St) (hclean : c.clean = true) (h : toTk c = .ok st) :
    ∃ sp, canon c = .ok sp ∧ st.qubits.Pairwise (· < ·) ∧ st.qubits.length = sp.qw.length ∧
      (∀ r ∈ st.qubits, r < st.nq) ∧ (∀ r ∈ st.bits, r < st.nb) ∧
      (st.pp.layers = [] → st.bits.Pairwise (· < ·) ∧ st.bits.length = sp.bw.length) :=
  Tk.toTk_lists hclean h

/-- Every emitted command acts on existing units. -/
theorem to_tk_commands_on_units (c : Circ) (st : St) (hclean : c.clean = true) (h : toTk c = .ok st) :
    ∀ cmd ∈ st.cmds, (∀ q ∈ cmd.qs, q < st.nq) ∧ (∀ b ∈ cmd.bs, b < st.nb) :=
  Tk.toTk_cmds_live hclean h

/-- **No post-selection is lost**, for every circuit (no `clean` hypothesis): the exported
    `post_selection` has one entry per `Bra` bit of the circuit, its keys are distinct and they are
    bits of the exported circuit. -/
theorem to_tk_keeps_post_selections (c : Circ) (st : St) (h : toTk c = .ok st) :
    st.ps.length = braBits c.layers ∧ (st.ps.map (·.1)).Nodup ∧ ∀ e ∈ st.ps, e.1 < st.nb :=
  Tk.toTk_ps_count h

/-- `Bits(0) @ Ket(1, 0) >> Id(bit) @ Bra(1, 0) >> Bits(0) @ Id(bit)` (region of F23): the two
    post-selected bits 1, 2 are shifted to 2, 3 — the new index of the first is the old index of
    the second — and both survive with their values. -/
theorem chain_shift_keeps_both :
    (⟨[], [(.bits [0] false, 0), (.ket [1, 0], 1), (.bra [1, 0], 1), (.bits [0] false, 0)]⟩ : Circ).firstViolation
        = some ("bits_left_of_bit", 4) ∧
      (toTk ⟨[], [(.bits [0] false, 0), (.ket [1, 0], 1), (.bra [1, 0], 1), (.bits [0] false, 0)]⟩).map (·.ps)
        = .ok [(2, 1), (3, 0)] := by decide

/-- `Ket(1, 0) @ Bits(0) >> Bra(1, 0) @ Id(bit) >> Id(bit) @ Bits(0)`: the same shift inside the fragment. -/
theorem chain_shift_inside :
    (⟨[], [(.ket [1, 0], 0), (.bits [0] false, 2), (.bra [1, 0], 0), (.bits [0] false, 1)]⟩ : Circ).clean = true ∧
      (toTk ⟨[], [(.ket [1, 0], 0), (.bits [0] false, 2), (.bra [1, 0], 0), (.bits [0] false, 1)]⟩).map (·.ps)
        = .ok [(2, 1), (3, 0)] := by decide

/-- The hypotheses of `to_tk_keeps_post_selections` are met by a circuit with three post-selected
    qubits made at different times, a measured bit in between and a shift by two. -/
example : ∃ st, toTk ⟨[], [(.ket [1, 1, 0, 1], 0), (.measure 1 true false, 0), (.bra [1], 1),
      (.measure 1 true false, 1), (.bra [1], 2), (.bits [0, 0] false, 0)]⟩ = .ok st ∧ st.ps.length = 2 ∧ st.nb = 6 := by
  refine ⟨_, rfl, ?_, ?_⟩ <;> decide

/-- The full statement is false for the code as it is … -/
theorem to_tk_refines_fails : ¬ Tk.ToTkRefines := Tk.not_toTkRefines

/-- … and so is totality: the export raises on a circuit whose specification is defined. -/
theorem to_tk_total_fails : ¬ Tk.ToTkTotal := Tk.not_toTkTotal

/-- `Ket(1) >> Measure() >> Bits(0) @ Id(bit)`. -/
theorem bits_left_of_bit_not_refined :
    wBits.firstViolation = some ("bits_left_of_bit", 3) ∧ NotRefined wBits :=
  ⟨Tk.wBits_violation, Tk.wBits_not_refined⟩

/-- `Ket(1, 0) >> Measure(2) >> Discard(bit) @ Id(bit)`. -/
theorem discard_bit_not_refined :
    wDiscard.firstViolation = some ("discard_bit", 3) ∧ NotRefined wDiscard :=
  ⟨Tk.wDiscard_violation, Tk.wDiscard_not_refined⟩

/-- `Bits(0) >> FAN >> Id(bit @ bit) @ Bits(0)`: the export raises (IndexError). -/
theorem stale_bits_export_raises :
    toTk wStale = .error .index ∧ ∃ sp, canon wStale = .ok sp :=
  ⟨Tk.wStale_toTk, Tk.wStale_canon⟩

/-- `Ket(1, 0) >> Measure(2) >> XOR >> Id(bit) @ Bits(0)`: the classical gate reads the wrong register. -/
theorem stale_bits_not_refined :
    wStaleOrder.firstViolation = some ("stale_bits", 4) ∧ NotRefined wStaleOrder :=
  ⟨Tk.wStaleOrder_violation, Tk.wStaleOrder_not_refined⟩

/-- Override after classical post-processing: exported, but the specification has no register
    for the wire that is overwritten. -/
theorem override_after_pp_unspecified :
    wOverridePP.firstViolation = some ("override_after_pp", 7) ∧ (∃ st, toTk wOverridePP = .ok st) ∧
      canon wOverridePP = .error .notImpl :=
  ⟨Tk.wOverridePP_violation, Tk.wOverridePP_exported, Tk.wOverridePP_canon⟩

/-! ### from_tk (Model/TkFrom.lean, Model/TkImport.lean) -/

/-- **make_units_adjacent, every width**: for a gate on two different units `a`, `b` of an
    `n`-wire circuit the swaps bring wire `a` to the returned offset and wire `b` right after it. -/
theorem from_tk_adjacent (n a b : Nat) (ha : a < n) (hb : b < n) (hab : a ≠ b) :
    ((arrangement n (makeUnitsAdjacent [a, b]).2).drop (makeUnitsAdjacent [a, b]).1).take 2 = [a, b] :=
  Tk.makeUnitsAdjacent_adjacent n a b ha hb hab

/-- … every swap lies inside the circuit, and the reversed swaps (`swaps[::-1]`, tk.py:335)
    restore the wire order. -/
theorem from_tk_adjacent_restores (n a b : Nat) (ha : a < n) (hb : b < n) :
    (∀ o ∈ (makeUnitsAdjacent [a, b]).2, o + 1 < n) ∧
      arrangement n ((makeUnitsAdjacent [a, b]).2 ++ (makeUnitsAdjacent [a, b]).2.reverse) = List.range n :=
  ⟨Tk.makeUnitsAdjacent_inRange n a b ha hb, Tk.makeUnitsAdjacent_restores n a b ha hb⟩

/-- The typed transcription of `make_units_adjacent` succeeds and builds the swaps of the position model. -/
theorem from_tk_typed_swaps (units : List W) (a b : Nat) (ha : a < units.length) (hb : b < units.length)
    (hab : a ≠ b) :
    ∃ sw, makeUnitsAdjacentT units [a, b] = .ok ((makeUnitsAdjacent [a, b]).1, sw) ∧ sw.dom = units ∧
      sw.layers.map (·.2) = (makeUnitsAdjacent [a, b]).2 :=
  Tk.muaT_pair units a b ha hb hab

/-- For three units the loop is wrong (it compares tket indices with positions that earlier
    swaps have changed): `[2, 0, 1]` ends as `1, 0, 2`.  No supported op has three qubits —
    `box_from_tk` raises before the swaps are built (`Controlled(CX)`: ValueError). -/
theorem from_tk_adjacent_three_units :
    ((arrangement 3 (makeUnitsAdjacent [2, 0, 1]).2).drop (makeUnitsAdjacent [2, 0, 1]).1).take 3 = [1, 0, 2] ∧
      fromTk ⟨3, 0, [⟨"CCX", none, [2, 0, 1], []⟩], [], false, {}⟩ = .error .value := by decide

/-- **The imported circuit is well-typed**: every box finds its domain at its offset, the scan
    ends in the recorded codomain, the domain is empty and the codomain that of the post-processing. -/
theorem from_tk_well_typed (inp : TkIn) (d : D) (hpp : inp.pp.WT) (h : fromTk inp = .ok d) :
    wellTyped d.dom d.layers = true ∧ scanCod d.dom d.layers = d.cod ∧ d.dom = [] ∧
      d.cod = List.replicate inp.pp.cod .b :=
  ⟨(Tk.fromTk_WT hpp h).1.1, (Tk.fromTk_WT hpp h).1.2, (Tk.fromTk_WT hpp h).2.1, (Tk.fromTk_WT hpp h).2.2⟩

/-- **Every gate is placed on the units tket names**: the commands read off the imported circuit
    by following wire identities are those of the tket circuit (`ImpSpec.run`), and its `Bra`s are
    the measurements into post-selected bits. -/
theorem from_tk_gates_on_named_units (inp : TkIn) (d : D) (himp : inp.importable = true)
    (h : fromTk inp = .ok d) :
    (Tr.run d.layers).cmds = (ImpSpec.run inp).cmds ∧ (Tr.run d.layers).bras = (ImpSpec.run inp).braList inp :=
  Tk.fromTk_trace himp h

/-- **Measured bits land at the positions of the non-post-selected bits**: before the scalar and
    the post-processing are attached the wires that leave are the bit wires `n_qubits + j` in the
    order of `j` — and by `from_tk_gates_on_named_units` a `Measure` into the bit of rank `j` among
    the non-post-selected ones writes exactly that wire. -/
theorem from_tk_bits_in_order (inp : TkIn) (body : D) (himp : inp.importable = true)
    (h : fromTkBody inp = .ok body) :
    (Tr.run body.layers).arr = List.range' inp.nq inp.nbits ∧
      (Tr.run body.layers).cmds = (ImpSpec.run inp).cmds := by
  rw [Tk.fromTkBody_trace himp h]; exact ⟨rfl, rfl⟩

/-- A well-formed tket circuit is importable: the rank of a measured bit among the
    non-post-selected bits is below `n_bits` (tk.py:274, 323-324). -/
theorem from_tk_importable (inp : TkIn) (h : inp.wellFormed = true) : inp.importable = true :=
  Tk.importable_of_wellFormed h

/-- **The import is defined** on every importable tket circuit whose post-processing has as many
    inputs as there are non-post-selected bits (as `Circuit.upgrade` and `to_tk` make it). -/
theorem from_tk_total (inp : TkIn) (himp : inp.importable = true) (hpp : inp.pp.dom = inp.nbits) :
    ∃ d, fromTk inp = .ok d :=
  Tk.fromTk_total himp hpp

/-- The import of a well-formed tket circuit, all in one: it is defined, well-typed, every gate
    sits on the units tket names, and its `Bra`s are the post-selected measurements. -/
theorem from_tk_import_partial (inp : TkIn) (hwf : inp.wellFormed = true) (hpp : inp.pp.WT)
    (hdom : inp.pp.dom = inp.nbits) :
    ∃ d, fromTk inp = .ok d ∧ wellTyped [] d.layers = true ∧ scanCod [] d.layers = List.replicate inp.pp.cod .b ∧
      (Tr.run d.layers).cmds = (ImpSpec.run inp).cmds ∧ (Tr.run d.layers).bras = (ImpSpec.run inp).braList inp := by
  have himp := Tk.importable_of_wellFormed hwf
  obtain ⟨d, hd⟩ := Tk.fromTk_total himp hdom
  obtain ⟨⟨w1, w2⟩, hdm, hcd⟩ := Tk.fromTk_WT hpp hd
  obtain ⟨t1, t2⟩ := Tk.fromTk_trace himp hd
  rw [hdm] at w1 w2
  exact ⟨d, hd, w1, by rw [w2, hcd], t1, t2⟩

/-- `tk.Circuit(1, 1).H(0).Measure(0, 0).H(0).post_select({0: 0})`. -/
def inF33 : TkIn := ⟨1, 1, [⟨"H", none, [0], []⟩, ⟨"Measure", none, [0], [0]⟩, ⟨"H", none, [0], []⟩], [(0, 0)], false, {}⟩

/-- Finding F33: the post-selection of a measurement is moved behind the gates that follow it
    (`Ket(0) >> H >> H >> Bra(0)`); `psFinal` is the condition under which that is harmless. -/
theorem from_tk_postselection_deferred :
    inF33.importable = true ∧ inF33.psFinal = false ∧
      (fromTk inF33).toOption.map (·.layers) =
        some [(.ket [0], 0), (.gate "H" 1, 0), (.gate "H" 1, 0), (.bra [0], 0)] := by decide

/-- `tk.Circuit(3, 3).H(0).CX(2, 0).Measure(0, 2).SWAP(0, 2).Measure(1, 1).Rx(1/4, 2).CZ(0, 2).Measure(2, 0)
    .post_select({1: 1})`: distant units in both directions, a SWAP, a post-selected bit between two measured ones. -/
def inEx : TkIn := ⟨3, 3, [⟨"H", none, [0], []⟩, ⟨"CX", none, [2, 0], []⟩, ⟨"Measure", none, [0], [2]⟩,
  ⟨"SWAP", none, [0, 2], []⟩, ⟨"Measure", none, [1], [1]⟩, ⟨"Rx", some 4, [2], []⟩, ⟨"CZ", none, [0, 2], []⟩,
  ⟨"Measure", none, [2], [0]⟩], [(1, 1)], false, ⟨2, 2, []⟩⟩

example : inEx.wellFormed = true ∧ inEx.importable = true ∧ inEx.psFinal = true ∧ isOk (fromTk inEx) = true ∧
    inEx.pp.dom = inEx.nbits := by decide

example : inEx.pp.WT := by simp [PP.WT, D.WT, PP.toD, inEx, wellTyped, scanCod]

/-- The hypotheses of the import theorems are met by it: the SWAP exchanged the ids 0 and 2, the
    measurement into bit 2 (rank 1) writes wire 3 + 1, the one into bit 0 writes wire 3 + 0. -/
example : (ImpSpec.run inEx).cmds = [⟨"H", none, [0], []⟩, ⟨"CX", none, [2, 0], []⟩, ⟨"Measure", none, [0], [4]⟩,
    ⟨"Rx", some 4, [0], []⟩, ⟨"CZ", none, [2, 0], []⟩, ⟨"Measure", none, [0], [3]⟩] ∧
    (ImpSpec.run inEx).braList inEx = [(1, 1)] := by decide

example : ∃ d, fromTk inEx = .ok d ∧ (Tr.run d.layers).cmds = (ImpSpec.run inEx).cmds := by
  have hok : isOk (fromTk inEx) = true := by decide
  cases h : fromTk inEx with
  | error e => rw [h] at hok; cases hok
  | ok d => exact ⟨d, rfl, (from_tk_gates_on_named_units inEx d (by decide) h).1⟩

/-- On up to 6 wires the swaps bring the units of every two-unit gate to consecutive positions at
    the returned offset (30 ordered pairs; e.g. `CX(0, 3)` on 4 wires: arrangement 0, 3, 1, 2).
    Superseded by `from_tk_adjacent`; kept as a table. -/
theorem from_tk_adjacent_upto6 :
    pairsWhere 6 false = [] ∧ (pairsWhere 6 true).length = 30 ∧
      arrangement 4 (makeUnitsAdjacent [0, 3]).2 = [0, 3, 1, 2] := by decide

/-! ### the hypotheses are met by non-trivial circuits -/

/-- `Ket(1, 0) >> CX >> Id(1) @ Ket(1) @ Id(1) >> SWAP @ Id(1) >> Id(1) @ Rx(3/16) @ Id(1)
      >> Id(1) @ Measure(2) >> Bra(0) @ Id(bit @ bit) >> Swap(bit, bit) >> XOR`: a preparation in the middle of the
    register list, a logical swap, a post-selection, measurements, a bit swap, a classical gate. -/
def ex1 : Circ := ⟨[], [(.ket [1, 0], 0), (.gate "CX" 2, 0), (.ket [1], 1), (.swap .q .q, 0),
  (.rot "Rx" 3, 1), (.measure 2 true false, 1), (.bra [0], 0), (.swap .b .b, 0), (.cgate "XOR" 2 1, 0)]⟩

example : ex1.clean = true := by decide

example : toTk ex1 = .ok ⟨3, 3, [], [0, 1],
    [⟨"X", none, [1], []⟩, ⟨"CX", none, [1, 2], []⟩, ⟨"X", none, [0], []⟩, ⟨"Rx", some 6, [1], []⟩,
     ⟨"Measure", none, [1], [1]⟩, ⟨"Measure", none, [2], [0]⟩, ⟨"Measure", none, [0], [2]⟩],
    [(2, 0)], [], ⟨2, 1, [(.gate "XOR" 2 1, 0)]⟩⟩ := by decide

/-- The mid-circuit preparation shifted the second qubit of the Ket to unit 2 in the earlier CX. -/
example : ∃ sp ρq ρb dreg, canon ex1 = .ok sp ∧ Refines sp ⟨3, 3, [], [0, 1],
    [⟨"X", none, [1], []⟩, ⟨"CX", none, [1, 2], []⟩, ⟨"X", none, [0], []⟩, ⟨"Rx", some 6, [1], []⟩,
     ⟨"Measure", none, [1], [1]⟩, ⟨"Measure", none, [2], [0]⟩, ⟨"Measure", none, [0], [2]⟩],
    [(2, 0)], [], ⟨2, 1, [(.gate "XOR" 2 1, 0)]⟩⟩ ρq ρb dreg :=
  to_tk_refines_partial ex1 _ (by decide) (by decide)

/-- A circuit with inputs and outputs: `init_and_discard` adds the preparations and discards. -/
def ex2 : Circ := ⟨[.q, .b], [(.gate "H" 1, 0), (.measure 1 false true, 0)]⟩

example : ex2.clean = true ∧ isOk (toTk ex2) = true := by decide

/-- The circuits that were counter-witnesses before the fix commits are inside the fragment now:
    F11 `Ket(1, 0) >> Id(1) @ Measure() >> Measure() @ Id(bit)` (the post-processing swaps),
    F26 `Ket(1, 0) >> Id(1) @ Bits(0) @ Id(1) >> Measure(1, override_bits=True) @ Id(1) >> Id(bit) @ X
         >> Id(bit) @ Measure()` (X and Measure on unit 1),
    F28 `Ket(0, 1, 0) >> Bra(0) @ Id(2) >> Measure() @ Id(1) >> Id(bit) @ Measure() >> Swap(bit, bit)`
        (post-selection stays on bit 0). -/
def exF11 : Circ := ⟨[], [(.ket [1, 0], 0), (.measure 1 true false, 1), (.measure 1 true false, 0)]⟩
def exF26 : Circ := ⟨[], [(.ket [1, 0], 0), (.bits [0] false, 1), (.measure 1 true true, 0),
  (.gate "X" 1, 1), (.measure 1 true false, 1)]⟩
def exF28 : Circ := ⟨[], [(.ket [0, 1, 0], 0), (.bra [0], 0), (.measure 1 true false, 0),
  (.measure 1 true false, 1), (.swap .b .b, 0)]⟩

example : exF11.clean = true ∧ (toTk exF11).toOption.map (·.pp) = some ⟨2, 2, [(.swap, 0)]⟩ := by decide
example : exF26.clean = true ∧ (toTk exF26).toOption.map (·.cmds) =
    some [⟨"X", none, [0], []⟩, ⟨"Measure", none, [0], [0]⟩, ⟨"X", none, [1], []⟩,
          ⟨"Measure", none, [1], [1]⟩] := by decide
example : exF28.clean = true ∧ (toTk exF28).toOption.map (·.ps) = some [(0, 0)] := by decide

/-- One instance of the round-trip statement `Tk.FromToRoundTrip` (which is NOT proved): `ex1`. -/
theorem round_trip_example : RoundTripOn ex1 false := by
  intro st d hst hd
  have e1 : toTk ex1 = .ok ⟨3, 3, [], [0, 1],
      [⟨"X", none, [1], []⟩, ⟨"CX", none, [1, 2], []⟩, ⟨"X", none, [0], []⟩, ⟨"Rx", some 6, [1], []⟩,
       ⟨"Measure", none, [1], [1]⟩, ⟨"Measure", none, [2], [0]⟩, ⟨"Measure", none, [0], [2]⟩],
      [(2, 0)], [], ⟨2, 1, [(.gate "XOR" 2 1, 0)]⟩⟩ := by decide
  rw [e1] at hst
  cases hst
  have e2 : fromTk (St.toIn ⟨3, 3, [], [0, 1],
      [⟨"X", none, [1], []⟩, ⟨"CX", none, [1, 2], []⟩, ⟨"X", none, [0], []⟩, ⟨"Rx", some 6, [1], []⟩,
       ⟨"Measure", none, [1], [1]⟩, ⟨"Measure", none, [2], [0]⟩, ⟨"Measure", none, [0], [2]⟩],
      [(2, 0)], [], ⟨2, 1, [(.gate "XOR" 2 1, 0)]⟩⟩ false) = .ok ⟨[], [.b],
      [(.ket [0], 0), (.ket [0], 1), (.ket [0], 2), (.bits [0] false, 3), (.bits [0] false, 4),
       (.gate "X" 1, 1), (.gate "CX" 2, 1), (.gate "X" 1, 0), (.rot "Rx" 3, 1), (.swap .b .b, 3),
       (.swap .q .b, 2), (.measure 1 false true, 1), (.swap .b .q, 2), (.swap .b .b, 3),
       (.measure 1 false true, 2), (.bra [0], 0), (.discard [.q], 0), (.discard [.q], 0),
       (.cgate "XOR" 2 1, 0)]⟩ := by decide
  rw [e2] at hd
  cases hd
  refine ⟨⟨3, 3, [], [.out 0 0],
      [⟨"X", none, [0], []⟩, ⟨"CX", none, [0, 1], []⟩, ⟨"X", none, [2], []⟩, ⟨"Rx", some 6, [0], []⟩,
       ⟨"Measure", none, [0], [0]⟩, ⟨"Measure", none, [1], [1]⟩, ⟨"Measure", none, [2], [2]⟩],
      [(2, 0)], [], [("XOR", [.reg 1, .reg 0])]⟩,
    ⟨3, 3, [], [.out 0 0],
      [⟨"X", none, [1], []⟩, ⟨"CX", none, [1, 2], []⟩, ⟨"X", none, [0], []⟩, ⟨"Rx", some 6, [1], []⟩,
       ⟨"Measure", none, [1], [1]⟩, ⟨"Measure", none, [2], [0]⟩, ⟨"Measure", none, [0], [2]⟩],
      [(2, 0)], [], [("XOR", [.reg 0, .reg 1])]⟩,
    fun i => if i = 0 then 1 else if i = 1 then 2 else 0,
    fun i => if i = 0 then 1 else if i = 1 then 0 else 2, by decide, by decide, ?_⟩
  exact ⟨⟨fun a ha => by grind, fun a b ha hb h => by grind⟩, ⟨fun a ha => by grind, fun a b ha hb h => by grind⟩,
    by decide, by decide, by decide, by decide, by decide⟩

end DV.C13
