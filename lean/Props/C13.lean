/-
  Props/C13.lean — C13 "Translation to and from tket preserves the meaning of circuits".
  Property theorems only; proofs in Proofs/Tk*.lean; model in Model/Tk.lean (transcription of
  discopy/quantum/tk.py `to_tk` as it is) and Model/TkSpec.lean (the wire-id specification).

  PARTIAL.  What is proved, for every circuit (any width, any depth, any placement of
  preparations, measurements, post-selections, swaps, classical boxes):

    `to_tk_refines_partial` — if no layer violates one of the excluding conditions of
    `Tk.violation` and the export succeeds, then the exported commands are exactly the commands
    of the specification `canon` (each gate on the ids of its input wires, ids fresh at creation)
    under an injective naming of qubit ids by qubit units and of bit ids by bit units; the
    post-selection is the image of the specified one; and the post-processing, fed with the
    non-post-selected bit units in increasing order (how tk.Circuit.get_counts reads a bitstring),
    applies the specified classical boxes to the specified values and delivers the diagram's bit
    wires in the diagram's order.  This is the clause "a qubit index shifted by a mid-circuit
    preparation" for all circuits of the fragment.

    `to_tk_register_lists`, `to_tk_commands_on_units` — the invariants of the two Python lists.

  What is NOT true of the code and therefore not claimed (`Tk.ToTkRefines`, `Tk.ToTkTotal` are the
  full statements, kept as `Prop`s; their negations are theorems below): outside the fragment the
  export is wrong.  Every remaining excluding condition has a concrete counter-witness here, and
  each is a known finding on /repo reproduced by harness/props/c13.py:
    bits_left_of_bit (F23), discard_bit (F24), stale_bits (F25: the export raises, or silently
    reads the wrong register), override_after_pp (F27: specification undefined, the wire to
    overwrite is not a register).
  The conditions measure_left_of_bit (F11), override_destructive (F26) and bit_swap_moves_ps (F28)
  are gone: the model transcribes the repaired code and those circuits are inside the fragment
  (examples at the end); their as-was counter-witnesses were dropped with the as-was model.
  The conditions are sufficient, not necessary: e.g. Bits(0) next to another never-written
  register is excluded although exchanging two blank registers is harmless.

  `from_tk.make_units_adjacent` is modelled (Model/TkFrom.lean) and compared with the code on every
  run (after fix F30), but only a bounded statement is proved about it (`from_tk_adjacent_upto6`, a
  decided table).
  Not modelled: pytket's own renaming and op semantics, the rest of `from_tk`, the backend path —
  these rest on the oracle of the check.
-/
import Proofs.TkWitness
import Model.TkFrom

namespace DV.C13
open DV DV.Tk

/-- Refinement to wire identities, inside the fragment. -/
theorem to_tk_refines_partial (c : Circ) (st : St) (hclean : c.clean = true) (h : toTk c = .ok st) :
    ∃ sp ρq ρb dreg, canon c = .ok sp ∧ Refines sp st ρq ρb dreg :=
  Tk.toTk_refines hclean h

/-- `qubits` is strictly increasing (duplicate-free), has the length of the current qubit wire
    count, its entries are units of the circuit; before any classical box `bits` likewise. -/
theorem to_tk_register_lists (c : Circ) (st : St) (hclean : c.clean = true) (h : toTk c = .ok st) :
    ∃ sp, canon c = .ok sp ∧ st.qubits.Pairwise (· < ·) ∧ st.qubits.length = sp.qw.length ∧
      (∀ r ∈ st.qubits, r < st.nq) ∧ (∀ r ∈ st.bits, r < st.nb) ∧
      (st.pp.layers = [] → st.bits.Pairwise (· < ·) ∧ st.bits.length = sp.bw.length) :=
  Tk.toTk_lists hclean h

/-- Every emitted command acts on existing units. -/
theorem to_tk_commands_on_units (c : Circ) (st : St) (hclean : c.clean = true) (h : toTk c = .ok st) :
    ∀ cmd ∈ st.cmds, (∀ q ∈ cmd.qs, q < st.nq) ∧ (∀ b ∈ cmd.bs, b < st.nb) :=
  Tk.toTk_cmds_live hclean h

/-- The full statement is false for the code as it is … -/
theorem to_tk_refines_fails : ¬ Tk.ToTkRefines := Tk.not_toTkRefines

/-- … and so is totality: the export raises on a circuit whose specification is defined. -/
theorem to_tk_total_fails : ¬ Tk.ToTkTotal := Tk.not_toTkTotal

/-- `Ket(1) >> Measure() >> Bits(0) @ Id(bit)`. -/
theorem bits_left_of_bit_not_refined :
    wBits.firstViolation = some ("bits_left_of_bit", 3) ∧ NotRefined wBits :=
  ⟨Tk.wBits_violation, Tk.wBits_not_refined⟩

/-- `Ket(1, 0) >> Measure(2) >> Discard(bit) @ Id(bit)`. -/
theorem discard_bit_not_refined :
    wDiscard.firstViolation = some ("discard_bit", 3) ∧ NotRefined wDiscard :=
  ⟨Tk.wDiscard_violation, Tk.wDiscard_not_refined⟩

/-- `Bits(0) >> FAN >> Id(bit @ bit) @ Bits(0)`: the export raises (IndexError). -/
theorem stale_bits_export_raises :
    toTk wStale = .error .index ∧ ∃ sp, canon wStale = .ok sp :=
  ⟨Tk.wStale_toTk, Tk.wStale_canon⟩

/-- `Ket(1, 0) >> Measure(2) >> XOR >> Id(bit) @ Bits(0)`: the classical gate reads the wrong register. -/
theorem stale_bits_not_refined :
    wStaleOrder.firstViolation = some ("stale_bits", 4) ∧ NotRefined wStaleOrder :=
  ⟨Tk.wStaleOrder_violation, Tk.wStaleOrder_not_refined⟩

/-- Override after classical post-processing: exported, but the specification has no register
    for the wire that is overwritten. -/
theorem override_after_pp_unspecified :
    wOverridePP.firstViolation = some ("override_after_pp", 7) ∧ (∃ st, toTk wOverridePP = .ok st) ∧
      canon wOverridePP = .error .notImpl :=
  ⟨Tk.wOverridePP_violation, Tk.wOverridePP_exported, Tk.wOverridePP_canon⟩

/-! ### from_tk.make_units_adjacent (Model/TkFrom.lean): a bounded statement only -/

/-- On up to 6 wires the swaps bring the units of every two-unit gate to consecutive positions at
    the returned offset (30 ordered pairs; e.g. `CX(0, 3)` on 4 wires: arrangement 0, 3, 1, 2).
    The general statement for every width is not proved. -/
theorem from_tk_adjacent_upto6 :
    pairsWhere 6 false = [] ∧ (pairsWhere 6 true).length = 30 ∧
      arrangement 4 (makeUnitsAdjacent [0, 3]).2 = [0, 3, 1, 2] := by decide

/-! ### the hypotheses are met by non-trivial circuits -/

/-- `Ket(1, 0) >> CX >> Id(1) @ Ket(1) @ Id(1) >> SWAP @ Id(1) >> Id(1) @ Rx(3/16) @ Id(1)
      >> Id(1) @ Measure(2) >> Bra(0) @ Id(bit @ bit) >> Swap(bit, bit) >> XOR`: a preparation in the middle of the
    register list, a logical swap, a post-selection, measurements, a bit swap, a classical gate. -/
def ex1 : Circ := ⟨[], [(.ket [1, 0], 0), (.gate "CX" 2, 0), (.ket [1], 1), (.swap .q .q, 0),
  (.rot "Rx" 3, 1), (.measure 2 true false, 1), (.bra [0], 0), (.swap .b .b, 0), (.cgate "XOR" 2 1, 0)]⟩

example : ex1.clean = true := by decide

example : toTk ex1 = .ok ⟨3, 3, [], [0, 1],
    [⟨"X", none, [1], []⟩, ⟨"CX", none, [1, 2], []⟩, ⟨"X", none, [0], []⟩, ⟨"Rx", some 6, [1], []⟩,
     ⟨"Measure", none, [1], [1]⟩, ⟨"Measure", none, [2], [0]⟩, ⟨"Measure", none, [0], [2]⟩],
    [(2, 0)], [], ⟨2, 1, [(.gate "XOR" 2 1, 0)]⟩⟩ := by decide

/-- The mid-circuit preparation shifted the second qubit of the Ket to unit 2 in the earlier CX. -/
example : ∃ sp ρq ρb dreg, canon ex1 = .ok sp ∧ Refines sp ⟨3, 3, [], [0, 1],
    [⟨"X", none, [1], []⟩, ⟨"CX", none, [1, 2], []⟩, ⟨"X", none, [0], []⟩, ⟨"Rx", some 6, [1], []⟩,
     ⟨"Measure", none, [1], [1]⟩, ⟨"Measure", none, [2], [0]⟩, ⟨"Measure", none, [0], [2]⟩],
    [(2, 0)], [], ⟨2, 1, [(.gate "XOR" 2 1, 0)]⟩⟩ ρq ρb dreg :=
  to_tk_refines_partial ex1 _ (by decide) (by decide)

/-- A circuit with inputs and outputs: `init_and_discard` adds the preparations and discards. -/
def ex2 : Circ := ⟨[.q, .b], [(.gate "H" 1, 0), (.measure 1 false true, 0)]⟩

example : ex2.clean = true ∧ isOk (toTk ex2) = true := by decide

/-- The circuits that were counter-witnesses before the fix commits are inside the fragment now:
    F11 `Ket(1, 0) >> Id(1) @ Measure() >> Measure() @ Id(bit)` (the post-processing swaps),
    F26 `Ket(1, 0) >> Id(1) @ Bits(0) @ Id(1) >> Measure(1, override_bits=True) @ Id(1) >> Id(bit) @ X
         >> Id(bit) @ Measure()` (X and Measure on unit 1),
    F28 `Ket(0, 1, 0) >> Bra(0) @ Id(2) >> Measure() @ Id(1) >> Id(bit) @ Measure() >> Swap(bit, bit)`
        (post-selection stays on bit 0). -/
def exF11 : Circ := ⟨[], [(.ket [1, 0], 0), (.measure 1 true false, 1), (.measure 1 true false, 0)]⟩
def exF26 : Circ := ⟨[], [(.ket [1, 0], 0), (.bits [0] false, 1), (.measure 1 true true, 0),
  (.gate "X" 1, 1), (.measure 1 true false, 1)]⟩
def exF28 : Circ := ⟨[], [(.ket [0, 1, 0], 0), (.bra [0], 0), (.measure 1 true false, 0),
  (.measure 1 true false, 1), (.swap .b .b, 0)]⟩

example : exF11.clean = true ∧ (toTk exF11).toOption.map (·.pp) = some ⟨2, 2, [(.swap, 0)]⟩ := by decide
example : exF26.clean = true ∧ (toTk exF26).toOption.map (·.cmds) =
    some [⟨"X", none, [0], []⟩, ⟨"Measure", none, [0], [0]⟩, ⟨"X", none, [1], []⟩,
          ⟨"Measure", none, [1], [1]⟩] := by decide
example : exF28.clean = true ∧ (toTk exF28).toOption.map (·.ps) = some [(0, 0)] := by decide

end DV.C13
