/-
  Props/C18.lean — C18 "Grammar front-ends only produce well-typed, grammatical derivations".
  Property theorems only; proofs are appeals to Proofs/Grammar.lean.

  What is proved (about Model/Grammar.lean, which transcribes pregroup.eager_parse /
  brute_force, cfg.CFG.generate, biclosed.Functor.__call__ + rigid.fa … curry, ccg.cat2ty /
  tree2diagram):

  * eager_parse / brute_force: every returned diagram is well-typed, has the words' (empty)
    domain, the requested target as codomain, the given words in order followed only by cups
    `Cup(x, x.r)` sitting on adjacent wires; the only exception is NotImplementedError (so the
    loop terminates: its bound, derived from the input, is never reached).
  * CFG.generate, for EVERY oracle stream standing for `random.shuffle`: every yielded sentence
    is a closed, well-typed derivation of the start symbol, every box is one of the given
    productions applied at the leftmost open symbol, fewer than `max_depth` boxes; nothing is
    raised.
  * biclosed2rigid: for FA/BA/FC/BC/FX/BX over arbitrarily nested slash types (any number of
    objects on either side, empty sides included), for Curry with every integer `n_wires` and
    both sides, and for whole biclosed diagrams: the image is returned (no AxiomError), is
    well-typed, and its dom/cod are the images of the original's dom/cod — for the REPAIRED
    text of the code (`Variant.repaired`, findings F10 and F14).
  * every rule box has the type its rule says, for independent X, Y, Z in CCG notation
    (`X/Y = X << Y`, `X\Y = Y >> X`): FA X/Y Y ⇒ X, BA Y X\Y ⇒ X, FC X/Y Y/Z ⇒ X/Z,
    BC Y\Z X\Y ⇒ X\Z, FX X/Y Y\Z ⇒ X\Z, BX Y/Z X\Y ⇒ X/Z (`rules_as_stated`); the images of the
    crossed compositions written out for X ≠ Z, both variants
    (`crossed_composition_type_preserving`).
  * For the code AS IT IS (`Variant.asIs`) the same statement is FALSE; the negation is proved
    on concrete witnesses (`ba_asIs_raises`, `ba_asIs_wrong_type`, `curry_asIs_raises`) and the
    positive theorem is kept with the excluding hypotheses (`…_partial`): BA's left side is one
    object, right-curried wires have a non-empty image.
  * words and generic boxes (`Word(name, cod, dom=…, _dagger=…)` of cfg/ccg, `biclosed.Box`) with
    an ARBITRARY domain — empty (the default), atomic, nested, several objects — and either
    dagger flag: the image is exactly one box of the same name from the image of the domain to
    the image of the codomain (`word_type_preserving`, `box_image`), for both variants.
  * whole diagrams keep their words and boxes: besides cups, caps and swaps the image contains
    exactly one box per word / generic box of the source (those inside curried diagrams
    included), in the source's order, each over the images of its domain and codomain
    (`biclosed2rigid_preserves_boxes`).
  * tree2diagram(tree, dom=…): every CCG derivation it accepts is a well-typed biclosed diagram
    whose domain is the optional `dom` for a leaf tree and empty otherwise, and whose
    translation is type-preserving — for BOTH variants (CCG categories are single objects, so
    the shapes of F10/F14 never arise).

  * cat2ty: returns single-object categories only, and reads the fully parenthesised print of
    every category back to the type it denotes (`cat2ty_round_trip`).

  Nothing of the property's statement is left unproved for the model.  What the theorems do
  not reach: the Python text itself (tied by the correspondence run), `random.shuffle`
  (an arbitrary oracle in the model), daggered RULE boxes (daggered words and generic boxes are modelled: `Rule.dgen`), names that are not identifiers.
-/
import Proofs.Grammar
import Proofs.GrammarBoxes

namespace DV.C18
open DV

/-! ### pregroup.eager_parse / brute_force -/

/-- Whatever `eager_parse(*words, target)` returns is well-typed, has the words' domain, the
    target as codomain, and consists of the words in order followed only by cups `Cup(x, x.r)`. -/
theorem eager_parse_spec (words : List Box) (target : Ty) (d : Diagram)
    (h : eagerParse words target = .ok d) :
    d.WF ∧ d.dom = words.flatMap (·.dom) ∧ d.cod = target ∧
      ∃ cups, d.boxes = words ++ cups ∧ ∀ c ∈ cups, ∃ x : Ob, c = Box.cup x x.r :=
  eagerParse_spec h

/-- With words of empty domain (`Word(name, cod)`) the parse is a closed diagram. -/
theorem eager_parse_closed (words : List Box) (target : Ty) (d : Diagram)
    (hw : ∀ w ∈ words, w.dom = []) (h : eagerParse words target = .ok d) : d.dom = [] := by
  rw [(eagerParse_spec h).2.1]
  exact List.flatMap_eq_nil_iff.mpr hw

/-- Every layer after the words is a cup on ADJACENT ADJOINT wires: the type it is applied to
    reads `left ++ [x, x.r] ++ right` (well-typedness puts the box's domain at its offset). -/
theorem eager_parse_cups_adjacent (words : List Box) (target : Ty) (d : Diagram)
    (h : eagerParse words target = .ok d) :
    ∀ l ∈ d.layers.boxes.drop words.length,
      ∃ x : Ob, l.box = Box.cup x x.r ∧ l.dom = l.left ++ [x, x.r] ++ l.right := by
  obtain ⟨w, _, _, cups, hb, hc⟩ := eagerParse_spec h
  intro l hl
  have hmem : l.box ∈ (d.layers.boxes.drop words.length).map (·.box) := List.mem_map_of_mem hl
  rw [List.map_drop, ← w.boxes, hb, List.drop_left] at hmem
  obtain ⟨x, hx⟩ := hc _ hmem
  exact ⟨x, hx, by simp [Layer.dom, hx, Box.cup]⟩

/-- The only exception is `NotImplementedError`: in particular the loop needs no fuel — the
    bound `eagerParse` derives from the input is never reached (`|scan|` drops by 2). -/
theorem eager_parse_only_notimpl (words : List Box) (target : Ty) (e : Err)
    (h : eagerParse words target = .error e) : e = .notImpl := eagerParse_error h

/-- `brute_force` only yields `eager_parse` results of word sequences over the vocabulary. -/
theorem brute_force_sound (vocab : List Box) (target : Ty) (k : Nat) (d : Diagram)
    (h : d ∈ bruteForce vocab target k) :
    ∃ ws, (∀ w ∈ ws, w ∈ vocab) ∧ eagerParse ws target = .ok d :=
  bruteForceLoop_sound vocab target k [[]] (by simp) d h

/-! ### cfg.CFG.generate -/

/-- For every oracle stream (= every behaviour of `random.shuffle`): each yielded sentence is a
    well-typed closed derivation of the start symbol using only the given productions, each
    applied at the leftmost open symbol, with fewer than `max_depth` productions. -/
theorem cfg_generate_sound (P : CfgParams) (oracle : List (List Nat)) (res : List Diagram)
    (h : cfgGenerate P oracle = .ok res) :
    ∀ s ∈ res, s.WF ∧ s.dom = [] ∧ s.cod = P.start ∧ (∀ b ∈ s.boxes, b ∈ P.productions) ∧
      (∀ o ∈ s.offsets, o = 0) ∧ s.boxes.length < P.maxDepth.toNat := by
  intro s hs
  obtain ⟨g, hd, hl⟩ := cfgGenerate_sound h s hs
  exact ⟨g.wf, hd, g.cod, g.boxes, g.offsets, hl⟩

/-- `generate` raises nothing: the model fails only when the oracle stream is shorter than
    the number of shuffles the run performs. -/
theorem cfg_generate_no_exception (P : CfgParams) (oracle : List (List Nat)) (e : Err)
    (h : cfgGenerate P oracle = .error e) : e = .fuel := cfgGenerate_error h

/-! ### the object map of biclosed2rigid -/

/-- `|F(x << y)| = |F x| + |F y|` and `|F(x >> y)| = |F x| + |F y|`. -/
theorem img_slash_length (x y : BTy) :
    (BTy.img (BTy.over x y)).length = (BTy.img x).length + (BTy.img y).length ∧
    (BTy.img (BTy.under x y)).length = (BTy.img x).length + (BTy.img y).length :=
  ⟨BTy.img_over_length x y, BTy.img_under_length x y⟩

theorem img_monoidal (a b : BTy) : BTy.img (a ++ b) = BTy.img a ++ BTy.img b := BTy.img_append a b

theorem adjoint_laws (t a b : Ty) :
    Ty.r (Ty.l t) = t ∧ Ty.l (Ty.r t) = t ∧ Ty.l (a ++ b) = Ty.l b ++ Ty.l a ∧
      Ty.r (a ++ b) = Ty.r b ++ Ty.r a :=
  ⟨Ty.l_r t, Ty.r_l t, Ty.l_append a b, Ty.r_append a b⟩

/-! ### biclosed2rigid on rule boxes -/

/-- REPAIRED code: for every rule box FA/BA/FC/BC/FX/BX (and every generic box) over arbitrarily
    nested slash types the image is returned, well-typed, with dom/cod the images of the
    box's dom/cod. -/
theorem biclosed2rigid_type_preserving (r : Rule) (hc : r.check = true) :
    ∃ d, r.img Variant.repaired = .ok d ∧ d.WF ∧ d.dom = BTy.img r.dom ∧ d.cod = BTy.img r.cod :=
  Rule.img_has Variant.repaired r hc (Rule.okFor_repaired r)

/-- Every rule box has the type its rule says, for independent `X`, `Y`, `Z` (`X/Y = X << Y`,
    `X\Y = Y >> X`, the convention of `ccg.cat2ty`):

        FA  X/Y  Y   ⇒ X        BA  Y    X\Y ⇒ X
        FC  X/Y  Y/Z ⇒ X/Z      BC  Y\Z  X\Y ⇒ X\Z
        FX  X/Y  Y\Z ⇒ X\Z      BX  Y/Z  X\Y ⇒ X/Z

    and premises that fit the rule are accepted by the constructor. -/
theorem rules_as_stated (X Y Z : BTy) :
    ((Rule.fa X Y).check = true ∧ (Rule.fa X Y).dom = BTy.fwd X Y ++ Y ∧ (Rule.fa X Y).cod = X) ∧
    ((Rule.ba Y X).check = true ∧ (Rule.ba Y X).dom = Y ++ BTy.bwd X Y ∧ (Rule.ba Y X).cod = X) ∧
    ((Rule.fc X Y Y Z).check = true ∧ (Rule.fc X Y Y Z).dom = BTy.fwd X Y ++ BTy.fwd Y Z ∧
      (Rule.fc X Y Y Z).cod = BTy.fwd X Z) ∧
    ((Rule.bc Z Y Y X).check = true ∧ (Rule.bc Z Y Y X).dom = BTy.bwd Y Z ++ BTy.bwd X Y ∧
      (Rule.bc Z Y Y X).cod = BTy.bwd X Z) ∧
    ((Rule.fx X Y Z Y).check = true ∧ (Rule.fx X Y Z Y).dom = BTy.fwd X Y ++ BTy.bwd Y Z ∧
      (Rule.fx X Y Z Y).cod = BTy.bwd X Z) ∧
    ((Rule.bx Y Z Y X).check = true ∧ (Rule.bx Y Z Y X).dom = BTy.fwd Y Z ++ BTy.bwd X Y ∧
      (Rule.bx Y Z Y X).cod = BTy.fwd X Z) := by
  simp [Rule.check, Rule.dom, Rule.cod]

/-- Crossed compositions with INDEPENDENT outer types `X`, `Z` (the library's own tests use
    `X = Z`, where `X\Z` and `Z\X` coincide), both variants of the code: the image of
    `FX(X/Y, Y\Z)` goes from `F X @ (F Y).l @ (F Z).r @ F Y` to `(F Z).r @ F X = F(X\Z)`, the
    image of `BX(Y/Z, X\Y)` from `F Y @ (F Z).l @ (F Y).r @ F X` to `F X @ (F Z).l = F(X/Z)`. -/
theorem crossed_composition_type_preserving (v : Variant) (X Y Z : BTy) :
    (∃ d, (Rule.fx X Y Z Y).img v = .ok d ∧ d.WF ∧
      d.dom = BTy.img X ++ Ty.l (BTy.img Y) ++ (Ty.r (BTy.img Z) ++ BTy.img Y) ∧
      d.cod = Ty.r (BTy.img Z) ++ BTy.img X) ∧
    (∃ d, (Rule.bx Y Z Y X).img v = .ok d ∧ d.WF ∧
      d.dom = BTy.img Y ++ Ty.l (BTy.img Z) ++ (Ty.r (BTy.img Y) ++ BTy.img X) ∧
      d.cod = BTy.img X ++ Ty.l (BTy.img Z)) := by
  obtain ⟨d, h, w, hd, hc⟩ := Rule.img_has v (.fx X Y Z Y) (by simp [Rule.check]) trivial
  obtain ⟨e, h', w', hd', hc'⟩ := Rule.img_has v (.bx Y Z Y X) (by simp [Rule.check]) trivial
  exact ⟨⟨d, h, w, by rw [hd]; simp [Rule.dom, BTy.img_append], by rw [hc]; simp [Rule.cod]⟩,
    ⟨e, h', w', by rw [hd']; simp [Rule.dom, BTy.img_append], by rw [hc']; simp [Rule.cod]⟩⟩

/-- Words and generic boxes with an arbitrary domain, both variants: the image of
    `Word(name, cod, dom=dom, _dagger=dagger)` is the single box `name : F(dom) → F(cod)` (with the
    same dagger flag) — in particular its domain is the image of the word's domain, whether that
    is the default empty type or any nested slash type. -/
theorem word_type_preserving (v : Variant) (name : String) (cod dom : BTy) (dagger : Bool) :
    (mkWord name cod dom dagger).img v = .ok (Diagram.ofBox
        { name := name, dom := BTy.img dom, cod := BTy.img cod, dagger := dagger }) ∧
      (mkWord name cod dom dagger).dom = dom ∧ (mkWord name cod dom dagger).cod = cod := by
  refine ⟨?_, mkWord_dom .., mkWord_cod ..⟩
  cases dagger <;> simp [mkWord, wordDom_eq, Rule.img, Rule.check, Rule.imgCore, Box.dag]

/-- The image of a generic `biclosed.Box(name, dom, cod)` is one box over the images. -/
theorem box_image (v : Variant) (name : String) (dom cod : BTy) :
    (Rule.gen name dom cod).img v =
      .ok (Diagram.ofBox { name := name, dom := BTy.img dom, cod := BTy.img cod }) ∧
    (Rule.dgen name dom cod).img v =
      .ok (Diagram.ofBox { name := name, dom := BTy.img dom, cod := BTy.img cod, dagger := true }) := by
  constructor <;> simp [Rule.img, Rule.check, Rule.imgCore, Box.dag]

/-- The same for `BA` alone, in the terms of finding F10. -/
theorem ba_type_preserving (l r : BTy) :
    ∃ d, (Rule.ba l r).img Variant.repaired = .ok d ∧ d.WF ∧
      d.dom = BTy.img l ++ (Ty.r (BTy.img l) ++ BTy.img r) ∧ d.cod = BTy.img r := by
  obtain ⟨d, h, w, hd, hc⟩ := biclosed2rigid_type_preserving (.ba l r) rfl
  exact ⟨d, h, w, by rw [hd]; simp [Rule.dom, BTy.img_append], hc⟩

/-- Code AS IT IS: every rule other than `BA`, and `BA` when the left side of its `Under` is
    exactly one object. -/
theorem biclosed2rigid_type_preserving_partial (r : Rule) (hc : r.check = true)
    (hba : ∀ l rr, r = .ba l rr → l.length = 1) :
    ∃ d, r.img Variant.asIs = .ok d ∧ d.WF ∧ d.dom = BTy.img r.dom ∧ d.cod = BTy.img r.cod := by
  refine Rule.img_has Variant.asIs r hc ?_
  cases r <;> first | trivial | exact Or.inr (hba _ _ rfl)

/-- A box its constructor refuses (`TypeError`) is refused by the model. -/
theorem rule_refused (v : Variant) (r : Rule) (hc : r.check = false) : r.img v = .error .type :=
  Rule.img_refused v r hc

/-! ### Curry boxes and whole diagrams -/

/-- REPAIRED code: `biclosed2rigid(Curry(d, n_wires, left))` for every integer `n_wires` and
    both sides, given a type-preserving image `g` of `d`. -/
theorem curry_type_preserving (ddom dcod : BTy) (g : Diagram) (n : Int) (left : Bool)
    (hg : g.WF) (hd : g.dom = BTy.img ddom) (hc : g.cod = BTy.img dcod) :
    ∃ d, curryImg Variant.repaired ddom g n left = .ok d ∧ d.WF ∧
      d.dom = BTy.img (curryDom Variant.repaired ddom n left) ∧
      d.cod = BTy.img (curryCod ddom dcod n left) :=
  curryImg_has Variant.repaired ddom dcod g n left hg hd hc (Or.inr (Or.inl rfl))

/-- Code AS IT IS: left currying for every `n_wires`; right currying when the curried wires
    have a non-empty image (finding F14 is the complement). -/
theorem curry_type_preserving_partial (ddom dcod : BTy) (g : Diagram) (n : Int) (left : Bool)
    (hg : g.WF) (hd : g.dom = BTy.img ddom) (hc : g.cod = BTy.img dcod)
    (hok : left = true ∨ BTy.img (curryWires ddom n false) ≠ []) :
    ∃ d, curryImg Variant.asIs ddom g n left = .ok d ∧ d.WF ∧
      d.dom = BTy.img (curryDom Variant.asIs ddom n left) ∧
      d.cod = BTy.img (curryCod ddom dcod n left) :=
  curryImg_has Variant.asIs ddom dcod g n left hg hd hc
    (hok.elim Or.inl (fun h => Or.inr (Or.inr h)))

/-- REPAIRED code: every well-typed biclosed diagram (rule boxes, generic boxes, Curry boxes of
    well-typed diagrams, nested to any depth) has a well-typed image whose dom/cod are the
    images of its dom/cod. -/
theorem biclosed2rigid_diagram_type_preserving (d : BD) (ht : d.Typed Variant.repaired) :
    ∃ g, d.img Variant.repaired = .ok g ∧ g.WF ∧ g.dom = BTy.img d.dom ∧
      g.cod = BTy.img (d.cod Variant.repaired) :=
  BD.img_has Variant.repaired d ht (BD.avoids_repaired d)

/-- The translation keeps the words and boxes: the image's boxes other than cups, caps and swaps
    are, in order, the images `name : F(dom) → F(cod)` of the source's words and generic boxes
    (`BD.gens`; the contents of curried diagrams included) — whenever an image is returned, for
    either variant; and for the repaired code one is returned for every well-typed diagram. -/
theorem biclosed2rigid_preserves_boxes (v : Variant) (d : BD) (g : Diagram)
    (h : d.img v = .ok g) : g.gens = d.gens :=
  BD.img_gens v d g h

theorem biclosed2rigid_preserves_boxes_total (d : BD) (ht : d.Typed Variant.repaired) :
    ∃ g, d.img Variant.repaired = .ok g ∧ g.gens = d.gens := by
  obtain ⟨g, hg, _⟩ := BD.img_has Variant.repaired d ht (BD.avoids_repaired d)
  exact ⟨g, hg, BD.img_gens _ d g hg⟩

/-- Code AS IT IS: the same for diagrams without a box of the shapes of F10/F14. -/
theorem biclosed2rigid_diagram_type_preserving_partial (d : BD) (ht : d.Typed Variant.asIs)
    (ha : d.Avoids Variant.asIs) :
    ∃ g, d.img Variant.asIs = .ok g ∧ g.WF ∧ g.dom = BTy.img d.dom ∧
      g.cod = BTy.img (d.cod Variant.asIs) :=
  BD.img_has Variant.asIs d ht ha

/-! ### CCG -/

/-- `cat2ty` returns categories only: one object, and one object on each side of every slash. -/
theorem cat2ty_category (s : List Char) (t : BTy) (h : cat2ty s = .ok t) : t.Simple1 := cat2ty_simple h

/-- Whatever `tree2diagram(tree, dom=dom)` returns is a well-typed biclosed diagram whose domain
    is `dom` for a leaf tree and empty for an inner node (`CTree.domOf`), and its translation is
    type-preserving — for every `dom`, for the code as it is and for the repaired code alike. -/
theorem tree2diagram_type_preserving (v : Variant) (t : CTree) (dom : BTy) (d : BD)
    (h : t.toBD v dom = .ok d) :
    d.Typed v ∧ d.dom = t.domOf dom ∧
      ∃ g, d.img v = .ok g ∧ g.WF ∧ g.dom = BTy.img (t.domOf dom) ∧ g.cod = BTy.img (d.cod v) :=
  ⟨(CTree.toBD_good v t dom d h).typed, (CTree.toBD_good v t dom d h).dom, CTree.img_has v h⟩

/-- With the default `dom=Ty()` the derivation is closed. -/
theorem tree2diagram_closed (v : Variant) (t : CTree) (d : BD) (h : t.toBD v [] = .ok d) :
    d.dom = [] := by
  rw [(CTree.toBD_good v t [] d h).dom, CTree.domOf_nil]

/-- `cat2ty` reads the fully parenthesised print of a category (depccg's format: parentheses
    around every slash category below the top, atoms free of parentheses and slashes, feature
    annotations `[…]` allowed) back to the biclosed type the category denotes:
    `X/Y ↦ X << Y`, `X\Y ↦ Y >> X`, features dropped. -/
theorem cat2ty_round_trip (c : Cat) (hc : c.Plain) : cat2ty c.print = .ok c.ty := cat2ty_print c hc

/-! ### Non-vacuity and the witnesses of F10 / F14 -/

private def isErr (r : Except Err Diagram) (e : Err) : Bool :=
  match r with | .error e' => e' == e | .ok _ => false
private def okWith (r : Except Err Diagram) (p : Diagram → Bool) : Bool :=
  match r with | .error _ => false | .ok d => p d

private def n : Ob := ⟨"n", 0⟩
private def s : Ob := ⟨"s", 0⟩
private def Alice : Box := { name := "Alice", dom := [], cod := [n] }
private def loves : Box := { name := "loves", dom := [], cod := [n.r, s, n.l] }
private def Bob : Box := { name := "Bob", dom := [], cod := [n] }

/-- "Alice loves Bob" parses to `s` with the two expected cups, at offsets 0 and 1. -/
example : okWith (eagerParse [Alice, loves, Bob] [s]) (fun d =>
    d.boxes == [Alice, loves, Bob, Box.cup n n.r, Box.cup n.l n] && d.offsets == [0, 1, 4, 0, 1]
      && d.dom == [] && d.cod == [s]) = true := by decide
/-- … and "loves Alice Bob" is refused with NotImplementedError. -/
example : isErr (eagerParse [loves, Alice, Bob] [s]) .notImpl = true := by decide
/-- brute force over {Alice, loves} finds nothing in the first 3 queue entries but the empty
    search is not vacuous: with target `n` it finds "Alice". -/
example : (bruteForce [Alice, loves] [n] 1).length = 1 := by decide

private def S : Ob := ⟨"S", 0⟩
private def NP : Ob := ⟨"NP", 0⟩
private def VP : Ob := ⟨"VP", 0⟩
private def R0 : Box := { name := "R0", dom := [NP, VP], cod := [S] }
private def jane : Box := { name := "Jane", dom := [], cod := [NP] }
private def runs : Box := { name := "runs", dom := [], cod := [VP] }
private def G : CfgParams :=
  { productions := [R0, jane, runs], start := [S], maxSentences := 1, maxDepth := 6, maxIter := 5,
    removeDuplicates := false, notTwice := [] }

/-- One sentence `Jane runs`, derived leftmost: runs, Jane, R0 read top-down. -/
example : (match cfgGenerate G [[0, 1, 2], [1, 0, 2], [2, 1, 0]] with
    | .ok [d] => d.boxes == [runs, jane, R0] && d.dom == [] && d.cod == [S]
    | _ => false) = true := by decide

private def x : BTy := [.atom "x"]
private def y : BTy := [.atom "y"]
private def z : BTy := [.atom "z"]

/-- Composite, nested sides: `FA(((x << y) @ z) << (y @ (x >> z)))` has a 7-wire domain. -/
example : okWith ((Rule.fa (BTy.over x y ++ z) (y ++ BTy.under x z)).img Variant.repaired)
    (fun d => d.dom.length == 9 && d.cod.length == 3 && d.boxes.length == 3) = true := by decide

/-- Forward crossed composition with different outer types, `FX(x/y, y\(z @ x))`: the conclusion
    is `x\(z @ x) = (z @ x) >> x` — NOT `x >> (z @ x)` — and the image's codomain is its image
    `x.r @ z.r @ x`. -/
example : (Rule.fx x y (z ++ x) y).cod = BTy.under (z ++ x) x ∧
    (Rule.fx x y (z ++ x) y).cod ≠ BTy.under x (z ++ x) := by decide
example : okWith ((Rule.fx x y (z ++ x) y).img Variant.current) (fun d =>
    d.cod == [⟨"x", 1⟩, ⟨"z", 1⟩, ⟨"x", 0⟩] && d.cod == BTy.img (BTy.bwd x (z ++ x)) &&
    d.dom.length == 5) = true := by decide
/-- Backward crossed composition `BX(y/z, x\y)` with `x ≠ z`: conclusion `x/z`. -/
example : okWith ((Rule.bx y z y x).img Variant.current) (fun d =>
    d.cod == [⟨"x", 0⟩, ⟨"z", -1⟩] && d.dom.length == 4) = true := by decide

/-- F10, the reported witness: with the code as it is `biclosed2rigid(BA((x @ y) >> z))` raises
    AxiomError … -/
theorem ba_asIs_raises : isErr ((Rule.ba (x ++ y) z).img Variant.asIs) .axiom = true := by decide
/-- … with the repaired split it is the two nested cups `x @ y @ y.r @ x.r @ z → z`. -/
example : okWith ((Rule.ba (x ++ y) z).img Variant.repaired) (fun d =>
    d.dom == BTy.img (Rule.ba (x ++ y) z).dom && d.cod == BTy.img z && d.boxes.length == 2) = true := by
  decide
/-- F10 can also pass silently: for `BA(((x << x) @ x) >> z)` the code as it is returns a diagram
    whose codomain is `x @ x.r @ z` instead of `z`. -/
theorem ba_asIs_wrong_type :
    okWith ((Rule.ba (BTy.over x x ++ x) z).img Variant.asIs) (fun d =>
      d.cod != BTy.img (Rule.ba (BTy.over x x ++ x) z).cod &&
      d.cod == [⟨"x", 0⟩, ⟨"x", 1⟩, ⟨"z", 0⟩]) = true := by decide
/-- so type preservation of the code as it is fails for `BA`: -/
theorem ba_asIs_not_type_preserving :
    ¬ ∀ l r : BTy, ∃ d, (Rule.ba l r).img Variant.asIs = .ok d ∧ d.dom = BTy.img (Rule.ba l r).dom ∧
      d.cod = BTy.img (Rule.ba l r).cod := by
  intro h
  obtain ⟨d, hd, _, _⟩ := h (x ++ y) z
  have := ba_asIs_raises
  rw [hd] at this
  simp [isErr] at this

private def f : BD := BD.ofRule (.gen "f" (x ++ y) z)

/-- F14: with the code as it is `biclosed2rigid(Curry(f, 0))` (f : x @ y → z) raises AxiomError … -/
theorem curry_asIs_raises : isErr (BD.curryBoxImg Variant.asIs f 0 false) .axiom = true := by decide
/-- … the repaired code returns `f : x @ y → z` (currying no wire). -/
example : okWith (BD.curryBoxImg Variant.repaired f 0 false) (fun d =>
    d.dom == BTy.img (x ++ y) && d.cod == BTy.img z && d.boxes.length == 1) = true := by decide
/-- Right-currying the last wire, as is: `x → z @ y.l`, one cap and `f`. -/
example : okWith (BD.curryBoxImg Variant.asIs f 1 false) (fun d =>
    d.dom == BTy.img x && d.cod == BTy.img (BTy.over z y) && d.boxes.length == 2) = true := by decide

/-- A CCG derivation: `Alice (loves Bob)`, via `fa` then `ba`, translates to two cups. -/
private def tree : CTree :=
  .node "'ba'" ['S'] [.word "'Alice'" ['N', 'P'],
    .node "'fa'" ['S', '\\', 'N', 'P']
      [.word "'loves'" ['(', 'S', '\\', 'N', 'P', ')', '/', 'N', 'P'], .word "'Bob'" ['N', 'P']]]
example : (match tree.toBD Variant.asIs [] with
    | .ok d => okWith (d.img Variant.asIs) (fun g => g.dom == [] && g.cod == [⟨"'S'", 0⟩]
        && g.boxes.length == 5)
    | .error _ => false) = true := by decide

/-- A leaf tree with the optional domain: `tree2diagram({'word': 'that', 'cat': 'S/NP'},
    dom=(x << y) @ z)` is the word `that : (x << y) @ z → S << NP`; its image goes from the
    3-wire image `x @ y.l @ z` of the domain to `S @ NP.l`. -/
example : (match (CTree.word "'that'" ['S', '/', 'N', 'P']).toBD Variant.current (BTy.over x y ++ z) with
    | .ok d => d.dom == BTy.over x y ++ z && okWith (d.img Variant.current) (fun g =>
        g.dom == [⟨"x", 0⟩, ⟨"y", -1⟩, ⟨"z", 0⟩] && g.cod == [⟨"'S'", 0⟩, ⟨"'NP'", -1⟩] &&
        g.boxes.length == 1)
    | .error _ => false) = true := by decide
/-- … an inner node ignores the argument: the derivation stays closed. -/
example : (match tree.toBD Variant.current (BTy.over x y ++ z) with
    | .ok d => d.dom == [] | .error _ => false) = true := by decide
/-- A word with a nested domain inside a diagram, followed by a rule: the generic boxes of the
    image are the two words, in order. -/
example : (match (BD.snoc (BD.snoc (BD.snoc (.id z) 0 (mkWord "w" (BTy.over x y) z false)) 1
      (mkWord "u" y [] true)) 0 (.fa x y)).img Variant.current with
    | .ok g => g.gens == [{ name := "w", dom := [⟨"z", 0⟩], cod := [⟨"x", 0⟩, ⟨"y", -1⟩] },
        { name := "u", dom := [], cod := [⟨"y", 0⟩], dagger := true }] && g.boxes.length == 3
    | .error _ => false) = true := by decide

/-- `(S[dcl]\NP)/NP` is a plain category; its print parses back to `(NP >> S) << NP`. -/
private def tv : Cat :=
  .fwd (.bwd (.atom ['S', '[', 'd', 'c', 'l', ']']) (.atom ['N', 'P'])) (.atom ['N', 'P'])
example : tv.Plain := by simp [tv, Cat.Plain, PlainChar]
example : tv.print = ['(', 'S', '[', 'd', 'c', 'l', ']', '\\', 'N', 'P', ')', '/', 'N', 'P'] := by
  decide
example : tv.ty = BTy.over (BTy.under [.atom "'NP'"] [.atom "'S'"]) [.atom "'NP'"] := by decide

end DV.C18
