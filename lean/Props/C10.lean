/-
  Props/C10.lean — C10 "swaps and permutations realise exactly the requested wire permutation".
  Property theorems only; proofs are appeals to Proofs/Swap.lean and Proofs/PermList.lean.

  Observation used (Model/Wires.lean): `wirePerm d = some w` says that `d` consists of swaps of
  two atomic types only (`d.allSwaps`), every offset lying inside the diagram, and that the wire
  entering at input position `i` leaves at output position `w[i]` — computed from the public
  fields `boxes`/`offsets` alone.  `wirePerm_sound` ties that observation to the types.

  Everything stated here is proved (no `_partial`, no unproved `def … : Prop`):
  * `swap_total`, `swap_wires`     monoidal.py:486-514, induction on `left` along the recursion
  * `permutation_spec`             monoidal.py:516-548, the selection-sort loop invariant
                                   (`permLoop_spec` in Proofs/Swap.lean), for every length
  * `permutation_refuses`, `permutation_only_value_errors`
  * `permutation_accepted_iff`     accepted ⇔ the list is a rearrangement of `range(len(dom))`
                                   (both refusal tests in one condition; `List.Perm`)
  * `permutation_refuses_duplicates`   a list with a repeated entry is refused on EVERY domain
  * `permute_spec`, `permute_refused_when_cod_differs`   monoidal.py:550-564
  * `cq_swap_type`, `cq_swap_blocks`, `cq_swap_spec`   the EVALUATION target of circuit swaps,
                                   `CQMap.swap(left, right)` (cqmap.py:188-193): for classical and
                                   quantum parts of any lengths and dimensions its underlying tensor
                                   over `classical @ quantum @ quantum` is the wire-permutation
                                   tensor of the block exchange in each of the three blocks — the
                                   conjugate copy of the quantum wires is permuted like the first
                                   copy, not by the inverse (Proofs/CQSwap.lean; for every
                                   commutative star-ring of scalars)
  The per-class factories (rigid, tensor, circuit, zx) pass `ar_factory`/`swap_factory` to this
  same code; the model has one box constructor `Box.swap`, so the theorems are about the shared
  algorithm and the classes are tied to it by the correspondence run (harness/props/c10.py).
-/
import Proofs.PermList
import Proofs.CQSwap

namespace DV.C10
open DV

/-- The observation is type-consistent on every well-typed diagram: the wire that `wirePerm`
    sends from `i` to `w[i]` has the same type at both ends. -/
theorem wirePerm_sound (d : Diagram) (w : List Nat) (hw : d.WF) (h : wirePerm d = some w) :
    w.length = d.dom.length ∧ ∀ i, (hi : i < w.length) → d.cod[w[i]]? = d.dom[i]? :=
  wirePerm_types hw h

/-- `Diagram.swap(left, right)` is never refused; the result is well-typed from `left @ right`
    to `right @ left`, consists of adjacent swaps only and realises the block exchange:
    `wirePerm = [|r|, …, |r|+|l|-1] ++ [0, …, |r|-1]`. -/
theorem swap_total (l r : Ty) :
    ∃ d, Diagram.swap l r = .ok d ∧ d.WF ∧ d.dom = l ++ r ∧ d.cod = r ++ l ∧
      d.allSwaps = true ∧
      wirePerm d = some (List.range' r.length l.length ++ List.range r.length) :=
  Diagram.swap_wirePerm l r

/-- Pointwise reading of `swap_total`: the `i`-th wire of `left` goes to position `|right| + i`
    (to the right of every wire of `right`, order kept), the `k`-th wire of `right` to `k`. -/
theorem swap_wires (l r : Ty) :
    ∃ d w, Diagram.swap l r = .ok d ∧ wirePerm d = some w ∧
      (∀ i, i < l.length → w[i]? = some (r.length + i)) ∧
      (∀ k, k < r.length → w[l.length + k]? = some k) := by
  obtain ⟨d, hd, _, _, _, _, hw⟩ := Diagram.swap_wirePerm l r
  exact ⟨d, _, hd, hw, swap_wires_pointwise l.length r.length⟩

/-- For every permutation `p` of `range(n)` and every domain of length `n`:
    `Diagram.permutation(p, dom)` succeeds, is well-typed with domain `dom`, consists of adjacent
    swaps only, sends input wire `i` to output position `p[i]` (`wirePerm = p`), and its codomain
    is the correspondingly permuted domain: `cod[p[i]] = dom[i]`. -/
theorem permutation_spec (p : List Int) (dom : Ty) (hp : isPermList p = true)
    (hl : dom.length = p.length) :
    ∃ d, Diagram.permutation p dom = .ok d ∧ d.WF ∧ d.dom = dom ∧ d.allSwaps = true ∧
      wirePerm d = some (p.map Int.toNat) ∧
      ∀ i, (hi : i < p.length) → d.cod[(p[i]).toNat]? = dom[i]? :=
  Diagram.permutation_wirePerm p dom hp hl

/-- Non-permutations and length mismatches — and nothing else — are refused with `ValueError`. -/
theorem permutation_refuses (p : List Int) (dom : Ty) :
    Diagram.permutation p dom = .error .value ↔ (isPermList p = false ∨ dom.length ≠ p.length) :=
  Diagram.permutation_refuses p dom

/-- Acceptance, stated against the domain: `permutation(p, dom)` returns a diagram exactly when
    `p` is a rearrangement of `[0, …, len(dom)-1]`.  This single condition contains both refusal
    tests — `p` is a permutation of `range(len(p))` AND `len(dom) = len(p)`; comparing only the
    SETS `set(p)` and `set(range(len(dom)))` is weaker (see the `coversRange` examples below). -/
theorem permutation_accepted_iff (p : List Int) (dom : Ty) :
    (∃ d, Diagram.permutation p dom = .ok d) ↔ (intRange dom.length).Perm p :=
  Diagram.permutation_accepted_iff p dom

/-- A list with a repeated entry is refused whatever domain comes with it — in particular a
    domain exactly as long as the number of distinct entries. -/
theorem permutation_refuses_duplicates (p : List Int) (dom : Ty) (hdup : ¬ p.Nodup) :
    Diagram.permutation p dom = .error .value :=
  (Diagram.permutation_refuses p dom).mpr
    (Or.inl (by
      cases h : isPermList p
      · rfl
      · exact absurd (isPermList_nodup h) hdup))

/-- `permutation` never fails in any other way. -/
theorem permutation_only_value_errors (p : List Int) (dom : Ty) :
    (∃ d, Diagram.permutation p dom = .ok d) ∨ Diagram.permutation p dom = .error .value :=
  Diagram.permutation_total p dom

/-- `d.permute(*p)` on a well-typed `d` with `cod = dom`: it is `d >> permutation(p, d.dom)`,
    the appended network has `wirePerm = p`, and the output that was at `i` is now at `p[i]`. -/
theorem permute_spec (d : Diagram) (p : List Int) (hd : d.WF) (hdc : d.cod = d.dom)
    (hp : isPermList p = true) (hl : d.dom.length = p.length) :
    ∃ s d', Diagram.permutation p d.dom = .ok s ∧ d.permute p = .ok d' ∧ d'.WF ∧
      d'.dom = d.dom ∧ d'.boxes = d.boxes ++ s.boxes ∧ d'.offsets = d.offsets ++ s.offsets ∧
      wirePerm s = some (p.map Int.toNat) ∧
      ∀ i, (hi : i < p.length) → d'.cod[(p[i]).toNat]? = d.cod[i]? :=
  Diagram.permute_spec d p hd hdc hp hl

/-- `permute` builds the permutation on `self.dom` (monoidal.py:564, as documented there), so it
    is refused with an axiom error whenever `cod ≠ dom`, even for a valid permutation. -/
theorem permute_refused_when_cod_differs (d : Diagram) (p : List Int) (hd : d.WF)
    (hdc : d.cod ≠ d.dom) (hp : isPermList p = true) (hl : d.dom.length = p.length) :
    d.permute p = .error .axiom :=
  Diagram.permute_dom_ne_cod d p hd hdc hp hl

/-! ### The evaluation target of circuit swaps: `CQMap.swap` (cqmap.py:188-193)

    `CQ.flatIdx ds xs` is the row-major position of the multi-index `xs` (one value per wire) in
    an array of shape `ds`; `CQ.IsIdx ds xs` says every value lies below its wire's dimension. -/

section CQSwap
open DV.CQ
variable {R : Type} [CommRing R] [StarRing R]

/-- `CQMap.swap(l, r) : l @ r -> r @ l`, and its underlying tensor has `Π` of the wire dimensions
    `classical @ quantum @ quantum` of `l @ r` rows and of `r @ l` columns. -/
theorem cq_swap_type (l r : CQTy) :
    (CQMap.swap l r : CQMap R).dom = l.tensor r ∧ (CQMap.swap l r : CQMap R).cod = r.tensor l ∧
    (CQMap.swap l r : CQMap R).toMat.r = prodL (l.tensor r).udim ∧
    (CQMap.swap l r : CQMap R).toMat.c = prodL (r.tensor l).udim :=
  ⟨rfl, rfl, CQMap.swap_utensor_shape l r⟩

/-- Block by block: with the wires of `l` then `r` on the input of the classical block, of the
    quantum block and of its conjugate copy, the entry is 1 iff each output block carries the
    wires of `r`, in order, followed by the wires of `l`, in order (0 otherwise). -/
theorem cq_swap_blocks (l r : CQTy) {xc yc xq yq xp yp zc zq zp : List Nat}
    (hxc : IsIdx l.c xc) (hyc : IsIdx r.c yc) (hxq : IsIdx l.q xq) (hyq : IsIdx r.q yq)
    (hxp : IsIdx l.q xp) (hyp : IsIdx r.q yp)
    (hzc : IsIdx (r.c ++ l.c) zc) (hzq : IsIdx (r.q ++ l.q) zq) (hzp : IsIdx (r.q ++ l.q) zp) :
    (CQMap.swap l r : CQMap R).f
        (flatIdx (l.c ++ r.c) (xc ++ yc)) (flatIdx (l.q ++ r.q) (xq ++ yq))
        (flatIdx (l.q ++ r.q) (xp ++ yp))
        (flatIdx (r.c ++ l.c) zc) (flatIdx (r.q ++ l.q) zq) (flatIdx (r.q ++ l.q) zp) =
      iv (zc = yc ++ xc ∧ zq = yq ++ xq ∧ zp = yp ++ xp) :=
  CQMap.swap_blocks l r hxc hyc hxq hyq hxp hyp hzc hzq hzp

/-- **cq_swap_spec**.  The underlying tensor of `CQMap.swap(l, r)` (the flattened `array`, read
    at one value per wire of `classical @ quantum @ quantum`) is the permutation tensor on
    (classical l+r, quantum l+r, quantum' l+r): every wire of `l` moves, in order, to the right of
    every wire of `r`, in the classical block and in BOTH copies of the quantum block. -/
theorem cq_swap_spec (l r : CQTy) {xc yc xq yq xp yp z : List Nat}
    (hxc : IsIdx l.c xc) (hyc : IsIdx r.c yc) (hxq : IsIdx l.q xq) (hyq : IsIdx r.q yq)
    (hxp : IsIdx l.q xp) (hyp : IsIdx r.q yp) (hz : IsIdx (r.tensor l).udim z) :
    (CQMap.swap l r : CQMap R).toMat.f
        (flatIdx (l.tensor r).udim ((xc ++ yc) ++ (xq ++ yq) ++ (xp ++ yp)))
        (flatIdx (r.tensor l).udim z) =
      iv (z = (yc ++ xc) ++ (yq ++ xq) ++ (yp ++ xp)) :=
  CQMap.swap_utensor l r hxc hyc hxq hyq hxp hyp hz

/-- Non-vacuity, heterogeneous: `C(Dim(2)) @ Q(Dim(3))` against `C(Dim(3)) @ Q(Dim(2, 2))`. The
    input wires (2,3 | 3,2,2 | 3,2,2) carry (1,2 | 2,1,0 | 1,0,1); the output wires
    (3,2 | 2,2,3 | 2,2,3) carry (2,1 | 1,0,2 | 0,1,1): entry 1. -/
example : (CQMap.swap ⟨[2], [3]⟩ ⟨[3], [2, 2]⟩ : CQMap R).toMat.f
    (flatIdx [2, 3, 3, 2, 2, 3, 2, 2] [1, 2, 2, 1, 0, 1, 0, 1])
    (flatIdx [3, 2, 2, 2, 3, 2, 2, 3] [2, 1, 1, 0, 2, 0, 1, 1]) = 1 := by
  have h := cq_swap_spec (R := R) ⟨[2], [3]⟩ ⟨[3], [2, 2]⟩
    (xc := [1]) (yc := [2]) (xq := [2]) (yq := [1, 0]) (xp := [1]) (yp := [0, 1])
    (z := [2, 1, 1, 0, 2, 0, 1, 1])
    (by simp [IsIdx]) (by simp [IsIdx]) (by simp [IsIdx]) (by simp [IsIdx]) (by simp [IsIdx])
    (by simp [IsIdx]) (by simp [IsIdx, CQTy.udim, CQTy.tensor])
  simpa [CQTy.udim, CQTy.tensor] using h

/-- … and the mirror image on the conjugate copy (the wire of `l` FIRST there: what permuting that
    copy by the inverse swap would give) has entry 0. -/
example : (CQMap.swap ⟨[], [2]⟩ ⟨[], [2, 2]⟩ : CQMap R).toMat.f
    (flatIdx [2, 2, 2, 2, 2, 2] [1, 0, 1, 1, 0, 1])
    (flatIdx [2, 2, 2, 2, 2, 2] [0, 1, 1, 1, 1, 0]) = 0 := by
  have h := cq_swap_spec (R := R) ⟨[], [2]⟩ ⟨[], [2, 2]⟩
    (xc := []) (yc := []) (xq := [1]) (yq := [0, 1]) (xp := [1]) (yp := [0, 1])
    (z := [0, 1, 1, 1, 1, 0])
    (by simp [IsIdx]) (by simp [IsIdx]) (by simp [IsIdx]) (by simp [IsIdx]) (by simp [IsIdx])
    (by simp [IsIdx]) (by simp [IsIdx, CQTy.udim, CQTy.tensor])
  simpa [CQTy.udim, CQTy.tensor] using h

/-- The compiled model computes exactly this at the driver's scalars (`cqexpr swap …`). -/
example : (CQMap.swap ⟨[], [3]⟩ ⟨[], [2]⟩ : CQMap D8).toMat.f
    (flatIdx [3, 2, 3, 2] [2, 1, 1, 0]) (flatIdx [2, 3, 2, 3] [1, 2, 0, 1]) = 1 := by decide

end CQSwap

/-! Non-vacuity: concrete non-trivial instances (pairwise distinct wire types, a non-involutive
    permutation of length 4, widths 2 × 3), the refusals, and a witness that the convention is
    `i ↦ p[i]` and not its inverse. -/

private def x : Ob := ⟨"x", 0⟩
private def y : Ob := ⟨"y", 0⟩
private def z : Ob := ⟨"z", 0⟩
private def u : Ob := ⟨"u", 0⟩
private def v : Ob := ⟨"v", 0⟩
private def f : Box := { name := "f", dom := [x, y], cod := [z, u] }

private def isErr (r : Except Err Diagram) (e : Err) : Bool :=
  match r with | .error e' => e' == e | .ok _ => false
private def okWith (r : Except Err Diagram) (p : Diagram → Bool) : Bool :=
  match r with | .error _ => false | .ok d => p d

example : isPermList [2, 0, 3, 1] = true := by decide
example : okWith (Diagram.swap [x, y] [z, u, v]) (fun d =>
    d.boxes.length == 6 && d.offsets == [1, 2, 3, 0, 1, 2] && d.cod == [z, u, v, x, y] &&
    d.allSwaps && wirePerm d == some [3, 4, 0, 1, 2]) = true := by decide
example : okWith (Diagram.permutation [2, 0, 3, 1] [x, y, z, u]) (fun d =>
    d.cod == [y, u, x, z] && d.allSwaps && d.boxes.length == 3 &&
    wirePerm d == some [2, 0, 3, 1] && wirePerm d != some [1, 3, 0, 2]) = true := by decide
example : isErr (Diagram.permutation [0, 0, 1] [x, y, z]) .value = true := by decide
example : isErr (Diagram.permutation [1, 0, 3] [x, y, z]) .value = true := by decide
example : isErr (Diagram.permutation [1, 0] [x, y, z]) .value = true := by decide
example : isErr (Diagram.permutation [-1, 0] [x, y]) .value = true := by decide
/-- The one-test shortcut `set(p) == set(range(len(dom)))`: every entry lies in `range(n)` and
    every element of `range(n)` occurs.  It is NOT the acceptance condition. -/
private def coversRange (p : List Int) (n : Nat) : Bool :=
  p.all (fun x => decide (0 ≤ x) && decide (x < (n : Int))) &&
  (List.range n).all (fun k => p.contains (k : Int))

-- duplicates together with a domain as long as the number of distinct entries: the shortcut
-- would pass, both real tests fail, the request is refused (also through `permute`)
example : coversRange [0, 1, 1] 2 = true ∧ isPermList [0, 1, 1] = false ∧
    isErr (Diagram.permutation [0, 1, 1] [x, y]) .value = true := by decide
example : coversRange [1, 0, 0] 2 = true ∧
    isErr (Diagram.permutation [1, 0, 0] [x, y]) .value = true := by decide
example : coversRange [0, 0] 1 = true ∧
    isErr (Diagram.permutation [0, 0] [x]) .value = true := by decide
example : isErr ((Diagram.id [x, y]).permute [0, 1, 1]) .value = true := by decide
-- a genuine permutation on a domain that is too short / too long, and on the empty domain
example : isErr (Diagram.permutation [1, 0, 2] [x, y]) .value = true := by decide
example : isErr (Diagram.permutation [1, 0] []) .value = true := by decide
example : isErr (Diagram.permutation [] [x]) .value = true := by decide
-- out of range together with a wrong length
example : isErr (Diagram.permutation [0, 1, 3] [x, y, z, u]) .value = true := by decide
example : ¬ ([0, 1, 1] : List Int).Nodup := by decide
example : (intRange 4).Perm [2, 0, 3, 1] := by decide
example : okWith ((Diagram.id [x, y, z]).permute [1, 2, 0]) (fun d => d.cod == [z, x, y]) = true := by
  decide
example : isErr ((Diagram.ofBox f).permute [1, 0]) .axiom = true := by decide
example : wirePerm (Diagram.ofBox f) = none := by decide

end DV.C10
