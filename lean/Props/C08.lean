/-
  Props/C08.lean — tensors form a dagger compact-closed category of matrices.

  Statement (properties.jsonl C08): viewing a tensor as the matrix from its flattened domain to
  its flattened codomain, composition is the matrix product, tensor is the Kronecker product,
  dagger is the conjugate transpose, identities are identity matrices, swaps are the
  permutation matrices exchanging the two blocks of wires, cups and caps satisfy both snake
  equations; consequently interchange and naturality of swaps hold as equalities of tensors —
  for every choice of dimensions, including empty and multi-wire types.

  All theorems are about Model/Tensor.lean (`Tensor.then/tensor/dagger/id/swap/cups/caps`,
  transcribing tensor.py:177-237 with numpy's `tensordot`/`moveaxis`), over ANY commutative
  (star) semiring `R`, ALL dimension tuples `List Nat` (including `[]` = `Dim(1)`, repeated and
  unequal dims) and all well-formed arrays (`Tensor.WF`: what `Tensor.__init__` establishes).
  `DV.GaussInt`, the type the compiled model runs at in the correspondence check, is such a
  ring (Proofs/GaussInt.lean), built on the model's own `+ * 0 1 conj`.

  PROVED (every clause of the property, for all dimension tuples):
  both forms of each clause — on multi-indices (`*_entry`) and on flattened matrices
  (`*_matrix`, `tensor_kron`) — for then, tensor, dagger, id, swap; well-formedness of all
  results; refusal of `>>` exactly on a type mismatch; the laws as EQUALITIES of tensors
  (`interchange_law`, `swap_natural`, `dagger_then`, `dagger_tensor`, `dagger_dagger`, unit
  laws, associativity of `>>` and `@`); `Tensor.cups(l, r)` is defined exactly for adjoint
  tuples and is the Kronecker delta `a = reversed(b)` (`cups_spec`: closed form of the nested
  loop of rigid.py:449-454); BOTH snake equations for cups/caps of every multi-wire type
  (`snake_multiwire`), and their single-wire instances (`snake_l_single`, `snake_r_single`).

  CALLING CONVENTIONS (Model/TensorNary.lean: the dispatch of tensor.py:177-205 through
  monoidal.py:384-434 and cat.py:305-318, 709-715): the n-ary forms `f.then(g₁, …, g_k)` and
  `f.tensor(g₁, …, g_k)` are, for every k ≥ 0, the iterated binary operations
  (`thenN_eq_foldl`, `tensorN_eq_foldl`), hence every clause above transfers to them
  (`tensorN_wf`, `tensorN_assoc`, `tensorN_kron3`: `f.tensor(g, h)` is the Kronecker product of
  the three matrices); the fallback for a `tensor.Sum` argument returns the sum of the binary
  results (`then_sum_fallback`, `tensor_sum_fallback`), a `monoidal.Sum` is refused
  (`monoidal_sum_refused`), and the all-zero terms that `sum(terms, unit)` drops do not change
  the value (`sum_drop_zero_entry`); `Tensor.map` is entrywise (`map_entry`).

  Nothing of the statement is left unproved for the model.  Outside the theorems: numpy itself
  (`tensordot`, `moveaxis`, `reshape`, `identity`, `conjugate` are modelled and validated by the
  `numpy-prims` correspondence stream), floating point (the theorems are over exact rings).
-/
import Proofs.TensorMatrix
import Proofs.TensorSnakeMulti
import Proofs.TensorNary
import Proofs.GaussInt

namespace DV.C08
open DV DV.Tensor

section semiring
variable {R : Type} [CommSemiring R]

/-! ### `>>` -/

/-- `>>` on tensors is refused exactly when the types differ (tensor.py:183-184). -/
theorem then_error_iff (f g : Tensor R) : f.then g = .error .axiom ↔ f.cod ≠ g.dom := by
  unfold Tensor.then; split <;> simp_all

theorem then_ok_iff (f g : Tensor R) : (∃ t, f.then g = .ok t) ↔ f.cod = g.dom := by
  unfold Tensor.then; split <;> simp_all

/-- Composition, on multi-indices: `(f ≫ g)[i, k] = Σ_j f[i, j] * g[j, k]`. -/
theorem then_entry (f g t : Tensor R) (hf : f.WF) (hg : g.WF) (h : f.then g = .ok t)
    {i k : List Nat} (hi : InRange f.dom i) (hk : InRange g.cod k) :
    t.entry (i ++ k) = sumOver f.cod (fun j => f.entry (i ++ j) * g.entry (j ++ k)) := by
  obtain ⟨hc, rfl⟩ := then_eq_ok h
  exact Tensor.then_entry f g hf hg hc hi hk

/-- **Composition is the matrix product** of the flattened matrices. -/
theorem then_matrix (f g t : Tensor R) (hf : f.WF) (hg : g.WF) (h : f.then g = .ok t)
    {r c : Nat} (hr : r < prod f.dom) (hc : c < prod g.cod) :
    t.mat r c = ((List.range (prod f.cod)).map (fun k => f.mat r k * g.mat k c)).sum := by
  obtain ⟨hcd, rfl⟩ := then_eq_ok h
  exact Tensor.then_matrix f g hf hg hcd hr hc

theorem then_wf (f g t : Tensor R) (hf : f.WF) (hg : g.WF) (h : f.then g = .ok t) :
    t.WF ∧ t.dom = f.dom ∧ t.cod = g.cod := by
  obtain ⟨hc, rfl⟩ := then_eq_ok h
  exact ⟨thenCore_wf f g hf hg hc, rfl, rfl⟩

/-! ### `@` -/

/-- Tensor, on multi-indices: the `moveaxis` target list of tensor.py:201-204 realises the
    block permutation `[A, B, C, D] ↦ [A, C, B, D]` for all four block lengths. -/
theorem tensor_entry (f g : Tensor R) (hf : f.WF) (hg : g.WF) {a b c d : List Nat}
    (ha : InRange f.dom a) (hb : InRange f.cod b) (hc : InRange g.dom c) (hd : InRange g.cod d) :
    (f.tensor g).entry ((a ++ c) ++ (b ++ d)) = f.entry (a ++ b) * g.entry (c ++ d) :=
  Tensor.tensor_entry f g hf hg ha hb hc hd

/-- **Tensor is the Kronecker product** of the flattened matrices. -/
theorem tensor_kron (f g : Tensor R) (hf : f.WF) (hg : g.WF) {r1 r2 c1 c2 : Nat}
    (h1 : r1 < prod f.dom) (h2 : r2 < prod g.dom) (h3 : c1 < prod f.cod) (h4 : c2 < prod g.cod) :
    (f.tensor g).mat (r1 * prod g.dom + r2) (c1 * prod g.cod + c2) = f.mat r1 c1 * g.mat r2 c2 :=
  Tensor.tensor_kron f g hf hg h1 h2 h3 h4

theorem tensor_wf (f g : Tensor R) (hf : f.WF) (hg : g.WF) :
    (f.tensor g).WF ∧ (f.tensor g).dom = f.dom ++ g.dom ∧ (f.tensor g).cod = f.cod ++ g.cod :=
  ⟨Tensor.tensor_wf f g hf hg, rfl, rfl⟩

/-! ### identities and swaps -/

theorem id_entry (d : List Nat) {i j : List Nat} (hi : InRange d i) (hj : InRange d j) :
    (Tensor.id (R := R) d).entry (i ++ j) = if i = j then 1 else 0 :=
  Tensor.id_entry d hi hj

/-- **Identities are identity matrices.** -/
theorem id_matrix (d : List Nat) {r c : Nat} (hr : r < prod d) (hc : c < prod d) :
    (Tensor.id (R := R) d).mat r c = if r = c then 1 else 0 :=
  Tensor.id_matrix d hr hc

theorem swap_entry (l r : List Nat) {i j j' i' : List Nat}
    (hi : InRange l i) (hj : InRange r j) (hj' : InRange r j') (hi' : InRange l i') :
    (Tensor.swap (R := R) l r).entry ((i ++ j) ++ (j' ++ i'))
      = if i = i' ∧ j = j' then 1 else 0 :=
  Tensor.swap_entry l r hi hj hj' hi'

/-- **Swaps are the permutation matrices exchanging the two blocks of wires**: row `(a, b)`
    (block `l` then block `r`) has its single 1 in column `(b, a)`. -/
theorem swap_matrix (l r : List Nat) {a b b' a' : Nat}
    (ha : a < prod l) (hb : b < prod r) (hb' : b' < prod r) (ha' : a' < prod l) :
    (Tensor.swap (R := R) l r).mat (a * prod r + b) (b' * prod l + a')
      = if a = a' ∧ b = b' then 1 else 0 :=
  Tensor.swap_matrix l r ha hb hb' ha'

theorem id_swap_wf (l r : List Nat) :
    (Tensor.id (R := R) l).WF ∧ (Tensor.swap (R := R) l r).WF :=
  ⟨Tensor.id_wf l, Tensor.swap_wf l r⟩

/-! ### laws, as equalities of tensors -/

theorem id_then (f : Tensor R) (hf : f.WF) : (Tensor.id f.dom).then f = .ok f := by
  rw [then_ok rfl, Tensor.id_then f hf]

theorem then_id (f : Tensor R) (hf : f.WF) : f.then (Tensor.id f.cod) = .ok f := by
  rw [then_ok rfl, Tensor.then_id f hf]

/-- Composition is associative. -/
theorem then_assoc (f g h x y : Tensor R) (hf : f.WF) (hg : g.WF) (hh : h.WF)
    (h1 : f.then g = .ok x) (h2 : g.then h = .ok y) : x.then h = f.then y := by
  obtain ⟨c1, rfl⟩ := then_eq_ok h1
  obtain ⟨c2, rfl⟩ := then_eq_ok h2
  rw [then_ok (by simpa using c2), then_ok (by simpa using c1),
    Tensor.then_assoc f g h hf hg hh c1 c2]

/-- Tensor is strictly associative and `id(a) ⊗ id(b) = id(a ⊗ b)`, `id(1)` is its unit. -/
theorem tensor_monoid (f g h : Tensor R) (hf : f.WF) (hg : g.WF) (hh : h.WF) (a b : List Nat) :
    (f.tensor g).tensor h = f.tensor (g.tensor h) ∧
    (Tensor.id (R := R) a).tensor (Tensor.id b) = Tensor.id (a ++ b) ∧
    (Tensor.id []).tensor f = f ∧ f.tensor (Tensor.id []) = f :=
  ⟨Tensor.tensor_assoc f g h hf hg hh, Tensor.id_tensor_id a b, Tensor.id_nil_tensor f hf,
    Tensor.tensor_id_nil f hf⟩

/-- **Interchange law**: `(f ≫ f') ⊗ (g ≫ g') = (f ⊗ g) ≫ (f' ⊗ g')`. -/
theorem interchange_law (f f' g g' x y : Tensor R) (hf : f.WF) (hf' : f'.WF) (hg : g.WF)
    (hg' : g'.WF) (h1 : f.then f' = .ok x) (h2 : g.then g' = .ok y) :
    (f.tensor g).then (f'.tensor g') = .ok (x.tensor y) := by
  obtain ⟨c1, rfl⟩ := then_eq_ok h1
  obtain ⟨c2, rfl⟩ := then_eq_ok h2
  rw [then_ok (by simp [c1, c2]), Tensor.interchange_law f f' g g' hf hf' hg hg' c1 c2]

/-- **Naturality of swaps**: `(f ⊗ g) ≫ swap(cod f, cod g) = swap(dom f, dom g) ≫ (g ⊗ f)`. -/
theorem swap_natural (f g : Tensor R) (hf : f.WF) (hg : g.WF) :
    (f.tensor g).then (Tensor.swap f.cod g.cod)
      = (Tensor.swap f.dom g.dom).then (g.tensor f) := by
  rw [then_ok rfl, then_ok rfl, Tensor.swap_natural f g hf hg]

end semiring

section star
variable {R : Type} [CommSemiring R] [StarRing R]

/-! ### dagger -/

theorem dagger_entry (f : Tensor R) (hf : f.WF) {i k : List Nat}
    (hi : InRange f.dom i) (hk : InRange f.cod k) :
    f.dagger.entry (k ++ i) = star (f.entry (i ++ k)) :=
  Tensor.dagger_entry f hf hi hk

/-- **Dagger is the conjugate transpose.** -/
theorem dagger_matrix (f : Tensor R) (hf : f.WF) {r c : Nat} (hr : r < prod f.dom)
    (hc : c < prod f.cod) : f.dagger.mat c r = star (f.mat r c) :=
  Tensor.dagger_matrix f hf hr hc

theorem dagger_wf (f : Tensor R) (hf : f.WF) :
    f.dagger.WF ∧ f.dagger.dom = f.cod ∧ f.dagger.cod = f.dom :=
  ⟨Tensor.dagger_wf f hf, rfl, rfl⟩

theorem dagger_dagger (f : Tensor R) (hf : f.WF) : f.dagger.dagger = f :=
  Tensor.dagger_dagger f hf

theorem dagger_then (f g t : Tensor R) (hf : f.WF) (hg : g.WF) (h : f.then g = .ok t) :
    g.dagger.then f.dagger = .ok t.dagger := by
  obtain ⟨c, rfl⟩ := then_eq_ok h
  rw [then_ok (by simp [c]), Tensor.dagger_then f g hf hg c]

theorem dagger_tensor (f g : Tensor R) (hf : f.WF) (hg : g.WF) :
    (f.tensor g).dagger = f.dagger.tensor g.dagger :=
  Tensor.dagger_tensor f g hf hg

theorem dagger_id (d : List Nat) : (Tensor.id (R := R) d).dagger = Tensor.id d :=
  Tensor.dagger_id d

/-! ### cups, caps, snake equations -/

/-- `Tensor.cups(Dim(n), Dim(n))` exists, is well-formed and is a Kronecker delta. -/
theorem cups_single_entry (n : Nat) {i j : List Nat} (hi : InRange [n] i) (hj : InRange [n] j) :
    ∃ cup : Tensor R, Tensor.cups [n] [n] = .ok cup ∧ cup.WF ∧ cup.dom = [n, n] ∧ cup.cod = [] ∧
      cup.entry ((i ++ j) ++ []) = if i = j then 1 else 0 :=
  ⟨_, cups_single n, cupFactory_wf [n], rfl, rfl, cupFactory_entry [n] hi hj⟩

/-- First snake equation for a single wire of any dimension:
    `(caps ⊗ id) ≫ (id ⊗ cups) = id`. -/
theorem snake_l_single (n : Nat) (cup cap : Tensor R)
    (h1 : Tensor.cups [n] [n] = .ok cup) (h2 : Tensor.caps [n] [n] = .ok cap) :
    (cap.tensor (Tensor.id [n])).then ((Tensor.id [n]).tensor cup) = .ok (Tensor.id [n]) := by
  rw [cups_single] at h1; rw [caps_single] at h2
  cases h1; cases h2
  rw [then_ok (by rfl), Tensor.snake_l [n]]

/-- Second snake equation for a single wire: `(id ⊗ caps) ≫ (cups ⊗ id) = id`. -/
theorem snake_r_single (n : Nat) (cup cap : Tensor R)
    (h1 : Tensor.cups [n] [n] = .ok cup) (h2 : Tensor.caps [n] [n] = .ok cap) :
    ((Tensor.id [n]).tensor cap).then (cup.tensor (Tensor.id [n])) = .ok (Tensor.id [n]) := by
  rw [cups_single] at h1; rw [caps_single] at h2
  cases h1; cases h2
  rw [then_ok (by rfl), Tensor.snake_r [n]]

/-- `Tensor.cups(l, r)` is defined exactly for adjoint dimension tuples (`r = l[::-1]`,
    tensor.py:79-84), and is then a well-formed tensor `l ⊗ r → 1` whose entries are the
    Kronecker delta `a = reversed(b)` (closed form of the nested loop of rigid.py:449-454). -/
theorem cups_spec (l r : List Nat) :
    (r ≠ l.reverse → Tensor.cups (R := R) l r = .error .axiom) ∧
    (r = l.reverse → ∃ t, Tensor.cups (R := R) l r = .ok t ∧ t.WF ∧ t.dom = l ++ r ∧ t.cod = [] ∧
      ∀ a b, InRange l a → InRange r b →
        t.entry ((a ++ b) ++ []) = if a = b.reverse then 1 else 0) := by
  refine ⟨(Tensor.cups_spec l r).2, ?_⟩
  rintro rfl
  exact Tensor.cups_entry l

/-- **Both snake equations for cups and caps of EVERY (multi-wire) dimension tuple**:
    `(id_l ⊗ caps(l.r, l)) ≫ (cups(l, l.r) ⊗ id_l) = id_l` and
    `(caps(l, l.r) ⊗ id_l) ≫ (id_l ⊗ cups(l.r, l)) = id_l`, with `l.r = l[::-1]`. -/
theorem snake_multiwire (l : List Nat) (cup cap cup' cap' : Tensor R)
    (h1 : Tensor.cups l l.reverse = .ok cup) (h2 : Tensor.caps l.reverse l = .ok cap)
    (h3 : Tensor.cups l.reverse l = .ok cup') (h4 : Tensor.caps l l.reverse = .ok cap') :
    ((Tensor.id l).tensor cap).then (cup.tensor (Tensor.id l)) = .ok (Tensor.id l) ∧
    (cap'.tensor (Tensor.id l)).then ((Tensor.id l).tensor cup') = .ok (Tensor.id l) := by
  obtain ⟨c1, c2, e1, e2, e3⟩ := Tensor.snake_multi (R := R) l
  obtain ⟨c3, c4, e4, e5, e6⟩ := Tensor.snake_multi' (R := R) l
  rw [h1] at e1; rw [h2] at e2; rw [h4] at e4; rw [h3] at e5
  cases e1; cases e2; cases e4; cases e5
  have hd1 := (Tensor.cups_ok h1)
  have hd3 := (Tensor.cups_ok h3)
  have hd2 := (Tensor.caps_ok h2)
  have hd4 := (Tensor.caps_ok h4)
  refine ⟨?_, ?_⟩
  · rw [then_ok (by simp [hd1.2.1, hd2.2.2, List.append_assoc]), e3]
  · rw [then_ok (by simp [hd3.2.1, hd4.2.2, List.append_assoc]), e6]

end star

/-! ### calling conventions: n-ary `then` / `tensor`, Sum fallback, map -/

section nary
variable {R : Type} [CommSemiring R] [DecidableEq R]

/-- **`f.then(g₁, …, g_k)` is the iterated binary composition** `((f >> g₁) >> …) >> g_k`
    (the first failing step raises; `f.then()` is `f`), for every number of arguments. -/
theorem thenN_eq_foldl (f : Tensor R) (gs : List (Tensor R)) :
    TVal.thenArgs (.t f) (gs.map .t)
      = TVal.liftT (gs.foldlM (fun acc g => acc.then g) f) :=
  TVal.thenArgs_tensors f gs

/-- **`f.tensor(g₁, …, g_k)` is the iterated binary tensor** `((f @ g₁) @ …) @ g_k`
    (`f.tensor()` is `f`), for every number of arguments. -/
theorem tensorN_eq_foldl (f : Tensor R) (gs : List (Tensor R)) :
    TVal.tensorArgs (.t f) (gs.map .t) = .ok (.t (gs.foldl Tensor.tensor f)) :=
  TVal.tensorArgs_tensors f gs

/-- The n-ary tensor of well-formed tensors is well-formed, of type
    `dom f ⊗ dom g₁ ⊗ … → cod f ⊗ cod g₁ ⊗ …`. -/
theorem tensorN_wf (f : Tensor R) (gs : List (Tensor R)) (hf : f.WF) (hgs : ∀ g ∈ gs, g.WF) :
    ∃ t, TVal.tensorArgs (.t f) (gs.map .t) = .ok (.t t) ∧ t.WF ∧
      t.dom = f.dom ++ (gs.map (·.dom)).flatten ∧ t.cod = f.cod ++ (gs.map (·.cod)).flatten :=
  ⟨_, tensorN_eq_foldl f gs, Tensor.foldl_tensor_wf f gs hf hgs⟩

/-- `f.tensor(g, g₁, …, g_k) = f @ g.tensor(g₁, …, g_k)`. -/
theorem tensorN_assoc (f g t : Tensor R) (gs : List (Tensor R)) (hf : f.WF) (hg : g.WF)
    (hgs : ∀ x ∈ gs, x.WF) (h : TVal.tensorArgs (.t g) (gs.map .t) = .ok (.t t)) :
    TVal.tensorArgs (.t f) ((g :: gs).map .t) = .ok (.t (f.tensor t)) := by
  rw [tensorN_eq_foldl] at h
  cases h
  rw [tensorN_eq_foldl, Tensor.foldl_tensor_assoc f g gs hf hg hgs]

/-- **`f.tensor(g, h)` is the Kronecker product of the three matrices.** -/
theorem tensorN_kron3 (f g h t : Tensor R) (hf : f.WF) (hg : g.WF) (hh : h.WF)
    (ht : TVal.tensorArgs (.t f) [.t g, .t h] = .ok (.t t))
    {r1 r2 r3 c1 c2 c3 : Nat}
    (h1 : r1 < prod f.dom) (h2 : r2 < prod g.dom) (h3 : r3 < prod h.dom)
    (k1 : c1 < prod f.cod) (k2 : c2 < prod g.cod) (k3 : c3 < prod h.cod) :
    t.mat ((r1 * prod g.dom + r2) * prod h.dom + r3) ((c1 * prod g.cod + c2) * prod h.cod + c3)
      = f.mat r1 c1 * g.mat r2 c2 * h.mat r3 c3 := by
  have := tensorN_eq_foldl f [g, h]
  simp only [List.map_cons, List.map_nil] at this
  rw [this] at ht
  cases ht
  exact Tensor.tensor3_kron f g h hf hg hh h1 h2 h3 k1 k2 k3

/-- The fallback of `Tensor.then` for a `tensor.Sum` of composable terms returns the
    `monoidal.Sum` of the binary composites (without those that are all zero). -/
theorem then_sum_fallback (f : Tensor R) (S : TSum R) (h : S.kind = .tensor)
    (hS : ∀ g ∈ S.terms, g.dom = f.cod) :
    TVal.then1 (.t f) (.s S) = .ok (.s ⟨.monoidal, f.dom, S.cod,
      (S.terms.map (fun g => Tensor.thenCore f g)).filter (fun t => !t.isZero)⟩) :=
  TVal.then1_tensor_sum f S h hS

theorem tensor_sum_fallback (f : Tensor R) (S : TSum R) (h : S.kind = .tensor) :
    TVal.tensor1 (.t f) (.s S) = .ok (.s ⟨.monoidal, f.dom ++ S.dom, f.cod ++ S.cod,
      (S.terms.map (fun g => f.tensor g)).filter (fun t => !t.isZero)⟩) :=
  TVal.tensor1_tensor_sum f S h

/-- A `monoidal.Sum` — the class of what the fallback returns — is refused as an argument. -/
theorem monoidal_sum_refused (f : Tensor R) (S : TSum R) (h : S.kind = .monoidal) :
    TVal.then1 (.t f) (.s S) = .error .type ∧ TVal.tensor1 (.t f) (.s S) = .error .type :=
  TVal.then1_monoidal_sum f S h

/-- Dropping the all-zero terms (`cat.Sum.__add__`: `if other == 0: return self`) does not
    change the entrywise value of a sum. -/
theorem sum_drop_zero_entry (kind : SumKind) (dom cod : List Nat) (ts : List (Tensor R))
    (i : List Nat) :
    (((TSum.collect kind dom cod ts).terms.map (fun t => t.entry i)).sum : R)
      = (ts.map (fun t => t.entry i)).sum :=
  Tensor.collect_entry_sum kind dom cod ts i

/-- `Tensor.map` applies the function to every entry and keeps the type. -/
theorem map_entry (φ : R → R) (f : Tensor R) (hf : f.WF) {i : List Nat}
    (hi : InRange (f.dom ++ f.cod) i) :
    (f.map φ).WF ∧ (f.map φ).entry i = φ (f.entry i) :=
  ⟨Tensor.map_wf φ f hf, Tensor.map_entry φ f hf hi⟩

end nary

/-! ### non-vacuity: concrete well-formed tensors over `GaussInt` with unequal dims, a scalar
    and a multi-wire type; the hypotheses of the theorems are met, and the model computes what
    the theorems say (finite checks by `decide`, support only). -/

def f0 : Tensor GaussInt := ⟨[2], [3], ⟨[2, 3], #[⟨1, 0⟩, ⟨0, 1⟩, ⟨2, 0⟩, ⟨0, 0⟩, ⟨1, -1⟩, ⟨3, 0⟩]⟩⟩
def g0 : Tensor GaussInt := ⟨[3], [2, 2], ⟨[3, 2, 2],
  #[⟨1, 0⟩, ⟨0, 0⟩, ⟨0, 1⟩, ⟨1, 0⟩, ⟨2, 0⟩, ⟨0, 0⟩, ⟨0, 0⟩, ⟨1, 1⟩, ⟨0, 0⟩, ⟨1, 0⟩, ⟨1, 0⟩, ⟨0, 0⟩]⟩⟩
def s0 : Tensor GaussInt := ⟨[], [], ⟨[1], #[⟨0, 2⟩]⟩⟩

example : f0.WF ∧ g0.WF ∧ s0.WF := by decide
example : f0.cod = g0.dom := rfl
example : ∃ t, f0.then g0 = .ok t := (then_ok_iff f0 g0).2 rfl
example : g0.then f0 = .error .axiom := (then_error_iff g0 f0).2 (by decide)
example : InRange f0.dom [1] ∧ InRange g0.cod [1, 1] := by simp [f0, g0]
/-- the model's `>>` on `f0`, `g0` really computes the sum of `then_entry` (finite check) -/
example : (thenCore f0 g0).entry ([1] ++ [1, 1]) = ⟨2, 0⟩ := by decide
example : (f0.tensor s0).entry (([0] ++ []) ++ ([1] ++ [])) = ⟨-2, 0⟩ := by decide
example : (Tensor.swap (R := GaussInt) [2] [3]).entry (([1] ++ [2]) ++ ([2] ++ [1])) = 1 := by
  decide
/-- `dagger_entry` applied to `f0`: its hypotheses hold, its right-hand side is computed -/
example : f0.dagger.entry ([1] ++ [0]) = ⟨0, -1⟩ := by
  rw [dagger_entry f0 (by decide) (i := [0]) (k := [1]) (by simp [f0]) (by simp [f0])]
  decide
example : ∃ cup : Tensor GaussInt, Tensor.cups [3] [3] = .ok cup := ⟨_, cups_single 3⟩

/-! n-ary forms on `f0 : 2 → 3`, `g0 : 3 → 2 ⊗ 2`, the scalar `s0` -/
def h0 : Tensor GaussInt := ⟨[2, 2], [2], ⟨[2, 2, 2],
  #[⟨1, 0⟩, ⟨0, 0⟩, ⟨0, 0⟩, ⟨0, 1⟩, ⟨1, 1⟩, ⟨0, 0⟩, ⟨2, 0⟩, ⟨-1, 0⟩]⟩⟩
example : h0.WF := by decide
/-- `f0.then(g0, h0)` composes (the hypotheses of `thenN_eq_foldl` are met non-trivially) … -/
example : ∃ t, TVal.thenArgs (.t f0) [.t g0, .t h0] = .ok (.t t) ∧ t.dom = [2] ∧ t.cod = [2] := by
  refine ⟨thenCore (thenCore f0 g0) h0, ?_, rfl, rfl⟩
  have := thenN_eq_foldl f0 [g0, h0]
  simp only [List.map_cons, List.map_nil] at this
  rw [this]
  rfl
/-- … `f0.then(h0)` is refused, also in the middle of an argument list … -/
example : TVal.thenArgs (.t f0) [.t g0, .t f0, .t h0] = .error .axiom := by decide
/-- … `f0.then()` and `f0.tensor()` are `f0` … -/
example : TVal.thenArgs (.t f0) [] = .ok (.t f0) ∧ TVal.tensorArgs (.t f0) [] = .ok (.t f0) :=
  ⟨rfl, rfl⟩
/-- … and an entry of `f0.tensor(g0, h0)` is the product of the three entries (`tensorN_kron3`
    at row ((1, 2), 3), column ((2, 1), 0)): 3 · (1+i) · (-1). -/
example : ([g0, h0].foldl Tensor.tensor f0).mat ((1 * 3 + 2) * 4 + 3) ((2 * 4 + 1) * 2 + 1)
    = f0.mat 1 2 * g0.mat 2 1 * h0.mat 3 1 :=
  Tensor.tensor3_kron f0 g0 h0 (by decide) (by decide) (by decide) (by decide) (by decide)
    (by decide) (by decide) (by decide) (by decide)
example : f0.mat 1 2 * g0.mat 2 1 * h0.mat 3 1 = (⟨-3, 0⟩ : GaussInt) := by decide
/-- the Sum fallback on a `tensor.Sum` with an all-zero term: the term is dropped -/
example : TVal.then1 (.t f0) (.s ⟨.tensor, [3], [2, 2], [g0, Tensor.zeros [3] [2, 2]]⟩)
    = .ok (.s ⟨.monoidal, [2], [2, 2], [thenCore f0 g0]⟩) := by decide +kernel

end DV.C08
