/-
  Props/C08.lean — tensors form a dagger compact-closed category of matrices.
  (being filled in; see Proofs/Tensor*.lean)
-/
import Model.Tensor

namespace DV.C08
open DV

/-- `>>` on tensors is refused exactly when the types differ (tensor.py:183-184). -/
theorem then_error_iff {R} [Add R] [Mul R] [Zero R] [One R] (f g : Tensor R) :
    f.then g = .error .axiom ↔ f.cod ≠ g.dom := by
  unfold Tensor.then; split <;> simp_all

end DV.C08
