/-
  Props/C12.lean — C12 "Mixed evaluation agrees with pure evaluation and the Born rule".

  All theorems are about the executable model `Model/CQ.lean` (classical-quantum maps of
  cqmap.py, the two functors of circuit.py), for EVERY commutative star-ring `R` (conjugation :=
  `star`; e.g. ℂ) and every dimension.  `A ≈ B` is observable equality: same type, same entries
  (what `CQMap.__eq__`/the array shows); `=` is used where the maps agree as functions.

  PARTIAL.  Proved, in general dimension:
    * doubling is a monoidal functor: `pure_then`, `pure_tensor` (the latter is the mixed-product
      property through the block permutation of `CQMap.tensor`, made explicit by
      `cq_tensor_blocks`), `cq_interchange`, and clause (a) for whole
      circuits, `pure_circuit_doubled` / `eval_pure_vs_mixed`: the mixed evaluation of a circuit
      of kets, bras, gates, swaps and scalars is `ū ⊗ u` for its pure evaluation `u`;
    * the Born rule `measure_pure` (+ the non-destructive variant, + multi-wire measurements are
      the measurement of the flattened index), `discard_pure`, `discard_unitary`,
      `discard_marginal`;
    * classical weights: a wire-less non-mixed box is classical (`wireless_box_is_classical`),
      read by its value (`classical_weight_entry`), and weighting is linear (`weight_tensor`);
    * adjoints: `encode_is_measure_dagger`, `mixedstate_is_discard_dagger` for every variant (these
      are how the code defines them), `dagger_involutive`, `dagger_then`, `dagger_tensor`,
      `dagger_pure`;
    * `trace_preserving`: a well-typed circuit whose boxes are state preparations / unitaries
      (pure isometries, also flagged daggers of unitaries), measurements (destructive or not,
      overriding bits or not), discards, stochastic classical gates and swaps evaluates — without
      error — to a trace-preserving map; `tp_then`, `tp_tensor`; `distribution_normalised`.
      Global phases (pure scalar boxes of modulus one, `phase_box_listed`, `phase_box_tp`) are in
      the list: unitaries on no qubit.
    * square-root scalars: `sqrt(z)` is the pure scalar box of a root `r` of `z`; it doubles to
      `conj r · r` (`sqrt_box_doubled`), a square root of `|z|²` (`sqrt_box_doubled_sq`) — `1` for
      `sqrt(-1)`, not `-1` (`sqrt_minus_one`); covered by `pure_circuit_doubled` and
      `eval_mixed_flag` through `scalar_box_pure` / `LBox.NonMixed.scalar`.
    * mixed scalars (`MixedScalar(z)`, `scalar(z, is_mixed=True)`): the weight `z` itself, not `|z|²`
      (`mixed_scalar_entry`); the scalar box of the conjugate value with the SAME `is_mixed` flag —
      what `Scalar.dagger` returns — is the adjoint, pure or mixed (`scalar_dagger_adjoint`,
      `scalar_dagger_dagger`); with the flag forgotten it is not (example over ℤ[i]).
    * the `mixed=True` flag on circuits WITHOUT mixed boxes, whatever `is_mixed` says
      (`eval_mixed_flag`): the mixed evaluation of a well-typed circuit of classical gates on bits
      (Bits, ClassicalGate, Copy, Match, weights, flagged daggers), quantum boxes on qubits, pure
      scalars and swaps — bits and qubits interleaved in any way, or never on the same layer, as
      in `(Bits(1) >> flip >> marginal) @ (Ket(0) >> H)` for which `is_mixed` is False — is
      `a ⊗ ū ⊗ u` (`CQMap.hybrid`): `a` the plain evaluation of the classical part over the bit
      wires, read as it is (a diagonal classical-quantum map, `double_is_classical_tensor_pure`),
      `u` the plain evaluation of the quantum part over the qubit wires, doubled.  It is NOT a
      function of the plain evaluation `a·u` of the whole circuit (`flag_is_not_a_wrapper`).
      `double_then`, `double_tensor`: such maps are closed under `≫` and `⊗`;
      `eval_flag_false_not_mixed`: without the flag a circuit that is not mixed is contracted
      as a plain tensor;
  NOT proved (kept below as `Prop`s that no theorem claims; checked by the oracle and the
  correspondence on every run):
    * `C12_counts_glue`: `get_counts()`/`measure()` glue (`init_and_discard`, reading the array) —
      the model transcribes it (`Circuit.getCounts`, `Circuit.measure`, at the exact ring) but no
      theorem is claimed; non-negativity of the outcome weights needs an ordered field.
  Taken at their specification (validated by the correspondence streams): the swap network of
  `CQMap.tensor` (cqmap.py:167-186) = the block permutation; `Tensor.then/tensor/dagger/swap` =
  matrix product / Kronecker product / conjugate transpose / block swap (C08); `tensor.Functor` =
  ordered product of `1 ⊗ box ⊗ 1` (C09).  The driver's exact ring ℤ[ζ₈][1/2] is not proved to be
  a commutative star-ring (the theorems are not about it in particular).
-/
import Proofs.CQ
import Proofs.CQSplit
import Proofs.CQCounts
import Proofs.CQInitDiscard
import Mathlib.NumberTheory.Zsqrtd.GaussianInt

namespace DV.C12
open DV DV.CQ

variable {R : Type} [CommRing R] [StarRing R]

/-! ## doubling -/

/-- `pure (u ≫ v) = pure u ≫ pure v`. -/
theorem pure_then (d m e : List Nat) (u v : Mat R) (h : u.c = prodL m) :
    CQMap.pure d e (u.comp v) = (CQMap.pure d m u).comp (CQMap.pure m e v) :=
  CQMap.pure_comp d m e u v h

/-- `pure (u ⊗ v) = pure u ⊗ pure v`, where the right-hand `⊗` is `CQMap.tensor` (Kronecker
    product between the block permutations `[q₀ q₀' q₁ q₁'] ↔ [q₀ q₁ q₀' q₁']`). -/
theorem pure_tensor (d e d' e' : List Nat) (u v : Mat R) (hr : v.r = prodL d') (hc : v.c = prodL e') :
    CQMap.pure (d ++ d') (e ++ e') (u.kron v) = (CQMap.pure d e u).tensor (CQMap.pure d' e' v) :=
  CQMap.pure_tensor d e d' e' u v hr hc

/-- `CQMap.tensor` (cqmap.py:163-186) is the Kronecker product of the underlying tensors between
    the block permutations `[c₀ c₁ q₀ q₁ q₀' q₁'] ↔ [c₀ q₀ q₀' c₁ q₁ q₁']` of domain and codomain. -/
theorem cq_tensor_blocks (A B : CQMap R) {c0 q0 p0 c1 q1 p1 c0' q0' p0' c1' q1' p1' : Nat}
    (hq0 : q0 < A.dom.Q) (hp0 : p0 < A.dom.Q) (hc1 : c1 < B.dom.C) (hq1 : q1 < B.dom.Q)
    (hp1 : p1 < B.dom.Q) (hq0' : q0' < A.cod.Q) (hp0' : p0' < A.cod.Q) (hc1' : c1' < B.cod.C)
    (hq1' : q1' < B.cod.Q) (hp1' : p1' < B.cod.Q) :
    (A.tensor B).f (c0 * B.dom.C + c1) (q0 * B.dom.Q + q1) (p0 * B.dom.Q + p1)
        (c0' * B.cod.C + c1') (q0' * B.cod.Q + q1') (p0' * B.cod.Q + p1') =
      (A.toMat.kron B.toMat).f
        (CQMap.flat A.dom.Q c0 q0 p0 * B.dom.size + CQMap.flat B.dom.Q c1 q1 p1)
        (CQMap.flat A.cod.Q c0' q0' p0' * B.cod.size + CQMap.flat B.cod.Q c1' q1' p1') :=
  CQMap.tensor_blocks A B hq0 hp0 hc1 hq1 hp1 hq0' hp0' hc1' hq1' hp1'

/-- The interchange law of classical-quantum maps (mixed-product property of `CQMap.tensor`). -/
theorem cq_interchange (A A' B B' : CQMap R) (h : B.cod = B'.dom) :
    (A.tensor B).comp (A'.tensor B') = (A.comp A').tensor (B.comp B') :=
  CQMap.interchange A A' B B' h

/-- Clause (a): a well-typed circuit on qudits whose boxes are pure (`LBox.Pure`: quantum boxes,
    flagged daggers, pure scalars, swaps — see the three lemmas below) evaluates, as a
    classical-quantum map, to the doubled map of its pure evaluation. -/
theorem pure_circuit_doubled (c : Circuit R) (hdom : allQ c.dom) (hWT : WT c.dom c.boxes)
    (hb : ∀ ob ∈ c.boxes, ob.2.Pure) :
    ∃ m, c.evalMixed = .ok m ∧ m ≈ CQMap.pure (dims c.dom) (dims c.cod) c.evalPure :=
  Circuit.eval_doubled c hdom hWT hb

theorem quantum_box_pure (dag : Bool) (d c : WTy) (u : Mat R) (hd : allQ d) (hc : allQ c)
    (hr : u.r = prodL (dims d)) (hcc : u.c = prodL (dims c)) : LBox.Pure ⟨dag, .quantum d c u⟩ :=
  LBox.Pure.quantum dag d c u hd hc hr hcc

theorem scalar_box_pure (dag : Bool) (z : R) : LBox.Pure ⟨dag, .scalar false z⟩ :=
  LBox.Pure.scalar dag z

theorem swap_box_pure (l r : WTy) (hl : allQ l) (hr : allQ r) : LBox.Pure (R := R) ⟨false, .swap l r⟩ :=
  LBox.Pure.swap l r hl hr

/-- The same at the level of `Circuit.eval` (circuit.py:251-253): a circuit that is not mixed is
    evaluated by the tensor functor, and `eval(mixed=True)` gives its doubled map. -/
theorem eval_pure_vs_mixed (c : Circuit R) (hdom : allQ c.dom) (hWT : WT c.dom c.boxes)
    (hb : ∀ ob ∈ c.boxes, ob.2.Pure) (hm : c.isMixed = false) :
    (∃ v, c.eval false = .ok v ∧ v = Value.tensor (dims c.dom) (dims c.cod) c.evalPure) ∧
    ∃ m, c.eval true = .ok (.cq m) ∧ m ≈ CQMap.pure (dims c.dom) (dims c.cod) c.evalPure := by
  obtain ⟨m, hm1, hm2⟩ := Circuit.eval_doubled c hdom hWT hb
  refine ⟨⟨_, ?_, rfl⟩, m, ?_, hm2⟩
  · simp [Circuit.eval, hm]
  · simp [Circuit.eval, hm1]

/-! ## the `mixed=True` flag on circuits without mixed boxes -/

/-- The classical-quantum map `a ⊗ ū ⊗ u` ("double" with a classical part): its entries. -/
theorem double_entry (d e : CQTy) (a u : Mat R) (c q p c' q' p' : Nat) :
    (CQMap.hybrid d e a u).f c q p c' q' p' = a.f c c' * (star (u.f q q') * u.f p p') := rfl

/-- It is the tensor of classical-quantum maps (cqmap.py:163-186) of the classical map `a`
    (`CQMap.classical`: the classical part read as it is) and the doubled `u` (`CQMap.pure`). -/
theorem double_is_classical_tensor_pure (dc ec dq eq : List Nat) (a u : Mat R) :
    CQMap.hybrid ⟨dc, dq⟩ ⟨ec, eq⟩ a u ≈ (CQMap.classical dc ec a).tensor (CQMap.pure dq eq u) :=
  CQMap.hybrid_eq_classical_tensor_pure dc ec dq eq a u

/-- Such maps compose part by part … -/
theorem double_then (d m e : CQTy) (a u a' u' : Mat R) (ha : a.c = m.C) (hu : u.c = m.Q) :
    (CQMap.hybrid d m a u).comp (CQMap.hybrid m e a' u') =
      CQMap.hybrid d e (a.comp a') (u.comp u') :=
  CQMap.hybrid_comp d m e a u a' u' ha hu

/-- … and their tensor (through the block permutation of `CQMap.tensor`, which sorts the
    classical wires of both factors before the quantum ones) is taken part by part. -/
theorem double_tensor (d e d' e' : CQTy) (a u a' u' : Mat R)
    (har : a'.r = d'.C) (hac : a'.c = e'.C) (hur : u'.r = d'.Q) (huc : u'.c = e'.Q) :
    (CQMap.hybrid d e a u).tensor (CQMap.hybrid d' e' a' u') =
      CQMap.hybrid (d.tensor d') (e.tensor e') (a.kron a') (u.kron u') :=
  CQMap.hybrid_tensor d e d' e' a u a' u' har hac hur huc

/-- One layer `id ⊗ box ⊗ id` around a box that is not mixed, between ANY types. -/
theorem layer_classical_times_doubled (l r : WTy) (b : LBox R) (hb : b.NonMixed) :
    layerMap l b r ≈
      CQMap.hybrid (F (l ++ b.dom ++ r)) (F (l ++ b.cod ++ r)) (layerC l b r) (layerQ l b r) :=
  layer_split l r b hb.split

/-- **eval_mixed_flag**: `eval(mixed=True)` (circuit.py:251-253) of a well-typed circuit whose
    boxes are not mixed (`LBox.NonMixed`: classical gates on bits, quantum boxes on qubits, pure
    scalars, swaps) is the classical part `a = evalClassical` read as it is next to the doubled
    quantum part `u = evalQuantum` — there is no hypothesis on `is_mixed`: the flag alone selects
    the classical-quantum functor, also when bits and qubits never share a layer. -/
theorem eval_mixed_flag (c : Circuit R) (hWT : WT c.dom c.boxes)
    (hb : ∀ ob ∈ c.boxes, ob.2.NonMixed) :
    ∃ m, c.eval true = .ok (.cq m) ∧
      m ≈ CQMap.hybrid (F c.dom) (F c.cod) c.evalClassical c.evalQuantum := by
  obtain ⟨m, hm1, hm2⟩ := Circuit.eval_split c hWT (fun ob hob => (hb ob hob).split)
  exact ⟨m, by simp [Circuit.eval, hm1], hm2⟩

/-- Without the flag, a circuit that is not mixed is contracted as a plain tensor. -/
theorem eval_flag_false_not_mixed (c : Circuit R) (hm : c.isMixed = false) :
    c.eval false = .ok (.tensor (dims c.dom) (dims c.cod) c.evalPure) := by
  simp [Circuit.eval, hm]

/-! ## Born rule, discarding -/

/-- Measuring after a pure map gives `ūₖ uₖ`; for a state `ψ` (`d = []`, `q = p = 0`) the outcome
    `k` has weight `|ψₖ|² = star ψₖ * ψₖ`.  `e` is any list of wire dimensions. -/
theorem measure_pure (d e : List Nat) (u : Mat R) {k : Nat} (hk : k < prodL e) (c q p q' p' : Nat) :
    ((CQMap.pure d e u).comp (CQMap.measure e true)).f c q p k q' p' = star (u.f q k) * u.f p k :=
  CQMap.born d e u hk c q p q' p'

/-- Non-destructive measurement: the outcome `k` and the collapsed copy `(l, m)`. -/
theorem measure_pure_nondestructive (d e : List Nat) (u : Mat R) {k l m : Nat} (hk : k < prodL e)
    (hl : l < prodL e) (hm : m < prodL e) (c q p : Nat) :
    ((CQMap.pure d e u).comp (CQMap.measure e false)).f c q p k l m =
      iv (k = l ∧ l = m) * (star (u.f q k) * u.f p k) :=
  CQMap.born_nondestructive d e u hk hl hm c q p

/-- The recursion `measure(dim[:1]) @ measure(dim[1:])` of cqmap.py:216 through the block
    permutation is the measurement of the flattened index. -/
theorem measure_multiwire (ds : List Nat) {q p k : Nat} (c q' p' : Nat)
    (hq : q < prodL ds) (hp : p < prodL ds) (hk : k < prodL ds) :
    (CQMap.measure ds true : CQMap R).f c q p k q' p' = iv (q = p ∧ p = k) :=
  CQMap.measure_flat_destructive ds c q' p' hq hp hk

/-- Discarding after a pure map: `Σₖ ūₖ uₖ` (for a state, `Σ |ψₖ|²`). -/
theorem discard_pure (d e : List Nat) (u : Mat R) (c q p c' q' p' : Nat) :
    ((CQMap.pure d e u).comp (CQMap.discard (.ofQ e))).f c q p c' q' p' =
      sumN (prodL e) fun k => star (u.f q k) * u.f p k :=
  CQMap.discard_pure d e u c q p c' q' p'

/-- `U Uᴴ = 1` (in the `array[input, output]` convention of tensor.py: the operator is an
    isometry) implies `pure U ≫ discard = discard`. -/
theorem discard_unitary (d e : List Nat) (u : Mat R) (hr : u.r = prodL d) (hc : u.c = prodL e)
    (hu : u.comp u.dagger ≈ₘ Mat.id u.r) :
    (CQMap.pure d e u).comp (CQMap.discard (.ofQ e)) ≈ CQMap.discard (.ofQ d) :=
  CQMap.discard_isometry d e u hr hc hu

/-- Discarding the factor `B` of a map into `A ⊗ B` gives the marginal: the classical index of
    `B` is summed, its quantum index traced. -/
theorem discard_marginal (ρ : CQMap R) (A B : CQTy) (h : ρ.cod = A.tensor B) {ca qa pa : Nat}
    (hc : ca < A.C) (hq : qa < A.Q) (hp : pa < A.Q) (c q p : Nat) :
    (ρ.comp ((CQMap.id A).tensor (CQMap.discard B))).f c q p ca qa pa =
      sum3 B.C B.Q fun x y z =>
        ρ.f c q p (ca * B.C + x) (qa * B.Q + y) (pa * B.Q + z) * iv (y = z) :=
  CQMap.discard_marginal ρ A B h hc hq hp c q p

/-! ## classical weights -/

/-- A box that is not mixed and has no wire at all is classified as classical (the all-Digit
    test of `Box.__init__` comes first): `ClassicalGate(name, 0, 0, [w])` is a weight. -/
theorem wireless_box_is_classical (u : Mat R) :
    CBox.ofNonMixed [] [] u = .ok (.classical [] [] u) := rfl

/-- … and it is interpreted by its value, not by the squared magnitude. -/
theorem classical_weight_entry (u : Mat R) :
    (CBox.classical [] [] u : CBox R).ar.f 0 0 0 0 0 0 = u.f 0 0 := rfl

/-- Weighting is linear: `w ⊗ A` has the entries of `A` multiplied by `w`. -/
theorem weight_tensor (w : R) (A : CQMap R) {c q p c' q' p' : Nat} (hc : c < A.dom.C)
    (hq : q < A.dom.Q) (hp : p < A.dom.Q) (hc' : c' < A.cod.C) (hq' : q' < A.cod.Q)
    (hp' : p' < A.cod.Q) :
    ((CQMap.scalar w).tensor A).f c q p c' q' p' = w * A.f c q p c' q' p' := by
  rw [CQMap.tensor_f]
  show w * _ = _
  rw [Nat.mod_eq_of_lt hc, Nat.mod_eq_of_lt hq, Nat.mod_eq_of_lt hp, Nat.mod_eq_of_lt hc',
    Nat.mod_eq_of_lt hq', Nat.mod_eq_of_lt hp']

/-! ## adjoints -/

/-- `Encode(n, constructive, reset_bits)` is interpreted as the adjoint of
    `Measure(n, destructive := constructive, override_bits := reset_bits)`: every variant. -/
theorem encode_is_measure_dagger (n : Nat) (a b : Bool) :
    (CBox.encode n a b : CBox R).ar = (CBox.measure n a b : CBox R).ar.dagger := rfl

theorem cq_encode_is_measure_dagger (ds : List Nat) (a : Bool) :
    (CQMap.encode ds a : CQMap R) = (CQMap.measure ds a).dagger := rfl

/-- `MixedState(t)` is interpreted as the adjoint of `Discard(t)`. -/
theorem mixedstate_is_discard_dagger (t : WTy) :
    (CBox.mixedState t : CBox R).ar = (CBox.discard t : CBox R).ar.dagger := rfl

/-- The adjoint is the conjugate transpose, and an involution: so `Measure`/`Discard` are in turn
    the adjoints of `Encode`/`MixedState`. -/
theorem dagger_entry (A : CQMap R) (c q p c' q' p' : Nat) :
    A.dagger.f c q p c' q' p' = star (A.f c' q' p' c q p) := rfl

theorem dagger_involutive (A : CQMap R) : A.dagger.dagger = A := CQMap.dagger_dagger A

theorem dagger_then (A B : CQMap R) (h : A.cod = B.dom) :
    (A.comp B).dagger = B.dagger.comp A.dagger := CQMap.dagger_comp A B h

theorem dagger_tensor (A B : CQMap R) : (A.tensor B).dagger = A.dagger.tensor B.dagger :=
  CQMap.dagger_tensor A B

theorem dagger_pure (d e : List Nat) (u : Mat R) :
    (CQMap.pure d e u).dagger = CQMap.pure e d u.dagger := CQMap.dagger_pure d e u

/-! ## trace preservation -/

theorem tp_then {A B : CQMap R} (h : A.cod = B.dom) (hA : A.TP) (hB : B.TP) : (A.comp B).TP :=
  CQMap.TP_comp h hA hB

theorem tp_tensor {A B : CQMap R} (hA : A.TP) (hB : B.TP) : (A.tensor B).TP :=
  CQMap.TP_tensor hA hB

/-- Every listed box occurrence is trace preserving: preparations and unitaries (pure isometries,
    flagged daggers of unitaries), `Measure` in its four variants, `Discard`, stochastic classical
    gates, swaps. -/
theorem listed_box_tp {b : LBox R} (h : b.Listed) : b.eval.TP := h.tp

/-- **trace_preserving**: a well-typed circuit of listed boxes evaluates without error to a
    trace-preserving map of the expected type. -/
theorem trace_preserving (c : Circuit R) (hWT : WT c.dom c.boxes)
    (hb : ∀ ob ∈ c.boxes, ob.2.Listed) :
    ∃ m, c.evalMixed = .ok m ∧ m.TP ∧ m.dom = F c.dom ∧ m.cod = F c.cod :=
  Circuit.evalMixed_TP c hWT fun ob hob => ⟨(hb ob hob).typed, (hb ob hob).tp⟩

/-- The same for any list of trace-preserving maps placed in a circuit (composed and tensored
    with identities), whatever their kind. -/
theorem trace_preserving_of_tp_boxes (c : Circuit R) (hWT : WT c.dom c.boxes)
    (hb : ∀ ob ∈ c.boxes, ob.2.box.Typed ∧ ob.2.eval.TP) :
    ∃ m, c.evalMixed = .ok m ∧ m.TP ∧ m.dom = F c.dom ∧ m.cod = F c.cod :=
  Circuit.evalMixed_TP c hWT hb

/-- A trace-preserving map without inputs and with classical outputs is a normalised
    distribution: its entries sum to one. -/
theorem distribution_normalised (m : CQMap R) (h : m.TP) (hd : m.dom = .unit) (hc : m.cod.Q = 1) :
    sumN m.cod.C (fun x => m.f 0 0 0 x 0 0) = 1 := by
  have := (CQMap.TP_iff m).mp h 0 0 0 (by simp [hd]) (by simp [hd]) (by simp [hd])
  rw [hc] at this
  simpa [sum3, sumN_succ] using this

/-- NOT PROVED (oracle + correspondence only): the glue of `get_counts()` and `measure()`.  For a
    listed circuit, `get_counts()` lists exactly the non-zero entries of the distribution read
    off `init_and_discard().eval()`, `measure()` returns that distribution, and the entries are
    non-negative reals (stated here for the exact ring of the driver). -/
def C12_counts_glue : Prop :=
  ∀ (c : Circuit D8), WT c.dom c.boxes → (∀ ob ∈ c.boxes, ob.2.box.Typed) →
    ∃ m, c.initAndDiscard.evalMixed = .ok m ∧
      c.measure true = .ok (m.toList.map D8.re) ∧
      ∀ counts, c.getCounts = .ok counts →
        ∀ k x, (k, x) ∈ counts ↔ (m.toList[k]? = some x ∧ x ≠ 0)

/-- **`init_and_discard()` of a well-typed circuit of listed boxes is a normalised distribution**
    (circuit.py:175-188, any commutative star ring): the layer of `Bits(0)`/`Ket(0)` states and the
    layer of `Discard`s keep the circuit well typed (each box finds its domain at its offset), the
    added boxes are listed, so the mixed evaluation succeeds and is trace preserving, with no input
    and only the circuit's output bits as output — and its entries sum to one.  This is the
    distribution `get_counts()` and `measure()` read (`C12_counts_glue_partial` below). -/
theorem init_and_discard_distribution (c : Circuit R) (hWT : WT c.dom c.boxes)
    (hb : ∀ ob ∈ c.boxes, ob.2.Listed) (hd : Dim2 c.dom) (hc : Dim2 c.cod) :
    ∃ m, c.initAndDiscard.evalMixed = .ok m ∧ m.TP ∧ m.dom = .unit ∧
      m.cod = F (bitsOf c.cod) ∧ sumN m.cod.C (fun x => m.f 0 0 0 x 0 0) = 1 :=
  Circuit.initAndDiscard_distribution c hWT hb hd hc

/-- Non-vacuity: `H`-free but non-trivial — a qubit measured next to a bit that is kept
    (`Measure() @ Id(bit)`): well typed, listed, on bits and qubits. -/
example : let c : Circuit R := ⟨[.qubit 2, .bit 2], [(0, ⟨false, .measure 1 true false⟩)]⟩
    WT c.dom c.boxes ∧ (∀ ob ∈ c.boxes, ob.2.Listed) ∧ Dim2 c.dom ∧ Dim2 c.cod := by
  refine ⟨⟨rfl, trivial⟩, ?_, ?_, ?_⟩
  · intro ob h
    simp only [List.mem_cons, List.not_mem_nil, or_false] at h
    subst h
    exact .plain _ (.measure 1 true false)
  · intro w h
    simp only [List.mem_cons, List.not_mem_nil, or_false] at h
    rcases h with rfl | rfl <;> simp
  · intro w h
    have : w ∈ ([.bit 2, .bit 2] : WTy) := h
    simp only [List.mem_cons, List.not_mem_nil, or_false] at this
    rcases this with rfl | rfl <;> simp

omit [CommRing R] [StarRing R] in
/-- **counts glue, the part that is proved** (`C12_counts_glue_partial`): whenever the
    prepared-and-discarded circuit evaluates to a CQ map `m`, `measure(mixed=True)` is the list of
    the real parts of `m`'s entries, `get_counts()` answers, and an outcome `k` is listed with
    value `x` iff entry `k` of `m` is not zero and `x` is its real part.  Missing for the full
    statement above: that the evaluation succeeds for every well-typed circuit of typed boxes
    (typing of the `inits`/`discards` layers), and that the entries are real (so that the real part
    is the entry). -/
theorem C12_counts_glue_partial (c : Circuit D8) (m : CQMap D8)
    (h : c.initAndDiscard.evalMixed = .ok m) :
    c.measure true = .ok (m.toList.map D8.re) ∧
    ∃ counts, c.getCounts = .ok counts ∧
      ∀ k x, (k, x) ∈ counts ↔ ∃ y, m.toList[k]? = some y ∧ y ≠ 0 ∧ x = y.re :=
  ⟨measure_mixed_of_eval c m h, _, getCounts_of_eval c m h,
    fun k x => mem_getCounts_iff c m _ h (getCounts_of_eval c m h) k x⟩

omit [CommRing R] [StarRing R] in
/-- The listed outcomes are distinct and come in increasing order of their flat index (a Python
    dict built from them has one key per listed outcome). -/
theorem counts_keys_increasing (c : Circuit D8) (m : CQMap D8) (counts : List (Nat × D8))
    (h : c.initAndDiscard.evalMixed = .ok m) (hc : c.getCounts = .ok counts) :
    (counts.map Prod.fst).Pairwise (· < ·) := by
  rw [getCounts_of_eval c m h] at hc
  cases hc
  exact (getCounts_keys_increasing m.toList 0).1

/-! ## non-vacuity: concrete, non-trivial instances over the Gaussian integers -/

/-! ## square-root scalars and global phases -/

/-- **sqrt_box_doubled**.  `sqrt(z)` (gates.Sqrt, gates.py:575-583) is a pure scalar box whose value
    is a square root `r` of its datum `z` (`array = [data ** .5]`), whatever the sign or phase of
    `z`.  `cqmap.Functor._ar` (cqmap.py:293-295) doubles a pure scalar box to `conj r · r = |r|²` —
    for a root of `z` that is `|z|`, which is `z` itself only for `z ≥ 0` (see `sqrt_minus_one`
    below: `sqrt(-1)` doubles to `1`, not to `-1`). -/
theorem sqrt_box_doubled (r z : R) (_ : r * r = z) (c q p c' q' p' : Nat) :
    (CBox.ar (.scalar false r) : CQMap R).f c q p c' q' p' = star r * r := rfl

/-- the square of the doubled value is `conj z · z = |z|²`: the doubled value of `sqrt(z)` is a
    square root of `|z|²`, not of `z²` unless `z` is self-conjugate. -/
theorem sqrt_box_doubled_sq (r z : R) (h : r * r = z) : (star r * r) * (star r * r) = star z * z := by
  rw [← h, star_mul]; ring

/-- A global phase (a pure scalar box of modulus one: `scalar(-1)`, `scalar(1j)`, `sqrt(-1)`,
    `sqrt(1j)`) is a listed box of the trace-preservation clause: a unitary on no qubit. -/
theorem phase_box_listed (z : R) (h : star z * z = 1) : LBox.Listed ⟨false, .scalar false z⟩ :=
  .plain _ (.phase z h)

theorem phase_box_tp (z : R) (h : star z * z = 1) :
    (LBox.eval ⟨false, .scalar false z⟩ : CQMap R).TP := (phase_box_listed z h).tp

/-! ## mixed scalars and the adjoints of scalar boxes -/

/-- A scalar box on which the Born rule has already been applied (`MixedScalar(z)`,
    `scalar(z, is_mixed=True)`, `Scalar(z, is_mixed=True)`; cqmap.py:293-295) is the weight `z`
    ITSELF in the mixed evaluation — whatever its sign or phase — not `|z|²`. -/
theorem mixed_scalar_entry (z : R) (c q p c' q' p' : Nat) :
    (CBox.ar (.scalar true z) : CQMap R).f c q p c' q' p' = z := rfl

/-- `gates.Scalar.dagger` (gates.py:557-566) returns the scalar box of the conjugate value WITH THE
    SAME `is_mixed` flag; that box is interpreted as the adjoint of the interpretation of the
    box, for pure scalars (`|conj z|² = conj |z|²`) and for mixed ones (the weight `conj z`). -/
theorem scalar_dagger_adjoint (m : Bool) (z : R) :
    (CBox.ar (.scalar m (star z)) : CQMap R) = (CBox.ar (.scalar m z) : CQMap R).dagger := by
  cases m
  · show CQMap.scalar (star (star z) * star z) = (CQMap.scalar (star z * z)).dagger
    unfold CQMap.scalar CQMap.dagger
    simp only [conj_eq_star, star_mul', star_star]
  · rfl

/-- and in particular the double dagger of a scalar box is interpreted as the box itself. -/
theorem scalar_dagger_dagger (m : Bool) (z : R) :
    (CBox.ar (.scalar m (star (star z))) : CQMap R) = CBox.ar (.scalar m z) := by
  rw [star_star]

section Examples
open GaussianInt

abbrev G := GaussianInt

/-- Forgetting `is_mixed` in the dagger of a mixed scalar is NOT the adjoint: for the weight `i`
    the pure scalar `conj i` doubles to `1`, the adjoint of the weight is `-i`. -/
example : (CBox.ar (.scalar false (star (⟨0, 1⟩ : G))) : CQMap G).f 0 0 0 0 0 0 = 1
    ∧ ((CBox.ar (.scalar true (⟨0, 1⟩ : G)) : CQMap G).dagger).f 0 0 0 0 0 0 = ⟨0, -1⟩
    ∧ (CBox.ar (.scalar true (star (⟨0, 1⟩ : G))) : CQMap G).f 0 0 0 0 0 0 = ⟨0, -1⟩ := by
  decide

/-- Pauli Y over ℤ[i] (`array[input, output]`). -/
def Y : Mat G := ⟨2, 2, fun i j => if i = 0 ∧ j = 1 then ⟨0, -1⟩ else if i = 1 ∧ j = 0 then ⟨0, 1⟩ else 0⟩
/-- CX. -/
def CX : Mat G := ⟨4, 4, fun i j => iv ((i < 2 ∧ j = i) ∨ (i = 2 ∧ j = 3) ∨ (i = 3 ∧ j = 2))⟩
/-- |1⟩. -/
def ket1 : Mat G := ⟨1, 2, fun _ j => iv (j = 1)⟩
/-- the unnormalised state (1 + i)|0⟩ + 2|1⟩. -/
def psi : Mat G := ⟨1, 2, fun _ j => if j = 0 then ⟨1, 1⟩ else ⟨2, 0⟩⟩

theorem sumN_two (f : Nat → G) : sumN 2 f = f 0 + f 1 := by simp [sumN_succ]
theorem sumN_four (f : Nat → G) : sumN 4 f = f 0 + f 1 + f 2 + f 3 := by simp [sumN_succ]

/-- Y is unitary: the hypothesis of `discard_unitary` is met by a gate with complex entries. -/
theorem Y_isometry : Y.comp Y.dagger ≈ₘ Mat.id Y.r := by
  refine ⟨rfl, rfl, fun i j hi hj => ?_⟩
  have hi : i < 2 := hi
  have hj : j < 2 := hj
  show sumN 2 (fun k => Y.f i k * star (Y.f j k)) = iv (i = j)
  rw [sumN_two]
  rcases (by omega : i = 0 ∨ i = 1) with rfl | rfl <;> rcases (by omega : j = 0 ∨ j = 1) with rfl | rfl <;>
    simp [Y] <;> decide

/-- |1⟩ is a state preparation (an isometry 1 → 2). -/
theorem ket1_isometry : ket1.comp ket1.dagger ≈ₘ Mat.id ket1.r := by
  refine ⟨rfl, rfl, fun i j hi hj => ?_⟩
  have hi : i < 1 := hi
  have hj : j < 1 := hj
  show sumN 2 (fun k => ket1.f i k * star (ket1.f j k)) = iv (i = j)
  rw [sumN_two]
  obtain rfl : i = 0 := by omega
  obtain rfl : j = 0 := by omega
  simp [ket1, iv_def]

/-- Born rule on a state with a complex amplitude: outcome 0 of measuring `psi` has weight
    `|1 + i|² = 2`, outcome 1 has weight 4. -/
example : ((CQMap.pure [] [2] psi).comp (CQMap.measure [2] true)).f 0 0 0 0 0 0 = 2 := by
  rw [measure_pure [] [2] psi (by decide)]
  simp [psi]; decide
example : ((CQMap.pure [] [2] psi).comp (CQMap.measure [2] true)).f 0 0 0 1 0 0 = 4 := by
  rw [measure_pure [] [2] psi (by decide)]
  simp [psi]; decide

/-- and discarding it gives the squared norm 6. -/
example : ((CQMap.pure [] [2] psi).comp (CQMap.discard (.ofQ [2]))).f 0 0 0 0 0 0 = 6 := by
  rw [discard_pure, show prodL [2] = 2 from rfl, sumN_two]
  simp [psi]; decide

/-- A listed circuit mixing bits and qubits: `Ket(1) >> Y >> Measure(destructive=False)` next to
    `Bits`, then a swap of the bit and the qubit — hypotheses of `trace_preserving` are met. -/
def bitsOne : Mat G := ⟨1, 2, fun _ j => iv (j = 1)⟩

theorem bitsOne_stochastic : ∀ i, i < (F ([] : WTy)).C → sumN (F [Wire.bit 2]).C (fun j => bitsOne.f i j) = 1 := by
  intro i _
  show sumN 2 _ = 1
  rw [sumN_two]; simp [bitsOne, iv_def]

/-- `Ket(1) >> Y >> Measure(destructive=False) >> Id ⊗ Id ⊗ Bits(1) >> Swap(qubit, bit) ⊗ Id >>
    Id(bit) ⊗ Discard(qubit) ⊗ Id(bit)` : a circuit mixing bits and qubits. -/
def exCircuit : Circuit G :=
  ⟨[], [(0, ⟨false, .quantum [] [.qubit 2] ket1⟩),
        (0, ⟨false, .quantum [.qubit 2] [.qubit 2] Y⟩),
        (0, ⟨false, .measure 1 false false⟩),
        (2, ⟨false, .classical [] [.bit 2] bitsOne⟩),
        (0, ⟨false, .swap [.qubit 2] [.bit 2]⟩),
        (1, ⟨false, .discard [.qubit 2]⟩)]⟩

theorem exCircuit_WT : WT exCircuit.dom exCircuit.boxes := by
  refine ⟨rfl, rfl, rfl, rfl, rfl, rfl, trivial⟩

theorem exCircuit_listed : ∀ ob ∈ exCircuit.boxes, ob.2.Listed := by
  intro ob hob
  simp only [exCircuit, List.mem_cons, List.not_mem_nil, or_false] at hob
  rcases hob with rfl | rfl | rfl | rfl | rfl | rfl
  · exact .plain _ (.isometry _ _ _ rfl rfl rfl rfl ket1_isometry)
  · exact .plain _ (.isometry _ _ _ rfl rfl rfl rfl Y_isometry)
  · exact .plain _ (.measure _ _ _)
  · exact .plain _ (.stochastic _ _ _ rfl rfl bitsOne_stochastic)
  · exact .plain _ (.swap _ _)
  · exact .plain _ (.discard _)

/-- `trace_preserving` applies to it: it evaluates to a trace-preserving map `CQ() → C(2, 2)`. -/
example : ∃ m, exCircuit.evalMixed = .ok m ∧ m.TP ∧ m.dom = .unit ∧ m.cod = .ofC [2, 2] :=
  trace_preserving exCircuit exCircuit_WT exCircuit_listed

/-- A pure circuit `Ket(1) >> Y >> scalar(1 + i)` (then the flagged dagger of `Y`): the
    hypotheses of `pure_circuit_doubled` are met. -/
def exPure : Circuit G :=
  ⟨[], [(0, ⟨false, .quantum [] [.qubit 2] ket1⟩),
        (0, ⟨false, .quantum [.qubit 2] [.qubit 2] Y⟩),
        (1, ⟨false, .scalar false ⟨1, 1⟩⟩),
        (0, ⟨true, .quantum [.qubit 2] [.qubit 2] Y⟩)]⟩

theorem allQ_nil : allQ ([] : WTy) := fun _ h => by cases h
theorem allQ_qubit : allQ [Wire.qubit 2] := fun w h => ⟨2, by simpa using h⟩

example : ∃ m, exPure.evalMixed = .ok m ∧ m ≈ CQMap.pure [] [2] exPure.evalPure := by
  refine pure_circuit_doubled exPure allQ_nil ⟨rfl, rfl, rfl, rfl, trivial⟩ ?_
  intro ob hob
  simp only [exPure, List.mem_cons, List.not_mem_nil, or_false] at hob
  rcases hob with rfl | rfl | rfl | rfl
  · exact quantum_box_pure _ _ _ _ allQ_nil allQ_qubit rfl rfl
  · exact quantum_box_pure _ _ _ _ allQ_qubit allQ_qubit rfl rfl
  · exact scalar_box_pure _ _
  · exact quantum_box_pure _ _ _ _ allQ_qubit allQ_qubit rfl rfl

/-- **sqrt(-1)**: the box `sqrt(-1)` has the value `i` (`i · i = -1`); its doubled value is
    `conj i · i = 1` — not the datum `-1` ("abs(sqrt(x)) ** 2 == x" holds for `x ≥ 0` only). -/
def sqrtMinusOne : G := ⟨0, 1⟩

theorem sqrt_minus_one : sqrtMinusOne * sqrtMinusOne = -1 ∧
    (CBox.ar (.scalar false sqrtMinusOne) : CQMap G).f 0 0 0 0 0 0 = 1 ∧
    (CBox.ar (.scalar false sqrtMinusOne) : CQMap G).f 0 0 0 0 0 0 ≠ -1 := by
  refine ⟨by decide, by decide, by decide⟩

/-- `sqrt(-1) @ Ket(1) >> Y`: a pure circuit with a square-root scalar of a negative datum; the
    hypotheses of `pure_circuit_doubled` are met (a `sqrt` box is a pure scalar box). -/
def exSqrt : Circuit G :=
  ⟨[], [(0, ⟨false, .scalar false sqrtMinusOne⟩),
        (0, ⟨false, .quantum [] [.qubit 2] ket1⟩),
        (0, ⟨false, .quantum [.qubit 2] [.qubit 2] Y⟩)]⟩

example : ∃ m, exSqrt.evalMixed = .ok m ∧ m ≈ CQMap.pure [] [2] exSqrt.evalPure := by
  refine pure_circuit_doubled exSqrt allQ_nil ⟨rfl, rfl, rfl, trivial⟩ ?_
  intro ob hob
  simp only [exSqrt, List.mem_cons, List.not_mem_nil, or_false] at hob
  rcases hob with rfl | rfl | rfl
  · exact scalar_box_pure _ _
  · exact quantum_box_pure _ _ _ _ allQ_nil allQ_qubit rfl rfl
  · exact quantum_box_pure _ _ _ _ allQ_qubit allQ_qubit rfl rfl

/-- Born rule with the phase in place: the amplitude of outcome 0 of `sqrt(-1) @ Ket(1) >> Y` is
    `i · i = -1`, its weight in the doubled map is `|-1|² = 1` (non-negative), and the circuit followed by
    a measurement is trace-preserving (`sqrt(-1)` is a phase). -/
example : exSqrt.evalPure.f 0 0 = -1 ∧ (CQMap.pure [] [2] exSqrt.evalPure).f 0 0 0 0 0 0 = 1 := by
  refine ⟨by decide, by decide⟩

def exSqrtMeasured : Circuit G := ⟨[], exSqrt.boxes ++ [(0, ⟨false, .measure 1 true false⟩)]⟩

example : ∃ m, exSqrtMeasured.evalMixed = .ok m ∧ m.TP ∧ m.dom = .unit ∧ m.cod = .ofC [2] := by
  refine trace_preserving exSqrtMeasured ⟨rfl, rfl, rfl, rfl, trivial⟩ ?_
  intro ob hob
  simp only [exSqrtMeasured, exSqrt, List.cons_append, List.nil_append, List.mem_cons,
    List.not_mem_nil, or_false] at hob
  rcases hob with rfl | rfl | rfl | rfl
  · exact phase_box_listed _ (by decide)
  · exact .plain _ (.isometry _ _ _ rfl rfl rfl rfl ket1_isometry)
  · exact .plain _ (.isometry _ _ _ rfl rfl rfl rfl Y_isometry)
  · exact .plain _ (.measure _ _ _)

/-- an (unnormalised: times 4) stochastic gate, and the marginal. -/
def flip : Mat G := ⟨2, 2, fun i j => if i = j then 3 else 1⟩
def marginal : Mat G := ⟨2, 1, fun _ _ => 1⟩

theorem allB_nil : allB ([] : WTy) := fun _ h => by cases h
theorem allB_bit : allB [Wire.bit 2] := fun w h => ⟨2, by simpa using h⟩

/-- `(Bits(1) >> flip >> marginal) @ (psi >> Y)`: a closed classical circuit next to a pure
    quantum one; bits and qubits never share a layer, `is_mixed` is False. -/
def exJuxt : Circuit G :=
  ⟨[], [(0, ⟨false, .classical [] [.bit 2] bitsOne⟩),
        (0, ⟨false, .classical [.bit 2] [.bit 2] flip⟩),
        (0, ⟨false, .classical [.bit 2] [] marginal⟩),
        (0, ⟨false, .quantum [] [.qubit 2] psi⟩),
        (0, ⟨false, .quantum [.qubit 2] [.qubit 2] Y⟩)]⟩

theorem exJuxt_not_mixed : exJuxt.isMixed = false := by decide

theorem exJuxt_nonMixed : ∀ ob ∈ exJuxt.boxes, ob.2.NonMixed := by
  intro ob hob
  simp only [exJuxt, List.mem_cons, List.not_mem_nil, or_false] at hob
  rcases hob with rfl | rfl | rfl | rfl | rfl
  · exact .classical _ _ _ _ allB_nil allB_bit rfl rfl
  · exact .classical _ _ _ _ allB_bit allB_bit rfl rfl
  · exact .classical _ _ _ _ allB_bit allB_nil rfl rfl
  · exact .quantum _ _ _ _ allQ_nil allQ_qubit rfl rfl
  · exact .quantum _ _ _ _ allQ_qubit allQ_qubit rfl rfl

/-- `eval_mixed_flag` applies to it although it is not mixed. -/
example : ∃ m, exJuxt.eval true = .ok (.cq m) ∧
    m ≈ CQMap.hybrid .unit (.ofQ [2]) exJuxt.evalClassical exJuxt.evalQuantum :=
  eval_mixed_flag exJuxt ⟨rfl, rfl, rfl, rfl, rfl, trivial⟩ exJuxt_nonMixed

/-- **flag_is_not_a_wrapper**.  On `exJuxt` the classical part is the weight 4, the quantum part
    has the amplitude `2i` at outcome 0, so the mixed evaluation has the entry `4 · |2i|² = 16`
    there; the plain evaluation of the whole circuit has `4 · 2i = 8i`: neither itself (wrapped
    as a classical map) nor its doubled map (`|8i|² = 64`) is the mixed evaluation — the result
    of `eval(mixed=True)` cannot be obtained from `eval()` of a circuit that is not mixed. -/
theorem flag_is_not_a_wrapper :
    exJuxt.evalClassical.f 0 0 = 4 ∧ exJuxt.evalQuantum.f 0 0 = ⟨0, 2⟩ ∧
    (CQMap.hybrid .unit (.ofQ [2]) exJuxt.evalClassical exJuxt.evalQuantum).f 0 0 0 0 0 0 = 16 ∧
    exJuxt.evalPure.f 0 0 = ⟨0, 8⟩ ∧
    (CQMap.pure [] [2] exJuxt.evalPure).f 0 0 0 0 0 0 = 64 := by
  refine ⟨by decide, by decide, by decide, by decide, by decide⟩

/-- `discard_marginal` on a classical-quantum type with both parts non-trivial. -/
example : ((CQMap.id (CQTy.tensor ⟨[2], [2]⟩ ⟨[3], [2]⟩) : CQMap G).comp
      ((CQMap.id ⟨[2], [2]⟩).tensor (CQMap.discard ⟨[3], [2]⟩))).f 4 3 3 1 1 1 =
    sum3 3 2 fun x y z =>
      (CQMap.id (CQTy.tensor ⟨[2], [2]⟩ ⟨[3], [2]⟩) : CQMap G).f 4 3 3 (1 * 3 + x) (1 * 2 + y) (1 * 2 + z) *
        iv (y = z) :=
  discard_marginal _ ⟨[2], [2]⟩ ⟨[3], [2]⟩ rfl (by decide) (by decide) (by decide) 4 3 3

end Examples

end DV.C12
