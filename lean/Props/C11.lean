/-
  Props/C11.lean — C11 "Pure circuits evaluate to the unitary they describe".
  Property theorems only; proofs in Proofs/GatesTable.lean (finite tables, `decide` in exact
  ℤ[ζ₈][1/2] arithmetic), Proofs/Gates.lean (rotations symbolic in the phase, arbitrary commutative
  star ring) and Proofs/GatesComplex.lean (instantiation at ℂ: every real phase).

  Conventions: matrices are discopy's own — rows = INPUT index, columns = OUTPUT index, leftmost
  qubit most significant; `f >> g` is `mul f g`.  The standard (textbook / tket) matrix `U[out][in]` of
  an operation is therefore the TRANSPOSE of its array (`tketIO`).

  PROVED
    * the whole `GATES` table: unitary; equal to the identically named tket matrices — for the
      repaired table, and for the table as it is except `Y` (finding F17, witnessed);
    * rotations Rx, Ry, Rz, CU1, CRz, CRx at EVERY real phase: unitary, `U(−φ) = U(φ)ᴴ`, equal to the
      tket matrices (repaired `Ry`; `Ry` as it is is the transpose = `Ry(−φ)`, F17);
    * controlled gates: `Controlled(U) = |0⟩⟨0|⊗1 + |1⟩⟨1|⊗U` for every one-qubit `U`;
    * every dagger mechanism: flag (any stored array), negated phase (all φ), Ket ↔ Bra (all bitstrings
      of length ≤ 3), scalar (all values), SWAP/CX, rebuilt controlled gate — the last one AS IT IS is
      correct iff the target's stored array is Hermitian and FAILS for S, T (finding F2, witnessed);
      with the proposed repair it holds for every table gate;
    * square-root scalars `sqrt(z)` (value `z ** .5` given with the box): the dagger is `Scalar(conj(z ** .5))`
      and evaluates to the conjugate for every non-real `z` and every `z ≥ 0` (`sqrt_dagger`); AS IT IS it
      FAILS for negative real `z` (finding F4k, witnessed: `sqrt(-4)` is its own dagger), holds with the repair;
    * calling conventions of `Circuit.eval` / `Sum.eval` on the numpy route: every circuit of a batch
      `first.eval(c₁, …, cₖ)` is evaluated in the mode of its own `is_mixed` (a pure circuit by the tensor
      functor whatever it is batched with), all in CQ mode under `mixed=True`, all terms of a sum in one mode;
    * kets and bras are the basis vectors (all bitstrings of length ≤ 3);
    * `rewire(op, a, b)` = "op on qubits a and b", refused iff a = b — all `a, b < 4`, generic op.
    * WHOLE CIRCUITS (Proofs/MatAlg.lean, CircuitAlg.lean, CircuitCyc8.lean, CircuitTables.lean):
        - over EVERY commutative star ring (ℂ included: every real phase), for every well-typed list of
          layers `1 ⊗ U ⊗ 1` (`LTyped`; box matrices `2^a × 2^b` lists of rows): the value is a `2^n × 2^m`
          matrix; if every box satisfies `U·U† = 1` (`U†·U = 1`) so does the circuit
          (`circuit_unitary_generic`); the reversed list of daggered layers evaluates to the conjugate
          transpose (`circuit_dagger_generic`) — by induction over the layers from associativity of the list
          product, the mixed-product law, `(AB)† = B†A†`, `(A⊗B)† = A†⊗B†` and the identity laws;
        - for the executable model (`evalCirc` over ℤ[ζ₈][1/2], which is exactly that ordered product:
          `circuit_eval_is_layers`): `circuit_unitary`, `circuit_dagger` for every well-typed circuit
          (`Circ.codFrom n c = some m`) over the gate set `unitaryGates` = GATES, rotations, Controlled(·),
          and all their daggers; rotations at EVERY integer phase index `n/8` (`n` even, any `n` for CU1);
          kets/bras ≤ 4 bits, normalised scalars, `sqrt(z)` boxes (`z` non-real or ≥ 0) and user-defined
          0-qubit `QuantumGate`s (global phases, either dagger flag, `phase0_dagOK`) for the dagger; with
          kets the circuit is an isometry.
          Transport: `Cyc8.val : Cyc8 → ℚ(ζ₈)` is a homomorphism for the model's normalising
          operations and injective on normalised values (Proofs/Cyc8Ring.lean).
        - the typing hypothesis is necessary (`circuit_unitary_needs_typing`).
  NOT PROVED (kept below as `Prop`s, decided on every run by exact correspondence + numpy oracle)
    * `circuit_dagger` for circuits containing `Controlled(S)`, `Controlled(T)` while F2 is open (it is FALSE
      there, `F2_witness`); kets/bras longer than 4 bits and `QuantumGate`s with arbitrary arrays inside
      whole circuits (the per-gate hypotheses `Gate.isoOK`/`dagOK` are decidable: `circuit_unitary_of`).
    * `rewire_spec` for a symbolic `op` and for more than 4 qubits.
    * `sqrt_dagger_every_z` (negative real `z` included) — refuted for the code as it is (F4k).
-/
import Proofs.GatesTable
import Proofs.GatesComplex
import Proofs.CircuitProps

namespace DV.C11
open DV DV.Gates

/-! ### named gates -/

/-- Every gate of `GATES = [SWAP, CZ, CX, H, S, T, X, Y, Z]` is unitary. -/
theorem gate_unitary :
    ∀ p ∈ named, mul p.2.eval (dagger p.2.eval) = idQ p.2.dom ∧
                 mul (dagger p.2.eval) p.2.eval = idQ p.2.dom := named_unitary

/-- The (repaired) table equals the standard matrices of the identically named tket operations. -/
theorem gate_table_eq_tket : ∀ p ∈ namedRepaired, some p.2.eval = tketIO p.1 := namedRepaired_eq_tket

/-- The table the model currently transcribes (switch `f17Fixed`): all but `Y` while F17 is open. -/
theorem gate_table_eq_tket_partial :
    ∀ p ∈ named, (f17Fixed = true ∨ p.1 ≠ "Y") → some p.2.eval = tketIO p.1 := named_eq_tket

/-- F17 witness: `Y` as gates.py:561 stores it is tket's matrix un-transposed, i.e. the map `−Y`. -/
theorem F17_Y_is_transpose :
    some arrYAsIs = tketU "Y" ∧ some arrYAsIs ≠ tketIO "Y" ∧ arrYAsIs = msmul (-1) arrYFixed :=
  arrYAsIs_is_transpose

/-- `S.dagger()`, `T.dagger()`, `Controlled(S)`, `Controlled(Y)`, `Controlled(Z)` are tket's
    `Sdg`, `Tdg`, `CS`, `CY`, `CZ`. -/
theorem dagger_and_controlled_eq_tket :
    some (Gate.q gS).dagger.eval = tketIO "Sdg" ∧ some (Gate.q gT).dagger.eval = tketIO "Tdg" ∧
    some (Gate.ctrl (.q gS)).eval = tketIO "CS" ∧
    some (Gate.ctrl (.q ⟨"Y", 1, arrYFixed, some false⟩)).eval = tketIO "CY" ∧
    some (Gate.ctrl (.q gZ)).eval = tketIO "CZ" := dagger_names_eq_tket

/-! ### rotations, every real phase -/

/-- Rx, Ry (as it is and repaired), Rz, CU1, CRz, CRx are unitary at every real phase `φ`. -/
theorem rot_unitary (φ : ℝ) :
    mul (RxC φ) (dagger (RxC φ)) = identity 2 ∧ mul (RyAsIsC φ) (dagger (RyAsIsC φ)) = identity 2 ∧
    mul (RyFixedC φ) (dagger (RyFixedC φ)) = identity 2 ∧ mul (RzC φ) (dagger (RzC φ)) = identity 2 ∧
    mul (CU1C φ) (dagger (CU1C φ)) = identity 4 ∧ mul (CRzC φ) (dagger (CRzC φ)) = identity 4 ∧
    mul (CRxC φ) (dagger (CRxC φ)) = identity 4 := rot_unitary_complex φ

/-- Dagger by negated phase: `U(−φ) = U(φ)ᴴ` at every real phase. -/
theorem rot_dagger (φ : ℝ) :
    RxC (-φ) = dagger (RxC φ) ∧ RyAsIsC (-φ) = dagger (RyAsIsC φ) ∧ RyFixedC (-φ) = dagger (RyFixedC φ) ∧
    RzC (-φ) = dagger (RzC φ) ∧ CU1C (-φ) = dagger (CU1C φ) ∧ CRzC (-φ) = dagger (CRzC φ) ∧
    CRxC (-φ) = dagger (CRxC φ) := rot_dagger_complex φ

/-- The rotation arrays are the standard tket matrices (angle `2φ` half turns) in `[input, output]`
    order — over any commutative ring, hence at every phase; `Ry` in its repaired form. -/
theorem rot_matches_tket {R : Type} [CommRing R] (i c s ν ν' μ : R) :
    rx i c s = transpose (tketRx i c s) ∧ ryFixed c s = transpose (tketRy c s) ∧
    rz ν ν' = transpose (tketRz ν ν') ∧ cu1 μ = transpose (tketCU1 μ) ∧
    crz ν ν' = transpose (tketCRz ν ν') ∧ crx i c s = transpose (tketCRx i c s) :=
  Gates.rot_matches_tket i c s ν ν' μ

/-- F17 for `Ry`: the array as gates.py:402 has it is tket's matrix un-transposed = `Ry(−φ)`. -/
theorem F17_Ry_is_transpose {R : Type} [CommRing R] (c s : R) :
    ryAsIs c s = tketRy c s ∧ ryAsIs c s = transpose (tketRy c (-s)) ∧ ryAsIs c s = ryFixed c (-s) :=
  ryAsIs_is_transpose c s

/-- The executable model at every exactly representable phase (`n/8`; even `n` except CU1): the
    dagger evaluates to the adjoint and the rotation is unitary — ties the `Cyc8` instance the
    driver runs to the symbolic theorems. -/
theorem rot_table_exact :
    ∀ k ∈ rotKinds, ∀ n ∈ (if k = .CU1 then allPhases else evenPhases),
      (Gate.rot k n).dagger.eval = dagger (Gate.rot k n).eval ∧
      mul (Gate.rot k n).eval (dagger (Gate.rot k n).eval) = idQ k.nq := rot_table

/-! ### controlled gates -/

/-- `Controlled(U) = |0⟩⟨0| ⊗ 1 + |1⟩⟨1| ⊗ U` for every one-qubit `U` over every commutative ring. -/
theorem controlled_spec {R : Type} [CommRing R] (a b c d : R) :
    ctrlArr [[a, b], [c, d]] = ctrlSpec [[a, b], [c, d]] := ctrl_spec a b c d

/-- CRz, CRx, CU1 are the controlled Rz, Rx, `diag(1, e^{2πiφ})`. -/
theorem controlled_rotations {R : Type} [CommRing R] (i c s ν ν' μ : R) :
    crz ν ν' = ctrlArr (rz ν ν') ∧ crx i c s = ctrlArr (rx i c s) ∧ cu1 μ = ctrlArr [[1, 0], [0, μ]] :=
  ⟨rfl, rfl, rfl⟩

/-- On the table and at the representable phases, in the executable model. -/
theorem controlled_spec_exact :
    (∀ g ∈ oneQubitNamed, (Gate.ctrl (.q g)).eval = ctrlSpec (Gate.q g).eval) ∧
    (∀ n ∈ evenPhases,
      (Gate.rot .CRz n).eval = ctrlSpec (Gate.rot .Rz n).eval ∧
      (Gate.rot .CRx n).eval = ctrlSpec (Gate.rot .Rx n).eval ∧
      (Gate.ctrl (.rot .Rz n)).eval = (Gate.rot .CRz n).eval ∧
      (Gate.ctrl (.rot .Rx n)).eval = (Gate.rot .CRx n).eval ∧
      (Gate.ctrl (.rot .Ry n)).dagger.eval = dagger (Gate.ctrl (.rot .Ry n)).eval) :=
  ⟨controlled_spec_table, controlled_rot_table⟩

/-! ### dagger mechanisms -/

/-- Flag (gates.py:43 + tensor.py:358), rebuilt `CX`, `SWAP`: on the whole table. -/
theorem dagger_flag_eval :
    ∀ p ∈ named, p.2.dagger.eval = dagger p.2.eval ∧ p.2.dagger.dagger.eval = p.2.eval :=
  named_dagger_eval

/-- Flag mechanism for ANY stored array: un-flagged gate. -/
theorem dagger_flag_unflagged (g : QGate) (h : g.dg = some false) (f : Bool) :
    (Gate.q g).dagger.evalW f = dagger ((Gate.q g).evalW f) := flag_dagger_of_unflagged g h f

/-- Flag mechanism for any one-qubit array: flagged gate (dagger of a dagger). -/
theorem dagger_flag_flagged (name : String) (a b c d : Cyc8) (f : Bool) :
    (Gate.q ⟨name, 1, [[a, b], [c, d]], some true⟩).dagger.evalW f =
      dagger ((Gate.q ⟨name, 1, [[a, b], [c, d]], some true⟩).evalW f) :=
  flag_dagger_of_flagged name a b c d f

/-- A gate declared self-adjoint (`_dagger=None`) is handled correctly iff its array is Hermitian. -/
theorem dagger_flag_selfadjoint (g : QGate) (h : g.dg = none) (f : Bool) :
    ((Gate.q g).dagger.evalW f = dagger ((Gate.q g).evalW f)) ↔ g.arr = dagger g.arr :=
  flag_dagger_of_selfadjoint g h f

/-- Scalars: conjugation, every value. -/
theorem dagger_scalar (z : Cyc8) (f : Bool) :
    (Gate.scalar z).dagger.evalW f = dagger ((Gate.scalar z).evalW f) := scalar_dagger z f

/-! ### square-root scalars (`sqrt(z)`, gates.py:567-575, 633-635) -/

/-- **`sqrt_dagger`** — `eval (sqrt z).dagger = conj (eval (sqrt z))` for `z` given with its root `r = z ** .5`:
    for every `z` that is not its own conjugate (every NON-REAL `z`) and for every `z` whose root is real
    (`z ≥ 0`).  The dagger is `Scalar(conj(z ** .5))` — the conjugate of the root, not of the data.
    (`_partial` in the sense of the header: negative real `z` is excluded, see `F4k_witness`.) -/
theorem sqrt_dagger (z r : Cyc8) (f : Bool) (h : z.conj ≠ z ∨ r.conj = r) :
    (Gate.sqrt z r).dagger.evalW f = dagger ((Gate.sqrt z r).evalW f) :=
  h.elim (sqrt_dagger_nonreal z r f) (sqrt_dagger_real_root z r f)

/-- The exact criterion for the code the switch `f4kFixed` selects: the dagger of `sqrt(z)` evaluates to
    the conjugate iff the box is not taken for self-adjoint or its value is real. -/
theorem sqrt_dagger_criterion (z r : Cyc8) (f : Bool) :
    ((Gate.sqrt z r).dagger.evalW f = dagger ((Gate.sqrt z r).evalW f)) ↔
      (sqrtSelfAdjoint z r = false ∨ r.conj = r) := sqrt_dagger_iff z r f

/-- F4k witness: `sqrt(-4)` — value `2i`, an exact root — is taken for self-adjoint by gates.py:524 (the test
    is made on the data `-4`), so AS IT IS its dagger evaluates to `2i ≠ conj(2i)`; with the proposed repair
    (test made on the value) it evaluates to `-2i`. -/
theorem F4k_witness :
    Gate.sqrtExact (.sqrt (Cyc8.ofInt (-4)) ⟨0, 0, 2, 0, 0⟩) = true ∧
    sqrtSelfAdjointW false (Cyc8.ofInt (-4)) ⟨0, 0, 2, 0, 0⟩ = true ∧
    (sqrtDaggerW false (Cyc8.ofInt (-4)) ⟨0, 0, 2, 0, 0⟩).evalW true ≠
      dagger ((Gate.sqrt (Cyc8.ofInt (-4)) ⟨0, 0, 2, 0, 0⟩).evalW true) ∧
    (sqrtDaggerW true (Cyc8.ofInt (-4)) ⟨0, 0, 2, 0, 0⟩).evalW true =
      dagger ((Gate.sqrt (Cyc8.ofInt (-4)) ⟨0, 0, 2, 0, 0⟩).evalW true) := F4k_sqrt_negative

/-- With the proposed repair of F4k the statement holds for EVERY `z` and root. -/
theorem sqrt_dagger_repaired (z r : Cyc8) (f : Bool) :
    (sqrtDaggerW true z r).evalW f = dagger ((Gate.sqrt z r).evalW f) := sqrt_dagger_fixed z r f

/-! ### calling conventions of `Circuit.eval` on the numpy route (circuit.py:244-253, 657-664) -/

/-- **A pure circuit is evaluated by the tensor functor — to the Tensor of `evalCirc` — whatever it is batched
    with**: in `first.eval(c₁, …, cₖ)` (no `mixed=True`) the `i`-th circuit of `(first, c₁, …, cₖ)` is evaluated
    in the mode given by ITS OWN `is_mixed`; the batch returns one result per circuit. -/
theorem eval_batch_own_mode (selfMixed : Bool) (others : List Bool) (i : Nat) (m : Bool)
    (h : (selfMixed :: others)[i]? = some m) :
    (evalModes false selfMixed others)[i]? = some m ∧
    (evalModes false selfMixed others).length = others.length + 1 :=
  ⟨evalModes_own selfMixed others i m h, evalModes_length false selfMixed others⟩

/-- With `mixed=True` every circuit of the call is evaluated as a CQ map. -/
theorem eval_batch_mixed_flag (selfMixed : Bool) (others : List Bool) :
    ∀ m ∈ evalModes true selfMixed others, m = true := evalModes_flag selfMixed others

/-- `Sum.eval`: all terms are evaluated in ONE mode (so that they can be added) — the pure one iff the flag is
    off and no term is mixed: a sum of pure circuits adds up their Tensors. -/
theorem sum_eval_modes (flag : Bool) (terms ms : List Bool) (h : sumModes flag terms = some ms) :
    ms.length = terms.length ∧ ∀ m ∈ ms, m = (flag || terms.any id) := sumModes_uniform flag terms ms h

/-- Rebuilt controlled gate (gates.py:286) AS IT IS: correct iff the target's stored array is
    Hermitian — `_partial`: it is NOT correct for every gate (F2). -/
theorem dagger_controlled_partial :
    ∀ g ∈ oneQubitNamed,
      ((Gate.ctrl (.q g)).dagger.evalAsIs = dagger (Gate.ctrl (.q g)).evalAsIs ↔ g.arr = dagger g.arr) :=
  controlled_dagger_table

/-- The same criterion for every one-qubit array over every commutative star ring. -/
theorem dagger_controlled_asis_iff {R : Type} [CommRing R] [StarRing R] (a b c d : R) :
    ctrlArr [[a, b], [c, d]] = dagger (ctrlArr [[a, b], [c, d]]) ↔
      [[a, b], [c, d]] = dagger [[a, b], [c, d]] := ctrl_asis_dagger_iff a b c d

/-- F2 witnesses: `Controlled(S).dagger()` and `Controlled(T).dagger()` evaluate to the UN-daggered
    matrix. -/
theorem F2_witness :
    ((Gate.ctrl (.q gS)).dagger.evalAsIs ≠ dagger (Gate.ctrl (.q gS)).evalAsIs ∧
     (Gate.ctrl (.q gS)).dagger.evalAsIs = (Gate.ctrl (.q gS)).evalAsIs) ∧
    ((Gate.ctrl (.q gT)).dagger.evalAsIs ≠ dagger (Gate.ctrl (.q gT)).evalAsIs ∧
     (Gate.ctrl (.q gT)).dagger.evalAsIs = (Gate.ctrl (.q gT)).evalAsIs) :=
  ⟨F2_controlled_S, F2_controlled_T⟩

/-- With the proposed repair the rebuilt controlled gate is correct on the whole table, flagged
    targets are controlled versions of their evaluation, un-flagged ones are unchanged. -/
theorem dagger_controlled_repaired :
    ∀ g ∈ oneQubitNamed,
      (Gate.ctrl (.q g)).dagger.evalFixed = dagger (Gate.ctrl (.q g)).evalFixed ∧
      (Gate.ctrl (.q g.dagger)).evalFixed = ctrlSpec (Gate.q g.dagger).evalFixed ∧
      (Gate.ctrl (.q g)).evalFixed = (Gate.ctrl (.q g)).evalAsIs := controlled_dagger_fixed_table

/-- The algebra behind the repair: `Controlled(U)ᴴ = Controlled(Uᴴ)` for every one-qubit `U`. -/
theorem controlled_dagger_commute {R : Type} [CommRing R] [StarRing R] (a b c d : R) :
    dagger (ctrlArr [[a, b], [c, d]]) = ctrlArr (dagger [[a, b], [c, d]]) := ctrl_dagger a b c d

/-! ### kets, bras -/

/-- `Ket(bs)` / `Bra(bs)` are the basis row / column vector of index `bs`; Ket ↔ Bra is the adjoint;
    `Ket(bs) >> Bra(bs) = 1` — all bitstrings of length ≤ 3. -/
theorem ket_bra_basis :
    ∀ bs ∈ bitstringsUpTo3,
      (Gate.ket bs).eval = [(bits bs.length).map fun x => if x = bs then 1 else 0] ∧
      (Gate.ket bs).dagger.eval = dagger (Gate.ket bs).eval ∧
      (Gate.bra bs).dagger.eval = dagger (Gate.bra bs).eval ∧
      mul (Gate.ket bs).eval (Gate.bra bs).eval = [[1]] := ket_bra_table

/-! ### rewire -/

/-- `rewire(op, a, b)` (gates.py:568-603, with the wire permutation as C10 specifies it) is refused
    iff `a = b` and otherwise is "op acting on qubits a and b" — all `a, b < 4`, on a generic integer
    matrix with 16 distinct entries (`_partial`: not for a symbolic `op`). -/
theorem rewire_spec_partial :
    ∀ p ∈ pairs 4, rewireMat genericOp p.1 p.2 =
      if p.1 = p.2 then .error .value
      else .ok (actsOn genericOp (max p.1 p.2 + 1) p.1 p.2) := rewire_table

/-! ### whole circuits -/

/-- `evalCirc` is the ordered product of the layers `1 ⊗ ⟦gate⟧ ⊗ 1` (the recursion `evalLayers` about
    which the generic theorems speak). -/
theorem circuit_eval_is_layers (n : Nat) (c : Circ) : evalCirc n c = evalLayers n (Circ.layers c) :=
  evalCirc_eq n c

/-- The value of a well-typed list of layers from `n` to `m` qubits is a `2^n × 2^m` matrix. -/
theorem circuit_eval_shape {R : Type} [CommRing R] {n m : Nat} {L : Layers R} (h : LTyped n L m) :
    IsMat (pow2 n) (pow2 m) (evalLayers n L) := evalLayers_isMat h

/-- **Products and Kronecker products of unitaries are unitary**: over every commutative star ring, a
    well-typed circuit whose boxes satisfy `U·U† = 1` (resp. `U†·U = 1`) satisfies the same. -/
theorem circuit_unitary_generic {R : Type} [CommRing R] [StarRing R] {n m : Nat} {L : Layers R} :
    (LIsometric n L m → mul (evalLayers n L) (dagger (evalLayers n L)) = idQ n) ∧
    (LCoisometric n L m → mul (dagger (evalLayers n L)) (evalLayers n L) = idQ m) :=
  ⟨evalLayers_isometry, evalLayers_coisometry⟩

/-- **`eval(c†) = eval(c)†`** over every commutative star ring, for every well-typed list of layers. -/
theorem circuit_dagger_generic {R : Type} [CommRing R] [StarRing R] {n m : Nat} {L : Layers R}
    (h : LTyped n L m) : evalLayers m (Ldagger L) = dagger (evalLayers n L) := evalLayers_dagger h

/-- The list-matrix laws behind them (inner dimensions positive; `IsMat m n A`: `m` rows of length `n`). -/
theorem matrix_laws {R : Type} [CommRing R] [StarRing R] {m k l n p q : Nat} {A B C D : Mat R}
    (hm : 0 < m) (hk : 0 < k) (hl : 0 < l) (hp : 0 < p) :
    (IsMat m k A → IsMat k l B → IsMat l n C → mul (mul A B) C = mul A (mul B C)) ∧
    (IsMat m k A → IsMat k n B → IsMat p l C → IsMat l q D →
      kron (mul A B) (mul C D) = mul (kron A C) (kron B D)) ∧
    (IsMat m k A → IsMat k n B → dagger (mul A B) = mul (dagger B) (dagger A)) ∧
    (IsMat m n A → IsMat p q B → dagger (kron A B) = kron (dagger A) (dagger B)) ∧
    (IsMat m k A → mul A (identity k) = A ∧ mul (identity m) A = A) :=
  ⟨mul_assoc_of_isMat hk hl, kron_mul_kron hk hl, dagger_mul hm hk, dagger_kron hm hp,
   fun h => ⟨mul_identity hk h, identity_mul hm h⟩⟩

/-- The hypotheses of the executable instance, decidable per gate: the evaluation is a `2^dom × 2^cod`
    matrix of normalised values and `⟦g⟧⟦g⟧† = 1`, `⟦g⟧†⟦g⟧ = 1`, `⟦g†⟧ = ⟦g⟧†`.  They hold on the whole
    gate set … -/
theorem gate_set_ok :
    (∀ g ∈ unitaryGates, g.isoOK = true ∧ g.coisoOK = true ∧ g.dagOK = true) ∧
    (∀ g ∈ unitaryGatesF2, g.isoOK = true ∧ g.coisoOK = true ∧ (f2Fixed = true → g.dagOK = true)) ∧
    (∀ g ∈ ketGates, g.isoOK = true ∧ g.dagOK = true) ∧ (∀ g ∈ braGates, g.coisoOK = true ∧ g.dagOK = true) ∧
    (∀ z : Cyc8, z.isNormal = true → (Gate.scalar z).dagOK = true) ∧
    (∀ z r : Cyc8, r.isNormal = true → (sqrtSelfAdjoint z r = false ∨ r.conj = r) →
      (Gate.sqrt z r).dagOK = true) :=
  ⟨unitaryGates_ok, unitaryGatesF2_ok, ketBra_ok.1, ketBra_ok.2, scalar_dagOK, sqrt_dagOK⟩

/-- … and for rotations at EVERY integer phase index (`n` even unless CU1), by `ζ⁸ = 1`. -/
theorem rot_every_phase_index (k : RotKind) (n : Int) (h : k = .CU1 ∨ n % 2 = 0) :
    (Gate.rot k n).isoOK = true ∧ (Gate.rot k n).coisoOK = true ∧ (Gate.rot k n).dagOK = true :=
  rotOK_all k n h

/-- Whole circuits from the per-gate hypotheses alone (any gates, e.g. a `QuantumGate` with a custom
    array for which they have been decided). -/
theorem circuit_unitary_of (n m : Nat) (c : Circ) (ht : Circ.codFrom n c = some m) :
    ((∀ x ∈ c, x.2.1.isoOK = true) → mul (evalCirc n c) (dagger (evalCirc n c)) = idQ n) ∧
    ((∀ x ∈ c, x.2.1.coisoOK = true) → mul (dagger (evalCirc n c)) (evalCirc n c) = idQ m) ∧
    ((∀ x ∈ c, x.2.1.dagOK = true) → evalCirc m (Circ.dagger c) = dagger (evalCirc n c)) :=
  ⟨evalCirc_isometry ht, evalCirc_coisometry ht, evalCirc_dagger ht⟩

/-- **Whole circuits: unitary when built from gates only** — every well-typed circuit over the gate set. -/
theorem circuit_unitary (n m : Nat) (c : Circ) (ht : Circ.codFrom n c = some m)
    (hg : ∀ x ∈ c, x.2.1.inUnitarySet) :
    mul (evalCirc n c) (dagger (evalCirc n c)) = idQ n ∧
    mul (dagger (evalCirc n c)) (evalCirc n c) = idQ m := circuit_unitary_cyc8 n m c ht hg

/-- With state preparation (kets ≤ 4 bits) the circuit is an isometry: `⟦c⟧⟦c⟧† = 1`. -/
theorem circuit_isometry_with_kets (n m : Nat) (c : Circ) (ht : Circ.codFrom n c = some m)
    (hg : ∀ x ∈ c, x.2.1.inUnitarySet ∨ x.2.1 ∈ ketGates) :
    mul (evalCirc n c) (dagger (evalCirc n c)) = idQ n := circuit_isometry_cyc8 n m c ht hg

/-- **Whole circuits: the dagger evaluates to the conjugate transpose** (kets, bras, scalars and square-root
    scalars `sqrt(z)` — `z` non-real or `≥ 0` — included; `Controlled(S)`, `Controlled(T)` with F2 repaired). -/
theorem circuit_dagger (n m : Nat) (c : Circ) (ht : Circ.codFrom n c = some m)
    (hg : ∀ x ∈ c, x.2.1.inDaggerSet) :
    evalCirc m (Circ.dagger c) = dagger (evalCirc n c) := circuit_dagger_cyc8 n m c ht hg

/-- … and the dagger of a well-typed circuit is well typed the other way round. -/
theorem circuit_dagger_typed (n m : Nat) (c : Circ) (ht : Circ.codFrom n c = some m) :
    Circ.codFrom m (Circ.dagger c) = some n := Circ.dagger_codFrom ht

/-- The typing hypothesis is necessary: `H` as a layer on 2 qubits is ill typed and its "value" is not unitary. -/
theorem circuit_unitary_needs_typing :
    Circ.codFrom 2 [(0, .q gH, 0)] = none ∧
    mul (evalCirc 2 [(0, .q gH, 0)]) (dagger (evalCirc 2 [(0, .q gH, 0)])) ≠ idQ 2 :=
  Gates.circuit_unitary_needs_typing

/-! ### full statements that are NOT proved (decided by correspondence + oracle on every run) -/

/-- `sqrt(z).dagger()` evaluates to the conjugate for EVERY `z` given with an exact root — FALSE for the code
    as it is at negative real `z` (`F4k_witness`; `sqrt_dagger_every_z_fails_asis`), true with the repair
    (`sqrt_dagger_repaired`). -/
def sqrt_dagger_every_z : Prop :=
  ∀ (z r : Cyc8) (f : Bool), Gate.sqrtExact (.sqrt z r) = true →
    (Gate.sqrt z r).dagger.evalW f = dagger ((Gate.sqrt z r).evalW f)

theorem sqrt_dagger_every_z_fails_asis (h : f4kFixed = false) : ¬ sqrt_dagger_every_z := by
  intro hall
  have h1 := hall (Cyc8.ofInt (-4)) ⟨0, 0, 2, 0, 0⟩ true F4k_sqrt_negative.1
  simp only [Gate.dagger, h] at h1
  exact F4k_sqrt_negative.2.2.1 h1

/-- `rewire` for every 4 × 4 `op` and every `(a, b)`. -/
def rewire_spec : Prop :=
  ∀ (op : M8) (a b : Nat), a ≠ b → rewireMat op a b = .ok (actsOn op (max a b + 1) a b)

/-! ### the hypotheses are met by concrete non-trivial values -/

example : (Gate.rot .Rx 2).eval ≠ idQ 1 ∧ (Gate.rot .CU1 3).eval ≠ idQ 2 := by decide
example : evalCirc 0 [(0, .ket [true, false], 0), (0, .q gH, 1), (0, .ctrl (.q gX), 0)] =
    [[Cyc8.invSqrt2, 0, 0, -Cyc8.invSqrt2]] := by decide
example : rewireMat (R := Int) genericOp 2 0 ≠ .ok (kron genericOp (idQ 1)) := by decide
example : (pairs 4).length = 16 ∧ named.length = 9 ∧ bitstringsUpTo3.length = 15 := by decide
/-- A concrete circuit meeting the hypotheses of `circuit_unitary` / `circuit_dagger`
    (negative phase index included). -/
def c0 : Circ := [(0, .q gH, 1), (0, .ctrl (.q gX), 0), (1, .rot .Rz (-6), 0), (0, .q gS.dagger, 1)]
example : Circ.codFrom 2 c0 = some 2 := by decide
example : ∀ x ∈ c0, x.2.1.inUnitarySet ∧ x.2.1.inDaggerSet := by
  intro x hx
  simp only [c0, List.mem_cons, List.not_mem_nil, or_false] at hx
  rcases hx with rfl | rfl | rfl | rfl
  · exact ⟨.inl (by simp [unitaryGates, unitaryBase, tableGates, named]),
           .inl (by simp [unitaryGates, unitaryBase, tableGates, named])⟩
  · exact ⟨.inl (by simp [unitaryGates, unitaryBase, tableGates, named]),
           .inl (by simp [unitaryGates, unitaryBase, tableGates, named])⟩
  · exact ⟨.inr (.inr ⟨.Rz, -6, rfl, .inr (by decide)⟩), .inr (.inr (.inl ⟨.Rz, -6, rfl, .inr (by decide)⟩))⟩
  · exact ⟨.inl (by simp [unitaryGates, unitaryBase, tableGates, named, Gate.dagger]),
           .inl (by simp [unitaryGates, unitaryBase, tableGates, named, Gate.dagger])⟩
example : evalCirc 2 c0 ≠ idQ 2 := by decide
/-- A circuit with scalar boxes of both classes at non-real and negative data meeting the hypotheses of
    `circuit_dagger`: `sqrt(2i)` (value `1 + i`), `scalar(-1)`, `sqrt(-3 + 4i)` (value `1 + 2i`), `sqrt(2)`. -/
def c1 : Circ := [(0, .ket [true], 0), (1, .sqrt ⟨0, 0, 2, 0, 0⟩ ⟨1, 0, 1, 0, 0⟩, 0), (0, .q gH, 0),
  (0, .scalar (Cyc8.ofInt (-1)), 1), (0, .sqrt ⟨-3, 0, 4, 0, 0⟩ ⟨1, 0, 2, 0, 0⟩, 1), (1, .sqrt (Cyc8.ofInt 2) Cyc8.sqrt2, 0)]
example : Circ.codFrom 0 c1 = some 1 := by decide
example : ∀ x ∈ c1, x.2.1.inDaggerSet := by
  intro x hx
  simp only [c1, List.mem_cons, List.not_mem_nil, or_false] at hx
  rcases hx with rfl | rfl | rfl | rfl | rfl | rfl
  · exact .inr (.inr (.inr (.inl (List.mem_map.2 ⟨[true], by decide, rfl⟩))))
  · exact .inr (.inr (.inr (.inr (.inr (.inr (.inl ⟨_, _, rfl, by decide, .inl (by decide)⟩))))))
  · exact .inl (by simp [unitaryGates, unitaryBase, tableGates, named])
  · exact .inr (.inr (.inr (.inr (.inr (.inl ⟨_, rfl, by decide⟩)))))
  · exact .inr (.inr (.inr (.inr (.inr (.inr (.inl ⟨_, _, rfl, by decide, .inl (by decide)⟩))))))
  · exact .inr (.inr (.inr (.inr (.inr (.inr (.inl ⟨_, _, rfl, by decide, .inr (by decide)⟩))))))
example : evalCirc 1 (Circ.dagger c1) = dagger (evalCirc 0 c1) ∧
    evalCirc 0 c1 = [[⟨1, 0, -3, 0, 0⟩, ⟨-1, 0, 3, 0, 0⟩]] := by decide
/-- User-defined `QuantumGate`s on ZERO qubits (global phases) inside a circuit, at every kind of position:
    `phase(ζ).dagger()` left of `X`, `phase(i)` between the layers on the right, `phase((1-3i)/2).dagger().dagger()`
    in the middle of two wires.  Arity 0 is accepted by `evalCirc` (`1 ⊗ [[w]] ⊗ 1`), the daggered gate contributes
    the CONJUGATE of its entry, and the circuit meets the hypotheses of `circuit_dagger`. -/
def phZ : QGate := ⟨"phase", 0, [[Cyc8.zeta]], some false⟩
def c2 : Circ := [(0, .q phZ.dagger, 1), (0, .q gX, 0), (1, .q ⟨"PI", 0, [[Cyc8.I]], some false⟩, 0),
  (0, .ket [false], 1), (1, .q (QGate.dagger (QGate.dagger ⟨"PG", 0, [[⟨1, 0, -3, 0, 1⟩]], some false⟩)), 1)]
example : Circ.codFrom 1 c2 = some 2 := by decide
example : evalCirc 1 [(0, .q phZ.dagger, 1), (0, .q gX, 0)] = [[0, Cyc8.zeta.conj], [Cyc8.zeta.conj, 0]] ∧
    evalCirc 1 [(0, .q phZ, 1), (0, .q gX, 0)] = [[0, Cyc8.zeta], [Cyc8.zeta, 0]] ∧
    Cyc8.zeta.conj ≠ Cyc8.zeta := by decide
example : ∀ x ∈ c2, x.2.1.inDaggerSet := by
  intro x hx
  simp only [c2, List.mem_cons, List.not_mem_nil, or_false] at hx
  rcases hx with rfl | rfl | rfl | rfl | rfl
  · exact .inr (.inr (.inr (.inr (.inr (.inr (.inr ⟨"phase", Cyc8.zeta, true, rfl, by decide⟩))))))
  · exact .inl (by simp [unitaryGates, unitaryBase, tableGates, named])
  · exact .inr (.inr (.inr (.inr (.inr (.inr (.inr ⟨"PI", Cyc8.I, false, rfl, by decide⟩))))))
  · exact .inr (.inr (.inr (.inl (List.mem_map.2 ⟨[false], by decide, rfl⟩))))
  · exact .inr (.inr (.inr (.inr (.inr (.inr (.inr ⟨"PG", ⟨1, 0, -3, 0, 1⟩, false, rfl, by decide⟩))))))
example : evalCirc 2 (Circ.dagger c2) = dagger (evalCirc 1 c2) ∧ evalCirc 1 c2 ≠ evalCirc 1 (c2.drop 1) := by
  decide
example : evalModes false true [false, true, false] = [true, false, true, false] ∧
    sumModes false [false, false] = some [false, false] ∧ sumModes false [false, true] = some [true, true] := by
  decide
/-- The generic theorem at ℂ, every pair of real phases: `Rx(φ) ⊗ 1` then `CRz(ψ)` is unitary. -/
example (φ ψ : ℝ) :
    mul (evalLayers 2 [(0, RxC φ, 1), (0, CRzC ψ, 0)]) (dagger (evalLayers 2 [(0, RxC φ, 1), (0, CRzC ψ, 0)]))
      = idQ 2 :=
  evalLayers_isometry (LIsometric.cons (l := 0) (a := 1) (b := 1) (r := 1) (by simp [IsMat, RxC, rx, pow2]) (rot_unitary_complex φ).1
    (LIsometric.cons (l := 0) (a := 2) (b := 2) (r := 0) (by simp [IsMat, CRzC, crz, pow2]) (rot_unitary_complex ψ).2.2.2.2.2.1
      (LIsometric.nil 2)))
/-- The star-ring hypotheses of the symbolic theorems hold in ℂ at φ = 0.3 (and every φ). -/
example : nuC 0.3 * nuC (-0.3) = 1 ∧ 2 * cC 0.3 = nuC 0.3 + nuC (-0.3) := ⟨hyp_nu _, hyp_c _⟩

end DV.C11
