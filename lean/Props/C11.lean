/-
  Props/C11.lean — C11 "Pure circuits evaluate to the unitary they describe".
  Property theorems only; proofs in Proofs/GatesTable.lean (finite tables, `decide` in exact
  ℤ[ζ₈][1/2] arithmetic), Proofs/Gates.lean (rotations symbolic in the phase, arbitrary commutative
  star ring) and Proofs/GatesComplex.lean (instantiation at ℂ: every real phase).

  Conventions: matrices are discopy's own — rows = INPUT index, columns = OUTPUT index, leftmost
  qubit most significant; `f >> g` is `mul f g`.  The standard (textbook / tket) matrix `U[out][in]` of
  an operation is therefore the TRANSPOSE of its array (`tketIO`).

  PROVED
    * the whole `GATES` table: unitary; equal to the identically named tket matrices — for the
      repaired table, and for the table as it is except `Y` (finding F17, witnessed);
    * rotations Rx, Ry, Rz, CU1, CRz, CRx at EVERY real phase: unitary, `U(−φ) = U(φ)ᴴ`, equal to the
      tket matrices (repaired `Ry`; `Ry` as it is is the transpose = `Ry(−φ)`, F17);
    * controlled gates: `Controlled(U) = |0⟩⟨0|⊗1 + |1⟩⟨1|⊗U` for every one-qubit `U`;
    * every dagger mechanism: flag (any stored array), negated phase (all φ), Ket ↔ Bra (all bitstrings
      of length ≤ 3), scalar (all values), SWAP/CX, rebuilt controlled gate — the last one AS IT IS is
      correct iff the target's stored array is Hermitian and FAILS for S, T (finding F2, witnessed);
      with the proposed repair it holds for every table gate;
    * kets and bras are the basis vectors (all bitstrings of length ≤ 3);
    * `rewire(op, a, b)` = "op on qubits a and b", refused iff a = b — all `a, b < 4`, generic op.
  NOT PROVED (kept below as `Prop`s, decided on every run by exact correspondence + numpy oracle)
    * `circuit_unitary`, `circuit_dagger`: the whole-circuit statements.  (That `eval` of a circuit IS the
      ordered product of `1 ⊗ gate ⊗ 1` is the content of C09 and is the definition of `evalCirc` here.)
    * `rewire_spec` for a symbolic `op` and for more than 4 qubits; kets/bras longer than 3 bits.
-/
import Proofs.GatesTable
import Proofs.GatesComplex

namespace DV.C11
open DV DV.Gates

/-! ### named gates -/

/-- Every gate of `GATES = [SWAP, CZ, CX, H, S, T, X, Y, Z]` is unitary. -/
theorem gate_unitary :
    ∀ p ∈ named, mul p.2.eval (dagger p.2.eval) = idQ p.2.dom ∧
                 mul (dagger p.2.eval) p.2.eval = idQ p.2.dom := named_unitary

/-- The (repaired) table equals the standard matrices of the identically named tket operations. -/
theorem gate_table_eq_tket : ∀ p ∈ namedRepaired, some p.2.eval = tketIO p.1 := namedRepaired_eq_tket

/-- The table the model currently transcribes (switch `f17Fixed`): all but `Y` while F17 is open. -/
theorem gate_table_eq_tket_partial :
    ∀ p ∈ named, (f17Fixed = true ∨ p.1 ≠ "Y") → some p.2.eval = tketIO p.1 := named_eq_tket

/-- F17 witness: `Y` as gates.py:561 stores it is tket's matrix un-transposed, i.e. the map `−Y`. -/
theorem F17_Y_is_transpose :
    some arrYAsIs = tketU "Y" ∧ some arrYAsIs ≠ tketIO "Y" ∧ arrYAsIs = msmul (-1) arrYFixed :=
  arrYAsIs_is_transpose

/-- `S.dagger()`, `T.dagger()`, `Controlled(S)`, `Controlled(Y)`, `Controlled(Z)` are tket's
    `Sdg`, `Tdg`, `CS`, `CY`, `CZ`. -/
theorem dagger_and_controlled_eq_tket :
    some (Gate.q gS).dagger.eval = tketIO "Sdg" ∧ some (Gate.q gT).dagger.eval = tketIO "Tdg" ∧
    some (Gate.ctrl (.q gS)).eval = tketIO "CS" ∧
    some (Gate.ctrl (.q ⟨"Y", 1, arrYFixed, some false⟩)).eval = tketIO "CY" ∧
    some (Gate.ctrl (.q gZ)).eval = tketIO "CZ" := dagger_names_eq_tket

/-! ### rotations, every real phase -/

/-- Rx, Ry (as it is and repaired), Rz, CU1, CRz, CRx are unitary at every real phase `φ`. -/
theorem rot_unitary (φ : ℝ) :
    mul (RxC φ) (dagger (RxC φ)) = identity 2 ∧ mul (RyAsIsC φ) (dagger (RyAsIsC φ)) = identity 2 ∧
    mul (RyFixedC φ) (dagger (RyFixedC φ)) = identity 2 ∧ mul (RzC φ) (dagger (RzC φ)) = identity 2 ∧
    mul (CU1C φ) (dagger (CU1C φ)) = identity 4 ∧ mul (CRzC φ) (dagger (CRzC φ)) = identity 4 ∧
    mul (CRxC φ) (dagger (CRxC φ)) = identity 4 := rot_unitary_complex φ

/-- Dagger by negated phase: `U(−φ) = U(φ)ᴴ` at every real phase. -/
theorem rot_dagger (φ : ℝ) :
    RxC (-φ) = dagger (RxC φ) ∧ RyAsIsC (-φ) = dagger (RyAsIsC φ) ∧ RyFixedC (-φ) = dagger (RyFixedC φ) ∧
    RzC (-φ) = dagger (RzC φ) ∧ CU1C (-φ) = dagger (CU1C φ) ∧ CRzC (-φ) = dagger (CRzC φ) ∧
    CRxC (-φ) = dagger (CRxC φ) := rot_dagger_complex φ

/-- The rotation arrays are the standard tket matrices (angle `2φ` half turns) in `[input, output]`
    order — over any commutative ring, hence at every phase; `Ry` in its repaired form. -/
theorem rot_matches_tket {R : Type} [CommRing R] (i c s ν ν' μ : R) :
    rx i c s = transpose (tketRx i c s) ∧ ryFixed c s = transpose (tketRy c s) ∧
    rz ν ν' = transpose (tketRz ν ν') ∧ cu1 μ = transpose (tketCU1 μ) ∧
    crz ν ν' = transpose (tketCRz ν ν') ∧ crx i c s = transpose (tketCRx i c s) :=
  Gates.rot_matches_tket i c s ν ν' μ

/-- F17 for `Ry`: the array as gates.py:402 has it is tket's matrix un-transposed = `Ry(−φ)`. -/
theorem F17_Ry_is_transpose {R : Type} [CommRing R] (c s : R) :
    ryAsIs c s = tketRy c s ∧ ryAsIs c s = transpose (tketRy c (-s)) ∧ ryAsIs c s = ryFixed c (-s) :=
  ryAsIs_is_transpose c s

/-- The executable model at every exactly representable phase (`n/8`; even `n` except CU1): the
    dagger evaluates to the adjoint and the rotation is unitary — ties the `Cyc8` instance the
    driver runs to the symbolic theorems. -/
theorem rot_table_exact :
    ∀ k ∈ rotKinds, ∀ n ∈ (if k = .CU1 then allPhases else evenPhases),
      (Gate.rot k n).dagger.eval = dagger (Gate.rot k n).eval ∧
      mul (Gate.rot k n).eval (dagger (Gate.rot k n).eval) = idQ k.nq := rot_table

/-! ### controlled gates -/

/-- `Controlled(U) = |0⟩⟨0| ⊗ 1 + |1⟩⟨1| ⊗ U` for every one-qubit `U` over every commutative ring. -/
theorem controlled_spec {R : Type} [CommRing R] (a b c d : R) :
    ctrlArr [[a, b], [c, d]] = ctrlSpec [[a, b], [c, d]] := ctrl_spec a b c d

/-- CRz, CRx, CU1 are the controlled Rz, Rx, `diag(1, e^{2πiφ})`. -/
theorem controlled_rotations {R : Type} [CommRing R] (i c s ν ν' μ : R) :
    crz ν ν' = ctrlArr (rz ν ν') ∧ crx i c s = ctrlArr (rx i c s) ∧ cu1 μ = ctrlArr [[1, 0], [0, μ]] :=
  ⟨rfl, rfl, rfl⟩

/-- On the table and at the representable phases, in the executable model. -/
theorem controlled_spec_exact :
    (∀ g ∈ oneQubitNamed, (Gate.ctrl (.q g)).eval = ctrlSpec (Gate.q g).eval) ∧
    (∀ n ∈ evenPhases,
      (Gate.rot .CRz n).eval = ctrlSpec (Gate.rot .Rz n).eval ∧
      (Gate.rot .CRx n).eval = ctrlSpec (Gate.rot .Rx n).eval ∧
      (Gate.ctrl (.rot .Rz n)).eval = (Gate.rot .CRz n).eval ∧
      (Gate.ctrl (.rot .Rx n)).eval = (Gate.rot .CRx n).eval ∧
      (Gate.ctrl (.rot .Ry n)).dagger.eval = dagger (Gate.ctrl (.rot .Ry n)).eval) :=
  ⟨controlled_spec_table, controlled_rot_table⟩

/-! ### dagger mechanisms -/

/-- Flag (gates.py:43 + tensor.py:358), rebuilt `CX`, `SWAP`: on the whole table. -/
theorem dagger_flag_eval :
    ∀ p ∈ named, p.2.dagger.eval = dagger p.2.eval ∧ p.2.dagger.dagger.eval = p.2.eval :=
  named_dagger_eval

/-- Flag mechanism for ANY stored array: un-flagged gate. -/
theorem dagger_flag_unflagged (g : QGate) (h : g.dg = some false) (f : Bool) :
    (Gate.q g).dagger.evalW f = dagger ((Gate.q g).evalW f) := flag_dagger_of_unflagged g h f

/-- Flag mechanism for any one-qubit array: flagged gate (dagger of a dagger). -/
theorem dagger_flag_flagged (name : String) (a b c d : Cyc8) (f : Bool) :
    (Gate.q ⟨name, 1, [[a, b], [c, d]], some true⟩).dagger.evalW f =
      dagger ((Gate.q ⟨name, 1, [[a, b], [c, d]], some true⟩).evalW f) :=
  flag_dagger_of_flagged name a b c d f

/-- A gate declared self-adjoint (`_dagger=None`) is handled correctly iff its array is Hermitian. -/
theorem dagger_flag_selfadjoint (g : QGate) (h : g.dg = none) (f : Bool) :
    ((Gate.q g).dagger.evalW f = dagger ((Gate.q g).evalW f)) ↔ g.arr = dagger g.arr :=
  flag_dagger_of_selfadjoint g h f

/-- Scalars: conjugation, every value. -/
theorem dagger_scalar (z : Cyc8) (f : Bool) :
    (Gate.scalar z).dagger.evalW f = dagger ((Gate.scalar z).evalW f) := scalar_dagger z f

/-- Rebuilt controlled gate (gates.py:286) AS IT IS: correct iff the target's stored array is
    Hermitian — `_partial`: it is NOT correct for every gate (F2). -/
theorem dagger_controlled_partial :
    ∀ g ∈ oneQubitNamed,
      ((Gate.ctrl (.q g)).dagger.evalAsIs = dagger (Gate.ctrl (.q g)).evalAsIs ↔ g.arr = dagger g.arr) :=
  controlled_dagger_table

/-- The same criterion for every one-qubit array over every commutative star ring. -/
theorem dagger_controlled_asis_iff {R : Type} [CommRing R] [StarRing R] (a b c d : R) :
    ctrlArr [[a, b], [c, d]] = dagger (ctrlArr [[a, b], [c, d]]) ↔
      [[a, b], [c, d]] = dagger [[a, b], [c, d]] := ctrl_asis_dagger_iff a b c d

/-- F2 witnesses: `Controlled(S).dagger()` and `Controlled(T).dagger()` evaluate to the UN-daggered
    matrix. -/
theorem F2_witness :
    ((Gate.ctrl (.q gS)).dagger.evalAsIs ≠ dagger (Gate.ctrl (.q gS)).evalAsIs ∧
     (Gate.ctrl (.q gS)).dagger.evalAsIs = (Gate.ctrl (.q gS)).evalAsIs) ∧
    ((Gate.ctrl (.q gT)).dagger.evalAsIs ≠ dagger (Gate.ctrl (.q gT)).evalAsIs ∧
     (Gate.ctrl (.q gT)).dagger.evalAsIs = (Gate.ctrl (.q gT)).evalAsIs) :=
  ⟨F2_controlled_S, F2_controlled_T⟩

/-- With the proposed repair the rebuilt controlled gate is correct on the whole table, flagged
    targets are controlled versions of their evaluation, un-flagged ones are unchanged. -/
theorem dagger_controlled_repaired :
    ∀ g ∈ oneQubitNamed,
      (Gate.ctrl (.q g)).dagger.evalFixed = dagger (Gate.ctrl (.q g)).evalFixed ∧
      (Gate.ctrl (.q g.dagger)).evalFixed = ctrlSpec (Gate.q g.dagger).evalFixed ∧
      (Gate.ctrl (.q g)).evalFixed = (Gate.ctrl (.q g)).evalAsIs := controlled_dagger_fixed_table

/-- The algebra behind the repair: `Controlled(U)ᴴ = Controlled(Uᴴ)` for every one-qubit `U`. -/
theorem controlled_dagger_commute {R : Type} [CommRing R] [StarRing R] (a b c d : R) :
    dagger (ctrlArr [[a, b], [c, d]]) = ctrlArr (dagger [[a, b], [c, d]]) := ctrl_dagger a b c d

/-! ### kets, bras -/

/-- `Ket(bs)` / `Bra(bs)` are the basis row / column vector of index `bs`; Ket ↔ Bra is the adjoint;
    `Ket(bs) >> Bra(bs) = 1` — all bitstrings of length ≤ 3. -/
theorem ket_bra_basis :
    ∀ bs ∈ bitstringsUpTo3,
      (Gate.ket bs).eval = [(bits bs.length).map fun x => if x = bs then 1 else 0] ∧
      (Gate.ket bs).dagger.eval = dagger (Gate.ket bs).eval ∧
      (Gate.bra bs).dagger.eval = dagger (Gate.bra bs).eval ∧
      mul (Gate.ket bs).eval (Gate.bra bs).eval = [[1]] := ket_bra_table

/-! ### rewire -/

/-- `rewire(op, a, b)` (gates.py:568-603, with the wire permutation as C10 specifies it) is refused
    iff `a = b` and otherwise is "op acting on qubits a and b" — all `a, b < 4`, on a generic integer
    matrix with 16 distinct entries (`_partial`: not for a symbolic `op`). -/
theorem rewire_spec_partial :
    ∀ p ∈ pairs 4, rewireMat genericOp p.1 p.2 =
      if p.1 = p.2 then .error .value
      else .ok (actsOn genericOp (max p.1 p.2 + 1) p.1 p.2) := rewire_table

/-! ### full statements that are NOT proved (decided by correspondence + oracle on every run) -/

/-- A gate of the language that is neither a ket, a bra nor a scalar. -/
def Gate.isUnitaryKind : Gate → Bool
  | .ket _ | .bra _ | .scalar _ => false
  | _ => true

/-- Whole circuits: unitary when built from gates only. -/
def circuit_unitary : Prop :=
  ∀ (n : Nat) (c : Circ), (∀ l ∈ c, Gate.isUnitaryKind l.2.1 = true) →
    mul (evalCirc n c) (dagger (evalCirc n c)) = idQ n

/-- Whole circuits: the dagger evaluates to the conjugate transpose (with F2 repaired). -/
def circuit_dagger : Prop :=
  ∀ (n m : Nat) (c : Circ), evalCirc m (Circ.dagger c) = dagger (evalCirc n c)

/-- `rewire` for every 4 × 4 `op` and every `(a, b)`. -/
def rewire_spec : Prop :=
  ∀ (op : M8) (a b : Nat), a ≠ b → rewireMat op a b = .ok (actsOn op (max a b + 1) a b)

/-! ### the hypotheses are met by concrete non-trivial values -/

example : (Gate.rot .Rx 2).eval ≠ idQ 1 ∧ (Gate.rot .CU1 3).eval ≠ idQ 2 := by decide
example : evalCirc 0 [(0, .ket [true, false], 0), (0, .q gH, 1), (0, .ctrl (.q gX), 0)] =
    [[Cyc8.invSqrt2, 0, 0, -Cyc8.invSqrt2]] := by decide
example : rewireMat (R := Int) genericOp 2 0 ≠ .ok (kron genericOp (idQ 1)) := by decide
example : (pairs 4).length = 16 ∧ named.length = 9 ∧ bitstringsUpTo3.length = 15 := by decide
/-- The star-ring hypotheses of the symbolic theorems hold in ℂ at φ = 0.3 (and every φ). -/
example : nuC 0.3 * nuC (-0.3) = 1 ∧ 2 * cC 0.3 = nuC 0.3 + nuC (-0.3) := ⟨hyp_nu _, hyp_c _⟩

end DV.C11
