/-
  Props/C05.lean — C05 "interchange moves exactly one box past a disconnected neighbour".
  Property theorems only; proofs in Proofs/Interchange.lean, Proofs/SMC.lean, Proofs/WFOps.lean.

  Proved: typing, refinement of the textbook exchange relation, soundness under every monoidal
  functor (into every partial strict monoidal algebra `SMC`), exact refusal for adjacent moves,
  three-outcome theorem for all `(i, j)` (never an axiom error), exact index refusal, boxes are
  permuted by adjacent transpositions.
  and the closed form of the box list after a general move (`interchange_move_spec`);
  an adjacent move can always be taken back: the opposite request succeeds under both preferences
  (`interchange_adjacent_reversible`) and under one of them restores the receiver field for field
  (`interchange_adjacent_undo`).  (After a longer move a single preference may route a box without
  inputs/outputs differently and be refused half way: no theorem, the check only counts it.)
  Interchange is blind to WHAT sits in `boxes` (`interchange_box_blind`, Proofs/InterchangeBlind.lean):
  it commutes with every relabelling of the boxes that keeps their domains and codomains, for all
  diagrams (well-formed or not), all `(i, j)`, both preferences — so a composite diagram used as a
  box, a formal sum, a bubble, a box of another class, a box with any name or data is moved or
  refused exactly as the plain box of the same type, with the same error class
  (`interchange_refusal_box_blind`).  (The TEXT of the error is outside the model: oracle only.)
-/
import Proofs.Move
import Proofs.Foliate
import Proofs.InterchangeBack
import Proofs.InterchangeBlind

namespace DV.C05
open DV

/-- Same domain, codomain, well-typed — for all `(i, j)` and both preferences. -/
theorem interchange_typing (d d' : Diagram) (i j : Int) (left : Bool) (hd : d.WF)
    (h : d.interchange i j left = .ok d') : d'.WF ∧ d'.dom = d.dom ∧ d'.cod = d.cod :=
  Diagram.interchange_wf hd h

/-- An adjacent interchange is an instance of the textbook exchange relation: the two layers
    `(l, f, m ++ dom g ++ r); (l ++ cod f ++ m, g, r)` become
    `(l ++ dom f ++ m, g, r); (l, f, m ++ cod g ++ r)` or conversely, all other layers untouched. -/
theorem interchange_adjacent_refines (d d' : Diagram) (i : Nat) (left : Bool) (hd : d.WF)
    (h : d.interchangeAdj i left = .ok d') : Exch d d' :=
  Diagram.interchangeAdj_refines hd h

/-- The result denotes the same morphism under every monoidal functor. -/
theorem interchange_sound {O M : Type} (C : SMC O M) (F : MFunctor C)
    (d d' : Diagram) (i j : Int) (left : Bool) (hd : d.WF)
    (h : d.interchange i j left = .ok d') : F.eval d' = F.eval d :=
  Diagram.interchange_sound F hd h

/-- Same boxes (as a multiset), for all `(i, j)`. -/
theorem interchange_boxes_perm (d d' : Diagram) (i j : Int) (left : Bool) (hd : d.WF)
    (h : d.interchange i j left = .ok d') : d'.boxes.Perm d.boxes :=
  Diagram.interchange_perm hd h

/-- One adjacent step transposes exactly boxes `i` and `i+1`; every other box keeps its position. -/
theorem interchange_adjacent_boxes (d d' : Diagram) (i : Nat) (left : Bool) (hd : d.WF)
    (h : d.interchangeAdj i left = .ok d') :
    ∃ b0 b1, d.boxes[i]? = some b0 ∧ d.boxes[i+1]? = some b1 ∧
      d'.boxes = d.boxes.take i ++ [b1, b0] ++ d.boxes.drop (i + 2) :=
  Diagram.interchangeAdj_boxes hd h

/-- Refusal is exact for an adjacent move: it succeeds iff the two boxes are free (`freeAt`: one
    lies entirely beside the other), and otherwise raises an interchanger error. -/
theorem interchange_adjacent_refusal (d : Diagram) (i : Nat) (left : Bool) (hd : d.WF)
    (hi : i + 1 < d.boxes.length) :
    ((∃ d', d.interchangeAdj i left = .ok d') ↔ freeAt d i) ∧
    (¬ freeAt d i → d.interchangeAdj i left = .error .interchanger) :=
  Diagram.interchangeAdj_ok_iff hd hi

/-- An adjacent move can be taken back: the opposite request on the result is accepted under both
    preferences (the neighbour is still unwired to the box that moved). -/
theorem interchange_adjacent_reversible (d d' : Diagram) (i : Nat) (left left' : Bool) (hd : d.WF)
    (h : d.interchangeAdj i left = .ok d') : ∃ d'', d'.interchangeAdj i left' = .ok d'' :=
  Diagram.interchangeAdj_back_ok hd h left'

/-- ... and under one of the two preferences it gives back the receiver exactly (all five fields,
    i.e. the offset bookkeeping of the move is undone). -/
theorem interchange_adjacent_undo (d d' : Diagram) (i : Nat) (left : Bool) (hd : d.WF)
    (h : d.interchangeAdj i left = .ok d') : ∃ left', d'.interchangeAdj i left' = .ok d :=
  Diagram.interchangeAdj_undo hd h

/-- For in-range `(i, j)` there are two outcomes only: a diagram or an interchanger error
    (the run-time composition checks on layers never raise an axiom error). -/
theorem interchange_outcomes (d : Diagram) (i j : Int) (left : Bool) (hd : d.WF)
    (hr : (0 ≤ i ∧ i < (d.boxes.length : Int)) ∧ (0 ≤ j ∧ j < (d.boxes.length : Int))) :
    (∃ d', d.interchange i j left = .ok d') ∨ d.interchange i j left = .error .interchanger :=
  Diagram.interchange_cases hd hr

/-- Out-of-range indices are refused with an index error, and only they. -/
theorem interchange_index_refusal (d : Diagram) (i j : Int) (left : Bool) (hd : d.WF) :
    d.interchange i j left = .error .index ↔
      ¬ (0 ≤ i ∧ i < (d.boxes.length : Int)) ∨ ¬ (0 ≤ j ∧ j < (d.boxes.length : Int)) :=
  Diagram.interchange_index_iff hd

/-- Closed form for ALL `(i, j)`: box `i` lands at position `j`, every other box keeps its
    relative order (`A ++ [a] ++ M ++ R ↦ A ++ M ++ [a] ++ R` when moving down, and the mirror
    image when moving up). -/
theorem interchange_move_spec (d d' : Diagram) (i j : Int) (left : Bool) (hd : d.WF)
    (h : d.interchange i j left = .ok d') :
    (i = j ∧ d' = d) ∨
    (i < j ∧ ∃ A M R a, d.boxes = A ++ a :: (M ++ R) ∧ (A.length : Int) = i ∧
        (M.length : Int) = j - i ∧ d'.boxes = A ++ M ++ a :: R) ∨
    (j < i ∧ ∃ L M R a, d.boxes = L ++ M ++ a :: R ∧ (L.length : Int) = j ∧
        (M.length : Int) = i - j ∧ d'.boxes = L ++ a :: (M ++ R)) :=
  Diagram.interchange_boxes hd h

/-- All sequences of interchanges: anything reached by interchanges (`IReach`) is well-typed, has
    the same type and boxes, and denotes the same morphism under every monoidal functor. -/
theorem interchange_sequences {O M : Type} (C : SMC O M) (F : MFunctor C) (d d' : Diagram)
    (hd : d.WF) (h : IReach d d') :
    (d'.WF ∧ d'.dom = d.dom ∧ d'.cod = d.cod ∧ d'.boxes.Perm d.boxes) ∧ F.eval d' = F.eval d :=
  ⟨h.wf hd, h.sound F hd⟩

/-- `foliate` only ever moves boxes by interchanges: every yielded step denotes the input. -/
theorem foliate_sound {O M : Type} (C : SMC O M) (F : MFunctor C) (d : Diagram)
    (steps slices : List Diagram) (hd : d.WF) (h : d.foliate = .ok (steps, slices)) :
    ∀ s ∈ steps, F.eval s = F.eval d :=
  fun s hs => ((Diagram.foliate_reach hd h).1 s hs).sound F hd

/-- Interchange commutes with every relabelling `φ` of the boxes that keeps their domain and
    codomain — whatever else `φ` does to kind, name, dagger flag and data; for ALL diagrams (no
    well-formedness hypothesis), all `(i, j)` and both preferences. -/
theorem interchange_box_blind (φ : Box → Box) (hφ : TypePreserving φ) (d : Diagram) (i j : Int)
    (left : Bool) :
    (d.mapBox φ).interchange i j left = mapOk (Diagram.mapBox φ) (d.interchange i j left) :=
  Diagram.mapBox_interchange hφ d i j left

/-- ... in particular the refusal and its class (interchanger / index) do not depend on what the
    boxes are. -/
theorem interchange_refusal_box_blind (φ : Box → Box) (hφ : TypePreserving φ) (d : Diagram)
    (i j : Int) (left : Bool) (e : Err) :
    (d.mapBox φ).interchange i j left = .error e ↔ d.interchange i j left = .error e :=
  Diagram.interchange_error_blind hφ d i j left e

/-! Non-vacuity -/
private def x : Ob := ⟨"x", 0⟩
private def y : Ob := ⟨"y", 0⟩
private def f : Box := { name := "f", dom := [x], cod := [y] }
private def g : Box := { name := "g", dom := [x], cod := [y, y] }
private def okWith (r : Except Err Diagram) (p : Diagram → Bool) : Bool :=
  match r with | .error _ => false | .ok d => p d
private def isErr (r : Except Err Diagram) (e : Err) : Bool :=
  match r with | .error e' => e' == e | .ok _ => false
private def h : Box := { name := "h", dom := [y, y], cod := [] }

-- f ⊗ g : interchange(0, 1) gives g at offset 1 first, then f at 0
example : okWith ((Expr.mk [x, x] [y, y, y] [f, g] [0, 1]).interchange 0 1 false).eval
    (fun d => d.boxes == [g, f] && d.offsets == [1, 0]) = true := by decide
-- connected boxes are refused
example : isErr ((Expr.mk [x] [] [g, h] [0, 0]).interchange 0 1 false).eval .interchanger = true := by
  decide
example : isErr ((Expr.mk [x] [] [g, h] [0, 0]).interchange 0 2 false).eval .index = true := by decide
-- moving back: a state `u` right of the wire an effect `e` consumes; after the exchange `e` (no
-- output) and `u` (no input) sit at the same offset, so the way back is ambiguous: the left
-- preference restores the receiver exactly, the default preference is accepted as well but puts
-- `u` on the other side (offsets [0, 1] instead of [1, 0])
private def u : Box := { name := "u", dom := [], cod := [y] }
private def e : Box := { name := "e", dom := [x], cod := [] }
example : okWith ((Expr.mk [x] [y] [u, e] [1, 0]).interchange 0 1 false).eval
    (fun d => d.boxes == [e, u] && d.offsets == [0, 0]) = true := by decide
example : (((Expr.mk [x] [y] [u, e] [1, 0]).interchange 0 1 false).interchange 1 0 true).eval
    = (Expr.mk [x] [y] [u, e] [1, 0]).eval := by decide
example : okWith (((Expr.mk [x] [y] [u, e] [1, 0]).interchange 0 1 false).interchange 1 0 false).eval
    (fun d => d.boxes == [u, e] && d.offsets == [0, 1]) = true := by decide

-- box-blindness: every box replaced by an opaque token of another kind with other name and data
-- (what the check sends for a composite diagram sitting in `boxes`) is refused / moved alike
private def asToken (b : Box) : Box := { b with kind := .swap, name := "~D:" ++ b.name, dagger := true, data := "?" }
example : TypePreserving asToken := fun _ => ⟨rfl, rfl⟩
example : ((Diagram.mk [x] [] [g, h] [0, 0] ⟨[x], [], [⟨[], g, []⟩, ⟨[], h, []⟩]⟩).mapBox asToken).interchange 0 1 true
    = .error .interchanger := by decide
example : okWith (((Diagram.mk [x, x] [y, y, y] [f, g] [0, 1]
      ⟨[x, x], [y, y, y], [⟨[], f, [x]⟩, ⟨[y], g, []⟩]⟩).mapBox asToken).interchange 0 1 false)
    (fun d => d.boxes == [asToken g, asToken f] && d.offsets == [1, 0]) = true := by decide

end DV.C05
