/-
  Props/C15.lean — C15 "diagrammatic gradients evaluate to the gradient of the evaluation".
  Property theorems only; proofs in Proofs/Param.lean, Proofs/ParamGates.lean, Proofs/ParamBubble.lean
  and (the executable polynomial instance) Proofs/PolyRing.lean, PolyDiagram.lean, PolyBubble.lean;
  a concrete non-trivial instance of the per-gate hypotheses in Proofs/ParamJet.lean.

  PARTIAL.  Proved, for ANY derivation D (additive + Leibniz) on ANY commutative ring:
   * `then_leibniz`, `tensor_leibniz` — product rules for `>>` and `@`;
   * `grad_product_rule` — the recursion of tensor.Diagram.grad (tensor.py:485-492, including its
     "no free symbol → empty sum" exits): if every box gradient evaluates to D of the box, the
     gradient of the diagram evaluates to D of its evaluation; `grad_tensor_boxes` closes the
     hypothesis for tensor.Box.grad; `grad_of_constant`; `jacobian_order`;
   * bubbles (tensor.py:713-735, as repaired): `bubble_chain_rule` D(p ∘ f) = (p' ∘ f) · D f for a
     polynomial function given by its integer coefficients; `spiders_entrywise_product`
     Spider(1,2) >> A @ B >> Spider(2,1) is the entrywise product; `bubble_grad_rule` the terms
     built by Bubble.grad sum to D of the array of the bubble; `grad_with_bubbles` the recursion of
     Diagram.grad over plain boxes and single-wire polynomial bubbles;
   * per-gate rules, symbolic in ν = e^{iπ p(x)} with D ν = iπ p' ν: pure rotation rule (general
     and for the arrays of Rx, Ry, Rz as gates.py writes them), CU1 / CRz / CRx pure rules, the
     mixed parameter-shift rule on the doubled map conj(U) ⊗ U, Scalar.grad, Spider.grad.
  The EXECUTABLE instance satisfies the hypotheses: the model's formal derivative `Poly.deriv` is a
  derivation of the ring of the model's polynomials in normal form (`deriv_is_derivation`), hence
  `grad_poly` / `grad_poly_repaired` — now theorems, for every polynomial diagram — and
  `grad_poly_bubbles` for polynomial diagrams with bubbles (what the driver's `xgrad` computes).
  SEQUENCES: `subs_then_grad`, `grad_then_subs`, `subs_grad_commute` — the gradient of a substituted
  diagram, and the substituted gradient, evaluate to the derivative of the substituted evaluation
  resp. the substituted derivative (any ring homomorphism, any derivation), and agree when the
  substitution commutes with the derivation.
  FORMAL SUMS (Model/ParamSum.lean: circuit.Sum.grad, circuit.py:673-674, = the gradients of the
  terms concatenated, one per occurrence): `grad_sum` — for terms of any kind with an evaluation
  into a commutative ring, if every term's gradient evaluates to the derivative of the term, the
  gradient of the sum evaluates to the derivative of the evaluation of the sum (a LIST: a term
  occurring n times contributes n times, `grad_sum_multiplicity`); `grad_sum_tensor` for lists of
  layer lists under the hypotheses of the product rule; `grad_twice` — the gradient of the sum that
  `grad` returned evaluates to D'(D(eval)) (second and, iterating, higher order, mixed partials);
  the executable instance `grad_poly_sum`, `grad_poly_twice` (driver commands `psumgrad`, `pgrad2`).
  JACOBIAN KEYWORDS (Model/ParamJac.lean: Circuit.jacobian, circuit.py:503-534, with its `**params`
  and its three branches — no variable, exactly one, several): `jacobian_no_variable`,
  `jacobian_one_variable` — with one variable the jacobian IS `grad(x, **params)`, keywords
  included; `jacobian_stacks_gradients_with_same_keywords` — for any number of variables, block k
  of the evaluation of the jacobian is the evaluation of the gradient w.r.t. the k-th variable
  taken with the SAME keywords; a one-variable branch that drops the keywords is refuted on a
  witness (`jacobian_dropping_keywords_is_wrong`).
  tensor.Sum has NO grad of its own in discopy 0.3.5: the inherited Diagram.grad sees a box without
  free symbols and returns the empty sum (finding F4s) — `tensor_sum_grad_as_found`, and the
  theorems above are about the repaired transcription (`sumHasGrad = true`).  A rule that
  differentiates each DISTINCT term once is refuted on a witness (`distinct_terms_rule_is_wrong`).
  `decide`d witnesses of finding F9 (mixed meaning of `Scalar.grad`) on integer polynomials.
  NOT proved: that sympy's `diff` is such a derivation and that sympy's exp/sin/cos satisfy
  `PhaseHyp` (oracle; sympy's polynomial arithmetic is compared with the model's by the streams
  `pgrad`/`pjac`/`xgrad` on every run); `bubble' @ term` is read as the Kronecker product of the
  two evaluations and box-gradient terms are whiskered as single boxes (a term that is itself a
  diagram is represented by its evaluation — functoriality is C09's); bubbles are single-wire,
  polynomial and not nested.
-/
import Proofs.ParamJet
import Proofs.PolyBubble
import Proofs.ParamSum
import Proofs.ParamJac

namespace DV.C15
open DV.Param

/-- Product rule for `>>`. -/
theorem then_leibniz {R : Type} [CommRing R] (d : Deriv R) (n : Nat) (a b : Mat R) (i k : Nat) :
    d.D (matMul n a b i k)
      = matMul n (fun i j => d.D (a i j)) b i k + matMul n a (fun i j => d.D (b i j)) i k :=
  DV.Param.then_leibniz d n a b i k

/-- Product rule for `@`. -/
theorem tensor_leibniz {R : Type} [CommRing R] (d : Deriv R) (p q : Nat) (a b : Mat R) (i j : Nat) :
    d.D (kron p q a b i j)
      = kron p q (fun i j => d.D (a i j)) b i j + kron p q a (fun i j => d.D (b i j)) i j :=
  DV.Param.tensor_leibniz d p q a b i j

/-- **Product rule over the layers.** -/
theorem grad_product_rule {R : Type} [CommRing R] [HasConj R] (d : Deriv R)
    (dep : PBox R → Bool) (G : PBox R → List (PBox R))
    (hdims : ∀ b, ∀ b' ∈ G b, b'.dom = b.dom ∧ b'.cod = b.cod)
    (hG : ∀ b i j, ((G b).map (fun b' => b'.arr i j)).sum = d.D (b.arr i j))
    (hdep : ∀ b, dep b = false → ∀ i j, d.D (b.arr i j) = 0)
    (ls : List (PLayer R)) (i k : Nat) :
    evalSum (gradLayers dep G ls) i k = d.D (evalLayers ls i k) :=
  DV.Param.grad_product_rule d dep G hdims hG hdep ls i k

/-- Tensor diagrams of plain boxes, with tensor.Box.grad as the code has it (`checksFS = false`)
    or repaired (`true`): the gradient evaluates to the derivative of the evaluation. -/
theorem grad_tensor_boxes {R : Type} [CommRing R] [HasConj R] (d : Deriv R) (checksFS : Bool)
    (dep : PBox R → Bool)
    (hconj : ∀ x, d.D (HasConj.conj x) = HasConj.conj (d.D x))
    (hdep : ∀ b, dep b = false → ∀ i j, d.D (b.arr i j) = 0)
    (ls : List (PLayer R)) (i k : Nat) :
    evalSum (gradLayers dep (boxGrad checksFS dep d.D) ls) i k = d.D (evalLayers ls i k) :=
  DV.Param.grad_product_rule d dep _ (boxGrad_dims checksFS dep d.D)
    (boxGrad_spec d checksFS dep hconj hdep) hdep ls i k

/-! ### the executable instance -/

/-- The model's formal partial derivative is a derivation (additive + Leibniz) of the ring of the
    model's polynomials in normal form. -/
theorem deriv_is_derivation (v : Nat) :
    ∃ D : Deriv NPoly, ∀ a : NPoly, (D.D a).1 = Poly.deriv v a.1 :=
  ⟨NPoly.derivN v, fun _ => rfl⟩

/-- **The executable instance** (tensor.Box.grad as found): the derivation `Poly.deriv` in the
    product rule, for every polynomial diagram (data in normal form or not). -/
theorem grad_poly (d : PolyDiagram) (v : Nat) (i k : Nat) :
    evalSum (d.grad false v) i k = Poly.deriv v (d.eval i k) :=
  grad_poly_proof false d v i k

/-- …and with the repaired tensor.Box.grad (empty sum for a box without the symbol). -/
theorem grad_poly_repaired (d : PolyDiagram) (v : Nat) (i k : Nat) :
    evalSum (d.grad true v) i k = Poly.deriv v (d.eval i k) :=
  grad_poly_proof true d v i k

/-- `grad_product_rule` instantiated literally at the executable ring: data in normal form,
    `D = Poly.deriv v`. -/
theorem grad_npoly (checksFS : Bool) (v : Nat) (ls : List (PLayer NPoly)) (i k : Nat) :
    evalSum (gradLayers (npolyDep v) (boxGrad checksFS (npolyDep v) (NPoly.derivN v).D) ls) i k
      = (NPoly.derivN v).D (evalLayers ls i k) :=
  DV.Param.grad_npoly checksFS v ls i k

/-- The executable jacobian (driver command `pjac`): block `k` of the columns is the formal
    derivative with respect to the `k`-th listed variable. -/
theorem jacobian_poly (checksFS : Bool) (d : PolyDiagram) (vs : List Nat) (c : Nat)
    (i k j : Nat) (hj : j < c) (v : Nat) (hk : vs[k]? = some v) :
    jacobianMat c (vs.map (fun v => evalSum (d.grad checksFS v))) i (k * c + j)
      = Poly.deriv v (d.eval i j) :=
  jacobian_poly_proof checksFS d vs c i k j hj v hk

/-! ### bubbles: the chain rule of tensor.Bubble.grad -/

/-- **Chain rule** at one entry: `D (p(x)) = p'(x) · D x`, `p` given by integer coefficients and
    `p'` by the coefficient list `polyDeriv` (sympy: `func(tmp).diff(tmp).subs(tmp, x)`). -/
theorem bubble_chain_rule {R : Type} [CommRing R] (d : Deriv R) (ι : ℤ →+* R) (cs : List Int)
    (x : R) : d.D (polyApply ι cs x) = polyApply ι (polyDeriv cs) x * d.D x :=
  chain_rule d ι cs x

/-- `Spider(1, 2, a) >> A @ B >> Spider(2, 1, b)` is the entrywise product of `A, B : a → b`. -/
theorem spiders_entrywise_product {R : Type} [CommRing R] (a b : Nat) (A B : Mat R) (i j : Nat) :
    spiderSandwich a b A B i j = if i < a ∧ j < b then A i j * B i j else 0 :=
  spiderSandwich_eq a b A B i j

/-- **Bubble.grad**: the diagrams `Spider(1,2) >> inside.bubble(p') @ t >> Spider(2,1)`, `t` over the
    terms of `inside.grad(var)`, sum entry by entry to `D` of the array of the bubble — i.e. to
    `(p' ∘ f) · D f`. -/
theorem bubble_grad_rule {R : Type} [CommRing R] [HasConj R] (d : Deriv R) (ι : ℤ →+* R)
    (checksFS : Bool) (depP : PBox R → Bool)
    (hconj : ∀ x, d.D (HasConj.conj x) = HasConj.conj (d.D x))
    (hdepP : ∀ b, depP b = false → ∀ i j, d.D (b.arr i j) = 0)
    (dom cod : List Nat) (func : List Int) (inside : List (PLayer R)) (i j : Nat) :
    ((xboxGrad checksFS depP d.D (.bubble dom cod func inside)).map
        (fun b' => b'.arr (ι : Int → R) i j)).sum
      = d.D (bubbleArr (ι : Int → R) (prod dom) (prod cod) func inside i j) :=
  bubble_grad_spec d ι checksFS depP hconj hdepP (.bubble dom cod func inside) trivial i j

/-- tensor.Diagram.grad over plain boxes and bubbles evaluates to the derivative of the
    evaluation. -/
theorem grad_with_bubbles {R : Type} [CommRing R] [HasConj R] (d : Deriv R) (ι : ℤ →+* R)
    (checksFS : Bool) (depP : PBox R → Bool)
    (hconj : ∀ x, d.D (HasConj.conj x) = HasConj.conj (d.D x))
    (hdepP : ∀ b, depP b = false → ∀ i j, d.D (b.arr i j) = 0)
    (ls : List (XLayer R)) (hin : ∀ l ∈ ls, l.box.isInput) (i k : Nat) :
    xevalSum (ι : Int → R) (xgradLayers (XBox.dep depP) (xboxGrad checksFS depP d.D) ls) i k
      = d.D (xevalLayers (ι : Int → R) ls i k) :=
  xgrad_rule d ι checksFS depP hconj hdepP ls hin i k

/-- **The executable instance with bubbles**: on polynomial diagrams of plain boxes and bubbles the
    model's gradient (driver command `xgrad`) evaluates to the formal derivative of the model's
    evaluation (`xeval`). -/
theorem grad_poly_bubbles (checksFS : Bool) (v : Nat) (ls : List (XLayer Poly))
    (hin : ∀ l ∈ ls, l.box.isInput) (i k : Nat) :
    xevalSum Poly.const (polyXGrad checksFS v ls) i k
      = Poly.deriv v (xevalLayers Poly.const ls i k) :=
  xgrad_poly checksFS v ls hin i k

/-- A diagram not depending on the symbol has the empty sum as gradient. -/
theorem grad_of_constant {R : Type} (dep : PBox R → Bool) (G : PBox R → List (PBox R))
    (ls : List (PLayer R)) (h : ∀ l ∈ ls, dep l.box = false) : gradLayers dep G ls = [] :=
  DV.Param.grad_of_constant dep G ls h

/-- The jacobian stacks the gradients in the order of the variables: the block of columns
    `k*c … k*c + c − 1` is the gradient with respect to the k-th variable. -/
theorem jacobian_order {R : Type} [Zero R] (c : Nat) (grads : List (Mat R)) (i k j : Nat)
    (hj : j < c) (g : Mat R) (hk : grads[k]? = some g) :
    jacobianMat c grads i (k * c + j) = g i j :=
  jacobianMat_entry c grads i k j hj g hk

/-! ### Circuit.jacobian and its keyword arguments -/

/-- No variable: the empty sum, whatever the keywords. -/
theorem jacobian_no_variable {V K T : Type} (grad : V → K → List T) (kw : K) :
    circuitJacobian grad [] kw = [] := rfl

/-- Exactly one variable: the jacobian is the gradient taken WITH THE SAME KEYWORDS (no digit
    wire is added). -/
theorem jacobian_one_variable {V K T : Type} (grad : V → K → List T) (x : V) (kw : K) :
    circuitJacobian grad [x] kw = (grad x kw).map JTerm.bare := rfl

/-- For any number of variables, block `k` of the evaluation of the jacobian is the evaluation of
    the gradient with respect to the k-th variable taken with the same keywords (`val` = any fixed
    entry of the evaluation of a term, additive over formal sums). -/
theorem jacobian_stacks_gradients_with_same_keywords {V K T R : Type} [AddCommMonoid R]
    (grad : V → K → List T) (kw : K) (val : T → R) (vars : List V) (k : Nat) (x : V)
    (h : vars[k]? = some x) :
    ((circuitJacobian grad vars kw).map (JTerm.blockVal val k)).sum = ((grad x kw).map val).sum :=
  circuitJacobian_block grad kw val vars k x h

/-- A gradient with two modes (`true` = parameter shift: two terms; `false` = pure: one term). -/
def jacWitnessGrad (x : Nat) (mixed : Bool) : List Nat := if mixed then [x, x + 1] else [x]

/-- A one-variable branch that does not forward the keywords returns the default gradient where the
    pure one was asked; with zero or two variables it cannot be told from the code. -/
theorem jacobian_dropping_keywords_is_wrong :
    circuitJacobianDroppingKeywords jacWitnessGrad true [7] false ≠ circuitJacobian jacWitnessGrad [7] false
    ∧ circuitJacobianDroppingKeywords jacWitnessGrad true [] false = circuitJacobian jacWitnessGrad [] false
    ∧ circuitJacobianDroppingKeywords jacWitnessGrad true [7, 8] false
        = circuitJacobian jacWitnessGrad [7, 8] false
    ∧ circuitJacobianDroppingKeywords jacWitnessGrad true [7] true = circuitJacobian jacWitnessGrad [7] true := by
  decide

example : circuitJacobian jacWitnessGrad [7, 8] false = [JTerm.row 0 2 7, JTerm.row 1 2 8] := by decide
example : ((circuitJacobian jacWitnessGrad [7, 8] true).map (JTerm.blockVal (fun t : Nat => Int.ofNat t) 1)).sum = 17 :=
  by decide

/-! ### per-gate rules -/

section
variable {K : Type} [CommRing K] {d : Deriv K} {I pi p' ν ν' : K}

/-- `Rotation.grad(mixed=False) = scalar(π p') @ R(φ + 1/2)` for any array linear in ν, ν'. -/
theorem rotation_pure_rule (H : PhaseHyp d I pi p' ν ν') (A B : Mat K)
    (hA : ∀ i j, d.D (A i j) = 0) (hB : ∀ i j, d.D (B i j) = 0) (i j : Nat) :
    d.D (Ulin A B ν ν' i j) = pi * p' * Ulin A B (I * ν) (-I * ν') i j :=
  DV.Param.rotation_pure_rule H A B hA hB i j

theorem Rx_pure_rule (H : PhaseHyp d I pi p' ν ν') (h : K) (hh : 2 * h = 1) (i j : Nat) :
    d.D (RxArr I h ν ν' i j) = pi * p' * RxArr I h (I * ν) (-I * ν') i j :=
  DV.Param.Rx_pure_rule h H hh i j

theorem Ry_pure_rule (H : PhaseHyp d I pi p' ν ν') (h : K) (hh : 2 * h = 1) (i j : Nat) :
    d.D (RyArr I h ν ν' i j) = pi * p' * RyArr I h (I * ν) (-I * ν') i j :=
  DV.Param.Ry_pure_rule h H hh i j

theorem Rz_pure_rule (H : PhaseHyp d I pi p' ν ν') (i j : Nat) :
    d.D (RzArr ν ν' i j) = pi * p' * RzArr (I * ν) (-I * ν') i j :=
  DV.Param.Rz_pure_rule H i j

theorem CU1_pure_rule (H : PhaseHyp d I pi p' ν ν') (k : Nat) :
    d.D (CU1Diag ν k) = CU1GradDiag I pi p' ν k :=
  DV.Param.CU1_pure_rule H k

theorem CRz_pure_rule (H : PhaseHyp d I pi p' ν ν') (h : K) (hh : 2 * h = 1) (k : Nat) (hk : k < 4) :
    d.D (CRzDiag ν ν' k)
      = CRzDiag ν ν' k * (ZZ k * (I * h * pi * p') + IZ k * (-(I * h * pi * p'))) :=
  DV.Param.CRz_pure_rule h H hh k hk

theorem CRx_pure_rule (H : PhaseHyp d I pi p' ν ν') (h : K) (hh : 2 * h = 1) (i j : Nat)
    (hi : i < 2) (hj : j < 2) :
    d.D (RxArr I h ν ν' i j)
      = matMul 2 (RxArr I h ν ν')
          (fun a b => (-1) * (mat2 0 1 1 0 a b * (I * h * pi * p'))
                      + 1 * (mat2 0 1 1 0 a b * (-(I * h * pi * p')))) i j :=
  DV.Param.CRx_pure_rule_lower h H hh i j hi hj

/-- The default (mixed) rule on the doubled map of a single-qubit rotation:
    `D 𝒰(φ) = π p' (𝒰(φ + 1/4) − 𝒰(φ − 1/4))`. -/
theorem rotation_mixed_rule (H : PhaseHyp d I pi p' ν ν') (ζ ζ' : K)
    (hζ : ζ * ζ = I) (hζ' : ζ' * ζ' = -I) (n : Nat) (A B A' B' : Mat K)
    (hA : ∀ i j, d.D (A i j) = 0) (hB : ∀ i j, d.D (B i j) = 0)
    (hA' : ∀ i j, d.D (A' i j) = 0) (hB' : ∀ i j, d.D (B' i j) = 0) (r c : Nat) :
    d.D (kron n n (Ulin A' B' ν ν') (Ulin A B ν ν') r c)
      = pi * p' * (kron n n (Ulin A' B' (ζ * ν) (ζ' * ν')) (Ulin A B (ζ * ν) (ζ' * ν')) r c
                 - kron n n (Ulin A' B' (ζ' * ν) (ζ * ν')) (Ulin A B (ζ' * ν) (ζ * ν')) r c) :=
  DV.Param.rotation_mixed_rule H ζ ζ' hζ hζ' n A B A' B' hA hB hA' hB' r c

/-- `Spider.grad` (zx.py:289-295) under the symmetric phase convention. -/
theorem spider_rule (H : PhaseHyp d I pi p' ν ν') :
    d.D ν' = pi * p' * (-I * ν') ∧ d.D ν = pi * p' * (I * ν) ∧ d.D (0 : K) = pi * p' * 0 :=
  DV.Param.spider_rule H

/-- …and not under the standard convention diag(1, e^{2πiφ}) unless the phase is constant. -/
theorem spider_rule_std_convention_fails (μ : K)
    (rule : d.D (1 : K) = pi * p' * 1 ∧ d.D μ = pi * p' * (-μ)) : pi * p' = 0 :=
  DV.Param.spider_rule_std_convention_fails μ rule

/-- `Scalar.grad` for amplitudes, and what a gradient of the CQ meaning `conj(s)·s` of a pure
    scalar has to be. -/
theorem scalar_rule (s s' : K) : d.D (s' * s) = d.D s' * s + s' * d.D s :=
  DV.Param.scalar_mixed_target s s'

end

/-! ### finding F9, decided on integer polynomials -/

/-- Pure scalar `s = x0` in a default (mixed) gradient: its CQ meaning is `x0²` with derivative
    `2·x0`; `Scalar.grad` returns the pure scalar `1`, whose CQ meaning is `1`. -/
theorem scalar_grad_mixed_meaning_witness_pure :
    Poly.deriv 0 (Poly.var 0 * Poly.var 0) ≠ Poly.deriv 0 (Poly.var 0) * Poly.deriv 0 (Poly.var 0) := by
  decide

/-- Mixed scalar `s = x0²`: CQ meaning `x0²`, derivative `2·x0`; `Scalar.grad` returns a PURE
    scalar `2·x0`, whose CQ meaning is `4·x0²`. -/
theorem scalar_grad_mixed_meaning_witness_mixed :
    Poly.deriv 0 (Poly.var 0 * Poly.var 0)
      ≠ Poly.deriv 0 (Poly.var 0 * Poly.var 0) * Poly.deriv 0 (Poly.var 0 * Poly.var 0) := by
  decide

/-! ### grad composed with substitution (sequences of parameter operations) -/

/-- **subs then grad**: the gradient of the SUBSTITUTED diagram (σ any ring homomorphism commuting
    with conjugation, e.g. y := an expression that may mention x) evaluates to the derivative of the
    substituted evaluation. -/
theorem subs_then_grad {R S : Type} [CommRing R] [CommRing S] [HasConj R] [HasConj S]
    (σ : R →+* S) (hσ : ∀ x, σ (HasConj.conj x) = HasConj.conj (σ x))
    (d : Deriv S) (checksFS : Bool) (dep : PBox S → Bool)
    (hconj : ∀ x, d.D (HasConj.conj x) = HasConj.conj (d.D x))
    (hdep : ∀ b, dep b = false → ∀ i j, d.D (b.arr i j) = 0)
    (ls : List (PLayer R)) (i k : Nat) :
    evalSum (gradLayers dep (boxGrad checksFS dep d.D) (ls.map (PLayer.mapData σ))) i k
      = d.D (σ (evalLayers ls i k)) := by
  rw [grad_tensor_boxes d checksFS dep hconj hdep,
      congrFun (congrFun (evalLayers_natural σ hσ ls) i) k]

/-- **grad then subs**: substituting in every term of the gradient (cat.Sum.subs, cat.py:721-723)
    and evaluating gives the substituted derivative of the evaluation. -/
theorem grad_then_subs {R S : Type} [CommRing R] [CommRing S] [HasConj R] [HasConj S]
    (σ : R →+* S) (hσ : ∀ x, σ (HasConj.conj x) = HasConj.conj (σ x))
    (d : Deriv R) (checksFS : Bool) (dep : PBox R → Bool)
    (hconj : ∀ x, d.D (HasConj.conj x) = HasConj.conj (d.D x))
    (hdep : ∀ b, dep b = false → ∀ i j, d.D (b.arr i j) = 0)
    (ls : List (PLayer R)) (i k : Nat) :
    evalSum ((gradLayers dep (boxGrad checksFS dep d.D) ls).map (·.map (PLayer.mapData σ))) i k
      = σ (d.D (evalLayers ls i k)) := by
  rw [← grad_tensor_boxes d checksFS dep hconj hdep ls i k]
  unfold evalSum
  rw [hom_sum_map, List.map_map]
  apply congrArg
  apply List.map_congr_left
  intro t _
  exact congrFun (congrFun (evalLayers_natural σ hσ t) i) k

/-- The two orders agree whenever the substitution commutes with the derivations (y := a value or
    an expression free of x). -/
theorem subs_grad_commute {R S : Type} [CommRing R] [CommRing S] [HasConj R] [HasConj S]
    (σ : R →+* S) (hσ : ∀ x, σ (HasConj.conj x) = HasConj.conj (σ x))
    (d : Deriv R) (d' : Deriv S) (hcomm : ∀ x, d'.D (σ x) = σ (d.D x))
    (checksFS : Bool) (dep : PBox R → Bool) (dep' : PBox S → Bool)
    (hconj : ∀ x, d.D (HasConj.conj x) = HasConj.conj (d.D x))
    (hconj' : ∀ x, d'.D (HasConj.conj x) = HasConj.conj (d'.D x))
    (hdep : ∀ b, dep b = false → ∀ i j, d.D (b.arr i j) = 0)
    (hdep' : ∀ b, dep' b = false → ∀ i j, d'.D (b.arr i j) = 0)
    (ls : List (PLayer R)) (i k : Nat) :
    evalSum (gradLayers dep' (boxGrad checksFS dep' d'.D) (ls.map (PLayer.mapData σ))) i k
      = evalSum ((gradLayers dep (boxGrad checksFS dep d.D) ls).map (·.map (PLayer.mapData σ))) i k := by
  rw [subs_then_grad σ hσ d' checksFS dep' hconj' hdep', grad_then_subs σ hσ d checksFS dep hconj hdep,
      hcomm]

/-- The hypotheses of `subs_then_grad` / `grad_then_subs` are met by the executable ring: the
    substitution x1 := x0², which mentions the variable x0 differentiated afterwards. -/
example (ls : List (PLayer NPoly)) (i k : Nat) :
    evalSum (gradLayers (npolyDep 0) (boxGrad true (npolyDep 0) (NPoly.derivN 0).D)
        (ls.map (PLayer.mapData
          (NPoly.substHom (fun n => if n = 1 then Poly.var 0 * Poly.var 0 else Poly.var n))))) i k
      = (NPoly.derivN 0).D
          (NPoly.substHom (fun n => if n = 1 then Poly.var 0 * Poly.var 0 else Poly.var n)
            (evalLayers ls i k)) :=
  subs_then_grad _ (fun _ => rfl) (NPoly.derivN 0) true (npolyDep 0) (NPoly.derivN_conj 0)
    (npolyDep_spec 0) ls i k

example (ls : List (PLayer NPoly)) (i k : Nat) :
    evalSum ((gradLayers (npolyDep 0) (boxGrad true (npolyDep 0) (NPoly.derivN 0).D) ls).map
        (·.map (PLayer.mapData (NPoly.substHom (fun n => if n = 1 then Poly.const 2 else Poly.var n))))) i k
      = NPoly.substHom (fun n => if n = 1 then Poly.const 2 else Poly.var n)
          ((NPoly.derivN 0).D (evalLayers ls i k)) :=
  grad_then_subs _ (fun _ => rfl) (NPoly.derivN 0) true (npolyDep 0) (NPoly.derivN_conj 0)
    (npolyDep_spec 0) ls i k

example (ls : List (PLayer NPoly)) (i k : Nat) :=
  subs_grad_commute (RingHom.id NPoly) (fun _ => rfl) (NPoly.derivN 0) (NPoly.derivN 0) (fun _ => rfl)
    true (npolyDep 0) (npolyDep 0) (NPoly.derivN_conj 0) (NPoly.derivN_conj 0) (npolyDep_spec 0)
    (npolyDep_spec 0) ls i k

/-! ### formal sums and higher-order gradients -/

/-- **Gradient of a formal sum** (circuit.Sum.grad; terms of any kind): one gradient per
    occurrence of a term, and the whole evaluates to the derivative of the evaluation of the sum. -/
theorem grad_sum {R T : Type} [CommRing R] (d : Deriv R) (ev : T → R) (g : T → List T)
    (hg : ∀ t, ((g t).map ev).sum = d.D (ev t)) (ts : List T) :
    ((gradSum g ts).map ev).sum = d.D ((ts.map ev).sum) :=
  DV.Param.grad_sum d ev g hg ts

/-- Multiplicity: the gradient of `t + ts` is the gradient of `t` followed by that of `ts`; a term
    occurring `n` times contributes its gradient `n` times. -/
theorem grad_sum_multiplicity {T : Type} (g : T → List T) (t : T) (ts : List T) (n : Nat) :
    gradSum g (t :: ts) = g t ++ gradSum g ts
      ∧ (gradSum g (List.replicate n t)).length = n * (g t).length :=
  ⟨gradSum_cons g t ts, gradSum_replicate_length g t n⟩

/-- Formal sums of tensor diagrams under the hypotheses of the product rule. -/
theorem grad_sum_tensor {R : Type} [CommRing R] [HasConj R] (d : Deriv R)
    (dep : PBox R → Bool) (G : PBox R → List (PBox R))
    (hdims : ∀ b, ∀ b' ∈ G b, b'.dom = b.dom ∧ b'.cod = b.cod)
    (hG : ∀ b i j, ((G b).map (fun b' => b'.arr i j)).sum = d.D (b.arr i j))
    (hdep : ∀ b, dep b = false → ∀ i j, d.D (b.arr i j) = 0)
    (ts : List (List (PLayer R))) (i k : Nat) :
    evalSum (gradSum (gradLayers dep G) ts) i k = d.D (evalSum ts i k) :=
  grad_sum_layers d dep G hdims hG hdep ts i k

/-- **Second-order gradients** `d.grad(x).grad(y)`: the gradient of the sum returned by `grad`
    evaluates to `D_y (D_x (eval d))`. -/
theorem grad_twice {R : Type} [CommRing R] [HasConj R] (d d' : Deriv R)
    (dep dep' : PBox R → Bool) (G G' : PBox R → List (PBox R))
    (hdims : ∀ b, ∀ b' ∈ G b, b'.dom = b.dom ∧ b'.cod = b.cod)
    (hG : ∀ b i j, ((G b).map (fun b' => b'.arr i j)).sum = d.D (b.arr i j))
    (hdep : ∀ b, dep b = false → ∀ i j, d.D (b.arr i j) = 0)
    (hdims' : ∀ b, ∀ b' ∈ G' b, b'.dom = b.dom ∧ b'.cod = b.cod)
    (hG' : ∀ b i j, ((G' b).map (fun b' => b'.arr i j)).sum = d'.D (b.arr i j))
    (hdep' : ∀ b, dep' b = false → ∀ i j, d'.D (b.arr i j) = 0)
    (ls : List (PLayer R)) (i k : Nat) :
    evalSum (gradSum (gradLayers dep' G') (gradLayers dep G ls)) i k
      = d'.D (d.D (evalLayers ls i k)) :=
  grad_twice_layers d d' dep dep' G G' hdims hG hdep hdims' hG' hdep' ls i k

/-- The executable instance (driver command `psumgrad`, repaired sums). -/
theorem grad_poly_sum (checksFS : Bool) (v : Nat) (ts : List (List (PLayer Poly))) (i k : Nat) :
    evalSum (polySumGrad true checksFS v ts) i k = Poly.deriv v (evalSum ts i k) :=
  grad_poly_sum_proof checksFS v ts i k

/-- The executable instance (driver command `pgrad2`, repaired sums). -/
theorem grad_poly_twice (checksFS : Bool) (v w : Nat) (d : PolyDiagram) (i k : Nat) :
    evalSum (polyGradTwice true checksFS v w d.layers) i k
      = Poly.deriv w (Poly.deriv v (d.eval i k)) :=
  grad_poly_twice_proof checksFS v w d.layers i k

/-- Finding F4s on the model: as the code is, the gradient of ANY formal sum of tensor diagrams is
    the empty sum (tensor.Sum inherits Diagram.grad, which sees a box without free symbols). -/
theorem tensor_sum_grad_as_found (checksFS : Bool) (v : Nat) (ts : List (List (PLayer Poly))) :
    polySumGrad false checksFS v ts = [] :=
  polySumGrad_as_found checksFS v ts

/-! ### non-vacuity: first-order jets over ℤ/17 (Proofs/ParamJet.lean) -/

open DV.Param.Jet in
example : jetD.D (RxArr Jet.I Jet.h Jet.ν Jet.ν' 0 1)
    = 1 * eps * RxArr Jet.I Jet.h (Jet.I * Jet.ν) (-Jet.I * Jet.ν') 0 1 :=
  Rx_pure_rule phaseHyp Jet.h two_h 0 1

open DV.Param.Jet in
example (r c : Nat) :
    jetD.D (kron 2 2 (Ulin (mat2 1 0 0 0) (mat2 0 0 0 1) Jet.ν Jet.ν')
                     (Ulin (mat2 0 0 0 1) (mat2 1 0 0 0) Jet.ν Jet.ν') r c)
      = 1 * eps * (kron 2 2 (Ulin (mat2 1 0 0 0) (mat2 0 0 0 1) (Jet.ζ * Jet.ν) (Jet.ζ' * Jet.ν'))
                            (Ulin (mat2 0 0 0 1) (mat2 1 0 0 0) (Jet.ζ * Jet.ν) (Jet.ζ' * Jet.ν')) r c
                 - kron 2 2 (Ulin (mat2 1 0 0 0) (mat2 0 0 0 1) (Jet.ζ' * Jet.ν) (Jet.ζ * Jet.ν'))
                            (Ulin (mat2 0 0 0 1) (mat2 1 0 0 0) (Jet.ζ' * Jet.ν) (Jet.ζ * Jet.ν')) r c) :=
  rotation_mixed_rule phaseHyp Jet.ζ Jet.ζ' ζ_sq ζ'_sq 2 _ _ _ _
    (mat2_const (d := jetD) _ _ _ _ jetD.zero jetD.zero jetD.zero jetD.one)
    (mat2_const (d := jetD) _ _ _ _ jetD.one jetD.zero jetD.zero jetD.zero)
    (mat2_const (d := jetD) _ _ _ _ jetD.one jetD.zero jetD.zero jetD.zero)
    (mat2_const (d := jetD) _ _ _ _ jetD.zero jetD.zero jetD.zero jetD.one) r c

open DV.Param.Jet in
example : jetD.D Jet.ν ≠ 0 := D_ν_ne_zero

/-- A two-layer polynomial diagram; its model gradient has two terms and evaluates to the
    derivative of the evaluation (the executable instance of `grad_tensor_boxes`). -/
def g0 : PolyDiagram :=
  { dom := [2],
    layers := [ { left := [], right := [],
                  box := { dom := [2], cod := [2], dagger := false,
                           data := [Poly.var 0, 1, Poly.var 1, Poly.var 0 * Poly.var 1] } },
                { left := [], right := [],
                  box := { dom := [2], cod := [2], dagger := true,
                           data := [Poly.const 2 * Poly.var 0, 0, 0, Poly.var 0 + 1] } } ] }

example : (g0.grad false 0).length = 2 := by decide
example : evalSum (g0.grad false 0) 1 1 = Poly.deriv 0 (g0.eval 1 1) := by decide
example : g0.grad false 2 = [] := by decide
example : evalSum (g0.grad true 0) 0 1 = Poly.deriv 0 (g0.eval 0 1) := grad_poly_repaired g0 0 0 1

/-- The formal sum `g0 + g0`: its gradient has 2 · 2 terms and evaluates to the derivative of the
    sum; the second-order gradient of `g0` has 4 terms. -/
example : (polySumGrad true false 0 [g0.layers, g0.layers]).length = 4 := by decide
example : evalSum (polySumGrad true false 0 [g0.layers, g0.layers]) 1 1
    = Poly.deriv 0 (evalSum [g0.layers, g0.layers] 1 1) := grad_poly_sum false 0 _ 1 1
example : Poly.deriv 0 (evalSum [g0.layers, g0.layers] 1 1) ≠ 0 := by decide
example : (polyGradTwice true false 0 1 g0.layers).length = 2 := by decide
example : evalSum (polyGradTwice true false 0 1 g0.layers) 1 1
    = Poly.deriv 1 (Poly.deriv 0 (g0.eval 1 1)) := grad_poly_twice false 0 1 g0 1 1
example : Poly.deriv 1 (Poly.deriv 0 (g0.eval 1 1)) ≠ 0 := by decide

/-- "Differentiate each distinct term only once" is NOT the gradient of a sum: on `g0 + g0` it
    gives half the derivative. -/
theorem distinct_terms_rule_is_wrong :
    evalSum (gradSumDistinct (polyGradLayers false 0) [g0.layers, g0.layers]) 1 1
      ≠ Poly.deriv 0 (evalSum [g0.layers, g0.layers] 1 1) := by
  decide

/-- `h >> f.bubble(p)` with `p(t) = 1 + 2t + t³`, `h : 1 → 2`, `f : 2 → 2`. -/
def b0 : List (XLayer Poly) :=
  [ { left := [], right := [],
      box := .plain { dom := [], cod := [2], dagger := false,
                      data := [Poly.var 0 * Poly.var 0, Poly.var 1] } },
    { left := [], right := [],
      box := .bubble [2] [2] [1, 2, 0, 1]
        [ { left := [], right := [],
            box := { dom := [2], cod := [2], dagger := false,
                     data := [Poly.var 0, 1, Poly.var 1, Poly.var 0 * Poly.var 1] } } ] } ]

example : polyDeriv [1, 2, 0, 1] = [2, 0, 3] := by decide
example : (polyXGrad true 0 b0).length = 2 := by decide
example : xevalSum Poly.const (polyXGrad true 0 b0) 0 1
    = Poly.deriv 0 (xevalLayers Poly.const b0 0 1) := by decide
example : xevalLayers Poly.const b0 0 1 ≠ 0 ∧ Poly.deriv 0 (xevalLayers Poly.const b0 0 1) ≠ 0 := by
  decide
example : polyXGrad true 2 b0 = [] := by decide
example (i k : Nat) : xevalSum Poly.const (polyXGrad true 0 b0) i k
    = Poly.deriv 0 (xevalLayers Poly.const b0 i k) :=
  grad_poly_bubbles true 0 b0 (by intro l hl; simp [b0] at hl; rcases hl with rfl | rfl <;> trivial) i k

end DV.C15
