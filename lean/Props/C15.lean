/-
  Props/C15.lean — C15 "diagrammatic gradients evaluate to the gradient of the evaluation".
  Property theorems only; proofs in Proofs/Param.lean, Proofs/ParamGates.lean;
  a concrete non-trivial instance of the hypotheses in Proofs/ParamJet.lean.

  PARTIAL.  Proved, for ANY derivation D (additive + Leibniz) on ANY commutative ring:
   * `then_leibniz`, `tensor_leibniz` — product rules for `>>` and `@`;
   * `grad_product_rule` — the recursion of tensor.Diagram.grad (tensor.py:485-492, including its
     "no free symbol → empty sum" exits): if every box gradient evaluates to D of the box, the
     gradient of the diagram evaluates to D of its evaluation; `grad_tensor_boxes` closes the
     hypothesis for tensor.Box.grad; `grad_of_constant`; `jacobian_order`;
   * per-gate rules, symbolic in ν = e^{iπ p(x)} with D ν = iπ p' ν: pure rotation rule (general
     and for the arrays of Rx, Ry, Rz as gates.py writes them), CU1 / CRz / CRx pure rules, the
     mixed parameter-shift rule on the doubled map conj(U) ⊗ U, Scalar.grad, Spider.grad.
  `decide`d witnesses of finding F9 (mixed meaning of `Scalar.grad`) on integer polynomials.
  NOT proved: that sympy's `diff` is such a derivation and that sympy's exp/sin/cos satisfy
  `PhaseHyp` (oracle); the ring laws of the executable instance `Poly` (so `grad_poly` below is
  only a `Prop`, checked by the streams `pgrad`/`pjac` on every run); bubbles (chain rule
  through Spider(1, 2)) are oracle-only; box-gradient terms are whiskered as single boxes (a
  term that is itself a diagram is represented by its evaluation — functoriality is C09's).
-/
import Proofs.ParamJet

namespace DV.C15
open DV.Param

/-- Product rule for `>>`. -/
theorem then_leibniz {R : Type} [CommRing R] (d : Deriv R) (n : Nat) (a b : Mat R) (i k : Nat) :
    d.D (matMul n a b i k)
      = matMul n (fun i j => d.D (a i j)) b i k + matMul n a (fun i j => d.D (b i j)) i k :=
  DV.Param.then_leibniz d n a b i k

/-- Product rule for `@`. -/
theorem tensor_leibniz {R : Type} [CommRing R] (d : Deriv R) (p q : Nat) (a b : Mat R) (i j : Nat) :
    d.D (kron p q a b i j)
      = kron p q (fun i j => d.D (a i j)) b i j + kron p q a (fun i j => d.D (b i j)) i j :=
  DV.Param.tensor_leibniz d p q a b i j

/-- **Product rule over the layers.** -/
theorem grad_product_rule {R : Type} [CommRing R] [HasConj R] (d : Deriv R)
    (dep : PBox R → Bool) (G : PBox R → List (PBox R))
    (hdims : ∀ b, ∀ b' ∈ G b, b'.dom = b.dom ∧ b'.cod = b.cod)
    (hG : ∀ b i j, ((G b).map (fun b' => b'.arr i j)).sum = d.D (b.arr i j))
    (hdep : ∀ b, dep b = false → ∀ i j, d.D (b.arr i j) = 0)
    (ls : List (PLayer R)) (i k : Nat) :
    evalSum (gradLayers dep G ls) i k = d.D (evalLayers ls i k) :=
  DV.Param.grad_product_rule d dep G hdims hG hdep ls i k

/-- Tensor diagrams of plain boxes, with tensor.Box.grad as the code has it (`checksFS = false`)
    or repaired (`true`): the gradient evaluates to the derivative of the evaluation. -/
theorem grad_tensor_boxes {R : Type} [CommRing R] [HasConj R] (d : Deriv R) (checksFS : Bool)
    (dep : PBox R → Bool)
    (hconj : ∀ x, d.D (HasConj.conj x) = HasConj.conj (d.D x))
    (hdep : ∀ b, dep b = false → ∀ i j, d.D (b.arr i j) = 0)
    (ls : List (PLayer R)) (i k : Nat) :
    evalSum (gradLayers dep (boxGrad checksFS dep d.D) ls) i k = d.D (evalLayers ls i k) :=
  DV.Param.grad_product_rule d dep _ (boxGrad_dims checksFS dep d.D)
    (boxGrad_spec d checksFS dep hconj hdep) hdep ls i k

/-- The executable instance of the same statement.  NOT proved (ring laws of `Poly`). -/
def grad_poly : Prop :=
  ∀ (d : PolyDiagram) (v : Nat) (i k : Nat),
    evalSum (d.grad false v) i k = Poly.deriv v (d.eval i k)

/-- A diagram not depending on the symbol has the empty sum as gradient. -/
theorem grad_of_constant {R : Type} (dep : PBox R → Bool) (G : PBox R → List (PBox R))
    (ls : List (PLayer R)) (h : ∀ l ∈ ls, dep l.box = false) : gradLayers dep G ls = [] :=
  DV.Param.grad_of_constant dep G ls h

/-- The jacobian stacks the gradients in the order of the variables: the block of columns
    `k*c … k*c + c − 1` is the gradient with respect to the k-th variable. -/
theorem jacobian_order {R : Type} [Zero R] (c : Nat) (grads : List (Mat R)) (i k j : Nat)
    (hj : j < c) (g : Mat R) (hk : grads[k]? = some g) :
    jacobianMat c grads i (k * c + j) = g i j :=
  jacobianMat_entry c grads i k j hj g hk

/-! ### per-gate rules -/

section
variable {K : Type} [CommRing K] {d : Deriv K} {I pi p' ν ν' : K}

/-- `Rotation.grad(mixed=False) = scalar(π p') @ R(φ + 1/2)` for any array linear in ν, ν'. -/
theorem rotation_pure_rule (H : PhaseHyp d I pi p' ν ν') (A B : Mat K)
    (hA : ∀ i j, d.D (A i j) = 0) (hB : ∀ i j, d.D (B i j) = 0) (i j : Nat) :
    d.D (Ulin A B ν ν' i j) = pi * p' * Ulin A B (I * ν) (-I * ν') i j :=
  DV.Param.rotation_pure_rule H A B hA hB i j

theorem Rx_pure_rule (H : PhaseHyp d I pi p' ν ν') (h : K) (hh : 2 * h = 1) (i j : Nat) :
    d.D (RxArr I h ν ν' i j) = pi * p' * RxArr I h (I * ν) (-I * ν') i j :=
  DV.Param.Rx_pure_rule h H hh i j

theorem Ry_pure_rule (H : PhaseHyp d I pi p' ν ν') (h : K) (hh : 2 * h = 1) (i j : Nat) :
    d.D (RyArr I h ν ν' i j) = pi * p' * RyArr I h (I * ν) (-I * ν') i j :=
  DV.Param.Ry_pure_rule h H hh i j

theorem Rz_pure_rule (H : PhaseHyp d I pi p' ν ν') (i j : Nat) :
    d.D (RzArr ν ν' i j) = pi * p' * RzArr (I * ν) (-I * ν') i j :=
  DV.Param.Rz_pure_rule H i j

theorem CU1_pure_rule (H : PhaseHyp d I pi p' ν ν') (k : Nat) :
    d.D (CU1Diag ν k) = CU1GradDiag I pi p' ν k :=
  DV.Param.CU1_pure_rule H k

theorem CRz_pure_rule (H : PhaseHyp d I pi p' ν ν') (h : K) (hh : 2 * h = 1) (k : Nat) (hk : k < 4) :
    d.D (CRzDiag ν ν' k)
      = CRzDiag ν ν' k * (ZZ k * (I * h * pi * p') + IZ k * (-(I * h * pi * p'))) :=
  DV.Param.CRz_pure_rule h H hh k hk

theorem CRx_pure_rule (H : PhaseHyp d I pi p' ν ν') (h : K) (hh : 2 * h = 1) (i j : Nat)
    (hi : i < 2) (hj : j < 2) :
    d.D (RxArr I h ν ν' i j)
      = matMul 2 (RxArr I h ν ν')
          (fun a b => (-1) * (mat2 0 1 1 0 a b * (I * h * pi * p'))
                      + 1 * (mat2 0 1 1 0 a b * (-(I * h * pi * p')))) i j :=
  DV.Param.CRx_pure_rule_lower h H hh i j hi hj

/-- The default (mixed) rule on the doubled map of a single-qubit rotation:
    `D 𝒰(φ) = π p' (𝒰(φ + 1/4) − 𝒰(φ − 1/4))`. -/
theorem rotation_mixed_rule (H : PhaseHyp d I pi p' ν ν') (ζ ζ' : K)
    (hζ : ζ * ζ = I) (hζ' : ζ' * ζ' = -I) (n : Nat) (A B A' B' : Mat K)
    (hA : ∀ i j, d.D (A i j) = 0) (hB : ∀ i j, d.D (B i j) = 0)
    (hA' : ∀ i j, d.D (A' i j) = 0) (hB' : ∀ i j, d.D (B' i j) = 0) (r c : Nat) :
    d.D (kron n n (Ulin A' B' ν ν') (Ulin A B ν ν') r c)
      = pi * p' * (kron n n (Ulin A' B' (ζ * ν) (ζ' * ν')) (Ulin A B (ζ * ν) (ζ' * ν')) r c
                 - kron n n (Ulin A' B' (ζ' * ν) (ζ * ν')) (Ulin A B (ζ' * ν) (ζ * ν')) r c) :=
  DV.Param.rotation_mixed_rule H ζ ζ' hζ hζ' n A B A' B' hA hB hA' hB' r c

/-- `Spider.grad` (zx.py:289-295) under the symmetric phase convention. -/
theorem spider_rule (H : PhaseHyp d I pi p' ν ν') :
    d.D ν' = pi * p' * (-I * ν') ∧ d.D ν = pi * p' * (I * ν) ∧ d.D (0 : K) = pi * p' * 0 :=
  DV.Param.spider_rule H

/-- …and not under the standard convention diag(1, e^{2πiφ}) unless the phase is constant. -/
theorem spider_rule_std_convention_fails (μ : K)
    (rule : d.D (1 : K) = pi * p' * 1 ∧ d.D μ = pi * p' * (-μ)) : pi * p' = 0 :=
  DV.Param.spider_rule_std_convention_fails μ rule

/-- `Scalar.grad` for amplitudes, and what a gradient of the CQ meaning `conj(s)·s` of a pure
    scalar has to be. -/
theorem scalar_rule (s s' : K) : d.D (s' * s) = d.D s' * s + s' * d.D s :=
  DV.Param.scalar_mixed_target s s'

end

/-! ### finding F9, decided on integer polynomials -/

/-- Pure scalar `s = x0` in a default (mixed) gradient: its CQ meaning is `x0²` with derivative
    `2·x0`; `Scalar.grad` returns the pure scalar `1`, whose CQ meaning is `1`. -/
theorem scalar_grad_mixed_meaning_witness_pure :
    Poly.deriv 0 (Poly.var 0 * Poly.var 0) ≠ Poly.deriv 0 (Poly.var 0) * Poly.deriv 0 (Poly.var 0) := by
  decide

/-- Mixed scalar `s = x0²`: CQ meaning `x0²`, derivative `2·x0`; `Scalar.grad` returns a PURE
    scalar `2·x0`, whose CQ meaning is `4·x0²`. -/
theorem scalar_grad_mixed_meaning_witness_mixed :
    Poly.deriv 0 (Poly.var 0 * Poly.var 0)
      ≠ Poly.deriv 0 (Poly.var 0 * Poly.var 0) * Poly.deriv 0 (Poly.var 0 * Poly.var 0) := by
  decide

/-! ### non-vacuity: first-order jets over ℤ/17 (Proofs/ParamJet.lean) -/

open DV.Param.Jet in
example : jetD.D (RxArr Jet.I Jet.h Jet.ν Jet.ν' 0 1)
    = 1 * eps * RxArr Jet.I Jet.h (Jet.I * Jet.ν) (-Jet.I * Jet.ν') 0 1 :=
  Rx_pure_rule phaseHyp Jet.h two_h 0 1

open DV.Param.Jet in
example (r c : Nat) :
    jetD.D (kron 2 2 (Ulin (mat2 1 0 0 0) (mat2 0 0 0 1) Jet.ν Jet.ν')
                     (Ulin (mat2 0 0 0 1) (mat2 1 0 0 0) Jet.ν Jet.ν') r c)
      = 1 * eps * (kron 2 2 (Ulin (mat2 1 0 0 0) (mat2 0 0 0 1) (Jet.ζ * Jet.ν) (Jet.ζ' * Jet.ν'))
                            (Ulin (mat2 0 0 0 1) (mat2 1 0 0 0) (Jet.ζ * Jet.ν) (Jet.ζ' * Jet.ν')) r c
                 - kron 2 2 (Ulin (mat2 1 0 0 0) (mat2 0 0 0 1) (Jet.ζ' * Jet.ν) (Jet.ζ * Jet.ν'))
                            (Ulin (mat2 0 0 0 1) (mat2 1 0 0 0) (Jet.ζ' * Jet.ν) (Jet.ζ * Jet.ν')) r c) :=
  rotation_mixed_rule phaseHyp Jet.ζ Jet.ζ' ζ_sq ζ'_sq 2 _ _ _ _
    (mat2_const (d := jetD) _ _ _ _ jetD.zero jetD.zero jetD.zero jetD.one)
    (mat2_const (d := jetD) _ _ _ _ jetD.one jetD.zero jetD.zero jetD.zero)
    (mat2_const (d := jetD) _ _ _ _ jetD.one jetD.zero jetD.zero jetD.zero)
    (mat2_const (d := jetD) _ _ _ _ jetD.zero jetD.zero jetD.zero jetD.one) r c

open DV.Param.Jet in
example : jetD.D Jet.ν ≠ 0 := D_ν_ne_zero

/-- A two-layer polynomial diagram; its model gradient has two terms and evaluates to the
    derivative of the evaluation (the executable instance of `grad_tensor_boxes`). -/
def g0 : PolyDiagram :=
  { dom := [2],
    layers := [ { left := [], right := [],
                  box := { dom := [2], cod := [2], dagger := false,
                           data := [Poly.var 0, 1, Poly.var 1, Poly.var 0 * Poly.var 1] } },
                { left := [], right := [],
                  box := { dom := [2], cod := [2], dagger := true,
                           data := [Poly.const 2 * Poly.var 0, 0, 0, Poly.var 0 + 1] } } ] }

example : (g0.grad false 0).length = 2 := by decide
example : evalSum (g0.grad false 0) 1 1 = Poly.deriv 0 (g0.eval 1 1) := by decide
example : g0.grad false 2 = [] := by decide

end DV.C15
