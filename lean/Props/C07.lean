import Model.Snake
namespace DV.C07
theorem placeholder : True := trivial
end DV.C07
