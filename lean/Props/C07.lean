/-
  Props/C07.lean — C07 "snake removal is sound for rigid diagrams".

  PARTIAL (only the termination of the final `monoidal.normalize` is missing).
  The code's yielded trace is checked on every run against the step relation `sstep`
  (one legal interchange | deletion of an adjacent cap/cup pair joined straight and forming a
  snake equation | one `normalize` redex step); the soundness theorems below are about every trace
  that relation accepts, so they transfer to whatever strategy the code follows.
  Proved for every accepted trace: every diagram is well-typed, has the input's dom/cod, and
  denotes the input's morphism under every rigid functor (monoidal functor + snake equations for
  the images of cups/caps) into every partial strict monoidal algebra; only pairs satisfying a snake
  equation are removed by a yank step (`yank_step_is_snake`); `find_snake` is complete over all
  caps and both legs (`find_snake_complete`; positive form `find_snake_sees_both_legs`: a cup that
  is in place on one leg of a cap but fails the snake equation cannot hide a snake on the other
  leg); `follow_wire` returns the consumer of the wire it follows
  (`follow_wire_spec`, against independent producer labels).
  Proved about the model's transcription of the loop (rewriting.py:395-441), for every well-typed
  diagram whose cups/caps have the shape their constructors enforce:
    * `unsnake_indices_invariant` — on every result of `find_snake`, the trace `unsnake` yields
      (with its in-place index re-numbering over the whole obstruction lists) is accepted;
    * `unsnake_never_raises` / `unsnake_moves_then_yank` — `unsnake` raises nothing (no
      InterchangerError, IndexError or AxiomError: also not for obstructions wired to the other
      leg of the cap or to the cup), every yielded diagram but the last is ONE legal interchange
      of its predecessor, the cap and the cup end up adjacent and the last step is their yank;
      exactly two boxes disappear;
    * `snake_loop_total`, `snake_loop_exit`, `snake_loop_no_yankable` — with the fuel the model
      uses (`len + 1`) the first loop never raises, never runs out of fuel, yields an accepted
      trace and ends in a well-typed diagram in which no cap leg runs straight into the opposite
      leg of a matching cup; `snake_removal_is_normalize_after_loop`, `snake_removal_never_raises` —
      `snakeRemoval` equals the final `normalize` run on the loop's result, and that raises
      nothing either (a redex can always be interchanged): no exception for any fuel;
    * `normalize_step_not_undone` — for either value of `left`, a redex interchanged with the
      preference it was tested with and interchanged again at the same position is back at its
      offsets only if both boxes are scalars: no two-cycle on an effect directly above a state
      at the same offset (the pair that can be moved either way);
    * bookkeeping without any hypothesis: `move_obstructions_spec`, `remove_pair_length`,
      `snake_loop_result`.
  NOT proved (kept as a `Prop` no theorem claims): `snake_removal_terminates` — termination of the
  monoidal normal form that follows the snake loop on connected diagrams (C06's gap).
-/
import Proofs.Snake
import Proofs.FollowWire
import Proofs.UnsnakeLoop
import Proofs.NormalizeCycle

namespace DV.C07
open DV

/-- Every prefix of an accepted snake-removal trace. -/
theorem trace_sound {O M : Type} (C : SMC O M) (F : RFunctor C) (left : Bool) (d : Diagram)
    (steps : List Diagram) (hd : d.WF) (hv : d.boxesValid)
    (h : checkSnakeTrace left d steps 0 = none) :
    ∀ s ∈ steps, s.WF ∧ s.dom = d.dom ∧ s.cod = d.cod ∧
      F.toMFunctor.eval s = F.toMFunctor.eval d :=
  checkSnakeTrace_ok F hd hv h

/-- One accepted step, of any of the three kinds. -/
theorem step_sound {O M : Type} (C : SMC O M) (F : RFunctor C) (left : Bool) (d d' : Diagram)
    (hd : d.WF) (hv : d.boxesValid) (h : sstep left d d' = true) :
    (d'.WF ∧ d'.dom = d.dom ∧ d'.cod = d.cod) ∧ F.toMFunctor.eval d' = F.toMFunctor.eval d :=
  let r := sstep_ok F hd hv h; ⟨⟨r.1.wf, r.1.dom, r.1.cod⟩, r.2⟩

/-- Only cap/cup pairs that satisfy a snake equation are removed: a position accepted by the
    yank test holds a cap layer and a cup layer of one of the two snake shapes. -/
theorem yank_step_is_snake (d : Diagram) (k : Nat) (hd : d.WF) (hv : d.boxesValid)
    (h : yankableAt d k = true) :
    ∃ a b, d.layers.boxes[k]? = some a ∧ d.layers.boxes[k+1]? = some b ∧
      a.box.kind = .cap ∧ b.box.kind = .cup ∧ YankShape a b :=
  let ⟨a, b, ea, eb, h1, h2, _, _, s⟩ := yankableAt_spec hd hv h; ⟨a, b, ea, eb, h1, h2, s⟩

/-- Deleting the pair is well-typed with the same dom/cod. -/
theorem remove_pair_typed (d d' : Diagram) (k : Nat) (hd : d.WF)
    (hk : k + 1 < d.layers.boxes.length) (h : d.removePair (k : Int) ((k : Int) + 1) = .ok d') :
    d'.WF ∧ d'.dom = d.dom ∧ d'.cod = d.cod :=
  let r := Diagram.removePair_wf hd hk h; ⟨r.1, r.2.1, r.2.2.1⟩

/-- When `find_snake` returns nothing, no cap admits a yank on either leg. -/
theorem find_snake_complete (d : Diagram) (h : d.findSnake = none) :
    ∀ cap b off, cap < d.boxes.length → d.boxes[cap]? = some b → d.offsets[cap]? = some off →
      b.kind = .cap → tryYank d cap b off true = none ∧ tryYank d cap b off false = none :=
  fun cap b off hc hb ho hk =>
    findSnakeFrom_none h cap b off (Nat.zero_le _) (by omega) hb ho hk

/-- Positive form, per leg: whenever SOME cap has a leg (left or right) that admits a yank,
    `find_snake` returns a pair — whatever the other leg of that cap or any other cap runs into.
    In particular a cup that sits in the right place on a cap's left leg but does not satisfy the
    snake equation with it (rewriting.py:389-392) cannot hide a genuine snake on the right leg. -/
theorem find_snake_sees_both_legs (d : Diagram) (cap : Nat) (b : Box) (off : Int)
    (leftSnake : Bool) (y : Yank) (hc : cap < d.boxes.length) (hb : d.boxes[cap]? = some b)
    (ho : d.offsets[cap]? = some off) (hk : b.kind = .cap)
    (h : tryYank d cap b off leftSnake = some y) : d.findSnake.isSome = true := by
  cases hf : d.findSnake with
  | some _ => rfl
  | none =>
    have hn := find_snake_complete d hf cap b off hc hb ho hk
    cases leftSnake
    · rw [hn.2] at h; cases h
    · rw [hn.1] at h; cases h

/-- `follow_wire` (rewriting.py:350-371) is correct against an independent labelling of every
    wire by its producer (`Diagram.labels`): it returns the box that consumes the very wire it was
    asked to follow, at a position inside that box's input span — or `len(d)` and the wire's
    position in the codomain.  This is what makes `find_snake`'s positional test mean "the cap's
    leg runs straight into that leg of the cup". -/
theorem follow_wire_spec (d : Diagram) (hd : d.WF) (i j : Nat) (hi : i < d.boxes.length) :
    ∃ c j' : Nat, (d.followWire i (j : Int)).1 = c ∧ (d.followWire i (j : Int)).2.1 = (j' : Int) ∧
      (d.labels c)[j']? = (d.labels (i+1))[j]? ∧ i < c ∧ c ≤ d.boxes.length ∧
      (c < d.boxes.length → ∃ l, d.layers.boxes[c]? = some l ∧
        l.left.length ≤ j' ∧ j' < l.left.length + l.box.dom.length) :=
  Diagram.followWire_spec hd i j hi

/-- The index invariant of `unsnake` (rewriting.py:404-428): on every result of `find_snake` the
    trace it yields — obstructions moved one by one with the in-place re-numbering of the pending
    ones, then the deletion of boxes `cap..cup` — is accepted step by step. -/
theorem unsnake_indices_invariant (d : Diagram) (y : Yank) (steps : List Diagram) (hd : d.WF)
    (hv : d.boxesValid) (hf : d.findSnake = some y) (hu : d.unsnake y = .ok steps) :
    checkSnakeTrace false d steps 0 = none := by
  obtain ⟨steps', hu', hch, _⟩ := unsnake_ok hd hv hf
  rw [hu] at hu'; cases hu'
  exact hch.check false 0

/-- `unsnake` raises nothing on a result of `find_snake`; each yielded diagram but the last is one
    legal interchange of its predecessor (`IChain`), the last is the yank of an ADJACENT cap/cup
    pair (`ystep` only deletes positions `k, k+1` with `yankableAt`), and two boxes disappear. -/
theorem unsnake_moves_then_yank (d : Diagram) (y : Yank) (hd : d.WF) (hv : d.boxesValid)
    (hf : d.findSnake = some y) :
    ∃ moves last, d.unsnake y = .ok (moves ++ [last]) ∧ IChain d moves ∧
      ystep (lastOr d moves) last = true ∧ last.boxes.length + 2 = d.boxes.length :=
  unsnake_shape hd hv hf

/-- In particular no `InterchangerError` (nor any other exception) comes out of `unsnake`. -/
theorem unsnake_never_raises (d : Diagram) (y : Yank) (hd : d.WF) (hv : d.boxesValid)
    (hf : d.findSnake = some y) : ∃ steps, d.unsnake y = .ok steps ∧ steps ≠ [] :=
  let ⟨moves, last, h, _⟩ := unsnake_shape hd hv hf
  ⟨moves ++ [last], h, by simp⟩

/-- The first loop of `snake_removal` with the model's fuel: total, accepted, snake-free. -/
theorem snake_loop_total (left : Bool) (d : Diagram) (hd : d.WF) (hv : d.boxesValid) :
    ∃ d1 acc, snakeLoop (d.boxes.length + 1) d [] = .ok (d1, acc) ∧
      checkSnakeTrace left d acc 0 = none ∧ lastOr d acc = d1 ∧ d1.findSnake = none ∧
      d1.WF ∧ d1.boxesValid ∧ d1.boxes.length ≤ d.boxes.length :=
  let ⟨d1, steps, h, hch, hla, hn, w, v, hle⟩ :=
    snakeLoop_spec (d.boxes.length + 1) (acc := []) hd hv (Nat.lt_succ_self _)
  ⟨d1, steps, by simpa using h, hch.check left 0, hla, hn, w, v, hle⟩

/-- The loop does not stop for lack of fuel: its result contains no snake. -/
theorem snake_loop_exit (d d1 : Diagram) (acc : List Diagram) (hd : d.WF) (hv : d.boxesValid)
    (h : snakeLoop (d.boxes.length + 1) d [] = .ok (d1, acc)) : d1.findSnake = none := by
  obtain ⟨d1', acc', h', _, _, hn, _⟩ := snake_loop_total false d hd hv
  rw [h] at h'; cases h'; exact hn

/-- "The result contains no cap whose leg runs straight into the opposite leg of a matching cup":
    after the loop no cap admits a yank on either leg. -/
theorem snake_loop_no_yankable (d d1 : Diagram) (acc : List Diagram) (hd : d.WF)
    (hv : d.boxesValid) (h : snakeLoop (d.boxes.length + 1) d [] = .ok (d1, acc)) :
    ∀ cap b off, cap < d1.boxes.length → d1.boxes[cap]? = some b → d1.offsets[cap]? = some off →
      b.kind = .cap → tryYank d1 cap b off true = none ∧ tryYank d1 cap b off false = none :=
  find_snake_complete d1 (snake_loop_exit d d1 acc hd hv h)

/-- Whatever `snake_removal` raises, the final `monoidal.normalize` raises it. -/
theorem snake_removal_is_normalize_after_loop (d : Diagram) (left : Bool) (fuel : Nat) (hd : d.WF)
    (hv : d.boxesValid) :
    ∃ d1 acc, checkSnakeTrace left d acc 0 = none ∧ lastOr d acc = d1 ∧ d1.findSnake = none ∧
      d1.WF ∧ d.snakeRemoval left fuel = normalizeTrace left fuel d1 acc := by
  obtain ⟨d1, acc, h, hc, hla, hn, w, _⟩ := snake_loop_total left d hd hv
  exact ⟨d1, acc, hc, hla, hn, w, by simp [Diagram.snakeRemoval, h]⟩

/-- `rigid.Diagram.normalize()` raises nothing on a well-typed input, for any number of passes
    allowed to the final loop (when they run out the model returns `fin = false`, never an error).
    `NotImplementedError` comes from `normal_form`'s revisit cache, not from the generator. -/
theorem snake_removal_never_raises (d : Diagram) (left : Bool) (fuel : Nat) (hd : d.WF)
    (hv : d.boxesValid) : ∃ steps fin, d.snakeRemoval left fuel = .ok (steps, fin) := by
  obtain ⟨d1, acc, _, _, _, w, h⟩ := snake_removal_is_normalize_after_loop d left fuel hd hv
  obtain ⟨⟨steps, fin⟩, hr⟩ := normalizeTrace_total (left := left) fuel (acc := acc) w
  exact ⟨steps, fin, by rw [h, hr]⟩

/-! Bookkeeping that needs no invariant. -/

/-- `moveObstructions` only permutes the boxes (so their number is preserved), yields one diagram
    per obstruction and moves the target index by `dt` each time. -/
theorem move_obstructions_spec (bump : Nat → Nat → Nat) (dt : Int) (obs : List Nat)
    (d d1 : Diagram) (t t1 : Int) (ro ro1 : List Nat) (acc acc1 : List Diagram) (hd : d.WF)
    (h : moveObstructions bump dt obs d t ro acc = .ok (d1, t1, ro1, acc1)) :
    d1.WF ∧ d1.boxes.Perm d.boxes ∧ d1.boxes.length = d.boxes.length ∧
      t1 = t + dt * obs.length ∧ ∃ new, acc1 = acc ++ new ∧ new.length = obs.length :=
  let ⟨w, _, _, p, l, ht, _, hn⟩ := moveObstructions_spec obs hd h
  ⟨w, p, l, ht, hn⟩

/-- `removePair` deletes exactly the `cup + 1 - cap` boxes `cap..cup`. -/
theorem remove_pair_length (d d' : Diagram) (cap cup : Int) (h : d.removePair cap cup = .ok d')
    (h0 : 0 ≤ cap) (h1 : cap ≤ cup) (h2 : cup < (d.boxes.length : Int)) :
    (d'.boxes.length : Int) + (cup + 1 - cap) = d.boxes.length :=
  Diagram.removePair_length h h0 h1 h2

/-- For any fuel and any input: the accumulated trace only grows, ends in the returned diagram, and
    the loop stops either snake-free or after exactly `fuel` rounds. -/
theorem snake_loop_result (fuel : Nat) (d d1 : Diagram) (acc acc1 : List Diagram)
    (h : snakeLoop fuel d acc = .ok (d1, acc1)) :
    ∃ steps, acc1 = acc ++ steps ∧ lastOr d steps = d1 ∧
      (d1.findSnake = none ∨ SnakeRounds fuel d d1) :=
  snakeLoop_result fuel h

/-- The final `normalize` never undoes its own step (for either value of `left`): when position
    `i` is a redex for `left`, is interchanged with that same preference, is a redex again and is
    interchanged again, the two boxes are back at their offsets only if both are scalars (empty
    domain and codomain) — the shortest way `normal_form` could meet a diagram twice, and with it
    raise `NotImplementedError`, is closed for diagrams without scalars.  (An effect directly above
    a state at the same offset can be moved either way; testing with `left` but moving with the
    default preference does cycle there — see the examples below.) -/
theorem normalize_step_not_undone (d d1 d2 : Diagram) (left : Bool) (i : Nat) (hd : d.WF)
    (h1 : d.redex left i = true) (s1 : d.interchange (i : Int) ((i : Int) + 1) left = .ok d1)
    (h2 : d1.redex left i = true) (s2 : d1.interchange (i : Int) ((i : Int) + 1) left = .ok d2)
    (hc : d2.offsets = d.offsets) :
    ∃ b0 b1, d.boxes[i]? = some b0 ∧ d.boxes[i+1]? = some b1 ∧
      b0.dom = [] ∧ b0.cod = [] ∧ b1.dom = [] ∧ b1.cod = [] :=
  Diagram.normalize_no_two_cycle hd h1 s1 h2 s2 hc

/-- NOT PROVED: termination of the monoidal normal form that follows (C06's gap). -/
def snake_removal_terminates : Prop :=
  ∀ (d : Diagram) (left : Bool), d.WF → connected d →
    ∃ fuel steps, d.snakeRemoval left fuel = .ok (steps, true)

/-! Non-vacuity: the snake `Id(n) @ Cap(n.r, n) >> Cup(n, n.r) @ Id(n)` is found and removed. -/
private def n : Ob := ⟨"n", 0⟩
private def snake : Except Err Diagram :=
  Diagram.mk? [n] [n] [Box.cap n.r n, Box.cup n n.r] [1, 0]

example : (match snake with
    | .ok d => (match d.snakeRemoval false 10 with
        | .ok (steps, fin) => fin && steps.length == 1 && (checkSnakeTrace false d steps 0).isNone
            && (lastOr d steps).boxes.isEmpty
        | .error _ => false)
    | .error _ => false) = true := by decide
example : (match snake with | .ok d => yankableAt d 0 | .error _ => false) = true := by decide

/-! Non-vacuity of the `unsnake` theorems: snakes with obstructions on BOTH sides of the followed
    wire, interleaved, some of them wired to the other leg of the cap (`g` at offset 2 below the
    left snake's cap; `f` at offset 0 below the right snake's cap).  The hypotheses `WF`,
    `boxesValid`, `findSnake = some _` hold and the conclusions are observed. -/
private def f : Box := { name := "f", dom := [n], cod := [n] }
private def g : Box := { name := "g", dom := [n], cod := [n] }
private def leftSnake : Except Err Diagram :=
  Diagram.mk? [n] [n] [Box.cap n.r n, g, f, g, Box.cup n n.r] [1, 2, 0, 2, 0]
private def rightSnake : Except Err Diagram :=
  Diagram.mk? [n] [n] [Box.cap n n.l, g, f, g, f, Box.cup n.l n] [0, 2, 0, 2, 0, 1]

instance (b : Box) : Decidable b.valid := by unfold Box.valid; infer_instance
instance (d : Diagram) : Decidable d.boxesValid := by unfold Diagram.boxesValid; infer_instance

private def leftD : Diagram := match leftSnake with | .ok d => d | .error _ => Diagram.id []
private def rightD : Diagram := match rightSnake with | .ok d => d | .error _ => Diagram.id []

example : leftSnake = .ok leftD ∧ leftD.WF ∧ leftD.boxesValid ∧
    leftD.findSnake = some ⟨4, 0, [2], [1, 3], true⟩ :=
  ⟨by decide, Diagram.mk?_wf (by decide : leftSnake = .ok leftD), by decide, by decide⟩
example : rightSnake = .ok rightD ∧ rightD.WF ∧ rightD.boxesValid ∧
    rightD.findSnake = some ⟨5, 0, [2, 4], [1, 3], false⟩ :=
  ⟨by decide, Diagram.mk?_wf (by decide : rightSnake = .ok rightD), by decide, by decide⟩

example : (match leftSnake with
    | .ok d => (match d.unsnake ⟨4, 0, [2], [1, 3], true⟩ with
        | .ok steps => steps.length == 4 && (checkSnakeTrace false d steps 0).isNone
            && (lastOr d steps).boxes == [f, g, g] && (lastOr d steps).offsets == [0, 0, 0]
        | .error _ => false)
    | .error _ => false) = true := by decide

example : (match rightSnake with
    | .ok d => d.findSnake == some ⟨5, 0, [2, 4], [1, 3], false⟩ &&
      (match d.unsnake ⟨5, 0, [2, 4], [1, 3], false⟩ with
        | .ok steps => steps.length == 5 && (checkSnakeTrace false d steps 0).isNone
            && (lastOr d steps).boxes == [g, g, f, f] && (lastOr d steps).offsets == [0, 0, 0, 0]
        | .error _ => false) &&
      (match snakeLoop (d.boxes.length + 1) d [] with
        | .ok (d1, acc) => acc.length == 5 && d1.findSnake.isNone
        | .error _ => false)
    | .error _ => false) = true := by decide

/-! Non-vacuity of `find_snake_sees_both_legs`: caps BOTH of whose legs run into cups.
    `mixedR`: `Id(n.r) @ Cap(n, n.l) @ Id(n) >> Cup(n.r, n) @ Id(n.l @ n) >> Cup(n.l, n)` — the left
    leg enters `Cup(n.r, n)` in the right place but `n.r ≠ n.l` (no snake equation), the right leg
    is a genuine right-handed snake: the left attempt fails, the right one is returned, the loop
    yanks it and leaves `Cup(n.r, n)`.  `mixedL` is the mirror image (genuine left-handed snake,
    type-mismatched cup on the right leg, one obstruction); `mixedNone`: both legs mismatched,
    nothing may be removed. -/
private def mixedR : Except Err Diagram :=
  Diagram.mk? [n.r, n] [] [Box.cap n n.l, Box.cup n.r n, Box.cup n.l n] [1, 0, 0]
private def mixedL : Except Err Diagram :=
  Diagram.mk? [n, n.l] [] [Box.cap n.r n, f, Box.cup n n.l, Box.cup n n.r] [1, 0, 2, 0]
private def mixedNone : Except Err Diagram :=
  Diagram.mk? [n.r, n.l.l] [] [Box.cap n n.l, Box.cup n.r n, Box.cup n.l n.l.l] [1, 0, 0]

example : (match mixedR with
    | .ok d => d.boxesValid && (tryYank d 0 (Box.cap n n.l) 1 true).isNone
        && tryYank d 0 (Box.cap n n.l) 1 false == some ⟨2, 0, [1], [], false⟩
        && d.findSnake == some ⟨2, 0, [1], [], false⟩
        && (match d.snakeRemoval false 10 with
            | .ok (steps, fin) => fin && (checkSnakeTrace false d steps 0).isNone
                && (lastOr d steps).boxes == [Box.cup n.r n] && (lastOr d steps).findSnake.isNone
            | .error _ => false)
    | .error _ => false) = true := by decide

example : (match mixedL with
    | .ok d => d.boxesValid && d.findSnake == some ⟨3, 0, [1], [2], true⟩
        && (tryYank d 0 (Box.cap n.r n) 1 false).isNone
        && (match d.snakeRemoval true 10 with
            | .ok (steps, fin) => fin && (checkSnakeTrace true d steps 0).isNone
                && (lastOr d steps).boxes == [f, Box.cup n n.l] && (lastOr d steps).findSnake.isNone
            | .error _ => false)
    | .error _ => false) = true := by decide

example : (match mixedNone with
    | .ok d => d.boxesValid && d.findSnake.isNone && d.snakeRemoval false 10 == .ok ([], true)
    | .error _ => false) = true := by decide

/-! Non-vacuity of `normalize_step_not_undone`.
    `cupCap`: `f >> Cup(n, n.r) @ Id(y) >> Cap(n, n.l) @ Id(y) >> g` — connected; the cup sits
    directly above the cap at offset 0, so the pair can be interchanged either way.  With
    `left = true` position 1 is a redex, the left move is made, position 1 is no redex any more and
    `normalize(left=True)` starts with that step and finishes.  Moving with the OTHER preference
    instead puts position 1 back into a `left`-redex and a second such move restores the input:
    the hypothesis that test and move use the same `left` is needed.
    `twoScalars`: the hypotheses of the theorem are satisfiable — two scalars do cycle. -/
private def yy : Ob := ⟨"y", 0⟩
private def fTop : Box := { name := "f", dom := [⟨"x", 0⟩], cod := [n, n.r, yy] }
private def gBot : Box := { name := "g", dom := [n, n.l, yy], cod := [⟨"z", 0⟩] }
private def cupCap : Except Err Diagram :=
  Diagram.mk? [⟨"x", 0⟩] [⟨"z", 0⟩] [fTop, Box.cup n n.r, Box.cap n n.l, gBot] [0, 0, 0, 0]

example : (match cupCap with
    | .ok d => d.redex true 1 && d.redex false 1 &&
      (match d.interchange 1 2 true with
        | .ok d1 => d1.offsets == [0, 2, 0, 0] && !d1.redex true 1 &&
          (match d.snakeRemoval true 10 with
            | .ok (steps, fin) => fin && steps.head? == some d1
                && (checkSnakeTrace true d steps 0).isNone
            | .error _ => false)
        | .error _ => false) &&
      (match d.interchange 1 2 false with
        | .ok e => e.offsets == [0, 0, 2, 0] && e.boxes == [fTop, Box.cap n n.l, Box.cup n n.r, gBot]
            && e.redex true 1 && e.interchange 1 2 false == .ok d &&
          (match d.snakeRemoval false 10 with
            | .ok (steps, fin) => fin && steps.head? == some e
            | .error _ => false)
        | .error _ => false)
    | .error _ => false) = true := by decide

private def sc (s : String) : Box := { name := s, dom := [], cod := [] }
private def twoScalars : Except Err Diagram := Diagram.mk? [n] [n] [sc "a", sc "b"] [0, 0]

example : (match twoScalars with
    | .ok d => d.redex true 0 &&
      (match d.interchange 0 1 true with
        | .ok d1 => d1.redex true 0 &&
          (match d1.interchange 0 1 true with
            | .ok d2 => d2.offsets == d.offsets
            | .error _ => false)
        | .error _ => false)
    | .error _ => false) = true := by decide

end DV.C07
