/-
  Props/C07.lean — C07 "snake removal is sound for rigid diagrams".

  PARTIAL.  The code's yielded trace is checked on every run against the step relation `sstep`
  (one legal interchange | deletion of an adjacent cap/cup pair joined straight and forming a
  snake equation | one `normalize` redex step); the theorems below are about every trace that
  relation accepts, so they transfer to whatever strategy the code follows.
  Proved: every diagram of an accepted trace is well-typed, has the input's dom/cod, and denotes
  the input's morphism under every rigid functor (monoidal functor + snake equations for the
  images of cups/caps) into every partial strict monoidal algebra; only pairs satisfying a snake
  equation are removed by a yank step (`yank_step_is_snake`); `find_snake` is complete over all
  caps and both legs (so when the first loop stops no yankable pair is left); `follow_wire` returns
  the consumer of the wire it follows (`follow_wire_spec`, against independent producer labels).
  NOT proved (kept as `Prop`s no theorem claims; exercised by the functional comparison of the
  code's trace with the model's transcription on every run):
    * `unsnake_indices_invariant` — the model's transcription of `unsnake`, with its index
      re-numbering over a whole obstruction list, itself yields an accepted trace;
    * termination (inherits C06's gap for the final `normalize`).
-/
import Proofs.Snake
import Proofs.FollowWire

namespace DV.C07
open DV

/-- Every prefix of an accepted snake-removal trace. -/
theorem trace_sound {O M : Type} (C : SMC O M) (F : RFunctor C) (left : Bool) (d : Diagram)
    (steps : List Diagram) (hd : d.WF) (hv : d.boxesValid)
    (h : checkSnakeTrace left d steps 0 = none) :
    ∀ s ∈ steps, s.WF ∧ s.dom = d.dom ∧ s.cod = d.cod ∧
      F.toMFunctor.eval s = F.toMFunctor.eval d :=
  checkSnakeTrace_ok F hd hv h

/-- One accepted step, of any of the three kinds. -/
theorem step_sound {O M : Type} (C : SMC O M) (F : RFunctor C) (left : Bool) (d d' : Diagram)
    (hd : d.WF) (hv : d.boxesValid) (h : sstep left d d' = true) :
    (d'.WF ∧ d'.dom = d.dom ∧ d'.cod = d.cod) ∧ F.toMFunctor.eval d' = F.toMFunctor.eval d :=
  let r := sstep_ok F hd hv h; ⟨⟨r.1.wf, r.1.dom, r.1.cod⟩, r.2⟩

/-- Only cap/cup pairs that satisfy a snake equation are removed: a position accepted by the
    yank test holds a cap layer and a cup layer of one of the two snake shapes. -/
theorem yank_step_is_snake (d : Diagram) (k : Nat) (hd : d.WF) (hv : d.boxesValid)
    (h : yankableAt d k = true) :
    ∃ a b, d.layers.boxes[k]? = some a ∧ d.layers.boxes[k+1]? = some b ∧
      a.box.kind = .cap ∧ b.box.kind = .cup ∧ YankShape a b :=
  let ⟨a, b, ea, eb, h1, h2, _, _, s⟩ := yankableAt_spec hd hv h; ⟨a, b, ea, eb, h1, h2, s⟩

/-- Deleting the pair is well-typed with the same dom/cod. -/
theorem remove_pair_typed (d d' : Diagram) (k : Nat) (hd : d.WF)
    (hk : k + 1 < d.layers.boxes.length) (h : d.removePair (k : Int) ((k : Int) + 1) = .ok d') :
    d'.WF ∧ d'.dom = d.dom ∧ d'.cod = d.cod :=
  let r := Diagram.removePair_wf hd hk h; ⟨r.1, r.2.1, r.2.2.1⟩

/-- When `find_snake` returns nothing, no cap admits a yank on either leg. -/
theorem find_snake_complete (d : Diagram) (h : d.findSnake = none) :
    ∀ cap b off, cap < d.boxes.length → d.boxes[cap]? = some b → d.offsets[cap]? = some off →
      b.kind = .cap → tryYank d cap b off true = none ∧ tryYank d cap b off false = none :=
  fun cap b off hc hb ho hk =>
    findSnakeFrom_none h cap b off (Nat.zero_le _) (by omega) hb ho hk

/-- `follow_wire` (rewriting.py:350-371) is correct against an independent labelling of every
    wire by its producer (`Diagram.labels`): it returns the box that consumes the very wire it was
    asked to follow, at a position inside that box's input span — or `len(d)` and the wire's
    position in the codomain.  This is what makes `find_snake`'s positional test mean "the cap's
    leg runs straight into that leg of the cup". -/
theorem follow_wire_spec (d : Diagram) (hd : d.WF) (i j : Nat) (hi : i < d.boxes.length) :
    ∃ c j' : Nat, (d.followWire i (j : Int)).1 = c ∧ (d.followWire i (j : Int)).2.1 = (j' : Int) ∧
      (d.labels c)[j']? = (d.labels (i+1))[j]? ∧ i < c ∧ c ≤ d.boxes.length ∧
      (c < d.boxes.length → ∃ l, d.layers.boxes[c]? = some l ∧
        l.left.length ≤ j' ∧ j' < l.left.length + l.box.dom.length) :=
  Diagram.followWire_spec hd i j hi

/-- NOT PROVED. -/
def unsnake_indices_invariant : Prop :=
  ∀ (d : Diagram) (y : Yank) (steps : List Diagram), d.WF → d.boxesValid →
    d.findSnake = some y → d.unsnake y = .ok steps → checkSnakeTrace false d steps 0 = none

/-- NOT PROVED. -/
def snake_removal_terminates : Prop :=
  ∀ (d : Diagram) (left : Bool), d.WF → connected d →
    ∃ fuel steps, d.snakeRemoval left fuel = .ok (steps, true)

/-! Non-vacuity: the snake `Id(n) @ Cap(n.r, n) >> Cup(n, n.r) @ Id(n)` is found and removed. -/
private def n : Ob := ⟨"n", 0⟩
private def snake : Except Err Diagram :=
  Diagram.mk? [n] [n] [Box.cap n.r n, Box.cup n n.r] [1, 0]

example : (match snake with
    | .ok d => (match d.snakeRemoval false 10 with
        | .ok (steps, fin) => fin && steps.length == 1 && (checkSnakeTrace false d steps 0).isNone
            && (lastOr d steps).boxes.isEmpty
        | .error _ => false)
    | .error _ => false) = true := by decide
example : (match snake with | .ok d => yankableAt d 0 | .error _ => false) = true := by decide

end DV.C07
