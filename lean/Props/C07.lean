/-
  Props/C07.lean — C07 "snake removal is sound for rigid diagrams".

  PARTIAL (only the termination of the final `monoidal.normalize` is missing).
  The code's yielded trace is checked on every run against the step relation `sstep`
  (one legal interchange | deletion of an adjacent cap/cup pair joined straight and forming a
  snake equation | one `normalize` redex step); the soundness theorems below are about every trace
  that relation accepts, so they transfer to whatever strategy the code follows.
  Proved for every accepted trace: every diagram is well-typed, has the input's dom/cod, and
  denotes the input's morphism under every rigid functor (monoidal functor + snake equations for
  the images of cups/caps) into every partial strict monoidal algebra; only pairs satisfying a snake
  equation are removed by a yank step (`yank_step_is_snake`); `find_snake` is complete over all
  caps and both legs; `follow_wire` returns the consumer of the wire it follows
  (`follow_wire_spec`, against independent producer labels).
  Proved about the model's transcription of the loop (rewriting.py:395-441), for every well-typed
  diagram whose cups/caps have the shape their constructors enforce:
    * `unsnake_indices_invariant` — on every result of `find_snake`, the trace `unsnake` yields
      (with its in-place index re-numbering over the whole obstruction lists) is accepted;
    * `unsnake_never_raises` / `unsnake_moves_then_yank` — `unsnake` raises nothing (no
      InterchangerError, IndexError or AxiomError: also not for obstructions wired to the other
      leg of the cap or to the cup), every yielded diagram but the last is ONE legal interchange
      of its predecessor, the cap and the cup end up adjacent and the last step is their yank;
      exactly two boxes disappear;
    * `snake_loop_total`, `snake_loop_exit`, `snake_loop_no_yankable` — with the fuel the model
      uses (`len + 1`) the first loop never raises, never runs out of fuel, yields an accepted
      trace and ends in a well-typed diagram in which no cap leg runs straight into the opposite
      leg of a matching cup; `snake_removal_is_normalize_after_loop`, `snake_removal_never_raises` —
      `snakeRemoval` equals the final `normalize` run on the loop's result, and that raises
      nothing either (a redex can always be interchanged): no exception for any fuel;
    * bookkeeping without any hypothesis: `move_obstructions_spec`, `remove_pair_length`,
      `snake_loop_result`.
  NOT proved (kept as a `Prop` no theorem claims): `snake_removal_terminates` — termination of the
  monoidal normal form that follows the snake loop on connected diagrams (C06's gap).
-/
import Proofs.Snake
import Proofs.FollowWire
import Proofs.UnsnakeLoop

namespace DV.C07
open DV

/-- Every prefix of an accepted snake-removal trace. -/
theorem trace_sound {O M : Type} (C : SMC O M) (F : RFunctor C) (left : Bool) (d : Diagram)
    (steps : List Diagram) (hd : d.WF) (hv : d.boxesValid)
    (h : checkSnakeTrace left d steps 0 = none) :
    ∀ s ∈ steps, s.WF ∧ s.dom = d.dom ∧ s.cod = d.cod ∧
      F.toMFunctor.eval s = F.toMFunctor.eval d :=
  checkSnakeTrace_ok F hd hv h

/-- One accepted step, of any of the three kinds. -/
theorem step_sound {O M : Type} (C : SMC O M) (F : RFunctor C) (left : Bool) (d d' : Diagram)
    (hd : d.WF) (hv : d.boxesValid) (h : sstep left d d' = true) :
    (d'.WF ∧ d'.dom = d.dom ∧ d'.cod = d.cod) ∧ F.toMFunctor.eval d' = F.toMFunctor.eval d :=
  let r := sstep_ok F hd hv h; ⟨⟨r.1.wf, r.1.dom, r.1.cod⟩, r.2⟩

/-- Only cap/cup pairs that satisfy a snake equation are removed: a position accepted by the
    yank test holds a cap layer and a cup layer of one of the two snake shapes. -/
theorem yank_step_is_snake (d : Diagram) (k : Nat) (hd : d.WF) (hv : d.boxesValid)
    (h : yankableAt d k = true) :
    ∃ a b, d.layers.boxes[k]? = some a ∧ d.layers.boxes[k+1]? = some b ∧
      a.box.kind = .cap ∧ b.box.kind = .cup ∧ YankShape a b :=
  let ⟨a, b, ea, eb, h1, h2, _, _, s⟩ := yankableAt_spec hd hv h; ⟨a, b, ea, eb, h1, h2, s⟩

/-- Deleting the pair is well-typed with the same dom/cod. -/
theorem remove_pair_typed (d d' : Diagram) (k : Nat) (hd : d.WF)
    (hk : k + 1 < d.layers.boxes.length) (h : d.removePair (k : Int) ((k : Int) + 1) = .ok d') :
    d'.WF ∧ d'.dom = d.dom ∧ d'.cod = d.cod :=
  let r := Diagram.removePair_wf hd hk h; ⟨r.1, r.2.1, r.2.2.1⟩

/-- When `find_snake` returns nothing, no cap admits a yank on either leg. -/
theorem find_snake_complete (d : Diagram) (h : d.findSnake = none) :
    ∀ cap b off, cap < d.boxes.length → d.boxes[cap]? = some b → d.offsets[cap]? = some off →
      b.kind = .cap → tryYank d cap b off true = none ∧ tryYank d cap b off false = none :=
  fun cap b off hc hb ho hk =>
    findSnakeFrom_none h cap b off (Nat.zero_le _) (by omega) hb ho hk

/-- `follow_wire` (rewriting.py:350-371) is correct against an independent labelling of every
    wire by its producer (`Diagram.labels`): it returns the box that consumes the very wire it was
    asked to follow, at a position inside that box's input span — or `len(d)` and the wire's
    position in the codomain.  This is what makes `find_snake`'s positional test mean "the cap's
    leg runs straight into that leg of the cup". -/
theorem follow_wire_spec (d : Diagram) (hd : d.WF) (i j : Nat) (hi : i < d.boxes.length) :
    ∃ c j' : Nat, (d.followWire i (j : Int)).1 = c ∧ (d.followWire i (j : Int)).2.1 = (j' : Int) ∧
      (d.labels c)[j']? = (d.labels (i+1))[j]? ∧ i < c ∧ c ≤ d.boxes.length ∧
      (c < d.boxes.length → ∃ l, d.layers.boxes[c]? = some l ∧
        l.left.length ≤ j' ∧ j' < l.left.length + l.box.dom.length) :=
  Diagram.followWire_spec hd i j hi

/-- The index invariant of `unsnake` (rewriting.py:404-428): on every result of `find_snake` the
    trace it yields — obstructions moved one by one with the in-place re-numbering of the pending
    ones, then the deletion of boxes `cap..cup` — is accepted step by step. -/
theorem unsnake_indices_invariant (d : Diagram) (y : Yank) (steps : List Diagram) (hd : d.WF)
    (hv : d.boxesValid) (hf : d.findSnake = some y) (hu : d.unsnake y = .ok steps) :
    checkSnakeTrace false d steps 0 = none := by
  obtain ⟨steps', hu', hch, _⟩ := unsnake_ok hd hv hf
  rw [hu] at hu'; cases hu'
  exact hch.check false 0

/-- `unsnake` raises nothing on a result of `find_snake`; each yielded diagram but the last is one
    legal interchange of its predecessor (`IChain`), the last is the yank of an ADJACENT cap/cup
    pair (`ystep` only deletes positions `k, k+1` with `yankableAt`), and two boxes disappear. -/
theorem unsnake_moves_then_yank (d : Diagram) (y : Yank) (hd : d.WF) (hv : d.boxesValid)
    (hf : d.findSnake = some y) :
    ∃ moves last, d.unsnake y = .ok (moves ++ [last]) ∧ IChain d moves ∧
      ystep (lastOr d moves) last = true ∧ last.boxes.length + 2 = d.boxes.length :=
  unsnake_shape hd hv hf

/-- In particular no `InterchangerError` (nor any other exception) comes out of `unsnake`. -/
theorem unsnake_never_raises (d : Diagram) (y : Yank) (hd : d.WF) (hv : d.boxesValid)
    (hf : d.findSnake = some y) : ∃ steps, d.unsnake y = .ok steps ∧ steps ≠ [] :=
  let ⟨moves, last, h, _⟩ := unsnake_shape hd hv hf
  ⟨moves ++ [last], h, by simp⟩

/-- The first loop of `snake_removal` with the model's fuel: total, accepted, snake-free. -/
theorem snake_loop_total (left : Bool) (d : Diagram) (hd : d.WF) (hv : d.boxesValid) :
    ∃ d1 acc, snakeLoop (d.boxes.length + 1) d [] = .ok (d1, acc) ∧
      checkSnakeTrace left d acc 0 = none ∧ lastOr d acc = d1 ∧ d1.findSnake = none ∧
      d1.WF ∧ d1.boxesValid ∧ d1.boxes.length ≤ d.boxes.length :=
  let ⟨d1, steps, h, hch, hla, hn, w, v, hle⟩ :=
    snakeLoop_spec (d.boxes.length + 1) (acc := []) hd hv (Nat.lt_succ_self _)
  ⟨d1, steps, by simpa using h, hch.check left 0, hla, hn, w, v, hle⟩

/-- The loop does not stop for lack of fuel: its result contains no snake. -/
theorem snake_loop_exit (d d1 : Diagram) (acc : List Diagram) (hd : d.WF) (hv : d.boxesValid)
    (h : snakeLoop (d.boxes.length + 1) d [] = .ok (d1, acc)) : d1.findSnake = none := by
  obtain ⟨d1', acc', h', _, _, hn, _⟩ := snake_loop_total false d hd hv
  rw [h] at h'; cases h'; exact hn

/-- "The result contains no cap whose leg runs straight into the opposite leg of a matching cup":
    after the loop no cap admits a yank on either leg. -/
theorem snake_loop_no_yankable (d d1 : Diagram) (acc : List Diagram) (hd : d.WF)
    (hv : d.boxesValid) (h : snakeLoop (d.boxes.length + 1) d [] = .ok (d1, acc)) :
    ∀ cap b off, cap < d1.boxes.length → d1.boxes[cap]? = some b → d1.offsets[cap]? = some off →
      b.kind = .cap → tryYank d1 cap b off true = none ∧ tryYank d1 cap b off false = none :=
  find_snake_complete d1 (snake_loop_exit d d1 acc hd hv h)

/-- Whatever `snake_removal` raises, the final `monoidal.normalize` raises it. -/
theorem snake_removal_is_normalize_after_loop (d : Diagram) (left : Bool) (fuel : Nat) (hd : d.WF)
    (hv : d.boxesValid) :
    ∃ d1 acc, checkSnakeTrace left d acc 0 = none ∧ lastOr d acc = d1 ∧ d1.findSnake = none ∧
      d1.WF ∧ d.snakeRemoval left fuel = normalizeTrace left fuel d1 acc := by
  obtain ⟨d1, acc, h, hc, hla, hn, w, _⟩ := snake_loop_total left d hd hv
  exact ⟨d1, acc, hc, hla, hn, w, by simp [Diagram.snakeRemoval, h]⟩

/-- `rigid.Diagram.normalize()` raises nothing on a well-typed input, for any number of passes
    allowed to the final loop (when they run out the model returns `fin = false`, never an error).
    `NotImplementedError` comes from `normal_form`'s revisit cache, not from the generator. -/
theorem snake_removal_never_raises (d : Diagram) (left : Bool) (fuel : Nat) (hd : d.WF)
    (hv : d.boxesValid) : ∃ steps fin, d.snakeRemoval left fuel = .ok (steps, fin) := by
  obtain ⟨d1, acc, _, _, _, w, h⟩ := snake_removal_is_normalize_after_loop d left fuel hd hv
  obtain ⟨⟨steps, fin⟩, hr⟩ := normalizeTrace_total (left := left) fuel (acc := acc) w
  exact ⟨steps, fin, by rw [h, hr]⟩

/-! Bookkeeping that needs no invariant. -/

/-- `moveObstructions` only permutes the boxes (so their number is preserved), yields one diagram
    per obstruction and moves the target index by `dt` each time. -/
theorem move_obstructions_spec (bump : Nat → Nat → Nat) (dt : Int) (obs : List Nat)
    (d d1 : Diagram) (t t1 : Int) (ro ro1 : List Nat) (acc acc1 : List Diagram) (hd : d.WF)
    (h : moveObstructions bump dt obs d t ro acc = .ok (d1, t1, ro1, acc1)) :
    d1.WF ∧ d1.boxes.Perm d.boxes ∧ d1.boxes.length = d.boxes.length ∧
      t1 = t + dt * obs.length ∧ ∃ new, acc1 = acc ++ new ∧ new.length = obs.length :=
  let ⟨w, _, _, p, l, ht, _, hn⟩ := moveObstructions_spec obs hd h
  ⟨w, p, l, ht, hn⟩

/-- `removePair` deletes exactly the `cup + 1 - cap` boxes `cap..cup`. -/
theorem remove_pair_length (d d' : Diagram) (cap cup : Int) (h : d.removePair cap cup = .ok d')
    (h0 : 0 ≤ cap) (h1 : cap ≤ cup) (h2 : cup < (d.boxes.length : Int)) :
    (d'.boxes.length : Int) + (cup + 1 - cap) = d.boxes.length :=
  Diagram.removePair_length h h0 h1 h2

/-- For any fuel and any input: the accumulated trace only grows, ends in the returned diagram, and
    the loop stops either snake-free or after exactly `fuel` rounds. -/
theorem snake_loop_result (fuel : Nat) (d d1 : Diagram) (acc acc1 : List Diagram)
    (h : snakeLoop fuel d acc = .ok (d1, acc1)) :
    ∃ steps, acc1 = acc ++ steps ∧ lastOr d steps = d1 ∧
      (d1.findSnake = none ∨ SnakeRounds fuel d d1) :=
  snakeLoop_result fuel h

/-- NOT PROVED: termination of the monoidal normal form that follows (C06's gap). -/
def snake_removal_terminates : Prop :=
  ∀ (d : Diagram) (left : Bool), d.WF → connected d →
    ∃ fuel steps, d.snakeRemoval left fuel = .ok (steps, true)

/-! Non-vacuity: the snake `Id(n) @ Cap(n.r, n) >> Cup(n, n.r) @ Id(n)` is found and removed. -/
private def n : Ob := ⟨"n", 0⟩
private def snake : Except Err Diagram :=
  Diagram.mk? [n] [n] [Box.cap n.r n, Box.cup n n.r] [1, 0]

example : (match snake with
    | .ok d => (match d.snakeRemoval false 10 with
        | .ok (steps, fin) => fin && steps.length == 1 && (checkSnakeTrace false d steps 0).isNone
            && (lastOr d steps).boxes.isEmpty
        | .error _ => false)
    | .error _ => false) = true := by decide
example : (match snake with | .ok d => yankableAt d 0 | .error _ => false) = true := by decide

/-! Non-vacuity of the `unsnake` theorems: snakes with obstructions on BOTH sides of the followed
    wire, interleaved, some of them wired to the other leg of the cap (`g` at offset 2 below the
    left snake's cap; `f` at offset 0 below the right snake's cap).  The hypotheses `WF`,
    `boxesValid`, `findSnake = some _` hold and the conclusions are observed. -/
private def f : Box := { name := "f", dom := [n], cod := [n] }
private def g : Box := { name := "g", dom := [n], cod := [n] }
private def leftSnake : Except Err Diagram :=
  Diagram.mk? [n] [n] [Box.cap n.r n, g, f, g, Box.cup n n.r] [1, 2, 0, 2, 0]
private def rightSnake : Except Err Diagram :=
  Diagram.mk? [n] [n] [Box.cap n n.l, g, f, g, f, Box.cup n.l n] [0, 2, 0, 2, 0, 1]

instance (b : Box) : Decidable b.valid := by unfold Box.valid; infer_instance
instance (d : Diagram) : Decidable d.boxesValid := by unfold Diagram.boxesValid; infer_instance

private def leftD : Diagram := match leftSnake with | .ok d => d | .error _ => Diagram.id []
private def rightD : Diagram := match rightSnake with | .ok d => d | .error _ => Diagram.id []

example : leftSnake = .ok leftD ∧ leftD.WF ∧ leftD.boxesValid ∧
    leftD.findSnake = some ⟨4, 0, [2], [1, 3], true⟩ :=
  ⟨by decide, Diagram.mk?_wf (by decide : leftSnake = .ok leftD), by decide, by decide⟩
example : rightSnake = .ok rightD ∧ rightD.WF ∧ rightD.boxesValid ∧
    rightD.findSnake = some ⟨5, 0, [2, 4], [1, 3], false⟩ :=
  ⟨by decide, Diagram.mk?_wf (by decide : rightSnake = .ok rightD), by decide, by decide⟩

example : (match leftSnake with
    | .ok d => (match d.unsnake ⟨4, 0, [2], [1, 3], true⟩ with
        | .ok steps => steps.length == 4 && (checkSnakeTrace false d steps 0).isNone
            && (lastOr d steps).boxes == [f, g, g] && (lastOr d steps).offsets == [0, 0, 0]
        | .error _ => false)
    | .error _ => false) = true := by decide

example : (match rightSnake with
    | .ok d => d.findSnake == some ⟨5, 0, [2, 4], [1, 3], false⟩ &&
      (match d.unsnake ⟨5, 0, [2, 4], [1, 3], false⟩ with
        | .ok steps => steps.length == 5 && (checkSnakeTrace false d steps 0).isNone
            && (lastOr d steps).boxes == [g, g, f, f] && (lastOr d steps).offsets == [0, 0, 0, 0]
        | .error _ => false) &&
      (match snakeLoop (d.boxes.length + 1) d [] with
        | .ok (d1, acc) => acc.length == 5 && d1.findSnake.isNone
        | .error _ => false)
    | .error _ => false) = true := by decide

end DV.C07
