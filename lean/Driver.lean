import Driver.Codec
import Driver.Main
