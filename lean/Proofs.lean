import Proofs.WF
import Proofs.WFOps
