/-
  Model/Grammar.lean — the grammar front-ends of discopy (property C18). Core Lean only.

  Transcribed one-for-one (file:line in comments) from
    discopy/grammar/pregroup.py   eager_parse (34-52), brute_force (55-66)
    discopy/grammar/cfg.py        CFG.generate (80-131); `random.shuffle` = an explicit oracle stream
    discopy/biclosed.py           Ty/Over/Under (11-80), Curry/FA/BA/FC/BC/FX/BX (133-238),
                                  Functor.__call__ (260-293), biclosed2rigid (296-304)
    discopy/rigid.py              fa/ba/fc/bc/fx/bx/curry (207-250), Cup.__init__ (338-349)
    discopy/monoidal.py           Functor.__call__ on diagrams, Diagram.tensor(other, *rest)
    discopy/grammar/ccg.py        cat2ty (17-43), tree2diagram (46-64)

  Two defects of the code are visible here (findings F10 and F14).  `Variant` selects, per
  defect, between the code AS IT IS and the proposed repair; `Variant.current` is what the
  driver (and hence the correspondence check) runs.
-/
import Model.Diagram

namespace DV

/-! ## 0. Sequencing helpers (Python evaluates the left operand first) -/

/-- `a @ b` where `a`, `b` are themselves results of calls that may raise. -/
def tensorE (a b : Except Err Diagram) : Except Err Diagram :=
  match a with
  | .error e => .error e
  | .ok x => match b with
    | .error e => .error e
    | .ok y => x.tensor y

/-- `a >> b`, same convention. -/
def thenE (a b : Except Err Diagram) : Except Err Diagram :=
  match a with
  | .error e => .error e
  | .ok x => match b with
    | .error e => .error e
    | .ok y => x.then y

/-! ## 1. pregroup.eager_parse / brute_force -/

/-- `self.tensor(other, *rest)`, monoidal.Diagram.tensor (`if rest: return self.tensor(other).tensor(*rest)`): a left fold of binary tensors. -/
def tensorAll : Diagram → List Diagram → Except Err Diagram
  | acc, [] => .ok acc
  | acc, d :: ds => match acc.tensor d with
    | .error e => .error e
    | .ok a => tensorAll a ds

/-- `Cup(left, right)`, rigid.py:338-349: both types must have length one (`ValueError`)
    and be adjoint one way or the other (`AxiomError`). -/
def mkCup (left right : Ty) : Except Err Box :=
  match left, right with
  | [l], [r] => if Ty.r [l] ≠ [r] ∧ [l] ≠ Ty.r [r] then .error .axiom else .ok (Box.cup l r)
  | _, _ => .error .value

/-- pregroup.py:42-44: the first `i in range(len(scan) - 1)` with
    `scan[i:i+1].r == scan[i+1:i+2]`. -/
def findAdj : Ty → Option Nat
  | x :: y :: rest => if Ty.r [x] = [y] then some 0 else (findAdj (y :: rest)).map (· + 1)
  | _ => none

/-- pregroup.py:45-46: `Id(scan[:i]) @ Cup(scan[i:i+1], scan[i+1:i+2]) @ Id(scan[i+2:])`. -/
def cupLayer (scan : Ty) (i : Nat) : Except Err Diagram :=
  match mkCup (pySlice scan (some (i : Int)) (some ((i : Int) + 1)))
      (pySlice scan (some ((i : Int) + 1)) (some ((i : Int) + 2))) with
  | .error e => .error e
  | .ok cup =>
    tensorE (tensorE (.ok (Diagram.id (pySlice scan none (some (i : Int))))) (.ok (Diagram.ofBox cup)))
      (.ok (Diagram.id (pySlice scan (some ((i : Int) + 2)) none)))

/-- pregroup.py:40-52, the `while True` loop.  `scan` is always `result.cod` (it is assigned
    together with `result`), so the model keeps one variable.  The loop's own measure is
    `len(scan)`, which drops by 2 per iteration; the recursion is structural on a bound that
    `eagerParse` derives from the input (`Proofs/Grammar.lean: eagerLoop_no_fuel` shows the
    bound is never reached), so the model's entry point takes no fuel. -/
def eagerLoop (target : Ty) : Nat → Diagram → Except Err Diagram
  | 0, _ => .error .fuel
  | n + 1, result =>
    match findAdj result.cod with
    | none => if result.cod = target then .ok result else .error .notImpl
    | some i =>
      match thenE (.ok result) (cupLayer result.cod i) with
      | .error e => .error e
      | .ok result' => if result'.cod = target then .ok result' else eagerLoop target n result'

/-- `eager_parse(*words, target=target)`, pregroup.py:34-52. -/
def eagerParse (words : List Box) (target : Ty) : Except Err Diagram :=
  match tensorAll (Diagram.id []) (words.map Diagram.ofBox) with
  | .error e => .error e
  | .ok result => eagerLoop target (result.cod.length + 1) result

/-- The `for word in vocab` body of brute_force (pregroup.py:60-66) for one queue entry:
    the parses it yields.  Only `NotImplementedError` is caught by the code; the model drops
    every failure, which is the same thing because `eagerParse` has no other failure
    (`Proofs/Grammar.lean: eagerParse_error`). -/
def bruteForceStep (vocab : List Box) (target : Ty) (words : List Box) : List Diagram :=
  vocab.filterMap (fun w => match eagerParse (words ++ [w]) target with
    | .ok d => some d
    | .error _ => none)

/-- `brute_force(*vocab, target=target)`, pregroup.py:55-66: breadth-first over word
    sequences.  The generator is infinite; the model processes the first `k` queue entries. -/
def bruteForceLoop (vocab : List Box) (target : Ty) : Nat → List (List Box) → List Diagram
  | 0, _ => []
  | _, [] => []
  | k + 1, words :: queue =>
    bruteForceStep vocab target words ++
      bruteForceLoop vocab target k (queue ++ vocab.map (fun w => words ++ [w]))

def bruteForce (vocab : List Box) (target : Ty) (k : Nat) : List Diagram :=
  bruteForceLoop vocab target k [[]]

/-! ## 2. cfg.CFG.generate -/

/-- `random.shuffle(prods)`: the oracle supplies the new order as indices into the current
    list.  Any index list is accepted (a permutation is what `random` produces). -/
def shuffleBy (prods : List Box) (perm : List Nat) : List Box := perm.filterMap (prods[·]?)

/-- cfg.py:123-129: the first production (in shuffled order) that is not excluded by
    `not_twice` and whose codomain is the leftmost open symbol. -/
def findProd (notTwice : List Box) (sentence : Diagram) (tag : Ob) : List Box → Option Box
  | [] => none
  | p :: ps =>
    if notTwice.contains p && sentence.boxes.contains p then findProd notTwice sentence tag ps
    else if [tag] = p.cod then some p
    else findProd notTwice sentence tag ps

/-- cfg.py:127: `sentence << prod @ Id(sentence.dom[1:])`. -/
def expand (sentence : Diagram) (p : Box) : Except Err Diagram :=
  thenE (tensorE (.ok (Diagram.ofBox p)) (.ok (Diagram.id (pySlice sentence.dom (some 1) none))))
    (.ok sentence)

/-- cfg.py:111-131, the `while depth < max_depth` loop (first argument: `max_depth - depth`).
    Returns the finished sentence if one was reached, the current order of `prods` and the
    unused part of the oracle stream.  An exhausted stream is `Err.fuel`. -/
def growLoop (notTwice : List Box) :
    Nat → List Box → List (List Nat) → Diagram → Except Err (Option Diagram × List Box × List (List Nat))
  | 0, prods, orc, _ => .ok (none, prods, orc)
  | k + 1, prods, orc, s =>
    match s.dom with
    | [] => .ok (some s, prods, orc)
    | tag :: _ =>
      match orc with
      | [] => .error .fuel
      | perm :: orc' =>
        match findProd notTwice s tag (shuffleBy prods perm) with
        | none => .ok (none, shuffleBy prods perm, orc')
        | some p =>
          match expand s p with
          | .error e => .error e
          | .ok s' => growLoop notTwice k (shuffleBy prods perm) orc' s'

structure CfgParams where
  productions : List Box
  start : Ty
  maxSentences : Int          -- `None` is sent as 0 (both are falsy, cfg.py:107)
  maxDepth : Int
  maxIter : Int
  removeDuplicates : Bool
  notTwice : List Box
  deriving Repr, Inhabited

/-- cfg.py:107-131, the outer `while` (first argument: `max_iter - i`). -/
def genLoop (P : CfgParams) :
    Nat → Int → List Box → List (List Nat) → List Diagram → List Diagram → Except Err (List Diagram)
  | 0, _, _, _, _, acc => .ok acc
  | k + 1, n, prods, orc, cache, acc =>
    if ¬ (n ≤ (if P.maxSentences = 0 then n else P.maxSentences)) then .ok acc
    else match growLoop P.notTwice P.maxDepth.toNat prods orc (Diagram.id P.start) with
      | .error e => .error e
      | .ok (none, prods', orc') => genLoop P k n prods' orc' cache acc
      | .ok (some s, prods', orc') =>
        if P.removeDuplicates && cache.any (fun c => c.eqv s) then genLoop P k n prods' orc' cache acc
        else genLoop P k (n + 1) prods' orc' (if P.removeDuplicates then s :: cache else cache)
          (acc ++ [s])

/-- `list(CFG(*productions).generate(start, max_sentences, max_depth, max_iter,
    remove_duplicates, not_twice))` with the shuffles taken from `oracle`. -/
def cfgGenerate (P : CfgParams) (oracle : List (List Nat)) : Except Err (List Diagram) :=
  genLoop P P.maxIter.toNat 1 P.productions oracle [] []

/-! ## 3. biclosed types and their image in rigid types -/

/-- An object of a `biclosed.Ty`: a `cat.Ob` or an `Over`/`Under` instance (which is its own
    single object, biclosed.py:46/66: `super().__init__(self, …)`). -/
inductive BOb where
  | atom (name : String)
  | over (l r : List BOb)      -- `l << r`
  | under (l r : List BOb)     -- `l >> r`
  deriving Repr, Inhabited

/-- `biclosed.Ty`: the list of its objects.  `Over(l, r)` as a type is `[.over l r]`
    (`upgrade`, biclosed.py:26-30, returns the object itself for such singletons). -/
abbrev BTy := List BOb

mutual
def BOb.decEq : (a b : BOb) → Decidable (a = b)
  | .atom n, .atom m =>
    if h : n = m then isTrue (by rw [h]) else isFalse (by intro e; cases e; exact h rfl)
  | .over l r, .over l' r' =>
    match BTy.decEq l l', BTy.decEq r r' with
    | isTrue h1, isTrue h2 => isTrue (by rw [h1, h2])
    | isFalse h1, _ => isFalse (by intro e; cases e; exact h1 rfl)
    | _, isFalse h2 => isFalse (by intro e; cases e; exact h2 rfl)
  | .under l r, .under l' r' =>
    match BTy.decEq l l', BTy.decEq r r' with
    | isTrue h1, isTrue h2 => isTrue (by rw [h1, h2])
    | isFalse h1, _ => isFalse (by intro e; cases e; exact h1 rfl)
    | _, isFalse h2 => isFalse (by intro e; cases e; exact h2 rfl)
  | .atom _, .over _ _ => isFalse (by intro e; cases e)
  | .atom _, .under _ _ => isFalse (by intro e; cases e)
  | .over _ _, .atom _ => isFalse (by intro e; cases e)
  | .over _ _, .under _ _ => isFalse (by intro e; cases e)
  | .under _ _, .atom _ => isFalse (by intro e; cases e)
  | .under _ _, .over _ _ => isFalse (by intro e; cases e)
def BTy.decEq : (a b : List BOb) → Decidable (a = b)
  | [], [] => isTrue rfl
  | [], _ :: _ => isFalse (by intro e; cases e)
  | _ :: _, [] => isFalse (by intro e; cases e)
  | x :: xs, y :: ys =>
    match BOb.decEq x y, BTy.decEq xs ys with
    | isTrue h1, isTrue h2 => isTrue (by rw [h1, h2])
    | isFalse h1, _ => isFalse (by intro e; cases e; exact h1 rfl)
    | _, isFalse h2 => isFalse (by intro e; cases e; exact h2 rfl)
end

instance : DecidableEq BOb := BOb.decEq

def BTy.over (l r : BTy) : BTy := [.over l r]     -- `l << r`, biclosed.py:36-37
def BTy.under (l r : BTy) : BTy := [.under l r]   -- `l >> r`, biclosed.py:39-40

/- The object map of `biclosed2rigid` (biclosed.py:261-267, 296-297; rigid.py:110-114):
    `x << y ↦ F x @ (F y).l`, `x >> y ↦ (F x).r @ F y`, an atom to the rigid atom of the same
    name, a longer type to the tensor of the images of its one-object slices. -/
mutual
def BOb.img : BOb → Ty
  | .atom n => [⟨n, 0⟩]
  | .over l r => BTy.img l ++ Ty.l (BTy.img r)
  | .under l r => Ty.r (BTy.img l) ++ BTy.img r
def BTy.img : BTy → Ty
  | [] => []
  | x :: xs => x.img ++ BTy.img xs
end

/-- `diagram.dom[:1].left` etc. (biclosed.py:279-290): the `left` attribute of a slash type.
    A plain `Ty` has `left = None`, on which the functor raises `TypeError`. -/
def BTy.left? : BTy → Except Err BTy
  | [.over l _] => .ok l
  | [.under l _] => .ok l
  | _ => .error .type
def BTy.right? : BTy → Except Err BTy
  | [.over _ r] => .ok r
  | [.under _ r] => .ok r
  | _ => .error .type

/-! ## 4. The repairs of findings F10 and F14 -/

/-- Which text of the code is transcribed.
    * `baRepaired`  (F10, biclosed.py:273-276): `BA` splits its domain as `dom[:-1] / dom[-1:]`
      instead of `dom[:1] / dom[1:]`.
    * `curryRepaired` (F14, biclosed.py:152 and rigid.py:249): the un-curried part of the domain
      is `dom[:-n_wires or len(dom)]` instead of `dom[:-n_wires]`. -/
structure Variant where
  baRepaired : Bool
  curryRepaired : Bool
  deriving DecidableEq, Repr, Inhabited

def Variant.asIs : Variant := ⟨false, false⟩
def Variant.repaired : Variant := ⟨true, true⟩

/-- THE SWITCH: the variant the driver runs, i.e. the text of /repo the correspondence check
    expects.  Set a field to `true` when the corresponding `fix:` commit is in /repo. -/
def Variant.current : Variant := ⟨true, true⟩

/-! ## 5. Biclosed rule boxes -/

/-- A biclosed box other than `Curry`: a generic `Box`/`Word` (`gen`; `dgen` when it was built
    with `_dagger=True`), or one of the rule boxes with
    the slash types it was built from already taken apart
    (`fa l r = FA(l << r)`, `ba l r = BA(l >> r)`, `fc a b c d = FC(a << b, c << d)`,
    `bc a b c d = BC(a >> b, c >> d)`, `fx a b c d = FX(a << b, c >> d)`,
    `bx a b c d = BX(a << b, c >> d)`). -/
inductive Rule where
  | gen (name : String) (dom cod : BTy)
  | dgen (name : String) (dom cod : BTy)     -- `Box(name, dom, cod, _dagger=True)`
  | fa (l r : BTy)
  | ba (l r : BTy)
  | fc (a b c d : BTy)
  | bc (a b c d : BTy)
  | fx (a b c d : BTy)
  | bx (a b c d : BTy)
  deriving Repr, Inhabited

/-- The composability test of the constructors (`TypeError` otherwise):
    biclosed.py:192, 206, 220, 234. -/
def Rule.check : Rule → Bool
  | .fc _ b c _ => b = c        -- left.right != right.left
  | .bc _ b c _ => b = c        -- left.right != right.left
  | .fx _ b _ d => b = d        -- left.right != right.right
  | .bx a _ c _ => a = c        -- left.left != right.left
  | _ => true

/-- `box.dom`, biclosed.py:166, 178, 195, 209, 223, 237. -/
def Rule.dom : Rule → BTy
  | .gen _ dom _ => dom
  | .dgen _ dom _ => dom
  | .fa l r => BTy.over l r ++ r
  | .ba l r => l ++ BTy.under l r
  | .fc a b c d => BTy.over a b ++ BTy.over c d
  | .bc a b c d => BTy.under a b ++ BTy.under c d
  | .fx a b c d => BTy.over a b ++ BTy.under c d
  | .bx a b c d => BTy.over a b ++ BTy.under c d

/-- `box.cod`, same lines. -/
def Rule.cod : Rule → BTy
  | .gen _ _ cod => cod
  | .dgen _ _ cod => cod
  | .fa l _ => l
  | .ba _ r => r
  | .fc a _ _ d => BTy.over a d          -- left.left << right.right
  | .bc a _ _ d => BTy.under a d         -- left.left >> right.right
  | .fx a _ c _ => BTy.under c a         -- right.left >> left.left
  | .bx _ b _ d => BTy.over d b          -- right.right << left.right

/-- `dom = dom or cod[0:0]`, cfg.py:51 (`Word.__init__`; `dom=None` and an empty type are both
    falsy). -/
def wordDom (dom cod : BTy) : BTy := if dom = [] then pySlice cod (some 0) (some 0) else dom

/-- `Word(name, cod, dom=dom, _dagger=dagger)`, cfg.py:46-54 (`cfg.Word`; `ccg.Word` is
    `class Word(cfg.Word, Box)`, ccg.py:13-14, with the same constructor): a generic box whose
    domain is the optional `dom` argument.  `biclosed2rigid` has no case for words: they take
    the `ar` map of generic boxes (biclosed.py:301-303). -/
def mkWord (name : String) (cod dom : BTy) (dagger : Bool) : Rule :=
  if dagger then .dgen name (wordDom dom cod) cod else .gen name (wordDom dom cod) cod

/-! ## 6. The rigid images, rigid.py:207-250 -/

/-- `-len(right) or len(left)`, rigid.py:210. -/
def faOff (left right : Ty) : Int :=
  if -(right.length : Int) = 0 then (left.length : Int) else -(right.length : Int)

/-- rigid.py:208-211. -/
def rigidFa (left right : Ty) : Except Err Diagram :=
  tensorE (.ok (Diagram.id (pySlice left none (some (faOff left right)))))
    (Diagram.cups (pySlice left (some (faOff left right)) none) right)

/-- `len(left) or -len(right)`, rigid.py:216. -/
def baOff (left right : Ty) : Int :=
  if (left.length : Int) = 0 then -(right.length : Int) else (left.length : Int)

/-- rigid.py:214-217. -/
def rigidBa (left right : Ty) : Except Err Diagram :=
  tensorE (Diagram.cups left (pySlice right none (some (baOff left right))))
    (.ok (Diagram.id (pySlice right (some (baOff left right)) none)))

/-- rigid.py:220-222. -/
def rigidFc (left middle right : Ty) : Except Err Diagram :=
  tensorE (tensorE (.ok (Diagram.id left)) (Diagram.cups middle.l middle)) (.ok (Diagram.id right.l))

/-- rigid.py:225-227. -/
def rigidBc (left middle right : Ty) : Except Err Diagram :=
  tensorE (tensorE (.ok (Diagram.id left.r)) (Diagram.cups middle middle.r)) (.ok (Diagram.id right))

/-- rigid.py:230-233. -/
def rigidFx (left middle right : Ty) : Except Err Diagram :=
  thenE (tensorE (tensorE (.ok (Diagram.id left)) (Diagram.swap middle.l right.r))
      (.ok (Diagram.id middle)))
    (tensorE (Diagram.swap left right.r) (Diagram.cups middle.l middle))

/-- rigid.py:236-239. -/
def rigidBx (left middle right : Ty) : Except Err Diagram :=
  thenE (tensorE (tensorE (.ok (Diagram.id middle)) (Diagram.swap left.l middle.r))
      (.ok (Diagram.id right)))
    (tensorE (Diagram.cups middle middle.r) (Diagram.swap left.l right))

/-- `-n_wires or len(dom)`, rigid.py:248 / biclosed.py:153. -/
def negOr (n : Int) (len : Nat) : Int := if -n = 0 then (len : Int) else -n

/-- The upper bound of the un-curried slice: `-n_wires` in the code as it is
    (rigid.py:249, biclosed.py:152), `-n_wires or len(dom)` in the repair of F14. -/
def curryCut (repaired : Bool) (n : Int) (len : Nat) : Int := if repaired then negOr n len else -n

/-- rigid.py:244-247, `left=True`. -/
def rigidCurryLeft (g : Diagram) (n : Int) : Except Err Diagram :=
  thenE
    (tensorE (Diagram.caps (Ty.r (pySlice g.dom none (some n))) (pySlice g.dom none (some n)))
      (.ok (Diagram.id (pySlice g.dom (some n) none))))
    (tensorE (.ok (Diagram.id (Ty.r (pySlice g.dom none (some n))))) (.ok g))

/-- rigid.py:248-250, `left=False`. -/
def rigidCurryRight (repaired : Bool) (g : Diagram) (n : Int) : Except Err Diagram :=
  thenE
    (tensorE (.ok (Diagram.id (pySlice g.dom none (some (curryCut repaired n g.dom.length)))))
      (Diagram.caps (pySlice g.dom (some (negOr n g.dom.length)) none)
        (Ty.l (pySlice g.dom (some (negOr n g.dom.length)) none))))
    (tensorE (.ok g) (.ok (Diagram.id (Ty.l (pySlice g.dom (some (negOr n g.dom.length)) none)))))

def rigidCurry (v : Variant) (g : Diagram) (n : Int) (left : Bool) : Except Err Diagram :=
  if left then rigidCurryLeft g n else rigidCurryRight v.curryRepaired g n

/-! ## 7. biclosed.Functor.__call__ on boxes, biclosed.py:268-293 -/

/-- `dom[:1]` and `dom[1:]`. -/
def BTy.first (dom : BTy) : BTy := pySlice dom none (some 1)
def BTy.rest (dom : BTy) : BTy := pySlice dom (some 1) none

/-- biclosed.py:273-276.  `FA` and (in the code as it is) `BA` both split `dom[:1] / dom[1:]`;
    the repair of F10 lets `BA` split `dom[:-1] / dom[-1:]`. -/
def baSplit (repaired : Bool) (dom : BTy) : BTy × BTy :=
  if repaired then (pySlice dom none (some (-1)), pySlice dom (some (-1)) none)
  else (dom.first, dom.rest)

/-- biclosed.py:277-282 (`FC`, `BC`):
    `left, right = dom[:1].left, dom[1:].right; middle = dom[:1].right`. -/
def fcImg (dom : BTy) (f : Ty → Ty → Ty → Except Err Diagram) : Except Err Diagram :=
  match dom.first.left?, dom.rest.right?, dom.first.right? with
  | .ok left, .ok right, .ok middle => f (BTy.img left) (BTy.img middle) (BTy.img right)
  | _, _, _ => .error .type

/-- biclosed.py:283-287 (`FX`):
    `left, right = dom[:1].left, dom[1:].left; middle = dom[:1].right`. -/
def fxImg (dom : BTy) : Except Err Diagram :=
  match dom.first.left?, dom.rest.left?, dom.first.right? with
  | .ok left, .ok right, .ok middle => rigidFx (BTy.img left) (BTy.img middle) (BTy.img right)
  | _, _, _ => .error .type

/-- biclosed.py:288-292 (`BX`):
    `left, right = dom[:1].right, dom[1:].right; middle = dom[:1].left`. -/
def bxImg (dom : BTy) : Except Err Diagram :=
  match dom.first.right?, dom.rest.right?, dom.first.left? with
  | .ok left, .ok right, .ok middle => rigidBx (BTy.img left) (BTy.img middle) (BTy.img right)
  | _, _, _ => .error .type

/-- The image of a rule box before the constructor test. -/
def Rule.imgCore (v : Variant) : Rule → Except Err Diagram
  | .gen name dom cod =>                                   -- biclosed.py:302-303
    .ok (Diagram.ofBox { name := name, dom := BTy.img dom, cod := BTy.img cod })
  | .dgen name dom cod =>                                  -- cat.py:860-861: `ar[box.dagger()].dagger()`
    .ok (Diagram.ofBox (Box.dag { name := name, dom := BTy.img cod, cod := BTy.img dom }))
  | .fa l r =>                                             -- biclosed.py:273-276
    rigidFa (BTy.img (Rule.fa l r).dom.first) (BTy.img (Rule.fa l r).dom.rest)
  | .ba l r =>
    rigidBa (BTy.img (baSplit v.baRepaired (Rule.ba l r).dom).1)
      (BTy.img (baSplit v.baRepaired (Rule.ba l r).dom).2)
  | .fc a b c d => fcImg (Rule.fc a b c d).dom rigidFc
  | .bc a b c d => fcImg (Rule.bc a b c d).dom rigidBc
  | .fx a b c d => fxImg (Rule.fx a b c d).dom
  | .bx a b c d => bxImg (Rule.bx a b c d).dom

/-- `biclosed2rigid(box)` for a box that is not a `Curry`; a box the constructor refuses
    is a `TypeError`. -/
def Rule.img (v : Variant) (r : Rule) : Except Err Diagram :=
  if r.check then r.imgCore v else .error .type

/-! ## 8. Curry boxes and biclosed diagrams -/

/-- `Curry(diagram, n_wires, left).dom`, biclosed.py:147-153. -/
def curryDom (v : Variant) (ddom : BTy) (n : Int) (left : Bool) : BTy :=
  if left then pySlice ddom (some n) none
  else pySlice ddom none (some (curryCut v.curryRepaired n ddom.length))

/-- The curried wires: `dom[:n_wires]` resp. `dom[-n_wires or len(dom):]`. -/
def curryWires (ddom : BTy) (n : Int) (left : Bool) : BTy :=
  if left then pySlice ddom none (some n) else pySlice ddom (some (negOr n ddom.length)) none

/-- `Curry(…).cod`: `wires >> cod` resp. `cod << wires`. -/
def curryCod (ddom dcod : BTy) (n : Int) (left : Bool) : BTy :=
  if left then BTy.under (curryWires ddom n left) dcod else BTy.over dcod (curryWires ddom n left)

/-- biclosed.py:268-272 given the image `g` of the curried diagram:
    `n_wires = len(F(cod.left | cod.right))`, then `rigid.Diagram.curry(g, n_wires, left)`. -/
def curryImg (v : Variant) (ddom : BTy) (g : Diagram) (n : Int) (left : Bool) : Except Err Diagram :=
  rigidCurry v g ((BTy.img (curryWires ddom n left)).length : Int) left

/-- A biclosed diagram as the functor reads it: `dom` and the list of `(box, offset)`, last
    box outermost.  `Curry` boxes carry the diagram they curry. -/
inductive BD where
  | id (dom : BTy)
  | snoc (d : BD) (off : Int) (r : Rule)
  | snocCurry (d : BD) (off : Int) (inner : BD) (n : Int) (left : Bool)
  deriving Repr, Inhabited

def BD.dom : BD → BTy
  | .id t => t
  | .snoc d _ _ => d.dom
  | .snocCurry d _ _ _ _ => d.dom

/-- monoidal.Functor.__call__, last line of the loop: `scan[:off] @ box.cod @ scan[off + len(box.dom):]`. -/
def scanStep (scan : BTy) (off : Int) (bdom bcod : BTy) : BTy :=
  pySlice scan none (some off) ++ bcod ++ pySlice scan (some (off + bdom.length)) none

/-- The `scan` variable of monoidal.Functor.__call__ after all boxes (= the codomain of a
    well-typed diagram). -/
def BD.cod (v : Variant) : BD → BTy
  | .id t => t
  | .snoc d off r => scanStep (d.cod v) off r.dom r.cod
  | .snocCurry d off inner n left =>
    scanStep (d.cod v) off (curryDom v inner.dom n left) (curryCod inner.dom (inner.cod v) n left)

/-- monoidal.Functor.__call__, loop body: `result >> id(F(scan[:off])) @ F(box) @ id(F(scan[off+len(box.dom):]))`. -/
def imgLayer (res : Diagram) (scan : BTy) (off : Int) (bdom : BTy) (fbox : Except Err Diagram) :
    Except Err Diagram :=
  thenE (.ok res)
    (tensorE (tensorE (.ok (Diagram.id (BTy.img (pySlice scan none (some off))))) fbox)
      (.ok (Diagram.id (BTy.img (pySlice scan (some (off + bdom.length)) none)))))

/-- `biclosed2rigid(diagram)` for a diagram that is not a single box: the `isinstance(diagram,
    Diagram)` branch of monoidal.Functor.__call__ with `self(box)` dispatched by biclosed.py:268-293. -/
def BD.img (v : Variant) : BD → Except Err Diagram
  | .id t => .ok (Diagram.id (BTy.img t))
  | .snoc d off r =>
    match d.img v with
    | .error e => .error e
    | .ok res => imgLayer res (d.cod v) off r.dom (r.img v)
  | .snocCurry d off inner n left =>
    match d.img v with
    | .error e => .error e
    | .ok res =>
      match inner.img v with
      | .error e => .error e
      | .ok g => imgLayer res (d.cod v) off (curryDom v inner.dom n left) (curryImg v inner.dom g n left)

/-- `biclosed2rigid(Curry(inner, n, left))` applied to the box itself (biclosed.py:268-272). -/
def BD.curryBoxImg (v : Variant) (inner : BD) (n : Int) (left : Bool) : Except Err Diagram :=
  match inner.img v with
  | .error e => .error e
  | .ok g => curryImg v inner.dom g n left

/-! ## 9. ccg.cat2ty and ccg.tree2diagram

  Names follow the convention of `Model/Basic.lean`: a model name is the Python `repr` of the
  name.  Category strings arrive raw; an atom cut out of one gets the name `'…'` (`pyRepr`),
  which is its `repr` as long as it contains no quote, backslash or non-printable character.
  Word and node-type names arrive already as `repr`s (so the rule names are `'fa'`, …). -/

def pyRepr (s : List Char) : String := "'" ++ String.ofList s ++ "'"

/-- `re.sub(r'\[[^]]*\]', '', string)`, ccg.py:24-25: drop every `[` … first following `]`.
    `pending = some buf` while inside a bracket (`buf` = the text since `[`, reversed, put
    back if the bracket is never closed). -/
def removeModifierAux : List Char → Option (List Char) → List Char
  | [], none => []
  | [], some buf => buf.reverse
  | c :: cs, none =>
    if c = '[' then removeModifierAux cs (some ['[']) else c :: removeModifierAux cs none
  | c :: cs, some buf =>
    if c = ']' then removeModifierAux cs none else removeModifierAux cs (some (c :: buf))

def removeModifier (s : List Char) : List Char := removeModifierAux s none

/-- `string[1:-1] if string[0] == '(' else string`, ccg.py:21-22 (`IndexError` on `''`). -/
def unbracket : List Char → Except Err (List Char)
  | [] => .error .index
  | c :: cs => if c = '(' then .ok (pySlice (c :: cs) (some 1) (some (-1))) else .ok (c :: cs)

/-- ccg.py:27-36: the first `/` or `\` at parenthesis depth 0; `acc` is the text before it,
    reversed. -/
def splitCat : List Char → Int → List Char → Option (List Char × Char × List Char)
  | [], _, _ => none
  | c :: cs, par, acc =>
    if c = '(' then splitCat cs (par + 1) (c :: acc)
    else if c = ')' then splitCat cs (par - 1) (c :: acc)
    else if (c = '\\' ∨ c = '/') ∧ par = 0 then some (acc.reverse, c, cs)
    else splitCat cs par (c :: acc)

/-- ccg.py:17-43.  The recursion is on proper substrings; the first argument bounds it
    (`cat2ty` passes the length of the string + 1, which is never exhausted). -/
def cat2tyFuel : Nat → List Char → Except Err BTy
  | 0, _ => .error .fuel
  | n + 1, s =>
    match splitCat s 0 [] with
    | none => .ok [.atom (pyRepr (removeModifier s))]
    | some (l, slash, r) =>
      match unbracket l with
      | .error e => .error e
      | .ok l' =>
        match unbracket r with
        | .error e => .error e
        | .ok r' =>
          if slash = '\\' then           -- cat2ty(right) >> cat2ty(left)
            match cat2tyFuel n r' with
            | .error e => .error e
            | .ok R => match cat2tyFuel n l' with
              | .error e => .error e
              | .ok L => .ok (BTy.under R L)
          else                            -- cat2ty(left) << cat2ty(right)
            match cat2tyFuel n l' with
            | .error e => .error e
            | .ok L => match cat2tyFuel n r' with
              | .error e => .error e
              | .ok R => .ok (BTy.over L R)

/-- `cat2ty(string)`; the string is given as its list of characters (the driver converts). -/
def cat2ty (s : List Char) : Except Err BTy := cat2tyFuel (s.length + 1) s

/-- Replace the domain at the root of a diagram. -/
def BD.mapDom (f : BTy → BTy) : BD → BD
  | .id t => .id (f t)
  | .snoc d off r => .snoc (d.mapDom f) off r
  | .snocCurry d off inner n left => .snocCurry (d.mapDom f) off inner n left

/-- The boxes of `b`, offsets shifted, on top of `a`. -/
def BD.appendSteps (a : BD) (shift : Int) : BD → BD
  | .id _ => a
  | .snoc d off r => .snoc (a.appendSteps shift d) (off + shift) r
  | .snocCurry d off inner n left => .snocCurry (a.appendSteps shift d) (off + shift) inner n left

/-- `a @ b` on biclosed diagrams, monoidal.Diagram.tensor (boxes/offsets view). -/
def BD.tensor (v : Variant) (a b : BD) : BD :=
  (a.mapDom (· ++ b.dom)).appendSteps ((a.cod v).length : Int) b

/-- `a >> b`, monoidal.Diagram.then: refused with `AxiomError` unless `a.cod == b.dom`. -/
def BD.then (v : Variant) (a b : BD) : Except Err BD :=
  if a.cod v ≠ b.dom then .error .axiom else .ok (a.appendSteps 0 b)

/-- `Id(Ty()).tensor(*children)`. -/
def BD.tensorAll (v : Variant) : BD → List BD → BD
  | acc, [] => acc
  | acc, d :: ds => BD.tensorAll v (acc.tensor v d) ds

/-- A box seen as a diagram. -/
def BD.ofRule (r : Rule) : BD := .snoc (.id r.dom) 0 r

/-- `BA(under)`, `FA(over)`, `FC(left, right)` with their `isinstance` / composability tests
    (biclosed.py:163-166, 175-178, 187-195). -/
def mkFA : BTy → Except Err Rule
  | [.over l r] => .ok (.fa l r)
  | _ => .error .type
def mkBA : BTy → Except Err Rule
  | [.under l r] => .ok (.ba l r)
  | _ => .error .type
def mkFC : BTy → BTy → Except Err Rule
  | [.over a b], [.over c d] => if b = c then .ok (.fc a b c d) else .error .type
  | _, _ => .error .type

/-- A depccg tree in JSON form (ccg.py:46-64): a leaf `{'word', 'cat'}` or a node
    `{'type', 'cat', 'children'}`.  `word`/`type` are Python `repr`s, `cat` is raw. -/
inductive CTree where
  | word (word : String) (cat : List Char)
  | node (type : String) (cat : List Char) (children : List CTree)
  deriving Repr, Inhabited

/-- ccg.py:56-63: the box of an inner node. -/
def nodeBox (type : String) (dom cod : BTy) : Except Err Rule :=
  if type = "'ba'" then mkBA dom.rest
  else if type = "'fa'" then mkFA dom.first
  else if type = "'fc'" then mkFC dom.first dom.rest
  else .ok (.gen type dom cod)

/-- ccg.py:53-64 once the children are translated. -/
def nodeBD (v : Variant) (type : String) (cat : List Char) (kids : List BD) : Except Err BD :=
  match cat2ty cat with
  | .error e => .error e
  | .ok cod =>
    match nodeBox type (kids.flatMap (fun k => k.cod v)) cod with
    | .error e => .error e
    | .ok box => (BD.tensorAll v (.id []) kids).then v (BD.ofRule box)

mutual
/-- `tree2diagram(tree, dom=dom)`, ccg.py:46-64.  The optional `dom` (default `Ty()`) is the
    domain of the word of a LEAF tree (ccg.py:52); an inner node overwrites it (ccg.py:54) and
    translates its children with the default (`map(tree2diagram, tree['children'])`, ccg.py:53). -/
def CTree.toBD (v : Variant) : CTree → BTy → Except Err BD
  | .word w cat, dom =>
    match cat2ty cat with
    | .error e => .error e
    | .ok cod => .ok (BD.ofRule (mkWord w cod dom false))
  | .node type cat children, _ =>
    match CTree.listToBD v children with
    | .error e => .error e
    | .ok kids => nodeBD v type cat kids
def CTree.listToBD (v : Variant) : List CTree → Except Err (List BD)
  | [] => .ok []
  | t :: ts =>
    match t.toBD v [] with
    | .error e => .error e
    | .ok d => match CTree.listToBD v ts with
      | .error e => .error e
      | .ok ds => .ok (d :: ds)
end

/-- The domain of `tree2diagram(tree, dom=dom)`: `dom` for a leaf, empty for an inner node. -/
def CTree.domOf : CTree → BTy → BTy
  | .word _ _, dom => dom
  | .node _ _ _, _ => []

end DV
