/-
  Model/TkImport.lean — discopy/quantum/tk.py `from_tk` (lines 266-342 of the file as it is after
  the fix commits F12/F13, F30, F31/F32), transcribed one-for-one (core Lean only).

  Input (`TkIn`): what the function reads of the (upgraded) tket circuit — `n_qubits`, `n_bits =
  len(bits)`, `get_commands()` as a list of `Cmd` (op name, parameter, `index[0]` of the qubit and
  bit arguments), `post_selection`, whether `scalar != 1`, and `post_processing` (a classical
  circuit: width in/out, boxes with offsets).  `Circuit.upgrade` and pytket's command order are
  outside the model: the harness hands the model the command list the code iterates over.

  Output: a circuit description `D` (domain, codomain, boxes with offsets) in the box language of
  Model/Tk.lean.  The tiny diagram algebra `D.id / D.box / D.tensor / D.then / D.swap /
  D.daggerSwaps` mirrors `Id(t)`, a box, `@`, `>>` (AxiomError unless the types meet,
  cat.py:298-310), `Id.swap` (monoidal.py:487-514) and `swaps[::-1]` so that every line of the
  Python function has its counterpart here.

  Angles: a `Cmd` carries the tket parameter as a numerator over 16 (half turns); `box_from_tk`
  halves it (`params[0] / 2`), a `TBox.rot` carries the phase as a numerator over 16 (turns).  The
  modelled input domain is the lattice of even numerators (tket parameters that are multiples of
  1/8): the driver refuses odd ones.
-/
import Model.TkFrom

namespace DV.Tk
open DV

/-! ### circuit descriptions and the operations `from_tk` uses on them -/

/-- `Circuit(dom, cod, boxes, offsets)`. -/
structure D where
  dom : List W := []
  cod : List W := []
  layers : Layers := []
  deriving DecidableEq, Repr, Inhabited

def shiftLayers (k : Nat) (ls : Layers) : Layers := ls.map fun l => (l.1, l.2 + k)

/-- `Id(t)`. -/
def D.id (t : List W) : D := ⟨t, t, []⟩

/-- A box as a one-layer diagram. -/
def D.box (b : TBox) : D := ⟨b.dom, b.cod, [(b, 0)]⟩

/-- `a @ b` (monoidal.py:357-386): the boxes of `a`, then those of `b` moved right by `len(a.cod)`. -/
def D.tensor (a b : D) : D := ⟨a.dom ++ b.dom, a.cod ++ b.cod, a.layers ++ shiftLayers a.cod.length b.layers⟩

/-- `Id(0).tensor(*ds)` (monoidal.py:357: a left fold of `@`). -/
def D.tensorAll (ds : List D) : D := ds.foldl D.tensor (D.id [])

/-- `a >> b` (cat.py:298-310). -/
def D.then (a b : D) : Except Err D :=
  if a.cod = b.dom then .ok ⟨a.dom, b.cod, a.layers ++ b.layers⟩ else .error .axiom

/-- One wire past the wires of `right` (monoidal.py:507-512): `Swap(l, right[i])` at offset `i`. -/
def oneSwap (l : W) (right : List W) : Layers := right.zipIdx.map fun p => (TBox.swap l p.1, p.2)

/-- The boxes of `Id.swap(left, right)` (monoidal.py:505-514):
    `Id(left[:1]) @ swap(left[1:], right) >> swap(left[:1], right) @ Id(left[1:])`. -/
def swapBoxes : List W → List W → Layers
  | [], _ => []
  | l :: tl, right => shiftLayers 1 (swapBoxes tl right) ++ oneSwap l right

/-- `Id.swap(left, right)`. -/
def D.swap (left right : List W) : D := ⟨left ++ right, right ++ left, swapBoxes left right⟩

/-- `Swap(l, r).dagger() = Swap(r, l)` (circuit.py:683-684).  Only ever applied to diagrams made
    of `Swap` boxes (tk.py:335 `swaps[::-1]`); every other box is left alone here. -/
def daggerSwapBox : TBox → TBox
  | .swap l r => .swap r l
  | b => b

/-- `swaps[::-1]` (monoidal.py `__getitem__` with step -1 = dagger: boxes reversed and daggered,
    same offsets). -/
def D.daggerSwaps (a : D) : D := ⟨a.cod, a.dom, (a.layers.map fun l => (daggerSwapBox l.1, l.2)).reverse⟩

/-! ### the input -/

structure TkIn where
  /-- `tk_circuit.n_qubits` -/
  nq : Nat := 0
  /-- `tk_circuit.n_bits` (= `len(tk_circuit.bits)`, tk.py:60-63) -/
  nb : Nat := 0
  /-- `tk_circuit.get_commands()` -/
  cmds : List Cmd := []
  /-- `tk_circuit.post_selection` -/
  ps : PS := []
  /-- `tk_circuit.scalar != 1` (the value stays in the harness) -/
  scaled : Bool := false
  /-- `tk_circuit.post_processing` -/
  pp : PP := {}
  deriving DecidableEq, Repr, Inhabited

/-- tk.py:274 `n_bits = tk_circuit.n_bits - len(tk_circuit.post_selection)`. -/
def TkIn.nbits (inp : TkIn) : Nat := inp.nb - inp.ps.length

/-- `qubit ** n_qubits @ bit ** n_bits` (tk.py:296). -/
def TkIn.units (inp : TkIn) : List W := List.replicate inp.nq .q ++ List.replicate inp.nbits .b

/-! ### `box_from_tk` (tk.py:277-292) -/

/-- `GATES` (gates.py:592) by name and arity; `SWAP.name` is `'Swap(qubit, qubit)'`. -/
def gatesTable : List (String × Nat) :=
  [("Swap(qubit, qubit)", 2), ("CZ", 2), ("CX", 2), ("H", 1), ("S", 1), ("T", 1), ("X", 1), ("Y", 1), ("Z", 1)]

/-- The loop tk.py:287-292.  `Controlled(gate)` of a two-qubit gate raises ValueError
    (gates.py:287: a 4x4 array does not fit the 2x2 block), of `SWAP` TypeError (gates.py:278). -/
def lookupGate (name : String) : List (String × Nat) → Except Err TBox
  | [] => .error .notImpl
  | (g, n) :: rest =>
    if name = g then .ok (if g = "Swap(qubit, qubit)" then .swap .q .q else .gate g n)
    else if name = "C" ++ g then
      (if g = "Swap(qubit, qubit)" then .error .type else if n = 1 then .ok (.gate ("C" ++ g) 2) else .error .value)
    else lookupGate name rest

/-- `params[0] / 2` on the lattice of even numerators. -/
def halfPar : Option Int → Except Err Int
  | none => .error .index
  | some p => .ok (p / 2)

def rotFromTk (cls : String) (par : Option Int) : Except Err TBox :=
  match halfPar par with
  | .error e => .error e
  | .ok n => .ok (.rot cls n)

def boxFromTk (c : Cmd) : Except Err TBox :=
  if c.op = "Rx" then rotFromTk "Rx" c.par
  else if c.op = "Rz" then rotFromTk "Rz" c.par
  else if c.op = "CRz" then rotFromTk "CRz" c.par
  else if c.op = "SWAP" then .ok (.swap .q .q)
  else lookupGate c.op gatesTable

/-! ### `make_units_adjacent` (tk.py:294-313), with the types of the swap boxes -/

/-- `xs[a:b]` for non-negative `a`, `b`. -/
def slice {α} (xs : List α) (a b : Nat) : List α := (xs.take b).drop a

/-- tk.py:300-302, 312: `Id(cod[:source]) @ Id.swap(cod[source:source+1], cod[source+1:target]) @ Id(cod[target:])`. -/
def moveRight (cod : List W) (source target : Nat) : D :=
  ((D.id (cod.take source)).tensor (D.swap (slice cod source (source + 1)) (slice cod (source + 1) target))).tensor
    (D.id (cod.drop target))

/-- tk.py:306-309, 312: `Id(cod[:target]) @ Id.swap(cod[target:source], cod[source:source+1]) @ Id(cod[source+1:])`. -/
def moveLeft (cod : List W) (source target : Nat) : D :=
  ((D.id (cod.take target)).tensor (D.swap (slice cod target source) (slice cod source (source + 1)))).tensor
    (D.id (cod.drop (source + 1)))

/-- The loop tk.py:297-312: current `offset`, loop index `i`, remaining unit indices, `swaps`. -/
def muaLoopT : Nat → Nat → List Nat → D → Except Err (Nat × D)
  | offset, _, [], swaps => .ok (offset, swaps)
  | offset, i, source :: rest, swaps =>
    if source < offset + i + 1 then
      match swaps.then (moveRight swaps.cod source (offset + i + 1)) with
      | .error e => .error e
      | .ok s => muaLoopT (if source ≤ offset then offset - 1 else offset) (i + 1) rest s
    else if source > offset + i + 1 then
      match swaps.then (moveLeft swaps.cod source (offset + i + 1)) with
      | .error e => .error e
      | .ok s => muaLoopT offset (i + 1) rest s
    else muaLoopT offset (i + 1) rest swaps

/-- `make_units_adjacent(tk_gate)`: `tk_gate.qubits[0]` is an IndexError for a command without qubits. -/
def makeUnitsAdjacentT (units : List W) (qs : List Nat) : Except Err (Nat × D) :=
  match qs with
  | [] => .error .index
  | q0 :: rest => muaLoopT q0 0 rest (D.id units)

/-! ### the main loop (tk.py:314-335) -/

/-- tk.py:323-324 `sum(1 for i in post_selection if i < bit_index)`. -/
def psBelow (ps : PS) (b : Nat) : Nat := (ps.filter fun e => e.1 < b).length

/-- tk.py:326-330: `Id(cod[:offset + 1]) @ Id.swap(cod[offset + 1:n_qubits + bit_index],
    cod[n_qubits:][bit_index:bit_index + 1]) @ Id(cod[n_qubits + bit_index + 1:])`. -/
def measureSwaps (cod : List W) (nq offset bi : Nat) : D :=
  ((D.id (cod.take (offset + 1))).tensor
    (D.swap (slice cod (offset + 1) (nq + bi)) (slice (cod.drop nq) bi (bi + 1)))).tensor
    (D.id (cod.drop (nq + bi + 1)))

/-- tk.py:334 `Id(left) @ box @ Id(right)` with `left, right = swaps.cod[:offset], swaps.cod[offset + len(box.dom):]`. -/
def boxLayer (cod : List W) (box : TBox) (offset : Nat) : D :=
  ((D.id (cod.take offset)).tensor (D.box box)).tensor (D.id (cod.drop (offset + box.dom.length)))

/-- tk.py:335 `circuit >> swaps >> Id(left) @ box @ Id(right) >> swaps[::-1]`. -/
def place (circuit swaps : D) (box : TBox) (offset : Nat) : Except Err D :=
  match circuit.then swaps with
  | .error e => .error e
  | .ok c1 => match c1.then (boxLayer swaps.cod box offset) with
    | .error e => .error e
    | .ok c2 => c2.then swaps.daggerSwaps

/-- The loop state: `circuit` and the dict `bras`. -/
structure Acc where
  circuit : D := {}
  bras : PS := []
  deriving DecidableEq, Repr, Inhabited

/-- tk.py:317-330, 334-335 for a `Measure` command on qubit `offset` and bit `b`. -/
def stepMeasure (inp : TkIn) (acc : Acc) (offset b : Nat) : Except Err Acc :=
  if inp.ps.has b then .ok { acc with bras := acc.bras.set offset ((inp.ps.get b).getD 0) }
  else match place acc.circuit (measureSwaps acc.circuit.cod inp.nq offset (b - psBelow inp.ps b))
      (.measure 1 false true) offset with
    | .error e => .error e
    | .ok c => .ok { acc with circuit := c }

/-- tk.py:332-335 for any other command. -/
def stepGate (inp : TkIn) (acc : Acc) (c : Cmd) : Except Err Acc :=
  match boxFromTk c with
  | .error e => .error e
  | .ok box => match makeUnitsAdjacentT inp.units c.qs with
    | .error e => .error e
    | .ok r => match place acc.circuit r.2 box r.1 with
      | .error e => .error e
      | .ok d => .ok { acc with circuit := d }

/-- One iteration of the loop tk.py:316-335. -/
def stepCmd (inp : TkIn) (acc : Acc) (c : Cmd) : Except Err Acc :=
  if c.op = "Measure" then
    match c.qs.head?, c.bs.head? with
    | some offset, some b => stepMeasure inp acc offset b
    | _, _ => .error .index
  else stepGate inp acc c

def loopCmds (inp : TkIn) : Acc → List Cmd → Except Err Acc
  | acc, [] => .ok acc
  | acc, c :: rest => match stepCmd inp acc c with
    | .error e => .error e
    | .ok acc' => loopCmds inp acc' rest

/-! ### before and after the loop -/

/-- tk.py:314 `Id(0).tensor(*(n_qubits * [Ket(0)] + n_bits * [Bits(0)]))`. -/
def initCircuit (inp : TkIn) : D :=
  D.tensorAll (List.replicate inp.nq (D.box (.ket [0])) ++ List.replicate inp.nbits (D.box (.bits [0] false)))

/-- tk.py:337-339: `Bra(bras[i]) if i in bras else Discard() if x.name == 'qubit' else Id(bit)`. -/
def finalBox (bras : PS) (p : W × Nat) : D :=
  if bras.has p.2 then D.box (.bra [(bras.get p.2).getD 0])
  else if p.1 = .q then D.box (.discard [.q]) else D.id [.b]

/-- tk.py:336-339. -/
def finalLayer (bras : PS) (cod : List W) : D := D.tensorAll (cod.zipIdx.map (finalBox bras))

def PBox.toTBox : PBox → TBox
  | .swap => .swap .b .b
  | .gate name i o => .cgate name i o

/-- `tk_circuit.post_processing` as a description. -/
def PP.toD (pp : PP) : D :=
  ⟨List.replicate pp.dom .b, List.replicate pp.cod .b, pp.layers.map fun l => (l.1.toTBox, l.2)⟩

/-- tk.py:340-341 `circuit @ MixedScalar(tk_circuit.scalar)`; the value stays in the harness, the
    box is written `scalar 0 true`. -/
def addScalar (scaled : Bool) (c : D) : D := if scaled then c.tensor (D.box (.scalar 0 true)) else c

/-- tk.py:336-342. -/
def finish (inp : TkIn) (acc : Acc) : Except Err D :=
  match acc.circuit.then (finalLayer acc.bras acc.circuit.cod) with
  | .error e => .error e
  | .ok c => (addScalar inp.scaled c).then inp.pp.toD

/-- `from_tk(tk_circuit)` (tk.py:266-342). -/
def fromTk (inp : TkIn) : Except Err D :=
  match loopCmds inp ⟨initCircuit inp, []⟩ inp.cmds with
  | .error e => .error e
  | .ok acc => finish inp acc

/-! ### the tket circuit an export is (for the round trip) -/

/-- What `from_tk` reads of an exported circuit: `scaled` is supplied from outside (the product
    of the scalars is not in the model). -/
def St.toIn (st : St) (scaled : Bool) : TkIn := ⟨st.nq, st.nb, st.cmds, st.ps, scaled, st.pp⟩

end DV.Tk
