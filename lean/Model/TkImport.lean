/-
  Model/TkImport.lean — discopy/quantum/tk.py `from_tk` (lines 266-342 of the file as it is after
  the fix commits F12/F13, F30, F31/F32), transcribed one-for-one (core Lean only).

  Input (`TkIn`): what the function reads of the (upgraded) tket circuit — `n_qubits`, `n_bits =
  len(bits)`, `get_commands()` as a list of `Cmd` (op name, parameter, `index[0]` of the qubit and
  bit arguments), `post_selection`, whether `scalar != 1`, and `post_processing` (a classical
  circuit: width in/out, boxes with offsets).  `Circuit.upgrade` and pytket's command order are
  outside the model: the harness hands the model the command list the code iterates over.

  Output: a circuit description `D` (domain, codomain, boxes with offsets) in the box language of
  Model/Tk.lean.  The tiny diagram algebra `D.id / D.box / D.tensor / D.then / D.swap /
  D.daggerSwaps` mirrors `Id(t)`, a box, `@`, `>>` (AxiomError unless the types meet,
  cat.py:298-310), `Id.swap` (monoidal.py:487-514) and `swaps[::-1]` so that every line of the
  Python function has its counterpart here.

  Angles: a `Cmd` carries the tket parameter as a numerator over 16 (half turns); `box_from_tk`
  halves it (`params[0] / 2`), a `TBox.rot` carries the phase as a numerator over 16 (turns).  The
  modelled input domain is the lattice of even numerators (tket parameters that are multiples of
  1/8): the driver refuses odd ones.
-/
import Model.TkFrom

namespace DV.Tk
open DV

/-! ### circuit descriptions and the operations `from_tk` uses on them -/

/-- `Circuit(dom, cod, boxes, offsets)`. -/
structure D where
  dom : List W := []
  cod : List W := []
  layers : Layers := []
  deriving DecidableEq, Repr, Inhabited

def shiftLayers (k : Nat) (ls : Layers) : Layers := ls.map fun l => (l.1, l.2 + k)

/-- `Id(t)`. -/
def D.id (t : List W) : D := ⟨t, t, []⟩

/-- A box as a one-layer diagram. -/
def D.box (b : TBox) : D := ⟨b.dom, b.cod, [(b, 0)]⟩

/-- `a @ b` (monoidal.py:357-386): the boxes of `a`, then those of `b` moved right by `len(a.cod)`. -/
def D.tensor (a b : D) : D := ⟨a.dom ++ b.dom, a.cod ++ b.cod, a.layers ++ shiftLayers a.cod.length b.layers⟩

/-- `Id(0).tensor(*ds)` (monoidal.py:357: a left fold of `@`). -/
def D.tensorAll (ds : List D) : D := ds.foldl D.tensor (D.id [])

/-- `a >> b` (cat.py:298-310). -/
def D.then (a b : D) : Except Err D :=
  if a.cod = b.dom then .ok ⟨a.dom, b.cod, a.layers ++ b.layers⟩ else .error .axiom

/-- One wire past the wires of `right` (monoidal.py:507-512): `Swap(l, right[i])` at offset `i`. -/
def oneSwap (l : W) (right : List W) : Layers := right.zipIdx.map fun p => (TBox.swap l p.1, p.2)

/-- The boxes of `Id.swap(left, right)` (monoidal.py:505-514):
    `Id(left[:1]) @ swap(left[1:], right) >> swap(left[:1], right) @ Id(left[1:])`. -/
def swapBoxes : List W → List W → Layers
  | [], _ => []
  | l :: tl, right => shiftLayers 1 (swapBoxes tl right) ++ oneSwap l right

/-- `Id.swap(left, right)`. -/
def D.swap (left right : List W) : D := ⟨left ++ right, right ++ left, swapBoxes left right⟩

/-- `Swap(l, r).dagger() = Swap(r, l)` (circuit.py:683-684).  Only ever applied to diagrams made
    of `Swap` boxes (tk.py:335 `swaps[::-1]`); every other box is left alone here. -/
def daggerSwapBox : TBox → TBox
  | .swap l r => .swap r l
  | b => b

/-- `swaps[::-1]` (monoidal.py `__getitem__` with step -1 = dagger: boxes reversed and daggered,
    same offsets). -/
def D.daggerSwaps (a : D) : D := ⟨a.cod, a.dom, (a.layers.map fun l => (daggerSwapBox l.1, l.2)).reverse⟩

/-! ### the input -/

structure TkIn where
  /-- `tk_circuit.n_qubits` -/
  nq : Nat := 0
  /-- `tk_circuit.n_bits` (= `len(tk_circuit.bits)`, tk.py:60-63) -/
  nb : Nat := 0
  /-- `tk_circuit.get_commands()` -/
  cmds : List Cmd := []
  /-- `tk_circuit.post_selection` -/
  ps : PS := []
  /-- `tk_circuit.scalar != 1` (the value stays in the harness) -/
  scaled : Bool := false
  /-- `tk_circuit.post_processing` -/
  pp : PP := {}
  deriving DecidableEq, Repr, Inhabited

/-- tk.py:274 `n_bits = tk_circuit.n_bits - len(tk_circuit.post_selection)`. -/
def TkIn.nbits (inp : TkIn) : Nat := inp.nb - inp.ps.length

/-- `qubit ** n_qubits @ bit ** n_bits` (tk.py:296). -/
def TkIn.units (inp : TkIn) : List W := List.replicate inp.nq .q ++ List.replicate inp.nbits .b

/-! ### `box_from_tk` (tk.py:277-292) -/

/-- `GATES` (gates.py:592) by name and arity; `SWAP.name` is `'Swap(qubit, qubit)'`. -/
def gatesTable : List (String × Nat) :=
  [("Swap(qubit, qubit)", 2), ("CZ", 2), ("CX", 2), ("H", 1), ("S", 1), ("T", 1), ("X", 1), ("Y", 1), ("Z", 1)]

/-- The loop tk.py:287-292.  `Controlled(gate)` of a two-qubit gate raises ValueError
    (gates.py:287: a 4x4 array does not fit the 2x2 block), of `SWAP` TypeError (gates.py:278). -/
def lookupGate (name : String) : List (String × Nat) → Except Err TBox
  | [] => .error .notImpl
  | (g, n) :: rest =>
    if name = g then .ok (if g = "Swap(qubit, qubit)" then .swap .q .q else .gate g n)
    else if name = "C" ++ g then
      (if g = "Swap(qubit, qubit)" then .error .type else if n = 1 then .ok (.gate ("C" ++ g) 2) else .error .value)
    else lookupGate name rest

/-- `params[0] / 2` on the lattice of even numerators. -/
def halfPar : Option Int → Except Err Int
  | none => .error .index
  | some p => .ok (p / 2)

def rotFromTk (cls : String) (par : Option Int) : Except Err TBox :=
  match halfPar par with
  | .error e => .error e
  | .ok n => .ok (.rot cls n)

def boxFromTk (c : Cmd) : Except Err TBox :=
  if c.op = "Rx" then rotFromTk "Rx" c.par
  else if c.op = "Rz" then rotFromTk "Rz" c.par
  else if c.op = "CRz" then rotFromTk "CRz" c.par
  else if c.op = "SWAP" then .ok (.swap .q .q)
  else lookupGate c.op gatesTable

/-! ### `make_units_adjacent` (tk.py:294-313), with the types of the swap boxes -/

/-- `xs[a:b]` for non-negative `a`, `b`. -/
def slice {α} (xs : List α) (a b : Nat) : List α := (xs.take b).drop a

/-- tk.py:300-302, 312: `Id(cod[:source]) @ Id.swap(cod[source:source+1], cod[source+1:target]) @ Id(cod[target:])`. -/
def moveRight (cod : List W) (source target : Nat) : D :=
  ((D.id (cod.take source)).tensor (D.swap (slice cod source (source + 1)) (slice cod (source + 1) target))).tensor
    (D.id (cod.drop target))

/-- tk.py:306-309, 312: `Id(cod[:target]) @ Id.swap(cod[target:source], cod[source:source+1]) @ Id(cod[source+1:])`. -/
def moveLeft (cod : List W) (source target : Nat) : D :=
  ((D.id (cod.take target)).tensor (D.swap (slice cod target source) (slice cod source (source + 1)))).tensor
    (D.id (cod.drop (source + 1)))

/-- The loop tk.py:297-312: current `offset`, loop index `i`, remaining unit indices, `swaps`. -/
def muaLoopT : Nat → Nat → List Nat → D → Except Err (Nat × D)
  | offset, _, [], swaps => .ok (offset, swaps)
  | offset, i, source :: rest, swaps =>
    if source < offset + i + 1 then
      match swaps.then (moveRight swaps.cod source (offset + i + 1)) with
      | .error e => .error e
      | .ok s => muaLoopT (if source ≤ offset then offset - 1 else offset) (i + 1) rest s
    else if source > offset + i + 1 then
      match swaps.then (moveLeft swaps.cod source (offset + i + 1)) with
      | .error e => .error e
      | .ok s => muaLoopT offset (i + 1) rest s
    else muaLoopT offset (i + 1) rest swaps

/-- `make_units_adjacent(tk_gate)`: `tk_gate.qubits[0]` is an IndexError for a command without qubits. -/
def makeUnitsAdjacentT (units : List W) (qs : List Nat) : Except Err (Nat × D) :=
  match qs with
  | [] => .error .index
  | q0 :: rest => muaLoopT q0 0 rest (D.id units)

/-! ### the main loop (tk.py:314-335) -/

/-- tk.py:323-324 `sum(1 for i in post_selection if i < bit_index)`. -/
def psBelow (ps : PS) (b : Nat) : Nat := (ps.filter fun e => e.1 < b).length

/-- tk.py:326-330: `Id(cod[:offset + 1]) @ Id.swap(cod[offset + 1:n_qubits + bit_index],
    cod[n_qubits:][bit_index:bit_index + 1]) @ Id(cod[n_qubits + bit_index + 1:])`. -/
def measureSwaps (cod : List W) (nq offset bi : Nat) : D :=
  ((D.id (cod.take (offset + 1))).tensor
    (D.swap (slice cod (offset + 1) (nq + bi)) (slice (cod.drop nq) bi (bi + 1)))).tensor
    (D.id (cod.drop (nq + bi + 1)))

/-- tk.py:334 `Id(left) @ box @ Id(right)` with `left, right = swaps.cod[:offset], swaps.cod[offset + len(box.dom):]`. -/
def boxLayer (cod : List W) (box : TBox) (offset : Nat) : D :=
  ((D.id (cod.take offset)).tensor (D.box box)).tensor (D.id (cod.drop (offset + box.dom.length)))

/-- tk.py:335 `circuit >> swaps >> Id(left) @ box @ Id(right) >> swaps[::-1]`. -/
def place (circuit swaps : D) (box : TBox) (offset : Nat) : Except Err D :=
  match circuit.then swaps with
  | .error e => .error e
  | .ok c1 => match c1.then (boxLayer swaps.cod box offset) with
    | .error e => .error e
    | .ok c2 => c2.then swaps.daggerSwaps

/-- The loop state: `circuit` and the dict `bras`. -/
structure Acc where
  circuit : D := {}
  bras : PS := []
  deriving DecidableEq, Repr, Inhabited

/-- tk.py:317-330, 334-335 for a `Measure` command on qubit `offset` and bit `b`. -/
def stepMeasure (inp : TkIn) (acc : Acc) (offset b : Nat) : Except Err Acc :=
  if inp.ps.has b then .ok { acc with bras := acc.bras.set offset ((inp.ps.get b).getD 0) }
  else match place acc.circuit (measureSwaps acc.circuit.cod inp.nq offset (b - psBelow inp.ps b))
      (.measure 1 false true) offset with
    | .error e => .error e
    | .ok c => .ok { acc with circuit := c }

/-- tk.py:332-335 for any other command. -/
def stepGate (inp : TkIn) (acc : Acc) (c : Cmd) : Except Err Acc :=
  match boxFromTk c with
  | .error e => .error e
  | .ok box => match makeUnitsAdjacentT inp.units c.qs with
    | .error e => .error e
    | .ok r => match place acc.circuit r.2 box r.1 with
      | .error e => .error e
      | .ok d => .ok { acc with circuit := d }

/-- One iteration of the loop tk.py:316-335. -/
def stepCmd (inp : TkIn) (acc : Acc) (c : Cmd) : Except Err Acc :=
  if c.op = "Measure" then
    match c.qs.head?, c.bs.head? with
    | some offset, some b => stepMeasure inp acc offset b
    | _, _ => .error .index
  else stepGate inp acc c

def loopCmds (inp : TkIn) : Acc → List Cmd → Except Err Acc
  | acc, [] => .ok acc
  | acc, c :: rest => match stepCmd inp acc c with
    | .error e => .error e
    | .ok acc' => loopCmds inp acc' rest

/-! ### before and after the loop -/

/-- tk.py:314 `Id(0).tensor(*(n_qubits * [Ket(0)] + n_bits * [Bits(0)]))`. -/
def initCircuit (inp : TkIn) : D :=
  D.tensorAll (List.replicate inp.nq (D.box (.ket [0])) ++ List.replicate inp.nbits (D.box (.bits [0] false)))

/-- tk.py:337-339: `Bra(bras[i]) if i in bras else Discard() if x.name == 'qubit' else Id(bit)`. -/
def finalBox (bras : PS) (p : W × Nat) : D :=
  if bras.has p.2 then D.box (.bra [(bras.get p.2).getD 0])
  else if p.1 = .q then D.box (.discard [.q]) else D.id [.b]

/-- tk.py:336-339. -/
def finalLayer (bras : PS) (cod : List W) : D := D.tensorAll (cod.zipIdx.map (finalBox bras))

def PBox.toTBox : PBox → TBox
  | .swap => .swap .b .b
  | .gate name i o => .cgate name i o

/-- `tk_circuit.post_processing` as a description. -/
def PP.toD (pp : PP) : D :=
  ⟨List.replicate pp.dom .b, List.replicate pp.cod .b, pp.layers.map fun l => (l.1.toTBox, l.2)⟩

/-- tk.py:340-341 `circuit @ MixedScalar(tk_circuit.scalar)`; the value stays in the harness, the
    box is written `scalar 0 true`. -/
def addScalar (scaled : Bool) (c : D) : D := if scaled then c.tensor (D.box (.scalar 0 true)) else c

/-- tk.py:314-339: the circuit before the scalar and the post-processing are attached. -/
def fromTkBody (inp : TkIn) : Except Err D :=
  match loopCmds inp ⟨initCircuit inp, []⟩ inp.cmds with
  | .error e => .error e
  | .ok acc => acc.circuit.then (finalLayer acc.bras acc.circuit.cod)

/-- `from_tk(tk_circuit)` (tk.py:266-342). -/
def fromTk (inp : TkIn) : Except Err D :=
  match fromTkBody inp with
  | .error e => .error e
  | .ok c => (addScalar inp.scaled c).then inp.pp.toD

/-! ### what the import has to achieve, on wire identities

  `Tr.run` follows wire identities through a description: every wire gets a fresh id where it
  is created, a swap box exchanges two ids, a gate is recorded as a command on the ids of its
  input wires (a `Measure(override_bits)` on the id of its qubit and the id of its bit wire), a
  `Bra` as a post-selection of an id.  `ImpSpec.run` says, on the tket side, what should come out:
  with unit `u` (qubit `u`, or the `j`-th non-post-selected bit as `n_qubits + j`) carrying the id
  `σ[u]`, every command acts on the ids of the units it names, a tket `SWAP` exchanges two ids,
  and a measurement into a post-selected bit is remembered for the end (tk.py:320-322). -/

structure Tr where
  arr : List Nat := []                -- id of the wire at each position
  next : Nat := 0
  cmds : List Cmd := []
  bras : List (Nat × Nat) := []       -- (id, value), in the order of the `Bra` boxes
  deriving DecidableEq, Repr, Inhabited

def Tr.fresh (t : Tr) (off n : Nat) : Tr :=
  { t with arr := insertAt t.arr off (List.range' t.next n), next := t.next + n }

/-- A box on `n` qubit wires followed by `m` bit wires at `off`. -/
def Tr.emit (t : Tr) (op : String) (par : Option Int) (off n m : Nat) : Tr :=
  { t with cmds := t.cmds ++ [⟨op, par, (t.arr.drop off).take n, (t.arr.drop (off + n)).take m⟩] }

/-- One box (those `from_tk` builds; any other box is passed over). -/
def Tr.step (t : Tr) (l : TBox × Nat) : Tr :=
  match l.1 with
  | .ket bs => t.fresh l.2 bs.length
  | .bits bs false => t.fresh l.2 bs.length
  | .swap _ _ => { t with arr := swapAt t.arr l.2 }
  | .gate name n => t.emit name none l.2 n 0
  | .rot cls num => t.emit cls (some (2 * num)) l.2 (rotArity cls) 0
  | .measure n false true => t.emit "Measure" none l.2 n n
  | .bra bs => { t with bras := t.bras ++ ((t.arr.drop l.2).take bs.length).zip bs
                        arr := removeAt t.arr l.2 bs.length }
  | .discard ty => { t with arr := removeAt t.arr l.2 ty.length }
  | .cgate _ i o => { t with arr := insertAt (removeAt t.arr l.2 i) l.2 (List.range' t.next o), next := t.next + o }
  | _ => t

def Tr.run (ls : Layers) : Tr := ls.foldl Tr.step {}

structure ImpSpec where
  σ : List Nat := []                  -- id carried by each unit
  cmds : List Cmd := []
  bras : PS := []                     -- qubit unit ↦ value (the dict of tk.py:315)
  deriving DecidableEq, Repr, Inhabited

def idAt (σ : List Nat) (u : Nat) : Nat := σ[u]?.getD 0

/-- `xs` with the entries at `a` and `b` exchanged. -/
def exchange (xs : List Nat) (a b : Nat) : List Nat := (xs.set a (idAt xs b)).set b (idAt xs a)

/-- The parameter of a tket op: only the three rotations have one. -/
def gatePar (c : Cmd) : Option Int := if c.op = "Rx" ∨ c.op = "Rz" ∨ c.op = "CRz" then c.par else none

def ImpSpec.step (inp : TkIn) (s : ImpSpec) (c : Cmd) : ImpSpec :=
  if c.op = "Measure" then
    match c.qs.head?, c.bs.head? with
    | some q, some b =>
      if inp.ps.has b then { s with bras := s.bras.set q ((inp.ps.get b).getD 0) }
      else { s with cmds := s.cmds ++
              [⟨"Measure", none, [idAt s.σ q], [idAt s.σ (inp.nq + (b - psBelow inp.ps b))]⟩] }
    | _, _ => s
  else match boxFromTk c, c.qs with
    | .ok (.swap _ _), [a, b] => { s with σ := exchange s.σ a b }      -- a tket SWAP
    | _, _ => { s with cmds := s.cmds ++ [⟨c.op, gatePar c, c.qs.map (idAt s.σ), []⟩] }

def ImpSpec.run (inp : TkIn) : ImpSpec :=
  inp.cmds.foldl (ImpSpec.step inp) ⟨List.range (inp.nq + inp.nbits), [], []⟩

/-- The post-selections in the order of the final layer (tk.py:336-339: by position). -/
def ImpSpec.braList (inp : TkIn) (s : ImpSpec) : List (Nat × Nat) :=
  (List.range (inp.nq + inp.nbits)).filterMap fun i =>
    if s.bras.has i then some (idAt s.σ i, (s.bras.get i).getD 0) else none

/-- A command `from_tk` is specified on: a `Measure` of an existing qubit into an existing bit
    whose rank among the non-post-selected bits is below `n_bits`; or a supported one- or
    two-qubit op on existing, different qubits, its parameter on the lattice. -/
def Cmd.importable (inp : TkIn) (c : Cmd) : Bool :=
  if c.op = "Measure" then
    match c.qs, c.bs with
    | [q], [b] => decide (q < inp.nq) && (inp.ps.has b || decide (b - psBelow inp.ps b < inp.nbits))
    | _, _ => false
  else
    (match boxFromTk c with
      | .ok box => box.dom.length == c.qs.length
      | .error _ => false) &&
    c.qs.all (· < inp.nq) &&
    (match c.qs with
      | [_] => true
      | [a, b] => a != b
      | _ => false) &&
    (match c.par with
      | some p => p % 2 == 0
      | none => true)

def TkIn.importable (inp : TkIn) : Bool := inp.cmds.all (Cmd.importable inp)

/-- The same with the plain condition on a `Measure`: an existing qubit into an existing bit. -/
def Cmd.wellFormed (inp : TkIn) (c : Cmd) : Bool :=
  if c.op = "Measure" then
    match c.qs, c.bs with
    | [q], [b] => decide (q < inp.nq) && decide (b < inp.nb)
    | _, _ => false
  else Cmd.importable inp c

/-- A tket circuit over the supported ops whose post-selection is a dict (distinct keys) of bits
    of the circuit. -/
def TkIn.wellFormed (inp : TkIn) : Bool :=
  inp.cmds.all (Cmd.wellFormed inp) && decide (inp.ps.map (·.1)).Nodup && inp.ps.all (·.1 < inp.nb)

/-- No command touches a qubit after it was measured into a post-selected bit: only then is
    "post selection happens at the end" (tk.py:322) harmless (finding F33). -/
def psFinalFrom (ps : PS) : List Nat → List Cmd → Bool
  | _, [] => true
  | done, c :: rest =>
    !(c.qs.any done.contains) &&
      psFinalFrom ps (if c.op = "Measure" && c.bs.any ps.has then c.qs ++ done else done) rest

def TkIn.psFinal (inp : TkIn) : Bool := psFinalFrom inp.ps [] inp.cmds

/-! ### the round trip `from_tk(to_tk(c))`, on canonical wire-id command lists -/

/-- What `from_tk` reads of an exported circuit: `scaled` is supplied from outside (the product
    of the scalars is not in the model). -/
def St.toIn (st : St) (scaled : Bool) : TkIn := ⟨st.nq, st.nb, st.cmds, st.ps, scaled, st.pp⟩

/-- A measurement into a post-selected bit (a `Bra` of the diagram). -/
def isPsMeasure (ps : PS) (c : Cmd) : Bool := c.op == "Measure" && c.bs.any ps.has

/-- Two wire-id specifications describe the same circuit: up to injective namings of the ids,
    the commands other than post-selected measurements are the same list, the post-selected
    measurements the same multiset (the import puts them last), the post-selections agree, the
    classical boxes read the same values and the bit wires leave in the same order. -/
structure SameCircuit (sp sp' : Sp) (ρq ρb : Nat → Nat) : Prop where
  injq : InjBelow ρq sp.nq sp'.nq
  injb : InjBelow ρb sp.nb sp'.nb
  gates : sp'.cmds.filter (fun c => !isPsMeasure sp'.ps c) =
    (sp.cmds.filter (fun c => !isPsMeasure sp.ps c)).map (Cmd.map ρq ρb)
  psm : (sp'.cmds.filter (isPsMeasure sp'.ps)).Perm ((sp.cmds.filter (isPsMeasure sp.ps)).map (Cmd.map ρq ρb))
  ps : ∀ β, β < sp.nb → sp'.ps.get (ρb β) = sp.ps.get β
  cg : sp'.cg = sp.cg.map (CG.map ρb)
  bw : sp'.bw = sp.bw.map (BV.map ρb)

/-- The round trip on one circuit. -/
def RoundTripOn (c : Circ) (scaled : Bool) : Prop :=
  ∀ st d, toTk c = .ok st → fromTk (st.toIn scaled) = .ok d →
    ∃ sp sp' ρq ρb, canon c = .ok sp ∧ canon ⟨d.dom, d.layers⟩ = .ok sp' ∧ SameCircuit sp sp' ρq ρb

/-- **The round-trip statement** (NOT proved; evaluated on the model for every generated export
    inside the fragment by harness/props/c13.py, stream `roundtrip`): importing the export of a
    circuit of the `clean` fragment gives a circuit with the same canonical wire-id command list. -/
def FromToRoundTrip : Prop := ∀ (c : Circ) (scaled : Bool), c.clean = true → RoundTripOn c scaled

end DV.Tk
