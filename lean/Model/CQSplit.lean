/-
  Model/CQSplit.lean — the classical part and the quantum part of a circuit without mixed boxes.

  `Circuit.eval(mixed=True)` (circuit.py:251-253) sends EVERY circuit through `cqmap.Functor`,
  whatever `is_mixed` says.  For a circuit whose boxes are not mixed (cqmap.py:290-295: classical
  gates are read as they are, `CQMap(dom, cod, box.array)`; quantum boxes are doubled,
  `CQMap.pure`) the result can be described from two plain tensor contractions, one per sort of
  wire: `evalClassical`, the ordered product of `1 ⊗ array ⊗ 1` of the classical boxes over the
  BIT wires only, and `evalQuantum`, the same for the quantum boxes over the QUBIT wires only.
  `Circuit.evalSplit` is the classical-quantum map `a ⊗ ū ⊗ u` built from them (`CQMap.hybrid`):
  the classical part read as a diagonal map, the quantum part doubled.  `Proofs/CQSplit.lean`
  proves that the mixed evaluation IS this map (`eval_mixed_flag` in Props/C12.lean); the driver
  command `cqsplit` prints it, and the check compares it with `eval(mixed=True)` of the code.
  Core Lean only.
-/
import Model.CQ

namespace DV.CQ

section Generic
variable {R : Type} [Zero R] [One R] [Add R] [Mul R] [Conj R]

/-- The classical-quantum map `a ⊗ ū ⊗ u`: entry `(c, q, q' | c', p, p')` is
    `a[c, c'] · conj(u[q, p]) · u[q', p']`. -/
def CQMap.hybrid (dom cod : CQTy) (a u : Mat R) : CQMap R :=
  ⟨dom, cod, fun c q p c' q' p' => a.f c c' * (conj (u.f q q') * u.f p p')⟩

/-- The 1 × 1 matrix `[1]`. -/
def Mat.one1 : Mat R := ⟨1, 1, fun _ _ => 1⟩

namespace CBox
/-- What a box that is not mixed does on the bit wires (cqmap.py:290-291 for classical gates;
    a swap exchanges the bit wires of its two sides; quantum boxes and scalars do nothing). -/
def arC : CBox R → Mat R
  | classical _ _ u => u
  | swap l r => Mat.swap (F l).C (F r).C
  | _ => Mat.one1

/-- What it does on the qubit wires, as an amplitude map (cqmap.py:292-295 doubles it). -/
def arQ : CBox R → Mat R
  | quantum _ _ u => u
  | scalar _ z => ⟨1, 1, fun _ _ => z⟩
  | swap l r => Mat.swap (F l).Q (F r).Q
  | _ => Mat.one1
end CBox

namespace LBox
def evalC (b : LBox R) : Mat R := if b.dag then b.box.arC.dagger else b.box.arC
def evalQ (b : LBox R) : Mat R := if b.dag then b.box.arQ.dagger else b.box.arQ
end LBox

/-- One layer on the bit wires: `1 ⊗ array ⊗ 1` with identities on the bits of `l` and `r`. -/
def layerC (l : WTy) (b : LBox R) (r : WTy) : Mat R :=
  (((Mat.id (F l).C).kron b.evalC.memo).kron (Mat.id (F r).C)).memo

/-- One layer on the qubit wires. -/
def layerQ (l : WTy) (b : LBox R) (r : WTy) : Mat R :=
  (((Mat.id (F l).Q).kron b.evalQ.memo).kron (Mat.id (F r).Q)).memo

def evalCGo : Mat R → WTy → List (Nat × LBox R) → Mat R
  | acc, _, [] => acc
  | acc, scan, (off, b) :: rest =>
    evalCGo (acc.comp (layerC (scan.take off) b (scan.drop (off + b.dom.length)))).memo
      (scanStep scan off b) rest

def evalQGo : Mat R → WTy → List (Nat × LBox R) → Mat R
  | acc, _, [] => acc
  | acc, scan, (off, b) :: rest =>
    evalQGo (acc.comp (layerQ (scan.take off) b (scan.drop (off + b.dom.length)))).memo
      (scanStep scan off b) rest

/-- The plain evaluation of the classical part of a circuit, over its bit wires. -/
def Circuit.evalClassical (c : Circuit R) : Mat R := evalCGo (Mat.id (F c.dom).C) c.dom c.boxes

/-- The plain (amplitude) evaluation of the quantum part of a circuit, over its qubit wires. -/
def Circuit.evalQuantum (c : Circuit R) : Mat R := evalQGo (Mat.id (F c.dom).Q) c.dom c.boxes

/-- The classical part read as it is, the quantum part doubled. -/
def Circuit.evalSplit (c : Circuit R) : CQMap R :=
  CQMap.hybrid (F c.dom) (F c.cod) c.evalClassical c.evalQuantum

end Generic

end DV.CQ
