/-
  Model/ParamData.lean — NESTED box data (C14): the containers a box may be handed as `data`, the
  recursive collection of free symbols and the recursive map, transcribed from /repo/discopy/cat.py

    * rmap                       cat.py:30-48    dict -> dict of mapped values; numpy array -> object
                                                 array of the same shape; any other Iterable ->
                                                 `type(data)([...])`; anything else -> `func(data)`
    * recursive_free_symbols     cat.py:509-517  (inside cat.Box.__init__)
          if isinstance(data, Mapping): data = data.values()
          if isinstance(data, Iterable):
              # Handles numpy 0-d arrays, which are actually not iterable.
              if not hasattr(data, "shape") or data.shape != ():
                  return set().union(*map(recursive_free_symbols, data))
          return data.free_symbols if hasattr(data, "free_symbols") else {}

  Model/Param.lean keeps the data of a box as the flat list of its entries (what the evaluation
  reads: `np.array(data).reshape(...)`); here the container structure is kept, so that "the free
  symbols are those of the entries WHATEVER the container" is a statement about the code's
  recursion and not built into the representation.  Core Lean only.
-/
import Model.Param

namespace DV.Param

/-- The Python container types the two recursions tell apart (or fail to). `dict` stands for any
    `Mapping` (only its values are data), `ndarray` for a numpy array of shape ≠ (). Strings are
    excluded (iterating a string yields strings: the recursion does not terminate on them). -/
inductive Ctr where
  | list | tuple | set | frozenset | dict | ndarray
  deriving DecidableEq, Repr

mutual
/-- Nested box data. -/
inductive PData (R : Type) where
  /-- an entry: a sympy expression or a number -/
  | leaf (e : R)
  /-- a numpy array of shape `()` holding one entry -/
  | zeroD (e : R)
  /-- a container and its members (for a dict: its values, in order) -/
  | node (c : Ctr) (kids : PForest R)
inductive PForest (R : Type) where
  | nil
  | cons (d : PData R) (rest : PForest R)
end

deriving instance DecidableEq for PData, PForest

def PForest.ofList {R} : List (PData R) → PForest R
  | [] => .nil
  | d :: ds => .cons d (PForest.ofList ds)

mutual
/-- `recursive_free_symbols` (cat.py:509-517).  A container is iterated whatever its type; an entry
    answers with its own free symbols (`fs`); a 0-d array is not iterated and is then itself asked
    for `free_symbols`, which a numpy array does not have: `{}` (`zeroDItem = false`, the code as
    found — finding F4z); `zeroDItem = true` transcribes the repair `data = data.item()`. -/
def PData.freeSymbols {R} (zeroDItem : Bool) (fs : R → List Nat) : PData R → List Nat
  | .leaf e => fs e
  | .zeroD e => if zeroDItem then fs e else []
  | .node _ kids => kids.freeSymbols zeroDItem fs
def PForest.freeSymbols {R} (zeroDItem : Bool) (fs : R → List Nat) : PForest R → List Nat
  | .nil => []
  | .cons d rest => unionNat (d.freeSymbols zeroDItem fs) (rest.freeSymbols zeroDItem fs)
end

mutual
/-- The entries in iteration order (what `np.array(data).flatten()` reads for array-like data). -/
def PData.entries {R} : PData R → List R
  | .leaf e => [e]
  | .zeroD e => [e]
  | .node _ kids => kids.entries
def PForest.entries {R} : PForest R → List R
  | .nil => []
  | .cons d rest => d.entries ++ rest.entries
end

mutual
/-- The entries that are not inside a 0-d array. -/
def PData.entriesOutside0d {R} : PData R → List R
  | .leaf e => [e]
  | .zeroD _ => []
  | .node _ kids => kids.entriesOutside0d
def PForest.entriesOutside0d {R} : PForest R → List R
  | .nil => []
  | .cons d rest => d.entriesOutside0d ++ rest.entriesOutside0d
end

mutual
/-- `rmap` (cat.py:30-48): the entries are mapped, every container is rebuilt with its own type
    (members of a rebuilt set that have become equal collapse in Python; the model keeps the list of
    members, which has the same free symbols and the same members up to repetition). -/
def PData.rmap {R S} (f : R → S) : PData R → PData S
  | .leaf e => .leaf (f e)
  | .zeroD e => .zeroD (f e)
  | .node c kids => .node c (kids.rmap f)
def PForest.rmap {R S} (f : R → S) : PForest R → PForest S
  | .nil => .nil
  | .cons d rest => .cons (d.rmap f) (rest.rmap f)
end

mutual
/-- No 0-d array anywhere. -/
def PData.noZeroD {R} : PData R → Bool
  | .leaf _ => true
  | .zeroD _ => false
  | .node _ kids => kids.noZeroD
def PForest.noZeroD {R} : PForest R → Bool
  | .nil => true
  | .cons d rest => d.noZeroD && rest.noZeroD
end

/-- cat.Box.subs (cat.py:548-554) on the nested data: early exit `return self` when none of the
    substituted variables is among the box's free symbols, else the data is `rsubs`-ed. -/
def PData.boxSubs {R} (zeroDItem : Bool) (fs : R → List Nat) (vars : List Nat) (f : R → R)
    (d : PData R) : PData R :=
  if vars.any (fun v => (d.freeSymbols zeroDItem fs).contains v) then d.rmap f else d

end DV.Param
