/-
  Model/Tk.lean — discopy/quantum/tk.py `to_tk` (lines 138-262) as a state machine over the
  layers of a circuit, transcribed from the code as it is (core Lean only).

  Transcribes the file after the fix commits for F11, F26 (override measure removes its qubits)
  and F28 (unit swap by one simultaneous renaming); line numbers are those of the file before
  these commits (they move by at most four lines), except where a changed line is cited.

  State (tk.py:144): the tket circuit under construction is represented by
    nq, nb        number of qubit / bit units (`tk_circ.n_qubits`, `len(tk_circ.bits)`)
    cmds          the commands added so far, in insertion order; every `rename_units` is applied
                  to all of them (pytket's renaming is outside the model and is what the
                  correspondence run validates)
    ps            `tk_circ.post_selection` (dict, insertion-ordered association list)
    scal          the factors passed to `tk_circ.scale`, as the scalar boxes that produced them
    pp            `tk_circ.post_processing`: a classical circuit, kept as width in/out and the
                  list of its boxes with offsets
  plus the two lists of the Python loop, `qubits` and `bits`.

  The *specification* `canon`, the semantics of a post-processing circuit on wire values
  (`PP.run`), the refinement relation and the decidable excluding conditions `violation` are in
  Model/TkSpec.lean; `from_tk.make_units_adjacent` is in Model/TkFrom.lean.
-/
import Model.Basic

namespace DV.Tk
open DV

/-! ### circuits as `to_tk` sees them -/

/-- `qubit` / `bit` (circuit.py:131-156, the only two objects to_tk distinguishes). -/
inductive W where
  | q | b
  deriving DecidableEq, Repr, Inhabited

/-- `Ty.count` (monoidal.py). -/
def countW (w : W) (t : List W) : Nat := (t.filter (· == w)).length

/-- The boxes of a circuit, by the class tests of the loop at tk.py:221-261. -/
inductive TBox where
  /-- `Ket(*bs)` gates.py:203 -/
  | ket (bs : List Nat)
  /-- `Bits(*bs)` / `Bits(*bs).dagger()` gates.py:183 -/
  | bits (bs : List Nat) (dagger : Bool)
  /-- `Measure(n, destructive, override_bits)` circuit.py:713 -/
  | measure (n : Nat) (destructive override : Bool)
  /-- `Bra(*bs)` gates.py:231 -/
  | bra (bs : List Nat)
  /-- `Discard(dom)` circuit.py:681 -/
  | discard (dom : List W)
  /-- `Swap(l, r)` on single wires circuit.py:663 -/
  | swap (l r : W)
  /-- `Scalar(SCALARS[k], is_mixed)` gates.py:505; the value stays in the harness -/
  | scalar (k : Nat) (mixed : Bool)
  /-- `ClassicalGate(name, nin, nout, data)` gates.py:49; the data stays in the harness -/
  | cgate (name : String) (nin nout : Nat)
  /-- `Rx/Ry/Rz/CU1/CRz/CRx(num/16)` gates.py:348-503 -/
  | rot (cls : String) (num : Int)
  /-- any other `QuantumGate` with this `name` on `arity` qubits (H, S, CX, Controlled(Y), …) -/
  | gate (name : String) (arity : Nat)
  /-- anything else (`MixedState`, `Encode`, …): tk.py:260-261 -/
  | other (dom cod : List W)
  deriving DecidableEq, Repr, Inhabited

def rotArity (cls : String) : Nat := if cls = "CRz" ∨ cls = "CU1" ∨ cls = "CRx" then 2 else 1

def TBox.dom : TBox → List W
  | .ket _ => []
  | .bits bs d => if d then List.replicate bs.length .b else []
  | .measure n _ ov => List.replicate n .q ++ (if ov then List.replicate n .b else [])
  | .bra bs => List.replicate bs.length .q
  | .discard t => t
  | .swap l r => [l, r]
  | .scalar _ _ => []
  | .cgate _ nin _ => List.replicate nin .b
  | .rot cls _ => List.replicate (rotArity cls) .q
  | .gate _ n => List.replicate n .q
  | .other d _ => d

def TBox.cod : TBox → List W
  | .ket bs => List.replicate bs.length .q
  | .bits bs d => if d then [] else List.replicate bs.length .b
  | .measure n de _ => (if de then [] else List.replicate n .q) ++ List.replicate n .b
  | .bra _ => []
  | .discard _ => []
  | .swap l r => [r, l]
  | .scalar _ _ => []
  | .cgate _ _ nout => List.replicate nout .b
  | .rot cls _ => List.replicate (rotArity cls) .q
  | .gate _ n => List.replicate n .q
  | .other _ c => c

abbrev Layers := List (TBox × Nat)

/-- A circuit: domain and the boxes with their offsets (`Circuit(dom, cod, boxes, offsets)`). -/
structure Circ where
  dom : List W
  layers : Layers
  deriving DecidableEq, Repr, Inhabited

/-- The type below a layer (monoidal.py scan). -/
def applyBox (cur : List W) (b : TBox) (off : Nat) : List W :=
  cur.take off ++ b.cod ++ cur.drop (off + b.dom.length)

def scanCod : List W → Layers → List W
  | cur, [] => cur
  | cur, (b, off) :: rest => scanCod (applyBox cur b off) rest

/-- Well-typed: every box finds its domain at its offset. -/
def wellTyped : List W → Layers → Bool
  | _, [] => true
  | cur, (b, off) :: rest =>
    (cur.drop off).take b.dom.length == b.dom && off + b.dom.length ≤ cur.length &&
      wellTyped (applyBox cur b off) rest

/-! ### `init_and_discard` (circuit.py:175-188) and `remove_ket1` (tk.py:147-151, 220) -/

/-- `Id(0).tensor(*(Bits(0) if bit else Ket(0) for x in dom))`: box `i` at offset `i`. -/
def initLayers : List W → Nat → Layers
  | [], _ => []
  | .b :: t, i => (.bits [0] false, i) :: initLayers t (i + 1)
  | .q :: t, i => (.ket [0], i) :: initLayers t (i + 1)

/-- `Id(0).tensor(*(Discard() if qubit else Id(bit) for x in cod))`: the offset of a discard is
    the number of bits to its left (the qubits to its left are gone already). -/
def discardLayers : List W → Nat → Layers
  | [], _ => []
  | .b :: t, i => discardLayers t (i + 1)
  | .q :: t, i => (.discard [.q], i) :: discardLayers t i

def allBits (t : List W) : Bool := t.all (· == .b)

def initAndDiscard (c : Circ) : Layers :=
  initLayers c.dom 0 ++ c.layers ++
    (if allBits (scanCod c.dom c.layers) then [] else discardLayers (scanCod c.dom c.layers) 0)

/-- X gates of `remove_ket1`: one at `off + i` for every `1` at position `i`. -/
def ketXs : List Nat → Nat → Layers
  | [], _ => []
  | x :: t, off => (if x = 0 then [] else [(TBox.gate "X" 1, off)]) ++ ketXs t (off + 1)

def removeKet1 : Layers → Layers
  | [] => []
  | (.ket bs, off) :: rest => (.ket (List.replicate bs.length 0), off) :: ketXs bs off ++ removeKet1 rest
  | l :: rest => l :: removeKet1 rest

/-- The layers the loop of tk.py:221 runs over (domain is empty after `init_and_discard`). -/
def prep (c : Circ) : Layers := removeKet1 (initAndDiscard c)

/-! ### commands, post-selection, post-processing -/

/-- A tket command: op name, angle (numerator over 16, in half turns), qubit and bit arguments. -/
structure Cmd where
  op : String
  par : Option Int := none
  qs : List Nat
  bs : List Nat := []
  deriving DecidableEq, Repr, Inhabited

def Cmd.map (f g : Nat → Nat) (c : Cmd) : Cmd := { c with qs := c.qs.map f, bs := c.bs.map g }

/-- `post_selection`: a dict from bit index to value. -/
abbrev PS := List (Nat × Nat)

def PS.has (ps : PS) (k : Nat) : Bool := ps.any (·.1 == k)
def PS.get (ps : PS) (k : Nat) : Option Nat := (ps.find? (·.1 == k)).map (·.2)
def PS.erase (ps : PS) (k : Nat) : PS := ps.filter (fun e => !(e.1 == k))
/-- `dict.update({k: v})` -/
def PS.set (ps : PS) (k v : Nat) : PS :=
  if ps.has k then ps.map (fun e => if e.1 == k then (k, v) else e) else ps ++ [(k, v)]

/-- `Circuit.rename_units` on the post-selection (tk.py:73-82) for a renaming of bit units given
    as (old `index[0]`, new `index[0]`) pairs in dict order.  The register *name* of a unit is
    not looked at by the code, only `index[0]`. -/
def PS.rename (ps : PS) (ren : List (Nat × Nat)) : PS :=
  ((ren.filter (fun r => ps.has r.1)).map (fun r => (r.2, (ps.get r.1).getD 0))).foldl
    (fun p e => p.set e.1 e.2)
    ((ren.filter (fun r => ps.has r.1)).foldl (fun p r => p.erase r.1) ps)

/-- Boxes of a post-processing circuit. -/
inductive PBox where
  | swap
  | gate (name : String) (nin nout : Nat)
  deriving DecidableEq, Repr, Inhabited

def PBox.nin : PBox → Nat
  | .swap => 2
  | .gate _ i _ => i
def PBox.nout : PBox → Nat
  | .swap => 2
  | .gate _ _ o => o

/-- `post_processing` (tk.py:39-40): `Id(bit ** dom)` followed by `layers`. -/
structure PP where
  dom : Nat := 0
  cod : Nat := 0
  layers : List (PBox × Nat) := []
  deriving DecidableEq, Repr, Inhabited

/-- `post_process(Id(bit ** off) @ box @ Id(cod[off + nin:]))` (tk.py:95-98, 243-245, 256-257):
    composition is refused (AxiomError, cat.py:298-310) unless the box fits. -/
def PP.post (pp : PP) (box : PBox) (off : Nat) : Except Err PP :=
  if pp.cod < off + box.nin then .error .axiom
  else .ok { pp with cod := pp.cod - box.nin + box.nout, layers := pp.layers ++ [(box, off)] }

/-- `Id.swap(cod[k:-1], bit)` where the new wire has index `m` (monoidal.py:487-514): swaps at
    offsets `m-1, …, k`. -/
def moveSwaps (k : Nat) : Nat → List (PBox × Nat)
  | 0 => []
  | m + 1 => if k ≤ m then (PBox.swap, m) :: moveSwaps k m else []

/-- `add_bit(unit, offset)` with `offset is not None` (tk.py:64-69). -/
def PP.addWire (pp : PP) (offset : Nat) : Except Err PP :=
  if pp.cod < offset then .error .axiom
  else .ok { dom := pp.dom + 1, cod := pp.cod + 1, layers := pp.layers ++ moveSwaps offset pp.cod }

/-! ### the state of the loop -/

structure St where
  nq : Nat := 0
  nb : Nat := 0
  qubits : List Nat := []
  bits : List Nat := []
  cmds : List Cmd := []
  ps : PS := []
  scal : List (Nat × Bool) := []
  pp : PP := {}
  deriving DecidableEq, Repr, Inhabited

/-- `start` of tk.py:155-156 / 168-169. -/
def startOf (regs : List Nat) (total off : Nat) : Except Err Nat :=
  if regs.isEmpty then .ok total
  else if off = 0 then .ok 0
  else match regs[off - 1]? with
    | some r => .ok (r + 1)
    | none => .error .index

/-- The renaming `i ↦ i + n` for `start ≤ i` (tk.py:157-160, 170-173). -/
def shiftFrom (start n r : Nat) : Nat := if start ≤ r then r + n else r

/-- `qubits[:offset] + range(start, start + n) + [i + n for i in qubits[offset:]]` (tk.py:163-164). -/
def insertRegs (regs : List Nat) (off start n : Nat) : List Nat :=
  regs.take off ++ List.range' start n ++ (regs.drop off).map (· + n)

/-- tk.py:153-164. -/
def prepareQubitsAt (st : St) (n lq start : Nat) : St :=
  { st with nq := st.nq + n
            cmds := st.cmds.map (Cmd.map (shiftFrom start n) id)
            qubits := insertRegs st.qubits lq start n }

def prepareQubits (st : St) (n lq : Nat) : Except Err St :=
  match startOf st.qubits st.nq lq with
  | .error e => .error e
  | .ok start => .ok (prepareQubitsAt st n lq start)

/-- `{Bit(i): Bit(i + n) for i in range(start, n_bits)}` (tk.py:170-173). -/
def shiftPairs (start n nb : Nat) : List (Nat × Nat) :=
  (List.range' start (nb - start)).map (fun i => (i, i + n))

/-- The `add_bit` calls of tk.py:175-176: wire `i` is routed to position `lb + i`. -/
def addWires (pp : PP) (lb : Nat) : Nat → Nat → Except Err PP
  | _, 0 => .ok pp
  | i, k + 1 => match pp.addWire (lb + i) with
    | .error e => .error e
    | .ok pp' => addWires pp' lb (i + 1) k

/-- tk.py:166-178. -/
def prepareBitsAt (st : St) (n lb start : Nat) : Except Err St :=
  match addWires st.pp lb 0 n with
  | .error e => .error e
  | .ok pp' => .ok { st with nb := st.nb + n
                             cmds := st.cmds.map (Cmd.map id (shiftFrom start n))
                             ps := st.ps.rename (shiftPairs start n st.nb)
                             pp := pp'
                             bits := insertRegs st.bits lb start n }

def prepareBits (st : St) (n lb : Nat) : Except Err St :=
  match startOf st.bits st.nb lb with
  | .error e => .error e
  | .ok start => prepareBitsAt st n lb start

/-- The loop of the `override_bits` branch of tk.py:181-186:
    `Measure(qubits[lq + j], bits[lb + j])`. -/
def overrideLoop (st : St) (lq lb : Nat) : List Nat → Except Err St
  | [] => .ok st
  | j :: js => match st.bits[lb + j]?, st.qubits[lq + j]? with
    | some b, some q => overrideLoop { st with cmds := st.cmds ++ [⟨"Measure", none, [q], [b]⟩] } lq lb js
    | _, _ => .error .index

/-- One round of the loop at tk.py:187-195 for a `Measure` box. -/
def measureOne (st : St) (lq lb j : Nat) : Except Err St :=
  match st.qubits[lq + j]? with
  | none => .error .index
  | some q => match st.pp.addWire (lb + j) with       -- offset = bit_offset + j (fix F11)
    | .error e => .error e
    | .ok pp' => .ok { st with nb := st.nb + 1
                               pp := pp'
                               cmds := st.cmds ++ [⟨"Measure", none, [q], [st.nb]⟩]
                               bits := st.bits.take (lb + j) ++ [st.nb] ++ st.bits.drop (lb + j) }

def measureLoop (st : St) (lq lb : Nat) : List Nat → Except Err St
  | [] => .ok st
  | j :: js => match measureOne st lq lb j with
    | .error e => .error e
    | .ok st' => measureLoop st' lq lb js

/-- One round of the loop at tk.py:187-195 for a `Bra` box: the new bit is post-selected and
    does not enter the post-processing (`offset = None`). -/
def braOne (st : St) (lq : Nat) (jv : Nat × Nat) : Except Err St :=
  match st.qubits[lq + jv.1]? with
  | none => .error .index
  | some q => .ok { st with nb := st.nb + 1
                            cmds := st.cmds ++ [⟨"Measure", none, [q], [st.nb]⟩]
                            ps := st.ps.set st.nb jv.2 }

def braLoop (st : St) (lq : Nat) : List (Nat × Nat) → Except Err St
  | [] => .ok st
  | jv :: js => match braOne st lq jv with
    | .error e => .error e
    | .ok st' => braLoop st' lq js

/-- `qubits[:lq] + qubits[lq + n:]` (tk.py:198-199, 232-235). -/
def removeRegs (regs : List Nat) (off n : Nat) : List Nat := regs.take off ++ regs.drop (off + n)

def dropQubits (st : St) (lq n : Nat) : St := { st with qubits := removeRegs st.qubits lq n }

/-- tk.py:180-200; with fix F26 the `override_bits` branch removes the qubits of a destructive
    measurement before it returns. -/
def measureQubits (st : St) (n : Nat) (destructive override : Bool) (lq lb : Nat) : Except Err St :=
  if override then match overrideLoop st lq lb (List.range n) with
    | .error e => .error e
    | .ok st' => .ok (if destructive then dropQubits st' lq n else st')
  else match measureLoop st lq lb (List.range n) with
    | .error e => .error e
    | .ok st' => .ok (if destructive then dropQubits st' lq n else st')

def braQubits (st : St) (bs : List Nat) (lq : Nat) : Except Err St :=
  match braLoop st lq (bs.zipIdx.map (fun p => (p.2, p.1))) with
  | .error e => .error e
  | .ok st' => .ok (dropQubits st' lq bs.length)

/-- Transposition of two register names: `rename_units({old: new, new: old})` on the commands
    (fix F28; before it the swap went through three renamings and a unit `tmp[0]`). -/
def transp (a b r : Nat) : Nat := if r = a then b else if r = b then a else r

/-- tk.py:237-239. -/
def swapQubits (st : St) (lq : Nat) : Except Err St :=
  match st.qubits[lq]?, st.qubits[lq + 1]? with
  | some a, some b => .ok { st with cmds := st.cmds.map (Cmd.map (transp a b) id) }
  | _, _ => .error .index

/-- tk.py:240-247.  With a post-processing that has boxes the swap is appended to it; otherwise
    the two bit units are exchanged by one simultaneous renaming, applied to the commands and,
    through `Circuit.rename_units` (tk.py:73-82), to the post-selection. -/
def swapBits (st : St) (lb : Nat) : Except Err St :=
  if st.pp.layers.isEmpty then
    match st.bits[lb]?, st.bits[lb + 1]? with
    | some a, some b =>
      .ok { st with cmds := st.cmds.map (Cmd.map id (transp a b))
                    ps := st.ps.rename [(a, b), (b, a)] }
    | _, _ => .error .index
  else match st.pp.post .swap lb with
    | .error e => .error e
    | .ok pp' => .ok { st with pp := pp' }

/-- Names `n` with `hasattr(tk_circ, n)` among those the generators use (pytket 2.x). -/
def tkHas (name : String) : Bool :=
  ["H", "S", "T", "X", "Y", "Z", "CX", "CY", "CZ", "CH", "CS"].contains name

/-- `[qubits[offset + j] for j in range(len(box.dom))]` (tk.py:210). -/
def regsAt (regs : List Nat) (off : Nat) : List Nat → Except Err (List Nat)
  | [] => .ok []
  | j :: js => match regs[off + j]?, regsAt regs off js with
    | some r, .ok rs => .ok (r :: rs)
    | none, _ => .error .index
    | _, .error e => .error e

/-- tk.py:209-218: op name and parameter (`2 * phase`: discopy counts full turns, tket half turns). -/
def gateOp : TBox → Option (String × Option Int)
  | .rot cls num => if cls = "Rx" ∨ cls = "Rz" ∨ cls = "CRz" then some (cls, some (2 * num)) else none
  | .gate name _ => if tkHas name then some (name, none) else none
  | _ => none

def addGate (st : St) (box : TBox) (lq : Nat) : Except Err St :=
  match regsAt st.qubits lq (List.range box.dom.length) with
  | .error e => .error e
  | .ok qs => match gateOp box with
    | none => .error .notImpl
    | some (op, par) => .ok { st with cmds := st.cmds ++ [⟨op, par, qs, []⟩] }

/-- `post_process(Id(bit ** off) @ box @ right)` for classical boxes (tk.py:253-257). -/
def classical (st : St) (box : PBox) (lb : Nat) : Except Err St :=
  match st.pp.post box lb with
  | .error e => .error e
  | .ok pp' => .ok { st with pp := pp' }

def bitsName (bs : List Nat) : String := "unbits" ++ String.join (bs.map toString)

/-- One iteration of the loop tk.py:221-261; `lq = left.count(qubit)`, `lb = left.count(bit)`. -/
def step (st : St) (lq lb : Nat) : TBox → Except Err St
  | .ket bs => prepareQubits st bs.length lq
  | .bits bs false => if bs.contains 1 then .error .notImpl else prepareBits st bs.length lb
  | .measure n de ov => measureQubits st n de ov lq lb
  | .bra bs => braQubits st bs lq
  | .discard t => .ok { st with bits := removeRegs st.bits lb (countW .b t)
                                qubits := removeRegs st.qubits lq (countW .q t) }
  | .swap .q .q => swapQubits st lq
  | .swap .b .b => swapBits st lb
  | .swap _ _ => .ok st
  | .scalar k m => .ok { st with scal := st.scal ++ [(k, m)] }
  | .cgate name i o => classical st (.gate name i o) lb
  | .bits bs true => classical st (.gate (bitsName bs) bs.length 0) lb
  | .rot cls num => addGate st (.rot cls num) lq
  | .gate name n => addGate st (.gate name n) lq
  | .other _ _ => .error .notImpl

def run : St → List W → Layers → Except Err St
  | st, _, [] => .ok st
  | st, cur, (b, off) :: rest =>
    match step st (countW .q (cur.take off)) (countW .b (cur.take off)) b with
    | .error e => .error e
    | .ok st' => run st' (applyBox cur b off) rest

/-- `to_tk(circuit)`. -/
def toTk (c : Circ) : Except Err St := run {} [] (prep c)

end DV.Tk
