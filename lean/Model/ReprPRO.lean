/-
  Model/ReprPRO.lean — the type classes `monoidal.PRO` (monoidal.py:201-235) and `rigid.PRO`
  (rigid.py:117-134): `PRO(n)` is the type `Ty(1, ..., 1)` of `n` objects named `1`, printed
  as `PRO(n)`.  Core Lean only.

  * `__init__` (monoidal.py:224-229): `super().__init__(*(n * [1]))` — `n` objects named `1`
    (token `"1"`, the Python repr of the int), winding number 0 (rigid.py:99-103 wraps each into
    `rigid.Ob(1)`); `PRO(PRO(n))` and `PRO(Ob(n))` read the number off their argument.
  * `__eq__`: none of its own — `monoidal.Ty.__eq__` (monoidal.py:165-166): the lists of objects.
  * `__hash__`: none of its own — `monoidal.Ty.__hash__` (monoidal.py:168-169) `hash(repr(self))`.
  * `__repr__` (monoidal.py:231-232): `"PRO({})".format(len(self))`; `rigid.PRO` inherits it
    (monoidal.PRO comes before rigid.Ty in its MRO).
  * `upgrade` (monoidal.py:217-222, rigid.py:121-123), applied by `tensor` and slicing: a type
    whose objects are all named `1` becomes `PRO(len)`, anything else is a `TypeError`.
  * `rigid.PRO.l` / `.r` (rigid.py:125-134): `self`.
-/
import Model.Repr

namespace DV

/-- The object every wire of a PRO type is: `Ob(1)` (name token = Python repr of the int `1`). -/
def proOb : Ob := ⟨"1", 0⟩

/-- `PRO(n)`, monoidal.py:224-229. -/
def proTy (n : Nat) : Ty := List.replicate n proOb

/-- `PRO.upgrade(old)`, monoidal.py:217-222: the number of wires, `TypeError` on a foreign object. -/
def proUpgrade (t : Ty) : Except Err Nat :=
  if t.all (fun x => x.name == "1") then .ok t.length else .error .type

/-- `PRO(m) @ PRO(n)`, monoidal.py:128-131 + upgrade. -/
def proTensor (m n : Nat) : Except Err Nat := proUpgrade (proTy m ++ proTy n)

/-- `PRO(n)[i:j]`, monoidal.py:187-190 + upgrade. -/
def proSlice (n : Nat) (i j : Option Int) : Except Err Nat := proUpgrade (pySlice (proTy n) i j)

/-- `repr` of a value of class PRO whose objects are `t`, monoidal.py:231-232. -/
def reprTPRO (t : Ty) : RT := .call "PRO" [.int t.length]
def reprPRO (t : Ty) : String := (reprTPRO t).render

end DV
