/-
  Model/Param.lean — parametrised diagrams: substitution, free symbols, gradients (C14, C15).
  Core Lean only (linked into dvdriver).

  Mirrors
    discopy/cat.py        rsubs (47-49), Arrow.free_symbols (362-372), Box.subs/lambdify (548-562)
    discopy/monoidal.py   Diagram.subs/lambdify (476-484): layer by layer
    discopy/tensor.py     Box.array (577-579), Functor.__call__ on boxes/daggers (355-360),
                          Diagram.grad (485-492), Diagram.jacobian (494-522), Box.grad (582-585),
                          Spider (631-643), Bubble (654-735)
    discopy/quantum/gates.py  Parametrized.subs (331-333), ClassicalGate.subs (96-98),
                          Scalar/MixedScalar/Sqrt/Rotation constructors
    discopy/quantum/zx.py Spider.subs (285-287), Scalar.subs (350-352)

  Parts (2b: bubbles and Bubble.grad, tensor.py:654-735, described where it starts):
   1. `Poly`  — Int-coefficient multivariate polynomials in normal form (the executable scalar
                type of the driver; sympy's polynomial arithmetic is what it stands for);
   2. `PDiagram R` — tensor diagrams with box data in any scalar type `R` (core classes only),
                a simple reference evaluator (layer by layer, matrices as functions of a row and a
                column index), `mapData` (substitution = a map on box data), `freeSymbols`,
                `grad` (the recursion of tensor.py:485-492) and `jacobian`;
   3. `Attr`/`csubs` — per box class, the attribute record that the class's own `subs`
                rebuilds (which constructor arguments it passes on, which it forgets).
-/

namespace DV.Param

/-! ## 1. Polynomials -/

/-- Exponents of x0, x1, …; normal form has no trailing zero. -/
abbrev Mono := List Nat

def Mono.trim (m : Mono) : Mono := (m.reverse.dropWhile (· == 0)).reverse

def Mono.mul : Mono → Mono → Mono
  | [], n => n
  | m, [] => m
  | a :: m, b :: n => (a + b) :: Mono.mul m n

def Mono.isZero : Mono → Bool
  | [] => true
  | a :: m => a == 0 && Mono.isZero m

/-- Lexicographic order on exponent vectors padded with zeros (structural on the first). -/
def Mono.cmp : Mono → Mono → Ordering
  | [], n => if Mono.isZero n then .eq else .lt
  | a :: m, [] => if Mono.isZero (a :: m) then .eq else .gt
  | a :: m, b :: n => if a < b then .lt else if b < a then .gt else Mono.cmp m n

/-- Polynomial: terms sorted strictly by `Mono.cmp`, no zero coefficient, monomials trimmed. -/
structure Poly where
  terms : List (Mono × Int)
  deriving DecidableEq, Repr, Inhabited

namespace Poly

def addTerm (m : Mono) (c : Int) : List (Mono × Int) → List (Mono × Int)
  | [] => if c == 0 then [] else [(m, c)]
  | (n, d) :: p =>
    match Mono.cmp m n with
    | .lt => if c == 0 then (n, d) :: p else (m, c) :: (n, d) :: p
    | .eq => if c + d == 0 then p else (n, c + d) :: p
    | .gt => (n, d) :: addTerm m c p

def addL (p q : List (Mono × Int)) : List (Mono × Int) :=
  p.foldr (fun t acc => addTerm t.1 t.2 acc) q

def smulMono (m : Mono) (c : Int) (q : List (Mono × Int)) : List (Mono × Int) :=
  q.foldr (fun t acc => addTerm (Mono.trim (Mono.mul m t.1)) (c * t.2) acc) []

def mulL (p q : List (Mono × Int)) : List (Mono × Int) :=
  p.foldr (fun t acc => addL (smulMono t.1 t.2 q) acc) []

def const (c : Int) : Poly := ⟨if c == 0 then [] else [([], c)]⟩
def var (i : Nat) : Poly := ⟨[(List.replicate i 0 ++ [1], 1)]⟩
def add (p q : Poly) : Poly := ⟨addL p.terms q.terms⟩
def mul (p q : Poly) : Poly := ⟨mulL p.terms q.terms⟩
def neg (p : Poly) : Poly := ⟨p.terms.map (fun t => (t.1, -t.2))⟩

instance : Zero Poly := ⟨const 0⟩
instance : One Poly := ⟨const 1⟩
instance : Add Poly := ⟨add⟩
instance : Mul Poly := ⟨mul⟩
instance : Neg Poly := ⟨neg⟩

/-- Re-normalise an arbitrary term list (used when reading the line protocol). -/
def ofTerms (ts : List (Mono × Int)) : Poly :=
  ⟨ts.foldr (fun t acc => addTerm (Mono.trim t.1) t.2 acc) []⟩

def pow (p : Poly) : Nat → Poly
  | 0 => 1
  | n + 1 => p * pow p n

/-- Image of a monomial under the substitution `σ`, variables numbered from `i`. -/
def monoSubst (σ : Nat → Poly) : Nat → Mono → Poly
  | _, [] => 1
  | i, e :: m => pow (σ i) e * monoSubst σ (i + 1) m

/-- Simultaneous substitution `x_i := σ i` (a ring homomorphism Poly → Poly). -/
def subst (σ : Nat → Poly) (p : Poly) : Poly :=
  p.terms.foldr (fun t acc => const t.2 * monoSubst σ 0 t.1 + acc) 0

/-- `p.subs(x_i, q)` (rsubs, cat.py:47: sympy's `subs` on one entry). -/
def subst1 (i : Nat) (q : Poly) (p : Poly) : Poly :=
  subst (fun j => if j == i then q else var j) p

/-- Formal partial derivative with respect to `x_i`. -/
def deriv (i : Nat) (p : Poly) : Poly :=
  ⟨p.terms.foldr (fun t acc =>
      match t.1[i]? with
      | some (e + 1) => addTerm (Mono.trim (t.1.set i e)) (((e + 1 : Nat) : Int) * t.2) acc
      | _ => acc) []⟩

def monoHas (i : Nat) (m : Mono) : Bool :=
  match m[i]? with
  | some (_ + 1) => true
  | _ => false

/-- Indices of the variables occurring in `p`, increasing (`free_symbols` of one entry). -/
def vars (p : Poly) : List Nat :=
  (List.range (p.terms.foldr (fun t acc => max t.1.length acc) 0)).filter
    (fun i => p.terms.any (fun t => monoHas i t.1))

end Poly

/-! ## 2. Tensor diagrams over a scalar type -/

/-- Conjugation on scalars (the dagger of tensor.py:206-211 conjugates entries).  The real
    symbols and integer coefficients of `Poly` make it the identity there. -/
class HasConj (R : Type) where
  conj : R → R

instance : HasConj Poly := ⟨id⟩
instance : HasConj Int := ⟨id⟩

def prod (ds : List Nat) : Nat := ds.foldr (· * ·) 1

/-- A tensor box as tensor.Box stores it: `dom`/`cod` are those of the (possibly daggered) box,
    `data` is the flat row-major data of the UN-daggered box, `dagger` the `_dagger` flag. -/
structure PBox (R : Type) where
  name : String := "f"
  dom : List Nat
  cod : List Nat
  dagger : Bool
  data : List R

/-- Entry (row `i` over `dom`, column `j` over `cod`) of the array a box evaluates to:
    tensor.py:577-579 (`reshape(dom @ cod)`) for a plain box; for a daggered box
    tensor.py:357-358 evaluates the un-daggered box (dom/cod swapped back) and takes
    `Tensor.dagger` (conjugate transpose, 206-211). -/
def PBox.arr {R} [Zero R] [HasConj R] (b : PBox R) (i j : Nat) : R :=
  if b.dagger then HasConj.conj (b.data.getD (j * prod b.dom + i) 0)
  else b.data.getD (i * prod b.cod + j) 0

def PBox.mapData {R S} (f : R → S) (b : PBox R) : PBox S :=
  { name := b.name, dom := b.dom, cod := b.cod, dagger := b.dagger, data := b.data.map f }

structure PLayer (R : Type) where
  left : List Nat
  box : PBox R
  right : List Nat

def PLayer.mapData {R S} (f : R → S) (l : PLayer R) : PLayer S :=
  { left := l.left, box := l.box.mapData f, right := l.right }

def PLayer.inDim {R} (l : PLayer R) : Nat := prod l.left * prod l.box.dom * prod l.right
def PLayer.outDim {R} (l : PLayer R) : Nat := prod l.left * prod l.box.cod * prod l.right

/-- Matrix of `Id(left) @ box @ Id(right)`: rows index `left × box.dom × right`, columns
    `left × box.cod × right`, both row-major. -/
def PLayer.mat {R} [Zero R] [HasConj R] (l : PLayer R) (i j : Nat) : R :=
  if i / (prod l.box.dom * prod l.right) = j / (prod l.box.cod * prod l.right)
      ∧ i % prod l.right = j % prod l.right
  then l.box.arr (i / prod l.right % prod l.box.dom) (j / prod l.right % prod l.box.cod)
  else 0

abbrev Mat (R : Type) := Nat → Nat → R

def idMat {R} [Zero R] [One R] : Mat R := fun i j => if i = j then 1 else 0

/-- Product of matrices, `n` = the shared dimension. -/
def matMul {R} [Add R] [Mul R] [Zero R] (n : Nat) (a b : Mat R) : Mat R :=
  fun i k => ((List.range n).map (fun j => a i j * b j k)).sum

/-- Reference evaluator: the first layer times the evaluation of the rest. -/
def evalLayers {R} [Add R] [Mul R] [Zero R] [One R] [HasConj R] : List (PLayer R) → Mat R
  | [] => idMat
  | l :: ls => matMul l.outDim l.mat (evalLayers ls)

structure PDiagram (R : Type) where
  dom : List Nat
  layers : List (PLayer R)

def PDiagram.cod {R} (d : PDiagram R) : List Nat :=
  match d.layers.getLast? with
  | none => d.dom
  | some l => l.left ++ l.box.cod ++ l.right

def PDiagram.eval {R} [Add R] [Mul R] [Zero R] [One R] [HasConj R] (d : PDiagram R) : Mat R :=
  evalLayers d.layers

/-- monoidal.Diagram.subs (476-479): every layer's box is rebuilt with substituted data
    (cat.Box.subs, 548-554, keeps name, dom, cod and `_dagger`). -/
def PDiagram.mapData {R S} (f : R → S) (d : PDiagram R) : PDiagram S :=
  { dom := d.dom, layers := d.layers.map (PLayer.mapData f) }

/-- Formal sums of diagrams evaluate to the entrywise sum (tensor.py:556-558). -/
def evalSum {R} [Add R] [Mul R] [Zero R] [One R] [HasConj R] (ts : List (List (PLayer R))) : Mat R :=
  fun i j => (ts.map (fun t => evalLayers t i j)).sum

/-! ### free symbols -/

def insertNat (v : Nat) : List Nat → List Nat
  | [] => [v]
  | w :: ws => if v < w then v :: w :: ws else if v = w then w :: ws else w :: insertNat v ws

def unionNat (xs ys : List Nat) : List Nat := xs.foldr insertNat ys

/-- cat.Box.__init__ (500-509): union of the free symbols of the entries of the data. -/
def PBox.freeSymbols {R} (fs : R → List Nat) (b : PBox R) : List Nat :=
  b.data.foldr (fun e acc => unionNat (fs e) acc) []

/-- cat.Arrow.free_symbols (362-372): union over the boxes. -/
def freeSymbolsL {R} (fs : R → List Nat) (ls : List (PLayer R)) : List Nat :=
  ls.foldr (fun l acc => unionNat (l.box.freeSymbols fs) acc) []

def PDiagram.freeSymbols {R} (fs : R → List Nat) (d : PDiagram R) : List Nat :=
  freeSymbolsL fs d.layers

/-! ### gradients -/

/-- tensor.Diagram.grad (485-492).  `dep b` = "var in b.free_symbols"; `G b` = the terms of
    `b.grad(var)` (each a box on the same wires).  If no box depends on the variable the
    gradient is the empty sum; otherwise
      `Id(left) @ box.grad(var) @ Id(right) >> tail  +  Id(left) @ box @ Id(right) >> tail.grad(var)`. -/
def gradLayers {R} (dep : PBox R → Bool) (G : PBox R → List (PBox R)) :
    List (PLayer R) → List (List (PLayer R))
  | [] => []
  | l :: tail =>
    if (l :: tail).any (fun x => dep x.box) then
      (G l.box).map (fun b' => { left := l.left, box := b', right := l.right } :: tail)
        ++ (gradLayers dep G tail).map (fun t => l :: t)
    else []

/-- tensor.Box.grad (582-585): a bubble applying the derivative entrywise.  The bubble is
    represented by its evaluation rule (tensor.py:341-342: `self(inside).map(func)`), i.e. the
    derivative applied to the data; `checksFS` = whether Box.grad first tests
    `var in self.free_symbols` (it does not in discopy 0.3.5: the term is kept and evaluates
    to zero). -/
def boxGrad {R} (checksFS : Bool) (dep : PBox R → Bool) (D : R → R) (b : PBox R) : List (PBox R) :=
  if checksFS && !dep b then [] else [b.mapData D]

/-- tensor.Diagram.jacobian (494-522): `Σ_k onehot_k ⊗ grad(var_k)`; entry (row `i`, column
    `k * c + j`) with `c` the codomain dimension is the (i, j) entry of the k-th gradient. -/
def jacobianMat {R} [Zero R] (c : Nat) (grads : List (Mat R)) : Mat R :=
  fun i col => match grads[col / c]? with
    | some g => g i (col % c)
    | none => 0

/-! ### the polynomial instance -/

abbrev PolyDiagram := PDiagram Poly

def PolyDiagram.subs (i : Nat) (q : Poly) (d : PolyDiagram) : PolyDiagram :=
  d.mapData (Poly.subst1 i q)

def polyDep (v : Nat) (b : PBox Poly) : Bool := (b.freeSymbols Poly.vars).contains v

def PolyDiagram.grad (checksFS : Bool) (v : Nat) (d : PolyDiagram) : List (List (PLayer Poly)) :=
  gradLayers (polyDep v) (boxGrad checksFS (polyDep v) (Poly.deriv v)) d.layers

/-- Row-major entries of an `r × c` matrix. -/
def Mat.toList {R} (m : Mat R) (r c : Nat) : List R :=
  (List.range r).flatMap (fun i => (List.range c).map (fun j => m i j))

/-! ## 2b. Bubbles (tensor.py:654-747) and their gradient by the chain rule

  Single-wire bubbles applying a polynomial function with integer coefficients entrywise:
    * evaluation        tensor.py:335-336   `self(diagram.inside).map(diagram.func)`
    * free symbols      tensor.py:699-701   those of the diagram inside
    * gradient          tensor.py:713-735   (as repaired by the fix commits: spiders on `Dim` types,
                                             empty sum for constants)
        Spider(1, 2, dom) >> inside.bubble(func') @ inside.grad(var) >> Spider(2, 1, cod)
      with `func' = x ↦ func(tmp).diff(tmp).subs(tmp, x)`; `bubble' @ Sum` and `>>` distribute
      over the terms of `inside.grad(var)`, so there is one term per term of that sum.
  Bubbles are not nested (the inside is a diagram of plain boxes). -/

/-- Value at `x` of the polynomial with integer coefficients `cs` (constant term first), in Horner
    form; `ι` embeds the integers in the scalars. -/
def polyApply {R} [Add R] [Mul R] [Zero R] (ι : Int → R) : List Int → R → R
  | [], _ => 0
  | c :: cs, x => ι c + x * polyApply ι cs x

def polyDerivAux : Nat → List Int → List Int
  | _, [] => []
  | k, c :: cs => ((k : Int) * c) :: polyDerivAux (k + 1) cs

/-- Coefficients of the derivative: `[c0, c1, c2, …] ↦ [c1, 2·c2, 3·c3, …]` (sympy's `diff` of
    `func(tmp)` followed by `subs(tmp, x)` is `polyApply (polyDeriv cs) x`). -/
def polyDeriv : List Int → List Int
  | [] => []
  | _ :: cs => polyDerivAux 1 cs

/-- `Spider(1, 2, Dim(n))` (tensor.py:631-643: ones at the index tuples `(i, i, i)`): row `i`,
    column `(i, i)` = `i * n + i`. -/
def spiderSplit {R} [Zero R] [One R] (n : Nat) : Mat R := fun i k => if k = i * n + i then 1 else 0

/-- `Spider(2, 1, Dim(n))`: row `(j, j)`, column `j`. -/
def spiderMerge {R} [Zero R] [One R] (n : Nat) : Mat R := fun k j => if k = j * n + j then 1 else 0

/-- Kronecker product with a `p × q` matrix on the right (`@` of two tensors, row-major). -/
def kronM {R} [Mul R] (p q : Nat) (a b : Mat R) : Mat R :=
  fun i j => a (i / p) (j / q) * b (i % p) (j % q)

/-- `Spider(1, 2, a) >> A @ B >> Spider(2, 1, b)` for `A, B : a → b`. -/
def spiderSandwich {R} [Add R] [Mul R] [Zero R] [One R] (a b : Nat) (A B : Mat R) : Mat R :=
  matMul (a * a) (spiderSplit a) (matMul (b * b) (kronM a b A B) (spiderMerge b))

/-- Boxes of a diagram that may contain bubbles.
    * `bubble dom cod func inside` — `inside.bubble(func=…)` with `dom = inside.dom`,
      `cod = inside.cod`, both of length ≤ 1;
    * `chain dom cod func' inside term` — one term of `Bubble.grad`:
      `Spider(1, 2, dom) >> inside.bubble(func') @ term >> Spider(2, 1, cod)`, kept as one box on
      the wires of the bubble (it is whiskered like a box by `Diagram.grad`). -/
inductive XBox (R : Type) where
  | plain (b : PBox R)
  | bubble (dom cod : List Nat) (func : List Int) (inside : List (PLayer R))
  | chain (dom cod : List Nat) (func : List Int) (inside term : List (PLayer R))

def XBox.dom {R} : XBox R → List Nat
  | .plain b => b.dom
  | .bubble dom _ _ _ => dom
  | .chain dom _ _ _ _ => dom

def XBox.cod {R} : XBox R → List Nat
  | .plain b => b.cod
  | .bubble _ cod _ _ => cod
  | .chain _ cod _ _ _ => cod

/-- Array of a bubble: the function applied to every entry of the evaluation of the inside
    (entries outside the `dom × cod` block do not exist: 0). -/
def bubbleArr {R} [Add R] [Mul R] [Zero R] [One R] [HasConj R] (ι : Int → R) (a b : Nat)
    (func : List Int) (inside : List (PLayer R)) : Mat R :=
  fun i j => if i < a ∧ j < b then polyApply ι func (evalLayers inside i j) else 0

def XBox.arr {R} [Add R] [Mul R] [Zero R] [One R] [HasConj R] (ι : Int → R) : XBox R → Mat R
  | .plain b => b.arr
  | .bubble dom cod func inside => bubbleArr ι (prod dom) (prod cod) func inside
  | .chain dom cod func inside term =>
    spiderSandwich (prod dom) (prod cod) (bubbleArr ι (prod dom) (prod cod) func inside)
      (evalLayers term)

structure XLayer (R : Type) where
  left : List Nat
  box : XBox R
  right : List Nat

def XLayer.outDim {R} (l : XLayer R) : Nat := prod l.left * prod l.box.cod * prod l.right

/-- As `PLayer.mat`, with the array of an `XBox`. -/
def XLayer.mat {R} [Add R] [Mul R] [Zero R] [One R] [HasConj R] (ι : Int → R) (l : XLayer R)
    (i j : Nat) : R :=
  if i / (prod l.box.dom * prod l.right) = j / (prod l.box.cod * prod l.right)
      ∧ i % prod l.right = j % prod l.right
  then l.box.arr ι (i / prod l.right % prod l.box.dom) (j / prod l.right % prod l.box.cod)
  else 0

def xevalLayers {R} [Add R] [Mul R] [Zero R] [One R] [HasConj R] (ι : Int → R) :
    List (XLayer R) → Mat R
  | [] => idMat
  | l :: ls => matMul l.outDim (l.mat ι) (xevalLayers ι ls)

def xevalSum {R} [Add R] [Mul R] [Zero R] [One R] [HasConj R] (ι : Int → R)
    (ts : List (List (XLayer R))) : Mat R :=
  fun i j => (ts.map (fun t => xevalLayers ι t i j)).sum

/-- "var in box.free_symbols" for each kind of box (a bubble reports those of its inside). -/
def XBox.dep {R} (depP : PBox R → Bool) : XBox R → Bool
  | .plain b => depP b
  | .bubble _ _ _ inside => inside.any (fun l => depP l.box)
  | .chain _ _ _ inside term => inside.any (fun l => depP l.box) || term.any (fun l => depP l.box)

/-- `box.grad(var)` for each kind of box: tensor.Box.grad (`boxGrad`) and Bubble.grad (the chain
    rule above; its own free-symbol test is always there in the repaired code).  Terms of a
    gradient are not differentiated again. -/
def xboxGrad {R} (checksFS : Bool) (depP : PBox R → Bool) (D : R → R) : XBox R → List (XBox R)
  | .plain b => (boxGrad checksFS depP D b).map .plain
  | .bubble dom cod func inside =>
    if inside.any (fun l => depP l.box) then
      (gradLayers depP (boxGrad checksFS depP D) inside).map
        (fun t => .chain dom cod (polyDeriv func) inside t)
    else []
  | .chain _ _ _ _ _ => []

/-- tensor.Diagram.grad (485-492) on diagrams that may contain bubbles. -/
def xgradLayers {R} (dep : XBox R → Bool) (G : XBox R → List (XBox R)) :
    List (XLayer R) → List (List (XLayer R))
  | [] => []
  | l :: tail =>
    if (l :: tail).any (fun x => dep x.box) then
      (G l.box).map (fun b' => { left := l.left, box := b', right := l.right } :: tail)
        ++ (xgradLayers dep G tail).map (fun t => l :: t)
    else []

def polyXGrad (checksFS : Bool) (v : Nat) (ls : List (XLayer Poly)) : List (List (XLayer Poly)) :=
  xgradLayers (XBox.dep (polyDep v)) (xboxGrad checksFS (polyDep v) (Poly.deriv v)) ls

/-! ## 3. What each box class's `subs` rebuilds -/

/-- The non-numeric attributes C14 asks `subs` to keep. -/
structure Attr where
  kind : String            -- Python class name
  nin : Nat
  nout : Nat
  dagger : Bool            -- truth value of `is_dagger` (`None` counts as false)
  mixed : Option Bool      -- `is_mixed`; `none` for classes without it (tensor, zx)
  deriving DecidableEq, Repr

inductive Cls where
  | tensorBox | rotation | scalar | mixedScalar | sqrt | classicalGate | zxSpider | zxScalar
  deriving DecidableEq, Repr

/-- Which repairs of /repo the transcription follows (all `false` = discopy 0.3.5 as found). -/
structure Fixes where
  scalarKeepsMixed : Bool := false      -- finding F5c
  cgateKeepsDagger : Bool := false      -- finding F5d
  cgateNoDataReturnsSelf : Bool := false -- finding F5h
  deriving DecidableEq, Repr

inductive PErr where
  | attribute           -- AttributeError: 'NoneType' object has no attribute 'flatten'
  deriving DecidableEq, Repr

/-- `box.subs(var, value)`: `hit` = "var in box.free_symbols", `hasData` = "box.data is not None",
    `hasSyms` = "box.free_symbols is not empty".
    * tensorBox — cat.Box.subs (548-554): returns `self` when not hit, else
      `type(self)(name, dom, cod, _dagger=self._dagger, data=…)`.
    * rotation — Parametrized.subs (331-333): `type(self)(data)`; Rotation.__init__ (347-351) sets
      the arity from the class, `is_mixed=False`, `_dagger=False`.
    * scalar — `Scalar(data)`: `is_mixed=False` by default (gates.py:507), `_dagger` recomputed
      (None/False, both falsy).
    * mixedScalar — `MixedScalar(data)` = `Scalar(data, is_mixed=True)` (534-537).
    * sqrt — `Sqrt(data)` (540-544).
    * classicalGate — ClassicalGate.subs (96-98): `ClassicalGate(name, dom, cod, data)`; no
      `_dagger` argument (default False); `self.data.flatten()` raises when data is None.
    * zxSpider — zx.Spider.subs (285-287): `type(self)(len(dom), len(cod), phase=data)`.
    * zxScalar — zx.Scalar.subs (350-352): `Scalar(data)`. -/
def csubs (fx : Fixes) (cls : Cls) (hit hasData hasSyms : Bool) (a : Attr) : Except PErr Attr :=
  match cls with
  | .tensorBox => if hit then .ok { a with } else .ok a   -- rebuilt with every argument / `self`
  | .rotation => .ok { a with dagger := false, mixed := some false }
  | .scalar =>
    .ok { a with kind := "Scalar", nin := 0, nout := 0, dagger := false,
                 mixed := if fx.scalarKeepsMixed then a.mixed else some false }
  | .mixedScalar => .ok { a with nin := 0, nout := 0, dagger := false, mixed := some true }
  | .sqrt => .ok { a with nin := 0, nout := 0, dagger := false, mixed := some false }
  | .classicalGate =>
    if fx.cgateNoDataReturnsSelf && !hasSyms then .ok a
    else if !hasData then .error .attribute
    else .ok { a with kind := "ClassicalGate", mixed := some false,
                      dagger := if fx.cgateKeepsDagger then a.dagger else false }
  | .zxSpider => .ok { a with dagger := false, mixed := none }
  | .zxScalar => .ok { a with kind := "Scalar", nin := 0, nout := 0, dagger := false, mixed := none }

/-- Records the constructors of each class can produce. -/
def Attr.reachable (cls : Cls) (a : Attr) : Prop :=
  match cls with
  | .tensorBox => a.mixed = none
  | .rotation => a.dagger = false ∧ a.mixed = some false
  | .scalar => a.kind = "Scalar" ∧ a.nin = 0 ∧ a.nout = 0 ∧ a.dagger = false ∧ a.mixed ≠ none
  | .mixedScalar => a.nin = 0 ∧ a.nout = 0 ∧ a.dagger = false ∧ a.mixed = some true
  | .sqrt => a.nin = 0 ∧ a.nout = 0 ∧ a.dagger = false ∧ a.mixed = some false
  | .classicalGate => a.kind = "ClassicalGate" ∧ a.mixed = some false
  | .zxSpider => a.dagger = false ∧ a.mixed = none
  | .zxScalar => a.kind = "Scalar" ∧ a.nin = 0 ∧ a.nout = 0 ∧ a.dagger = false ∧ a.mixed = none

end DV.Param
