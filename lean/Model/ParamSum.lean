/-
  Model/ParamSum.lean — gradients of FORMAL SUMS (C15).

    * circuit.Sum.grad      circuit.py:673-674
          return sum(circuit.grad(var, **params) for circuit in self.terms)
      the gradients of the terms, concatenated in the order of the terms: one gradient per
      OCCURRENCE of a term (`terms` is a list: `c + c` has two terms, a second-order gradient
      contains the mixed terms d_a d_b and d_b d_a as two equal diagrams).
    * tensor.Sum            tensor.py:556-564 has no `grad`: the inherited tensor.Diagram.grad
      (485-492) treats the sum as ONE BOX and tests `var not in self.free_symbols`; a Sum is built
      by cat.Box.__init__ without data (cat.py:672-674), so it never reports a free symbol and the
      gradient of every formal sum of tensor diagrams is the empty sum (finding F4s).
      `sumHasGrad = false` transcribes the code as found, `true` the repair (the rule of
      circuit.Sum.grad).
  Core Lean only.
-/
import Model.Param

namespace DV.Param

deriving instance DecidableEq for PBox, PLayer

/-- `sum(term.grad(var) for term in self.terms)`: a list (multiplicities kept), not a set. -/
def gradSum {T : Type} (g : T → List T) (ts : List T) : List T := ts.flatMap g

/-- The same with "each distinct term only once" — NOT what the code does; kept to show (Props/C15)
    that such a rule evaluates to the wrong derivative as soon as a term is repeated. -/
def gradSumDistinct {T : Type} [BEq T] (g : T → List T) (ts : List T) : List T := ts.eraseDups.flatMap g

/-- Gradient of one polynomial tensor diagram given by its layers (PolyDiagram.grad). -/
def polyGradLayers (checksFS : Bool) (v : Nat) (ls : List (PLayer Poly)) : List (List (PLayer Poly)) :=
  gradLayers (polyDep v) (boxGrad checksFS (polyDep v) (Poly.deriv v)) ls

/-- `.grad(x_v)` of a formal sum of polynomial tensor diagrams. -/
def polySumGrad (sumHasGrad checksFS : Bool) (v : Nat) (ts : List (List (PLayer Poly))) :
    List (List (PLayer Poly)) :=
  if sumHasGrad then gradSum (polyGradLayers checksFS v) ts else []

/-- `d.grad(x_v).grad(x_w)`: the gradient of the formal sum that `grad` returned. -/
def polyGradTwice (sumHasGrad checksFS : Bool) (v w : Nat) (ls : List (PLayer Poly)) :
    List (List (PLayer Poly)) :=
  polySumGrad sumHasGrad checksFS w (polyGradLayers checksFS v ls)

end DV.Param
