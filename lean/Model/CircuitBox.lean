/-
  Model/CircuitBox.lean — the box classes of discopy/quantum/circuit.py and
  discopy/quantum/gates.py as far as C01 is concerned: the domain and codomain each constructor
  computes from its arguments and flags, and the box each class's own `dagger()` returns
  (line numbers in comments).  Core Lean only.

  The generic operations of Model/Diagram.lean never look inside a box; the dagger of a diagram
  (cat.py:216-221, monoidal.py:281-284) calls `box.dagger()` of whatever class the box has and
  splices the answer into the reversed layers WITHOUT re-scanning.  So the dagger of a circuit
  is well-typed only if every class's `dagger()` exchanges dom and cod — which is what this
  file transcribes and Proofs/CircuitBox.lean proves.
-/
import Model.Basic

namespace DV.CB
open DV

/-- circuit.py:105-115: `Digit(dim)` is named "bit" for `dim = 2`, else "Digit(dim)".  Names are
    kept as the harness serialises them (`repr` of the name). -/
def digit (dim : Nat) : Ob := ⟨if dim = 2 then "'bit'" else s!"'Digit({dim})'", 0⟩
/-- circuit.py:118-128. -/
def qudit (dim : Nat) : Ob := ⟨if dim = 2 then "'qubit'" else s!"'Qudit({dim})'", 0⟩
def bit : Ob := digit 2
def qubit : Ob := qudit 2
/-- `ty ** n` for an atomic type. -/
def pow (x : Ob) (n : Nat) : Ty := List.replicate n x

/-- `_dagger` of cat.Box: `None` (self-adjoint), `False`, `True`. -/
abbrev DFlag := Option Bool

/-- cat.py:581-584 `_dagger=not self._dagger` (so `None` becomes `True`). -/
def DFlag.notPy : DFlag → DFlag
  | none => some true
  | some b => some (!b)

/-- gates.py:42-45, 96-99: `None if self._dagger is None else not self._dagger`. -/
def DFlag.flipKeepNone : DFlag → DFlag
  | none => none
  | some b => some (!b)

inductive CBox where
  /-- circuit.py:726-753 `Measure(n_qubits, destructive, override_bits)`. -/
  | measure (n : Nat) (destructive overrideBits : Bool)
  /-- circuit.py:761-783 `Encode(n_bits, constructive, reset_bits)`. -/
  | encode (n : Nat) (constructive resetBits : Bool)
  /-- circuit.py:694-701 `Discard(dom)` (an int `n` means `qubit ** n`). -/
  | discard (t : Ty)
  /-- circuit.py:707-720 `MixedState(cod)`. -/
  | mixedState (t : Ty)
  /-- gates.py:135-180 `Digits(*digits, dim, _dagger)`; `Bits` is `dim = 2` (gates.py:183-201). -/
  | digits (dim n : Nat) (dagger : Bool)
  /-- gates.py:204-227. -/
  | ket (n : Nat)
  /-- gates.py:230-253. -/
  | bra (n : Nat)
  /-- gates.py:113-121. -/
  | copy
  /-- gates.py:124-132. -/
  | match_
  /-- circuit.py:676-684. -/
  | swap (l r : Ob)
  /-- gates.py:21-45 `QuantumGate(name, n_qubits, array, _dagger)`. -/
  | quantumGate (n : Nat) (dagger : DFlag)
  /-- gates.py:256-287 `Controlled(gate)` (distance 0): `len(gate.dom) + 1` qubits. -/
  | controlled (n : Nat)
  /-- gates.py:346-363 rotations `Rx, Ry, Rz` (1 qubit), `CU1, CRz, CRx` (2 qubits). -/
  | rotation (n : Nat)
  /-- gates.py:48-99 `ClassicalGate(name, dom, cod, data, _dagger)`. -/
  | classicalGate (dom cod : Ty) (dagger : DFlag)
  /-- gates.py:476-520 scalars: empty domain and codomain. -/
  | scalar
  /-- circuit.py:590-620 a plain `circuit.Box(name, dom, cod, _dagger=…)`. -/
  | box (dom cod : Ty) (dagger : DFlag)
  deriving DecidableEq, Repr, Inhabited

/-- circuit.py:740-748: `dom, cod = qubit ** n, bit ** n`; not destructive: `cod = qubit ** n @ cod`;
    override_bits: `dom = dom @ bit ** n`. -/
def measureDom (n : Nat) (overrideBits : Bool) : Ty :=
  pow qubit n ++ (if overrideBits then pow bit n else [])
def measureCod (n : Nat) (destructive : Bool) : Ty :=
  (if destructive then [] else pow qubit n) ++ pow bit n

def CBox.dom : CBox → Ty
  | .measure n _ o => measureDom n o
  | .encode n c _ => measureCod n c            -- circuit.py:775-776 `dom, cod = measure.cod, measure.dom`
  | .discard t => t
  | .mixedState _ => []
  | .digits dim n dg => if dg then pow (digit dim) n else []   -- gates.py:151-152
  | .ket _ => []
  | .bra n => pow qubit n
  | .copy => [bit]
  | .match_ => [bit, bit]
  | .swap l r => [l, r]
  | .quantumGate n _ => pow qubit n
  | .controlled n => pow qubit n
  | .rotation n => pow qubit n
  | .classicalGate d _ _ => d
  | .scalar => []
  | .box d _ _ => d

def CBox.cod : CBox → Ty
  | .measure n d _ => measureCod n d
  | .encode n _ r => measureDom n r
  | .discard _ => []
  | .mixedState t => t
  | .digits dim n dg => if dg then [] else pow (digit dim) n
  | .ket n => pow qubit n
  | .bra _ => []
  | .copy => [bit, bit]
  | .match_ => [bit]
  | .swap l r => [r, l]
  | .quantumGate n _ => pow qubit n
  | .controlled n => pow qubit n
  | .rotation n => pow qubit n
  | .classicalGate _ c _ => c
  | .scalar => []
  | .box _ c _ => c

/-- The `dagger()` method of each class. -/
def CBox.dagger : CBox → CBox
  | .measure n d o => .encode n d o            -- circuit.py:755-758
  | .encode n c r => .measure n c r            -- circuit.py:785-788
  | .discard t => .mixedState t                -- circuit.py:703-704
  | .mixedState t => .discard t                -- circuit.py:722-723
  | .digits dim n dg => .digits dim n (!dg)    -- gates.py:179-180, 200-201
  | .ket n => .bra n                           -- gates.py:224-225
  | .bra n => .ket n                           -- gates.py:250-251
  | .copy => .match_                           -- gates.py:120-121
  | .match_ => .copy                           -- gates.py:131-132
  | .swap l r => .swap r l                     -- circuit.py:683-684
  | .quantumGate n dg => .quantumGate n dg.flipKeepNone      -- gates.py:42-45
  | .controlled n => .controlled n             -- gates.py:286-287
  | .rotation n => .rotation n                 -- gates.py:357-358
  | .classicalGate d c dg => .classicalGate c d dg.flipKeepNone   -- gates.py:96-99
  | .scalar => .scalar                         -- gates.py:518-520
  | .box d c dg => .box c d dg.flipKeepNone    -- circuit.py Box.dagger: `None` stays `None`, else cat.py:581-584

/-- The box as the generic model sees it: an opaque generator with this dom and cod. -/
def CBox.toBox (b : CBox) : Box := { name := "c", dom := b.dom, cod := b.cod }

/-- A layer of a circuit. -/
structure CLayer where
  left : Ty
  box : CBox
  right : Ty
  deriving DecidableEq, Repr, Inhabited

def CLayer.toLayer (l : CLayer) : Layer := ⟨l.left, l.box.toBox, l.right⟩
/-- monoidal.py:281-284 `Layer(left, box[::-1], right)` with the class's own dagger (cat.py:586-588). -/
def CLayer.dag (l : CLayer) : CLayer := { l with box := l.box.dagger }
/-- cat.py:216-221: the boxes of `layers[::-1]` — reversed, each one daggered, nothing re-scanned. -/
def cdagger (ls : List CLayer) : List CLayer := ls.reverse.map CLayer.dag

end DV.CB
