/-
  Model/ParamSeq.lean — SEQUENCES of parameter operations on one diagram (C14, C15 follow-up).

  Model/Param.lean keeps a diagram as its list of layers only.  monoidal.Diagram stores MORE
  (monoidal.py:334-357): `boxes`, `offsets` and `layers`, the layers holding the boxes a second
  time.  Different methods read different copies: `==`, `repr`, `free_symbols`, the functors read
  `boxes`/`offsets`; `subs` (476-479), `lambdify` (481-484), slicing (465-471), iteration
  (459-461), `str`, `tensor.Diagram.grad` (485-492) walk `layers`.  A result whose copies
  disagree is wrong only for the SECOND operation applied to it.  This file transcribes the
  redundant record and the operations as the code writes them, so that "the result of subs is
  again a diagram on which subs / lambdify / slicing mean what they mean on any diagram" is a
  statement about the model (Proofs/ParamSeq.lean, Props/C14.lean).
-/
import Model.Basic
import Model.Param

namespace DV.Param

def PLayer.dom {R} (l : PLayer R) : List Nat := l.left ++ l.box.dom ++ l.right
def PLayer.cod {R} (l : PLayer R) : List Nat := l.left ++ l.box.cod ++ l.right

/-- A diagram as monoidal.Diagram.__init__ stores it (monoidal.py:334-357). -/
structure RDiagram (R : Type) where
  dom : List Nat
  cod : List Nat
  boxes : List (PBox R)
  offsets : List Nat
  layers : List (PLayer R)

/-- `Diagram.id(dom)` (monoidal.py `Diagram.id` / `Id.__init__`: no boxes, no offsets, `layers = cat.Id(dom)`). -/
def RDiagram.id {R} (dom : List Nat) : RDiagram R :=
  { dom := dom, cod := dom, boxes := [], offsets := [], layers := [] }

/-- `Id(left) @ box @ Id(right)` (monoidal.tensor, 418-433, on `Id(left)`, the box, `Id(right)`:
    one box at offset `len(left)`, one layer `Layer(left, box, right)`). -/
def RDiagram.ofLayer {R} (l : PLayer R) : RDiagram R :=
  { dom := l.dom, cod := l.cod, boxes := [l.box], offsets := [l.left.length], layers := [l] }

/-- monoidal.Diagram.then (384-392): the three lists are concatenated SEPARATELY;
    `self.layers >> other.layers` is cat.Arrow.then, which raises AxiomError unless
    `self.cod == other.dom` (cat.py:311-312). -/
def RDiagram.thenOne {R} (a b : RDiagram R) : Except Err (RDiagram R) :=
  if a.cod = b.dom then
    .ok { dom := a.dom, cod := b.cod, boxes := a.boxes ++ b.boxes,
          offsets := a.offsets ++ b.offsets, layers := a.layers ++ b.layers }
  else .error .axiom

/-- `self.then(*others)` (cat.py:305-308): left to right. -/
def RDiagram.thenAll {R} (a : RDiagram R) : List (RDiagram R) → Except Err (RDiagram R)
  | [] => .ok a
  | b :: bs => match a.thenOne b with
    | .ok ab => RDiagram.thenAll ab bs
    | .error e => .error e

/-- monoidal.Diagram.subs (476-479):
    `self.id(self.dom).then(*(self.id(left) @ box.subs(*args) @ self.id(right)
                             for left, box, right in self.layers))`
    — it reads `self.layers` (and `self.dom`) only; cat.Box.subs (557-563) rebuilds the box with
    the same name, dom, cod, `_dagger` and substituted data (`PBox.mapData`). -/
def RDiagram.subs {R S} (f : R → S) (d : RDiagram R) : Except Err (RDiagram S) :=
  (RDiagram.id d.dom).thenAll (d.layers.map (fun l => RDiagram.ofLayer (l.mapData f)))

/-- monoidal.Diagram.lambdify (481-484), called on values: the same walk over `self.layers`
    with `box.lambdify(*symbols)(*xs)` (cat.Box.lambdify, 565-572: the box rebuilt with its data
    evaluated at the values — `ev`). -/
def RDiagram.lambdify {R K} (ev : R → K) (d : RDiagram R) : Except Err (RDiagram K) :=
  (RDiagram.id d.dom).thenAll (d.layers.map (fun l => RDiagram.ofLayer (l.mapData ev)))

/-- What every copy becomes when each box is rebuilt with `f` applied to its data. -/
def RDiagram.mapData {R S} (f : R → S) (d : RDiagram R) : RDiagram S :=
  { dom := d.dom, cod := d.cod, boxes := d.boxes.map (PBox.mapData f), offsets := d.offsets,
    layers := d.layers.map (PLayer.mapData f) }

/-- The layers `layers[i:j]` for Python indices `0 ≤ i`, `0 ≤ j`, no step. -/
def sliceL {α} (i j : Nat) (xs : List α) : List α := (xs.drop i).take (j - i)

/-- `d[i:j]` for non-negative `i`, `j` and no step (monoidal.py:465-471): the LAYERS are sliced
    (cat.Arrow.__getitem__, cat.py:228-238: an empty slice is the identity on `self.cod` when
    `i ≥ len`, else on the domain of layer `i`; a non-empty one runs from the domain of its first
    layer to the codomain of its last), boxes and offsets are read off the sliced layers. -/
def RDiagram.slice {R} (i j : Nat) (d : RDiagram R) : RDiagram R :=
  match sliceL i j d.layers with
  | [] =>
    if d.layers.length ≤ i then RDiagram.id d.cod
    else match d.layers[i]? with
      | some l => RDiagram.id l.dom
      | none => RDiagram.id d.cod
  | l :: ls =>
    { dom := l.dom, cod := ((l :: ls).getLast?.getD l).cod,
      boxes := (l :: ls).map (·.box), offsets := (l :: ls).map (·.left.length),
      layers := l :: ls }

/-- The layers compose: each starts where the previous one ends. -/
def Chained {R} : List Nat → List (PLayer R) → Prop
  | _, [] => True
  | t, l :: ls => t = l.dom ∧ Chained l.cod ls

def codAfter {R} : List Nat → List (PLayer R) → List Nat
  | t, [] => t
  | _, l :: ls => codAfter l.cod ls

/-- The copies agree (what `Diagram.__init__` establishes when it computes the layers itself,
    monoidal.py:343-355, and what every method passing `layers=` must keep). -/
structure RDiagram.Coherent {R} (d : RDiagram R) : Prop where
  boxes : d.boxes = d.layers.map (·.box)
  offsets : d.offsets = d.layers.map (·.left.length)
  chained : Chained d.dom d.layers
  cod : d.cod = codAfter d.dom d.layers

/-- Build the record from a domain and layers, the way `Diagram.__init__` does without `layers=`. -/
def RDiagram.ofLayers {R} (dom : List Nat) (ls : List (PLayer R)) : RDiagram R :=
  { dom := dom, cod := codAfter dom ls, boxes := ls.map (·.box),
    offsets := ls.map (·.left.length), layers := ls }

/-- Evaluation walks the layers (Model/Param.lean `evalLayers`). -/
def RDiagram.eval {R} [Add R] [Mul R] [Zero R] [One R] [HasConj R] (d : RDiagram R) : Mat R :=
  evalLayers d.layers

/-- Evaluation from the OTHER copy: boxes and offsets, wires recomputed by scanning
    (monoidal.Functor.__call__, monoidal.py:841-847, walks `diagram.boxes`/`offsets`). -/
def layersOfBoxes {R} : List Nat → List (PBox R) → List Nat → List (PLayer R)
  | scan, b :: bs, o :: os =>
    { left := scan.take o, box := b, right := scan.drop (o + b.dom.length) }
      :: layersOfBoxes (scan.take o ++ b.cod ++ scan.drop (o + b.dom.length)) bs os
  | _, _, _ => []

def RDiagram.evalBoxes {R} [Add R] [Mul R] [Zero R] [One R] [HasConj R] (d : RDiagram R) : Mat R :=
  evalLayers (layersOfBoxes d.dom d.boxes d.offsets)

/-- NOT the code: the result a `subs` would return if it substituted `boxes` and passed the OLD
    layers on (`Diagram(dom, cod, new_boxes, offsets, layers=self.layers)`); kept as the
    counter-model showing that `Coherent` of the result is a real demand (Props/C14.lean). -/
def RDiagram.subsKeepingLayers {R} (f : R → R) (d : RDiagram R) : RDiagram R :=
  { dom := d.dom, cod := d.cod, boxes := d.boxes.map (PBox.mapData f), offsets := d.offsets,
    layers := d.layers }

end DV.Param
