/-
  Model/TkSpec.lean — what `to_tk` has to achieve, stated on wire identities (core Lean only).

  * `canon`: run over the same layers as `toTk`, but give every qubit wire and every bit a fresh
    id at creation; each command acts on the ids of its input wires.  No registers, no renaming.
  * `PP.run`: a post-processing circuit on wire *values* (`reg r` = content of bit register `r`
    after the run, `out g p` = output `p` of the `g`-th classical box).
  * `Refines sp st`: the exported state `st` is `sp` up to an injective naming of ids by
    registers, its post-selection is the image of the specified one, and its post-processing,
    fed with the non-post-selected registers in increasing order (tk.py:122-130), computes the
    specified classical boxes on the specified inputs and delivers the diagram's bit wires in
    the diagram's order.
  * `violation`: the decidable conditions outside which `toTk` is *not* claimed to refine
    `canon`; each is a finding on /repo (see Props/C13.lean for the witnesses).
-/
import Model.Tk

namespace DV.Tk
open DV

/-- Content of a bit wire. -/
inductive BV where
  | reg (r : Nat)
  | out (g p : Nat)
  deriving DecidableEq, Repr, Inhabited

def BV.map (f : Nat → Nat) : BV → BV
  | .reg r => .reg (f r)
  | .out g p => .out g p

/-- A classical box that was applied: its name and the values it consumed. -/
abbrev CG := String × List BV

def CG.map (f : Nat → Nat) (c : CG) : CG := (c.1, c.2.map (BV.map f))

structure Sp where
  nq : Nat := 0                 -- qubit ids created so far
  nb : Nat := 0                 -- bit ids created so far
  qw : List Nat := []           -- ids of the qubit wires, left to right
  bw : List BV := []            -- values of the bit wires, left to right
  cmds : List Cmd := []
  ps : PS := []
  scal : List (Nat × Bool) := []
  cg : List CG := []
  deriving DecidableEq, Repr, Inhabited

/-- `xs[:off] + new + xs[off:]` -/
def insertAt {α} (xs : List α) (off : Nat) (new : List α) : List α := xs.take off ++ new ++ xs.drop off

/-- `xs[:off] + xs[off + n:]` -/
def removeAt {α} (xs : List α) (off n : Nat) : List α := xs.take off ++ xs.drop (off + n)

/-- exchange positions `off` and `off + 1` -/
def swapAt {α} (xs : List α) (off : Nat) : List α :=
  xs.take off ++ ((xs.drop off).take 2).reverse ++ xs.drop (off + 2)

def outs (g : Nat) (n : Nat) : List BV := (List.range n).map (BV.out g)

/-- Applying a classical box to bit wires. -/
def applyCG (cg : List CG) (bw : List BV) (name : String) (nin nout off : Nat) : List CG × List BV :=
  (cg ++ [(name, (bw.drop off).take nin)], bw.take off ++ outs cg.length nout ++ bw.drop (off + nin))

namespace Sp

def measureOne (sp : Sp) (lq lb j : Nat) : Except Err Sp :=
  match sp.qw[lq + j]? with
  | none => .error .index
  | some a => .ok { sp with nb := sp.nb + 1
                            cmds := sp.cmds ++ [⟨"Measure", none, [a], [sp.nb]⟩]
                            bw := insertAt sp.bw (lb + j) [.reg sp.nb] }

def measureLoop (sp : Sp) (lq lb : Nat) : List Nat → Except Err Sp
  | [] => .ok sp
  | j :: js => match measureOne sp lq lb j with
    | .error e => .error e
    | .ok sp' => measureLoop sp' lq lb js

def overrideLoop (sp : Sp) (lq lb : Nat) : List Nat → Except Err Sp
  | [] => .ok sp
  | j :: js => match sp.bw[lb + j]?, sp.qw[lq + j]? with
    | some (.reg b), some a =>
      overrideLoop { sp with cmds := sp.cmds ++ [⟨"Measure", none, [a], [b]⟩] } lq lb js
    | some (.out _ _), some _ => .error .notImpl     -- not a register: cannot be overwritten
    | _, _ => .error .index

def braOne (sp : Sp) (lq : Nat) (jv : Nat × Nat) : Except Err Sp :=
  match sp.qw[lq + jv.1]? with
  | none => .error .index
  | some a => .ok { sp with nb := sp.nb + 1
                            cmds := sp.cmds ++ [⟨"Measure", none, [a], [sp.nb]⟩]
                            ps := sp.ps.set sp.nb jv.2 }

def braLoop (sp : Sp) (lq : Nat) : List (Nat × Nat) → Except Err Sp
  | [] => .ok sp
  | jv :: js => match braOne sp lq jv with
    | .error e => .error e
    | .ok sp' => braLoop sp' lq js

def dropQubits (sp : Sp) (lq n : Nat) : Sp := { sp with qw := removeAt sp.qw lq n }

def addGate (sp : Sp) (box : TBox) (lq : Nat) : Except Err Sp :=
  match regsAt sp.qw lq (List.range box.dom.length) with
  | .error e => .error e
  | .ok qs => match gateOp box with
    | none => .error .notImpl
    | some (op, par) => .ok { sp with cmds := sp.cmds ++ [⟨op, par, qs, []⟩] }

def classical (sp : Sp) (name : String) (nin nout lb : Nat) : Except Err Sp :=
  if sp.bw.length < lb + nin then .error .axiom
  else .ok { sp with cg := (applyCG sp.cg sp.bw name nin nout lb).1
                     bw := (applyCG sp.cg sp.bw name nin nout lb).2 }

/-- One layer of the specification. -/
def step (sp : Sp) (lq lb : Nat) : TBox → Except Err Sp
  | .ket bs => .ok { sp with nq := sp.nq + bs.length
                             qw := insertAt sp.qw lq (List.range' sp.nq bs.length) }
  | .bits bs false =>
    if bs.contains 1 then .error .notImpl
    else .ok { sp with nb := sp.nb + bs.length
                       bw := insertAt sp.bw lb ((List.range' sp.nb bs.length).map .reg) }
  | .measure n de false => match measureLoop sp lq lb (List.range n) with
    | .error e => .error e
    | .ok sp' => .ok (if de then dropQubits sp' lq n else sp')
  | .measure n de true => match overrideLoop sp lq lb (List.range n) with
    | .error e => .error e
    | .ok sp' => .ok (if de then dropQubits sp' lq n else sp')
  | .bra bs => match braLoop sp lq (bs.zipIdx.map (fun p => (p.2, p.1))) with
    | .error e => .error e
    | .ok sp' => .ok (dropQubits sp' lq bs.length)
  | .discard t => .ok { sp with bw := removeAt sp.bw lb (countW .b t)
                                qw := removeAt sp.qw lq (countW .q t) }
  | .swap .q .q => if sp.qw.length < lq + 2 then .error .index else .ok { sp with qw := swapAt sp.qw lq }
  | .swap .b .b => if sp.bw.length < lb + 2 then .error .index else .ok { sp with bw := swapAt sp.bw lb }
  | .swap _ _ => .ok sp
  | .scalar k m => .ok { sp with scal := sp.scal ++ [(k, m)] }
  | .cgate name i o => classical sp name i o lb
  | .bits bs true => classical sp (bitsName bs) bs.length 0 lb
  | .rot cls num => addGate sp (.rot cls num) lq
  | .gate name n => addGate sp (.gate name n) lq
  | .other _ _ => .error .notImpl

def run : Sp → List W → Layers → Except Err Sp
  | sp, _, [] => .ok sp
  | sp, cur, (b, off) :: rest =>
    match step sp (countW .q (cur.take off)) (countW .b (cur.take off)) b with
    | .error e => .error e
    | .ok sp' => run sp' (applyBox cur b off) rest

end Sp

/-- The specification of `to_tk(c)`. -/
def canon (c : Circ) : Except Err Sp := Sp.run {} [] (prep c)

/-! ### post-processing on wire values -/

def PP.stepRun (s : List CG × List BV) (l : PBox × Nat) : List CG × List BV :=
  match l.1 with
  | .swap => (s.1, swapAt s.2 l.2)
  | .gate name i o => applyCG s.1 s.2 name i o l.2

/-- Run the boxes of a post-processing circuit on the input values `ws`. -/
def PP.run (pp : PP) (ws : List BV) : List CG × List BV := pp.layers.foldl PP.stepRun ([], ws)

/-! ### refinement -/

def InjBelow (f : Nat → Nat) (n m : Nat) : Prop :=
  (∀ a, a < n → f a < m) ∧ (∀ a b, a < n → b < n → f a = f b → a = b)

/-- The registers a backend's bitstring is read at after post-selection (tk.py:122-130): those
    not post-selected, in increasing order. -/
def IsReadout (st : St) (dreg : List Nat) : Prop :=
  dreg.Pairwise (· < ·) ∧ ∀ r, r ∈ dreg ↔ (r < st.nb ∧ st.ps.has r = false)

structure Refines (sp : Sp) (st : St) (ρq ρb : Nat → Nat) (dreg : List Nat) : Prop where
  nq : st.nq = sp.nq
  nb : st.nb = sp.nb
  injq : InjBelow ρq sp.nq st.nq
  injb : InjBelow ρb sp.nb st.nb
  cmds : st.cmds = sp.cmds.map (Cmd.map ρq ρb)
  qubits : st.qubits = sp.qw.map ρq
  ps : ∀ β, β < sp.nb → st.ps.get (ρb β) = sp.ps.get β
  scal : st.scal = sp.scal
  readout : IsReadout st dreg
  ppdom : st.pp.dom = dreg.length
  pp : st.pp.run (dreg.map .reg) = (sp.cg.map (CG.map ρb), sp.bw.map (BV.map ρb))

/-! ### excluding conditions -/

/-- The condition a layer violates, evaluated on the state before the layer (`none` = the layer
    is inside the fragment for which refinement is proved).  `lb` = bit wires to the left of the
    box, `nbw` = bit wires of the diagram at this depth (only used to tell apart, in the label,
    a `bits` list that is out of date from one that is not). -/
def violation (st : St) (lb nbw : Nat) : TBox → Option String
  | .bits _ false =>
    match startOf st.bits st.nb lb with
    | .error _ => none
    | .ok start =>
      if (List.range st.nb).any (fun r => start ≤ r && !st.ps.has r) then
        some (if st.bits.length = nbw then "bits_left_of_bit" else "stale_bits")
      else none
  | .measure _ _ true => if !st.pp.layers.isEmpty then some "override_after_pp" else none
  | .discard t => if countW .b t ≠ 0 then some "discard_bit" else none
  | _ => none

/-- First violated condition with the index of its layer, along the run of the model. -/
def firstViolation : St → List W → Layers → Nat → Option (String × Nat)
  | _, _, [], _ => none
  | st, cur, (b, off) :: rest, i =>
    match violation st (countW .b (cur.take off)) (countW .b cur) b with
    | some v => some (v, i)
    | none =>
      match step st (countW .q (cur.take off)) (countW .b (cur.take off)) b with
      | .error _ => none
      | .ok st' => firstViolation st' (applyBox cur b off) rest (i + 1)

def Circ.firstViolation (c : Circ) : Option (String × Nat) := Tk.firstViolation {} [] (prep c) 0

/-- Inside the fragment. -/
def Circ.clean (c : Circ) : Bool := c.firstViolation.isNone

end DV.Tk
