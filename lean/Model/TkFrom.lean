/-
  Model/TkFrom.lean — discopy/quantum/tk.py `from_tk.make_units_adjacent` (lines 289-308),
  transcribed as it is after fix F30 (core Lean only).  All wires are single wires, so a swap diagram is the list
  of the offsets of its SWAP boxes (monoidal.py:487-514: `Id.swap(one wire, k wires)` = SWAP boxes
  at relative offsets 0 … k-1).
-/
import Model.TkSpec

namespace DV.Tk

/-- The loop of tk.py:292-307 over `tk_gate.qubits[1:]`: current `offset`, loop index `i`, the
    remaining unit indices, the offsets of the SWAP boxes composed so far. -/
def muaLoop : Nat → Nat → List Nat → List Nat → Nat × List Nat
  | offset, _, [], acc => (offset, acc)
  | offset, i, source :: rest, acc =>
    if source < offset + i + 1 then
      -- tk.py:294-299  Id(cod[:source]) @ Id.swap(cod[source:source+1], cod[source+1:target]) @ …
      muaLoop (if source ≤ offset then offset - 1 else offset) (i + 1) rest
        (acc ++ List.range' source (offset + i + 1 - 1 - source))
    else if source > offset + i + 1 then
      -- tk.py:300-304 with fix F30  Id(cod[:target]) @ Id.swap(cod[target:source], cod[source:source+1]) @ …
      -- (several wires past one: SWAP boxes at source-1, …, target, monoidal.py:513-514)
      muaLoop offset (i + 1) rest
        (acc ++ (List.range' (offset + i + 1) (source - (offset + i + 1))).reverse)
    else muaLoop offset (i + 1) rest acc          -- tk.py:305-306

/-- `make_units_adjacent(tk_gate)` for a gate on the units `qs`: the offset at which the box is
    placed and the SWAP offsets of `swaps`. -/
def makeUnitsAdjacent (qs : List Nat) : Nat × List Nat :=
  match qs with
  | [] => (0, [])
  | q0 :: rest => muaLoop q0 0 rest []

/-- Where every wire sits after the swaps. -/
def arrangement (n : Nat) (swaps : List Nat) : List Nat := swaps.foldl swapAt (List.range n)

/-- What the swaps have to achieve: the gate's units, in order, at consecutive positions
    starting at the returned offset. -/
def adjacentOK (n : Nat) (qs : List Nat) : Bool :=
  ((arrangement n (makeUnitsAdjacent qs).2).drop (makeUnitsAdjacent qs).1).take qs.length == qs

/-- All two-unit gates on `n` wires for which the swaps are right / wrong. -/
def pairsWhere (n : Nat) (ok : Bool) : List (Nat × Nat) :=
  ((List.range n).flatMap fun a => (List.range n).map fun b => (a, b)).filter
    fun p => p.1 ≠ p.2 && adjacentOK n [p.1, p.2] == ok

end DV.Tk
