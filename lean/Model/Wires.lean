/-
  Model/Wires.lean — the specification side of C10: following wires through a diagram that
  consists of swap boxes only.  Core Lean only.

  `wirePerm d = some w` means: `d` is made of adjacent swaps only (every box is a `Swap` of two
  atomic types, every offset lies inside the diagram) and the wire entering at input position
  `i` leaves at output position `w[i]`.  It reads the public `boxes`/`offsets` fields only
  (not `layers`), exactly as an outside observer of a `discopy` diagram would.

  Also here: `Diagram.permute` (monoidal.py:550-564), a one-line wrapper over `permutation`.
-/
import Model.Diagram

namespace DV

/-- `b` is `Swap(Ty(l), Ty(r))` for two atomic types (monoidal.py:716-735). -/
def Box.isSwap (b : Box) : Bool :=
  match b.dom with
  | [l, r] => b == Box.swap l r
  | _ => false

/-- Every box of the diagram is a swap of two atomic types. -/
def Diagram.allSwaps (d : Diagram) : Bool := d.boxes.all Box.isSwap

/-- A swap box at offset `o` exchanges positions `o` and `o + 1`; every other wire stays. -/
def stepPos (o p : Nat) : Nat := if p = o then o + 1 else if p = o + 1 then o else p

/-- Follow the wire at position `p` through swaps at the listed offsets (top to bottom). -/
def traceWire (offs : List Nat) (p : Nat) : Nat := offs.foldl (fun q o => stepPos o q) p

/-- Every offset leaves room for a two-wire box inside a diagram of width `n`. -/
def offsetsInRange (n : Nat) (os : List Int) : Bool :=
  os.all (fun o => decide (0 ≤ o) && decide (o + 2 ≤ (n : Int)))

def Diagram.natOffsets (d : Diagram) : List Nat := d.offsets.map Int.toNat

/-- The diagram is an adjacent-swap network on `d.dom.length` wires. -/
def Diagram.swapNetwork (d : Diagram) : Bool :=
  d.allSwaps && (d.boxes.length == d.offsets.length) && offsetsInRange d.dom.length d.offsets

/-- For each input position its output position; `none` unless the diagram is a swap network. -/
def wirePerm (d : Diagram) : Option (List Nat) :=
  if d.swapNetwork then some ((List.range d.dom.length).map (traceWire d.natOffsets))
  else none

/-- Where the block exchange `a | b ↦ b | a` sends position `p`. -/
def blockExch (a b p : Nat) : Nat := if p < a then b + p else if p < a + b then p - a else p

/-- `d.permute(*perm)`, monoidal.py:550-564: `self >> self.permutation(list(perm), self.dom)`
    (the argument is evaluated first; note it is built on `self.dom`, as the docstring says). -/
def Diagram.permute (d : Diagram) (perm : List Int) : Except Err Diagram :=
  match Diagram.permutation perm d.dom with
  | .error e => .error e
  | .ok s => d.then s

end DV
