/-
  Model/Downgrade.lean — `downgrade()` of the free categories (C03: values DERIVED from other
  values must still be `==`-, hash- and print-coherent).  Core Lean only.

  Mirrors:
  * monoidal.py:161-163  `Ty.downgrade`: `Ty(*self)` — the OBJECTS are kept as they are (a
    downgraded `rigid.Ty` is a `monoidal.Ty` holding `rigid.Ob`s with their winding numbers), so
    on the model's `Ty = List Ob` it is the identity; what changes is the class and with it the
    printed form: `monoidal.Ty.__repr__` (monoidal.py:170-171) prints the names only
    (`reprTTyMonoidal`).
  * monoidal.py:684-693  `Box.downgrade`: a plain `monoidal.Box` receiving a copy of the whole
    `__dict__` of the box (name, data, dagger flag, …) with `dom`, `cod` downgraded.  A generic
    box keeps its fields; a `Swap` / `Cup` / `Cap` becomes the GENERIC box that carries the name
    those classes derive in their constructors from `str(left)`, `str(right)` (monoidal.py:726,
    rigid.py:348, 381) and from then on prints, compares, hashes and daggers as a generic box
    (cat.py:571-591).
  * monoidal.py:328-332  `Diagram.downgrade`: the scanning public constructor applied to the
    downgraded boxes.
  * cat.py:109-110, rigid.py:68-70 `Ob.__str__`; monoidal.py:173-174 `Ty.__str__`.

  The model stores `repr(name)` as an opaque token; `str(name)` is recovered from it for the
  names in the assumed domain (identifier-like strings: strip the quotes; ints: unchanged).
-/
import Model.Repr

namespace DV

/-! ### `str` of names, objects, types -/

/-- `'abc'` ↦ `abc`; anything that is not single-quoted is left alone (ints). -/
def stripQuotes (cs : List Char) : List Char :=
  match cs with
  | '\'' :: rest => if rest.getLast? = some '\'' then rest.dropLast else cs
  | _ => cs

/-- `str(name)` from the token `repr(name)`. -/
def strOfReprTok (t : String) : String := String.ofList (stripQuotes t.toList)

/-- `n * s` for a Python string. -/
def strTimes (n : Nat) (s : String) : String := String.join (List.replicate n s)

/-- rigid.py:68-70: `str(name) + (-z * '.l' if z < 0 else z * '.r')`; cat.py:109-110 at `z = 0`. -/
def strOb (x : Ob) : String :=
  strOfReprTok x.name ++ (if x.z < 0 then strTimes (-x.z).toNat ".l" else strTimes x.z.toNat ".r")

/-- monoidal.py:173-174: `' @ '.join(map(str, objects)) or 'Ty()'`. -/
def strTy (t : Ty) : String :=
  match t with
  | [] => "Ty()"
  | _ :: _ => " @ ".intercalate (t.map strOb)

/-- `repr(s)` of a Python `str` without quotes or backslashes in it. -/
def reprStr (s : String) : String := "'" ++ s ++ "'"

/-- The name token of `Swap(left, right)` & co: `repr("Swap({}, {})".format(left, right))`. -/
def derivedName (cls : String) (l r : Ty) : String :=
  reprStr (cls ++ "(" ++ strTy l ++ ", " ++ strTy r ++ ")")

/-! ### downgrade -/

/-- `box.downgrade()`, monoidal.py:684-693. -/
def Box.downgrade (b : Box) : Box :=
  match b.kind with
  | .gen => b
  | .swap => { b with kind := .gen, name := derivedName "Swap" (b.dom.take 1) (b.dom.drop 1) }
  | .cup => { b with kind := .gen, name := derivedName "Cup" (b.dom.take 1) (b.dom.drop 1) }
  | .cap => { b with kind := .gen, name := derivedName "Cap" (b.cod.take 1) (b.cod.drop 1) }

/-- `diagram.downgrade()`, monoidal.py:328-332 (through the scanning constructor). -/
def Diagram.downgrade (d : Diagram) : Except Err Diagram :=
  Diagram.mk? d.dom d.cod (d.boxes.map Box.downgrade) d.offsets

/-! ### The printed form of `monoidal` values (types print their names only) -/

def reprTGenArgsM (name : String) (dom cod : Ty) (data : String) : List RT :=
  [.tok name, reprTTyMonoidal dom, reprTTyMonoidal cod] ++ reprTData data

/-- `repr(box)` for boxes on `monoidal.Ty`: cat.py:586-591, monoidal.py:731-732.  (Cups and caps
    do not exist on `monoidal.Ty`; printed like their rigid forms for totality.) -/
def reprTBoxM (b : Box) : RT :=
  match b.kind with
  | .gen =>
    if b.dagger then .callm "Box" (reprTGenArgsM b.name b.cod b.dom b.data) "dagger"
    else .call "Box" (reprTGenArgsM b.name b.dom b.cod b.data)
  | .swap => .call "Swap" [reprTTyMonoidal (b.dom.take 1), reprTTyMonoidal (b.dom.drop 1)]
  | .cup => .call "Cup" [reprTTyMonoidal (b.dom.take 1), reprTTyMonoidal (b.dom.drop 1)]
  | .cap => .call "Cap" [reprTTyMonoidal (b.cod.take 1), reprTTyMonoidal (b.cod.drop 1)]

def reprTFullM (d : Diagram) : RT :=
  .call "Diagram" [.kw "dom" (reprTTyMonoidal d.dom), .kw "cod" (reprTTyMonoidal d.cod),
    .kw "boxes" (.list (d.boxes.map reprTBoxM)), .kw "offsets" (.list (d.offsets.map RT.int))]

/-- `repr(diagram)` for a `monoidal.Diagram` on `monoidal.Ty`, monoidal.py:444-451. -/
def reprTDiagramM (d : Diagram) : RT :=
  match d.boxes with
  | [] => .call "Id" [reprTTyMonoidal d.dom]
  | [b] => if d.dom = b.dom then reprTBoxM b else reprTFullM d
  | _ :: _ :: _ => reprTFullM d

def reprBoxM (b : Box) : String := (reprTBoxM b).render
def reprDiagramM (d : Diagram) : String := (reprTDiagramM d).render

/-! ### Operation chains on derived values (driver) -/

/-- What is done to a value after it was built: `g` = `.downgrade()`, `d` = `[::-1]`. -/
inductive HOp where
  | downgrade | dagger
  deriving DecidableEq, Repr, Inhabited

def HOp.apply : HOp → Diagram → Except Err Diagram
  | .downgrade, d => d.downgrade
  | .dagger, d => .ok d.dagger

def applyOps : List HOp → Diagram → Except Err Diagram
  | [], d => .ok d
  | op :: ops, d => match op.apply d with
    | .error e => .error e
    | .ok d' => applyOps ops d'

end DV
