/-
  Model/ParamXSyms.lean — free symbols and substitution on tensor diagrams WITH BUBBLES (C14),
  on the boxes `XBox` of Model/Param.lean part 2b, transcribed from /repo/discopy:

    * cat.Arrow.free_symbols     cat.py:380-390   `{x for box in self.boxes for x in box.free_symbols}`
                                                  — asks every box through its PUBLIC property
    * cat.Box.free_symbols       cat.py:563-565   returns the attribute `_free_symbols`, collected
                                                  once by `Box.__init__` (cat.py:509-520) from `data`
    * tensor.Bubble.free_symbols tensor.py:699-701 OVERRIDES the property: `self.inside.free_symbols`
                                                  (a bubble is built with no data, cat.py:745: its
                                                  own `_free_symbols` is empty)
    * tensor.Bubble.subs         tensor.py:703-706 the same bubble (function, dom, cod) around
                                                  `inside.subs(*args)`
    * tensor.Bubble.lambdify     tensor.py:708-711 likewise around `inside.lambdify(...)(*xs)`

  `XBox.cachedSymbols` transcribes the ATTRIBUTE (what a walk reading `box._free_symbols` instead
  of `box.free_symbols` would collect); Props/C14.lean shows on a concrete diagram that it is not
  the set of free symbols.  Core Lean only.
-/
import Model.Param

namespace DV.Param

/-- `box.free_symbols` for each kind of box: cat.Box (563-565) for plain boxes, the override of
    tensor.Bubble (699-701) for bubbles; a term of `Bubble.grad` holds two diagrams. -/
def XBox.freeSymbols {R} (fs : R → List Nat) : XBox R → List Nat
  | .plain b => b.freeSymbols fs
  | .bubble _ _ _ inside => freeSymbolsL fs inside
  | .chain _ _ _ inside term => unionNat (freeSymbolsL fs inside) (freeSymbolsL fs term)

/-- cat.Arrow.free_symbols (380-390) on a diagram that may contain bubbles: the union over the
    boxes of what each REPORTS. -/
def xfreeSymbolsL {R} (fs : R → List Nat) (ls : List (XLayer R)) : List Nat :=
  ls.foldr (fun l acc => unionNat (l.box.freeSymbols fs) acc) []

/-- The attribute `_free_symbols` set by cat.Box.__init__ (509-520) from the box's own `data`;
    a bubble has none (cat.py:745 `Box.__init__(self, "Bubble", dom, cod)`). -/
def XBox.cachedSymbols {R} (fs : R → List Nat) : XBox R → List Nat
  | .plain b => b.freeSymbols fs
  | .bubble _ _ _ _ => []
  | .chain _ _ _ _ _ => []

/-- The walk that unions the cached attributes of the boxes (NOT what the code does). -/
def xcachedSymbolsL {R} (fs : R → List Nat) (ls : List (XLayer R)) : List Nat :=
  ls.foldr (fun l acc => unionNat (l.box.cachedSymbols fs) acc) []

/-- `box.subs(...)` as a map on the entries: cat.Box.subs (567-573) rebuilds a plain box around the
    mapped data; tensor.Bubble.subs (703-706) rebuilds the bubble — same function, dom, cod —
    around the substituted inside. -/
def XBox.mapData {R S} (f : R → S) : XBox R → XBox S
  | .plain b => .plain (b.mapData f)
  | .bubble dom cod func inside => .bubble dom cod func (inside.map (PLayer.mapData f))
  | .chain dom cod func inside term =>
    .chain dom cod func (inside.map (PLayer.mapData f)) (term.map (PLayer.mapData f))

/-- monoidal.Diagram.subs (476-479) layer by layer. -/
def XLayer.mapData {R S} (f : R → S) (l : XLayer R) : XLayer S :=
  { left := l.left, box := l.box.mapData f, right := l.right }

/-- The parameters of the boxes, bubbles opened: the entries of the data of a plain box, of the
    boxes inside a bubble. -/
def XBox.params {R} : XBox R → List R
  | .plain b => b.data
  | .bubble _ _ _ inside => inside.flatMap (fun l => l.box.data)
  | .chain _ _ _ inside term => inside.flatMap (fun l => l.box.data) ++ term.flatMap (fun l => l.box.data)

def xparams {R} (ls : List (XLayer R)) : List R := ls.flatMap (fun l => l.box.params)

end DV.Param
