/-
  Model/Repr.lean — the `__repr__` methods of the free categories as functions to `String`.
  Core Lean only.

  Mirrors: cat.py:101-102 (`Ob`), rigid.py:64-66 (`Ob` with winding number), monoidal.py:170-171
  and rigid.py:106-108 (`Ty`), cat.py:586-591 (`Box`, incl. the `.dagger()` suffix and `data=`),
  monoidal.py:731-732 (`Swap`), rigid.py:353-354 / 386-387 (`Cup`, `Cap`), cat.py:460-461 (`Id`),
  monoidal.py:444-451 (`Diagram`, with its two short-cuts), cat.py:660-661, 675-676 (`Sum`).

  The model stores for every name and every `data` payload the Python `repr` of that value as
  an opaque token (`Ob.name`, `Box.name`, `Box.data`; `data = "-"` stands for `None`), so the
  functions below only assemble constructor syntax around those tokens.

  The printed form is produced in two steps: `reprT…` builds the *syntax tree* of the printed
  expression (`RT`), `RT.render` flattens it to the string Python prints.  Theorems about what
  the printed form determines (Proofs/Eq.lean) are stated on the tree; the string is what the
  driver command `repr` returns and what is compared with the real `repr(v)`.

  Every `__hash__` in scope is `hash(repr(self))` (monoidal.py:168, 453, 709; cat.py:252, 598,
  672) except `cat.Ob` (`hash(name)`, cat.py:112) and `rigid.Ob` (`hash(name)` or
  `hash((name, z))`, rigid.py:61-62), which hash exactly the fields `==` compares.
-/
import Model.Sum

namespace DV

/-- Syntax tree of a printed constructor expression.  Integer literals (winding numbers,
    offsets) are `tok (toString i)`. -/
inductive RT where
  | tok (s : String)                                  -- opaque Python repr of a name / `data`, or an int
  | call (fn : String) (args : List RT)               -- `fn(a, b, …)`
  | kw (key : String) (v : RT)                        -- `key=v` (only as an argument)
  | list (xs : List RT)                               -- `[a, b, …]`
  | callm (fn : String) (args : List RT) (m : String) -- `fn(a, b, …).m()`
  deriving Repr, Inhabited

/-- A Python int literal. -/
def RT.int (i : Int) : RT := .tok (toString i)

mutual
/-- Flatten to the string Python prints. -/
def RT.render : RT → String
  | .tok s => s
  | .call fn args => fn ++ "(" ++ RT.renderArgs args ++ ")"
  | .kw key v => key ++ "=" ++ v.render
  | .list xs => "[" ++ RT.renderArgs xs ++ "]"
  | .callm fn args m => fn ++ "(" ++ RT.renderArgs args ++ ")." ++ m ++ "()"
/-- `', '.join(map(render, xs))` -/
def RT.renderArgs : List RT → String
  | [] => ""
  | [x] => x.render
  | x :: y :: r => x.render ++ ", " ++ RT.renderArgs (y :: r)
end

/-! ### Objects and types -/

/-- `repr(ob)`: cat.py:101-102 `Ob('x')`; rigid.py:64-66 `Ob('x', z=1)` (the `z` part only
    when `z != 0`, so both classes print alike at `z = 0`). -/
def reprTOb (x : Ob) : RT :=
  if x.z = 0 then .call "Ob" [.tok x.name] else .call "Ob" [.tok x.name, .kw "z" (.int x.z)]

/-- One entry of `repr(ty)` in `rigid`: `repr(x if x.z else x.name)`, rigid.py:107. -/
def reprTTyEntry (x : Ob) : RT := if x.z = 0 then .tok x.name else reprTOb x

/-- `repr(ty)` for `rigid.Ty`, rigid.py:106-108. -/
def reprTTy (t : Ty) : RT := .call "Ty" (t.map reprTTyEntry)

/-- `repr(ty)` for `monoidal.Ty`, monoidal.py:170-171: names only. -/
def reprTTyMonoidal (t : Ty) : RT := .call "Ty" (t.map (fun x => RT.tok x.name))

/-! ### Boxes -/

/-- The optional `, data=…` argument of cat.py:591. -/
def reprTData (data : String) : List RT := if data = "-" then [] else [.kw "data" (.tok data)]

/-- cat.py:589-591: the arguments of `Box(name, dom, cod[, data=…])`. -/
def reprTGenArgs (name : String) (dom cod : Ty) (data : String) : List RT :=
  [.tok name, reprTTy dom, reprTTy cod] ++ reprTData data

/-- `repr(box)`.
    * `gen`: cat.py:586-591 — a daggered box prints as `repr(self.dagger()) + ".dagger()"`,
      i.e. the un-daggered box with `dom`/`cod` exchanged.
    * `swap`: monoidal.py:731-732 `Swap(left, right)` with `dom = left @ right` (both of length 1).
    * `cup`: rigid.py:353-354 `Cup(left, right)`, `dom = left @ right`.
    * `cap`: rigid.py:386-387 `Cap(left, right)`, `cod = left @ right`. -/
def reprTBox (b : Box) : RT :=
  match b.kind with
  | .gen =>
    if b.dagger then .callm "Box" (reprTGenArgs b.name b.cod b.dom b.data) "dagger"
    else .call "Box" (reprTGenArgs b.name b.dom b.cod b.data)
  | .swap => .call "Swap" [reprTTy (b.dom.take 1), reprTTy (b.dom.drop 1)]
  | .cup => .call "Cup" [reprTTy (b.dom.take 1), reprTTy (b.dom.drop 1)]
  | .cap => .call "Cap" [reprTTy (b.cod.take 1), reprTTy (b.cod.drop 1)]

/-! ### Diagrams -/

/-- monoidal.py:449-451: the general form. -/
def reprTFull (d : Diagram) : RT :=
  .call "Diagram" [.kw "dom" (reprTTy d.dom), .kw "cod" (reprTTy d.cod),
    .kw "boxes" (.list (d.boxes.map reprTBox)), .kw "offsets" (.list (d.offsets.map RT.int))]

/-- `repr(diagram)`, monoidal.py:444-451: an identity prints as `Id(dom)` (cat.py:460), a
    one-box diagram whose domain is the box's domain prints as the box. -/
def reprTDiagram (d : Diagram) : RT :=
  match d.boxes with
  | [] => .call "Id" [reprTTy d.dom]
  | [b] => if d.dom = b.dom then reprTBox b else reprTFull d
  | _ :: _ :: _ => reprTFull d

/-- `repr(sum)`, cat.py:660-661: `Sum([t1, …])`, or `Sum([], dom=…, cod=…)` when empty. -/
def reprTSum (s : Sum) : RT :=
  match s.terms with
  | [] => .call "Sum" [.list [], .kw "dom" (reprTTy s.dom), .kw "cod" (reprTTy s.cod)]
  | t :: ts => .call "Sum" [.list ((t :: ts).map reprTDiagram)]

/-! ### The asymmetric `Box.__eq__` -/

/-- `Box.__eq__(box, diagram)`, monoidal.py:701-707, for a `diagram` that is not itself a `Box`
    instance: one box, equal to `self`, same `dom` and `cod` (offsets are NOT compared).
    Python evaluates `diagram == box` through the same method, because `Box` is a subclass of
    `Diagram` and the reflected `__eq__` of the subclass has priority. -/
def Box.eqvDiagram (b : Box) (d : Diagram) : Bool :=
  d.boxes.length == 1 && d.boxes[0]? == some b && d.dom == b.dom && d.cod == b.cod

/-! ### Strings -/

def reprOb (x : Ob) : String := (reprTOb x).render
def reprTy (t : Ty) : String := (reprTTy t).render
def reprTyMonoidal (t : Ty) : String := (reprTTyMonoidal t).render
def reprBox (b : Box) : String := (reprTBox b).render
def reprDiagram (d : Diagram) : String := (reprTDiagram d).render
def reprSum (s : Sum) : String := (reprTSum s).render

end DV
