/-
  Model/Spiders.lean — `MatBackend.draw_spiders` (discopy/drawing.py:438-453): which boxes are
  drawn as spiders by the matplotlib back-end, in which calls of `nx.draw_networkx_nodes`, with
  which shape and colours.  Core Lean only.

      nodes = {node for node in graph.nodes
               if node.kind == "box" and node.box.draw_as_spider}            -- 439-440
      shapes = {node: node.box.shape for node in nodes}                      -- 441
      for shape in set(shapes.values()):                                     -- 442
          colors = {n: n.box.color for n, s in shapes.items() if s == shape} -- 443
          nodes, colors = zip(*colors.items())                               -- 444 (ValueError if empty)
          nx.draw_networkx_nodes(graph, positions, nodelist=nodes,
              node_color=[COLORS[color] for color in colors],
              node_shape=SHAPES[shape], ...)                                 -- 445-449

  A graph node of kind "box" is identified by its depth (box nodes of one graph differ in
  `depth`); `shape` and `color` range over the documented values (monoidal.Box docstring:
  shape one of "circle", "rectangle"; colour one of the six names of `drawing.COLORS`) — other
  strings are a KeyError in `SHAPES[..]` / `COLORS[..]` and outside this model.  The iteration
  order of a Python set / of a dict keyed by hashed `repr` strings is unspecified: the model
  uses list order and every theorem about it is order-free (membership, permutation, Nodup);
  the driver prints sorted.
-/
import Model.Basic

namespace DV.Spiders
open DV

inductive Shape where
  | circle | rectangle
  deriving DecidableEq, Repr, Inhabited

inductive Color where
  | white | red | green | blue | yellow | black
  deriving DecidableEq, Repr, Inhabited

/-- What `draw_spiders` reads of a graph node of kind "box". -/
structure BoxNode where
  depth : Nat
  spider : Bool      -- node.box.draw_as_spider
  shape : Shape      -- node.box.shape
  color : Color      -- node.box.color
  deriving DecidableEq, Repr, Inhabited

/-- drawing.py:439-440 — the set comprehension (graph nodes are distinct). -/
def spiderNodes (g : List BoxNode) : List BoxNode := g.filter (fun n => n.spider)

/-- Python `set(xs)`: every element once. -/
def pySet : List Shape → List Shape
  | [] => []
  | x :: xs => if x ∈ pySet xs then pySet xs else x :: pySet xs

/-- drawing.py:441-442 — `set(shapes.values())`. -/
def shapesOf (ns : List BoxNode) : List Shape := pySet (ns.map (fun n => n.shape))

/-- drawing.py:443 — the keys of `colors` (each with its own colour `n.box.color`). -/
def colorsOf (ns : List BoxNode) (s : Shape) : List BoxNode := ns.filter (fun n => n.shape == s)

/-- One call of `nx.draw_networkx_nodes`: `node_shape` and `nodelist` (`node_color` is the list
    of the nodes' own colours, position by position). -/
structure Call where
  shape : Shape
  nodelist : List BoxNode
  deriving DecidableEq, Repr

/-- drawing.py:443-449 — one iteration of the loop; `zip(*{}.items())` unpacks nothing:
    `ValueError: not enough values to unpack`. -/
def drawCall (ns : List BoxNode) (s : Shape) : Except Err Call :=
  if (colorsOf ns s).isEmpty then .error .value else .ok ⟨s, colorsOf ns s⟩

/-- drawing.py:442-449 — the loop over the shapes. -/
def drawCalls (ns : List BoxNode) : List Shape → Except Err (List Call)
  | [] => .ok []
  | s :: ss =>
    match drawCall ns s with
    | .error e => .error e
    | .ok c =>
      match drawCalls ns ss with
      | .error e => .error e
      | .ok cs => .ok (c :: cs)

/-- `MatBackend.draw_spiders`: the calls of `nx.draw_networkx_nodes` it makes. -/
def matSpiders (g : List BoxNode) : Except Err (List Call) :=
  drawCalls (spiderNodes g) (shapesOf (spiderNodes g))

/-- The calls, written out (what `matSpiders` returns: `Proofs.Spiders.matSpiders_eq`). -/
def calls (g : List BoxNode) : List Call :=
  (shapesOf (spiderNodes g)).map (fun s => ⟨s, colorsOf (spiderNodes g) s⟩)

end DV.Spiders
