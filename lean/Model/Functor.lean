/-
  Model/Functor.lean — cat.py:832-847, monoidal.py:827-846, rigid.py:417-439: application of a
  (free / monoidal / rigid) functor whose target is the free category itself.
-/
import Model.Diagram

namespace DV

/-- `ob`: image of the object *named* `n` (winding number 0); `ar`: image of each undaggered
    generator box.  A missing key is a Python `KeyError` (model: `.value`). -/
structure Functor where
  ob : List (String × Ty)
  ar : List (Box × Diagram)

def iterate {α} (f : α → α) : Nat → α → α
  | 0, x => x
  | n+1, x => iterate f n (f x)

/-- rigid.py:419-429 (`adjoint`): look the name up at `z = 0`, then take `.l` / `.r` `|z|` times. -/
def Functor.ob1 (F : Functor) (o : Ob) : Except Err Ty :=
  match F.ob.lookup o.name with
  | none => .error .value
  | some t =>
    if o.z < 0 then .ok (iterate Ty.l (-o.z).toNat t)
    else .ok (iterate Ty.r o.z.toNat t)

/-- monoidal.py:830-832 / rigid.py:430. -/
def Functor.ty (F : Functor) : Ty → Except Err Ty
  | [] => .ok []
  | o :: os => match F.ob1 o with
    | .error e => .error e
    | .ok t => match F.ty os with
      | .error e => .error e
      | .ok ts => .ok (t ++ ts)

def Functor.arLookup (F : Functor) (b : Box) : Except Err Diagram :=
  match F.ar.find? (fun p => p.1 == b) with
  | some p => .ok p.2
  | none => .error .value

/-- Image of one box: Swap → `swap`, Cup → `cups`, Cap → `caps`, daggered box → dagger of the
    image of its dagger (cat.py:842-844). -/
def Functor.box (F : Functor) (b : Box) : Except Err Diagram :=
  match b.kind with
  | .swap =>
    match F.ty (b.dom.take 1), F.ty (b.dom.drop 1) with
    | .ok l, .ok r => Diagram.swap l r
    | .error e, _ => .error e
    | _, .error e => .error e
  | .cup =>
    match F.ty (b.dom.take 1), F.ty (b.dom.drop 1) with
    | .ok l, .ok r => Diagram.cups l r
    | .error e, _ => .error e
    | _, .error e => .error e
  | .cap =>
    match F.ty (b.cod.take 1), F.ty (b.cod.drop 1) with
    | .ok l, .ok r => Diagram.caps l r
    | .error e, _ => .error e
    | _, .error e => .error e
  | .gen =>
    if b.dagger then
      match F.arLookup b.dag with
      | .error e => .error e
      | .ok x => .ok x.dagger
    else F.arLookup b

/-- One iteration of monoidal.py:840-844. -/
def Functor.stepBox (F : Functor) (scan : Ty) (result : Diagram) (b : Box) (off : Int) :
    Except Err (Ty × Diagram) :=
  match F.ty (pySlice scan none (some off)),
        F.ty (pySlice scan (some (off + b.dom.length)) none), F.box b with
  | .ok l, .ok r, .ok x =>
    match (Diagram.id l).tensor x with
    | .error e => .error e
    | .ok lx => match lx.tensor (Diagram.id r) with
      | .error e => .error e
      | .ok layer => match result.then layer with
        | .error e => .error e
        | .ok res =>
          .ok (pySlice scan none (some off) ++ b.cod ++ pySlice scan (some (off + b.dom.length)) none, res)
  | .error e, _, _ => .error e
  | _, .error e, _ => .error e
  | _, _, .error e => .error e

def Functor.loop (F : Functor) : Ty → Diagram → List Box → List Int → Except Err Diagram
  | scan, result, b :: bs, o :: os =>
    match F.stepBox scan result b o with
    | .error e => .error e
    | .ok (scan', res) => F.loop scan' res bs os
  | _, result, _, _ => .ok result

/-- `F(diagram)`, monoidal.py:838-845. -/
def Functor.apply (F : Functor) (d : Diagram) : Except Err Diagram :=
  match F.ty d.dom with
  | .error e => .error e
  | .ok t => F.loop d.dom (Diagram.id t) d.boxes d.offsets

/-! ### Re-indexing of slice bounds (specification helper of the C04 slice law, not code in /repo)

   `F(d[i:j]) == F(d)[i':j']` with `i' = Σ_{k<i} len(F(d.boxes[k]).boxes)`: the harness computes the
   same numbers as `lens = [len(F(bx).boxes) for bx in d.boxes]; sum(lens[:i])`. -/

/-- Number of boxes of the image of one box (`0` if the image raises). -/
def Functor.boxLen (F : Functor) (b : Box) : Nat :=
  match F.box b with
  | .ok x => x.boxes.length
  | .error _ => 0

/-- `sum(len(F(b).boxes) for b in boxes[:k])`. -/
def Functor.imgIdx (F : Functor) (boxes : List Box) (k : Nat) : Nat :=
  ((boxes.take k).map F.boxLen).sum

end DV
