/-
  Model/TensorNary.lean — the CALLING CONVENTIONS of `Tensor.then` / `Tensor.tensor`
  (core Lean only): the n-ary forms `f.then(g, h, …)`, `f.tensor(g, h, …)` with 0, 1, 2, …
  arguments, the fallback for `Sum` arguments, and `Tensor.map`.

  What the code does (discopy 0.3.5, file:line):

  * `Tensor.then(self, *others)` (tensor.py:177-188) and `Tensor.tensor(self, *others)`
    (tensor.py:190-205) compute an array only for EXACTLY ONE argument that is not a `Sum`;
    `if len(others) != 1 or any(isinstance(other, Sum) …)` delegates everything else to
    `monoidal.Diagram.then / tensor`.
  * `monoidal.Diagram.then` (monoidal.py:384-386) sends the same condition on to
    `cat.Arrow.then` (cat.py:305-318): no argument → `self`; more than one →
    `self.then(others[0]).then(*others[1:])` (each call dispatched on the CLASS OF THE RUNNING
    RESULT, a Tensor or a Sum); one `Sum` argument → `self.sum([self]).then(other)`.
  * `monoidal.Diagram.tensor(self, other=None, *rest)` (monoidal.py:394-434): `other is None` →
    `self` (so `f.tensor()` is `f`, and `f.tensor(None, g)` is `f` as well: `rest` is never
    looked at); `rest` non-empty → `self.tensor(other).tensor(*rest)`; one `Sum` argument →
    `self.sum([self]).tensor(other)`.
  * a `Sum` receiver: `cat.Sum.then` (cat.py:709-715) and `monoidal.Sum.tensor`
    (monoidal.py:750-756) with one argument wrap a non-Sum argument into `Sum([other])`, build
    `[f.then(g) for f in self.terms for g in other.terms]` and fold it with the builtin
    `sum(terms, unit)`; with 0 / ≥ 2 arguments they go through `cat.Arrow.then` /
    `monoidal.Diagram.tensor` as above.
  * `sum(terms, unit)` is `cat.Sum.__add__` (cat.py:693-697), whose first line is
    `if other == 0: return self`: for a Tensor `other` that is `Tensor.__eq__(other, 0)` =
    `numpy.all(other.array == 0)` (tensor.py:171-173), so ALL-ZERO TERMS ARE DROPPED from the
    resulting Sum.  (The value of the sum is unchanged: `Proofs/TensorNary.lean`.)
  * the name `Sum` inside tensor.py is, at call time, `discopy.tensor.Sum` (the class statement
    of tensor.py:555 rebinds the name imported in tensor.py:17).  Hence only a `tensor.Sum`
    argument takes the fallback; a plain `monoidal.Sum` (which is what the fallback itself
    RETURNS for a Tensor receiver, `Tensor.sum` being `monoidal.Sum`, monoidal.py:798) is not a
    Tensor and raises TypeError (tensor.py:181-182 / 194-195).  `SumKind` records the class.
  * anything else that is not a Tensor (a `tensor.Box`, an int, `None`) raises TypeError when
    it reaches a Tensor receiver.

  The n-ary forms are written here as the recursion the code performs (first argument, then
  the rest on the result); `Proofs/TensorNary.lean` proves that on Tensor arguments they are
  the iterated binary operations (`thenN_eq_foldl`, `tensorN_eq_foldl`).
-/
import Model.Tensor
import Model.TensorBubble

namespace DV

/-- The class of a Sum object: `discopy.monoidal.Sum`, or its subclass `discopy.tensor.Sum`. -/
inductive SumKind where
  | monoidal | tensor
  deriving DecidableEq, Repr, Inhabited

/-- A formal sum of Tensors: `Sum(terms, dom, cod)` (cat.py:657-673). -/
structure TSum (R : Type) where
  kind : SumKind
  dom : List Nat
  cod : List Nat
  terms : List (Tensor R)
  deriving DecidableEq, Repr, Inhabited

/-- What can be passed to (or come out of) `then` / `tensor`. -/
inductive TVal (R : Type) where
  /-- a `Tensor` -/
  | t (x : Tensor R)
  /-- a `Sum` whose terms are Tensors -/
  | s (x : TSum R)
  /-- a `tensor.Box` of the given type: an arrow with `Dim`s that is not a Tensor -/
  | box (dom cod : List Nat)
  /-- `None` (`isNone`) or an int: not an arrow at all -/
  | junk (isNone : Bool)
  deriving DecidableEq, Repr, Inhabited

namespace Tensor
variable {R : Type}

/-- `other == 0` for a Tensor: `numpy.all(other.array == 0)`, tensor.py:171-173. -/
def isZero [Zero R] [DecidableEq R] (t : Tensor R) : Bool :=
  t.arr.data.all (fun x => decide (x = 0))

-- `Tensor.map` (tensor.py:258-261) is defined in Model/TensorBubble.lean

end Tensor

namespace TSum
variable {R : Type}

/-- `Sum(terms, dom, cod)`, cat.py:657-673: every term must have the type of the sum
    (AxiomError otherwise). -/
def mk? (kind : SumKind) (dom cod : List Nat) (terms : List (Tensor R)) : Except Err (TSum R) :=
  if terms.all (fun t => t.dom == dom && t.cod == cod) then .ok ⟨kind, dom, cod, terms⟩
  else .error .axiom

/-- `Sum(terms)` without types, cat.py:659-664: taken from the first term; ValueError if there
    is none. -/
def mkInfer? (kind : SumKind) : List (Tensor R) → Except Err (TSum R)
  | [] => .error .value
  | t :: ts => mk? kind t.dom t.cod (t :: ts)

/-- `self.upgrade(sum(terms, unit))` for terms of the type of `unit`: the builtin `sum` adds
    the terms one by one with `cat.Sum.__add__` (cat.py:693-697), which returns `self`
    unchanged for a term that `== 0`. -/
def collect [Zero R] [DecidableEq R] (kind : SumKind) (dom cod : List Nat)
    (terms : List (Tensor R)) : TSum R :=
  ⟨kind, dom, cod, terms.filter (fun t => !t.isZero)⟩

/-- `Sum([f])` of a single arrow (`self.sum([self])`, cat.py:313 / monoidal.py:421, and the
    wrapping of a non-Sum argument, cat.py:712 / monoidal.py:753). -/
def single (kind : SumKind) (f : Tensor R) : TSum R := ⟨kind, f.dom, f.cod, [f]⟩

section ops
variable [Add R] [Mul R] [Zero R] [One R] [DecidableEq R]

/-- `[f.then(g) for f in self.terms for g in other.terms]`, cat.py:714: the first failing
    product raises. -/
def thenTerms : List (Tensor R) → List (Tensor R) → Except Err (List (Tensor R))
  | [], _ => .ok []
  | f :: fs, gs =>
    match gs.mapM (fun g => f.then g) with
    | .error e => .error e
    | .ok row =>
      match thenTerms fs gs with
      | .error e => .error e
      | .ok more => .ok (row ++ more)

/-- `cat.Sum.then(self, other)` for one Sum argument, cat.py:709-715. -/
def «then» (S O : TSum R) : Except Err (TSum R) :=
  match thenTerms S.terms O.terms with
  | .error e => .error e
  | .ok terms => .ok (collect S.kind S.dom O.cod terms)

/-- `[f.tensor(g) for f in self.terms for g in other.terms]`, monoidal.py:755. -/
def tensorTerms (fs gs : List (Tensor R)) : List (Tensor R) :=
  fs.flatMap (fun f => gs.map (fun g => f.tensor g))

/-- `monoidal.Sum.tensor(self, other)` for one Sum argument, monoidal.py:750-756. -/
def tensor (S O : TSum R) : TSum R :=
  collect S.kind (S.dom ++ O.dom) (S.cod ++ O.cod) (tensorTerms S.terms O.terms)

end ops
end TSum

namespace TVal
variable {R : Type} [Add R] [Mul R] [Zero R] [One R] [DecidableEq R]

/-- `other is None`. -/
def isNone : TVal R → Bool
  | .junk b => b
  | _ => false

/-- `x.then(o)` with exactly one argument, dispatched on the classes of `x` and `o`:
    * Tensor, Tensor: the array computation, tensor.py:180-188;
    * Tensor, tensor.Sum: tensor.py:178-179 → monoidal.py:385-386 → cat.py:312-313
      `self.sum([self]).then(other)` with `Tensor.sum = monoidal.Sum`;
    * Tensor, anything else (a monoidal.Sum included): TypeError, tensor.py:181-182;
    * Sum, Sum / Tensor / tensor.Box: cat.py:709-715 (a non-Sum is wrapped in `Sum([other])`;
      a term `f.then(box)` raises TypeError, so only an EMPTY sum composes with a box);
    * Sum, None/int: `Sum([other])` raises AttributeError — outside the error alphabet of
      the model, never sent by the harness (reported as `type`);
    * a box / None / int is never the receiver (never sent). -/
def then1 : TVal R → TVal R → Except Err (TVal R)
  | .t f, .t g =>
    match f.then g with
    | .error e => .error e
    | .ok x => .ok (.t x)
  | .t f, .s S =>
    if S.kind = .tensor then
      match (TSum.single .monoidal f).then S with
      | .error e => .error e
      | .ok x => .ok (.s x)
    else .error .type
  | .t _, .box _ _ => .error .type
  | .t _, .junk _ => .error .type
  | .s S, .t g =>
    match S.then (TSum.single .monoidal g) with
    | .error e => .error e
    | .ok x => .ok (.s x)
  | .s S, .s O =>
    match S.then O with
    | .error e => .error e
    | .ok x => .ok (.s x)
  | .s S, .box _ c => if S.terms.isEmpty then .ok (.s ⟨S.kind, S.dom, c, []⟩) else .error .type
  | .s _, .junk _ => .error .type
  | .box _ _, _ => .error .type
  | .junk _, _ => .error .type

/-- `x.then(*others)`: tensor.py:177-179 / cat.py:709-711 hand 0 or ≥ 2 arguments to
    `cat.Arrow.then` (cat.py:305-308): `self` for none, else
    `self.then(others[0]).then(*others[1:])`. -/
def thenArgs : TVal R → List (TVal R) → Except Err (TVal R)
  | x, [] => .ok x
  | x, [o] => then1 x o
  | x, o :: o' :: rest =>
    match then1 x o with
    | .error e => .error e
    | .ok y => thenArgs y (o' :: rest)

/-- `x.tensor(o)` with exactly one argument (same dispatch as `then1`; the binary tensor of
    Tensors never fails): tensor.py:190-205, monoidal.py:420-421, monoidal.py:750-756. -/
def tensor1 : TVal R → TVal R → Except Err (TVal R)
  | .t f, .t g => .ok (.t (f.tensor g))
  | .t f, .s S =>
    if S.kind = .tensor then .ok (.s ((TSum.single .monoidal f).tensor S)) else .error .type
  | .t _, .box _ _ => .error .type
  | .t _, .junk _ => .error .type
  | .s S, .t g => .ok (.s (S.tensor (TSum.single .monoidal g)))
  | .s S, .s O => .ok (.s (S.tensor O))
  | .s S, .box d c =>
    if S.terms.isEmpty then .ok (.s ⟨S.kind, S.dom ++ d, S.cod ++ c, []⟩) else .error .type
  | .s _, .junk _ => .error .type
  | .box _ _, _ => .error .type
  | .junk _, _ => .error .type

/-- `x.tensor(*others)`: 0 or ≥ 2 arguments reach `monoidal.Diagram.tensor(self, other, *rest)`
    (monoidal.py:417-420): `other is None` → `self` (whatever `rest` is), `rest` non-empty →
    `self.tensor(other).tensor(*rest)`. -/
def tensorArgs : TVal R → List (TVal R) → Except Err (TVal R)
  | x, [] => .ok x
  | x, [o] => tensor1 x o
  | x, o :: o' :: rest =>
    if o.isNone then .ok x
    else match tensor1 x o with
      | .error e => .error e
      | .ok y => tensorArgs y (o' :: rest)

end TVal

end DV
