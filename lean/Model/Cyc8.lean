/-
  Model/Cyc8.lean — exact arithmetic in ℤ[ζ₈][1/2]  (core Lean only, no Mathlib).

  An element is `(a + b·ζ + c·ζ² + d·ζ³) / 2^e` with `ζ = e^{iπ/4}`, `ζ⁴ = −1`.
  The ring contains everything the named gates of discopy/quantum/gates.py:551-565 and the
  rotations / ZX spiders at "dyadic" phases need:
      i = ζ²,  √2 = ζ − ζ³,  1/√2 = (ζ − ζ³)/2,  e^{iπ k/4} = ζ^k.
  Every operation returns a *normalised* value (`e` minimal: `e = 0` or one coefficient odd),
  so that structural equality (`DecidableEq`) is equality of the numbers and finite-table facts
  are closed by `decide`.

  The meaning of a value is fixed on the Python side by `harness/cyc8.py` (`to_complex`), which
  is what ties this file to numpy's floats: recognition of a float in ℤ[ζ₈]/2^e with tolerance,
  then exact comparison of coefficient tuples.
-/

namespace DV

structure Cyc8 where
  a : Int
  b : Int
  c : Int
  d : Int
  e : Nat
  deriving DecidableEq, Repr, Inhabited

namespace Cyc8

/-- All four coefficients even. -/
def allEven (a b c d : Int) : Bool :=
  a % 2 == 0 && b % 2 == 0 && c % 2 == 0 && d % 2 == 0

/-- Normalise: divide numerator and denominator by 2 while possible (structural in `e`). -/
def norm (a b c d : Int) : Nat → Cyc8
  | 0 => ⟨a, b, c, d, 0⟩
  | e + 1 => if allEven a b c d then norm (a / 2) (b / 2) (c / 2) (d / 2) e else ⟨a, b, c, d, e + 1⟩

def ofInt (n : Int) : Cyc8 := ⟨n, 0, 0, 0, 0⟩

def zero : Cyc8 := ofInt 0
def one : Cyc8 := ofInt 1
/-- ζ = e^{iπ/4}. -/
def zeta : Cyc8 := ⟨0, 1, 0, 0, 0⟩
/-- i = ζ². -/
def I : Cyc8 := ⟨0, 0, 1, 0, 0⟩
/-- √2 = ζ − ζ³ = 2 cos(π/4). -/
def sqrt2 : Cyc8 := ⟨0, 1, 0, -1, 0⟩
/-- 1/√2 = √2 / 2. -/
def invSqrt2 : Cyc8 := ⟨0, 1, 0, -1, 1⟩
/-- 1/2. -/
def half : Cyc8 := ⟨1, 0, 0, 0, 1⟩

instance : OfNat Cyc8 0 := ⟨zero⟩
instance : OfNat Cyc8 1 := ⟨one⟩
instance : Zero Cyc8 := ⟨zero⟩
instance : One Cyc8 := ⟨one⟩

def isZero (x : Cyc8) : Bool := x.a == 0 && x.b == 0 && x.c == 0 && x.d == 0
def isOne (x : Cyc8) : Bool := x.a == 1 && x.b == 0 && x.c == 0 && x.d == 0 && x.e == 0

/-- Sum.  (The zero tests are shortcuts only — they return what the general formula returns on
    normalised arguments — and make kernel evaluation of sparse matrices cheap.) -/
def add (x y : Cyc8) : Cyc8 :=
  if x.isZero then y else if y.isZero then x else
  if x.e ≤ y.e then
    norm (x.a * 2 ^ (y.e - x.e) + y.a) (x.b * 2 ^ (y.e - x.e) + y.b)
         (x.c * 2 ^ (y.e - x.e) + y.c) (x.d * 2 ^ (y.e - x.e) + y.d) y.e
  else
    norm (x.a + y.a * 2 ^ (x.e - y.e)) (x.b + y.b * 2 ^ (x.e - y.e))
         (x.c + y.c * 2 ^ (x.e - y.e)) (x.d + y.d * 2 ^ (x.e - y.e)) x.e

def neg (x : Cyc8) : Cyc8 := ⟨-x.a, -x.b, -x.c, -x.d, x.e⟩

/-- Product, using ζ⁴ = −1 (with shortcuts for 0 and 1, see `add`). -/
def mul (x y : Cyc8) : Cyc8 :=
  if x.isZero || y.isZero then zero else if x.isOne then y else if y.isOne then x else
  norm (x.a * y.a - x.b * y.d - x.c * y.c - x.d * y.b)
       (x.a * y.b + x.b * y.a - x.c * y.d - x.d * y.c)
       (x.a * y.c + x.b * y.b + x.c * y.a - x.d * y.d)
       (x.a * y.d + x.b * y.c + x.c * y.b + x.d * y.a) (x.e + y.e)

/-- Complex conjugation: ζ ↦ ζ⁻¹ = −ζ³, ζ² ↦ −ζ², ζ³ ↦ −ζ. -/
def conj (x : Cyc8) : Cyc8 := ⟨x.a, -x.d, -x.c, -x.b, x.e⟩

instance : Add Cyc8 := ⟨add⟩
instance : Mul Cyc8 := ⟨mul⟩
instance : Neg Cyc8 := ⟨neg⟩
instance : Sub Cyc8 := ⟨fun x y => add x (neg y)⟩

/-- ζ^k for a natural exponent. -/
def zetaPowNat : Nat → Cyc8
  | 0 => one
  | k + 1 => mul zeta (zetaPowNat k)

/-- ζ^k for an integer exponent (ζ⁸ = 1). -/
def zetaPow (k : Int) : Cyc8 := zetaPowNat (k % 8).toNat

/-- (1/√2)^n. -/
def invSqrt2Pow : Nat → Cyc8
  | 0 => one
  | n + 1 => mul invSqrt2 (invSqrt2Pow n)

/-- `a b c d e` as five space-separated integers (the line-protocol form). -/
def toTok (x : Cyc8) : String := s!"{x.a} {x.b} {x.c} {x.d} {x.e}"

/-- Build from raw coefficients (normalising) — used by the driver for scalars sent by the harness. -/
def mk' (a b c d : Int) (e : Nat) : Cyc8 := norm a b c d e

end Cyc8
end DV
