/-
  Model/Expr.lean — the operation language of the correspondence protocol and its
  evaluator.  `eval e` is what the code computes for the same expression; theorems about
  "all sequences of such operations" are inductions over `Expr`.
-/
import Model.Diagram

namespace DV

inductive Expr where
  | mk (dom cod : Ty) (boxes : List Box) (offsets : List Int)
  | box (b : Box)
  | id (t : Ty)
  | then (a b : Expr)
  | tensor (a b : Expr)
  | dagger (a : Expr)
  | slice (a : Expr) (start stop : Option Int)
  | sliceRev (a : Expr) (start stop : Option Int)
  | getItem (a : Expr) (i : Int)
  | interchange (a : Expr) (i j : Int) (left : Bool)
  | normalForm (a : Expr) (left : Bool)
  | swap (l r : Ty)
  | perm (p : List Int) (dom : Ty)
  | cups (l r : Ty)
  | caps (l r : Ty)
  | transpose (a : Expr) (left : Bool)
  /-- `recv.then(*args)` / `Diagram.then(recv, *args)` with any number of arguments. -/
  | thenN (recv : Expr) (args : List Expr)
  /-- `recv.tensor(*args)` with any number of arguments. -/
  | tensorN (recv : Expr) (args : List Expr)
  deriving Repr, Inhabited

mutual
def Expr.eval : Expr → Except Err Diagram
  | .mk dom cod boxes offsets => Diagram.mk? dom cod boxes offsets
  | .box b => .ok (Diagram.ofBox b)
  | .id t => .ok (Diagram.id t)
  | .then a b => match a.eval with
    | .error e => .error e
    | .ok x => match b.eval with
      | .error e => .error e
      | .ok y => x.then y
  | .tensor a b => match a.eval with
    | .error e => .error e
    | .ok x => match b.eval with
      | .error e => .error e
      | .ok y => x.tensor y
  | .dagger a => match a.eval with
    | .error e => .error e
    | .ok x => .ok x.dagger
  | .slice a s t => match a.eval with
    | .error e => .error e
    | .ok x => x.slice s t
  | .sliceRev a s t => match a.eval with
    | .error e => .error e
    | .ok x => x.sliceRev s t
  | .getItem a i => match a.eval with
    | .error e => .error e
    | .ok x => x.getItem i
  | .interchange a i j left => match a.eval with
    | .error e => .error e
    | .ok x => x.interchange i j left
  | .normalForm a left => match a.eval with
    | .error e => .error e
    | .ok x => x.normalForm left
  | .swap l r => Diagram.swap l r
  | .perm p dom => Diagram.permutation p dom
  | .cups l r => Diagram.cups l r
  | .caps l r => Diagram.caps l r
  | .transpose a left => match a.eval with
    | .error e => .error e
    | .ok x => x.transpose left
  | .thenN r args => match r.eval with
    | .error e => .error e
    | .ok x => match Expr.evalList args with
      | .error e => .error e
      | .ok xs => x.thenN xs
  | .tensorN r args => match r.eval with
    | .error e => .error e
    | .ok x => match Expr.evalList args with
      | .error e => .error e
      | .ok xs => x.tensorN xs
/-- The arguments of an n-ary call, evaluated from left to right before the call. -/
def Expr.evalList : List Expr → Except Err (List Diagram)
  | [] => .ok []
  | a :: as => match a.eval with
    | .error e => .error e
    | .ok x => match Expr.evalList as with
      | .error e => .error e
      | .ok xs => .ok (x :: xs)
end

end DV
