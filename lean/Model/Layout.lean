/-
  Model/Layout.lean — the drawing layout of discopy/drawing.py:83-186 (`diagram2nx` with its
  inner `add_node`, `add_box` (non-bubble case) and `make_space`).  Core Lean only.

  Coordinates.  Horizontal positions are NOT multiples of one half: `make_space` places a box
  at the midpoint of two open wires (drawing.py:155,158), so every box can halve the grid
  (`f @ Id(x @ x) >> g @ Id(x) >> g` with `f, g : x @ x -> x` puts the third box at 17/8).
  They are dyadic rationals and are modelled by core `Rat` (exact; the Python floats are
  exact too as long as 53 bits suffice, which the correspondence check asserts).  Vertical
  positions are multiples of one quarter and never move: `Int`, counted in quarter-units.

  Nodes.  A Python `Node` is identified by `(kind, data)` (drawing.py:68-78); in one run of
  `diagram2nx` the data of a node is determined by `(kind, i, depth)`, which is what the model
  keeps (`i = 0` for box nodes, `depth = 0` for inputs and outputs).  `pos` is a Python dict
  in insertion order; it is modelled by the list of placed nodes in insertion order, lookups
  (`pos[node]`) by `find?`.  Every `add_node` of `diagram2nx` inserts a fresh key
  (`Proofs/Layout.lean`: `step_nodup`, `layout_nodup`), so "update" is "append".

  Input.  Only the lengths of `dom`, `cod`, of every box's `dom`/`cod`, and the offsets are
  read (`Shape`).  `diagram2nx` first calls `diagram.open_bubbles()` (drawing.py:100), which for
  a bubble-free diagram is `downgrade()` (monoidal.py:587-588, 328-332), i.e. the *scanning*
  public constructor `Diagram(dom, cod, boxes, offsets)`: ill-typed requests are refused there
  with the constructor's error, so the loop below only ever runs on a shape whose offsets are
  in range (`Shape.WF`, implied by `Diagram.mk? … = .ok _`: `Proofs/LayoutDiagram.lean`,
  `diagram2nx_ok`).  On such shapes every list access below is in range and every looked-up
  node is placed (`Proofs/Layout.lean`: `run_spec` gives `off + m ≤ len(scan)` at every box,
  `Inv.has` that every open wire is a key of `pos`); the accesses are written with `getD` and
  never take their default there.
-/
import Model.Diagram

namespace DV.Layout
open DV

/-! ### Nodes, positions -/

/-- `Node.kind`, drawing.py:111,114,125,176,183. -/
inductive NK where
  | input | output | box | dom | cod
  deriving DecidableEq, Repr, Inhabited

def NK.toString : NK → String
  | .input => "input" | .output => "output" | .box => "box" | .dom => "dom" | .cod => "cod"

/-- `NK` in the order used for canonical printing. -/
def NK.rank : NK → Nat
  | .input => 0 | .box => 1 | .dom => 2 | .cod => 3 | .output => 4

structure Node where
  kind : NK
  i : Nat
  depth : Nat
  deriving DecidableEq, Repr, Inhabited

def inputNode (i : Nat) : Node := ⟨.input, i, 0⟩            -- drawing.py:176
def outputNode (i : Nat) : Node := ⟨.output, i, 0⟩          -- drawing.py:183
def boxNode (depth : Nat) : Node := ⟨.box, 0, depth⟩        -- drawing.py:111
def domNode (depth i : Nat) : Node := ⟨.dom, i, depth⟩      -- drawing.py:114
def codNode (depth i : Nat) : Node := ⟨.cod, i, depth⟩      -- drawing.py:125

/-- One entry of the `pos` dict: `x` exact, `y` in quarter-units. -/
structure Placed where
  node : Node
  x : Rat
  y : Int
  deriving DecidableEq, Repr, Inhabited

/-- The `pos` dict in insertion order. -/
abbrev Pos := List Placed

/-- `pos[v][0]` (`none` would be a `KeyError`; never happens, see header). -/
def Pos.x? (p : Pos) (v : Node) : Option Rat := (p.find? (fun q => q.node == v)).map (·.x)
def Pos.y? (p : Pos) (v : Node) : Option Int := (p.find? (fun q => q.node == v)).map (·.y)

def Pos.xD (p : Pos) (v : Node) : Rat := (p.x? v).getD 0

/-- `pos[scan[k]][0]`. -/
def scanX (p : Pos) (scan : List Node) (k : Nat) : Rat := p.xD (scan.getD k default)

/-- Apply `f` to every horizontal coordinate (the two `for node, position in pos.items()`
    loops of drawing.py:162-164 and 169-171). -/
def Pos.mapX (f : Rat → Rat) (p : Pos) : Pos := p.map (fun q => { q with x := f q.x })

/-- drawing.py:163-164: `if position[0] <= limit: x - pad`. -/
def sl (limit pad t : Rat) : Rat := if t ≤ limit then t - pad else t
/-- drawing.py:170-171: `if position[0] >= limit: x + pad`. -/
def sr (limit pad t : Rat) : Rat := if t ≥ limit then t + pad else t

/-! ### The input: what `diagram2nx` reads of a diagram -/

/-- One box: `m = len(box.dom)`, `c = len(box.cod)`, `off` its offset. -/
structure Step where
  m : Nat
  c : Nat
  off : Nat
  deriving DecidableEq, Repr, Inhabited

structure Shape where
  nIn : Nat
  steps : List Step
  nOut : Nat
  deriving DecidableEq, Repr, Inhabited

/-- Offsets in range along the scan, which ends with `out` wires. -/
def StepsOK : Nat → List Step → Nat → Prop
  | len, [], out => len = out
  | len, st :: r, out => st.off + st.m ≤ len ∧ StepsOK (len - st.m + st.c) r out

instance : (len : Nat) → (sts : List Step) → (out : Nat) → Decidable (StepsOK len sts out)
  | len, [], out => inferInstanceAs (Decidable (len = out))
  | len, st :: r, out =>
    have := instDecidableStepsOK (len - st.m + st.c) r out
    inferInstanceAs (Decidable (_ ∧ _))

def Shape.WF (sh : Shape) : Prop := StepsOK sh.nIn sh.steps sh.nOut

instance (sh : Shape) : Decidable sh.WF := inferInstanceAs (Decidable (StepsOK _ _ _))

def stepOf (b : Box) (o : Int) : Step := ⟨b.dom.length, b.cod.length, o.toNat⟩

def shapeOf (d : Diagram) : Shape :=
  ⟨d.dom.length, List.zipWith stepOf d.boxes d.offsets, d.cod.length⟩

/-! ### `make_space`, drawing.py:144-172 -/

/-- drawing.py:147: `len(box.cod[:-1]) / 2 + 1`. -/
def halfWidth (c : Nat) : Rat := ((c - 1 : Nat) : Rat) / 2 + 1

/-- drawing.py:148-158. -/
def xPos (p : Pos) (scan : List Node) (st : Step) : Rat :=
  if st.m = 0 then
    if st.off = 0 then scanX p scan 0 - halfWidth st.c
    else if st.off = scan.length then scanX p scan (scan.length - 1) + halfWidth st.c
    else (scanX p scan (st.off - 1) + scanX p scan (st.off + st.m)) / 2
  else (scanX p scan st.off + scanX p scan (st.off + st.m - 1)) / 2

/-- drawing.py:159-164. -/
def padLeft (p : Pos) (scan : List Node) (st : Step) (x : Rat) : Pos :=
  if st.off ≠ 0 ∧ scanX p scan (st.off - 1) > x - halfWidth st.c then
    p.mapX (sl (scanX p scan (st.off - 1)) (scanX p scan (st.off - 1) - x + halfWidth st.c))
  else p

/-- drawing.py:165-171. -/
def padRight (p : Pos) (scan : List Node) (st : Step) (x : Rat) : Pos :=
  if st.off + st.m < scan.length ∧ scanX p scan (st.off + st.m) < x + halfWidth st.c then
    p.mapX (sr (scanX p scan (st.off + st.m)) (x + halfWidth st.c - scanX p scan (st.off + st.m)))
  else p

/-- The `x_pos` returned by `make_space` (drawing.py:145-146, 172). -/
def spaceX (p : Pos) (scan : List Node) (st : Step) : Rat :=
  if scan.isEmpty then 0 else xPos p scan st

/-- The `pos` dict after `make_space`. -/
def spacePos (p : Pos) (scan : List Node) (st : Step) : Pos :=
  if scan.isEmpty then p
  else padRight (padLeft p scan st (xPos p scan st)) scan st (xPos p scan st)

/-! ### `add_box` (no bubbles), drawing.py:107-142 -/

def boxY (n depth : Nat) : Int := 4 * (n : Int) - 4 * depth - 2     -- line 112: `- .5`
def domY (n depth : Nat) : Int := 4 * (n : Int) - 4 * depth - 1     -- line 115: `- .25`
def codY (n depth : Nat) : Int := 4 * (n : Int) - 4 * depth - 3     -- line 124: `- .75`

/-- drawing.py:121-123. -/
def codX (p : Pos) (scan : List Node) (st : Step) (x : Rat) (i : Nat) : Rat :=
  if st.m = st.c then scanX p scan (st.off + i)
  else x - ((st.c - 1 : Nat) : Rat) / 2 + (i : Rat)

/-- The nodes `add_box` inserts, in insertion order (lines 112, 116, 126). -/
def boxPlaced (p : Pos) (scan : List Node) (st : Step) (n depth : Nat) (x : Rat) : Pos :=
  [⟨boxNode depth, x, boxY n depth⟩]
    ++ (List.range st.m).map (fun i => ⟨domNode depth i, scanX p scan (st.off + i), domY n depth⟩)
    ++ (List.range st.c).map (fun i => ⟨codNode depth i, codX p scan st x i, codY n depth⟩)

/-- The edges `add_box` inserts (lines 117, 119, 128). -/
def boxEdges (scan : List Node) (st : Step) (depth : Nat) : List (Node × Node) :=
  ((List.range st.m).map (fun i =>
      [(scan.getD (st.off + i) default, domNode depth i), (domNode depth i, boxNode depth)])).flatten
    ++ (List.range st.c).map (fun i => (boxNode depth, codNode depth i))

/-- The scan `add_box` returns (lines 139-142). -/
def nextScan (scan : List Node) (st : Step) (depth : Nat) : List Node :=
  scan.take st.off ++ (List.range st.c).map (codNode depth) ++ scan.drop (st.off + st.m)

/-! ### The loop of `diagram2nx`, drawing.py:174-186 -/

structure St where
  pos : Pos
  scan : List Node
  edges : List (Node × Node)
  deriving Repr, Inhabited

/-- Lines 174-178.  `len(diagram) or 1`. -/
def topY (n : Nat) : Int := if n = 0 then 4 else 4 * (n : Int)

def initSt (nIn n : Nat) : St :=
  ⟨(List.range nIn).map (fun i => ⟨inputNode i, (i : Rat), topY n⟩),
   (List.range nIn).map inputNode, []⟩

/-- One iteration of lines 179-181. -/
def step (n : Nat) (s : St) (depth : Nat) (st : Step) : St :=
  ⟨spacePos s.pos s.scan st
      ++ boxPlaced (spacePos s.pos s.scan st) s.scan st n depth (spaceX s.pos s.scan st),
   nextScan s.scan st depth,
   s.edges ++ boxEdges s.scan st depth⟩

def run (n : Nat) : St → Nat → List Step → St
  | s, _, [] => s
  | s, depth, st :: r => run n (step n s depth st) (depth + 1) r

/-- The scans (open wires) before box `0`, `1`, …, and after the last box. -/
def scansFrom : List Node → Nat → List Step → List (List Node)
  | scan, _, [] => [scan]
  | scan, depth, st :: r => scan :: scansFrom (nextScan scan st depth) (depth + 1) r

/-- What `diagram2nx` returns: the `pos` dict (insertion order), the edges (insertion order),
    plus the history of scans (not returned by the code; used to state the property). -/
structure Graph where
  nodes : Pos
  edges : List (Node × Node)
  scans : List (List Node)
  deriving Repr, Inhabited

/-- Lines 182-185. -/
def outPlaced (p : Pos) (scan : List Node) (nOut : Nat) : Pos :=
  (List.range nOut).map (fun i => ⟨outputNode i, scanX p scan i, 0⟩)

def outEdges (scan : List Node) (nOut : Nat) : List (Node × Node) :=
  (List.range nOut).map (fun i => (scan.getD i default, outputNode i))

def finish (s : St) (sh : Shape) : Graph :=
  ⟨s.pos ++ outPlaced s.pos s.scan sh.nOut, s.edges ++ outEdges s.scan sh.nOut,
   scansFrom (initSt sh.nIn sh.steps.length).scan 0 sh.steps⟩

def layout (sh : Shape) : Graph :=
  finish (run sh.steps.length (initSt sh.nIn sh.steps.length) 0 sh.steps) sh

/-- `diagram2nx(diagram)` on a bubble-free diagram: `downgrade()` through the scanning
    constructor (drawing.py:100, monoidal.py:328-354), then the loop. -/
def diagram2nx (d : Diagram) : Except Err Graph :=
  match Diagram.mk? d.dom d.cod d.boxes d.offsets with
  | .error e => .error e
  | .ok d' => .ok (layout (shapeOf d'))

/-! ### Canonical printing (used by the driver) -/

def Node.lt (a b : Node) : Bool :=
  a.kind.rank < b.kind.rank ||
  (a.kind.rank == b.kind.rank && (a.depth < b.depth || (a.depth == b.depth && a.i < b.i)))

def Node.toString (v : Node) : String := s!"{v.kind.toString}:{v.depth}:{v.i}"

end DV.Layout
