/-
  Model/Cartesian.lean — executable model of discopy/cartesian.py (core Lean only).

  What is transcribed, one-for-one:
    tuplify / untuplify                    cartesian.py:43-50
    Function.__call__/then/tensor/id       cartesian.py:93-159
    cartesian.Diagram.__init__ (scan)      cartesian.py:172-173 -> monoidal.py:334-354
    Diagram.then / tensor / id             monoidal.py:384-391, 419-433
    Diagram.__call__ through the functor   cartesian.py:193-203 -> rigid.py:417-439 ->
                                           monoidal.py:827-846 (the Box branch, cat.py:841-844,
                                           and the Diagram branch, the scan loop)
    Swap / Copy / Discard                  cartesian.py:273-312
    COPY, SWAP, DISCARD, ADD               cartesian.py:345-348

  Python values are `PyVal`: integers (`atom`), typed tokens (`tok ty n`: a non-tuple object
  of another type — `float(n)`, `bool(n)`, or the n-th value of the harness's table of strings,
  bytes, None, lists, dicts, sets, other floats such as -0.0 and 1.5) and tuples (`tup`).
  cartesian.py never looks inside a wire value: the only test it makes is `isinstance(_, tuple)`
  (`tuplify`), so everything that is not a tuple is a token; tokens of different types are
  different values (`1`, `1.0` and `True` are `atom 1`, `tok float 1`, `tok bool 1`) although
  Python's `==` and `hash` identify them.  A Python callable is a
  function `List PyVal → Except Err PyVal` (argument tuple ↦ returned object or raised class):
  calls have no history (a box applied twice to the same arguments answers twice the same, and a
  box applied to `1.0` never sees what it answered on `1`).
  Types are `PRO(n)`, modelled by `n : Nat`; a slice of `PRO(n)` is the `PRO` of the length of
  the slice (monoidal.py:184-187 + rigid.py:121-123), see `proSlice`.

  `CDiagram.run` is NOT a transcription of code: it is the reference semantics named by the
  property (feed the inputs through the boxes in order, each box applied to the wires at its
  offset, outputs spliced back in place).  It reads what a box returns with the one convention
  Python offers for "n outputs" (a tuple of n values, or the value itself), i.e. `tuplify`;
  so a box declared 1 → 1 that returns a tuple is out of the statement's scope for `run` too.

  Not modelled: the Python recursion limit (the closures nest three frames per layer), daggers
  of cartesian boxes (`SWAP.dagger()` raises inside rigid.Box: functions have no dagger), Sums.
-/
import Model.Basic

namespace DV.Cart
open DV

/-! ### Python values -/

/-- The type of a non-tuple, non-int wire value. -/
inductive Ty where
  | float      -- `float(n)` for an integer `n` (|n| < 2^53), zero positive
  | bool       -- `bool(n)`, n ∈ {0, 1}
  | floatx     -- any other float (-0.0, 1.5, inf, nan): opaque, n-th of the harness's table
  | none | str | bytes | list | dict | set | frozenset   -- opaque, n-th of the harness's table
  deriving DecidableEq, Repr, Inhabited

inductive PyVal where
  | atom (n : Int)
  | tok (ty : Ty) (n : Int)
  | tup (xs : List PyVal)
  deriving Repr, Inhabited

mutual
def PyVal.decEq : (a b : PyVal) → Decidable (a = b)
  | .atom a, .atom b =>
    if h : a = b then isTrue (by rw [h]) else isFalse (by intro h'; cases h'; exact h rfl)
  | .tup xs, .tup ys =>
    match PyVal.decEqList xs ys with
    | isTrue h => isTrue (by rw [h])
    | isFalse h => isFalse (by intro h'; cases h'; exact h rfl)
  | .tok s a, .tok t b =>
    if h : s = t ∧ a = b then isTrue (by rw [h.1, h.2])
    else isFalse (by intro h'; cases h'; exact h ⟨rfl, rfl⟩)
  | .atom _, .tup _ => isFalse (by intro h; cases h)
  | .tup _, .atom _ => isFalse (by intro h; cases h)
  | .atom _, .tok _ _ => isFalse (by intro h; cases h)
  | .tok _ _, .atom _ => isFalse (by intro h; cases h)
  | .tok _ _, .tup _ => isFalse (by intro h; cases h)
  | .tup _, .tok _ _ => isFalse (by intro h; cases h)
def PyVal.decEqList : (a b : List PyVal) → Decidable (a = b)
  | [], [] => isTrue rfl
  | x :: xs, y :: ys =>
    match PyVal.decEq x y, PyVal.decEqList xs ys with
    | isTrue h1, isTrue h2 => isTrue (by rw [h1, h2])
    | isFalse h1, _ => isFalse (by intro h'; cases h'; exact h1 rfl)
    | _, isFalse h2 => isFalse (by intro h'; cases h'; exact h2 rfl)
  | [], _ :: _ => isFalse (by intro h; cases h)
  | _ :: _, [] => isFalse (by intro h; cases h)
end

instance : DecidableEq PyVal := PyVal.decEq

instance {ε α} [DecidableEq ε] [DecidableEq α] : DecidableEq (Except ε α)
  | .ok a, .ok b => if h : a = b then isTrue (by rw [h]) else isFalse (by intro h'; cases h'; exact h rfl)
  | .error a, .error b =>
    if h : a = b then isTrue (by rw [h]) else isFalse (by intro h'; cases h'; exact h rfl)
  | .ok _, .error _ => isFalse (by intro h; cases h)
  | .error _, .ok _ => isFalse (by intro h; cases h)

/-- `isinstance(v, tuple)` negated. -/
def PyVal.isAtom : PyVal → Bool
  | .atom _ => true
  | .tok _ _ => true
  | .tup _ => false

/-- cartesian.py:43-45 `stuff if isinstance(stuff, tuple) else (stuff, )`. -/
def tuplify : PyVal → List PyVal
  | .atom n => [.atom n]
  | .tok t n => [.tok t n]
  | .tup xs => xs

/-- cartesian.py:48-50 `stuff[0] if len(stuff) == 1 else stuff` (called as `untuplify(*stuff)`). -/
def untuplify : List PyVal → PyVal
  | [x] => x
  | xs => .tup xs

/-! ### `Function` (cartesian.py:53-159) -/

/-- `Function(dom, cod, function)`; `dom`, `cod` are `PRO`s, only their lengths are ever used. -/
structure Function where
  dom : Nat
  cod : Nat
  f : List PyVal → Except Err PyVal

/-- cartesian.py:93-105: `TypeError` unless `len(values) == len(self.dom)`, then the function. -/
def Function.call (F : Function) (vals : List PyVal) : Except Err PyVal :=
  if vals.length ≠ F.dom then .error .type else F.f vals

/-- cartesian.py:123 `lambda *vals: other(*tuplify(self(*vals)))`. -/
def Function.thenFn (F G : Function) (vals : List PyVal) : Except Err PyVal :=
  (F.call vals).bind (fun v => G.call (tuplify v))

/-- cartesian.py:107-123 (one `other`, a `Function`): `AxiomError` unless
    `len(self.cod) == len(other.dom)`. -/
def Function.then (F G : Function) : Except Err Function :=
  if F.cod ≠ G.dom then .error .axiom else .ok ⟨F.dom, G.cod, F.thenFn G⟩

/-- cartesian.py:141-144, the closure `product`. -/
def Function.product (F G : Function) (vals : List PyVal) : Except Err PyVal :=
  (F.call (pySlice vals none (some (F.dom : Int)))).bind (fun v0 =>
    (G.call (pySlice vals (some (F.dom : Int)) none)).bind (fun v1 =>
      .ok (untuplify (tuplify v0 ++ tuplify v1))))

/-- cartesian.py:125-145. -/
def Function.tensor (F G : Function) : Function :=
  ⟨F.dom + G.dom, F.cod + G.cod, F.product G⟩

/-- cartesian.py:147-155 `Function(dom, dom, untuplify)`. -/
def Function.id (n : Nat) : Function :=
  ⟨n, n, fun vals => .ok (untuplify vals)⟩

/-! ### Boxes and diagrams (cartesian.py:162-270) -/

/-- `cartesian.Box(name, dom, cod, function)`: the name plays no role in evaluation. -/
structure CBox where
  dom : Nat
  cod : Nat
  f : List PyVal → Except Err PyVal

/-- cartesian.py:201-202 `ar=lambda f: Function(len(f.dom), len(f.cod), f.function)`. -/
def CBox.toFunction (b : CBox) : Function := ⟨b.dom, b.cod, b.f⟩

/-- A cartesian diagram; offsets of a constructed diagram are non-negative (`mk?` below). -/
structure CDiagram where
  dom : Nat
  cod : Nat
  boxes : List CBox
  offsets : List Nat

/-- `len(PRO(n)[start:stop])`: slicing a `PRO` gives the `PRO` of the slice's length. -/
def proSlice (n : Nat) (start stop : Option Int) : Nat :=
  (pySlice (List.replicate n ()) start stop).length

/-- The scan of monoidal.py:341-353 on `PRO` types.  `len(left) != off` refuses negative and
    out-of-range offsets (monoidal.py:349); `layers >> Layer(left, box, right)` is refused by
    cat.py:307 unless the previous codomain equals `left @ box.dom @ right`. -/
def mkScan : Nat → List CBox → List Int → Except Err Nat
  | scan, [], _ => .ok scan
  | scan, _ :: _, [] => .ok scan
  | scan, b :: bs, o :: os =>
    if (proSlice scan none (some o) : Int) ≠ o then .error .axiom
    else if scan ≠ proSlice scan none (some o) + b.dom + proSlice scan (some (o + b.dom)) none
    then .error .axiom
    else mkScan (proSlice scan none (some o) + b.cod + proSlice scan (some (o + b.dom)) none) bs os

/-- The end of the scan: `layers >> cat.Id(cod)` (monoidal.py:352). -/
def mkFinish (dom cod : Nat) (boxes : List CBox) (offsets : List Int) (scan : Nat) :
    Except Err CDiagram :=
  if scan ≠ cod then .error .axiom else .ok ⟨dom, cod, boxes, offsets.map Int.toNat⟩

/-- `cartesian.Diagram(dom, cod, boxes, offsets)` (cartesian.py:172-173, monoidal.py:334-354). -/
def CDiagram.mk? (dom cod : Nat) (boxes : List CBox) (offsets : List Int) : Except Err CDiagram :=
  if boxes.length ≠ offsets.length then .error .value
  else (mkScan dom boxes offsets).bind (mkFinish dom cod boxes offsets)

/-- `Id(dom)`, cartesian.py:206-217. -/
def CDiagram.id (n : Nat) : CDiagram := ⟨n, n, [], []⟩

/-- A box seen as a diagram, cartesian.py:253 `Diagram.__init__(self, dom, cod, [self], [0])`. -/
def CBox.diagram (b : CBox) : CDiagram := ⟨b.dom, b.cod, [b], [0]⟩

/-- `>>`, monoidal.py:384-391; the refusal is `self.layers >> other.layers` (cat.py:307). -/
def CDiagram.then (a b : CDiagram) : Except Err CDiagram :=
  if a.cod ≠ b.dom then .error .axiom
  else .ok ⟨a.dom, b.cod, a.boxes ++ b.boxes, a.offsets ++ b.offsets⟩

/-- `@`, monoidal.py:425-433: `offsets = self.offsets + [n + len(self.cod) for n in other.offsets]`. -/
def CDiagram.tensor (a b : CDiagram) : CDiagram :=
  ⟨a.dom + b.dom, a.cod + b.cod, a.boxes ++ b.boxes, a.offsets ++ b.offsets.map (· + a.cod)⟩

/-- `d.tensor(*others)`, monoidal.py:419-422: left fold (`self` when `others` is empty). -/
def CDiagram.tensorAll (d : CDiagram) : List CDiagram → CDiagram
  | [] => d
  | x :: xs => CDiagram.tensorAll (d.tensor x) xs

/-! ### Evaluation: `Diagram.__call__` (cartesian.py:193-203) -/

/-- `id_l @ self(box) @ id_r` of monoidal.py:841-843 with `ar_factory = Function`. -/
def layerFn (scan : Nat) (b : CBox) (off : Nat) : Function :=
  ((Function.id (proSlice scan none (some (off : Int)))).tensor b.toFunction).tensor
    (Function.id (proSlice scan (some ((off + b.dom : Nat) : Int)) none))

/-- monoidal.py:844 `scan = scan[:off] @ box.cod @ scan[off + len(box.dom):]`. -/
def scanStep (scan : Nat) (b : CBox) (off : Nat) : Nat :=
  proSlice scan none (some (off : Int)) + b.cod
    + proSlice scan (some ((off + b.dom : Nat) : Int)) none

/-- The loop of monoidal.py:840-845 (`zip` stops at the shorter list). -/
def functorLoop : Nat → Function → List CBox → List Nat → Except Err Function
  | _, result, [], _ => .ok result
  | _, result, _ :: _, [] => .ok result
  | scan, result, b :: bs, o :: os =>
    (result.then (layerFn scan b o)).bind (fun r => functorLoop (scanStep scan b o) r bs os)

/-- monoidal.py:838-846, the `Diagram` branch: `F(diagram)` for a diagram that is not a `Box`. -/
def CDiagram.functor (d : CDiagram) : Except Err Function :=
  functorLoop d.dom (Function.id d.dom) d.boxes d.offsets

/-- `d(*vals)` for a diagram that is not a single `Box` (cartesian.py:199-203). -/
def CDiagram.call (d : CDiagram) (vals : List PyVal) : Except Err PyVal :=
  d.functor.bind (fun F => F.call vals)

/-- `b(*vals)` for a `cartesian.Box` (`Box.__call__ = Diagram.__call__`, cartesian.py:270): the
    functor takes the `Box` branch (monoidal.py:836-837 -> cat.py:841-844) and returns
    `ar(box)` itself, no identity is composed and the returned object is not re-packed. -/
def CBox.call (b : CBox) (vals : List PyVal) : Except Err PyVal :=
  b.toFunction.call vals

/-! ### Reference semantics (the property's statement; not a transcription) -/

/-- Apply `b` to the `b.dom` wires starting at `off`; splice its outputs back in place. -/
def applyAt (b : CBox) (off : Nat) (st : List PyVal) : Except Err (List PyVal) :=
  (b.f ((st.drop off).take b.dom)).map
    (fun v => st.take off ++ tuplify v ++ st.drop (off + b.dom))

def runLoop : List PyVal → List CBox → List Nat → Except Err (List PyVal)
  | st, [], _ => .ok st
  | st, _ :: _, [] => .ok st
  | st, b :: bs, o :: os => (applyAt b o st).bind (fun st' => runLoop st' bs os)

/-- The list of values on the output wires; a diagram with `dom` input wires is fed exactly
    `dom` values (anything else is a `TypeError`, as for any Python callable). -/
def CDiagram.run (d : CDiagram) (vals : List PyVal) : Except Err (List PyVal) :=
  if vals.length ≠ d.dom then .error .type else runLoop vals d.boxes d.offsets

/-! ### The pool of primitive Python functions (the harness runs the same ones in Python) -/

/-- Python's numeric reading of a value: `(is a float, integer value)` for `int`, `bool`
    (a subclass of `int`) and integer-valued `float`; nothing else is a number here.
    (The harness compares arithmetic only on such numbers — no -0.0, no overflow past 2^53, no
    sequence repetition `2 * "a"`, see `TAINT` in harness/props/c19.py.) -/
def PyVal.num? : PyVal → Option (Bool × Int)
  | .atom a => some (false, a)
  | .tok .float a => some (true, a)
  | .tok .bool a => some (false, a)
  | _ => none

/-- The number back as a value: arithmetic of ints and bools is an `int`, with a float a `float`. -/
def PyVal.ofNum (fl : Bool) (a : Int) : PyVal := if fl then .tok .float a else .atom a

def addNum : Option (Bool × Int) → Option (Bool × Int) → Except Err PyVal
  | some (f, a), some (g, b) => .ok (PyVal.ofNum (f || g) (a + b))
  | _, _ => .error .type

/-- `x + y` on numbers and tuples (`int + tuple`, `None + 1`, `{} + {}` are `TypeError`s). -/
def PyVal.add : PyVal → PyVal → Except Err PyVal
  | .tup a, .tup b => .ok (.tup (a ++ b))
  | x, y => addNum x.num? y.num?

/-- `k * x` for an int `k`: product of numbers, repetition of a tuple (empty when `k <= 0`);
    `k * None`, `k * {}` raise `TypeError`. -/
def PyVal.rmul (k : Int) : PyVal → Except Err PyVal
  | .tup xs => .ok (.tup (List.replicate k.toNat xs).flatten)
  | x => match x.num? with
    | some (f, a) => .ok (PyVal.ofNum f (k * a))
    | none => .error .type

/-- `TYPES.index(type(x))` of harness/props/c19.py. -/
def PyVal.tyCode : PyVal → Int
  | .atom _ => 0
  | .tok .float _ => 1
  | .tok .floatx _ => 1
  | .tok .bool _ => 2
  | .tok .str _ => 3
  | .tok .bytes _ => 4
  | .tok .none _ => 5
  | .tok .list _ => 6
  | .tok .dict _ => 7
  | .tok .set _ => 8
  | .tok .frozenset _ => 9
  | .tup _ => 10

/-- `acc = s + j; for i in range(m): acc = acc + (i + j + 1) * xs[i]`. -/
def affRow (j : Nat) : Nat → PyVal → List PyVal → Except Err PyVal
  | _, acc, [] => .ok acc
  | i, acc, x :: xs =>
    ((x.rmul ((i + j + 1 : Nat) : Int)).bind acc.add).bind (fun a => affRow j (i + 1) a xs)

def affOuts (s : Int) (xs : List PyVal) : List Nat → Except Err (List PyVal)
  | [] => .ok []
  | j :: js =>
    (affRow j 0 (.atom (s + (j : Int))) xs).bind (fun v =>
      (affOuts s xs js).bind (fun vs => .ok (v :: vs)))

/-- `outs[0] if bare and n == 1 else tuple(outs)`. -/
def affPack (n : Nat) (bare : Bool) (outs : List PyVal) : PyVal :=
  if bare ∧ n = 1 then outs.headD (.tup []) else .tup outs

/-- `[xs[i] for i in is]`, `IndexError` on the first index out of range. -/
def pickAll (xs : List PyVal) : List Nat → Except Err (List PyVal)
  | [] => .ok []
  | i :: is =>
    match xs[i]? with
    | some v => (pickAll xs is).map (v :: ·)
    | none => .error .index

inductive Prim where
  | add                                      -- ADD      lambda x, y: x + y      (cartesian.py:348)
  | swap                                     -- SWAP     lambda x, y: (y, x)     (cartesian.py:346)
  | copy                                     -- COPY     lambda *x: x + x        (cartesian.py:345)
  | discard                                  -- DISCARD  lambda *x: ()           (cartesian.py:347)
  | scale (k : Int)                          -- lambda x: k * x
  | affine (m n : Nat) (s : Int) (bare : Bool)  -- m ints ↦ n ints (harness/props/c19.py `affine`)
  | proj (m i : Nat)                         -- exactly m arguments ↦ xs[i]
  | pack (m : Nat)                           -- exactly m arguments ↦ xs   (a tuple, as ONE object)
  | nest (m : Nat)                           -- exactly m arguments ↦ (xs,) (a tuple on one wire)
  | fail                                     -- raises ValueError
  | ident (m : Nat)                          -- the sub-diagram Id(m) used as a box's function
  | tyc (m i : Nat)                          -- exactly m arguments ↦ the code of type(xs[i])
  | const (m : Nat) (v : PyVal)              -- exactly m arguments ↦ the (immutable) value v
  | pick (m : Nat) (is : List Nat)           -- exactly m arguments ↦ tuple(xs[i] for i in is)
  deriving DecidableEq, Repr, Inhabited

/-- Fixed-arity Python functions raise `TypeError` on a wrong number of arguments. -/
def arity (m : Nat) (xs : List PyVal) (k : Except Err PyVal) : Except Err PyVal :=
  if xs.length ≠ m then .error .type else k

def Prim.sem : Prim → List PyVal → Except Err PyVal
  | .add, [x, y] => x.add y
  | .add, _ => .error .type
  | .swap, [x, y] => .ok (.tup [y, x])
  | .swap, _ => .error .type
  | .copy, xs => .ok (.tup (xs ++ xs))
  | .discard, _ => .ok (.tup [])
  | .scale k, [x] => x.rmul k
  | .scale _, _ => .error .type
  | .affine m n s bare, xs =>
    arity m xs ((affOuts s xs (List.range n)).map (affPack n bare))
  | .proj m i, xs => arity m xs (match xs[i]? with | some v => .ok v | none => .error .index)
  | .pack m, xs => arity m xs (.ok (.tup xs))
  | .nest m, xs => arity m xs (.ok (.tup [.tup xs]))
  | .fail, _ => .error .value
  | .ident m, xs => (Function.id m).call xs   -- Id(m)(*xs): cartesian.py:199-203, no boxes
  | .tyc m i, xs =>
    arity m xs (match xs[i]? with | some v => .ok (.atom v.tyCode) | none => .error .index)
  | .const m v, xs => arity m xs (.ok v)
  | .pick m is, xs => arity m xs ((pickAll xs is).map .tup)

/-- A box of declared arity `dom → cod` around a primitive. -/
def Prim.box (p : Prim) (dom cod : Nat) : CBox := ⟨dom, cod, p.sem⟩

def COPY : CBox := Prim.copy.box 1 2         -- cartesian.py:345
def SWAP : CBox := Prim.swap.box 2 2         -- cartesian.py:346
def DISCARD : CBox := Prim.discard.box 1 0   -- cartesian.py:347
def ADD : CBox := Prim.add.box 2 1           -- cartesian.py:348

/-! ### Swap, Copy, Discard (cartesian.py:273-312) -/

/-- cartesian.py:282 `[left + i - 1 - j for j in range(left) for i in range(right)]`
    (never negative: `j <= left - 1`). -/
def swapOffsets (left right : Nat) : List Nat :=
  (List.range left).flatMap (fun j => (List.range right).map (fun i => left + i - 1 - j))

/-- cartesian.py:281 `[SWAP for i in range(left) for j in range(right)]`. -/
def swapBoxes (left right : Nat) : List CBox :=
  (List.range left).flatMap (fun _ => (List.range right).map (fun _ => SWAP))

/-- `Swap(left, right)`, cartesian.py:279-283, through the scanning constructor. -/
def swapD (left right : Nat) : Except Err CDiagram :=
  CDiagram.mk? (left + right) (right + left) (swapBoxes left right)
    ((swapOffsets left right).map Int.ofNat)

/-- cartesian.py:293-294 `for i in range(dom): result = result @ COPY`. -/
def copyLoop1 : Nat → CDiagram → CDiagram
  | 0, result => result
  | n + 1, result => copyLoop1 n (result.tensor COPY.diagram)

/-- cartesian.py:296-297 `Id(i) @ Id(0).tensor(*((dom - i) * [SWAP])) @ Id(i)`. -/
def copyRow (dom i : Nat) : CDiagram :=
  ((CDiagram.id i).tensor
    ((CDiagram.id 0).tensorAll (List.replicate (dom - i) SWAP.diagram))).tensor (CDiagram.id i)

/-- cartesian.py:295-297 `for i in range(1, dom): result = result >> row(i)`. -/
def copyLoop2 (dom : Nat) : CDiagram → List Nat → Except Err CDiagram
  | result, [] => .ok result
  | result, i :: is => (result.then (copyRow dom i)).bind (fun r => copyLoop2 dom r is)

/-- `Copy(dom)`, cartesian.py:291-299 (the final constructor call passes `layers=`, no scan). -/
def copyD (dom : Nat) : Except Err CDiagram :=
  (copyLoop2 dom (copyLoop1 dom (CDiagram.id 0)) (List.range' 1 (dom - 1))).map
    (fun r => ⟨dom, 2 * dom, r.boxes, r.offsets⟩)

/-- `Discard(dom)`, cartesian.py:308-311 `Id(0).tensor(*(dom * [DISCARD]))`. -/
def discardD (dom : Nat) : CDiagram :=
  (CDiagram.id 0).tensorAll (List.replicate dom DISCARD.diagram)

end DV.Cart
