/-
  Model/Diagramize.lean — `drawing.nx2diagram` (drawing.py:189-236), `drawing.diagramize` with its
  inner `apply` (drawing.py:811-901), `cat.Box.__call__` (cat.py:616-619) and the part of
  `networkx.DiGraph` they use.  Core Lean only.

  Nodes.  A Python `Node` is `(kind, data)` with value equality (drawing.py:61-80).  Every `Node`
  the code itself constructs has one of five shapes, which are the constructors of `GNode`:
  `Node("input", obj, i)`, `Node("output", obj, i)`, `Node("dom", obj, i, depth)`,
  `Node("cod", obj, i, depth)`, `Node("box", box, depth[, offset])`.  The `offset` attribute of a
  box node has three states (`OffAttr`): absent (what `diagram2nx` builds, drawing.py:111;
  `getattr(box_node, "offset", 0)` then reads 0), `None` (what `apply` stores when the call has no
  `offset=`, drawing.py:855,863) or an integer.

  Graph.  `networkx.DiGraph` keeps nodes and, per node, successors/predecessors in insertion
  order; `add_node`/`add_edge` of something already present change nothing; `add_edge(u, v)`
  first inserts `u`, then `v`, if missing.  `NxGraph` keeps the node list and the global edge list in
  insertion order; `in_edges(v)` / `out_edges(v)` are the filtered edge list (same order, since no
  edge is ever removed).

  Function bodies.  The Python function handed to `diagramize(dom, cod, boxes)` is modelled by
  the data it produces when run: the list of box calls in program order — box, argument wires,
  `offset=` keyword — and the returned tuple (`Body`).  A wire IS a `Node` value: call number `k`
  (0-based, counting calls in program order) of box `b` returns the fresh nodes
  `Node("cod", obj=b.cod[i], i=i, depth=k)`, the parameters are `Node("input", obj=dom[i], i=i)`;
  a body may mention any node value whatsoever (Python functions can fabricate `Node`s too).
  Outside the model: arguments that are not `Node`s (`TypeError`, drawing.py:856-858), bodies that
  catch the exceptions raised by a call, the same box OBJECT listed twice in `boxes`
  (`del box._apply` then raises `AttributeError`, drawing.py:893-894) and calls of a box object
  that is equal to, but not identical with, a member of `boxes`.
-/
import Model.Layout

namespace DV.Dz
open DV

/-! ### Errors -/

/-- The exception classes of this code path: the framework's `Err` plus the two classes
    `common.err_class` prints as `exc:AttributeError` / `exc:NetworkXError`. -/
inductive DErr where
  | base (e : Err)
  | attribute
  | networkx
  deriving DecidableEq, Repr, Inhabited

def DErr.toString : DErr → String
  | .base e => e.toString
  | .attribute => "exc:AttributeError"
  | .networkx => "exc:NetworkXError"

instance : ToString DErr := ⟨DErr.toString⟩

/-- Lift a result of the core diagram operations. -/
def liftE {α} : Except Err α → Except DErr α
  | .ok a => .ok a
  | .error e => .error (.base e)

/-! ### Nodes -/

/-- The `offset` attribute of a box node. -/
inductive OffAttr where
  | absent
  | none
  | int (k : Int)
  deriving DecidableEq, Repr, Inhabited

/-- `getattr(box_node, "offset", 0)`, drawing.py:221 (`none` = Python `None`). -/
def OffAttr.get : OffAttr → Option Int
  | .absent => some 0
  | .none => Option.none
  | .int k => some k

/-- `offset=offset` of drawing.py:863. -/
def OffAttr.ofKw : Option Int → OffAttr
  | Option.none => .none
  | some k => .int k

inductive GNode where
  | input (obj : Ob) (i : Nat)
  | output (obj : Ob) (i : Nat)
  | dom (obj : Ob) (i depth : Nat)
  | cod (obj : Ob) (i depth : Nat)
  | box (box : Box) (depth : Nat) (offset : OffAttr)
  deriving DecidableEq, Repr, Inhabited

/-- `node.obj` (`none`: `AttributeError`). -/
def GNode.obj? : GNode → Option Ob
  | .input o _ => some o
  | .output o _ => some o
  | .dom o _ _ => some o
  | .cod o _ _ => some o
  | .box _ _ _ => Option.none

/-- `node.i` (`none`: `AttributeError`). -/
def GNode.i? : GNode → Option Nat
  | .input _ i => some i
  | .output _ i => some i
  | .dom _ i _ => some i
  | .cod _ i _ => some i
  | .box _ _ _ => Option.none

def GNode.isInput : GNode → Bool
  | .input _ _ => true
  | _ => false

def GNode.isBox : GNode → Bool
  | .box _ _ _ => true
  | _ => false

/-- `box_node.box` and its `offset` attribute. -/
def GNode.box? : GNode → Option (Box × OffAttr)
  | .box b _ a => some (b, a)
  | _ => Option.none

/-- `[Node("input", obj=obj, i=i) for i, obj in enumerate(dom)]`, drawing.py:882-885, 175-178. -/
def inputNodes (dom : Ty) : List GNode := dom.mapIdx (fun i o => GNode.input o i)

/-- `[Node("cod", obj=obj, i=i, depth=depth) for i, obj in enumerate(box.cod)]`,
    drawing.py:874-877, 140-141. -/
def codNodes (cod : Ty) (depth : Nat) : List GNode := cod.mapIdx (fun i o => GNode.cod o i depth)

/-! ### `networkx.DiGraph` -/

structure NxGraph where
  nodes : List GNode
  edges : List (GNode × GNode)
  deriving DecidableEq, Repr, Inhabited

def NxGraph.empty : NxGraph := ⟨[], []⟩

/-- Insert at the end unless present (dict insertion). -/
def insertNew {α} [DecidableEq α] (xs : List α) (x : α) : List α :=
  if x ∈ xs then xs else xs ++ [x]

/-- `graph.add_node(v)`. -/
def NxGraph.addNode (g : NxGraph) (v : GNode) : NxGraph := ⟨insertNew g.nodes v, g.edges⟩

/-- `graph.add_edge(u, v)`. -/
def NxGraph.addEdge (g : NxGraph) (u v : GNode) : NxGraph :=
  ⟨insertNew (insertNew g.nodes u) v, insertNew g.edges (u, v)⟩

/-- `[u for u, _ in graph.in_edges(v)]`; `NetworkXError` if `v` is not a node. -/
def NxGraph.inEdges (g : NxGraph) (v : GNode) : Except DErr (List GNode) :=
  if v ∈ g.nodes then .ok ((g.edges.filter (fun e => e.2 = v)).map (·.1)) else .error .networkx

/-- `[w for _, w in graph.out_edges(v)]` for a node `v` of the graph. -/
def NxGraph.succ (g : NxGraph) (v : GNode) : List GNode :=
  (g.edges.filter (fun e => e.1 = v)).map (·.2)

/-! ### `nx2diagram`, drawing.py:189-236 -/

/-- Lines 211-217: the nodes of kind "input" / "box", in `graph.nodes` order (the "output" list
    collected there is overwritten at line 228 before it is read). -/
def NxGraph.inputs (g : NxGraph) : List GNode := g.nodes.filter GNode.isInput
def NxGraph.boxNodes (g : NxGraph) : List GNode := g.nodes.filter GNode.isBox

/-- `scan.index(wire)` (`none`: `ValueError`). -/
def indexOf? (scan : List GNode) (w : GNode) : Option Nat :=
  if w ∈ scan then some (scan.idxOf w) else none

/-- `edge, = graph.in_edges(dom_node); wire, _ = edge` (line 224-225): unpacking anything but one
    edge is a `ValueError`. -/
def unpack1 : Except DErr (List GNode) → Except DErr GNode
  | .error e => .error e
  | .ok [w] => .ok w
  | .ok _ => .error (.base .value)

/-- Line 226-227 for `i = 0`. -/
def firstOffset (scan : List GNode) (wire : GNode) : Except DErr (Option Int) :=
  match indexOf? scan wire with
  | none => .error (.base .value)
  | some k => .ok (some (k : Int))

/-- Lines 222-227: `for i, obj in enumerate(box.dom)`, from index `i` with the remaining objects;
    returns the final value of `offset`. -/
def domLoop (g : NxGraph) (scan : List GNode) (depth : Nat) :
    Nat → List Ob → Option Int → Except DErr (Option Int)
  | _, [], off => .ok off
  | i, obj :: rest, off =>
    match unpack1 (g.inEdges (.dom obj i depth)) with
    | .error e => .error e
    | .ok wire =>
      if i = 0 then
        match firstOffset scan wire with
        | .error e => .error e
        | .ok off' => domLoop g scan depth (i + 1) rest off'
      else domLoop g scan depth (i + 1) rest off

/-- Stable insertion by `key` (Python's `sorted` is stable). -/
def insertByKey (key : GNode → Nat) (a : GNode) : List GNode → List GNode
  | [] => [a]
  | b :: l => if key a ≤ key b then a :: b :: l else b :: insertByKey key a l

def sortByKey (key : GNode → Nat) : List GNode → List GNode
  | [] => []
  | a :: l => insertByKey key a (sortByKey key l)

/-- Line 228-230: `sorted(..., key=lambda node: node.i)`; a successor without `.i` (a box node)
    is an `AttributeError`. -/
def sortOutputs (xs : List GNode) : Except DErr (List GNode) :=
  if xs.all (fun v => v.i?.isSome) then .ok (sortByKey (fun v => v.i?.getD 0) xs)
  else .error .attribute

/-- Lines 231-232: `for i, obj in enumerate(box.cod): outputs[i].offset = offset + i`.  The right
    hand side is evaluated first: `None + 0` is a `TypeError`; then `outputs[i]` may be an
    `IndexError`.  Setting the attribute itself changes no `Node` value (`data` is untouched). -/
def codLoopErr (offset : Option Int) (nOut nCod : Nat) : Option DErr :=
  if nCod = 0 then none
  else if offset = none then some (.base .type)
  else if nOut < nCod then some (.base .index)
  else none

/-- `_id(left) @ box @ _id(right)`, line 235. -/
def whisk (left : Ty) (box : Box) (right : Ty) : Except Err Diagram :=
  match (Diagram.id left).tensor (Diagram.ofBox box) with
  | .error e => .error e
  | .ok x => x.tensor (Diagram.id right)

/-- Lines 233-235 for an integer `offset`. -/
def splice (scan outputs : List GNode) (d : Diagram) (box : Box) (off : Int) :
    Except DErr (List GNode × Diagram) :=
  match whisk (pySlice d.cod none (some off)) box
      (pySlice d.cod (some (off + (box.dom.length : Int))) none) with
  | .error e => .error (.base e)
  | .ok layer =>
    match d.then layer with
    | .error e => .error (.base e)
    | .ok d' =>
      .ok (pySlice scan none (some off) ++ outputs
            ++ pySlice scan (some (off + (box.dom.length : Int))) none, d')

/-- Lines 231-235 once `offset` and the sorted `outputs` are known (`offset = None`:
    `None + len(box.dom)` at line 233 is a `TypeError`). -/
def spliceAt (scan outputs : List GNode) (d : Diagram) (box : Box) (offset : Option Int) :
    Except DErr (List GNode × Diagram) :=
  match codLoopErr offset outputs.length box.cod.length with
  | some e => .error e
  | none =>
    match offset with
    | none => .error (.base .type)
    | some off => splice scan outputs d box off

/-- One iteration of the loop at line 219. -/
def boxStep (g : NxGraph) (depth : Nat) (bn : GNode) (box : Box) (attr : OffAttr)
    (scan : List GNode) (d : Diagram) : Except DErr (List GNode × Diagram) :=
  match domLoop g scan depth 0 box.dom attr.get with
  | .error e => .error e
  | .ok offset =>
    match sortOutputs (g.succ bn) with
    | .error e => .error e
    | .ok outputs => spliceAt scan outputs d box offset

/-- Lines 219-236: `for depth, box_node in enumerate(boxes)`. -/
def boxLoop (g : NxGraph) : Nat → List GNode → List GNode → Diagram → Except DErr Diagram
  | _, [], _, d => .ok d
  | depth, bn :: rest, scan, d =>
    match bn.box? with
    | none => .error .attribute          -- not reached: the list holds box nodes only
    | some (box, attr) =>
      match boxStep g depth bn box attr scan d with
      | .error e => .error e
      | .ok (scan', d') => boxLoop g (depth + 1) rest scan' d'

/-- `nx2diagram(graph, ob_factory, id_factory)`. -/
def nx2diagram (g : NxGraph) : Except DErr Diagram :=
  boxLoop g 0 g.boxNodes g.inputs (Diagram.id (g.inputs.filterMap GNode.obj?))

/-! ### `diagramize`, drawing.py:811-901 -/

/-- One call `box(*inputs, offset=offset)` in the function body. -/
structure Call where
  box : Box
  inputs : List GNode
  offset : Option Int := none
  deriving DecidableEq, Repr, Inhabited

/-- What running the function body produces: its calls in program order and the returned tuple
    (after `tuplify`, drawing.py:886). -/
structure Body where
  calls : List Call
  ret : List GNode
  deriving DecidableEq, Repr, Inhabited

/-- `Node("box", box=box, depth=depth, offset=offset)`, line 863. -/
def Call.node (c : Call) (depth : Nat) : GNode := .box c.box depth (OffAttr.ofKw c.offset)

/-- Lines 866-872: `for i, obj in enumerate(box.dom)` with the remaining `inputs[i:]`. -/
def applyDom (bn : GNode) (depth : Nat) : Nat → List Ob → List GNode → NxGraph → Except DErr NxGraph
  | _, [], _, g => .ok g
  | _, _ :: _, [], _ => .error (.base .index)     -- not reached: line 859 checked the lengths
  | i, obj :: objs, w :: ws, g =>
    match w.obj? with
    | none => .error .attribute
    | some o =>
      if o ≠ obj then .error (.base .axiom)
      else applyDom bn depth (i + 1) objs ws
        ((g.addEdge w (.dom obj i depth)).addEdge (.dom obj i depth) bn)

/-- Lines 873-877. -/
def applyCod (bn : GNode) (depth : Nat) : Nat → List Ob → NxGraph → NxGraph
  | _, [], g => g
  | i, obj :: objs, g => applyCod bn depth (i + 1) objs (g.addEdge bn (.cod obj i depth))

/-- `box(*inputs, offset=…)`: cat.py:616-619 (a box outside `boxes` has no `_apply`), then
    `apply`, drawing.py:855-878.  `depth = len(box_nodes)` is the number of earlier calls. -/
def apply (sig : List Box) (g : NxGraph) (depth : Nat) (c : Call) : Except DErr NxGraph :=
  if c.box ∉ sig then .error (.base .type)
  else if c.inputs.length ≠ c.box.dom.length then .error (.base .axiom)
  else
    match applyDom (c.node depth) depth 0 c.box.dom c.inputs (g.addNode (c.node depth)) with
    | .error e => .error e
    | .ok g' => .ok (applyCod (c.node depth) depth 0 c.box.cod g')

/-- Running the body: the calls in order (any exception aborts `diagramize`). -/
def runCalls (sig : List Box) : NxGraph → Nat → List Call → Except DErr NxGraph
  | g, _, [] => .ok g
  | g, depth, c :: cs =>
    match apply sig g depth c with
    | .error e => .error e
    | .ok g' => runCalls sig g' (depth + 1) cs

/-- Lines 881-885. -/
def initGraph (dom : Ty) : NxGraph := ⟨inputNodes dom, []⟩

/-- Lines 887-892: `for i, obj in enumerate(cod)` with the remaining `outputs[i:]`
    (`outputs[i]` beyond the returned tuple: `IndexError`; surplus returned values are ignored). -/
def addOutputs : Nat → List Ob → List GNode → NxGraph → Except DErr NxGraph
  | _, [], _, g => .ok g
  | _, _ :: _, [], _ => .error (.base .index)
  | i, obj :: objs, w :: ws, g =>
    match w.obj? with
    | none => .error .attribute
    | some o =>
      if o ≠ obj then .error (.base .axiom)
      else addOutputs (i + 1) objs ws (g.addEdge w (.output obj i))

/-- Lines 895-900. -/
def checkCod (cod : Ty) (d : Diagram) : Except DErr Diagram :=
  if d.cod ≠ cod then .error (.base .axiom) else .ok d

/-- The graph `diagramize` hands to `nx2diagram`. -/
def bodyGraph (sig : List Box) (dom cod : Ty) (body : Body) : Except DErr NxGraph :=
  match runCalls sig (initGraph dom) 0 body.calls with
  | .error e => .error e
  | .ok g => addOutputs 0 cod body.ret g

/-- `diagramize(dom, cod, boxes, id_factory)(func)`; `hasId`: an `id_factory` was given. -/
def diagramize (sig : List Box) (hasId : Bool) (dom cod : Ty) (body : Body) : Except DErr Diagram :=
  if !hasId && sig.isEmpty then .error (.base .value)           -- line 845-846
  else
    match bodyGraph sig dom cod body with
    | .error e => .error e
    | .ok g =>
      match nx2diagram g with
      | .error e => .error e
      | .ok d => checkCod cod d

/-! ### The graph of `diagram2nx` with its node data -/

/-- The Python `Node` behind a node of the layout model (`Model/Layout.lean` keeps
    `(kind, i, depth)` only): drawing.py:176 / 183 / 111 / 114 / 125, with `attr k` the `offset`
    attribute of box node `k` (`diagram2nx` sets none: `fun _ => .absent`). -/
def decorate (d : Diagram) (attr : Nat → OffAttr) (v : Layout.Node) : GNode :=
  match v.kind with
  | .input => .input (d.dom.getD v.i default) v.i
  | .output => .output (d.cod.getD v.i default) v.i
  | .box => .box (d.boxes.getD v.depth default) v.depth (attr v.depth)
  | .dom => .dom ((d.boxes.getD v.depth default).dom.getD v.i default) v.i v.depth
  | .cod => .cod ((d.boxes.getD v.depth default).cod.getD v.i default) v.i v.depth

/-- The `networkx` graph returned by `diagram2nx(d)` (nodes in `add_node` order = `pos` order,
    edges in insertion order), box node `k` carrying the attribute `attr k`. -/
def nxGraph (d : Diagram) (attr : Nat → OffAttr) (g : Layout.Graph) : NxGraph :=
  ⟨g.nodes.map (fun q => decorate d attr q.node),
   g.edges.map (fun e => (decorate d attr e.1, decorate d attr e.2))⟩

/-- `nx2diagram(diagram2nx(d)[0], …)` after setting `node.offset = attr k` on box nodes
    (`.absent`: left as `diagram2nx` built it). -/
def roundTrip (d : Diagram) (attr : Nat → OffAttr) : Except DErr Diagram :=
  match Layout.diagram2nx d with
  | .error e => .error (.base e)
  | .ok g => nx2diagram (nxGraph d attr g)

/-! ### Specification vocabulary: planar bodies -/

/-- The open wires after a call that took the block `scan[off : off + m]`. -/
def nextOpen (scan : List GNode) (off m : Nat) (cod : Ty) (depth : Nat) : List GNode :=
  scan.take off ++ codNodes cod depth ++ scan.drop (off + m)

/-- Call `c` (a box of the signature, arguments of the right types) takes the contiguous block of
    the open wires `scan` that starts at position `off`, in order; a call without arguments says
    where it goes with `offset=off`. -/
def Call.Takes (sig : List Box) (scan : List GNode) (c : Call) (off : Nat) : Prop :=
  c.box ∈ sig ∧ c.inputs.map GNode.obj? = c.box.dom.map some
    ∧ off + c.inputs.length ≤ scan.length
    ∧ (scan.drop off).take c.inputs.length = c.inputs
    ∧ (c.inputs = [] → c.offset = some (off : Int))

instance (sig : List Box) (scan : List GNode) (c : Call) (off : Nat) :
    Decidable (c.Takes sig scan off) := by unfold Call.Takes; exact inferInstance

/-- The body uses its wires in planar order: starting from the open wires `scan`, call `k`, `k+1`,
    … take contiguous blocks at positions `offs`, and what is left open at the end is exactly the
    returned tuple `ret`. -/
def PlanarFrom (sig : List Box) : List GNode → Nat → List Call → List Nat → List GNode → Prop
  | scan, _, [], [], ret => scan = ret
  | scan, k, c :: cs, off :: offs, ret =>
    c.Takes sig scan off
      ∧ PlanarFrom sig (nextOpen scan off c.inputs.length c.box.cod k) (k + 1) cs offs ret
  | _, _, _, _, _ => False

/-- The open wires before call `k` of a planar body (`offs` as in `PlanarFrom`). -/
def openBefore : List GNode → Nat → List Call → List Nat → Nat → List GNode
  | scan, _, _, _, 0 => scan
  | scan, depth, c :: cs, off :: offs, k + 1 =>
    openBefore (nextOpen scan off c.inputs.length c.box.cod depth) (depth + 1) cs offs k
  | scan, _, _, _, _ => scan

/-- Where the arguments of `c` would have to sit: the position of the first argument among the
    open wires, or the `offset=` keyword of a call without arguments. -/
def Call.candidate (scan : List GNode) (c : Call) : Option Nat :=
  match c.inputs, c.offset with
  | w :: _, _ => some (scan.idxOf w)
  | [], some k => if 0 ≤ k then some k.toNat else none
  | [], none => none

/-- Decision procedure for "the body is planar": the offsets, if it is. -/
def planarOffsets (sig : List Box) : List GNode → Nat → List Call → List GNode → Option (List Nat)
  | scan, _, [], ret => if scan = ret then some [] else none
  | scan, k, c :: cs, ret =>
    match c.candidate scan with
    | none => none
    | some off =>
      if c.Takes sig scan off then
        (planarOffsets sig (nextOpen scan off c.inputs.length c.box.cod k) (k + 1) cs ret).map
          (off :: ·)
      else none

/-- `body` is a planar body for `diagramize(dom, cod, sig)`: wires used in planar order from the
    parameters `inputNodes dom`, all open wires returned, of types `cod`. -/
def Body.planar (sig : List Box) (dom cod : Ty) (body : Body) : Option (List Nat) :=
  if body.ret.map GNode.obj? = cod.map some then
    planarOffsets sig (inputNodes dom) 0 body.calls body.ret
  else none

end DV.Dz
