/-
  Model/TensorBubble.lean — tensor bubbles (discopy/tensor.py `Bubble`, `Tensor.map`, and the
  `Bubble` branch of `tensor.Functor.__call__`), core Lean only.

  * `Tensor.map f` : `Tensor.map`, tensor.py:258-261 —
    `Tensor(self.dom, self.cod, list(map(func, self.array.flatten())))`.
  * a `tensor.Bubble` is a box of the diagram it sits in that carries two more attributes, its
    function `func` and the diagram `inside` (tensor.py:653-700, monoidal.py:763-789).  The flat
    `Diagram` of Model/Basic.lean keeps the bubble as an ordinary `Box` (kind `gen`, its own
    `dom`/`cod` — monoidal.py:786 lets the caller override them) and the attributes are looked
    up in `BFunctor.bub` (`bub b = some ⟨func, inside⟩` iff the Python object is a `Bubble`).
    The key is the box itself: two bubbles of one diagram are distinct boxes even when Python's
    `==`/`repr` (which only look at `inside`, cat.py `Bubble.__repr__`) cannot tell them apart;
    the harness gives each its own `data` tag.
  * `TFunctor.callI I` is the loop of tensor.py:365-391 with `self(box)` abstracted as `I`
    (the steps `stepSwap`/`stepBox` are those of Model/Tensor.lean, shared); `BFunctor.box n`
    is `self(box)` including the first branch of `__call__` (tensor.py:336-337):
    `if isinstance(diagram, Bubble): return self(diagram.inside).map(diagram.func)`.
    The recursion through `inside` is bounded by fuel `n` (Python recurses on a finite object
    tree; with `n` > nesting depth the fuel is never exhausted — `Err.fuel` otherwise).
  * `BFunctor.ref n` is the reference semantics of property C09 for diagrams with bubbles:
    the layer-by-layer composite in which a bubble is interpreted by its defining tensor, the
    entrywise image under `func` of the layer-by-layer composite of `inside` (all the way down).
-/
import Model.Tensor

namespace DV

namespace Tensor
variable {R : Type}

/-- `Tensor.map`, tensor.py:258-261: `array.flatten()` is the row-major data as a 1-d array,
    `list(map(func, ·))` maps it, and the constructor reshapes to `dom @ cod or (1, )`. -/
def map (f : R → R) (t : Tensor R) : Tensor R :=
  mk' t.dom t.cod ⟨[t.arr.data.size], t.arr.data.map f⟩

end Tensor

/-- The attributes a `tensor.Bubble` has on top of a box (tensor.py:686-688). -/
structure BubbleSpec (R : Type) where
  func : R → R
  inside : Diagram

/-- A tensor functor and the table of the boxes that are `Bubble` objects. -/
structure BFunctor (R : Type) where
  base : TFunctor R
  bub : Box → Option (BubbleSpec R)

namespace TFunctor
variable {R : Type} [Add R] [Mul R] [Zero R] [One R] [Conj R]

/-- One iteration of the loop of tensor.py:368-390, with `self(box)` given by `I`. -/
def stepI (F : TFunctor R) (I : Box → Except Err (Tensor R)) (ddom : Ty) (st : St R) (b : Box)
    (off : Int) : Except Err (St R) :=
  if b.kind = .swap then .ok (F.stepSwap ddom st b off)
  else match I b with
    | .error e => .error e
    | .ok t => .ok (F.stepBox ddom st b off t)

/-- `for box, off in zip(diagram.boxes, diagram.offsets)`. -/
def loopI (F : TFunctor R) (I : Box → Except Err (Tensor R)) (ddom : Ty) :
    St R → List Box → List Int → Except Err (St R)
  | st, b :: bs, o :: os =>
    match F.stepI I ddom st b o with
    | .error e => .error e
    | .ok st' => loopI F I ddom st' bs os
  | st, _, _ => .ok st

/-- `tensor.Functor.__call__` on a diagram, tensor.py:365-391, with `self(box)` given by `I`. -/
def callI (F : TFunctor R) (I : Box → Except Err (Tensor R)) (d : Diagram) :
    Except Err (Tensor R) :=
  match F.loopI I d.dom ⟨d.dom, (Tensor.id (R := R) (F.ty d.dom)).arr⟩ d.boxes d.offsets with
  | .error e => .error e
  | .ok st => Tensor.mk? (F.ty d.dom) (F.ty d.cod) st.arr

/-- `id(F left) ⊗ I(box) ⊗ id(F right)`. -/
def layerI (F : TFunctor R) (I : Box → Except Err (Tensor R)) (l : Layer) :
    Except Err (Tensor R) :=
  match I l.box with
  | .error e => .error e
  | .ok t => .ok (((Tensor.id (F.ty l.left)).tensor t).tensor (Tensor.id (F.ty l.right)))

/-- Fold of `then` over the layer tensors. -/
def layerFoldI (F : TFunctor R) (I : Box → Except Err (Tensor R)) :
    Tensor R → List Layer → Except Err (Tensor R)
  | acc, [] => .ok acc
  | acc, l :: ls =>
    match F.layerI I l with
    | .error e => .error e
    | .ok t => match acc.then t with
      | .error e => .error e
      | .ok acc' => layerFoldI F I acc' ls

/-- The layer-by-layer composite with boxes interpreted by `I`. -/
def layerwiseI (F : TFunctor R) (I : Box → Except Err (Tensor R)) (d : Diagram) :
    Except Err (Tensor R) :=
  F.layerFoldI I (Tensor.id (F.ty d.dom)) d.layers.boxes

end TFunctor

namespace BFunctor
variable {R : Type} [Add R] [Mul R] [Zero R] [One R] [Conj R]

/-- `.map(func)` of a result. -/
def mapE (f : R → R) : Except Err (Tensor R) → Except Err (Tensor R)
  | .error e => .error e
  | .ok t => .ok (t.map f)

/-- `self(box)`, tensor.py:336-361: the `Bubble` branch comes first
    (`self(diagram.inside).map(diagram.func)`), every other box is `TFunctor.box`. -/
def box (F : BFunctor R) : Nat → Box → Except Err (Tensor R)
  | 0, b =>
    match F.bub b with
    | some _ => .error .fuel
    | none => F.base.box b
  | n + 1, b =>
    match F.bub b with
    | some s => mapE s.func (F.base.callI (box F n) s.inside)
    | none => F.base.box b

/-- `self(diagram)` for a diagram whose boxes may be bubbles (nesting depth ≤ `n`). -/
def call (F : BFunctor R) (n : Nat) (d : Diagram) : Except Err (Tensor R) :=
  F.base.callI (F.box n) d

/-- One level of the reference semantics: the layer-by-layer composite of the tensors
    `self(box)` of the boxes. -/
def layerwise (F : BFunctor R) (n : Nat) (d : Diagram) : Except Err (Tensor R) :=
  F.base.layerwiseI (F.box n) d

/-- The defining tensor of a box: for a bubble the entrywise image of the layer-by-layer
    composite of its inside (recursively), for every other box `TFunctor.box`. -/
def refBox (F : BFunctor R) : Nat → Box → Except Err (Tensor R)
  | 0, b =>
    match F.bub b with
    | some _ => .error .fuel
    | none => F.base.box b
  | n + 1, b =>
    match F.bub b with
    | some s => mapE s.func (F.base.layerwiseI (refBox F n) s.inside)
    | none => F.base.box b

/-- Reference semantics of C09 with bubbles: layer-by-layer all the way down. -/
def ref (F : BFunctor R) (n : Nat) (d : Diagram) : Except Err (Tensor R) :=
  F.base.layerwiseI (F.refBox n) d

/-- Boolean form of the hypotheses on the bubble listed for `b` (for the driver): it is a
    generic box with the type of its inside (the default of monoidal.py:786), and the
    `Swap`/`Cup`/`Cap` boxes inside are genuine.  (`inside.WF` is C01's `mk?` theorem.) -/
def goodEntryB (b : Box) (inside : Diagram) : Bool :=
  b.kind == .gen && b.dom == inside.dom && b.cod == inside.cod
    && inside.boxes.all TFunctor.genuineB

/-- The table form the driver builds: the bubbles of a request, keyed by their box. -/
def ofTable (base : TFunctor R) (tab : List (Box × BubbleSpec R)) : BFunctor R :=
  ⟨base, fun b => (tab.find? (fun p => p.1 == b)).map (·.2)⟩

def goodTableB (tab : List (Box × BubbleSpec R)) : Bool :=
  tab.all (fun p => goodEntryB p.1 p.2.inside)

end BFunctor

end DV
