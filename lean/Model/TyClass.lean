/-
  Model/TyClass.lean — the coercion of a type to the type CLASS of the receiver (core Lean only).

  `Ty.tensor` (monoidal.py:126-130) and `Ty.__getitem__` on a slice (monoidal.py:184-186) end with
  `self.upgrade(Ty(*objects))`; `Diagram.tensor` (monoidal.py:425) computes dom and cod of a tensor
  with them, so the LEFT operand decides the class of the result:
    * `ty`  — monoidal.Ty.upgrade (monoidal.py:157-159, identity), rigid.Ty.upgrade (rigid.py:82-83),
              circuit.Ty.upgrade (circuit.py:147-148): `Ty(*old.objects)`, the objects as they are;
    * `pro` — monoidal.PRO.upgrade (monoidal.py:218-222): TypeError unless every object is NAMED 1,
              then `PRO(len(old))`; rigid.PRO.upgrade (rigid.py:122-123) goes through it.  The
              result's objects are `Ob(1)` with winding number 0 (rigid.py:100-104);
    * `dim` — tensor.Dim.upgrade (tensor.py:45-46) = `Dim(*[x.name ...])`, and Dim.__init__
              (tensor.py:48-56) DROPS every object named 1, then refuses a name that is not an int
              (TypeError) or is < 1 (ValueError), in order.
  Names are the `repr` tokens of the harness: the integer 1 is "1", the string '1' is "'1'".
-/
import Model.Basic

namespace DV

inductive TyClass where
  | ty | pro | dim
  deriving DecidableEq, Repr, Inhabited

inductive NameKind where
  | one | pos | nonpos | other
  deriving DecidableEq, Repr

def allDigits (cs : List Char) : Bool := !cs.isEmpty && cs.all Char.isDigit

/-- What `Dim.__init__` sees in a name token: the int 1, another positive int, an int < 1, or
    something that is not an int. -/
def nameKind (s : String) : NameKind :=
  match s.toList with
  | ['1'] => .one
  | '-' :: cs => if allDigits cs then .nonpos else .other
  | cs => if allDigits cs then (if cs.all (· == '0') then .nonpos else .pos) else .other

/-- tensor.py:48-56 on the names of `old.objects`. -/
def dimObs : Ty → Except Err Ty
  | [] => .ok []
  | o :: t =>
    match nameKind o.name with
    | .one => dimObs t
    | .other => .error .type
    | .nonpos => .error .value
    | .pos => match dimObs t with
      | .error e => .error e
      | .ok r => .ok (⟨o.name, 0⟩ :: r)

/-- monoidal.py:218-222 followed by `PRO(len(old))`. -/
def proUpgradeTy (t : Ty) : Except Err Ty :=
  if t.all (fun o => o.name == "1") then .ok (t.map fun _ => ⟨"1", 0⟩) else .error .type

def TyClass.upgrade : TyClass → Ty → Except Err Ty
  | .ty, t => .ok t
  | .pro, t => proUpgradeTy t
  | .dim, t => dimObs t

/-- `t @ u` for `t` of class `c` (monoidal.py:126-130). -/
def Ty.tensorAs (c : TyClass) (t u : Ty) : Except Err Ty := c.upgrade (t ++ u)

/-- `t[start:stop]` for `t` of class `c` (monoidal.py:184-186). -/
def Ty.sliceAs (c : TyClass) (t : Ty) (start stop : Option Int) : Except Err Ty :=
  c.upgrade (pySlice t start stop)

end DV
