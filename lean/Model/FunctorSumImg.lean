/-
  Model/FunctorSumImg.lean — functors whose box map sends boxes to FORMAL SUMS of diagrams.

  A box map (`ar`, dict or callable) may return any arrow of the target category; the formal sums
  `cat.Sum` / `monoidal.Sum` are arrows (`Sum` is a `Box`).  `monoidal.Functor.__call__`
  (monoidal.py:838-845) then computes `result >> id_l @ self(box) @ id_r` with the library's own
  `>>` and `@`, which dispatch on sums:
    * `Diagram.tensor` with a `Sum` on the right: `self.sum([self]).tensor(other)`  (monoidal.py:419-420)
    * `monoidal.Sum.tensor` with a non-sum on the right: `Sum(others)`              (monoidal.py:750-753)
    * `cat.Arrow.then` with a `Sum` on the right: `self.sum([self]).then(other)`    (cat.py:302-303,
      reached from monoidal.py:385-386)
    * `cat.Sum.then` with a non-sum on the right: `Sum(list(others))`               (cat.py:712-718)
  so the value of the loop is either a plain diagram or a formal sum: type `DS`.
  The image of a daggered box is `self.ar[box.dagger()].dagger()` (cat.py:842-844): `Diagram.dagger`
  or `Sum.dagger` (cat.py:720-722).  Core Lean only.
-/
import Model.FunctorSum

namespace DV

/-- An arrow of the free target category: a plain diagram or a formal sum of diagrams. -/
inductive DS where
  | diag (d : Diagram)
  | sum (s : Sum)
  deriving DecidableEq, Repr, Inhabited

def DS.dom : DS → Ty
  | .diag d => d.dom
  | .sum s => s.dom

def DS.cod : DS → Ty
  | .diag d => d.cod
  | .sum s => s.cod

/-- `self.sum([self])` / `Sum([other])`: what the binary operators wrap a plain diagram into when the
    other operand is a sum. -/
def DS.toSum : DS → Sum
  | .diag d => Sum.single d
  | .sum s => s

def DS.ofSum (r : Except Err Sum) : Except Err DS :=
  match r with
  | .error e => .error e
  | .ok s => .ok (.sum s)

def DS.ofDiag (r : Except Err Diagram) : Except Err DS :=
  match r with
  | .error e => .error e
  | .ok d => .ok (.diag d)

/-- `a >> b` (monoidal.py:384-392, cat.py:298-307, cat.py:712-718). -/
def DS.then : DS → DS → Except Err DS
  | .diag a, .diag b => DS.ofDiag (a.then b)
  | .diag a, .sum b => DS.ofSum ((Sum.single a).then b)
  | .sum a, .diag b => DS.ofSum (a.then (Sum.single b))
  | .sum a, .sum b => DS.ofSum (a.then b)

/-- `a @ b` (monoidal.py:415-433, 750-753). -/
def DS.tensor : DS → DS → Except Err DS
  | .diag a, .diag b => DS.ofDiag (a.tensor b)
  | .diag a, .sum b => DS.ofSum ((Sum.single a).tensor b)
  | .sum a, .diag b => DS.ofSum (a.tensor (Sum.single b))
  | .sum a, .sum b => DS.ofSum (a.tensor b)

/-- `x.dagger()` (monoidal.py Diagram.dagger / cat.py:720-722). -/
def DS.dagger : DS → Except Err DS
  | .diag d => .ok (.diag d.dagger)
  | .sum s => DS.ofSum s.dagger

/-- `DS.__eq__`: a `Sum` is never equal to a plain diagram (cat.py:666-668; `Diagram.__eq__` compares
    the boxes, and the only box of a sum seen as a diagram is the sum itself). -/
def DS.eqv : DS → DS → Bool
  | .diag a, .diag b => a.eqv b
  | .sum a, .sum b => a.eqv b
  | _, _ => false

/-- A functor with arbitrary arrows of the free category as box images. -/
structure FunctorS where
  ob : List (String × Ty)
  ar : List (Box × DS)

/-- The object part is the one of `Functor` (monoidal.py:830-832 / rigid.py:419-430). -/
def FunctorS.base (F : FunctorS) : Functor := ⟨F.ob, []⟩

abbrev FunctorS.ty (F : FunctorS) (t : Ty) : Except Err Ty := F.base.ty t

def FunctorS.arLookup (F : FunctorS) (b : Box) : Except Err DS :=
  match F.ar.find? (fun p => p.1 == b) with
  | some p => .ok p.2
  | none => .error .value

/-- Swap / Cup / Cap: as `Functor.box` (plain diagrams). -/
def FunctorS.special (F : FunctorS) (b : Box) : Except Err DS :=
  DS.ofDiag (F.base.box b)

/-- Image of one box (cat.py:841-845). -/
def FunctorS.box (F : FunctorS) (b : Box) : Except Err DS :=
  match b.kind with
  | .gen =>
    if b.dagger then
      match F.arLookup b.dag with
      | .error e => .error e
      | .ok x => x.dagger
    else F.arLookup b
  | .swap => F.special b
  | .cup => F.special b
  | .cap => F.special b

/-- `id_l @ x @ id_r` (monoidal.py:843; `@` is left associative). -/
def DS.whisker (l : Ty) (x : DS) (r : Ty) : Except Err DS :=
  match (DS.diag (Diagram.id l)).tensor x with
  | .error e => .error e
  | .ok lx => lx.tensor (.diag (Diagram.id r))

/-- One iteration of monoidal.py:840-844. -/
def FunctorS.stepBox (F : FunctorS) (scan : Ty) (result : DS) (b : Box) (off : Int) :
    Except Err (Ty × DS) :=
  match F.ty (pySlice scan none (some off)),
        F.ty (pySlice scan (some (off + b.dom.length)) none), F.box b with
  | .ok l, .ok r, .ok x =>
    match DS.whisker l x r with
    | .error e => .error e
    | .ok layer => match result.then layer with
      | .error e => .error e
      | .ok res =>
        .ok (pySlice scan none (some off) ++ b.cod ++ pySlice scan (some (off + b.dom.length)) none, res)
  | .error e, _, _ => .error e
  | _, .error e, _ => .error e
  | _, _, .error e => .error e

def FunctorS.loop (F : FunctorS) : Ty → DS → List Box → List Int → Except Err DS
  | scan, result, b :: bs, o :: os =>
    match F.stepBox scan result b o with
    | .error e => .error e
    | .ok (scan', res) => F.loop scan' res bs os
  | _, result, _, _ => .ok result

/-- `F(diagram)`, monoidal.py:838-845, for a box map with sums among its images. -/
def FunctorS.applyS (F : FunctorS) (d : Diagram) : Except Err DS :=
  match F.ty d.dom with
  | .error e => .error e
  | .ok t => F.loop d.dom (.diag (Diagram.id t)) d.boxes d.offsets

/-- Embedding of the functors with plain images. -/
def Functor.toS (F : Functor) : FunctorS := ⟨F.ob, F.ar.map fun p => (p.1, DS.diag p.2)⟩

end DV
