/-
  Model/FunctorSum.lean — cat.py:833-835: a functor applied to a formal sum,
  `self.ar_factory.sum(list(map(self, arrow)), self(arrow.dom), self(arrow.cod))`.
  (`monoidal.Functor.__call__`, monoidal.py:828-829, calls the same method — once without using the
  result, once through the `isinstance(diagram, Box)` branch — and `rigid.Functor.__call__` falls
  through to it, rigid.py:437-438.)  `ar_factory.sum` is the `Sum` constructor, which re-validates
  every term against the given types (cat.py:643-661).  Core Lean only.
-/
import Model.Functor
import Model.Sum

namespace DV

/-- `F(sum)`: the terms are mapped first (left to right), then `dom`, then `cod`; the first failure
    is the exception raised; last the `Sum` constructor checks the types of the images. -/
def Functor.applySum (F : Functor) (s : Sum) : Except Err Sum :=
  match mapE F.apply s.terms with
  | .error e => .error e
  | .ok ts =>
    match F.ty s.dom with
    | .error e => .error e
    | .ok d =>
      match F.ty s.cod with
      | .error e => .error e
      | .ok c => Sum.mk? ts (some d) (some c)

end DV
