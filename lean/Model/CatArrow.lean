/-
  Model/CatArrow.lean — the free-category level: plain `cat.Arrow`s and `cat.Functor`s
  (discopy/cat.py), core Lean only.

  `LArrow` (Model/Basic.lean) already *is* the transcription of `cat.Arrow`: an arrow carries its own
  `dom`, `cod` and list of boxes, and `then` / slicing / `[::-1]` are cat.py's code.  There it is
  used for the `layers` of a diagram (objects = types, boxes = layers).  A plain arrow of
  `cat.Box`es between `cat.Ob`s is the same structure with
      object  `Ob('x')`           ↦  the one-wire type `[x]`   (a `monoidal.Ty` used as an object ↦ itself)
      box     `Box(f, x, y, …)`   ↦  the layer `⟨[], f : [x] → [y], []⟩`   (`Layer.dom = box.dom`)
  so that every operation of the class `cat` is evaluated by the code's own model.  What this file
  adds is what the diagram level never calls: the scanning constructor (cat.py:150-167), the n-ary
  calling convention of `then` (cat.py:307-310), integer indexing (cat.py:240) and functor
  application (cat.py:853-868), together with the expression language of the correspondence.
-/
import Model.Basic

namespace DV

/-! ### Constructor, n-ary composition, indexing -/

/-- The scan of cat.py:156-163: every box has to start where the scan stands. -/
def scanArrow : Ty → List Layer → Except Err Ty
  | scan, [] => .ok scan
  | scan, l :: ls => if l.dom ≠ scan then .error .axiom else scanArrow l.cod ls

/-- `Arrow(dom, cod, boxes)`, cat.py:150-167. -/
def LArrow.mk? (dom cod : Ty) (boxes : List Layer) : Except Err LArrow :=
  match scanArrow dom boxes with
  | .error e => .error e
  | .ok scan => if scan ≠ cod then .error .axiom else .ok ⟨dom, cod, boxes⟩

/-- `self.then(*others)`, cat.py:307-310: no argument gives `self` back; otherwise
    `self.then(others[0]).then(*others[1:])` where `self.then(others[0])` is the binary composition
    with its check `self.cod == others[0].dom` (cat.py:316) — made whatever `self` is, an arrow
    without boxes included. -/
def LArrow.thenN : LArrow → List LArrow → Except Err LArrow
  | a, [] => .ok a
  | a, b :: bs => match a.then b with
    | .error e => .error e
    | .ok x => x.thenN bs

/-- `arrow[i]` for an integer `i`, cat.py:240: the box itself (a box is the arrow `[itself]`). -/
def LArrow.getItem (a : LArrow) (i : Int) : Except Err LArrow :=
  match pyGet? a.boxes i with
  | none => .error .index
  | some l => .ok l.arrow

/-! ### Values: an arrow, and whether it is an instance of `cat.Box`

`Functor.__call__` (cat.py:862) and `Box.__getitem__` (cat.py:586-589) dispatch on the class. -/

structure CVal where
  arrow : LArrow
  isBox : Bool := false
  deriving DecidableEq, Repr, Inhabited

/-- `x[::-1]` / `x.dagger()`: `Box.dagger` (cat.py:581-584) for a box — again a box —, the reversed
    slice of cat.py:220-228 for any other arrow. -/
def CVal.dagger (x : CVal) : Except Err CVal :=
  if x.isBox then
    match x.arrow.boxes with
    | [l] => .ok ⟨l.dag.arrow, true⟩
    | _ => .error .value          -- unreachable: a box is the arrow `[itself]`
  else match x.arrow.sliceRev none none with
    | .error e => .error e
    | .ok r => .ok ⟨r, false⟩

/-- `x[s:t:-1]`: cat.py:587 sends `box[::-1]` (both bounds omitted) to `Box.dagger`. -/
def CVal.sliceRev (x : CVal) (s t : Option Int) : Except Err CVal :=
  if x.isBox && s.isNone && t.isNone then x.dagger
  else match x.arrow.sliceRev s t with
    | .error e => .error e
    | .ok r => .ok ⟨r, false⟩

/-- `x.then(*args)`: `x` itself for no argument (cat.py:307-308). -/
def CVal.thenN (x : CVal) (args : List CVal) : Except Err CVal :=
  match args with
  | [] => .ok x
  | _ => match x.arrow.thenN (args.map (·.arrow)) with
    | .error e => .error e
    | .ok r => .ok ⟨r, false⟩

/-! ### Functors, cat.py:767-868 -/

/-- `ob`: the mapping on objects; `ar`: the mapping on (undaggered) boxes.  A missing key is a
    Python `KeyError` (model: `.value`).  Nothing relates the two mappings: that is the point. -/
structure CFunctor where
  ob : List (Ty × Ty)
  ar : List (Layer × CVal)
  deriving Repr, Inhabited

/-- cat.py:860-861. -/
def CFunctor.obj (F : CFunctor) (t : Ty) : Except Err Ty :=
  match F.ob.lookup t with
  | some x => .ok x
  | none => .error .value

def CFunctor.arLookup (F : CFunctor) (l : Layer) : Except Err CVal :=
  match F.ar.find? (fun p => p.1 == l) with
  | some p => .ok p.2
  | none => .error .value

/-- cat.py:862-865: the image of a box is looked up and handed back as it is — unchecked; the
    image of a daggered box is the dagger of the image of its dagger. -/
def CFunctor.box (F : CFunctor) (l : Layer) : Except Err CVal :=
  if l.box.dagger then
    match F.arLookup l.dag with
    | .error e => .error e
    | .ok x => x.dagger
  else F.arLookup l

/-- `map(self, arrow)`: the images of the boxes, all computed before `then` is entered. -/
def CFunctor.images (F : CFunctor) : List Layer → Except Err (List LArrow)
  | [] => .ok []
  | l :: ls => match F.box l with
    | .error e => .error e
    | .ok x => match F.images ls with
      | .error e => .error e
      | .ok xs => .ok (x.arrow :: xs)

/-- cat.py:866-867: `self.ar_factory.id(self(arrow.dom)).then(*map(self, arrow))`. -/
def CFunctor.applyArrow (F : CFunctor) (a : LArrow) : Except Err LArrow :=
  match F.obj a.dom with
  | .error e => .error e
  | .ok t => match F.images a.boxes with
    | .error e => .error e
    | .ok imgs => (LArrow.id t).thenN imgs

/-- `F(x)`, cat.py:853-868 (arrows that are neither sums nor bubbles). -/
def CFunctor.apply (F : CFunctor) (x : CVal) : Except Err CVal :=
  if x.isBox then
    match x.arrow.boxes with
    | [l] => F.box l
    | _ => .error .value          -- unreachable
  else match F.applyArrow x.arrow with
    | .error e => .error e
    | .ok r => .ok ⟨r, false⟩

/-! ### The op language of the class `cat` -/

inductive CExpr where
  | mk (dom cod : Ty) (boxes : List Layer)          -- `Arrow(dom, cod, boxes)`
  | box (l : Layer)                                 -- `Box(name, dom, cod, data=…, _dagger=…)`
  | id (t : Ty)                                     -- `Id(x)` / `Arrow.id(x)`
  | thenN (recv : CExpr) (args : List CExpr)        -- `recv.then(*args)`; `>>`, `<<` are one argument
  | dagger (a : CExpr)                              -- `a.dagger()`
  | slice (a : CExpr) (start stop : Option Int)     -- `a[start:stop]`
  | sliceRev (a : CExpr) (start stop : Option Int)  -- `a[start:stop:-1]`
  | getItem (a : CExpr) (i : Int)                   -- `a[i]`
  | functor (F : CFunctor) (a : CExpr)              -- `Functor(ob, ar)(a)`
  deriving Repr, Inhabited

mutual
def CExpr.eval : CExpr → Except Err CVal
  | .mk dom cod boxes => match LArrow.mk? dom cod boxes with
    | .error e => .error e
    | .ok a => .ok ⟨a, false⟩
  | .box l => .ok ⟨l.arrow, true⟩
  | .id t => .ok ⟨LArrow.id t, false⟩
  | .thenN r args => match r.eval with
    | .error e => .error e
    | .ok x => match CExpr.evalList args with
      | .error e => .error e
      | .ok xs => x.thenN xs
  | .dagger a => match a.eval with
    | .error e => .error e
    | .ok x => x.dagger
  | .slice a s t => match a.eval with
    | .error e => .error e
    | .ok x => match x.arrow.slice s t with
      | .error e => .error e
      | .ok r => .ok ⟨r, false⟩
  | .sliceRev a s t => match a.eval with
    | .error e => .error e
    | .ok x => x.sliceRev s t
  | .getItem a i => match a.eval with
    | .error e => .error e
    | .ok x => match x.arrow.getItem i with
      | .error e => .error e
      | .ok r => .ok ⟨r, true⟩
  | .functor F a => match a.eval with
    | .error e => .error e
    | .ok x => F.apply x
def CExpr.evalList : List CExpr → Except Err (List CVal)
  | [] => .ok []
  | a :: as => match a.eval with
    | .error e => .error e
    | .ok x => match CExpr.evalList as with
      | .error e => .error e
      | .ok xs => .ok (x :: xs)
end

end DV
