/-
  Model/Basic.lean — core syntax of the discopy model (core Lean only, no Mathlib).

  Mirrors: discopy/cat.py (Ob, Arrow, Box), discopy/monoidal.py (Ty, Layer, Diagram),
  discopy/rigid.py (Ob with winding number z).
-/

namespace DV

/-- Error classes of the line protocol.  `interchanger` is a subclass of `axiom` in
    the code (rewriting.py:81); the harness maps it first. -/
inductive Err where
  | axiom | interchanger | index | type | value | notImpl | fuel
  deriving DecidableEq, Repr, Inhabited

def Err.toString : Err → String
  | .axiom => "axiom" | .interchanger => "interchanger" | .index => "index"
  | .type => "type" | .value => "value" | .notImpl => "notimpl" | .fuel => "fuel"

instance : ToString Err := ⟨Err.toString⟩

deriving instance DecidableEq for Except

/-- An object: a name (the Python `repr` of the name, opaque) and a winding number
    (`z = 0` for cat/monoidal objects; rigid.py:27-71). -/
structure Ob where
  name : String
  z : Int := 0
  deriving DecidableEq, Repr, Inhabited

abbrev Ty := List Ob

def Ob.l (x : Ob) : Ob := { x with z := x.z - 1 }      -- rigid.py:40-42
def Ob.r (x : Ob) : Ob := { x with z := x.z + 1 }      -- rigid.py:45-47
def Ty.l (t : Ty) : Ty := t.reverse.map Ob.l           -- rigid.py:86-87
def Ty.r (t : Ty) : Ty := t.reverse.map Ob.r           -- rigid.py:90-91

/-! ### Python slicing -/

/-- Clamp a Python slice bound to `[0, n]` (CPython `PySlice_AdjustIndices`, step 1). -/
def pyIdx (n : Nat) (i : Int) : Nat :=
  if i < 0 then (if i + n < 0 then 0 else (i + n).toNat) else min i.toNat n

/-- Lower / upper bound of a Python slice (`none` = omitted). -/
def pyLo (n : Nat) : Option Int → Nat
  | none => 0
  | some i => pyIdx n i
def pyHi (n : Nat) : Option Int → Nat
  | none => n
  | some i => pyIdx n i

/-- `xs[start:stop]` with Python semantics (step 1; `none` = omitted bound). -/
def pySlice {α} (xs : List α) (start stop : Option Int) : List α :=
  (xs.drop (pyLo xs.length start)).take (pyHi xs.length stop - pyLo xs.length start)

/-- `xs[i]` with Python semantics: negative indices count from the end, out of range
    is an `IndexError`. -/
def pyGet? {α} (xs : List α) (i : Int) : Option α :=
  if i < 0 then (if i + xs.length < 0 then none else xs[(i + xs.length).toNat]?)
  else xs[i.toNat]?

/-! ### Boxes, layers, diagrams -/

/-- Class tags that change `dagger`, functor dispatch or snake removal. -/
inductive Kind where
  | gen | swap | cup | cap
  deriving DecidableEq, Repr, Inhabited

/-- A box.  `data` is the whitespace-free `repr` of the Python `data` attribute.
    For `swap`/`cup`/`cap` the Python `name` is derived from `dom`/`cod`
    (monoidal.py:729, rigid.py:348/381) and the model keeps `name = "-"`. -/
structure Box where
  kind : Kind := .gen
  name : String
  dom : Ty
  cod : Ty
  dagger : Bool := false
  data : String := "-"
  deriving DecidableEq, Repr, Inhabited

/-- `box[::-1]`: cat.py:571-574 (flag flip), monoidal.py:735 (`Swap(r, l)`),
    rigid.py:351/384 (`Cup ↔ Cap`, same `left, right`). -/
def Box.dag (b : Box) : Box :=
  match b.kind with
  | .gen  => { b with dom := b.cod, cod := b.dom, dagger := !b.dagger }
  | .swap => { b with dom := b.cod, cod := b.dom }
  | .cup  => { b with kind := .cap, dom := b.cod, cod := b.dom }
  | .cap  => { b with kind := .cup, dom := b.cod, cod := b.dom }

/-- monoidal.py:238-284. -/
structure Layer where
  left : Ty
  box : Box
  right : Ty
  deriving DecidableEq, Repr, Inhabited

def Layer.dom (l : Layer) : Ty := l.left ++ l.box.dom ++ l.right
def Layer.cod (l : Layer) : Ty := l.left ++ l.box.cod ++ l.right
def Layer.dag (l : Layer) : Layer := { l with box := l.box.dag }   -- monoidal.py:281-284

/-- The `layers` attribute: a `cat.Arrow` whose boxes are layers, carrying its own
    `dom`/`cod` (cat.py:146-163, built with `_scan=False` everywhere). -/
structure LArrow where
  dom : Ty
  cod : Ty
  boxes : List Layer
  deriving DecidableEq, Repr, Inhabited

def LArrow.id (t : Ty) : LArrow := ⟨t, t, []⟩

/-- cat.py:298-310. -/
def LArrow.then (a b : LArrow) : Except Err LArrow :=
  if a.cod ≠ b.dom then .error .axiom else .ok ⟨a.dom, b.cod, a.boxes ++ b.boxes⟩

def Layer.arrow (l : Layer) : LArrow := ⟨l.dom, l.cod, [l]⟩

def LArrow.thenLayer (a : LArrow) (l : Layer) : Except Err LArrow := a.then l.arrow

/-- The empty-slice branch of cat.py:223-228. -/
def LArrow.sliceEmpty (a : LArrow) (start : Option Int) : Except Err LArrow :=
  if start.getD 0 ≥ (a.boxes.length : Int) then .ok (LArrow.id a.cod)
  else if start.getD 0 ≤ -(a.boxes.length : Int) then .ok (LArrow.id a.dom)
  else match pyGet? a.boxes (start.getD 0) with
    | some l => .ok (LArrow.id l.dom)
    | none => .error .index

/-- `arrow[start:stop]`, cat.py:214-231 (step `None` or `1`). -/
def LArrow.slice (a : LArrow) (start stop : Option Int) : Except Err LArrow :=
  match pySlice a.boxes start stop with
  | [] => a.sliceEmpty start
  | b :: bs => .ok ⟨b.dom, ((b :: bs).getLastD b).cod, b :: bs⟩

/-- Normalised bound of a Python slice with step `-1` (CPython `PySlice_AdjustIndices`):
    the result lies in `[-1, n-1]`. -/
def pyIdxRev (n : Nat) (i : Int) : Int :=
  if i < 0 then (if i + n < 0 then -1 else i + n) else (if i ≥ n then (n : Int) - 1 else i)

def revLo (n : Nat) : Option Int → Int
  | none => (n : Int) - 1
  | some i => pyIdxRev n i
def revHi (n : Nat) : Option Int → Int
  | none => -1
  | some i => pyIdxRev n i

/-- `xs[start:stop:-1]`: elements at indices `start, start-1, …, stop+1`. -/
def pySliceRev {α} (xs : List α) (start stop : Option Int) : List α :=
  ((xs.drop (revHi xs.length stop + 1).toNat).take
    (revLo xs.length start - revHi xs.length stop).toNat).reverse

/-- Empty reversed slice starting at normalised index `s`: the identity where it starts. -/
def LArrow.idAfter (a : LArrow) (s : Int) : Except Err LArrow :=
  if s < 0 then .ok ⟨a.dom, a.dom, []⟩
  else match a.boxes[s.toNat]? with
    | some l => .ok ⟨l.cod, l.cod, []⟩
    | none => .error .index

/-- `arrow[start:stop:-1]`, cat.py:216-224 (after the `fix:` commit for finding F16: dom/cod are
    read off the reversed boxes; an empty reversed slice is the identity where it starts). -/
def LArrow.sliceRevEmpty (a : LArrow) (start : Option Int) : Except Err LArrow :=
  a.idAfter (revLo a.boxes.length start)

/-- `arrow[::-1]`, cat.py:216-219. -/
def LArrow.dag (a : LArrow) : LArrow := ⟨a.cod, a.dom, a.boxes.reverse.map Layer.dag⟩

def LArrow.sliceRev (a : LArrow) (start stop : Option Int) : Except Err LArrow :=
  match (pySliceRev a.boxes start stop).map Layer.dag with
  | [] => a.sliceRevEmpty start
  | b :: bs => .ok ⟨b.dom, ((b :: bs).getLastD b).cod, b :: bs⟩

/-- monoidal.py:287-354: the five fields a diagram carries. -/
structure Diagram where
  dom : Ty
  cod : Ty
  boxes : List Box
  offsets : List Int
  layers : LArrow
  deriving DecidableEq, Repr, Inhabited

/-- `Diagram.__eq__`, monoidal.py:438-442: `layers` is *not* compared. -/
def Diagram.eqv (a b : Diagram) : Bool :=
  a.dom == b.dom && a.cod == b.cod && a.boxes == b.boxes && a.offsets == b.offsets

end DV
