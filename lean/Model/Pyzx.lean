/-
  Model/Pyzx.lean — executable model of `zx.Diagram.to_pyzx` (discopy/quantum/zx.py:67-127) and
  `zx.Diagram.from_pyzx` with `move` / `make_wires_adjacent` (zx.py:130-217).  Core Lean only.

  * A ZX diagram is `dom : Nat` (the type is `PRO(dom)`), `cod : Nat` and a list of boxes
    (kind ∈ {Z, X, H, SWAP, scalar}, n_in, n_out, phase as an exact rational in full turns,
    scalar payload as an exact Gaussian dyadic, offset).
  * A pyzx graph is the list of its vertices in creation order (vertex id = position; type,
    phase in half turns as stored by `set_phase`, i.e. reduced mod 2; qubit; row), the list of
    `add_edge` requests in order, `inputs`, `outputs` and the float factor of `graph.scalar`.
    When no unordered pair of endpoints repeats (`Graph.Simple`, the property's hypothesis) the
    request list IS the adjacency structure pyzx holds — for the pinned pyzx (which overwrote
    the entry) and for 0.10.6 (which rewrites parallel edges) alike; outside `Simple` the model
    says nothing about pyzx.
  * `edge_type` of a pair that is not an edge is `none` (the pinned pyzx returned 0, which is
    not `EdgeType.HADAMARD`): zx.py:203 then reads the edge as plain.
  * The code is modelled as it is, including the two defects of `from_pyzx` found by C17
    (the closure variable `node` used as the label of the moved entry in `move`, zx.py:162/169,
    with the off-by-one of its `target > source` branch; `scan.index(node)` over the whole scan
    in the output loop, zx.py:214).  The flags of `Fix` switch on the proposed repairs; `Fix.none`
    is the tree.
  * `PRO(n)` of a negative `n` is `PRO(0)` (rigid.py: `n * [Ob(1)]`), which is what truncated
    subtraction on `Nat` computes; every `>>` compares codomain and domain (cat.py:298-310,
    `AxiomError`).
-/
import Model.Basic

namespace DV.Pyzx
open DV

/-! ### exact numbers -/

/-- A rational `num / den`. -/
structure Phase where
  num : Int
  den : Nat
  deriving DecidableEq, Repr, Inhabited

/-- `Fraction` normal form (positive denominator, lowest terms; 0 is 0/1). -/
def Phase.norm (p : Phase) : Phase :=
  if p.den = 0 ∨ p.num = 0 then ⟨0, 1⟩
  else ⟨p.num / (Nat.gcd p.num.natAbs p.den : Int), p.den / Nat.gcd p.num.natAbs p.den⟩

/-- zx.py:102 `phase=box.phase * 2 if box.phase else None` followed by pyzx `set_phase`, which
    stores `Fraction(phase) % 2`: the phase in half turns, in `[0, 2)`. -/
def Phase.export (p : Phase) : Phase :=
  Phase.norm ⟨(2 * p.num) % (2 * (p.den : Int)), p.den⟩

/-- zx.py:155 `graph.phase(node) * .5`. -/
def Phase.import (p : Phase) : Phase := Phase.norm ⟨p.num, 2 * p.den⟩

/-- A Gaussian dyadic `(re + i·im) / 2^e`. -/
structure Gauss where
  re : Int
  im : Int
  e : Nat
  deriving DecidableEq, Repr, Inhabited

def gaussNorm (re im : Int) : Nat → Gauss
  | 0 => ⟨re, im, 0⟩
  | e + 1 =>
    if re = 0 ∧ im = 0 then ⟨0, 0, 0⟩
    else if re % 2 = 0 ∧ im % 2 = 0 then gaussNorm (re / 2) (im / 2) e else ⟨re, im, e + 1⟩

def Gauss.norm (c : Gauss) : Gauss := gaussNorm c.re c.im c.e

def Gauss.one : Gauss := ⟨1, 0, 0⟩

def Gauss.mul (a b : Gauss) : Gauss :=
  Gauss.norm ⟨a.re * b.re - a.im * b.im, a.re * b.im + a.im * b.re, a.e + b.e⟩

/-! ### ZX diagrams -/

inductive ZKind where
  | Z | X | H | swap | scalar
  deriving DecidableEq, Repr, Inhabited

structure ZBox where
  kind : ZKind
  nIn : Nat
  nOut : Nat
  phase : Phase := ⟨0, 1⟩
  sc : Gauss := ⟨0, 0, 0⟩
  off : Nat
  deriving DecidableEq, Repr, Inhabited

def ZBox.isSpider (b : ZBox) : Bool := b.kind == .Z || b.kind == .X

structure ZDiagram where
  dom : Nat
  cod : Nat
  boxes : List ZBox
  deriving DecidableEq, Repr, Inhabited

/-- The arities the classes fix: `Had` is 1 → 1 (zx.py:322), `SWAP` 2 → 2 (zx.py:257), a scalar
    0 → 0 (zx.py:340); spiders are free (zx.py:263). -/
def ZBox.shaped (b : ZBox) : Bool :=
  match b.kind with
  | .Z => true
  | .X => true
  | .H => b.nIn == 1 && b.nOut == 1
  | .swap => b.nIn == 2 && b.nOut == 2
  | .scalar => b.nIn == 0 && b.nOut == 0

/-- The scan of monoidal.py:306-318 on widths (all wires of a ZX diagram have the same type):
    every box finds its inputs at its offset; the last width is the codomain. -/
def widthAfter : Nat → List ZBox → Option Nat
  | w, [] => some w
  | w, b :: bs =>
    if b.shaped = true ∧ b.off + b.nIn ≤ w then widthAfter (w - b.nIn + b.nOut) bs else none

def ZDiagram.WF (d : ZDiagram) : Prop := widthAfter d.dom d.boxes = some d.cod

instance (d : ZDiagram) : Decidable d.WF := by unfold ZDiagram.WF; infer_instance

/-! ### pyzx graphs -/

inductive VType where
  | boundary | Z | X            -- pyzx.VertexType 0, 1, 2
  deriving DecidableEq, Repr, Inhabited

inductive EType where
  | simple | hadamard           -- pyzx.EdgeType 1, 2
  deriving DecidableEq, Repr, Inhabited

structure Vertex where
  ty : VType
  phase : Phase := ⟨0, 1⟩
  qubit : Int := -1
  row : Int := -1
  deriving DecidableEq, Repr, Inhabited

structure Edge where
  s : Nat
  t : Nat
  ty : EType
  deriving DecidableEq, Repr, Inhabited

structure Graph where
  verts : List Vertex
  edges : List Edge
  inputs : List Nat
  outputs : List Nat
  scalar : Gauss := Gauss.one
  deriving DecidableEq, Repr, Inhabited

def Edge.joins (e : Edge) (a b : Nat) : Bool := (e.s == a && e.t == b) || (e.s == b && e.t == a)

/-- No self-loop and no two requests for the same unordered pair. -/
def simpleEdges : List Edge → Bool
  | [] => true
  | e :: es => e.s != e.t && !(es.any (fun f => f.joins e.s e.t)) && simpleEdges es

def Graph.Simple (g : Graph) : Prop := simpleEdges g.edges = true

instance (g : Graph) : Decidable g.Simple := by unfold Graph.Simple; infer_instance

/-- The other end of `e` seen from `v`. -/
def Edge.other? (e : Edge) (v : Nat) : Option Nat :=
  if e.s = v then some e.t else if e.t = v then some e.s else none

/-- `graph.neighbors(v)`: keys of the adjacency dict of `v` in insertion order. -/
def Graph.nbrs (g : Graph) (v : Nat) : List Nat := g.edges.filterMap (·.other? v)

def Graph.deg (g : Graph) (v : Nat) : Nat := (g.nbrs v).length

/-- `graph.edge_type((a, b))`; `none` for a non-edge. -/
def Graph.edgeType? (g : Graph) (a b : Nat) : Option EType :=
  (g.edges.find? (·.joins a b)).map (·.ty)

/-! ### `to_pyzx` (zx.py:91-127) -/

/-- One entry per open wire: the vertex that produced it and the pending Hadamard flag. -/
abbrev Scan := List (Nat × Bool)

def etypeOf (h : Bool) : EType := if h then .hadamard else .simple

structure ExpState where
  verts : List Vertex
  edges : List Edge
  scalar : Gauss
  scan : Scan
  deriving DecidableEq, Repr, Inhabited

/-- zx.py:93-97: one boundary vertex per input wire at position `(i, 0)`. -/
def expInit (dom : Nat) : ExpState :=
  { verts := (List.range dom).map (fun (i : Nat) => ⟨.boundary, ⟨0, 1⟩, (i : Int), 0⟩)
    edges := []
    scalar := Gauss.one
    scan := (List.range dom).map (fun i => (i, false)) }

/-- zx.py:104-107: the edges from the producers of the consumed wires to the new spider. -/
def spiderEdges (scan : Scan) (off nIn node : Nat) : List Edge :=
  ((scan.drop off).take nIn).map (fun sh => ⟨sh.1, node, etypeOf sh.2⟩)

def vtypeOf (k : ZKind) : VType := if k = .Z then .Z else .X      -- zx.py:101

/-- zx.py:99-109 for a spider in row `row`.  `scan[offset + i]` raises `IndexError` iff some
    consumed position is past the end. -/
def stepSpider (st : ExpState) (row : Nat) (b : ZBox) : Except Err ExpState :=
  if b.nIn ≠ 0 ∧ st.scan.length < b.off + b.nIn then .error .index
  else .ok
    { verts := st.verts ++ [⟨vtypeOf b.kind, b.phase.export, (b.off : Int), (row : Int) + 1⟩]
      edges := st.edges ++ spiderEdges st.scan b.off b.nIn st.verts.length
      scalar := st.scalar
      scan := st.scan.take b.off ++ List.replicate b.nOut (st.verts.length, false)
                ++ st.scan.drop (b.off + b.nIn) }

/-- zx.py:110-112. -/
def stepSwap (st : ExpState) (b : ZBox) : Except Err ExpState :=
  match st.scan[b.off]?, st.scan[b.off + 1]? with
  | some x, some y =>
    .ok { st with scan := st.scan.take b.off ++ [y, x] ++ st.scan.drop (b.off + 2) }
  | _, _ => .error .index

/-- zx.py:115-117. -/
def stepH (st : ExpState) (b : ZBox) : Except Err ExpState :=
  match st.scan[b.off]? with
  | some x => .ok { st with scan := st.scan.set b.off (x.1, !x.2) }
  | none => .error .index

/-- zx.py:98-119 for the box in row `row`. -/
def stepBox (st : ExpState) (row : Nat) (b : ZBox) : Except Err ExpState :=
  match b.kind with
  | .Z => stepSpider st row b
  | .X => stepSpider st row b
  | .swap => stepSwap st b
  | .scalar => .ok { st with scalar := st.scalar.mul b.sc }      -- zx.py:113-114
  | .H => stepH st b

def stepBoxes : ExpState → Nat → List ZBox → Except Err ExpState
  | st, _, [] => .ok st
  | st, row, b :: bs =>
    match stepBox st row b with
    | .error e => .error e
    | .ok st' => stepBoxes st' (row + 1) bs

/-- zx.py:120-126: one boundary vertex per output wire, joined to the producer of wire `i`. -/
def outEdges (scan : Scan) (cod base : Nat) : List Edge :=
  ((scan.take cod).zipIdx).map (fun (sh, i) => ⟨sh.1, base + i, etypeOf sh.2⟩)

def expFinish (st : ExpState) (dom cod nboxes : Nat) : Except Err Graph :=
  if st.scan.length < cod then .error .index
  else .ok
    { verts := st.verts ++ (List.range cod).map
        (fun (i : Nat) => ⟨.boundary, ⟨0, 1⟩, (i : Int), (nboxes : Int) + 1⟩)
      edges := st.edges ++ outEdges st.scan cod st.verts.length
      inputs := List.range dom
      outputs := (List.range cod).map (st.verts.length + ·)
      scalar := st.scalar }

def expRun (d : ZDiagram) : Except Err ExpState := stepBoxes (expInit d.dom) 0 d.boxes

def toPyzx (d : ZDiagram) : Except Err Graph :=
  match expRun d with
  | .error e => .error e
  | .ok st => expFinish st d.dom d.cod d.boxes.length

/-! ### `from_pyzx` (zx.py:149-217) -/

/-- Which of the proposed repairs are switched on (`Fix.none` = the code in the tree). -/
structure Fix where
  moveLabel : Bool      -- `move` labels the moved entry with `scan[source]`, right-move fixed
  outputSearch : Bool   -- the output loop searches `scan[target:]` only
  deriving DecidableEq, Repr, Inhabited

def Fix.none : Fix := ⟨false, false⟩
def Fix.all : Fix := ⟨true, true⟩

def hBox (off : Nat) : ZBox := { kind := .H, nIn := 1, nOut := 1, off := off }
def swapBox (off : Nat) : ZBox := { kind := .swap, nIn := 2, nOut := 2, off := off }

/-- Offsets of `Id(target) @ Diagram.swap(source - target, 1) @ Id(…)` (monoidal.py:487-514 with
    a one-wire right factor): `source - 1, source - 2, …, target`. -/
def swapsLeft (source target : Nat) : List Nat :=
  (List.range (source - target)).map (fun k => source - 1 - k)

/-- Offsets of `Id(source) @ Diagram.swap(1, target - source) @ Id(…)`: `source, …, target - 1`. -/
def swapsRight (source target : Nat) : List Nat :=
  (List.range (target - source)).map (fun k => source + k)

/-- zx.py:157-172.  `node` is the closure variable (zx.py:162, 169).  Returns the new scan, the
    offsets of the SWAP boxes and the domain of `swaps` (for the `>>` that follows). -/
def move (fix : Fix) (node : Nat) (scan : List Nat) (source target : Nat) :
    List Nat × List Nat × Nat :=
  if target < source then
    ( scan.take target ++ [if fix.moveLabel then scan.getD source node else node]
        ++ (scan.drop target).take (source - target) ++ scan.drop (source + 1),
      swapsLeft source target,
      target + (source - target + 1) + (scan.length - source - 1) )
  else if source < target then
    ( if fix.moveLabel then
        scan.take source ++ (scan.drop (source + 1)).take (target - source)
          ++ [scan.getD source node] ++ scan.drop (target + 1)
      else
        scan.take source ++ (scan.drop (source + 1)).take (target - (source + 1))
          ++ [node] ++ scan.drop target,
      swapsRight source target,
      source + (1 + (target - source)) + (scan.length - target - 1) )
  else (scan, [], scan.length)

/-- The diagram under construction: boxes so far and the current codomain. -/
structure Acc where
  boxes : List ZBox
  cod : Nat
  scan : List Nat
  deriving DecidableEq, Repr, Inhabited

/-- `diagram >> swaps` after a `move` (zx.py:180-181, 214-215). -/
def Acc.moved (a : Acc) (fix : Fix) (node source target : Nat) : Except Err Acc :=
  if a.cod ≠ (move fix node a.scan source target).2.2 then .error .axiom
  else .ok { boxes := a.boxes ++ (move fix node a.scan source target).2.1.map swapBox
             cod := a.cod
             scan := (move fix node a.scan source target).1 }

/-- The loop of zx.py:178-181: `rest` are `inputs[1:]` from position `i` on. -/
def adjLoop (fix : Fix) (node offset : Nat) : Acc → Nat → List Nat → Except Err Acc
  | a, _, [] => .ok a
  | a, i, v :: vs =>
    match a.scan.idxOf? v with
    | none => .error .value                                   -- `scan.index` ValueError
    | some source =>
      match a.moved fix node source (offset + i + 1) with
      | .error e => .error e
      | .ok a' => adjLoop fix node offset a' (i + 1) vs

/-- zx.py:174-182; returns the accumulator and `offset`. -/
def makeWiresAdjacent (fix : Fix) (node : Nat) (a : Acc) (inputs : List Nat) :
    Except Err (Acc × Nat) :=
  match inputs with
  | [] => .ok (a, a.scan.length)
  | v :: vs =>
    match a.scan.idxOf? v with
    | none => .error .value
    | some offset =>
      match adjLoop fix node offset a 0 vs with
      | .error e => .error e
      | .ok a' => .ok (a', offset)

/-- Insertion of `(key, v)` into a list sorted by key (stable: after equal keys). -/
def insertByKey (kv : Nat × Nat) : List (Nat × Nat) → List (Nat × Nat)
  | [] => [kv]
  | x :: xs => if kv.1 < x.1 then kv :: x :: xs else x :: insertByKey kv xs

def sortByKey (kvs : List (Nat × Nat)) : List (Nat × Nat) :=
  kvs.foldl (fun acc kv => insertByKey kv acc) []

/-- `inputs.sort(key=scan.index)` (zx.py:198): `ValueError` if a key cannot be computed. -/
def sortByScan (scan : List Nat) (vs : List Nat) : Except Err (List Nat) :=
  match vs.mapM (fun v => (scan.idxOf? v).map (fun k => (k, v))) with
  | none => .error .value
  | some kvs => .ok ((sortByKey kvs).map (·.2))

/-- zx.py:196-197. -/
def nodeInputs (g : Graph) (node : Nat) : List Nat :=
  (g.nbrs node).filter (fun v => (v < node && !(g.outputs.contains v)) || g.inputs.contains v)

/-- zx.py:199-200. -/
def nodeOutputs (g : Graph) (node : Nat) : List Nat :=
  (g.nbrs node).filter (fun v => (node < v && !(g.inputs.contains v)) || g.outputs.contains v)

/-- zx.py:202-204: the H boxes in front of the spider, from the *labels* in the scan. -/
def hadamardBoxes (g : Graph) (node offset : Nat) (labels : List Nat) : List ZBox :=
  (labels.zipIdx).filterMap (fun (v, j) =>
    if g.edgeType? v node = some .hadamard then some (hBox (offset + j)) else none)

/-- zx.py:151-155. -/
def node2box (g : Graph) (node nIn nOut off : Nat) : Except Err ZBox :=
  match g.verts[node]? with
  | some ⟨.Z, p, _, _⟩ => .ok { kind := .Z, nIn := nIn, nOut := nOut, phase := p.import, off := off }
  | some ⟨.X, p, _, _⟩ => .ok { kind := .X, nIn := nIn, nOut := nOut, phase := p.import, off := off }
  | _ => .error .notImpl

/-- zx.py:205-209 once the wires are adjacent at `offset`. -/
def placeSpider (g : Graph) (node : Nat) (a : Acc) (offset nIn nOut : Nat) : Except Err Acc :=
  match node2box g node nIn nOut offset with
  | .error e => .error e
  | .ok box =>
    if a.cod ≠ offset + nIn + (a.cod - offset - nIn) then .error .axiom
    else .ok
      { boxes := a.boxes ++ hadamardBoxes g node offset ((a.scan.drop offset).take nIn) ++ [box]
        cod := offset + nOut + (a.cod - offset - nIn)
        scan := a.scan.take offset ++ List.replicate nOut node ++ a.scan.drop (offset + nIn) }

/-- One iteration of zx.py:194-209. -/
def importNode (fix : Fix) (g : Graph) (a : Acc) (node : Nat) : Except Err Acc :=
  match sortByScan a.scan (nodeInputs g node) with
  | .error e => .error e
  | .ok inputs =>
    match makeWiresAdjacent fix node a inputs with
    | .error e => .error e
    | .ok (a', offset) => placeSpider g node a' offset inputs.length (nodeOutputs g node).length

def importNodes (fix : Fix) (g : Graph) : Acc → List Nat → Except Err Acc
  | a, [] => .ok a
  | a, v :: vs =>
    match importNode fix g a v with
    | .error e => .error e
    | .ok a' => importNodes fix g a' vs

/-- `scan.index(node)` (tree) or `scan.index(node, target)` (repair), zx.py:214. -/
def outputSource (fix : Fix) (scan : List Nat) (node target : Nat) : Option Nat :=
  if fix.outputSearch then ((scan.drop target).idxOf? node).map (target + ·)
  else scan.idxOf? node

/-- One iteration of zx.py:210-216. -/
def importOutput (fix : Fix) (g : Graph) (a : Acc) (target output : Nat) : Except Err Acc :=
  match g.nbrs output with
  | [node] =>
    match outputSource fix a.scan node target with
    | none => .error .value
    | some source =>
      match a.moved fix node source target with
      | .error e => .error e
      | .ok a' =>
        if a'.cod ≠ target + 1 + (a'.scan.length - target - 1) then .error .axiom
        else .ok { a' with boxes := a'.boxes ++
          (if g.edgeType? node output = some .hadamard then [hBox target] else []) }
  | _ => .error .value                                        -- `node, = …` unpacking

def importOutputs (fix : Fix) (g : Graph) : Acc → Nat → List Nat → Except Err Acc
  | a, _, [] => .ok a
  | a, target, o :: os =>
    match importOutput fix g a target o with
    | .error e => .error e
    | .ok a' => importOutputs fix g a' (target + 1) os

/-- zx.py:184-189. -/
def missingBoundary (g : Graph) : Bool :=
  (g.verts.zipIdx).any (fun (v, i) =>
    v.ty == .boundary && !((g.inputs ++ g.outputs).contains i))

/-- zx.py:190-192. -/
def duplicateBoundary (g : Graph) : Bool := g.inputs.any (g.outputs.contains ·)

/-- zx.py:194-195: the vertices that are neither inputs nor outputs, in creation order. -/
def innerNodes (g : Graph) : List Nat :=
  (List.range g.verts.length).filter (fun v => !((g.inputs ++ g.outputs).contains v))

def fromPyzxWith (fix : Fix) (g : Graph) : Except Err ZDiagram :=
  if missingBoundary g then .error .value
  else if duplicateBoundary g then .error .value
  else
    match importNodes fix g ⟨[], g.inputs.length, g.inputs⟩ (innerNodes g) with
    | .error e => .error e
    | .ok a =>
      match importOutputs fix g a 0 g.outputs with
      | .error e => .error e
      | .ok a' => .ok ⟨g.inputs.length, a'.cod, a'.boxes⟩

/-- The code in the tree. -/
def fromPyzx (g : Graph) : Except Err ZDiagram := fromPyzxWith Fix.none g

end DV.Pyzx
