/-
  Model/Gates.lean — the quantum gate layer of discopy (core Lean only, no Mathlib).

  Mirrors  discopy/quantum/gates.py  (GATES table 551-565, QuantumGate 21-46, Ket/Bra 203-256,
           Controlled 259-287, Rotation 348-362, Rx/Ry/Rz/CU1/CRz/CRx `.array` 381-490,
           Scalar 518-558, Sqrt 567-575, rewire 581-616),
           discopy/quantum/circuit.py:244-253 (the calling conventions of `Circuit.eval`) and 657-664 (`Sum.eval`),
           discopy/quantum/circuit.py (pure `eval` 251-253: tensor.Functor with `ar = f.array`),
           discopy/tensor.py:356-361 (how `is_dagger` is honoured),
           discopy/quantum/zx.py (spiders, Had, scalar, dagger 282/330/354, gate2zx 368-396).

  Conventions (discopy's own): a matrix is a list of rows; ROW = INPUT index, COLUMN = OUTPUT
  index (`Tensor.then` contracts the codomain axes of the first with the domain axes of the second,
  tensor.py:185, so `f >> g` is the matrix product `f · g` in diagram order); the leftmost
  qubit is the most significant bit of an index.  The textbook ("column-vector") matrix of the same
  linear map is the TRANSPOSE.

  Two layers:
   * generic definitions over any carrier `R` with `+ * - 0 1` (and `Conj`), parametrised by the
     ring elements through which a phase enters (`ν = e^{iπφ}`, `c = cos πφ`, `s = sin πφ`,
     `μ = e^{2πiφ}`, `r = 1/√2`, `i`) — Proofs/Gates.lean instantiates them at an arbitrary
     commutative ring and proves the rotation / ZX facts for ALL phases;
   * the executable instance at `R = Cyc8` (ℤ[ζ₈][1/2]) for the exactly representable phases:
       Rx, Ry, Rz, CRz, CRx  at phase  q/4  (q ∈ ℤ; entries cos(πq/4), sin(πq/4), e^{±iπq/4});
       CU1 and ZX spiders    at phase  p/8  (p ∈ ℤ; entry e^{2πi p/8} = ζ^p).
     (Rx(φ) has entries cos(πφ), sin(πφ), which lie in ℤ[ζ₈][1/2] only for φ ∈ ¼ℤ.)
-/
import Model.Cyc8
import Model.Basic

namespace DV.Gates
open DV

/-- Complex conjugation on the carrier. -/
class Conj (R : Type) where
  conj : R → R

instance : Conj Cyc8 := ⟨Cyc8.conj⟩
instance : Conj Int := ⟨id⟩

/-- A matrix: list of rows; row = input index, column = output index. -/
abbrev Mat (R : Type) := List (List R)

section Generic
variable {R : Type}

/-! ### linear algebra on lists -/

def smul [Mul R] (a : R) (v : List R) : List R := v.map (a * ·)

/-- Entrywise sum; the empty list is neutral (so that a sum of `k ≥ 1` rows needs no zero row). -/
def vadd [Add R] : List R → List R → List R
  | [], v => v
  | u, [] => u
  | x :: u, y :: v => (x + y) :: vadd u v

/-- `Σ_k row[k] • B[k]` — one row of the product. -/
def rowMul [Add R] [Mul R] : List R → Mat R → List R
  | [], _ => []
  | _, [] => []
  | a :: as, b :: bs => vadd (smul a b) (rowMul as bs)

/-- Matrix product in diagram order (`Tensor.then`, tensor.py:183-188). -/
def mul [Add R] [Mul R] (A B : Mat R) : Mat R := A.map (rowMul · B)

/-- Kronecker product, left factor most significant (`Tensor.tensor`, tensor.py:190-205). -/
def kron [Mul R] (A B : Mat R) : Mat R :=
  A.flatMap fun ra => B.map fun rb => ra.flatMap fun a => smul a rb

def transpose : Mat R → Mat R
  | [] => []
  | [r] => r.map ([·])
  | r :: rs => List.zipWith (· :: ·) r (transpose rs)

/-- Conjugate transpose (`Tensor.dagger`, tensor.py:207-212). -/
def dagger [Conj R] (A : Mat R) : Mat R := (transpose A).map (·.map Conj.conj)

/-- Scalar multiple of a matrix. -/
def msmul [Mul R] (k : R) (A : Mat R) : Mat R := A.map (smul k)

/-- `n × n` identity (`Tensor.id`). -/
def identity [Zero R] [One R] : Nat → Mat R
  | 0 => []
  | n + 1 => ((1 : R) :: List.replicate n 0) :: (identity n).map ((0 : R) :: ·)

def pow2 : Nat → Nat
  | 0 => 1
  | n + 1 => 2 * pow2 n

/-- Identity on `n` qubits. -/
def idQ [Zero R] [One R] (n : Nat) : Mat R := identity (pow2 n)

/-- `r^k`. -/
def rpow [Mul R] [One R] (r : R) : Nat → R
  | 0 => 1
  | k + 1 => r * rpow r k

/-- All bitstrings of length `n`, in index order (leftmost bit most significant). -/
def bits : Nat → List (List Bool)
  | 0 => [[]]
  | n + 1 => (bits n).map (false :: ·) ++ (bits n).map (true :: ·)

def allFalse (x : List Bool) : Bool := x.all (! ·)
def allTrue (x : List Bool) : Bool := x.all (·)
/-- Parity of the number of `true`s. -/
def parity : List Bool → Bool
  | [] => false
  | b :: bs => xor b (parity bs)

/-! ### rotations, symbolic in the phase (gates.py:381-490) -/

/-- gates.py:390 `[[cos, -1j * sin], [-1j * sin, cos]]`, `c = cos πφ`, `s = sin πφ`. -/
def rx [Mul R] [Neg R] (i c s : R) : Mat R := [[c, -(i * s)], [-(i * s), c]]
/-- gates.py:402 `[[cos, -1 * sin], [sin, cos]]` — the code AS IT IS (finding F17: this is the
    transpose of the standard `Ry` in the `[input, output]` convention). -/
def ryAsIs [Neg R] (c s : R) : Mat R := [[c, -s], [s, c]]
/-- Repaired `Ry`: `[[cos, sin], [-sin, cos]]` (the standard matrix, transposed into `[input, output]`). -/
def ryFixed [Neg R] (c s : R) : Mat R := [[c, s], [-s, c]]
/-- gates.py:413-415 `diag(exp(-iπφ), exp(iπφ))`, `ν = e^{iπφ}`, `ν' = e^{-iπφ}`. -/
def rz [Zero R] (ν ν' : R) : Mat R := [[ν', 0], [0, ν]]
/-- gates.py:430-434 `diag(1, 1, 1, exp(2πiφ))`, `μ = e^{2πiφ}`. -/
def cu1 [Zero R] [One R] (μ : R) : Mat R :=
  [[1, 0, 0, 0], [0, 1, 0, 0], [0, 0, 1, 0], [0, 0, 0, μ]]
/-- gates.py:455-462 `diag(1, 1, exp(-iπφ), exp(iπφ))`. -/
def crz [Zero R] [One R] (ν ν' : R) : Mat R :=
  [[1, 0, 0, 0], [0, 1, 0, 0], [0, 0, ν', 0], [0, 0, 0, ν]]
/-- gates.py:484-490. -/
def crx [Zero R] [One R] [Mul R] [Neg R] (i c s : R) : Mat R :=
  [[1, 0, 0, 0], [0, 1, 0, 0], [0, 0, c, -(i * s)], [0, 0, -(i * s), c]]

/-- `Controlled.__init__`, gates.py:276-278: `zeros((4, 4)); [:2, :2] = eye(2); [2:, 2:] = u`. -/
def ctrlArr [Zero R] [One R] (u : Mat R) : Mat R :=
  [[1, 0, 0, 0], [0, 1, 0, 0]] ++ u.map fun row => (0 : R) :: (0 : R) :: row

/-- `|0⟩⟨0| ⊗ 1 + |1⟩⟨1| ⊗ u` — the specification of a controlled gate (control on the left). -/
def ctrlSpec [Zero R] [One R] [Add R] [Mul R] (u : Mat R) : Mat R :=
  List.zipWith vadd (kron [[1, 0], [0, 0]] (identity 2)) (kron [[0, 0], [0, 1]] u)

/-! ### ZX generators, standard interpretation (phases in full turns enter through `μ = e^{2πi·phase}`) -/

/-- `Z(n, m, phase) = |0…0⟩⟨0…0| + μ |1…1⟩⟨1…1|` as an `2^n × 2^m` matrix. -/
def zMat [Zero R] [One R] [Add R] (n m : Nat) (μ : R) : Mat R :=
  (bits n).map fun x => (bits m).map fun y =>
    if allFalse x && allFalse y then (if allTrue x && allTrue y then 1 + μ else 1)
    else if allTrue x && allTrue y then μ else 0

/-- `X(n, m, phase) = |+…+⟩⟨+…+| + μ |−…−⟩⟨−…−|`: entry `r^(n+m) (1 ± μ)`, sign by total parity;
    `r = 1/√2`. -/
def xMat [One R] [Add R] [Mul R] [Neg R] (r : R) (n m : Nat) (μ : R) : Mat R :=
  (bits n).map fun x => (bits m).map fun y =>
    rpow r (n + m) * (if xor (parity x) (parity y) then 1 + -μ else 1 + μ)

/-- Hadamard. -/
def hMat [Neg R] (r : R) : Mat R := [[r, r], [r, -r]]

def swapMat [Zero R] [One R] : Mat R :=
  [[1, 0, 0, 0], [0, 0, 1, 0], [0, 1, 0, 0], [0, 0, 0, 1]]

/-- A ZX generator with its phase already turned into the ring element `μ = e^{2πi·phase}`. -/
inductive ZXB (R : Type) where
  | z (n m : Nat) (μ : R)
  | x (n m : Nat) (μ : R)
  | h
  | swap
  | scalar (s : R)
  deriving Repr

def ZXB.dom : ZXB R → Nat
  | .z n _ _ => n | .x n _ _ => n | .h => 1 | .swap => 2 | .scalar _ => 0
def ZXB.cod : ZXB R → Nat
  | .z _ m _ => m | .x _ m _ => m | .h => 1 | .swap => 2 | .scalar _ => 0

def ZXB.mat [Zero R] [One R] [Add R] [Mul R] [Neg R] (r : R) : ZXB R → Mat R
  | .z n m μ => zMat n m μ
  | .x n m μ => xMat r n m μ
  | .h => hMat r
  | .swap => swapMat
  | .scalar s => [[s]]

/-- A diagram in `boxes/offsets` form on `dom` wires. -/
abbrev ZXD (R : Type) := List (ZXB R × Nat)

/-- Standard interpretation of a `boxes/offsets` diagram: the ordered product of
    `1 ⊗ box ⊗ 1` layers.  `w` is the current number of wires. -/
def evalZXFrom [Zero R] [One R] [Add R] [Mul R] [Neg R] (r : R) : Nat → Mat R → ZXD R → Mat R
  | _, acc, [] => acc
  | w, acc, (b, off) :: rest =>
    evalZXFrom r (w - b.dom + b.cod)
      (mul acc (kron (idQ off) (kron (b.mat r) (idQ (w - off - b.dom))))) rest

def evalZX [Zero R] [One R] [Add R] [Mul R] [Neg R] (r : R) (dom : Nat) (d : ZXD R) : Mat R :=
  evalZXFrom r dom (idQ dom) d

/-! ### gate2zx (zx.py:368-396), symbolic in the phase.
    A spider of phase `ψ` carries `μ = e^{2πiψ}`.  With the gate phase `φ` entering through
    `ν = e^{iπφ}` (`ν' = ν⁻¹`):  spider phase `φ` ↦ `μ = ν·ν`,  spider phase `φ/2` ↦ `μ = ν`. -/

/-- zx.py:374-375 `Z(1, 1, box.phase)` / `X(1, 1, box.phase)`. -/
def zxRz [Mul R] (ν : R) : ZXD R := [(.z 1 1 (ν * ν), 0)]
def zxRx [Mul R] (ν : R) : ZXD R := [(.x 1 1 (ν * ν), 0)]

/-- zx.py:376-378 AS IT IS:
    `Z(1, 2) @ Z(1, 2, φ) >> Id(1) @ (X(2, 1) >> Z(1, 0, -φ)) @ Id(1)` (flattened as discopy does). -/
def zxCRzAsIs [One R] [Mul R] (ν ν' : R) : ZXD R :=
  [(.z 1 2 1, 0), (.z 1 2 (ν * ν), 2), (.x 2 1 1, 1), (.z 1 0 (ν' * ν'), 1)]
/-- Corrected: the three phases are `φ/2, −φ/2`. -/
def zxCRzFixed [One R] (ν ν' : R) : ZXD R :=
  [(.z 1 2 1, 0), (.z 1 2 ν, 2), (.x 2 1 1, 1), (.z 1 0 ν', 1)]

/-- zx.py:379-381 AS IT IS:
    `X(1, 2) @ X(1, 2, φ) >> Id(1) @ (Z(2, 1) >> X(1, 0, -φ)) @ Id(1)`. -/
def zxCRxAsIs [One R] [Mul R] (ν ν' : R) : ZXD R :=
  [(.x 1 2 1, 0), (.x 1 2 (ν * ν), 2), (.z 2 1 1, 1), (.x 1 0 (ν' * ν'), 1)]
/-- Corrected: Z-coloured control, a Hadamard on the control leg of the gadget, phases `±φ/2`:
    `Z(1, 2) @ X(1, 2, φ/2) >> Id(1) @ (H @ Id(1) >> Z(2, 1) >> X(1, 0, -φ/2)) @ Id(1)`. -/
def zxCRxFixed [One R] (ν ν' : R) : ZXD R :=
  [(.z 1 2 1, 0), (.x 1 2 ν, 2), (.h, 1), (.z 2 1 1, 1), (.x 1 0 ν', 1)]

/-- zx.py:382-384 AS IT IS:
    `Z(1, 2, φ) @ Z(1, 2, φ) >> Id(1) @ (X(2, 1) >> Z(1, 0, -φ)) @ Id(1)`. -/
def zxCU1AsIs [One R] [Mul R] (ν ν' : R) : ZXD R :=
  [(.z 1 2 (ν * ν), 0), (.z 1 2 (ν * ν), 2), (.x 2 1 1, 1), (.z 1 0 (ν' * ν'), 1)]
/-- Corrected: all three phases halved. -/
def zxCU1Fixed [One R] (ν ν' : R) : ZXD R :=
  [(.z 1 2 ν, 0), (.z 1 2 ν, 2), (.x 2 1 1, 1), (.z 1 0 ν', 1)]

/-- zx.py:390-395, the phase-free entries (`-1 = e^{2πi/2}` is the phase `.5`). -/
def zxH : ZXD R := [(.h, 0)]
def zxZ [One R] [Neg R] : ZXD R := [(.z 1 1 (-1), 0)]
def zxX [One R] [Neg R] : ZXD R := [(.x 1 1 (-1), 0)]
/-- `Z(1, 1, .5) >> X(1, 1, .5) @ scalar(1j)`. -/
def zxY [One R] [Neg R] (i : R) : ZXD R := [(.z 1 1 (-1), 0), (.x 1 1 (-1), 0), (.scalar i, 1)]
/-- `Z(1, 2) @ Id(1) >> Id(1) @ Had() @ Id(1) >> Id(1) @ Z(2, 1)`. -/
def zxCZ [One R] : ZXD R := [(.z 1 2 1, 0), (.h, 1), (.z 2 1 1, 1)]
/-- `Z(1, 2) @ Id(1) >> Id(1) @ X(2, 1)`. -/
def zxCX [One R] : ZXD R := [(.z 1 2 1, 0), (.x 2 1 1, 1)]

end Generic

/-! ## The executable instance at `Cyc8` -/

abbrev M8 := Mat Cyc8

/-- The table `GATES` and friends exactly as gates.py:551-565 defines them (flat arrays reshaped to
    `2^n × 2^n`, row = input). -/
def arrSWAP : M8 := swapMat
def arrCZ : M8 := [[1, 0, 0, 0], [0, 1, 0, 0], [0, 0, 1, 0], [0, 0, 0, -1]]            -- 552-555
def arrH : M8 := msmul Cyc8.invSqrt2 [[1, 1], [1, -1]]                                    -- 556-557
def arrS : M8 := [[1, 0], [0, Cyc8.I]]                                                    -- 558
def arrT : M8 := [[1, 0], [0, Cyc8.zeta]]                                                 -- 559 exp(iπ/4)
def arrX : M8 := [[0, 1], [1, 0]]                                                         -- 560
/-- gates.py:561 AS IT IS: `[0, -1j, 1j, 0]` (finding F17: the transpose of the standard Y). -/
def arrYAsIs : M8 := [[0, -Cyc8.I], [Cyc8.I, 0]]
/-- Repaired: `[0, 1j, -1j, 0]`. -/
def arrYFixed : M8 := [[0, Cyc8.I], [-Cyc8.I, 0]]
def arrZ : M8 := [[1, 0], [0, -1]]                                                        -- 562

/-! ### SWITCHES — which code the model transcribes.
    `false` = /repo as it is (the finding is present); `true` = the repaired code.  Flip exactly one
    line when the corresponding `fix:` commit lands in /repo; every theorem in Proofs/ and Props/ is
    stated so that it holds for both positions (the as-is and the repaired definitions are both in
    the model, under explicit names; the switch only selects which one `Gate.eval`, `arrY`, `ry`,
    `gate2zxCur` — i.e. the driver — use). -/
/-- F17: gates.py:402 (`Ry`) and 561 (`Y`) stored transposed. -/
def f17Fixed : Bool := true
/-- F2: `Controlled.__init__` reads the target's array ignoring its dagger flag (gates.py:278). -/
def f2Fixed : Bool := true
/-- F7: `gate2zx` of CRz / CRx / CU1 (zx.py:376-384). -/
def f7Fixed : Bool := true
/-- F4k: `Scalar.__init__` (gates.py:524) decides "self-adjoint" (`_dagger = None`) on the stored
    `data`, `Sqrt` inherits it although its value is `data ** .5`: `sqrt(x).dagger()` is `sqrt(x)` itself
    for a NEGATIVE real `x`, whose value `i√|x|` is not real.  `false` = /repo as it is. -/
def f4kFixed : Bool := true

def arrY : M8 := if f17Fixed then arrYFixed else arrYAsIs
def ry {R : Type} [Neg R] (c s : R) : Mat R := if f17Fixed then ryFixed c s else ryAsIs c s

/-- A `QuantumGate` object (gates.py:21-46): name, qubits, stored array, `_dagger` flag
    (`none` = declared self-adjoint). -/
structure QGate where
  name : String
  nq : Nat
  arr : M8
  dg : Option Bool
  deriving DecidableEq, Repr

def gS : QGate := ⟨"S", 1, arrS, some false⟩
def gT : QGate := ⟨"T", 1, arrT, some false⟩
def gH : QGate := ⟨"H", 1, arrH, none⟩
def gX : QGate := ⟨"X", 1, arrX, none⟩
def gY : QGate := ⟨"Y", 1, arrY, some false⟩
def gZ : QGate := ⟨"Z", 1, arrZ, none⟩
def gCZ : QGate := ⟨"CZ", 2, arrCZ, none⟩

/-- The TRANSCRIBED tket unitaries (`pytket.circuit.Op.create(OpType.<name>).get_unitary()`, pytket
    2.18.3; textbook convention: `U[out][in]`, column vectors, qubit 0 most significant — "ILO-BE").
    The harness cross-checks this transcription against the installed pytket on every run. -/
def tketU (name : String) : Option M8 :=
  if name == "H" then some (msmul Cyc8.invSqrt2 [[1, 1], [1, -1]])
  else if name == "S" then some [[1, 0], [0, Cyc8.I]]
  else if name == "Sdg" then some [[1, 0], [0, -Cyc8.I]]
  else if name == "T" then some [[1, 0], [0, Cyc8.zeta]]
  else if name == "Tdg" then some [[1, 0], [0, Cyc8.zeta.conj]]
  else if name == "X" then some [[0, 1], [1, 0]]
  else if name == "Y" then some [[0, -Cyc8.I], [Cyc8.I, 0]]
  else if name == "Z" then some [[1, 0], [0, -1]]
  else if name == "CX" then some [[1, 0, 0, 0], [0, 1, 0, 0], [0, 0, 0, 1], [0, 0, 1, 0]]
  else if name == "CY" then some [[1, 0, 0, 0], [0, 1, 0, 0], [0, 0, 0, -Cyc8.I], [0, 0, Cyc8.I, 0]]
  else if name == "CZ" then some [[1, 0, 0, 0], [0, 1, 0, 0], [0, 0, 1, 0], [0, 0, 0, -1]]
  else if name == "CS" then some [[1, 0, 0, 0], [0, 1, 0, 0], [0, 0, 1, 0], [0, 0, 0, Cyc8.I]]
  else if name == "CSdg" then some [[1, 0, 0, 0], [0, 1, 0, 0], [0, 0, 1, 0], [0, 0, 0, -Cyc8.I]]
  else if name == "SWAP" then some [[1, 0, 0, 0], [0, 0, 1, 0], [0, 1, 0, 0], [0, 0, 0, 1]]
  else none

/-- The standard matrix of the identically named tket operation, in discopy's `[input, output]`
    order: the transpose of `U[out][in]`. -/
def tketIO (name : String) : Option M8 := (tketU name).map transpose

/-- gates.py:43-46. -/
def QGate.dagger (g : QGate) : QGate := { g with dg := g.dg.map (! ·) }

inductive RotKind where
  | Rx | Ry | Rz | CU1 | CRz | CRx
  deriving DecidableEq, Repr

def RotKind.nq : RotKind → Nat
  | .Rx | .Ry | .Rz => 1
  | _ => 2

/-- The gate language of pure circuits.  `rot k n`: phase `n/8` full turns.  The arrays of
    Rx, Ry, Rz, CRz, CRx are exactly representable only for EVEN `n` (phase in ¼ℤ), see `Gate.exact`. -/
inductive Gate where
  | q (g : QGate)
  | rot (k : RotKind) (n : Int)
  | ctrl (inner : Gate)
  | ket (bs : List Bool)
  | bra (bs : List Bool)
  | swap
  | scalar (z : Cyc8)
  /-- `Sqrt(z)` = the exported `sqrt(z)` (gates.py:567-575, 633-635): stored `data = z`, value `z ** .5`.  ℤ[ζ₈][1/2] is
      not closed under square roots, so the value `r` of `z ** .5` (the principal root) is GIVEN with the
      box; `Gate.sqrtExact` says that it is a root.  The harness checks on every run that discopy's
      `data ** .5` is this `r`. -/
  | sqrt (z r : Cyc8)
  deriving Repr

/-- `GATES` (gates.py:565) `[SWAP, CZ, CX, H, S, T, X, Y, Z]` with their names; `CX = Controlled(X)`. -/
def named : List (String × Gate) :=
  [("SWAP", .swap), ("CZ", .q gCZ), ("CX", .ctrl (.q gX)), ("H", .q gH), ("S", .q gS), ("T", .q gT),
   ("X", .q gX), ("Y", .q gY), ("Z", .q gZ)]

/-- The same table with the repaired `Y` (independent of the switch). -/
def namedRepaired : List (String × Gate) :=
  [("SWAP", .swap), ("CZ", .q gCZ), ("CX", .ctrl (.q gX)), ("H", .q gH), ("S", .q gS), ("T", .q gT),
   ("X", .q gX), ("Y", .q ⟨"Y", 1, arrYFixed, some false⟩), ("Z", .q gZ)]

def namedGate (name : String) : Option Gate := (named.find? (·.1 == name)).map (·.2)

/-- `cos(πq/4) = (ζ^q + ζ^-q)/2`, `sin(πq/4) = (ζ^q − ζ^-q)/(2i) = −i(ζ^q − ζ^-q)/2`. -/
def cosQ (q : Int) : Cyc8 := Cyc8.half * (Cyc8.zetaPow q + Cyc8.zetaPow (-q))
def sinQ (q : Int) : Cyc8 := -(Cyc8.I * (Cyc8.half * (Cyc8.zetaPow q - Cyc8.zetaPow (-q))))

/-- Array of a rotation of phase `n/8`; for all kinds but `CU1` it is meaningful for even `n` only
    (`ν = e^{iπ n/8} = ζ^(n/2)`). -/
def rotArr : RotKind → Int → M8
  | .Rx, n => rx Cyc8.I (cosQ (n / 2)) (sinQ (n / 2))
  | .Ry, n => ry (cosQ (n / 2)) (sinQ (n / 2))
  | .Rz, n => rz (Cyc8.zetaPow (n / 2)) (Cyc8.zetaPow (-(n / 2)))
  | .CU1, n => cu1 (Cyc8.zetaPow n)
  | .CRz, n => crz (Cyc8.zetaPow (n / 2)) (Cyc8.zetaPow (-(n / 2)))
  | .CRx, n => crx Cyc8.I (cosQ (n / 2)) (sinQ (n / 2))

def bitsIndex : List Bool → Nat
  | [] => 0
  | b :: bs => (if b then pow2 bs.length else 0) + bitsIndex bs

/-- `Bits.array` (gates.py:174-177): `zeros(n * (2,) or (1,)); array[digits] = 1`, flat. -/
def basisVec (bs : List Bool) : List Cyc8 :=
  (List.range (pow2 bs.length)).map fun k => if k = bitsIndex bs then 1 else 0

def Gate.dom : Gate → Nat
  | .q g => g.nq | .rot k _ => k.nq | .ctrl g => g.dom + 1 | .ket _ => 0 | .bra bs => bs.length
  | .swap => 2 | .scalar _ => 0 | .sqrt _ _ => 0
def Gate.cod : Gate → Nat
  | .q g => g.nq | .rot k _ => k.nq | .ctrl g => g.cod + 1 | .ket bs => bs.length | .bra _ => 0
  | .swap => 2 | .scalar _ => 0 | .sqrt _ _ => 0

/-- `is_dagger` (cat.py:565-569): the `_dagger` attribute; truthy only for a flagged `QuantumGate`.
    `Controlled`, rotations, kets, bras, swaps and scalars are never flagged. -/
def Gate.isDagger : Gate → Bool
  | .q g => g.dg == some true
  | _ => false

/-- The `.array` attribute, as a `2^dom × 2^cod` matrix.  It IGNORES the dagger flag
    (gates.py:32-34).  `fix2 = false`: `Controlled.__init__` as it is — the block is
    `controlled.array` (gates.py:278, finding F2).  `fix2 = true`: the proposed repair — the block is
    conjugate-transposed when the target is flagged. -/
def Gate.arrayW (fix2 : Bool) : Gate → M8
  | .q g => g.arr
  | .rot k n => rotArr k n
  | .ctrl g => ctrlArr (if fix2 && g.isDagger then Gates.dagger (g.arrayW fix2) else g.arrayW fix2)
  | .ket bs => [basisVec bs]
  | .bra bs => (basisVec bs).map ([·])
  | .swap => swapMat
  | .scalar z => [[z]]
  | .sqrt _ r => [[r]]                                       -- gates.py:573-575 `[self.data ** .5]`

/-- `Scalar.__init__`, gates.py:524: `_dagger = None if data.conjugate() == data else False`, evaluated on
    the stored `data` — for `Sqrt` too (`Sqrt.__init__` calls it with `data`, gates.py:569-570).
    `fix = true`: the proposed repair of F4k — decided on the VALUE `array[0]`. -/
def sqrtSelfAdjointW (fix : Bool) (z r : Cyc8) : Bool := if fix then r.conj == r else z.conj == z
def sqrtSelfAdjoint (z r : Cyc8) : Bool := sqrtSelfAdjointW f4kFixed z r

/-- `Scalar.dagger` inherited by `Sqrt` (gates.py:556-558):
    `self if self._dagger is None else Scalar(self.array[0].conjugate())` — a plain `Scalar` holding the
    conjugate of the VALUE (the root), not of the data. -/
def sqrtDaggerW (fix : Bool) (z r : Cyc8) : Gate :=
  if sqrtSelfAdjointW fix z r then .sqrt z r else .scalar r.conj

/-- "`z` is given with an exact root". -/
def Gate.sqrtExact : Gate → Bool
  | .sqrt z r => r * r == z
  | _ => true

/-- The dagger mechanisms: flag (gates.py:43), negated phase (361), rebuilt controlled gate (286),
    Ket ↔ Bra (225, 253), Swap (circuit.py:670), conjugated scalar (gates.py:556-558; for a `Scalar`
    `array[0]` is the data, and `self` is returned exactly when conjugation changes nothing). -/
def Gate.dagger : Gate → Gate
  | .q g => .q g.dagger
  | .rot k n => .rot k (-n)
  | .ctrl g => .ctrl g.dagger
  | .ket bs => .bra bs
  | .bra bs => .ket bs
  | .swap => .swap
  | .scalar z => .scalar z.conj
  | .sqrt z r => sqrtDaggerW f4kFixed z r

/-- Pure evaluation of one box, tensor.py:356-361:
    `if box.is_dagger: return self(box.dagger()).dagger()` else the array. -/
def Gate.evalW (fix2 : Bool) (g : Gate) : M8 :=
  if g.isDagger then Gates.dagger (g.dagger.arrayW fix2) else g.arrayW fix2

/-- The code as it is / with the proposed repair of F2 / what the switch selects. -/
def Gate.evalAsIs (g : Gate) : M8 := g.evalW false
def Gate.evalFixed (g : Gate) : M8 := g.evalW true
def Gate.array (g : Gate) : M8 := g.arrayW f2Fixed
def Gate.eval (g : Gate) : M8 := g.evalW f2Fixed

/-- A pure circuit as its layers `(left, gate, right)`; `eval` = ordered product of
    `1 ⊗ gate ⊗ 1` on `n` input qubits (what `tensor.Functor.__call__` computes, C09). -/
abbrev Circ := List (Nat × Gate × Nat)

def evalCircFrom (acc : M8) : Circ → M8
  | [] => acc
  | (l, g, r) :: rest => evalCircFrom (mul acc (kron (idQ l) (kron g.eval (idQ r)))) rest

def evalCirc (n : Nat) (c : Circ) : M8 := evalCircFrom (idQ n) c

/-- `Circuit.dagger`: reversed layers, each box daggered (cat.py:214-231). -/
def Circ.dagger (c : Circ) : Circ := c.reverse.map fun (l, g, r) => (l, g.dagger, r)

/-! ### the calling conventions of `Circuit.eval` on the numpy route (`backend is None`)

    circuit.py:247-253
        if backend is None:
            if others:
                return [circuit.eval(mixed=mixed, **params) for circuit in (self, ) + others]
            functor = cqmap.Functor() if mixed or self.is_mixed else tensor.Functor(...)
            return functor(self)
    What matters for C11 is WHICH functor evaluates each circuit of a call: `true` = `cqmap.Functor`
    (the result is a `CQMap`), `false` = `tensor.Functor` (the result is the `Tensor` of `evalCirc`).
    A circuit is represented by its `is_mixed` flag. -/

/-- circuit.py:251 for one circuit evaluated with the keyword `mixed=flag`. -/
def evalMode1 (flag isMixed : Bool) : Bool := flag || isMixed

/-- circuit.py:248-253: `self.eval(*others, mixed=flag)`; every circuit of a batch is evaluated by its
    OWN `circuit.eval(mixed=flag)` (line 249), the receiver included. -/
def evalModes (flag selfMixed : Bool) (others : List Bool) : List Bool :=
  if others.isEmpty then [evalMode1 flag selfMixed] else (selfMixed :: others).map (evalMode1 flag)

/-- `Sum.eval(mixed=flag)`, circuit.py:657-664: `mixed = mixed or any(t.is_mixed for t in self.terms)`, then
    no term → `0` (`none`), one term → its own `eval`, else the batch `Circuit.eval(*terms, mixed=mixed)`
    summed up: all terms are evaluated by the same functor, so that they can be added. -/
def sumModes (flag : Bool) (terms : List Bool) : Option (List Bool) :=
  match terms with
  | [] => none
  | [t] => some [evalMode1 (flag || terms.any id) t]
  | t :: rest => some (evalModes (flag || terms.any id) t rest)

/-! ### rewire (gates.py:581-616) -/

/-- Matrix of the wire permutation "wire `i` goes to position `perm[i]`" on `n` qubits
    (`Box.permutation`, monoidal.py:517-545; its correctness is property C10): input basis state
    `x` is sent to the `y` with `y[perm[i]] = x[i]`. -/
def permMat {R : Type} [Zero R] [One R] (perm : List Nat) : Mat R :=
  (bits perm.length).map fun x => (bits perm.length).map fun y =>
    if (List.range perm.length).all (fun i => y.getD (perm.getD i 0) false == x.getD i false)
    then 1 else 0

/-- gates.py:597-601: the permutation list built by `rewire` (`a < b` after the min/max swap). -/
def rewirePerm (n a b : Nat) (reverse : Bool) : List Nat :=
  let p0 := List.range n
  let p1 := (p0.set 0 a).set a 0
  let p2 := (p1.set 1 (p1.getD b 0)).set b (p1.getD 1 0)
  if reverse then (p2.set 0 (p2.getD 1 0)).set 1 (p2.getD 0 0) else p2

/-- `rewire(op, a, b)` with the default `dom = qubit ** (max(a, b) + 1)`, as a matrix.
    `op` is a `4 × 4` matrix with `op.cod == op.dom`. -/
def rewireMat {R : Type} [Add R] [Mul R] [Zero R] [One R] [Conj R] (op : Mat R) (a b : Nat) :
    Except Err (Mat R) :=
  if a = b then .error .value                                          -- gates.py:577-578
  else
    let n := max a b + 1
    if b = a + 1 then .ok (kron (idQ a) (kron op (idQ (n - (b + 1)))))      -- 585-587
    else if a = b + 1 then                                                    -- 588-591
      .ok (kron (idQ b) (kron (mul swapMat (mul op swapMat)) (idQ (n - (a + 1)))))
    else
      let P : Mat R := permMat (rewirePerm n (min a b) (max a b) (decide (a > b)))  -- 595-602
      .ok (mul (dagger P) (mul (kron op (idQ (n - 2))) P))                   -- 603

/-- Specification: "the gate `op` acting on qubits `a` and `b`" of an `n`-qubit register:
    `⟨y| R |x⟩ = op[(x_a x_b), (y_a y_b)]` if `x` and `y` agree off `{a, b}`, else `0`. -/
def actsOn {R : Type} [Zero R] (op : Mat R) (n a b : Nat) : Mat R :=
  (bits n).map fun x => (bits n).map fun y =>
    if (List.range n).all (fun i => i == a || i == b || x.getD i false == y.getD i false)
    then ((op.getD (bitsIndex [x.getD a false, x.getD b false]) []).getD
            (bitsIndex [y.getD a false, y.getD b false]) 0)
    else 0

/-! ### executable ZX syntax (phases in eighths of a full turn) and gate2zx -/

/-- A ZX box as zx.py builds it: spiders carry a phase (`p/8` full turns), scalars a number. -/
inductive ZXBox where
  | z (n m : Nat) (p : Int)
  | x (n m : Nat) (p : Int)
  | h
  | swap
  | scalar (s : Cyc8)
  deriving DecidableEq, Repr

/-- zx.py:282-283 (spiders: swap legs, negate phase), 330 (H), 354 (scalar: conjugate). -/
def ZXBox.dagger : ZXBox → ZXBox
  | .z n m p => .z m n (-p)
  | .x n m p => .x m n (-p)
  | .h => .h
  | .swap => .swap
  | .scalar s => .scalar s.conj

/-- Interpretation of the syntax: phase `p/8` ↦ `μ = ζ^p`. -/
def ZXBox.sem : ZXBox → ZXB Cyc8
  | .z n m p => .z n m (Cyc8.zetaPow p)
  | .x n m p => .x n m (Cyc8.zetaPow p)
  | .h => .h
  | .swap => .swap
  | .scalar s => .scalar s

abbrev ZXDiag := List (ZXBox × Nat)

def ZXDiag.sem (d : ZXDiag) : ZXD Cyc8 := d.map fun (b, o) => (b.sem, o)
def ZXDiag.dagger (d : ZXDiag) : ZXDiag := d.reverse.map fun (b, o) => (b.dagger, o)
def ZXDiag.eval (dom : Nat) (d : ZXDiag) : M8 := evalZX Cyc8.invSqrt2 dom d.sem

/-- Scan of a `boxes/offsets` diagram from `w` wires: `some cod` iff every box finds its input wires
    (the typing discipline of C01 on the one-object type `PRO`). -/
def ZXDiag.codFrom : Nat → ZXDiag → Option Nat
  | w, [] => some w
  | w, (b, off) :: rest =>
    if off + b.sem.dom ≤ w then ZXDiag.codFrom (w - b.sem.dom + b.sem.cod) rest else none

/-- zx.py:370-373: one `X(dom, cod, .5 * bit)` per bit, then `scalar(2 ** (-len/2))`. -/
def zxKetBra (isBra : Bool) (bs : List Bool) : ZXDiag :=
  (bs.zipIdx.map fun (b, k) =>
    ((if isBra then ZXBox.x 1 0 (if b then 4 else 0) else ZXBox.x 0 1 (if b then 4 else 0)),
     if isBra then 0 else k))
  ++ [(.scalar (Cyc8.invSqrt2Pow bs.length), if isBra then 0 else bs.length)]

/-- The phase-free dictionary `standard_gates` (zx.py:389-395), looked up by box equality
    (name, dom, cod, `_dagger`; cat.py:594-598 — arrays are not compared). -/
def zxStandard (g : QGate) : Except Err ZXDiag :=
  if g.name == "H" && g.nq == 1 && g.dg == none then .ok [(.h, 0)]
  else if g.name == "Z" && g.nq == 1 && g.dg == none then .ok [(.z 1 1 4, 0)]
  else if g.name == "X" && g.nq == 1 && g.dg == none then .ok [(.x 1 1 4, 0)]
  else if g.name == "Y" && g.nq == 1 && g.dg == some false then
    .ok [(.z 1 1 4, 0), (.x 1 1 4, 0), (.scalar Cyc8.I, 1)]
  else if g.name == "CZ" && g.nq == 2 && g.dg == none then .ok [(.z 1 2 0, 0), (.h, 1), (.z 2 1 0, 1)]
  else .error .index

/-- `gate2zx` (zx.py:368-396) behind the functor's dagger dispatch (cat.py:842-843).
    `fixed = false`: the table AS IT IS (CRz/CRx/CU1 unsound, F7); `fixed = true`: the corrected
    decompositions, whose half phases `n/16` are representable for even `n` only.
    Not in the table (S, T, Ry, Controlled(other than X)): `KeyError` in the code, `.error .index` here. -/
def gate2zx (fixed : Bool) : Gate → Except Err ZXDiag
  | .ket bs => .ok (zxKetBra false bs)
  | .bra bs => .ok (zxKetBra true bs)
  | .rot .Rz n => .ok [(.z 1 1 n, 0)]
  | .rot .Rx n => .ok [(.x 1 1 n, 0)]
  | .rot .CRz n =>
    if fixed then .ok [(.z 1 2 0, 0), (.z 1 2 (n / 2), 2), (.x 2 1 0, 1), (.z 1 0 (-(n / 2)), 1)]
    else .ok [(.z 1 2 0, 0), (.z 1 2 n, 2), (.x 2 1 0, 1), (.z 1 0 (-n), 1)]
  | .rot .CRx n =>
    if fixed then
      .ok [(.z 1 2 0, 0), (.x 1 2 (n / 2), 2), (.h, 1), (.z 2 1 0, 1), (.x 1 0 (-(n / 2)), 1)]
    else .ok [(.x 1 2 0, 0), (.x 1 2 n, 2), (.z 2 1 0, 1), (.x 1 0 (-n), 1)]
  | .rot .CU1 n =>
    if fixed then
      .ok [(.z 1 2 (n / 2), 0), (.z 1 2 (n / 2), 2), (.x 2 1 0, 1), (.z 1 0 (-(n / 2)), 1)]
    else .ok [(.z 1 2 n, 0), (.z 1 2 n, 2), (.x 2 1 0, 1), (.z 1 0 (-n), 1)]
  | .rot .Ry _ => .error .index
  | .scalar z => .ok [(.scalar z, 0)]
  | .sqrt z _ => .ok [(.scalar z, 0)]        -- zx.py:397-400 `scalar(box.data)`: the DATA, not the root
  | .swap => .ok [(.swap, 0)]
  | .q g =>
    if g.dg == some true then
      match zxStandard g.dagger with
      | .ok d => .ok d.dagger
      | .error e => .error e
    else zxStandard g
  | .ctrl (.q g) =>
    if g.name == "X" && g.nq == 1 then .ok [(.z 1 2 0, 0), (.x 2 1 0, 1)] else .error .index
  | .ctrl _ => .error .index

/-- Phases at which the model's arrays / corrected decompositions are exact. -/
def Gate.exact : Gate → Bool
  | .rot .CU1 _ => true
  | .rot _ n => n % 2 == 0
  | .ctrl g => g.exact
  | _ => true

/-- What the switch selects. -/
def gate2zxCur : Gate → Except Err ZXDiag := gate2zx f7Fixed

/-- `circuit2zx` (zx.py:399-401): the functor applies `gate2zx` box by box and whiskers. -/
def circuit2zx (fixed : Bool) : Circ → Except Err ZXDiag
  | [] => .ok []
  | (l, g, _) :: rest =>
    match gate2zx fixed g, circuit2zx fixed rest with
    | .ok d, .ok ds => .ok (d.map (fun (b, o) => (b, o + l)) ++ ds)
    | .error e, _ => .error e
    | _, .error e => .error e

end DV.Gates
