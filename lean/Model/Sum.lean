/-
  Model/Sum.lean — formal sums of diagrams, transcribed from discopy/cat.py:612-713
  (`cat.Sum`) and discopy/monoidal.py:742-758 (`monoidal.Sum.tensor`).  Core Lean only.

  A Python `Sum` is a `Box` whose payload is `terms` (an ordered list of diagrams) plus
  `dom`, `cod`; its `__eq__` (cat.py:666-670) compares exactly `(dom, cod, terms)`, the terms
  with the diagrams' own `==`.  The model keeps those three fields.
-/
import Model.Expr

namespace DV

structure Sum where
  terms : List Diagram
  dom : Ty
  cod : Ty
  deriving DecidableEq, Repr, Inhabited

/-- `Sum.__eq__`, cat.py:666-670: `(dom, cod, terms)` compared, the terms with `Diagram.__eq__`
    (which ignores `layers`). -/
def eqvList : List Diagram → List Diagram → Bool
  | [], [] => true
  | a :: as, b :: bs => a.eqv b && eqvList as bs
  | _, _ => false

def Sum.eqv (a b : Sum) : Bool :=
  a.dom == b.dom && a.cod == b.cod && eqvList a.terms b.terms

/-- The loop of cat.py:655-657 (and the first-term check of 651-654). -/
def Sum.typesOk (dom cod : Ty) (terms : List Diagram) : Bool :=
  terms.all (fun t => t.dom == dom && t.cod == cod)

/-- `Sum(terms, dom, cod)`, cat.py:643-661.  `none` = argument omitted. -/
def Sum.mk? (terms : List Diagram) (dom cod : Option Ty) : Except Err Sum :=
  match terms with
  | [] =>
    match dom, cod with
    | some d, some c => .ok ⟨[], d, c⟩
    | _, _ => .error .value                               -- cat.py:646-647
  | t :: ts =>
    if Sum.typesOk (dom.getD t.dom) (cod.getD t.cod) (t :: ts)
    then .ok ⟨t :: ts, dom.getD t.dom, cod.getD t.cod⟩
    else .error .axiom

/-- `Sum([], dom, cod)`: the unit. -/
def Sum.zero (dom cod : Ty) : Sum := ⟨[], dom, cod⟩

/-- `Sum([d])`, what `d + …`, `d >> sum`, `sum >> d`, `d @ sum` wrap a diagram into
    (cat.py:256, 302-303, 696; monoidal.py:419-420, 750). -/
def Sum.single (d : Diagram) : Sum := ⟨[d], d.dom, d.cod⟩

/-- `self + other`, cat.py:678-682: re-validated by the constructor with `self`'s types. -/
def Sum.add (a b : Sum) : Except Err Sum :=
  Sum.mk? (a.terms ++ b.terms) (some a.dom) (some a.cod)

/-- Python's `sum(terms, unit)`: a left fold of `+`, each diagram wrapped by `Sum([·])`. -/
def Sum.addAll : Sum → List Diagram → Except Err Sum
  | acc, [] => .ok acc
  | acc, t :: ts =>
    match acc.add (Sum.single t) with
    | .error e => .error e
    | .ok acc' => Sum.addAll acc' ts

/-- `[f x for x in xs]` where `f` may raise. -/
def mapE (f : Diagram → Except Err Diagram) : List Diagram → Except Err (List Diagram)
  | [] => .ok []
  | g :: gs =>
    match f g with
    | .error e => .error e
    | .ok x =>
      match mapE f gs with
      | .error e => .error e
      | .ok xs => .ok (x :: xs)

/-- `[op f g for f in fs for g in gs]` (cat.py:698, monoidal.py:752), in that order. -/
def prodE (op : Diagram → Diagram → Except Err Diagram) :
    List Diagram → List Diagram → Except Err (List Diagram)
  | [], _ => .ok []
  | f :: fs, gs =>
    match mapE (op f) gs with
    | .error e => .error e
    | .ok xs =>
      match prodE op fs gs with
      | .error e => .error e
      | .ok ys => .ok (xs ++ ys)

/-- `Sum.then`, cat.py:692-700.  Note: no `cod == dom` check of its own — only the terms'
    `then` can refuse, so sums with no terms compose with anything. -/
def Sum.then (a b : Sum) : Except Err Sum :=
  match prodE Diagram.then a.terms b.terms with
  | .error e => .error e
  | .ok ts => Sum.addAll (Sum.zero a.dom b.cod) ts

/-- `monoidal.Sum.tensor`, monoidal.py:747-753. -/
def Sum.tensor (a b : Sum) : Except Err Sum :=
  match prodE Diagram.tensor a.terms b.terms with
  | .error e => .error e
  | .ok ts => Sum.addAll (Sum.zero (a.dom ++ b.dom) (a.cod ++ b.cod)) ts

/-- `Sum.dagger`, cat.py:702-704. -/
def Sum.dagger (a : Sum) : Except Err Sum :=
  Sum.addAll (Sum.zero a.cod a.dom) (a.terms.map Diagram.dagger)

/-! ### The op language over sums (driver commands `seval`, `srepr`) -/

/-- `[e.eval for e in es]`, left to right. -/
def evalAll : List Expr → Except Err (List Diagram)
  | [] => .ok []
  | e :: es =>
    match e.eval with
    | .error err => .error err
    | .ok d =>
      match evalAll es with
      | .error err => .error err
      | .ok ds => .ok (d :: ds)

inductive SExpr where
  | mk (terms : List Expr) (dom cod : Option Ty)     -- `Sum(terms, dom, cod)`
  | single (e : Expr)                                 -- a diagram met by a sum operation
  | add (a b : SExpr)
  | then (a b : SExpr)
  | tensor (a b : SExpr)
  | dagger (a : SExpr)
  deriving Repr, Inhabited

def SExpr.eval : SExpr → Except Err Sum
  | .mk ts dom cod =>
    match evalAll ts with
    | .error e => .error e
    | .ok ds => Sum.mk? ds dom cod
  | .single e =>
    match e.eval with
    | .error err => .error err
    | .ok d => .ok (Sum.single d)
  | .add a b =>
    match a.eval with
    | .error e => .error e
    | .ok x =>
      match b.eval with
      | .error e => .error e
      | .ok y => x.add y
  | .then a b =>
    match a.eval with
    | .error e => .error e
    | .ok x =>
      match b.eval with
      | .error e => .error e
      | .ok y => x.then y
  | .tensor a b =>
    match a.eval with
    | .error e => .error e
    | .ok x =>
      match b.eval with
      | .error e => .error e
      | .ok y => x.tensor y
  | .dagger a =>
    match a.eval with
    | .error e => .error e
    | .ok x => x.dagger

end DV
