/-
  Model/ParamJac.lean — Circuit.jacobian WITH ITS KEYWORD ARGUMENTS (C15), transcribed from
  /repo/discopy/quantum/circuit.py:503-534

      def jacobian(self, variables, **params):
          if not variables:
              return Sum([], self.dom, self.cod)
          if len(variables) == 1:
              return self.grad(variables[0], **params)
          from discopy.quantum.gates import Digits
          return sum(Digits(i, dim=len(variables)) @ self.grad(x, **params)
                     for i, x in enumerate(variables))

  The gradient is abstract: `grad x kw` = the terms of `self.grad(x, **kw)` (`kw` = the keyword
  arguments, e.g. `mixed=False`; the gradients themselves are Model/Param.lean and
  Proofs/ParamGates.lean).  What is transcribed here is the three-way case split and the fact that
  EVERY branch hands the same keywords to `grad`.  Core Lean only.
-/
namespace DV.Param

/-- A term of the formal sum returned by `jacobian`: a term `t` of a gradient as it is
    (zero or one variable: no digit wire), or `Digits(i, dim=n) @ t`. -/
inductive JTerm (T : Type) where
  | bare (t : T)
  | row (i n : Nat) (t : T)
  deriving DecidableEq, Repr

/-- `sum(Digits(i, dim=n) @ self.grad(x, **params) for i, x in enumerate(variables))`, from index
    `i` on (`@` distributes over the terms of the gradient, circuit.py:656-662). -/
def jacRows {V K T : Type} (grad : V → K → List T) (kw : K) (n : Nat) : Nat → List V → List (JTerm T)
  | _, [] => []
  | i, x :: xs => (grad x kw).map (JTerm.row i n) ++ jacRows grad kw n (i + 1) xs

/-- Circuit.jacobian (circuit.py:503-534). -/
def circuitJacobian {V K T : Type} (grad : V → K → List T) (vars : List V) (kw : K) : List (JTerm T) :=
  match vars with
  | [] => []
  | [x] => (grad x kw).map JTerm.bare
  | x :: y :: rest => jacRows grad kw (x :: y :: rest).length 0 (x :: y :: rest)

/-- NOT the code: the one-variable branch calling `self.grad(x)` without the keywords (`dflt` =
    what `grad` then assumes).  Props/C15.lean refutes it on a witness. -/
def circuitJacobianDroppingKeywords {V K T : Type} (grad : V → K → List T) (dflt : K)
    (vars : List V) (kw : K) : List (JTerm T) :=
  match vars with
  | [x] => (grad x dflt).map JTerm.bare
  | _ => circuitJacobian grad vars kw

/-- The value contributed by a term to block `k` of the stack (one fixed entry of the evaluation;
    `val t` = that entry of the evaluation of `t`): `Digits(i)` is the i-th basis state, a term
    without digit wire is the whole (only) block. -/
def JTerm.blockVal {T R : Type} [Zero R] (val : T → R) (k : Nat) : JTerm T → R
  | .bare t => if k = 0 then val t else 0
  | .row i _ t => if i = k then val t else 0

end DV.Param
