/-
  Model/Diagram.lean — operations on diagrams, transcribed one-for-one from
  discopy/monoidal.py, discopy/cat.py and discopy/rewriting.py (line numbers in comments).
  Core Lean only.
-/
import Model.Basic

namespace DV

/-! ### Constructors -/

/-- monoidal.py:625-634. -/
def Diagram.id (t : Ty) : Diagram := ⟨t, t, [], [], LArrow.id t⟩

/-- A box seen as a one-box diagram, monoidal.py:692-696. -/
def Diagram.ofBox (b : Box) : Diagram :=
  ⟨b.dom, b.cod, [b], [0], ⟨b.dom, b.cod, [⟨[], b, []⟩]⟩⟩

/-- The scan of the public constructor, monoidal.py:342-351 (with the range check of
    the `fix:` commit for finding F1: `len(left) != off` is refused). -/
def scanLayers : LArrow → List Box → List Int → Except Err LArrow
  | ls, b :: bs, o :: os =>
    let scan := ls.cod
    let left := pySlice scan none (some o)
    let right := pySlice scan (some (o + b.dom.length)) none
    if (left.length : Int) ≠ o then .error .axiom
    else match ls.thenLayer ⟨left, b, right⟩ with
      | .error e => .error e
      | .ok ls' => scanLayers ls' bs os
  | ls, _, _ => .ok ls

/-- `Diagram(dom, cod, boxes, offsets)`, monoidal.py:334-354. -/
def Diagram.mk? (dom cod : Ty) (boxes : List Box) (offsets : List Int) : Except Err Diagram :=
  if boxes.length ≠ offsets.length then .error .value
  else match scanLayers (LArrow.id dom) boxes offsets with
    | .error e => .error e
    | .ok ls => match ls.then (LArrow.id cod) with
      | .error e => .error e
      | .ok ls' => .ok ⟨dom, cod, boxes, offsets, ls'⟩

/-! ### Composition, tensor, dagger, slicing -/

/-- monoidal.py:381-389. The only check is the one `cat.Arrow.then` makes on `layers`. -/
def Diagram.then (a b : Diagram) : Except Err Diagram :=
  match a.layers.then b.layers with
  | .error e => .error e
  | .ok ls => .ok ⟨a.dom, b.cod, a.boxes ++ b.boxes, a.offsets ++ b.offsets, ls⟩

/-- Fold `layers >> Layer(..)` over a list of layers (each `>>` checks `cod == dom`). -/
def foldLayers (f : Layer → Layer) : LArrow → List Layer → Except Err LArrow
  | acc, [] => .ok acc
  | acc, l :: ls => match acc.thenLayer (f l) with
    | .error e => .error e
    | .ok acc' => foldLayers f acc' ls

/-- monoidal.py:425-433. -/
def Diagram.tensor (a b : Diagram) : Except Err Diagram :=
  let dom := a.dom ++ b.dom
  let cod := a.cod ++ b.cod
  match foldLayers (fun l => ⟨l.left, l.box, l.right ++ b.dom⟩) (LArrow.id dom) a.layers.boxes with
  | .error e => .error e
  | .ok ls1 =>
    match foldLayers (fun l => ⟨a.cod ++ l.left, l.box, l.right⟩) ls1 b.layers.boxes with
    | .error e => .error e
    | .ok ls2 =>
      .ok ⟨dom, cod, a.boxes ++ b.boxes, a.offsets ++ b.offsets.map (· + (a.cod.length : Int)), ls2⟩

/-- `self.then(*others)`, cat.py:307-310 (to which monoidal.py:384-385 delegates whenever the number
    of arguments is not one): no argument returns `self`; otherwise `self.then(others[0])` — the
    binary composition with its `cod == dom` check, also when `self` has no boxes — and then the
    rest.  The arguments have all been evaluated before the first junction is looked at. -/
def Diagram.thenN : Diagram → List Diagram → Except Err Diagram
  | a, [] => .ok a
  | a, b :: bs => match a.then b with
    | .error e => .error e
    | .ok x => x.thenN bs

/-- `self.tensor(other, *rest)`, monoidal.py:419-422: `self.tensor(other).tensor(*rest)`;
    `self.tensor()` is `self`. -/
def Diagram.tensorN : Diagram → List Diagram → Except Err Diagram
  | a, [] => .ok a
  | a, b :: bs => match a.tensor b with
    | .error e => .error e
    | .ok x => x.tensorN bs

/-- Rebuild the public fields from a layer arrow, monoidal.py:465-469. -/
def Diagram.ofLayers (ls : LArrow) : Diagram :=
  ⟨ls.dom, ls.cod, ls.boxes.map (·.box), ls.boxes.map (fun l => (l.left.length : Int)), ls⟩

/-- `d[start:stop]`. -/
def Diagram.slice (d : Diagram) (start stop : Option Int) : Except Err Diagram :=
  match d.layers.slice start stop with
  | .error e => .error e
  | .ok ls => .ok (Diagram.ofLayers ls)

/-- `d[start:stop:-1]`. -/
def Diagram.sliceRev (d : Diagram) (start stop : Option Int) : Except Err Diagram :=
  match d.layers.sliceRev start stop with
  | .error e => .error e
  | .ok ls => .ok (Diagram.ofLayers ls)

/-- `d[::-1]`. -/
def Diagram.dagger (d : Diagram) : Diagram := Diagram.ofLayers d.layers.dag

/-- `d[i]` for an integer `i`, monoidal.py:470-471: `Id(left) @ box @ Id(right)`. -/
def Diagram.getItem (d : Diagram) (i : Int) : Except Err Diagram :=
  match pyGet? d.layers.boxes i with
  | none => .error .index
  | some l =>
    match (Diagram.id l.left).tensor (Diagram.ofBox l.box) with
    | .error e => .error e
    | .ok x => x.tensor (Diagram.id l.right)

/-! ### Interchange, rewriting.py:9-78 -/

/-- Lines 57-61 / 67-71: `box0` is to the left of `box1`.  Returns `(off0, off1, layer0, layer1)`. -/
def leftCase (off0 off1 : Int) (l0 l1 : Layer) : Int × Int × Layer × Layer :=
  let middle := pySlice l1.left (some ((l0.left ++ l0.box.cod).length : Int)) none
  (off0, off1 - l0.box.cod.length + l0.box.dom.length,
    ⟨l0.left, l0.box, middle ++ l1.box.cod ++ l1.right⟩,
    ⟨l0.left ++ l0.box.dom ++ middle, l1.box, l1.right⟩)

/-- Lines 62-66: `box0` is to the right of `box1`. -/
def rightCase (off0 off1 : Int) (l0 l1 : Layer) : Int × Int × Layer × Layer :=
  let middle := pySlice l0.left (some ((l1.left ++ l1.box.dom).length : Int)) none
  (off0 - l1.box.dom.length + l1.box.cod.length, off1,
    ⟨l1.left ++ l1.box.cod ++ middle, l0.box, l0.right⟩,
    ⟨l1.left, l1.box, middle ++ l0.box.dom ++ l0.right⟩)

/-- The branch selection of lines 57-73. -/
def interchangeChoice (left : Bool) (off0 off1 : Int) (l0 l1 : Layer) :
    Except Err (Int × Int × Layer × Layer) :=
  if left && decide (off1 ≥ off0 + l0.box.cod.length) then .ok (leftCase off0 off1 l0 l1)
  else if off0 ≥ off1 + l1.box.dom.length then .ok (rightCase off0 off1 l0 l1)
  else if off1 ≥ off0 + l0.box.cod.length then .ok (leftCase off0 off1 l0 l1)
  else .error .interchanger

/-- Lines 74-78: rebuild the diagram with layers `i, i+1` replaced by `layer1, layer0`. -/
def Diagram.splice (d : Diagram) (i : Nat) (off0 off1 : Int) (layer0 layer1 : Layer) :
    Except Err Diagram :=
  match d.layers.slice none (some i) with
  | .error e => .error e
  | .ok pre => match pre.thenLayer layer1 with
    | .error e => .error e
    | .ok a1 => match a1.thenLayer layer0 with
      | .error e => .error e
      | .ok a2 => match d.layers.slice (some ((i + 2 : Nat) : Int)) none with
        | .error e => .error e
        | .ok post => match a2.then post with
          | .error e => .error e
          | .ok ls => .ok ⟨d.dom, d.cod,
              pySlice d.boxes none (some i) ++ [layer1.box, layer0.box]
                ++ pySlice d.boxes (some ((i + 2 : Nat) : Int)) none,
              pySlice d.offsets none (some i) ++ [off1, off0]
                ++ pySlice d.offsets (some ((i + 2 : Nat) : Int)) none, ls⟩

/-- The adjacent case (`j = i + 1` after the swap at line 51-52). -/
def Diagram.interchangeAdj (d : Diagram) (i : Nat) (left : Bool) : Except Err Diagram :=
  match d.offsets[i]?, d.offsets[i+1]?, d.layers.boxes[i]?, d.layers.boxes[i+1]? with
  | some off0, some off1, some l0, some l1 =>
    match interchangeChoice left off0 off1 l0 l1 with
    | .error e => .error e
    | .ok (off0', off1', layer0, layer1) => d.splice i off0' off1' layer0 layer1
  | _, _, _, _ => .error .index

/-- Repeated adjacent moves downwards: boxes `i, i+1, …` (lines 46-50). -/
def interchangeDown (left : Bool) : Nat → Nat → Diagram → Except Err Diagram
  | 0, _, d => .ok d
  | n+1, i, d => match d.interchangeAdj i left with
    | .error e => .error e
    | .ok d' => interchangeDown left n (i+1) d'

/-- Repeated adjacent moves upwards: `interchange(i, i-1)`, … (lines 41-45). -/
def interchangeUp (left : Bool) : Nat → Nat → Diagram → Except Err Diagram
  | 0, _, d => .ok d
  | n+1, i, d =>
    if i = 0 then .error .index else
    match d.interchangeAdj (i-1) left with
    | .error e => .error e
    | .ok d' => interchangeUp left n (i-1) d'

/-- `d.interchange(i, j, left)`. -/
def Diagram.interchange (d : Diagram) (i j : Int) (left : Bool) : Except Err Diagram :=
  if ¬ (0 ≤ i ∧ i < (d.boxes.length : Int)) ∨ ¬ (0 ≤ j ∧ j < (d.boxes.length : Int)) then
    .error .index
  else if i = j then .ok d
  else if j < i then interchangeUp left (i - j).toNat i.toNat d
  else interchangeDown left (j - i).toNat i.toNat d

/-! ### normalize / normal_form, rewriting.py:87-152 -/

/-- The redex test of lines 118-119 at position `i`. -/
def Diagram.redex (d : Diagram) (left : Bool) (i : Nat) : Bool :=
  match d.boxes[i]?, d.boxes[i+1]?, d.offsets[i]?, d.offsets[i+1]? with
  | some box0, some box1, some off0, some off1 =>
    (left && decide (off1 ≥ off0 + box0.cod.length)) ||
    (!left && decide (off0 ≥ off1 + box1.dom.length))
  | _, _, _, _ => false

/-- One `for i in range(len(diagram) - 1)` pass; returns the diagram after the pass and
    the steps yielded (in order). -/
def normalizePass (left : Bool) : Nat → Nat → Diagram → List Diagram → Except Err (Diagram × List Diagram)
  | 0, _, d, acc => .ok (d, acc)
  | n+1, i, d, acc =>
    if d.redex left i then
      match d.interchange i (i+1) left with
      | .error e => .error e
      | .ok d' => normalizePass left n (i+1) d' (acc ++ [d'])
    else normalizePass left n (i+1) d acc

/-- The `while True` loop with explicit fuel (number of passes).  Returns the list of
    yielded steps and whether the loop finished. -/
def normalizeTrace (left : Bool) : Nat → Diagram → List Diagram → Except Err (List Diagram × Bool)
  | 0, _, acc => .ok (acc, false)
  | fuel+1, d, acc =>
    match normalizePass left (d.boxes.length - 1) 0 d [] with
    | .error e => .error e
    | .ok (d', steps) =>
      if steps.isEmpty then .ok (acc, true)
      else normalizeTrace left fuel d' (acc ++ steps)

/-- `normal_form` over a finished-or-not trace: walk the steps, raise on a revisit. -/
def normalFormWalk : Diagram → List Diagram → List Diagram → Except Err Diagram
  | cur, _, [] => .ok cur
  | _, cache, s :: ss =>
    if cache.any (fun c => c.eqv s) then .error .notImpl
    else normalFormWalk s (s :: cache) ss

/-- `d.normal_form(left=…)`.  The generator is consumed lazily by the code, so a revisit
    is detected as soon as it is yielded; the model walks pass by pass. -/
def normalFormLoop (left : Bool) : Nat → Diagram → List Diagram → Except Err Diagram
  | 0, _, _ => .error .fuel
  | fuel+1, d, cache =>
    match normalizePass left (d.boxes.length - 1) 0 d [] with
    | .error e => .error e
    | .ok (d', steps) =>
      if steps.isEmpty then .ok d
      else
        -- check the steps of this pass against the cache, in order
        let rec walk : List Diagram → List Diagram → Except Err (List Diagram)
          | cache, [] => .ok cache
          | cache, s :: ss =>
            if cache.any (fun c => c.eqv s) then .error .notImpl else walk (s :: cache) ss
        match walk cache steps with
        | .error e => .error e
        | .ok cache' => normalFormLoop left fuel d' cache'

def Diagram.normalForm (d : Diagram) (left : Bool) (fuel : Nat := 100000) : Except Err Diagram :=
  normalFormLoop left fuel d []

/-! ### Swaps and permutations, monoidal.py:483-561 -/

def Box.swap (l r : Ob) : Box := { kind := .swap, name := "-", dom := [l, r], cod := [r, l] }

/-- `swap(left, right)` for `len(left) == 1`: built through the scanning constructor. -/
def swapOne (l : Ob) (right : Ty) : Except Err Diagram :=
  Diagram.mk? ([l] ++ right) (right ++ [l]) (right.map (fun r => Box.swap l r))
    ((List.range right.length).map (fun (n : Nat) => (n : Int)))

def Diagram.swap : Ty → Ty → Except Err Diagram
  | [], right => .ok (Diagram.id right)
  | [l], right => swapOne l right
  | l :: ls, right =>
    match Diagram.swap ls right with
    | .error e => .error e
    | .ok rest =>
      match (Diagram.id [l]).tensor rest with
      | .error e => .error e
      | .ok top =>
        match swapOne l right with
        | .error e => .error e
        | .ok s1 =>
          match s1.tensor (Diagram.id ls) with
          | .error e => .error e
          | .ok bot => top.then bot

/-- `perm.index(i)` -/
def indexOf? (perm : List Int) (i : Int) : Option Nat :=
  let k := perm.findIdx (· == i)
  if k < perm.length then some k else none

/-- Loop body of monoidal.py:539-544. -/
def permLoop : Nat → Nat → List Int → Diagram → Except Err Diagram
  | 0, _, _, d => .ok d
  | n+1, i, perm, d =>
    match indexOf? perm i with
    | none => .error .value
    | some j =>
      let c := d.cod
      match Diagram.swap (pySlice c (some i) (some j)) (pySlice c (some j) (some (j + 1 : Nat))) with
      | .error e => .error e
      | .ok s =>
        match (Diagram.id (pySlice c none (some i))).tensor s with
        | .error e => .error e
        | .ok x =>
          match x.tensor (Diagram.id (pySlice c (some (j + 1 : Nat)) none)) with
          | .error e => .error e
          | .ok layer =>
            match d.then layer with
            | .error e => .error e
            | .ok d' =>
              let perm' := pySlice perm none (some i) ++ [(i : Int)] ++ pySlice perm (some i) (some j)
                ++ pySlice perm (some (j + 1 : Nat)) none
              permLoop n (i+1) perm' d'

/-- `set(range(len(perm))) != set(perm)` -/
def isPermList (perm : List Int) : Bool :=
  perm.all (fun x => decide (0 ≤ x) && decide (x < perm.length)) &&
  (List.range perm.length).all (fun k => perm.contains (k : Int))

def Diagram.permutation (perm : List Int) (dom : Ty) : Except Err Diagram :=
  if ¬ isPermList perm then .error .value
  else if dom.length ≠ perm.length then .error .value
  else permLoop dom.length 0 perm (Diagram.id dom)

/-! ### Cups and caps, rigid.py:325-460 -/

def Box.cup (l r : Ob) : Box := { kind := .cup, name := "-", dom := [l, r], cod := [] }
def Box.cap (l r : Ob) : Box := { kind := .cap, name := "-", dom := [], cod := [l, r] }

/-- rigid.py:442-455 (`reverse = false` for cups, `true` for caps). -/
def cupsLoop (left right : Ty) (rev : Bool) : Nat → Nat → Diagram → Except Err Diagram
  | 0, _, d => .ok d
  | n+1, i, d =>
    let j := left.length - i - 1
    match left[j]?, right[i]? with
    | some lj, some ri =>
      let b := if rev then Box.cap lj ri else Box.cup lj ri
      match (Diagram.id (left.take j)).tensor (Diagram.ofBox b) with
      | .error e => .error e
      | .ok x => match x.tensor (Diagram.id (right.drop (i+1))) with
        | .error e => .error e
        | .ok layer =>
          match (if rev then layer.then d else d.then layer) with
          | .error e => .error e
          | .ok d' => cupsLoop left right rev n (i+1) d'
    | _, _ => .error .index

def Diagram.cups (left right : Ty) : Except Err Diagram :=
  if left.r ≠ right ∧ right.r ≠ left then .error .axiom
  else cupsLoop left right false left.length 0 (Diagram.id (left ++ right))

def Diagram.caps (left right : Ty) : Except Err Diagram :=
  if left.r ≠ right ∧ right.r ≠ left then .error .axiom
  else cupsLoop left right true left.length 0 (Diagram.id (left ++ right))

/-! ### Transposes, rigid.py:252-279 -/

/-- `a @ b @ c` of three results. -/
def tensor3 (a b c : Except Err Diagram) : Except Err Diagram :=
  match a, b, c with
  | .ok x, .ok y, .ok z => match x.tensor y with
    | .error e => .error e
    | .ok xy => xy.tensor z
  | .error e, _, _ => .error e
  | _, .error e, _ => .error e
  | _, _, .error e => .error e

def then3 (a b c : Except Err Diagram) : Except Err Diagram :=
  match a, b, c with
  | .ok x, .ok y, .ok z => match x.then y with
    | .error e => .error e
    | .ok xy => xy.then z
  | .error e, _, _ => .error e
  | _, .error e, _ => .error e
  | _, _, .error e => .error e

/-- `d.transpose(left)`:
    left:  Id(cod.l) @ caps(dom, dom.l) >> Id(cod.l) @ d @ Id(dom.l) >> cups(cod.l, cod) @ Id(dom.l)
    right: caps(dom.r, dom) @ Id(cod.r) >> Id(dom.r) @ d @ Id(cod.r) >> Id(dom.r) @ cups(cod, cod.r) -/
def Diagram.transpose (d : Diagram) (left : Bool) : Except Err Diagram :=
  if left then
    then3
      (tensor3 (.ok (Diagram.id (Ty.l d.cod))) (Diagram.caps d.dom (Ty.l d.dom)) (.ok (Diagram.id [])))
      (tensor3 (.ok (Diagram.id (Ty.l d.cod))) (.ok d) (.ok (Diagram.id (Ty.l d.dom))))
      (tensor3 (Diagram.cups (Ty.l d.cod) d.cod) (.ok (Diagram.id (Ty.l d.dom))) (.ok (Diagram.id [])))
  else
    then3
      (tensor3 (Diagram.caps (Ty.r d.dom) d.dom) (.ok (Diagram.id (Ty.r d.cod))) (.ok (Diagram.id [])))
      (tensor3 (.ok (Diagram.id (Ty.r d.dom))) (.ok d) (.ok (Diagram.id (Ty.r d.cod))))
      (tensor3 (.ok (Diagram.id (Ty.r d.dom))) (Diagram.cups d.cod (Ty.r d.cod)) (.ok (Diagram.id [])))

end DV
