/-
  Model/Foliate.lean — rewriting.py:155-316: `foliate` (with `yield_slices`), `depth`,
  transcribed; `foliation`/`flatten` build diagrams whose boxes are diagrams and are represented
  here by the list of slices.
-/
import Model.Diagram

namespace DV

/-- rewriting.py:209-216.  `some true` = box1 right of box0, `some false` = left, `none` = neither. -/
def isRightOf (d : Diagram) (last : Nat) : Except Err (Option Bool) :=
  match d.offsets[last]?, d.offsets[last+1]?, d.boxes[last]?, d.boxes[last+1]? with
  | some off0, some off1, some box0, some box1 =>
    if off1 ≥ off0 + box0.cod.length then .ok (some true)
    else if off0 ≥ off1 + box1.dom.length then .ok (some false)
    else .ok none
  | _, _, _, _ => .error .index

/-- `interchange` inside the `try … except InterchangerError` of `move_in_slice`:
    an interchanger error becomes "no result", every other error propagates. -/
def tryInterchange (d : Diagram) (i j : Nat) : Except Err (Option Diagram) :=
  match d.interchange i j false with
  | .ok r => .ok (some r)
  | .error .interchanger => .ok none
  | .error e => .error e

/-- rewriting.py:218-233; `fuel` bounds the recursion on `last` (at most `last - first + 1` calls). -/
def moveInSlice : Nat → Nat → Nat → Nat → Diagram → Except Err (Option Diagram)
  | 0, _, _, _, _ => .error .fuel
  | fuel+1, first, last, k, d =>
    match (if k = last + 1 then .ok (some d) else tryInterchange d k (last + 1)) with
    | .error e => .error e
    | .ok none => .ok none
    | .ok (some result) =>
      match isRightOf result last with
      | .error e => .error e
      | .ok none => .ok none
      | .ok (some true) => .ok (some result)
      | .ok (some false) =>
        match tryInterchange result (last + 1) last with
        | .error e => .error e
        | .ok none => .ok none
        | .ok (some result') =>
          if last = first then .ok (some result')
          else moveInSlice fuel first (last - 1) last result'

/-- The inner `while k < len(diagram)` loop for one slice: returns the diagram, the new `last`,
    and the yielded steps. -/
def sliceLoop (first : Nat) : Nat → Nat → Nat → Diagram → List Diagram →
    Except Err (Diagram × Nat × List Diagram)
  | 0, last, _, d, acc => .ok (d, last, acc)
  | n+1, last, k, d, acc =>
    match moveInSlice (last - first + 1) first last k d with
    | .error e => .error e
    | .ok none => sliceLoop first n last (k+1) d acc
    | .ok (some r) => sliceLoop first n (last+1) (k+1) r (acc ++ [r])

/-- The outer `while start < len(diagram)` loop: returns yielded steps and the slices. -/
def foliateLoop : Nat → Nat → Diagram → List Diagram → List Diagram →
    Except Err (List Diagram × List Diagram)
  | 0, _, _, steps, slices => .ok (steps, slices)
  | fuel+1, start, d, steps, slices =>
    if start < d.boxes.length then
      match sliceLoop start (d.boxes.length - (start + 1)) start (start + 1) d [] with
      | .error e => .error e
      | .ok (d', last, new) =>
        match d'.slice (some (start : Int)) (some ((last : Int) + 1)) with
        | .error e => .error e
        | .ok sl => foliateLoop fuel (last + 1) d' (steps ++ new) (slices ++ [sl])
    else .ok (steps, slices)

/-- `list(d.foliate(yield_slices=True))` = steps followed by the list of slices. -/
def Diagram.foliate (d : Diagram) : Except Err (List Diagram × List Diagram) :=
  foliateLoop (d.boxes.length + 1) 0 d [] []

/-- `d.depth()`. -/
def Diagram.depth (d : Diagram) : Except Err Nat :=
  match d.foliate with
  | .ok (_, slices) => .ok slices.length
  | .error e => .error e

end DV
