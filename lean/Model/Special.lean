/-
  Model/Special.lean — the box subclasses of discopy that have their OWN constructor signature
  and/or their own `dagger` override, at the level the dagger laws of C02 need: the constructor
  arguments, `dom`, `cod` and `dagger` (core Lean only).

  One constructor per Python class (or per family sharing one `dagger`), the fields are the
  constructor arguments the code keeps; `dom`/`cod`/`dag` follow the code line by line, defects
  included (`cbox` with `_dagger=None`, `quantumGate` with `data`, `scalar` with a name — findings
  F42a-c; refuted on witnesses in Proofs/Special.lean).

  Numbers: phases and scalar parts are exact integers in units chosen by the harness (eighths);
  the code only negates / conjugates them.  Arrays of gates are not modelled (every `dagger`
  passes the same array on).  Objects are `DV.Ob` (`name`, `z`): `bit`, `qubit`, `Digit(d)`,
  PRO's `1`, Dim's integers.
-/
import Model.Basic

namespace DV.Special
open DV

def bit : Ob := ⟨"'bit'", 0⟩                     -- circuit.py:105-116, 155
def qubit : Ob := ⟨"'qubit'", 0⟩                 -- circuit.py:118-129, 155
def one : Ob := ⟨"1", 0⟩                         -- monoidal.PRO: objects named 1
/-- `Ty(Digit(dim))`: named "bit" for dim 2 (circuit.py:114). -/
def digit (dim : Nat) : Ob := if dim = 2 then bit else ⟨s!"'Digit({dim})'", 0⟩
/-- `x ** n`. -/
def pow (x : Ob) (n : Nat) : Ty := List.replicate n x

/-- Python's `not flag` on a `_dagger` that may be `None`: `not None == True` (cat.py:584). -/
def pyNot : Option Bool → Option Bool
  | none => some true
  | some b => some (!b)

/-- `None if self._dagger is None else not self._dagger` (gates.py:45, 92). -/
def flipKeepNone : Option Bool → Option Bool
  | none => none
  | some b => some (!b)

inductive SBox where
  /-- grammar/cfg.py:46 `Word(name, cod, dom=None, data=None, _dagger=False)` (pregroup.Word,
      ccg.Word: same constructor).  NB the parameter order: `cod` BEFORE `dom`. -/
  | word (name : String) (cod dom : Ty) (data : String) (dagger : Bool)
  /-- monoidal.py:727 / rigid.py:321 / tensor.py:571 / circuit.py:678 / zx.py:247 `Swap(left, right)`. -/
  | swap (l r : Ob)
  | cup (l r : Ob)                                -- rigid.py:339
  | cap (l r : Ob)                                -- rigid.py:372
  | discard (t : Ty)                              -- circuit.py:696
  | mixedState (t : Ty)                           -- circuit.py:712
  | measure (n : Nat) (destructive overrideBits : Bool)      -- circuit.py:739
  | encode (n : Nat) (constructive resetBits : Bool)         -- circuit.py:774
  | digits (ds : List Nat) (dim : Nat) (dagger : Bool)       -- gates.py:152 (Bits: dim = 2, gates.py:197)
  | ket (bs : List Nat)                           -- gates.py:217
  | bra (bs : List Nat)                           -- gates.py:245
  | copy                                          -- gates.py:122
  | match_                                        -- gates.py:133
  | classicalGate (name : String) (dom cod : Ty) (data : String) (dagger : Option Bool)  -- gates.py:61
  | quantumGate (name : String) (n : Nat) (data : String) (dagger : Option Bool)         -- gates.py:23
  | rotation (name : String) (n : Nat) (phase : Int)         -- gates.py:363 (Rx Ry Rz CU1 CRz CRx)
  /-- gates.py:277 `Controlled(QuantumGate(name, 1, array, data, _dagger))`. -/
  | controlledGate (name : String) (data : String) (dagger : Option Bool)
  | controlledRot (name : String) (phase : Int)   -- gates.py:277 on a 1-qubit rotation
  /-- circuit.py:604 generic `circuit.Box(name, dom, cod, is_mixed, data, _dagger)`: no override,
      inherits cat.Box.dagger (cat.py:581). -/
  | cbox (name : String) (dom cod : Ty) (data : String) (dagger : Option Bool)
  /-- gates.py:520 `Scalar(data, name=…, is_mixed=…)`, data = re + im·i. -/
  | scalar (name : String) (re im : Int) (mixed : Bool)
  | zxScalar (re im : Int)                        -- zx.py:345
  | spider (color : String) (nIn nOut : Nat) (phase : Int)   -- zx.py:262 (Z, X, Y)
  | had                                           -- zx.py:327
  | tspider (nIn nOut dim : Nat)                  -- tensor.py:631
  deriving DecidableEq, Repr, Inhabited

namespace SBox

def dom : SBox → Ty
  | word _ _ dom _ _ => dom                                   -- cfg.py:52-55
  | swap l r => [l, r]                                        -- monoidal.py:731-732
  | cup l r => [l, r]                                         -- rigid.py:349
  | cap _ _ => []                                             -- rigid.py:382
  | discard t => t                                            -- circuit.py:699-700
  | mixedState _ => []                                        -- circuit.py:715-716
  | measure n _ o => pow qubit n ++ (if o then pow bit n else [])     -- circuit.py:740, 746-747
  | encode n c _ => (if c then [] else pow qubit n) ++ pow bit n      -- circuit.py:775-776 (= Measure.cod)
  | digits ds dim dg => if dg then pow (digit dim) ds.length else []  -- gates.py:158-159
  | ket _ => []                                               -- gates.py:221
  | bra bs => pow qubit bs.length                             -- gates.py:250
  | copy => [bit]                                             -- gates.py:123
  | match_ => [bit, bit]                                      -- gates.py:134
  | classicalGate _ dom _ _ _ => dom
  | quantumGate _ n _ _ => pow qubit n                        -- gates.py:24
  | rotation _ n _ => pow qubit n
  | controlledGate _ _ _ => [qubit, qubit]                    -- gates.py:291-293
  | controlledRot _ _ => [qubit, qubit]
  | cbox _ dom _ _ _ => dom
  | scalar _ _ _ _ => []                                      -- gates.py:523
  | zxScalar _ _ => []
  | spider _ n _ _ => pow one n                               -- zx.py:263
  | had => [one]
  | tspider n _ dim => pow ⟨toString dim, 0⟩ n                -- tensor.py:638

def cod : SBox → Ty
  | word _ cod _ _ _ => cod
  | swap l r => [r, l]
  | cup _ _ => []
  | cap l r => [l, r]
  | discard _ => []
  | mixedState t => t
  | measure n d _ => (if d then [] else pow qubit n) ++ pow bit n     -- circuit.py:740, 742-743
  | encode n _ r => pow qubit n ++ (if r then pow bit n else [])      -- (= Measure.dom)
  | digits ds dim dg => if dg then [] else pow (digit dim) ds.length
  | ket bs => pow qubit bs.length
  | bra _ => []
  | copy => [bit, bit]
  | match_ => [bit]
  | classicalGate _ _ cod _ _ => cod
  | quantumGate _ n _ _ => pow qubit n
  | rotation _ n _ => pow qubit n
  | controlledGate _ _ _ => [qubit, qubit]
  | controlledRot _ _ => [qubit, qubit]
  | cbox _ _ cod _ _ => cod
  | scalar _ _ _ _ => []
  | zxScalar _ _ => []
  | spider _ _ m _ => pow one m
  | had => [one]
  | tspider _ m dim => pow ⟨toString dim, 0⟩ m

/-- `box.dagger()` / `box[::-1]` (cat.py:586-588 sends the slice to `dagger`).
    `fx = false`: the code as it is; `fx = true`: with the patch of notes/finding_F42.diff
    (QuantumGate passes `data` on, Scalar keeps name / is_mixed, circuit.Box keeps `_dagger=None`). -/
def dagW (fx : Bool) : SBox → SBox
  -- cat.py:581-584: `type(self)(name=self.name, dom=self.cod, cod=self.dom, data=…, _dagger=not …)`,
  -- KEYWORD arguments, so the (name, cod, dom) order of Word does not matter
  | word name cod dom data dg => word name dom cod data (!dg)
  | swap l r => swap r l                                      -- monoidal.py:738-739, circuit.py:683
  | cup l r => cap l r                                        -- rigid.py:352
  | cap l r => cup l r                                        -- rigid.py:385
  | discard t => mixedState t                                 -- circuit.py:703-704
  | mixedState t => discard t                                 -- circuit.py:722-723
  | measure n d o => encode n d o                             -- circuit.py:755-758
  | encode n c r => measure n c r                             -- circuit.py:785-788
  | digits ds dim dg => digits ds dim (!dg)                   -- gates.py:185, 205
  | ket bs => bra bs                                          -- gates.py:231
  | bra bs => ket bs                                          -- gates.py:259
  | copy => match_                                            -- gates.py:127
  | match_ => copy                                            -- gates.py:138
  | classicalGate name dom cod data dg => classicalGate name cod dom data (flipKeepNone dg)  -- gates.py:91-94
  -- gates.py:43-46: `QuantumGate(self.name, len(self.dom), self.array, _dagger=…)` — `data` NOT passed
  | quantumGate name n data dg => quantumGate name n (if fx then data else "-") (flipKeepNone dg)
  | rotation name n phase => rotation name n (-phase)         -- gates.py:374-375
  -- gates.py:295-296 `Controlled(self.controlled.dagger(), …)`: the inner QuantumGate.dagger
  | controlledGate name data dg => controlledGate name (if fx then data else "-") (flipKeepNone dg)
  | controlledRot name phase => controlledRot name (-phase)
  | cbox name dom cod data dg => cbox name cod dom data (if fx then flipKeepNone dg else pyNot dg)  -- cat.py:581-584
  -- gates.py Scalar.dagger: `value = self.array[0]; self if value.conjugate() == value else
  -- Scalar(value.conjugate())` (for Scalar/MixedScalar the value is the data; real iff im = 0);
  -- name and is_mixed are NOT passed
  | scalar name re im mixed =>
    if im = 0 then scalar name re im mixed
    else if fx then scalar name re (-im) mixed else scalar "'scalar'" re (-im) false
  | zxScalar re im => zxScalar re (-im)                       -- zx.py:365-366
  | spider color n m phase => spider color m n (-phase)       -- zx.py:282-283
  | had => had                                                -- zx.py:336-337
  | tspider n m dim => tspider m n dim                        -- tensor.py:650-651

/-- Which code the driver and the theorems about `dag` follow: `false` while findings F42a-c are
    open in /repo; set to `true` together with the repair (no proof changes needed). -/
def f42Fixed : Bool := true

def dag (b : SBox) : SBox := b.dagW f42Fixed

/-- The boxes on which the three F42 defects do not bite (see the header). -/
def Plain : SBox → Prop
  | quantumGate _ _ data _ => data = "-"
  | controlledGate _ data _ => data = "-"
  | cbox _ _ _ _ dg => dg ≠ none
  | scalar name _ im mixed => im = 0 ∨ (name = "'scalar'" ∧ mixed = false)
  | _ => True

instance : DecidablePred Plain := fun b => by
  cases b <;> simp only [Plain] <;> infer_instance

end SBox
end DV.Special
