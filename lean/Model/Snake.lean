/-
  Model/Snake.lean — rewriting.py:333-443 `snake_removal` (rigid.Diagram.normalize),
  transcribed: `follow_wire`, `find_snake` (with the type-correctness test of the `fix:`
  commit for finding F4), `unsnake` with its in-place index updates turned into returned lists.
-/
import Model.Rewrite

namespace DV

/-- rewriting.py:350-371.  `i` = index of the box whose output wire at offset `j` is followed.
    Returns (index of the consumer or `len`, offset at the bottom end, left and right obstructions). -/
def followWire (boxes : List Box) (offsets : List Int) :
    Nat → Nat → Int → List Nat → List Nat → Nat × Int × List Nat × List Nat
  | 0, _, j, lo, ro => (boxes.length, j, lo, ro)
  | fuel+1, i, j, lo, ro =>
    if i + 1 < boxes.length then
      match boxes[i+1]?, offsets[i+1]? with
      | some box, some off =>
        if off ≤ j ∧ j < off + box.dom.length then (i+1, j, lo, ro)
        else if off ≤ j then
          followWire boxes offsets fuel (i+1) (j + box.cod.length - box.dom.length) (lo ++ [i+1]) ro
        else followWire boxes offsets fuel (i+1) j lo (ro ++ [i+1])
      | _, _ => (boxes.length, j, lo, ro)
    else (boxes.length, j, lo, ro)

def Diagram.followWire (d : Diagram) (i : Nat) (j : Int) : Nat × Int × List Nat × List Nat :=
  DV.followWire d.boxes d.offsets d.boxes.length i j [] []

structure Yank where
  cup : Nat
  cap : Nat
  lo : List Nat
  ro : List Nat
  leftSnake : Bool
  deriving Repr, DecidableEq

/-- One `(left_snake, wire)` attempt of rewriting.py:381-392 for the cap at index `cap`. -/
def tryYank (d : Diagram) (cap : Nat) (capBox : Box) (capOff : Int) (leftSnake : Bool) : Option Yank :=
  let wire := if leftSnake then capOff else capOff + 1
  match d.followWire cap wire with
  | (cup, wire', lo, ro) =>
    match d.boxes[cup]?, d.offsets[cup]? with
    | some cupBox, some cupOff =>
      if cupBox.kind ≠ .cup then none
      else if leftSnake ∧ cupOff + 1 ≠ wire' then none
      else if ¬ leftSnake ∧ cupOff ≠ wire' then none
      -- F4 fix: the yank must be type-correct (a snake equation)
      else if leftSnake ∧ cupBox.dom.take 1 ≠ capBox.cod.drop 1 then none
      else if ¬ leftSnake ∧ cupBox.dom.drop 1 ≠ capBox.cod.take 1 then none
      else some ⟨cup, cap, lo, ro, leftSnake⟩
    | _, _ => none

/-- rewriting.py:373-393. -/
def findSnakeFrom (d : Diagram) : Nat → Nat → Option Yank
  | 0, _ => none
  | fuel+1, cap =>
    match d.boxes[cap]?, d.offsets[cap]? with
    | some b, some off =>
      if b.kind = .cap then
        match tryYank d cap b off true with
        | some y => some y
        | none => match tryYank d cap b off false with
          | some y => some y
          | none => findSnakeFrom d fuel (cap+1)
      else findSnakeFrom d fuel (cap+1)
    | _, _ => none

def Diagram.findSnake (d : Diagram) : Option Yank := findSnakeFrom d d.boxes.length 0

/-- Move the boxes listed in `obs` one after the other to position `target`, yielding after each
    move; `target` moves by `dt` each time and the pending right obstructions are renumbered by
    `bump` (the in-place updates of lines 409-412 / 421-424). -/
def moveObstructions (bump : Nat → Nat → Nat) (dt : Int) :
    List Nat → Diagram → Int → List Nat → List Diagram →
      Except Err (Diagram × Int × List Nat × List Diagram)
  | [], d, target, ro, acc => .ok (d, target, ro, acc)
  | box :: rest, d, target, ro, acc =>
    match d.interchange box target false with
    | .error e => .error e
    | .ok d' => moveObstructions bump dt rest d' (target + dt) (ro.map (bump box)) (acc ++ [d'])

/-- Lines 429-432: delete the (now adjacent) cap and cup. -/
def Diagram.removePair (d : Diagram) (cap cup : Int) : Except Err Diagram :=
  match d.layers.slice none (some cap), d.layers.slice (some (cup + 1)) none with
  | .ok pre, .ok post =>
    match pre.then post with
    | .error e => .error e
    | .ok ls => .ok ⟨d.dom, d.cod,
        pySlice d.boxes none (some cap) ++ pySlice d.boxes (some (cup + 1)) none,
        pySlice d.offsets none (some cap) ++ pySlice d.offsets (some (cup + 1)) none, ls⟩
  | .error e, _ => .error e
  | _, .error e => .error e

/-- rewriting.py:395-432; returns the yielded diagrams in order (the last one is the result). -/
def Diagram.unsnake (d : Diagram) (y : Yank) : Except Err (List Diagram) :=
  if y.leftSnake then
    match moveObstructions (fun box r => if r < box then r + 1 else r) 1
        y.lo d y.cap y.ro [] with
    | .error e => .error e
    | .ok (d1, cap, ro, acc1) =>
      match moveObstructions (fun _ r => r) (-1) ro.reverse d1 y.cup [] acc1 with
      | .error e => .error e
      | .ok (d2, cup, _, acc2) =>
        match d2.removePair cap cup with
        | .error e => .error e
        | .ok d3 => .ok (acc2 ++ [d3])
  else
    match moveObstructions (fun box r => if r > box then r - 1 else r) (-1)
        y.lo.reverse d y.cup y.ro [] with
    | .error e => .error e
    | .ok (d1, cup, ro, acc1) =>
      match moveObstructions (fun _ r => r) 1 ro d1 y.cap [] acc1 with
      | .error e => .error e
      | .ok (d2, cap, _, acc2) =>
        match d2.removePair cap cup with
        | .error e => .error e
        | .ok d3 => .ok (acc2 ++ [d3])

/-- The first loop of `snake_removal` (lines 434-441): all yielded diagrams and the last one. -/
def snakeLoop : Nat → Diagram → List Diagram → Except Err (Diagram × List Diagram)
  | 0, d, acc => .ok (d, acc)
  | fuel+1, d, acc =>
    match d.findSnake with
    | none => .ok (d, acc)
    | some y =>
      match d.unsnake y with
      | .error e => .error e
      | .ok steps => snakeLoop fuel (lastOr d steps) (acc ++ steps)

/-- `rigid.Diagram.normalize(left)` as a list of yielded steps (plus whether the final
    `monoidal.Diagram.normalize` finished within `fuel` passes). -/
def Diagram.snakeRemoval (d : Diagram) (left : Bool) (fuel : Nat) : Except Err (List Diagram × Bool) :=
  match snakeLoop (d.boxes.length + 1) d [] with
  | .error e => .error e
  | .ok (d1, acc) => normalizeTrace left fuel d1 acc

/-! ### Step relation for the relational correspondence -/

/-- `d'` is the result of some `d.interchange(i, j)` (default preference). -/
def istep (d d' : Diagram) : Bool :=
  (List.range d.boxes.length).any fun i => (List.range d.boxes.length).any fun j =>
    i != j && (match d.interchange i j false with
      | .ok x => decide (x = d')
      | .error _ => false)

/-- Boxes `k, k+1` are a cap and a cup joined straight, forming a type-correct snake. -/
def yankableAt (d : Diagram) (k : Nat) : Bool :=
  match d.boxes[k]?, d.boxes[k+1]?, d.offsets[k]?, d.offsets[k+1]? with
  | some capB, some cupB, some capO, some cupO =>
    capB.kind == .cap && cupB.kind == .cup &&
    ((cupO + 1 == capO && cupB.dom.take 1 == capB.cod.drop 1) ||     -- left snake
     (cupO == capO + 1 && cupB.dom.drop 1 == capB.cod.take 1))        -- right snake
  | _, _, _, _ => false

def ystep (d d' : Diagram) : Bool :=
  (List.range (d.boxes.length - 1)).any fun k =>
    yankableAt d k && (match d.removePair k (k+1) with
      | .ok x => decide (x = d')
      | .error _ => false)

def sstep (left : Bool) (d d' : Diagram) : Bool := istep d d' || ystep d d' || rstep left d d'

def checkSnakeTrace (left : Bool) : Diagram → List Diagram → Nat → Option Nat
  | _, [], _ => none
  | d, s :: ss, k => if sstep left d s then checkSnakeTrace left s ss (k+1) else some k

end DV
