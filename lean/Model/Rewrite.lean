/-
  Model/Rewrite.lean — the step relation used for the *relational* correspondence of
  rewrite traces (normalize, snake removal): the code's yielded trace is accepted when every
  consecutive pair is a legal step of the model and the last diagram is terminal.
-/
import Model.Diagram

namespace DV

/-- `d'` is `d` after interchanging the redex at some position `i` (rewriting.py:115-121). -/
def rstepAt (left : Bool) (d d' : Diagram) (i : Nat) : Bool :=
  d.redex left i &&
    (match d.interchange i (i+1) left with
     | .ok x => decide (x = d')
     | .error _ => false)

def rstep (left : Bool) (d d' : Diagram) : Bool :=
  (List.range (d.boxes.length - 1)).any (rstepAt left d d')

/-- No redex is left. -/
def terminal (left : Bool) (d : Diagram) : Bool :=
  (List.range (d.boxes.length - 1)).all (fun i => !d.redex left i)

/-- Walk a trace; `none` = accepted, `some k` = the pair `(k-1, k)` is not a legal step
    (`k = 0` is the step from the input). -/
def checkTrace (left : Bool) : Diagram → List Diagram → Nat → Option Nat
  | _, [], _ => none
  | d, s :: ss, k => if rstep left d s then checkTrace left s ss (k+1) else some k

def lastOr (d : Diagram) : List Diagram → Diagram
  | [] => d
  | s :: ss => lastOr s ss

/-! ### The cache of `normal_form` (rewriting.py:146-151) over a list of yielded steps -/

/-- Some step is `==` to a diagram of the cache or to an EARLIER STEP (any of them). -/
def hasRepeat : List Diagram → List Diagram → Bool
  | _, [] => false
  | cache, s :: ss => cache.any (fun c => c.eqv s) || hasRepeat (s :: cache) ss

/-- Index (counted from `k`) of the first step that is `==` to the cache or an earlier step:
    where `normal_form` raises NotImplementedError. -/
def firstRepeat : List Diagram → List Diagram → Nat → Option Nat
  | _, [], _ => none
  | cache, s :: ss, k =>
    if cache.any (fun c => c.eqv s) then some k else firstRepeat (s :: cache) ss (k+1)

/-! ### Wiring (used only to *state* connectivity; no theorem depends on it) -/

/-- Scan the diagram labelling every wire by its producer (`none` = input boundary); returns for
    every box the labels of the wires it consumes. -/
def consumersFrom : List (Option Nat) → Nat → List Box → List Int → List (List (Option Nat))
  | scan, k, b :: bs, o :: os =>
    pySlice scan (some o) (some (o + b.dom.length)) ::
      consumersFrom (pySlice scan none (some o) ++ List.replicate b.cod.length (some k)
        ++ pySlice scan (some (o + b.dom.length)) none) (k+1) bs os
  | _, _, _, _ => []

def consumers (d : Diagram) : List (List (Option Nat)) :=
  consumersFrom (d.dom.map (fun _ => none)) 0 d.boxes d.offsets

/-- Box `j` consumes a wire produced by box `i`. -/
def wired (d : Diagram) (i j : Nat) : Prop := ∃ c, (consumers d)[j]? = some c ∧ some i ∈ c

inductive Conn (d : Diagram) : Nat → Nat → Prop
  | refl (i) : Conn d i i
  | step {a b c} : Conn d a b → (wired d b c ∨ wired d c b) → Conn d a c

/-- All boxes are connected to one another through wires. -/
def connected (d : Diagram) : Prop :=
  ∀ i j, i < d.boxes.length → j < d.boxes.length → Conn d i j

end DV
