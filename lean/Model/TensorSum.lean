/-
  Model/TensorSum.lean — the `Sum` branch of `tensor.Functor.__call__` (tensor.py:338-340):

      if isinstance(diagram, monoidal.Sum):
          dom, cod = self(diagram.dom), self(diagram.cod)
          return sum(map(self, diagram), Tensor.zeros(dom, cod))

  Python's `sum(iterable, start)` is the left fold `((start + x₁) + x₂) + …` with `Tensor.__add__`
  (`Tensor.add`, Model/Tensor.lean); `map` is lazy, so the terms are evaluated one at a time and the
  first failure (of an evaluation or of an addition) is the answer.  Core Lean only.
-/
import Model.Tensor

namespace DV
namespace TFunctor
variable {R : Type} [Add R] [Mul R] [Zero R] [One R] [Conj R] [DecidableEq R]

/-- The fold of `sum(map(self, terms), acc)`. -/
def sumLoop (F : TFunctor R) : Tensor R → List Diagram → Except Err (Tensor R)
  | acc, [] => .ok acc
  | acc, d :: ds =>
    match F.call d with
    | .error e => .error e
    | .ok t =>
      match acc.add t with
      | .error e => .error e
      | .ok acc' => sumLoop F acc' ds

/-- `self(Sum(terms, dom, cod))`, tensor.py:338-340. -/
def callSum (F : TFunctor R) (dom cod : Ty) (terms : List Diagram) : Except Err (Tensor R) :=
  F.sumLoop (Tensor.zeros (F.ty dom) (F.ty cod)) terms

end TFunctor
end DV
