/-
  Model/Tensor.lean — executable model of discopy/tensor.py (core Lean only, no Mathlib).

  * scalars: any type with core `Add Mul Zero One` and a conjugation (`DV.Conj`);
    it RUNS at `GaussInt` (ℤ[i]) so that numpy on integer-valued complex arrays agrees exactly.
  * `NDArray` = shape + flat row-major (C-order) data, exactly what a contiguous numpy array is.
    Every operation is `NDArray.ofFn shape f` (tabulate `f` over all multi-indices in row-major
    order), so reshape is free and equal arrays are *equal* (no quotient needed).
  * numpy primitives modelled: `transpose`, `moveaxis` (numpy's own algorithm:
    numpy/_core/numeric.py `moveaxis`), `tensordot` in the `(axes_a, axes_b)` form and the
    integer form (numpy/_core/numeric.py `tensordot`: both go through transpose + contraction),
    `reshape`, `identity`, `conjugate`.  Only non-negative axes are modelled (tensor.py never
    passes a negative axis).
  * `Tensor` with `Dim`'s dropping of 1s; `then/tensor/dagger/id/swap/cups/caps/transpose`
    transcribed from tensor.py:177-247 with their literal source/target comprehensions.
  * `TFunctor.call`: the single-pass loop of `tensor.Functor.__call__` (tensor.py:335-391).
  * `TFunctor.layerwise`: the reference semantics of property C09.

  A quirk of the code that the model reproduces: `Tensor.__init__` reshapes to
  `dom @ cod or (1, )` (tensor.py:128), so a scalar tensor carries an array of shape `(1,)`,
  not `()`.  Consequently the running array of `Functor.__call__` accumulates trailing axes of
  size 1 (one for an empty diagram domain, one per scalar box); they disappear in the final
  reshape of tensor.py:391.
-/
import Model.Diagram

namespace DV

/-! ### Scalars -/

/-- Conjugation (numpy.conjugate on a scalar). -/
class Conj (R : Type) where
  conj : R → R

/-- Gaussian integers ℤ[i]. -/
structure GaussInt where
  re : Int
  im : Int
  deriving DecidableEq, Repr, Inhabited

namespace GaussInt
instance : Add GaussInt := ⟨fun a b => ⟨a.re + b.re, a.im + b.im⟩⟩
instance : Mul GaussInt := ⟨fun a b => ⟨a.re * b.re - a.im * b.im, a.re * b.im + a.im * b.re⟩⟩
instance : Zero GaussInt := ⟨⟨0, 0⟩⟩
instance : One GaussInt := ⟨⟨1, 0⟩⟩
instance : Conj GaussInt := ⟨fun a => ⟨a.re, -a.im⟩⟩
end GaussInt

/-! ### Multi-indices, row-major order -/

/-- `numpy.prod(shape)`. -/
def prod : List Nat → Nat
  | [] => 1
  | n :: s => n * prod s

/-- All multi-indices of a shape, in row-major (C) order. -/
def idxs : List Nat → List (List Nat)
  | [] => [[]]
  | n :: s => (List.range n).flatMap (fun i => (idxs s).map (fun is => i :: is))

/-- Row-major flat position of a multi-index. -/
def flatIdx : List Nat → List Nat → Nat
  | _ :: s, i :: is => i * prod s + flatIdx s is
  | _, _ => 0

/-- `Σ_{j ∈ idxs s} f j`. -/
def sumOver {R} [Add R] [Zero R] (s : List Nat) (f : List Nat → R) : R :=
  ((idxs s).map f).sum

/-- Python `range(a, b)`. -/
def pyRange (a b : Nat) : List Nat := List.range' a (b - a)

/-! ### Arrays -/

/-- A C-contiguous numpy array: shape and flat row-major data. -/
structure NDArray (R : Type) where
  shape : List Nat
  data : Array R
  deriving DecidableEq, Repr, Inhabited

namespace NDArray
variable {R : Type}

/-- `data.size = prod shape`: what numpy guarantees of every array. -/
def WF (a : NDArray R) : Prop := a.data.size = prod a.shape

instance (a : NDArray R) : Decidable a.WF := inferInstanceAs (Decidable (_ = _))

def ndim (a : NDArray R) : Nat := a.shape.length

/-- `a[i₀, i₁, …]` (0 outside the data, never reached on in-range indices of a WF array). -/
def get [Zero R] (a : NDArray R) (i : List Nat) : R := a.data.getD (flatIdx a.shape i) 0

/-- Tabulate a function over all multi-indices of `s`, row-major. -/
def ofFn (s : List Nat) (f : List Nat → R) : NDArray R := ⟨s, ((idxs s).map f).toArray⟩

/-- `a.reshape(s)` for a C-contiguous array: same data.  (numpy raises ValueError when the
    sizes differ: `reshapeOk`.) -/
def reshape (a : NDArray R) (s : List Nat) : NDArray R := ⟨s, a.data⟩
def reshapeOk (a : NDArray R) (s : List Nat) : Bool := a.data.size == prod s

/-- `numpy.identity(n)`. -/
def identity [Zero R] [One R] (n : Nat) : NDArray R :=
  ofFn [n, n] (fun i => if i.getD 0 0 = i.getD 1 0 then 1 else 0)

/-- `numpy.zeros(shape)`. -/
def zeros [Zero R] (s : List Nat) : NDArray R := ofFn s (fun _ => 0)

/-- `numpy.conjugate(a)`. -/
def conj [Conj R] (a : NDArray R) : NDArray R := ⟨a.shape, a.data.map Conj.conj⟩

/-- `a + b` for equal shapes. -/
def add [Add R] [Zero R] (a b : NDArray R) : NDArray R :=
  ofFn a.shape (fun i => a.get i + b.get i)

/-- `xs[axes[0]], xs[axes[1]], …` -/
def permuteBy (axes : List Nat) (xs : List Nat) : List Nat := axes.map (fun p => xs.getD p 0)

/-- The index `y` of the input with `y[axes[d]] = idx[d]`. -/
def unpermute (axes : List Nat) (idx : List Nat) : List Nat :=
  (List.range axes.length).map (fun p => idx.getD (axes.idxOf p) 0)

/-- `a.transpose(axes)`: result axis `d` is input axis `axes[d]`. -/
def transpose [Zero R] (a : NDArray R) (axes : List Nat) : NDArray R :=
  ofFn (permuteBy axes a.shape) (fun idx => a.get (unpermute axes idx))

/-- `axes` is a permutation of `range(ndim)` (else numpy raises ValueError). -/
def isPerm (n : Nat) (axes : List Nat) : Bool :=
  axes.length == n && (List.range n).all (fun p => axes.contains p)

/-- Python `list.insert(i, x)` (clamps `i` to the length). -/
def pyInsert (l : List Nat) (i x : Nat) : List Nat := l.take i ++ [x] ++ l.drop i

/-- Lexicographic `≤` on pairs: the order of Python's `sorted` on tuples. -/
def pairLe (a b : Nat × Nat) : Bool := a.1 < b.1 || (a.1 == b.1 && a.2 ≤ b.2)

def insertPair (x : Nat × Nat) : List (Nat × Nat) → List (Nat × Nat)
  | [] => [x]
  | y :: ys => if pairLe x y then x :: y :: ys else y :: insertPair x ys

/-- `sorted(pairs)` (insertion sort; the result of any correct sort is the same list). -/
def sortPairs : List (Nat × Nat) → List (Nat × Nat)
  | [] => []
  | x :: xs => insertPair x (sortPairs xs)

/-- numpy `moveaxis`, the computation of `order`:
    `order = [n for n in range(a.ndim) if n not in source]`
    `for dest, src in sorted(zip(destination, source)): order.insert(dest, src)`. -/
def moveaxisOrder (ndim : Nat) (source target : List Nat) : List Nat :=
  (sortPairs (target.zip source)).foldl (fun o ds => pyInsert o ds.1 ds.2)
    ((List.range ndim).filter (fun n => !source.contains n))

/-- `numpy.moveaxis(a, source, target)` = `a.transpose(order)`. -/
def moveaxis [Zero R] (a : NDArray R) (source target : List Nat) : NDArray R :=
  a.transpose (moveaxisOrder a.ndim source target)

def nodupB (l : List Nat) : Bool :=
  match l with
  | [] => true
  | x :: xs => !xs.contains x && nodupB xs

/-- numpy's argument checks of `moveaxis` (ValueError / AxisError otherwise). -/
def moveaxisOk (a : NDArray R) (source target : List Nat) : Bool :=
  source.length == target.length && source.all (· < a.ndim) && target.all (· < a.ndim)
    && nodupB source && nodupB target

/-- `Σ_{j ∈ js} a[i ++ j] * b[j ++ k]` where `idx = i ++ k`, `|i| = m`. -/
def contractEntry [Add R] [Mul R] [Zero R] (a b : NDArray R) (m : Nat) (js : List (List Nat))
    (idx : List Nat) : R :=
  (js.map (fun j => a.get (idx.take m ++ j) * b.get (j ++ idx.drop m))).sum

/-- Contraction of the last `k` axes of `a` with the first `k` axes of `b`
    (the `dot` of the two matrices numpy reshapes to, written on multi-indices). -/
def contract [Add R] [Mul R] [Zero R] (a b : NDArray R) (k : Nat) : NDArray R :=
  ofFn (a.shape.take (a.ndim - k) ++ b.shape.drop k)
    (contractEntry a b (a.ndim - k) (idxs (b.shape.take k)))

/-- `[k for k in range(nd) if k not in axes]`. -/
def notin (nd : Nat) (axes : List Nat) : List Nat :=
  (List.range nd).filter (fun n => !axes.contains n)

/-- `numpy.tensordot(a, b, (axes_a, axes_b))`:
    `at = a.transpose(notin_a + axes_a)`, `bt = b.transpose(axes_b + notin_b)`, `dot`, reshape. -/
def tensordotAxes [Add R] [Mul R] [Zero R] (a b : NDArray R) (axesA axesB : List Nat) :
    NDArray R :=
  contract (a.transpose (notin a.ndim axesA ++ axesA)) (b.transpose (axesB ++ notin b.ndim axesB))
    axesA.length

/-- `numpy.tensordot(a, b, k)`: `axes_a = range(-k, 0)`, `axes_b = range(0, k)`. -/
def tensordot [Add R] [Mul R] [Zero R] (a b : NDArray R) (k : Nat) : NDArray R :=
  tensordotAxes a b (pyRange (a.ndim - k) a.ndim) (pyRange 0 k)

/-- numpy's checks in `tensordot` ("shape-mismatch for sum", axes in range, no repeats). -/
def tensordotAxesOk (a b : NDArray R) (axesA axesB : List Nat) : Bool :=
  axesA.length == axesB.length && axesA.all (· < a.ndim) && axesB.all (· < b.ndim)
    && nodupB axesA && nodupB axesB
    && permuteBy axesA a.shape == permuteBy axesB b.shape

def tensordotOk (a b : NDArray R) (k : Nat) : Bool :=
  k ≤ a.ndim && k ≤ b.ndim && a.shape.drop (a.ndim - k) == b.shape.take k

end NDArray

/-! ### Dim and Tensor, tensor.py:37-261 -/

/-- `Dim(*dims)`: drops the 1s (tensor.py:50). -/
def Dim.mk (dims : List Nat) : List Nat := dims.filter (fun x => x != 1)

/-- `Dim(*dims)` with its checks: `dim < 1` is a ValueError (tensor.py:54). -/
def Dim.mk? (dims : List Int) : Except Err (List Nat) :=
  if (dims.filter (· != 1)).any (· < 1) then .error .value
  else .ok ((dims.filter (· != 1)).map Int.toNat)

/-- `dom @ cod or (1, )`, tensor.py:128. -/
def ashape (dom cod : List Nat) : List Nat := if dom ++ cod = [] then [1] else dom ++ cod

/-- tensor.py:87-130: `dom`, `cod` (Dims) and the array, reshaped to `dom @ cod or (1,)`. -/
structure Tensor (R : Type) where
  dom : List Nat
  cod : List Nat
  arr : NDArray R
  deriving DecidableEq, Repr, Inhabited

namespace Tensor
variable {R : Type}

/-- What the constructor establishes. -/
def WF (t : Tensor R) : Prop :=
  t.arr.shape = ashape t.dom t.cod ∧ t.arr.data.size = prod (t.dom ++ t.cod)

instance (t : Tensor R) : Decidable t.WF := inferInstanceAs (Decidable (_ ∧ _))

/-- `Tensor(dom, cod, array)`, tensor.py:127-129, for an array of the right size (the
    internal uses; see `mk?` for the check). -/
def mk' (dom cod : List Nat) (a : NDArray R) : Tensor R := ⟨dom, cod, a.reshape (ashape dom cod)⟩

/-- `Tensor(dom, cod, array)` with numpy's reshape check (ValueError). -/
def mk? (dom cod : List Nat) (a : NDArray R) : Except Err (Tensor R) :=
  if a.reshapeOk (ashape dom cod) then .ok (mk' dom cod a) else .error .value

/-- Entry at a multi-index of the logical shape `dom ++ cod` (for a scalar: `entry []`). -/
def entry [Zero R] (t : Tensor R) (i : List Nat) : R :=
  t.arr.data.getD (flatIdx (t.dom ++ t.cod) i) 0

/-- Entry of the matrix from the flattened domain to the flattened codomain. -/
def mat [Zero R] (t : Tensor R) (r c : Nat) : R := t.arr.data.getD (r * prod t.cod + c) 0

section ops
variable [Add R] [Mul R] [Zero R] [One R]

/-- The array of `self >> other` (tensor.py:185-187; `array.shape` is never empty because of
    the `or (1, )` in the constructor, so the `self.array * other.array` branch is dead). -/
def thenCore (f g : Tensor R) : Tensor R :=
  mk' f.dom g.cod (NDArray.tensordot f.arr g.arr f.cod.length)

/-- `Tensor.then`, tensor.py:177-188. -/
def «then» (f g : Tensor R) : Except Err (Tensor R) :=
  if f.cod ≠ g.dom then .error .axiom else .ok (thenCore f g)

/-- The `target` comprehension of tensor.py:201-204. -/
def tensorTarget (fdom fcod gdom gcod : Nat) : List Nat :=
  (pyRange 0 (fdom + gdom + (fcod + gcod))).map (fun i =>
    if i < fdom ∨ i ≥ fdom + fcod + gdom then i
    else if i ≥ fdom + fcod then i - fcod
    else i + gdom)

/-- `Tensor.tensor`, tensor.py:190-205. -/
def tensor (f g : Tensor R) : Tensor R :=
  mk' (f.dom ++ g.dom) (f.cod ++ g.cod)
    ((NDArray.tensordot f.arr g.arr 0).moveaxis
      (pyRange 0 ((f.dom ++ g.dom) ++ (f.cod ++ g.cod)).length)
      (tensorTarget f.dom.length f.cod.length g.dom.length g.cod.length))

/-- The `target` comprehension of tensor.py:210-211. -/
def daggerTarget (dom cod : Nat) : List Nat :=
  (pyRange 0 (dom + cod)).map (fun i => if i < dom then i + cod else i - dom)

/-- `Tensor.dagger`, tensor.py:207-212. -/
def dagger [Conj R] (f : Tensor R) : Tensor R :=
  mk' f.cod f.dom
    ((f.arr.moveaxis (pyRange 0 (f.dom ++ f.cod).length)
      (daggerTarget f.dom.length f.cod.length)).conj)

/-- `Tensor.id`, tensor.py:214-217. -/
def id (dom : List Nat) : Tensor R := mk' dom dom (NDArray.identity (prod dom))

/-- The `target` comprehension of tensor.py:234-235. -/
def swapTarget (left right : Nat) : List Nat :=
  (pyRange (left + right) (2 * (left + right))).map (fun i =>
    if i < left + right + left then i + right else i - left)

/-- `Tensor.swap`, tensor.py:230-237. -/
def swap (left right : List Nat) : Tensor R :=
  mk' (left ++ right) (right ++ left)
    ((id (R := R) (left ++ right)).arr.moveaxis
      (pyRange (left ++ right).length (2 * (left ++ right).length))
      (swapTarget left.length right.length))

/-- `cup_factory` of tensor.py:223-224. -/
def cupFactory (left right : List Nat) : Tensor R :=
  mk' (left ++ right) [] (id (R := R) left).arr

/-- The loop of rigid.cups (rigid.py:449-454) with `ar_factory = Tensor`, `reverse = False`. -/
def cupsLoop (left right : List Nat) : Nat → Nat → Tensor R → Except Err (Tensor R)
  | 0, _, t => .ok t
  | n+1, i, t =>
    match t.then
      (((id (pySlice left none (some ((left.length - i - 1 : Nat) : Int)))).tensor
        (cupFactory
          (pySlice left (some ((left.length - i - 1 : Nat) : Int)) (some ((left.length - i - 1 + 1 : Nat) : Int)))
          (pySlice right (some (i : Int)) (some ((i + 1 : Nat) : Int))))).tensor
        (id (pySlice right (some ((i + 1 : Nat) : Int)) none))) with
    | .error e => .error e
    | .ok t' => cupsLoop left right n (i + 1) t'

/-- `Tensor.cups`, tensor.py:219-224 through rigid.cups (rigid.py:442-455); `Dim.r` is
    reversal (tensor.py:79-84). -/
def cups (left right : List Nat) : Except Err (Tensor R) :=
  if left.reverse ≠ right ∧ right.reverse ≠ left then .error .axiom
  else cupsLoop left right left.length 0 (id (left ++ right))

/-- `Tensor.caps`, tensor.py:226-228. -/
def caps [Conj R] (left right : List Nat) : Except Err (Tensor R) :=
  match cups (R := R) left right with
  | .error e => .error e
  | .ok t => .ok t.dagger

/-- `Tensor.transpose`, tensor.py:239-247 (`array.transpose()` reverses all axes). -/
def transpose (f : Tensor R) : Tensor R :=
  mk' f.cod.reverse f.dom.reverse (f.arr.transpose (List.range f.arr.ndim).reverse)

/-- `Tensor.conjugate`, tensor.py:249-251. -/
def conjugate [Conj R] (f : Tensor R) : Tensor R := mk' f.dom f.cod f.arr.conj

/-- `Tensor.zeros`, tensor.py:263-273. -/
def zeros (dom cod : List Nat) : Tensor R := mk' dom cod (NDArray.zeros (dom ++ cod))

/-- `Tensor.__add__`, tensor.py:159-166.  The first test, `if other == 0: return self`
    (tensor.py:160), is `Tensor.__eq__(other, 0) = numpy.all(other.array == 0)`
    (tensor.py:172-173): an all-zero right operand of ANY type returns `self` unchanged, before
    the type check of tensor.py:164. -/
def add [DecidableEq R] (f g : Tensor R) : Except Err (Tensor R) :=
  if g.arr.data.all (fun x => decide (x = 0)) then .ok f
  else if (f.dom, f.cod) ≠ (g.dom, g.cod) then .error .axiom
  else .ok (mk' f.dom f.cod (f.arr.add g.arr))

/-- The array of `Spider(n_in, n_out, dim)` for `len(dim) ≤ 1`, tensor.py:632-635:
    zeros with ones at `(i, i, …, i)`. -/
def spiderArray (nIn nOut : Nat) (dim : List Nat) : NDArray R :=
  NDArray.ofFn (List.replicate (nIn + nOut) dim).flatten
    (fun idx => if idx.all (fun x => x == idx.getD 0 0) then 1 else 0)

end ops
end Tensor

/-! ### The tensor functor, tensor.py:320-391 -/

/-- `tensor.Functor(ob, ar)`.  `ob o` is the list of ints `self.ob[Ty(o)]` stands for
    (an int `n` is `[n]`, a `Dim` its entries); `ar b` is `self.ar[b]` as an array. -/
structure TFunctor (R : Type) where
  ob : Ob → List Nat
  ar : Box → NDArray R

namespace TFunctor
variable {R : Type} [Add R] [Mul R] [Zero R] [One R] [Conj R]

/-- `self(ty)`, tensor.py:341-351: the winding number is erased, ints become `Dim(int)`. -/
def ty (F : TFunctor R) (t : Ty) : List Nat :=
  (t.map (fun o => Dim.mk (F.ob { o with z := 0 }))).flatten

/-- `dim(scan) = len(self(scan))`, tensor.py:365-366. -/
def dim (F : TFunctor R) (t : Ty) : Nat := (F.ty t).length

/-- `self(box)` for a generator that is not daggered, tensor.py:360-361. -/
def gen (F : TFunctor R) (b : Box) : Except Err (Tensor R) :=
  Tensor.mk? (F.ty b.dom) (F.ty b.cod) (F.ar b)

/-- `self(box)`, tensor.py:352-361.  For a `Swap` the loop never calls `self(box)`; its value
    here is the defining tensor `Tensor.swap` used by the reference semantics. -/
def box (F : TFunctor R) (b : Box) : Except Err (Tensor R) :=
  match b.kind with
  | .cup => Tensor.cups (F.ty (pySlice b.dom none (some 1))) (F.ty (pySlice b.dom (some 1) none))
  | .cap => Tensor.caps (F.ty (pySlice b.cod none (some 1))) (F.ty (pySlice b.cod (some 1) none))
  | .swap => .ok (Tensor.swap (F.ty (pySlice b.dom none (some 1))) (F.ty (pySlice b.dom (some 1) none)))
  | .gen =>
    if b.dagger then
      match F.gen b.dag with
      | .error e => .error e
      | .ok t => .ok t.dagger
    else F.gen b

/-- The special boxes are what the classes `Swap`, `Cup`, `Cap` of discopy build (the
    hypothesis `Genuine` of the C09 theorem, as a Boolean for the driver). -/
def genuineB (b : Box) : Bool :=
  match b.kind with
  | .gen => true
  | .swap => b.cod == pySlice b.dom (some 1) none ++ pySlice b.dom none (some 1)
  | .cup => b.dom.length == 2 && b.cod.isEmpty
  | .cap => b.cod.length == 2 && b.dom.isEmpty

/-- State of the loop of tensor.py:367-390. -/
structure St (R : Type) where
  scan : Ty
  arr : NDArray R

/-- `scan[:off] @ box.cod @ scan[off + len(box.dom):]`, tensor.py:378/390. -/
def nextScan (scan : Ty) (b : Box) (off : Int) : Ty :=
  pySlice scan none (some off) ++ b.cod ++ pySlice scan (some (off + b.dom.length)) none

/-- tensor.py:370-372 -/
def swapSource (F : TFunctor R) (ddom scan : Ty) (b : Box) (off : Int) : List Nat :=
  pyRange (F.dim (ddom ++ pySlice scan none (some off)))
    (F.dim (ddom ++ pySlice scan none (some off) ++ b.dom))

/-- tensor.py:373-376 (`box.left = box.dom[:1]`, `box.right = box.dom[1:]`). -/
def swapTargetF (F : TFunctor R) (ddom scan : Ty) (b : Box) (off : Int) : List Nat :=
  (F.swapSource ddom scan b off).map (fun i =>
    if i < F.dim (ddom ++ pySlice scan none (some off)) + F.dim (pySlice b.dom none (some 1))
    then i + F.dim (pySlice b.dom (some 1) none)
    else i - F.dim (pySlice b.dom none (some 1)))

/-- The swap branch, tensor.py:369-379. -/
def stepSwap (F : TFunctor R) (ddom : Ty) (st : St R) (b : Box) (off : Int) : St R :=
  ⟨nextScan st.scan b off,
   st.arr.moveaxis (F.swapSource ddom st.scan b off) (F.swapTargetF ddom st.scan b off)⟩

/-- tensor.py:380-385: contract the box's domain axes. -/
def boxContract (F : TFunctor R) (ddom : Ty) (st : St R) (b : Box) (off : Int) (t : Tensor R) :
    NDArray R :=
  NDArray.tensordotAxes st.arr t.arr
    (pyRange (F.dim ddom + F.dim (pySlice st.scan none (some off)))
      (F.dim ddom + F.dim (pySlice st.scan none (some off)) + F.dim b.dom))
    (pyRange 0 (F.dim b.dom))

/-- tensor.py:386-389: move the new codomain axes (last) into place. -/
def boxMoveBack (F : TFunctor R) (ddom : Ty) (st : St R) (b : Box) (off : Int) (a : NDArray R) :
    NDArray R :=
  a.moveaxis (pyRange (a.ndim - F.dim b.cod) a.ndim)
    (pyRange (F.dim ddom + F.dim (pySlice st.scan none (some off)))
      (F.dim ddom + F.dim (pySlice st.scan none (some off)) + F.dim b.cod))

/-- The non-swap branch, tensor.py:380-390, given `t = self(box)`. -/
def stepBox (F : TFunctor R) (ddom : Ty) (st : St R) (b : Box) (off : Int) (t : Tensor R) : St R :=
  ⟨nextScan st.scan b off, F.boxMoveBack ddom st b off (F.boxContract ddom st b off t)⟩

/-- One iteration of the loop. -/
def step (F : TFunctor R) (ddom : Ty) (st : St R) (b : Box) (off : Int) : Except Err (St R) :=
  if b.kind = .swap then .ok (F.stepSwap ddom st b off)
  else match F.box b with
    | .error e => .error e
    | .ok t => .ok (F.stepBox ddom st b off t)

/-- `for box, off in zip(diagram.boxes, diagram.offsets)`. -/
def loop (F : TFunctor R) (ddom : Ty) : St R → List Box → List Int → Except Err (St R)
  | st, b :: bs, o :: os =>
    match F.step ddom st b o with
    | .error e => .error e
    | .ok st' => loop F ddom st' bs os
  | st, _, _ => .ok st

/-- `tensor.Functor.__call__` on a diagram, tensor.py:365-391. -/
def call (F : TFunctor R) (d : Diagram) : Except Err (Tensor R) :=
  match F.loop d.dom ⟨d.dom, (Tensor.id (R := R) (F.ty d.dom)).arr⟩ d.boxes d.offsets with
  | .error e => .error e
  | .ok st => Tensor.mk? (F.ty d.dom) (F.ty d.cod) st.arr

/-- `id(F left) ⊗ F(box) ⊗ id(F right)`. -/
def layer (F : TFunctor R) (l : Layer) : Except Err (Tensor R) :=
  match F.box l.box with
  | .error e => .error e
  | .ok t => .ok (((Tensor.id (F.ty l.left)).tensor t).tensor (Tensor.id (F.ty l.right)))

/-- Fold of `then` over the layer tensors. -/
def layerFold (F : TFunctor R) : Tensor R → List Layer → Except Err (Tensor R)
  | acc, [] => .ok acc
  | acc, l :: ls =>
    match F.layer l with
    | .error e => .error e
    | .ok t => match acc.then t with
      | .error e => .error e
      | .ok acc' => layerFold F acc' ls

/-- Reference semantics of C09: the layer-by-layer composite. -/
def layerwise (F : TFunctor R) (d : Diagram) : Except Err (Tensor R) :=
  F.layerFold (Tensor.id (F.ty d.dom)) d.layers.boxes

end TFunctor

end DV
