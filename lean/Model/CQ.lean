/-
  Model/CQ.lean — classical-quantum maps (discopy/quantum/cqmap.py) and the two evaluators of
  circuits (discopy/quantum/circuit.py:190-346).  Core Lean only.

  Scalars.  `D8` = ℤ[ζ₈][1/2] (ζ₈ = e^{iπ/4}), normalised, decidable equality.  It contains the
  Gaussian dyadic rationals ℤ[i][1/2] (`b = d = 0`), and 1/√2 = (ζ − ζ³)/2, so H, S, T, X, Y, Z,
  CX, CZ, kets, rotations at multiples of 1/4 and dyadic classical gates are all exact, *before*
  and after doubling.  All definitions below are generic in the scalar type (core classes only:
  `Zero One Add Mul` + `Conj`); the driver runs them at `D8`, the theorems of Proofs/CQ.lean are
  proved for every commutative star-ring.

  Representation.  A `Tensor` of tensor.py with `dom`, `cod` is kept as the matrix between the
  flattened (row-major) domain and codomain, `Mat`: `Tensor.then` (tensor.py:177-188, `tensordot`
  over all codomain axes) is the matrix product, `Tensor.tensor` (190-205) is the Kronecker
  product, `Tensor.dagger` (207-212) the conjugate transpose, `Tensor.swap` (231-237) the
  permutation matrix exchanging two blocks (these are the entry formulas property C08 establishes
  for tensor.py; they are re-validated here by the correspondence streams `cq-expr`).

  A `CQMap` (cqmap.py:102-133) has the underlying tensor `dom.classical @ dom.quantum @ dom.quantum
  → cod.classical @ cod.quantum @ cod.quantum`.  The model keeps the three blocks of an index
  apart: an entry is `f c q q' c' p p'`, each block flattened row-major on its own.  Hence the
  flattened `array` of the code is the row-major enumeration of `(c, q, q', c', p, p')`, and
  `CQMap.tensor` (cqmap.py:163-186), whose swap network realises the block permutation
  `[c₀ q₀ q₀' c₁ q₁ q₁'] ↔ [c₀ c₁ q₀ q₁ q₀' q₁']` on both sides of `f ⊗ g`, is the Kronecker
  product taken block by block (`CQMap.tensor` below): reading the result at
  `(c₀c₁, q₀q₁, q₀'q₁')` reads `f` at `(c₀, q₀, q₀')` and `g` at `(c₁, q₁, q₁')`.

  `memo` tabulates a map into an array (same entries in range, see `Proofs/CQ.lean: memo_eqv`);
  the evaluators tabulate after every step so that evaluation cost stays polynomial.
-/
import Model.Basic

namespace DV.CQ

/-! ## Exact scalars -/

/-- ℤ[ζ₈] with ζ⁴ = −1: `a + bζ + cζ² + dζ³`.  `i = ζ²`, `√2 = ζ − ζ³`. -/
structure Z8 where
  a : Int
  b : Int
  c : Int
  d : Int
  deriving DecidableEq, Repr, Inhabited

namespace Z8
def zero : Z8 := ⟨0, 0, 0, 0⟩
def one : Z8 := ⟨1, 0, 0, 0⟩
def add (x y : Z8) : Z8 := ⟨x.a + y.a, x.b + y.b, x.c + y.c, x.d + y.d⟩
def neg (x : Z8) : Z8 := ⟨-x.a, -x.b, -x.c, -x.d⟩
def mul (x y : Z8) : Z8 :=
  ⟨x.a * y.a - x.b * y.d - x.c * y.c - x.d * y.b,
   x.a * y.b + x.b * y.a - x.c * y.d - x.d * y.c,
   x.a * y.c + x.b * y.b + x.c * y.a - x.d * y.d,
   x.a * y.d + x.b * y.c + x.c * y.b + x.d * y.a⟩
/-- complex conjugation: ζ ↦ ζ⁻¹ = −ζ³. -/
def conj (x : Z8) : Z8 := ⟨x.a, -x.d, -x.c, -x.b⟩
def allEven (x : Z8) : Bool := x.a % 2 == 0 && x.b % 2 == 0 && x.c % 2 == 0 && x.d % 2 == 0
def half (x : Z8) : Z8 := ⟨x.a / 2, x.b / 2, x.c / 2, x.d / 2⟩
def shl (x : Z8) (n : Nat) : Z8 := ⟨x.a * 2 ^ n, x.b * 2 ^ n, x.c * 2 ^ n, x.d * 2 ^ n⟩
end Z8

/-- ℤ[ζ₈][1/2]: `num / 2^k`, normalised (`k = 0` or some coefficient of `num` odd). -/
structure D8 where
  num : Z8
  k : Nat
  deriving DecidableEq, Repr, Inhabited

namespace D8
/-- cancel common factors of two. -/
def norm : Z8 → Nat → D8
  | z, 0 => ⟨z, 0⟩
  | z, k + 1 => if z.allEven then norm z.half k else ⟨z, k + 1⟩

def zero : D8 := ⟨Z8.zero, 0⟩
def one : D8 := ⟨Z8.one, 0⟩
def ofInt (n : Int) : D8 := ⟨⟨n, 0, 0, 0⟩, 0⟩
def add (x y : D8) : D8 :=
  norm (Z8.add (x.num.shl (max x.k y.k - x.k)) (y.num.shl (max x.k y.k - y.k))) (max x.k y.k)
def neg (x : D8) : D8 := ⟨x.num.neg, x.k⟩
def mul (x y : D8) : D8 := norm (Z8.mul x.num y.num) (x.k + y.k)
def conj (x : D8) : D8 := ⟨x.num.conj, x.k⟩
/-- real part `(x + x̄)/2`. -/
def re (x : D8) : D8 := norm (Z8.add x.num x.num.conj) (x.k + 1)

instance : Zero D8 := ⟨zero⟩
instance : One D8 := ⟨one⟩
instance : Add D8 := ⟨add⟩
instance : Mul D8 := ⟨mul⟩
instance : Neg D8 := ⟨neg⟩

def toString (x : D8) : String :=
  s!"{x.num.a},{x.num.b},{x.num.c},{x.num.d}/{x.k}"
instance : ToString D8 := ⟨toString⟩
end D8

/-- Entrywise conjugation (`numpy.conjugate`). -/
class Conj (R : Type) where
  conj : R → R
export Conj (conj)

instance : Conj D8 := ⟨D8.conj⟩

/-! ## Sums, tables -/

section Generic
variable {R : Type} [Zero R] [One R] [Add R] [Mul R] [Conj R]

/-- `Σ_{i<n} g i`. -/
def sumN : Nat → (Nat → R) → R
  | 0, _ => 0
  | n + 1, g => sumN n g + g n

/-- `Σ_{c<C} Σ_{q<Q} Σ_{p<Q} g c q p` — a sum over the index of a classical-quantum type. -/
def sum3 (C Q : Nat) (g : Nat → Nat → Nat → R) : R :=
  sumN C fun c => sumN Q fun q => sumN Q fun p => g c q p

/-- Iverson bracket. -/
def iv (p : Prop) [Decidable p] : R := if p then 1 else 0

def prodL : List Nat → Nat
  | [] => 1
  | d :: ds => d * prodL ds

/-- `[g 0, …, g (n-1)]` as an array. -/
def table (n : Nat) (g : Nat → R) : Array R := ((List.range n).map g).toArray

/-! ## Matrices = tensors between flattened domain and codomain (tensor.py) -/

structure Mat (R : Type) where
  r : Nat
  c : Nat
  f : Nat → Nat → R

namespace Mat

def toList (A : Mat R) : List R :=
  (List.range (A.r * A.c)).map fun k => A.f (k / A.c) (k % A.c)

/-- `Tensor(dom, cod, array)` from the flattened array. -/
def ofList (r c : Nat) (xs : Array R) : Mat R := ⟨r, c, fun i j => xs.getD (i * c + j) 0⟩

/-- The same matrix read from a table computed once (the argument is evaluated strictly). -/
def memo (A : Mat R) : Mat R :=
  ofList A.r A.c (table (A.r * A.c) fun k => A.f (k / A.c) (k % A.c))

/-- tensor.py:214-217. -/
def id (n : Nat) : Mat R := ⟨n, n, fun i j => iv (i = j)⟩
/-- tensor.py:177-188. -/
def comp (A B : Mat R) : Mat R := ⟨A.r, B.c, fun i k => sumN A.c fun j => A.f i j * B.f j k⟩
/-- tensor.py:190-205 (Kronecker product). -/
def kron (A B : Mat R) : Mat R :=
  ⟨A.r * B.r, A.c * B.c, fun i j => A.f (i / B.r) (j / B.c) * B.f (i % B.r) (j % B.c)⟩
/-- tensor.py:207-212. -/
def dagger (A : Mat R) : Mat R := ⟨A.c, A.r, fun i j => conj (A.f j i)⟩
/-- tensor.py:249-251. -/
def conjugate (A : Mat R) : Mat R := ⟨A.r, A.c, fun i j => conj (A.f i j)⟩
/-- tensor.py:231-237: input `(x, y)` with `x < a`, `y < b` goes to output `(y, x)`. -/
def swap (a b : Nat) : Mat R :=
  ⟨a * b, b * a, fun i j => iv (i / b = j % a ∧ i % b = j / a)⟩
def scale (z : R) (A : Mat R) : Mat R := ⟨A.r, A.c, fun i j => z * A.f i j⟩

end Mat

/-! ## Classical-quantum types and maps (cqmap.py:27-133) -/

/-- `CQ(classical, quantum)`: two `Dim`s, as lists of dimensions. -/
structure CQTy where
  c : List Nat
  q : List Nat
  deriving DecidableEq, Repr, Inhabited

namespace CQTy
def unit : CQTy := ⟨[], []⟩
def C (t : CQTy) : Nat := prodL t.c
def Q (t : CQTy) : Nat := prodL t.q
/-- cqmap.py:70-73. -/
def tensor (s t : CQTy) : CQTy := ⟨s.c ++ t.c, s.q ++ t.q⟩
/-- `classical @ quantum @ quantum`, the type of the underlying tensor (cqmap.py:128-129). -/
def udim (t : CQTy) : List Nat := t.c ++ t.q ++ t.q
/-- size of the underlying (flattened) index. -/
def size (t : CQTy) : Nat := t.C * t.Q * t.Q
/-- cqmap.py:84-99. -/
def ofC (d : List Nat) : CQTy := ⟨d, []⟩
def ofQ (d : List Nat) : CQTy := ⟨[], d⟩
end CQTy

/-- A classical-quantum map: entry `f c q q' c' p p'` of the underlying tensor. -/
structure CQMap (R : Type) where
  dom : CQTy
  cod : CQTy
  f : Nat → Nat → Nat → Nat → Nat → Nat → R

namespace CQMap

/-- flat row index of `(c, q, q')` in a type with quantum size `Q`. -/
def flat (Q c q p : Nat) : Nat := (c * Q + q) * Q + p

/-- The underlying tensor as a matrix (`utensor`, cqmap.py:119-122). -/
def toMat (A : CQMap R) : Mat R :=
  ⟨A.dom.size, A.cod.size, fun i j =>
    A.f (i / (A.dom.Q * A.dom.Q)) (i / A.dom.Q % A.dom.Q) (i % A.dom.Q)
        (j / (A.cod.Q * A.cod.Q)) (j / A.cod.Q % A.cod.Q) (j % A.cod.Q)⟩

/-- `CQMap(dom, cod, array)` / `CQMap(dom, cod, utensor=…)` (cqmap.py:124-133). -/
def ofMat (dom cod : CQTy) (u : Mat R) : CQMap R :=
  ⟨dom, cod, fun c q p c' q' p' => u.f (flat dom.Q c q p) (flat cod.Q c' q' p')⟩

def toList (A : CQMap R) : List R := A.toMat.toList

def memo (A : CQMap R) : CQMap R := ofMat A.dom A.cod A.toMat.memo

/-- cqmap.py:148-151. -/
def id (t : CQTy) : CQMap R :=
  ⟨t, t, fun c q p c' q' p' => iv (c = c' ∧ q = q' ∧ p = p')⟩

/-- cqmap.py:153-158 (composition of the underlying tensors). -/
def comp (A B : CQMap R) : CQMap R :=
  ⟨A.dom, B.cod, fun c q p c' q' p' =>
    sum3 A.cod.C A.cod.Q fun x y z => A.f c q p x y z * B.f x y z c' q' p'⟩

/-- Composition of the underlying tensors when the classical-quantum types differ although
    their underlying dimensions `classical @ quantum @ quantum` coincide (e.g. two bits into one
    qubit): `Tensor.then` contracts the flattened indices. -/
def compFlat (A B : CQMap R) : CQMap R := ofMat A.dom B.cod (A.toMat.comp B.toMat)

/-- cqmap.py:153-158 with the check of `Tensor.then` (tensor.py:183), which compares the
    underlying types only. -/
def comp? (A B : CQMap R) : Except Err (CQMap R) :=
  if A.cod.udim = B.dom.udim then .ok (if A.cod = B.dom then A.comp B else A.compFlat B)
  else .error .axiom

/-- cqmap.py:160-161. -/
def dagger (A : CQMap R) : CQMap R :=
  ⟨A.cod, A.dom, fun c q p c' q' p' => conj (A.f c' q' p' c q p)⟩

/-- cqmap.py:163-186: `f ⊗ g` between the block permutations (see the file header). -/
def tensor (A B : CQMap R) : CQMap R :=
  ⟨A.dom.tensor B.dom, A.cod.tensor B.cod, fun c q p c' q' p' =>
    A.f (c / B.dom.C) (q / B.dom.Q) (p / B.dom.Q) (c' / B.cod.C) (q' / B.cod.Q) (p' / B.cod.Q) *
    B.f (c % B.dom.C) (q % B.dom.Q) (p % B.dom.Q) (c' % B.cod.C) (q' % B.cod.Q) (p' % B.cod.Q)⟩

/-- cqmap.py:188-193. -/
def swap (l r : CQTy) : CQMap R :=
  ⟨l.tensor r, r.tensor l, fun c q p c' q' p' =>
    (Mat.swap l.C r.C).f c c' * (Mat.swap l.Q r.Q).f q q' * (Mat.swap l.Q r.Q).f p p'⟩

/-- One wire of cqmap.py:200-215. -/
def measure1 (d : Nat) (destructive : Bool) : CQMap R :=
  if destructive then
    ⟨.ofQ [d], .ofC [d], fun _ i j k _ _ => iv (i = j ∧ j = k)⟩
  else
    ⟨.ofQ [d], ⟨[d], [d]⟩, fun _ i j k l m => iv (i = j ∧ j = k ∧ k = l ∧ l = m)⟩

/-- `CQMap(CQ(), CQ(), z)`. -/
def scalar (z : R) : CQMap R := ⟨.unit, .unit, fun _ _ _ _ _ _ => z⟩

/-- cqmap.py:195-217. -/
def measure : List Nat → Bool → CQMap R
  | [], _ => scalar 1
  | [d], destructive => measure1 d destructive
  | d :: d' :: ds, destructive => (measure1 d destructive).tensor (measure (d' :: ds) destructive)

/-- cqmap.py:219-222. -/
def encode (dim : List Nat) (constructive : Bool) : CQMap R := (measure dim constructive).dagger

/-- cqmap.py:224-228: `conjugate(u) ⊗ u`, the conjugated copy first. -/
def pure (dom cod : List Nat) (u : Mat R) : CQMap R :=
  ⟨.ofQ dom, .ofQ cod, fun _ q p _ q' p' => conj (u.f q q') * u.f p p'⟩

/-- cqmap.py:230-233. -/
def classical (dom cod : List Nat) (u : Mat R) : CQMap R := ofMat (.ofC dom) (.ofC cod) u

/-- cqmap.py:235-240: ones on the classical part, the identity (a cup) on the quantum part. -/
def discard (t : CQTy) : CQMap R := ⟨t, .unit, fun _ q p _ _ _ => iv (q = p)⟩

end CQMap

/-! ## Circuits (circuit.py) and the two functors -/

/-- `Digit(dim)` / `Qudit(dim)` (circuit.py:105-128). -/
inductive Wire where
  | bit (d : Nat)
  | qubit (d : Nat)
  deriving DecidableEq, Repr, Inhabited

abbrev WTy := List Wire

def Wire.cdim : Wire → List Nat
  | .bit d => [d]
  | .qubit _ => []
def Wire.qdim : Wire → List Nat
  | .bit _ => []
  | .qubit d => [d]
def Wire.dim : Wire → Nat
  | .bit d => d
  | .qubit d => d

def isBitWire : Wire → Bool
  | .bit _ => true
  | .qubit _ => false

def isQubitWire : Wire → Bool
  | .bit _ => false
  | .qubit _ => true

/-- cqmap.Functor on types (cqmap.py:267-274 through rigid.py:430): the classical and the quantum
    wires are collected separately, each in order. -/
def F : WTy → CQTy
  | [] => .unit
  | w :: ws => CQTy.tensor ⟨w.cdim, w.qdim⟩ (F ws)

/-- tensor.Functor on types (`lambda x: x[0].dim`, circuit.py:252). -/
def dims (t : WTy) : List Nat := t.map Wire.dim

def bits (n : Nat) : WTy := List.replicate n (.bit 2)
def qubits (n : Nat) : WTy := List.replicate n (.qubit 2)

/-- The boxes of a circuit as `cqmap.Functor._ar` distinguishes them (cqmap.py:276-298). -/
inductive CBox (R : Type) where
  | discard (dom : WTy)
  | mixedState (cod : WTy)
  | measure (n : Nat) (destructive override : Bool)
  | encode (n : Nat) (constructive reset : Bool)
  | scalar (mixed : Bool) (z : R)
  /-- `not is_mixed and classical`: digits only, `array` attribute. -/
  | classical (dom cod : WTy) (u : Mat R)
  /-- `not is_mixed`, qudits only. -/
  | quantum (dom cod : WTy) (u : Mat R)
  /-- `is_mixed` with an `array` attribute (cqmap.py:296-297). -/
  | mixedArr (dom cod : WTy) (u : Mat R)
  /-- `circuit.Swap`, dispatched by monoidal.py:836-838 before `_ar`. -/
  | swap (l r : WTy)

namespace CBox
/-- circuit.py:726-737 for Measure, 761-767 for Encode (with the repair of finding F22: an Encode
    has the codomain / domain of the Measure it is the dagger of), 683-703 for Discard /
    MixedState. -/
def measureDom (n : Nat) (override : Bool) : WTy := qubits n ++ (if override then bits n else [])
def measureCod (n : Nat) (destructive : Bool) : WTy := (if destructive then [] else qubits n) ++ bits n

def dom : CBox R → WTy
  | discard d => d
  | mixedState _ => []
  | measure n _ o => measureDom n o
  | encode n c _ => measureCod n c
  | scalar _ _ => []
  | classical d _ _ => d
  | quantum d _ _ => d
  | mixedArr d _ _ => d
  | swap l r => l ++ r

def cod : CBox R → WTy
  | discard _ => []
  | mixedState c => c
  | measure n d _ => measureCod n d
  | encode n _ r => measureDom n r
  | scalar _ _ => []
  | classical _ c _ => c
  | quantum _ c _ => c
  | mixedArr _ c _ => c
  | swap l r => r ++ l

/-- `box.is_mixed` (circuit.py:614-616, 668, 687, 703, 737, 767; gates.py:29, 70, 217, 245, 514). -/
def isMixed : CBox R → Bool
  | discard _ => true
  | mixedState _ => true
  | measure _ _ _ => true
  | encode _ _ _ => true
  | scalar m _ => m
  | classical _ _ _ => false
  | quantum _ _ _ => false
  | mixedArr _ _ _ => true
  | swap l r => l != r

/-- How `circuit.Box.__init__` (circuit.py:599-606) classifies a box that is not mixed: the
    all-Digit test comes FIRST, so a box without any wire (both tests hold vacuously) is
    classical — `ClassicalGate(name, 0, 0, [w])` is a classical weight, not an amplitude; a box
    on both bits and qubits is refused with a `ValueError`. -/
def ofNonMixed (d c : WTy) (u : Mat R) : Except Err (CBox R) :=
  if (d ++ c).all isBitWire then .ok (.classical d c u)
  else if (d ++ c).all isQubitWire then .ok (.quantum d c u)
  else .error .value

/-- `_ar` for Measure (cqmap.py:280-285, with the repair of finding F3: the classical dimension
    is wrapped in `C(…)` before it is discarded). -/
def arMeasure (n : Nat) (destructive override : Bool) : CQMap R :=
  if override then
    (CQMap.measure (F (measureDom n override)).q destructive).tensor
      (CQMap.discard (.ofC (F (measureDom n override)).c))
  else CQMap.measure (F (measureDom n override)).q destructive

/-- cqmap.Functor._ar, cqmap.py:276-298 (and monoidal.py:836-838 for swaps). -/
def ar : CBox R → CQMap R
  | discard d => CQMap.discard (F d)
  | measure n d o => arMeasure n d o
  | mixedState c => (CQMap.discard (F c)).dagger                 -- self(box.dagger()).dagger()
  | encode n c r => (arMeasure n c r).dagger
  | scalar m z => CQMap.scalar (if m then z else conj z * z)     -- abs(z) ** 2
  | classical d c u => CQMap.ofMat (F d) (F c) u
  | quantum d c u => CQMap.pure (F d).q (F c).q u
  | mixedArr d c u => CQMap.ofMat (F d) (F c) u
  | swap l r => CQMap.swap (F l) (F r)

/-- `lambda f: f.array` reshaped by tensor.py:360-361; swaps by the moveaxis branch (369-379). -/
def arPure : CBox R → Mat R
  | classical _ _ u => u
  | quantum _ _ u => u
  | mixedArr _ _ u => u
  | scalar _ z => ⟨1, 1, fun _ _ => z⟩
  | swap l r => Mat.swap (prodL (dims l)) (prodL (dims r))
  | _ => ⟨0, 0, fun _ _ => 0⟩       -- no `array` attribute: never reached (such boxes are mixed)
end CBox

/-- A box occurrence as `cat.Functor.__call__` treats it (cat.py:841-844): when `is_dagger` is set
    the functor evaluates `box.dagger()` — recorded here in `box` — and daggers the result. -/
structure LBox (R : Type) where
  dag : Bool
  box : CBox R

namespace LBox
def dom (b : LBox R) : WTy := if b.dag then b.box.cod else b.box.dom
def cod (b : LBox R) : WTy := if b.dag then b.box.dom else b.box.cod
def eval (b : LBox R) : CQMap R := if b.dag then b.box.ar.dagger else b.box.ar
def evalPure (b : LBox R) : Mat R := if b.dag then b.box.arPure.dagger else b.box.arPure
end LBox

/-- A circuit: domain and `(offset, box)` list (monoidal.py:334-354). -/
structure Circuit (R : Type) where
  dom : WTy
  boxes : List (Nat × LBox R)

/-- `id_l @ self(box) @ id_r` (monoidal.py:844-846), tabulated. -/
def layerMap (l : WTy) (b : LBox R) (r : WTy) : CQMap R :=
  (((CQMap.id (F l)).tensor b.eval.memo).tensor (CQMap.id (F r))).memo

def scanStep (scan : WTy) (off : Nat) (b : LBox R) : WTy :=
  scan.take off ++ b.cod ++ scan.drop (off + b.dom.length)

/-- The loop of monoidal.py:842-848 with `ar_factory = CQMap`. -/
def evalMixedGo : CQMap R → WTy → List (Nat × LBox R) → Except Err (CQMap R)
  | acc, _, [] => .ok acc
  | acc, scan, (off, b) :: rest =>
    match acc.comp? (layerMap (scan.take off) b (scan.drop (off + b.dom.length))) with
    | .ok r => evalMixedGo r.memo (scanStep scan off b) rest
    | .error e => .error e

/-- `cqmap.Functor()(circuit)`. -/
def Circuit.evalMixed (c : Circuit R) : Except Err (CQMap R) :=
  evalMixedGo (CQMap.id (F c.dom)) c.dom c.boxes

/-- One layer of the pure evaluation: `1 ⊗ array ⊗ 1` between flattened types. -/
def layerPure (l : WTy) (b : LBox R) (r : WTy) : Mat R :=
  (((Mat.id (prodL (dims l))).kron b.evalPure.memo).kron (Mat.id (prodL (dims r)))).memo

/-- `tensor.Functor(lambda x: x[0].dim, lambda f: f.array)(circuit)` (circuit.py:251-253), at the
    level of its specification: the ordered product of `1 ⊗ box ⊗ 1` (property C09). -/
def evalPureGo : Mat R → WTy → List (Nat × LBox R) → Mat R
  | acc, _, [] => acc
  | acc, scan, (off, b) :: rest =>
    evalPureGo (acc.comp (layerPure (scan.take off) b (scan.drop (off + b.dom.length)))).memo
      (scanStep scan off b) rest

def Circuit.evalPure (c : Circuit R) : Mat R :=
  evalPureGo (Mat.id (prodL (dims c.dom))) c.dom c.boxes

/-- The codomains of the layers (circuit.py:171-172). -/
def layerCods : WTy → List (Nat × LBox R) → List WTy
  | _, [] => []
  | scan, (off, b) :: rest => scanStep scan off b :: layerCods (scanStep scan off b) rest

def finalScan : WTy → List (Nat × LBox R) → WTy
  | scan, [] => scan
  | scan, (off, b) :: rest => finalScan (scanStep scan off b) rest

def Circuit.cod (c : Circuit R) : WTy := finalScan c.dom c.boxes

def hasBoth (t : WTy) : Bool := t.contains (.bit 2) && t.contains (.qubit 2)

/-- circuit.py:163-173. -/
def Circuit.isMixed (c : Circuit R) : Bool :=
  hasBoth c.dom || (layerCods c.dom c.boxes).any hasBoth || c.boxes.any fun ob => ob.2.box.isMixed

/-- circuit.py:190-253 without backend: which functor `eval(mixed=…)` applies. -/
inductive Value (R : Type) where
  | tensor (dom cod : List Nat) (m : Mat R)
  | cq (m : CQMap R)

def Circuit.eval (c : Circuit R) (mixed : Bool) : Except Err (Value R) :=
  if mixed || c.isMixed then
    match c.evalMixed with
    | .ok m => .ok (.cq m)
    | .error e => .error e
  else .ok (.tensor (dims c.dom) (dims c.cod) c.evalPure)

/-- `Bits(0)` / `Ket(0)` (gates.py:183-228). -/
def basis0 : Mat R := ⟨1, 2, fun _ j => iv (j = 0)⟩

def initBox : Wire → LBox R
  | .bit _ => ⟨false, .classical [] [.bit 2] basis0⟩       -- x.name == "bit"
  | .qubit _ => ⟨false, .quantum [] [.qubit 2] basis0⟩

def inits : Nat → WTy → List (Nat × LBox R)
  | _, [] => []
  | k, w :: ws => (k, initBox w) :: inits (k + 1) ws

def discards : Nat → WTy → List (Nat × LBox R)
  | _, [] => []
  | k, .bit _ :: ws => discards (k + 1) ws
  | k, .qubit _ :: ws => (k, ⟨false, .discard [.qubit 2]⟩) :: discards k ws

/-- circuit.py:175-188 (for bits and qubits of dimension 2). -/
def Circuit.initAndDiscard (c : Circuit R) : Circuit R :=
  ⟨[], (if c.dom = [] then [] else inits 0 c.dom) ++ c.boxes ++
        (if c.cod = bits c.cod.length then [] else discards 0 c.cod)⟩

end Generic


/-! ## `get_counts` and `measure` without backend (circuit.py:309-318, 336-346), at `D8`.
    Oracle-only clauses of C12; modelled so that the correspondence covers them. -/

/-- `Ket(0, …, 0)` on `n` qubits as one box. -/
def ketZeros (n : Nat) : LBox D8 :=
  ⟨false, .quantum [] (qubits n) ⟨1, 2 ^ n, fun _ j => iv (j = 0)⟩⟩

def Value.entries : Value D8 → List D8
  | .tensor _ _ m => m.toList
  | .cq m => m.toList

def enumFrom {α} : Nat → List α → List (Nat × α)
  | _, [] => []
  | k, x :: xs => (k, x) :: enumFrom (k + 1) xs

/-- circuit.py:313-318: the non-zero entries of `init_and_discard().eval(mixed=True)`, real parts —
    with the repair of finding F5k: the unrepaired code calls `eval()`, which contracts a circuit
    that is not mixed (bits only on its output and no mixed box, e.g. `Bits(0) @ scalar(-1)`) as a
    plain tensor, so that amplitudes (not their squared magnitudes) are returned as counts. -/
def Circuit.getCounts (c : Circuit D8) : Except Err (List (Nat × D8)) :=
  match c.initAndDiscard.eval true with
  | .ok v => .ok (((enumFrom 0 v.entries).filter fun p => p.2 != 0).map fun p => (p.1, p.2.re))
  | .error e => .error e

/-- Some wire of the circuit is a bit (the repair of finding F21). -/
def Circuit.hasBits (c : Circuit D8) : Bool :=
  (c.dom ++ c.cod).any isBitWire ||
    c.boxes.any fun ob => (ob.2.box.dom ++ ob.2.box.cod).any isBitWire

/-- circuit.py:336-346, with the repair of finding F21: a circuit with bits takes the mixed
    path (the unrepaired code took the amplitude path for non-mixed classical circuits). -/
def Circuit.measure (c : Circuit D8) (mixed : Bool) : Except Err (List D8) :=
  if mixed || c.isMixed || c.hasBits then
    match c.initAndDiscard.evalMixed with
    | .ok m => .ok (m.toList.map D8.re)
    | .error e => .error e
  else .ok ((Circuit.evalPure ⟨[], (0, ketZeros c.dom.length) :: c.boxes⟩).toList.map
              fun s => (conj s * s : D8))

end DV.CQ
