import os
os.environ["OPENBLAS_NUM_THREADS"]=os.environ.get("NT","1"); os.environ["OMP_NUM_THREADS"]=os.environ.get("NT","1")
import sys, random, time
sys.path.insert(0, '/tmp/ws-c0809/harness')
from common import Driver, Report
import props.c08 as c
rep=Report("C08","quick",0)
drv=Driver()
rng=random.Random(5)
t=time.time(); c.run_prims(rep,drv,rng,800,3,5); print("prims",time.time()-t)
t=time.time(); c.run_tensor_ops(rep,drv,rng,700,3,3,4,400000,20000); print("ops",time.time()-t)
t=time.time()
for _ in range(400):
    s=rng.getrandbits(64); c.oracle_case(rep,random.Random(s),s,3,3,200,27)
print("oracle",time.time()-t)
print(len(rep.disagreements), len(rep.failures), rep.failures[:2])
