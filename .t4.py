import os
os.environ["OPENBLAS_NUM_THREADS"]="1"; os.environ["OMP_NUM_THREADS"]="1"
import sys, random, time, cProfile, pstats
sys.path.insert(0, '/tmp/ws-c0809/harness')
from common import Driver, Report
import props.c08 as c
rep=Report("C08","quick",0)
rng=random.Random(5)
def go():
    for _ in range(150):
        s=rng.getrandbits(64); c.oracle_case(rep,random.Random(s),s,3,3,200,27)
cProfile.run("go()","/tmp/ws-c0809/.prof")
pstats.Stats("/tmp/ws-c0809/.prof").sort_stats("cumtime").print_stats(25)
