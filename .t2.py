import sys, random, time
sys.path.insert(0, '/tmp/ws-c0809/harness')
from common import Driver
from tensorlib import *
drv = Driver()
def T(l):
    t=time.time(); r=ask_many(drv,[l])[0]; return round(time.time()-t,3), r[:40]
for l in [[2,2],[3,3],[2,2,2],[2,3,2],[3,4],[4,4],[2,2,2,2],[3,2,3],[4,4,1,1]]:
    print("cups",l, T("teval cups %s %s"%(tok_nats(l),tok_nats(l[::-1]))))
rng=random.Random(1)
g=TGen(rng)
for dom,cod,dom2,cod2 in [([3,3],[3,3],[3,3],[3]),([3,3],[3,3],[3,3],[3,3]),([4,4],[4,4],[4],[4])]:
    a=g.lit(dom,cod)[0]; b=g.lit(dom2,cod2)[0]
    print("tensor",size(dom+cod+dom2+cod2), T("teval "+tok_texpr(("tensor",a,b))))
for dom,mid,cod in [([3,3,3],[3,3,3],[3,3,3]),([4,4],[4,4,4],[4,4]),([2]*4,[2]*5,[2]*4)]:
    a=g.lit(dom,mid)[0]; b=g.lit(mid,cod)[0]
    print("then",size(dom)*size(mid)*size(cod), T("teval "+tok_texpr(("then",a,b))))
for l,r in [([3,3],[3,3]),([4,4],[4]),([2,2,2],[2,2,2])]:
    print("swap",size(l+r)**2, T("teval swap %s %s"%(tok_nats(l),tok_nats(r))))
for l in [[3,3,3],[4,4,4],[2]*7]:
    print("id",size(l)**2, T("teval id %s"%(tok_nats(l))))
a=g.lit([3,3,3],[3,3,3])[0]
print("dagger",729,T("teval "+tok_texpr(("dagger",a))))
print("lit",729,T("teval "+tok_texpr(a)))
