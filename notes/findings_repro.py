"""Reproduction of the defects listed in DESIGN.md section 9 (F1-F13).

This is a note that backs the design document, not part of the verification
machinery: it only prints what the unchanged tree in /repo does on each
witness.  Run with:  /venv/bin/python /verif/notes/findings_repro.py
"""
import warnings
warnings.filterwarnings("ignore")
import numpy as np
import sympy


def show(tag, fn):
    try:
        print("%-4s %s" % (tag, fn()))
    except Exception as error:  # the exception is the observation
        print("%-4s raises %s: %s" % (tag, type(error).__name__, str(error)[:90]))


def f1():
    from discopy.monoidal import Ty, Box, Diagram
    x = Ty('x')
    d = Diagram(x, x, [Box('s', Ty(), Ty())], [5])
    return "offsets=%s but len(left)=%d" % (d.offsets, len(list(d.layers[0])[0]))


def f2():
    from discopy.quantum.gates import Controlled, S
    c = Controlled(S)
    a = c.eval().array.reshape(4, 4)
    return "Controlled(S).dagger() evaluates to the adjoint: %s" % np.allclose(
        c.dagger().eval().array.reshape(4, 4), a.conj().T)


def f3():
    from discopy.quantum import Measure
    return Measure(override_bits=True).eval()


def f4():
    from discopy.rigid import Ty, Ob, Box, Id, Cup, Cap
    b = Ty('b')
    f0 = Box('f0', Ty(), b.l @ b.r)
    d = f0 >> Id(b.l) @ Cap(b, b.r) @ Id(b.r) >> Cup(b.l, b) @ Id(b.r @ b.r)
    return d.normal_form()


def f5a():
    from discopy.tensor import Tensor, Dim
    x = sympy.Symbol('x')
    return Tensor(Dim(2), Dim(2), [x, 0, 0, 1]).subs(x, 2)


def f5b():
    from discopy.quantum import Rx
    x = sympy.Symbol('x')
    return Rx(x).subs(x, 0.3).eval()


def f5c():
    from discopy.quantum.gates import scalar
    x = sympy.Symbol('x')
    return "is_mixed after subs: %s" % scalar(x, is_mixed=True).subs(x, 2).is_mixed


def f5d():
    from discopy.quantum.gates import ClassicalGate
    x = sympy.Symbol('x')
    g = ClassicalGate('f', 1, 1, [x, 0, 0, 1]).dagger()
    return "is_dagger before/after subs: %s/%s" % (g.is_dagger, g.subs(x, 2).is_dagger)


def f5e():
    from discopy.quantum.zx import Z
    x = sympy.Symbol('x')
    return Z(1, 1, x).lambdify(x)(0.5)


def f5f():
    from discopy.quantum import Ket, Rx, Measure
    x = sympy.Symbol('x', real=True)
    return (Ket(0) >> Rx(x) >> Measure()).eval().subs(x, 0.25)


def f6():
    from discopy.rigid import Ty, Swap, Functor
    x, y, a, b, c, d = map(Ty, 'xyabcd')
    F = Functor({x: a @ b, y: c @ d}, {})
    s = Swap(x, y)
    return "F(s[::-1]) == F(s)[::-1]: %s" % (F(s[::-1]) == F(s)[::-1])


def f7():
    from discopy import tensor
    from discopy.quantum import zx, CRz
    from discopy.quantum.zx import circuit2zx

    def spider(kind, n_in, n_out, phase):
        n = n_in + n_out
        a = np.zeros((2, ) * n or (1, ), dtype=complex)
        a[(0, ) * n or 0] += 1
        a[(1, ) * n or 0] += np.exp(2j * np.pi * phase)
        if kind == 'X':
            h = np.array([[1, 1], [1, -1]]) / np.sqrt(2)
            for i in range(n):
                a = np.moveaxis(np.tensordot(a, h, ([i], [0])), -1, i)
        return a

    def ar(box):
        if isinstance(box, zx.Z):
            return spider('Z', len(box.dom), len(box.cod), box.phase)
        if isinstance(box, zx.X):
            return spider('X', len(box.dom), len(box.cod), box.phase)
        if isinstance(box, zx.Had):
            return np.array([[1, 1], [1, -1]]) / np.sqrt(2)
        return np.array([box.data])
    got = tensor.Functor(lambda _: 2, ar)(circuit2zx(CRz(0.3))).array.flatten()
    want = CRz(0.3).eval().array.flatten()
    i = np.argmax(abs(want))
    return "circuit2zx(CRz(0.3)) proportional to CRz(0.3): %s" % np.allclose(
        got / got[i], want / want[i])


def f8():
    from discopy.monoidal import Ty, Box
    a = Ty('a')
    g, h = Box('g', a, a), Box('h', a, a)
    return "g.bubble() == h.bubble(): %s, hashes equal: %s" % (
        g.bubble() == h.bubble(), hash(g.bubble()) == hash(h.bubble()))


def f9():
    from discopy.quantum.gates import scalar, Rz
    x = sympy.Symbol('x', real=True)
    c = scalar(x ** 2) @ Rz(x)
    num = np.vectorize(lambda e: complex(sympy.sympify(e).subs(x, 0.3)))
    want = num(np.vectorize(lambda e: sympy.diff(sympy.sympify(e), x), otypes=[object])(
        c.eval(mixed=True).array))
    got = num(c.grad(x).eval(mixed=True).array)
    return "mixed grad of scalar(x**2) @ Rz(x) correct: %s" % np.allclose(got, want)


def f10():
    from discopy.biclosed import Ty, BA, biclosed2rigid
    x, y, z = Ty('x'), Ty('y'), Ty('z')
    return biclosed2rigid(BA((x @ y) >> z))


def f11_13():
    from discopy.quantum import cqmap, Circuit, Ket, Measure
    from discopy.quantum.circuit import Id, bit, qubit
    old = cqmap.CQMap.discard
    cqmap.CQMap.discard = staticmethod(
        lambda dom: old(dom if hasattr(dom, 'classical') else cqmap.C(dom)))  # F3 patched
    try:
        c = Ket(1) >> Id(1) @ Ket(0) >> Id(2) @ Ket(1)\
            >> Id(1) @ Measure() @ Id(1) >> Measure() @ Id(bit @ qubit)
        a = c.init_and_discard().eval(mixed=True).array.flatten().real
        b = Circuit.from_tk(c.to_tk()).eval(mixed=True).array.flatten().real
        return "exported %r; distribution %s, after round trip %s" % (c.to_tk(), a, b)
    finally:
        cqmap.CQMap.discard = old


for tag, fn in [("F1", f1), ("F2", f2), ("F3", f3), ("F4", f4), ("F5a", f5a),
                ("F5b", f5b), ("F5c", f5c), ("F5d", f5d), ("F5e", f5e),
                ("F5f", f5f), ("F6", f6), ("F7", f7), ("F8", f8), ("F9", f9),
                ("F10", f10), ("F11", f11_13)]:
    show(tag, fn)
