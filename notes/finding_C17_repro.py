"""Reproducers for findings C17-1 and C17-2 (zx.Diagram.from_pyzx), run with /venv/bin/python.

The installed pyzx 0.10.6 changed its Graph API; `adapter_installed` (harness/props/c17.py) gives
it back the shape the pinned discopy expects (pure API translations T1-T3, nothing in /repo is
touched).  Both defects are logic errors of discopy, independent of that drift.
"""
import os
import sys

sys.path.insert(0, os.path.join(os.path.dirname(os.path.abspath(__file__)), "..", "harness"))
import common  # noqa: puts /repo on sys.path
from props.c17 import (adapter_installed, patched_from_pyzx, evaluate, desc_of_real, close)
from discopy.quantum.zx import Diagram, Id, Z, X, H, SWAP


def same(a, b):
    return close(evaluate(*desc_of_real(a)), evaluate(*desc_of_real(b)))


with adapter_installed():
    fixed = patched_from_pyzx(["move_label", "output_search"])

    print("C17-1  `move` labels the moved scan entry with the spider being built")
    d = Id(1) @ SWAP >> Id(1) @ H @ Id(1) >> X(2, 0) @ Id(1)
    back = Diagram.from_pyzx(d.to_pyzx())
    print("  d                      =", d)
    print("  from_pyzx(d.to_pyzx()) =", back, "   <- the H is gone")
    print("  same matrix:", same(d, back), "| with the proposed patch:", same(d, fixed(d.to_pyzx())))
    assert not same(d, back) and same(d, fixed(d.to_pyzx()))

    print("C17-2  the output loop searches the whole scan (wires already in place are moved again)")
    d = Z(1, 2) >> H @ Id(1)
    back = Diagram.from_pyzx(d.to_pyzx())
    print("  d                      =", d)
    print("  from_pyzx(d.to_pyzx()) =", back, "   <- the H sits on the other output")
    print("  same matrix:", same(d, back), "| with the proposed patch:", same(d, fixed(d.to_pyzx())))
    assert not same(d, back) and same(d, fixed(d.to_pyzx()))
    d = X(0, 1) @ Z(0, 2) >> SWAP @ Id(1) >> Id(1) @ SWAP
    back = Diagram.from_pyzx(d.to_pyzx())
    print("  d                      =", d)
    print("  from_pyzx(d.to_pyzx()) =", back, "   <- outputs (Z, Z, X) come back as (X, Z, Z)")
    print("  same matrix:", same(d, back), "| with the proposed patch:", same(d, fixed(d.to_pyzx())))
    assert not same(d, back) and same(d, fixed(d.to_pyzx()))
