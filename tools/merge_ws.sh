#!/bin/bash
# tools/merge_ws.sh <branch>: merge a builder branch; evidence conflicts -> ours; Driver/Main.lean -> union
set -u
cd /verif
b=$1
unresolved=0
if [ -f .git/MERGE_HEAD ]; then echo "A MERGE IS IN PROGRESS: conclude it first (git add + git commit)"; exit 1; fi
if ! git diff --quiet || ! git diff --cached --quiet; then echo "WORKING TREE DIRTY: commit first"; exit 1; fi
git merge "$b" -m "Merge $b" >/dev/null 2>&1
for f in $(git diff --name-only --diff-filter=U); do
  case "$f" in
    evidence/*|MANIFEST.json) git checkout --ours -- "$f"; git add "$f";;
    harness/props/*.manifest.json) git checkout --theirs -- "$f"; git add "$f"; echo "TOOK THEIRS: $f";;
    DESIGN.md)
      # never take one side wholesale (it silently drops the other branches' sections): keep ours and
      # re-apply the branch's own changes to DESIGN.md as a patch; leftovers stay marked and unresolved
      base=$(git merge-base HEAD "$b")
      git checkout --ours -- DESIGN.md
      git diff "$base" "$b" -- DESIGN.md > /tmp/merge_ws_design.patch
      git add DESIGN.md
      git apply --3way /tmp/merge_ws_design.patch >/dev/null 2>&1; python3 tools/resolve_design_rows.py DESIGN.md >/dev/null
      if ! grep -q '^<<<<<<< ' DESIGN.md; then
        git add DESIGN.md; echo "DESIGN.md: branch changes re-applied as a patch"
      else
        echo "UNRESOLVED DESIGN.md (conflict markers left in place: resolve by hand, then commit)"; unresolved=1
      fi;;
    lean/Driver/Main.lean)
      python3 - <<'PY'
import re,subprocess
def show(stage):
    return subprocess.run(['git','show',':%d:lean/Driver/Main.lean'%stage],capture_output=True,text=True).stdout
ours,theirs=show(2),show(3)
imps=[]; hs=[]
for src in (ours,theirs):
    for l in src.split('\n'):
        if l.startswith('import ') and l not in imps: imps.append(l)
        m=re.match(r'\s*[\[,]\s*(DV\.\w+\.handle)',l)
        if m and m.group(1) not in hs: hs.append(m.group(1))
out=[]
lines=ours.split('\n')
i=0
done_imp=False; 
res=[]
skip=False
for l in lines:
    if l.startswith('import '):
        if not done_imp:
            res+=imps; done_imp=True
        continue
    if re.match(r'\s*[\[,]\s*DV\.\w+\.handle',l):
        if not skip:
            res.append('  [ '+hs[0]); res+=['  , '+h for h in hs[1:]]; skip=True
        continue
    res.append(l)
open('lean/Driver/Main.lean','w').write('\n'.join(res))
PY
      git add lean/Driver/Main.lean;;
    known_findings.json)
      python3 - <<'PY'
import json,subprocess
def show(stage):
    return json.loads(subprocess.run(['git','show',':%d:known_findings.json'%stage],capture_output=True,text=True).stdout)
ours,theirs=show(2),show(3)
ids={f.get('id') for f in ours['findings']}
for f in theirs['findings']:
    if f.get('id') not in ids: ours['findings'].append(f)
json.dump(ours,open('known_findings.json','w'),indent=1)
PY
      git add known_findings.json;;
    *) echo "UNRESOLVED $f"; unresolved=1;;
  esac
done
git diff --name-only --diff-filter=U
if [ "$unresolved" = "1" ]; then echo "NOT COMMITTED: resolve the files above, then git add + git commit"; exit 1; fi
git commit -q -m "Merge $b" 2>/dev/null
git log --oneline | head -1
