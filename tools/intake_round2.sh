#!/bin/bash
# tools/intake_round2.sh <prop-lowercase>...: verify round-2 mutants in /tmp/mutout2-<p>/m{1,2}, store, run
cd /verif
names=""
for p in "$@"; do P=$(echo $p | tr a-z A-Z); for m in m1 m2; do
  [ -f /tmp/mutout2-$p/$m/patch.diff ] || continue
  tools/verify_seeded.sh /tmp/mutout2-$p/$m; dst=seeded/$P-r2$m; mkdir -p $dst
  cp /tmp/mutout2-$p/$m/patch.diff /tmp/mutout2-$p/$m/demo.py /tmp/mutout2-$p/$m/meta.json $dst/; names="$names $P-r2$m"; done; done
tools/seeded_all.py $names 2>&1 | tail -$(( $(echo $names | wc -w) + 1 ))
