#!/bin/bash
# tools/run_all.sh [tier] : run every claimed check on /repo as it is, print verdict lines
cd /verif
tier=${1:-quick}
for id in $(python3 -c "import json; print(' '.join(c['property_id'] for c in json.load(open('MANIFEST.json'))['checks']))"); do
  ./check $id --tier $tier 2>&1 | grep -E "^(OK|VIOLATION|HARNESS-ERROR|KNOWN-FINDING)" | cut -c1-200
done
