#!/bin/bash
# tools/verify_seeded.sh <mutdir>: independent confirmation of a seeded change in a scratch worktree:
#  patch applies to /repo HEAD; baseline (219 tests) still passes; demo exits !=0 with it and 0 without.
set -u
d=$(realpath "$1")
wt=/tmp/verify-seeded-$$
git -C /repo worktree add -q --detach $wt HEAD
trap "git -C /repo worktree remove --force $wt" EXIT
cd $wt
/venv/bin/python $d/demo.py >/dev/null 2>&1; clean=$?
if ! git apply --check $d/patch.diff 2>/dev/null; then echo "$d: PATCH DOES NOT APPLY to current HEAD"; exit 1; fi
git apply $d/patch.diff
/venv/bin/python $d/demo.py >/dev/null 2>&1; mutated=$?
base=$(/verif/tools/baseline.py $wt | head -1)
echo "$d: demo clean=$clean mutated=$mutated ; $base"
