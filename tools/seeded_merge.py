#!/usr/bin/env python3
"""tools/seeded_merge.py <part.json>...: merge partial result files (SEEDED_RESULTS=... tools/seeded_all.py names)
into notes/seeded_results.json / .md (rows of the parts replace rows of the same name)."""
import json, os, sys
HERE = os.path.dirname(os.path.dirname(os.path.abspath(__file__)))
rpath = os.path.join(HERE, "notes", "seeded_results.json")
rows = {r["name"]: r for r in (json.load(open(rpath)) if os.path.exists(rpath) else [])}
for part in sys.argv[1:]:
    for r in json.load(open(part)):
        rows[r["name"]] = r
rows = [rows[k] for k in sorted(rows) if os.path.exists(os.path.join(HERE, "seeded", k, "patch.diff"))]
json.dump(rows, open(rpath, "w"), indent=1)
with open(os.path.join(HERE, "notes", "seeded_results.md"), "w") as f:
    f.write("| seeded change | property | check(s) run | verdict | what it breaks |\n|---|---|---|---|---|\n")
    for r in rows:
        f.write("| %s | %s | %s | %s | %s |\n" % (r["name"], r["property"], " ".join(r["checks"]),
                                                r["verdict"], r["what"].replace("|", "/").replace("\n", " ")))
print("caught %d / %d; not caught with an input: %s" % (
    sum(r["verdict"] != "MISSED" for r in rows), len(rows),
    [r["name"] for r in rows if r["verdict"] != "VIOLATION with failing input"]))
