#!/bin/bash
# tools/try_seeded.sh <dir-with-patch.diff> [check ids...]
# Applies the seeded change to /repo, runs the given checks (default: the property in meta.json),
# prints their verdict lines, and ALWAYS restores /repo afterwards.
set -u
d=$(realpath "$1"); shift
ids="$@"
if [ -z "$ids" ]; then ids=$(python3 -c "import json,sys; print(json.load(open('$d/meta.json'))['property'])"); fi
cd /repo
if ! git diff --quiet; then echo "REPO DIRTY, abort"; exit 2; fi
if ! git apply --check "$d/patch.diff" 2>/dev/null; then echo "PATCH DOES NOT APPLY: $d"; exit 2; fi
git apply "$d/patch.diff"
trap 'git -C /repo checkout -- . ' EXIT
cd /verif
for id in $ids; do
  for seed in ${SEEDS:-0}; do
    out=$(VERIF_SEED=$seed timeout 900 ./check $id --tier ${TIER:-quick} 2>&1 | grep -E "^(OK|VIOLATION|HARNESS-ERROR)" | head -3)
    echo "[$id seed=$seed] $out"
  done
done
