#!/bin/bash
# tools/try_seeded.sh <dir-with-patch.diff> [check ids...]
# Runs the given checks (default: the property in meta.json) against the seeded change.
# Default mode: a scratch worktree of /repo's HEAD with the patch applied, passed to the harness
# through DISCOPY_REPO (so /repo itself — which background jobs may be using — is not disturbed).
# INPLACE=1: apply to /repo itself (git apply), run, and always restore (git checkout -- .).
set -u
root=$(cd "$(dirname "$0")/.." && pwd)   # the checkout this script lives in (/verif or a builder worktree)
d=$(realpath "$1"); shift
ids="$@"
if [ -z "$ids" ]; then ids=$(python3 -c "import json,sys; print(json.load(open('$d/meta.json'))['property'])"); fi
if [ "${INPLACE:-0}" = "1" ]; then
  cd /repo
  if ! git diff --quiet; then echo "REPO DIRTY, abort"; exit 2; fi
  if ! git apply --check "$d/patch.diff" 2>/dev/null; then echo "PATCH DOES NOT APPLY: $d"; exit 2; fi
  git apply "$d/patch.diff"
  trap 'git -C /repo checkout -- . ' EXIT
  export DISCOPY_REPO=/repo
else
  wt=/tmp/seeded-wt-$$
  git -C /repo worktree add -q --detach $wt HEAD
  trap "git -C /repo worktree remove --force $wt" EXIT
  if ! git -C $wt apply --check "$d/patch.diff" 2>/dev/null; then echo "PATCH DOES NOT APPLY: $d"; exit 2; fi
  git -C $wt apply "$d/patch.diff"
  export DISCOPY_REPO=$wt
fi
cd "$root"
export VERIF_NO_EVIDENCE=1
for id in $ids; do
  for seed in ${SEEDS:-0}; do
    out=$(VERIF_SEED=$seed timeout 1200 ./check $id --tier ${TIER:-quick} 2>&1 | grep -E "^(OK|VIOLATION|HARNESS-ERROR)" | head -3)
    echo "[$id seed=$seed] $out"
  done
done
