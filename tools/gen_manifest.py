#!/usr/bin/env python3
"""Regenerates MANIFEST.json from the table below (kept in one place so it stays valid)."""
import json
import os

HERE = os.path.dirname(os.path.dirname(os.path.abspath(__file__)))
TB = ("Trusted: Lean 4.33 kernel (+ leanchecker in the thorough tier); axioms limited to propext, "
      "Classical.choice, Quot.sound (audited per theorem on every run); the hand-written model in "
      "lean/Model is tied to /repo only by the differential correspondence run (generator quality "
      "bounds it); harness serialisers/oracles; CPython. ")

def load_checks():
    """One sidecar per claimed property: harness/props/cXX.manifest.json with keys
    text, note (appended to the common trusted-base text), technique, design."""
    out = {}
    pdir = os.path.join(HERE, "harness", "props")
    for f in sorted(os.listdir(pdir)):
        if f.endswith(".manifest.json"):
            c = json.load(open(os.path.join(pdir, f)))
            c["note"] = TB + c.get("note", "")
            out[f.split(".")[0].upper()] = c
    return out


CHECKS = load_checks()

NOT_YET = {}


def main():
    props = [json.loads(l) for l in open(os.path.join(HERE, "properties.jsonl"))]
    checks = []
    na = []
    for p in props:
        pid = p["id"]
        if pid in CHECKS:
            c = CHECKS[pid]
            checks.append(dict(
                property_id=pid,
                quick_cmd="./check %s --tier quick" % pid,
                thorough_cmd="./check %s --tier thorough" % pid,
                evidence_file="evidence/%s.json" % pid,
                replay_cmd_template="./check %s --replay {path}" % pid,
                engine="lean-model+correspondence",
                level_claimed=dict(category="proof", text=c["text"],
                                   design_ref="DESIGN.md section " + c["design"]),
                level_note=c["note"],
                technique=c["technique"]))
        else:
            na.append(dict(property_id=pid, reason=NOT_YET.get(
                pid, "not claimed yet: model and theorems for this property are still being built "
                     "(see DESIGN.md section 10 build order); no technique switch intended")))
    man = dict(
        version=1,
        setup_cmd="cd lean && lake build",
        hooks=dict(guard="DISCOPY_VERIF", enable="no source hooks: the harness wraps constructors "
                   "in-process; nothing in /repo is guarded",
                   baseline_off_cmd="cd /repo && /venv/bin/python -m pytest -ra -q -p no:cacheprovider "
                   "--timeout=900 --continue-on-collection-errors",
                   source_commits=[], add_only=True),
        engines=[dict(name="lean-model+correspondence", path="lean/ harness/",
                      serves_properties=sorted(CHECKS),
                      kind_free_text="Lean 4 model + theorems; Python differential correspondence "
                                     "harness driving discopy in-process and the compiled model")],
        checks=checks,
        not_applicable=na,
        notes="See DESIGN.md. known_findings.json lists genuine defects (fixed or known).")
    json.dump(man, open(os.path.join(HERE, "MANIFEST.json"), "w"), indent=1)
    print("wrote MANIFEST.json with %d checks, %d not claimed" % (len(checks), len(na)))


if __name__ == "__main__":
    main()
