#!/usr/bin/env python3
"""Rewrites section 13 of DESIGN.md (seeded changes and which checks catch them) from
notes/seeded_results.json and seeded/*/meta.json."""
import json, os, re
HERE = os.path.dirname(os.path.dirname(os.path.abspath(__file__)))
rows = json.load(open(os.path.join(HERE, "notes", "seeded_results.json")))
caught = sum(r["verdict"] != "MISSED" for r in rows)
nfi = sum("no-failing" in r["verdict"] for r in rows)
out = ["## 13. Seeded changes and which checks catch them", "",
       "Independent sub-agents, given only the text of one property and a scratch worktree of the",
       "library, wrote %d changes that break a property while the 219 baseline tests still pass" % len(rows),
       "(each confirmed here in a scratch worktree: patch applies, baseline passes, the demonstration",
       "fails with the change and passes without it; stored under `seeded/<id>/`). `tools/seeded_all.py`",
       "re-runs every check against every change (scratch worktree + `DISCOPY_REPO`). Current result:",
       "**%d of %d caught** (%d of them only as a broken correspondence, `no-failing-input-found`)." % (caught, len(rows), nfi),
       "Checks were strengthened wherever a change was first missed (generators: PRO self-adjoint",
       "types, spiral snakes, twins, total callable box maps, exotic wire values, chained substitutions,",
       "absent jacobian variables, late-mixing circuits, wire-less classical gates, custom multi-qubit",
       "gates, adjacent `==`-equal boxes, reused request lists, int calling conventions, …).", "",
       "| change | property | check(s) | verdict | what it breaks |", "|---|---|---|---|---|"]
for r in rows:
    out.append("| %s | %s | %s | %s | %s |" % (
        r["name"], r["property"], " ".join(r["checks"]), r["verdict"],
        r["what"].replace("|", "/").replace("\n", " ")[:140]))
text = "\n".join(out) + "\n"
p = os.path.join(HERE, "DESIGN.md")
s = open(p).read()
marker = "## 13. Seeded changes and which checks catch them"
if marker in s:
    s = s[:s.index(marker)].rstrip() + "\n\n"
else:
    s = s.rstrip() + "\n\n---------------------------------------------------------------------------\n\n"
open(p, "w").write(s + text)
print("section 13 written: %d/%d" % (caught, len(rows)))
