#!/usr/bin/env python3
"""Rewrites section 13 of DESIGN.md (seeded changes and which checks catch them) from
notes/seeded_results.json and seeded/*/meta.json."""
import json, os, re
HERE = os.path.dirname(os.path.dirname(os.path.abspath(__file__)))
rows = json.load(open(os.path.join(HERE, "notes", "seeded_results.json")))
caught = sum(r["verdict"] != "MISSED" for r in rows)
nfi = sum("no-failing" in r["verdict"] for r in rows)
out = ["## 13. Seeded changes and which checks catch them", "",
       "Independent sub-agents, given only the text of one property and a scratch worktree of the",
       "library, wrote %d changes that break a property while the 219 baseline tests still pass" % len(rows),
       "(each confirmed here in a scratch worktree: patch applies, baseline passes, the demonstration",
       "fails with the change and passes without it; stored under `seeded/<id>/`). `tools/seeded_all.py`",
       "re-runs every check against every change (scratch worktree + `DISCOPY_REPO`). Current result:",
       "**%d of %d caught** (%d of them only as a broken correspondence, `no-failing-input-found`)." % (caught, len(rows), nfi),
       "",
       "The changes came in eight rounds (`Cxx-m1..3`, `-r2m*` … `-r8m*`; round 6 for ten properties only, round 8 with one or two changes per property and none for C07); from round 2 on each",
       "agent was told what the earlier rounds had produced and asked for something different and harder to",
       "notice (rarely used flags and calling conventions, second use of an object, state carried between",
       "calls, cross-class mixes, sizes, data types). Caught with a failing input on the FIRST run, before any",
       "strengthening: round 1 56/60, round 2 26/40, round 3 16/40, round 4 26/40, round 5 24/40, round 6 17/20, round 7 36/40 (misses: Fortran-ordered array arguments, a quadratic step budget met only by long connected traces, a cache keyed by `==` that confuses a box with its dagger, spiders on the trivial dimension), round 8 21/27 (misses: plain objects meeting rigid adjoints, empty reversed slices with a negative start, conjugation of object-dtype arrays, the tensor functor's swap of wires with different numbers of axes, the tensor-network contraction of swaps, a mixed scalar losing its flag in `subs` after `grad`). Every miss was",
       "turned into a generalised region of inputs by a follow-up (never a single pinned regression case):",
       "PRO self-adjoint types, spiral and double-leg snakes, twins, total callable box and object maps, exotic",
       "and typed wire values, chained substitutions, late-mixing circuits, custom 0..2-qubit gates, `==`-equal",
       "and identical box objects, histories (re-reading handed-out values, mutable data, caches keyed by repr,",
       "drawing twice), every box subclass with its own constructor/dagger, every numeric type of a scalar,",
       "n-ary and unbound calling conventions, batch evaluation, nested/sum/bubble boxes, cross-class tensors,",
       "scaling families under a lowered recursion limit, memory layouts and containers of array arguments, long-trace spirals, sums of related terms, cross-class twins, element types of arrays, reversed slices with arbitrary bounds, the tensor-network route, … The strengthened streams also found most of the",
       "genuine defects F42–F5k listed in section 11.", "",
       "| change | property | check(s) | verdict | what it breaks |", "|---|---|---|---|---|"]
for r in rows:
    out.append("| %s | %s | %s | %s | %s |" % (
        r["name"], r["property"], " ".join(r["checks"]), r["verdict"],
        r["what"].replace("|", "/").replace("\n", " ")[:140]))
text = "\n".join(out) + "\n"
p = os.path.join(HERE, "DESIGN.md")
s = open(p).read()
marker = "## 13. Seeded changes and which checks catch them"
if marker in s:
    s = s[:s.index(marker)].rstrip() + "\n\n"
else:
    s = s.rstrip() + "\n\n---------------------------------------------------------------------------\n\n"
open(p, "w").write(s + text)
print("section 13 written: %d/%d" % (caught, len(rows)))
