#!/venv/bin/python
"""Run the repository's pinned test suite in a given checkout (default /repo) and compare
with /root/.vp/BASELINE.json's stable_pass list.  Exit 0 iff every stable test passes.
usage: baseline.py [repo_dir]"""
import json
import os
import subprocess
import sys
import tempfile
import xml.etree.ElementTree as ET

repo = sys.argv[1] if len(sys.argv) > 1 else "/repo"
base = json.load(open("/root/.vp/BASELINE.json"))
stable = set(base["stable_pass"])
with tempfile.TemporaryDirectory() as tmp:
    xml = os.path.join(tmp, "junit.xml")
    env = dict(os.environ)
    env.pop("DISCOPY_VERIF", None)
    subprocess.run(
        ["/venv/bin/python", "-m", "pytest", "-ra", "-q", "-p", "no:cacheprovider",
         "--timeout=900", "--continue-on-collection-errors", "--junitxml=" + xml],
        cwd=repo, env=env, stdout=subprocess.DEVNULL, stderr=subprocess.DEVNULL)
    passed = set()
    for case in ET.parse(xml).getroot().iter("testcase"):
        ok = not any(child.tag in ("failure", "error", "skipped") for child in case)
        if ok:
            passed.add("%s::%s" % (case.get("classname"), case.get("name")))
missing = sorted(stable - passed)
print("stable tests passing: %d/%d" % (len(stable & passed), len(stable)))
for m in missing:
    print("NOT PASSING:", m)
sys.exit(0 if not missing else 1)
