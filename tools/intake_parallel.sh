#!/bin/bash
# tools/intake_parallel.sh <round> <prop-lowercase>...: one intake_round.sh per property, up to 5 at a time,
# each with its own result file (merged at the end with tools/seeded_merge.py)
cd /verif
r=$1; shift
parts=""
for p in "$@"; do
  while [ $(jobs -r | wc -l) -ge 5 ]; do sleep 2; done
  SEEDED_RESULTS=/tmp/res$r-$p.json tools/intake_round.sh $r $p > /tmp/intake$r-$p.log 2>&1 &
  parts="$parts /tmp/res$r-$p.json"
done
wait
ex=""; for f in $parts; do [ -f $f ] && ex="$ex $f"; done
tools/seeded_merge.py $ex
