#!/usr/bin/env python3
"""Run every seeded change under /verif/seeded against its property's check (quick tier, seed 0)
and write notes/seeded_results.json + notes/seeded_results.md."""
import json, os, subprocess, sys
HERE = os.path.dirname(os.path.dirname(os.path.abspath(__file__)))
only = sys.argv[1:]
rows = []
rpath = os.environ.get("SEEDED_RESULTS") or os.path.join(HERE, "notes", "seeded_results.json")   # SEEDED_RESULTS: separate file for parallel partial runs (merge with tools/seeded_merge.py)
if only and os.path.exists(rpath):          # partial run: keep the other rows
    rows = [r for r in json.load(open(rpath)) if r["name"] not in only]
for name in sorted(os.listdir(os.path.join(HERE, "seeded"))):
    d = os.path.join(HERE, "seeded", name)
    if not os.path.exists(os.path.join(d, "patch.diff")) or (only and name not in only):
        continue
    meta = json.load(open(os.path.join(d, "meta.json")))
    ids = meta.get("checks") or [meta["property"]]
    out = subprocess.run([os.path.join(HERE, "tools", "try_seeded.sh"), d] + ids,
                         capture_output=True, text=True).stdout.strip()
    caught = "VIOLATION" in out
    nfi = "no-failing-input-found" in out
    rows.append(dict(name=name, property=meta["property"], checks=ids,
                     what=meta.get("what_it_breaks", "")[:160], needs=meta.get("needs_to_manifest", "")[:160],
                     verdict=("VIOLATION (no-failing-input-found)" if nfi else "VIOLATION with failing input")
                     if caught else "MISSED", raw=out))
    print(name, rows[-1]["verdict"], flush=True)
rows.sort(key=lambda r: r["name"])
json.dump(rows, open(rpath, "w"), indent=1)
if os.environ.get("SEEDED_RESULTS"):
    print("caught %d / %d" % (sum(r["verdict"] != "MISSED" for r in rows), len(rows)))
    sys.exit(0)
with open(os.path.join(HERE, "notes", "seeded_results.md"), "w") as f:
    f.write("| seeded change | property | check(s) run | verdict | what it breaks |\n|---|---|---|---|---|\n")
    for r in rows:
        f.write("| %s | %s | %s | %s | %s |\n" % (r["name"], r["property"], " ".join(r["checks"]),
                                                r["verdict"], r["what"].replace("|", "/").replace("\n", " ")))
print("caught %d / %d" % (sum(r["verdict"] != "MISSED" for r in rows), len(rows)))
