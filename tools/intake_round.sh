#!/bin/bash
# tools/intake_round.sh <round-number> <prop-lowercase>...: verify the round's mutants in
# /tmp/mutout<round>-<p>/m{1,2}, store them as seeded/<P>-r<round>m<i>, run the property's check on each
cd /verif
r=$1; shift
names=""
for p in "$@"; do P=$(echo $p | tr a-z A-Z); for m in m1 m2; do
  [ -f /tmp/mutout$r-$p/$m/patch.diff ] || continue
  tools/verify_seeded.sh /tmp/mutout$r-$p/$m; dst=seeded/$P-r$r$m; mkdir -p $dst
  cp /tmp/mutout$r-$p/$m/patch.diff /tmp/mutout$r-$p/$m/demo.py /tmp/mutout$r-$p/$m/meta.json $dst/; names="$names $P-r$r$m"; done; done
tools/seeded_all.py $names 2>&1 | tail -$(( $(echo $names | wc -w) + 1 ))
