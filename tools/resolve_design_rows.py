#!/usr/bin/env python3
"""Resolve conflict hunks in DESIGN.md that consist ONLY of per-property table rows (`| Cxx | n | …`):
for every property keep the row with the larger theorem count (the newer one).  Other hunks are left."""
import re, sys
p = sys.argv[1] if len(sys.argv) > 1 else "/verif/DESIGN.md"
s = open(p).read()
pat = re.compile(r"<<<<<<< [^\n]*\n(.*?)=======\n(.*?)>>>>>>> [^\n]*\n", re.S)
def fix(m):
    ours, theirs = m.group(1).split("\n"), m.group(2).split("\n")
    rows = [l for l in ours + theirs if l.strip()]
    if not all(re.match(r"^\| C\d\d \| \d+ \|", l) for l in rows):
        return m.group(0)
    best = {}
    for l in rows:
        pid, n = re.match(r"^\| (C\d\d) \| (\d+) \|", l).groups()
        if pid not in best or int(n) > best[pid][0]:
            best[pid] = (int(n), l)
    return "".join(best[k][1] + "\n" for k in sorted(best))
s2 = pat.sub(fix, s)
open(p, "w").write(s2)
print("conflict hunks left:", s2.count("<<<<<<< "))
