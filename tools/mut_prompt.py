import sys, json, glob, os
pid=sys.argv[1]; rnd=sys.argv[2]
prop=open('/verif/notes/props_txt/prop_%s.txt'%pid).read()
wt='/tmp/mut%s-%s'%(rnd,pid.lower())
out='/tmp/mutout%s-%s'%(rnd,pid.lower())
done=[]
for d in sorted(glob.glob('/verif/seeded/%s-*'%pid)):
    m=json.load(open(os.path.join(d,'meta.json')))
    done.append("- "+str(m.get('what_it_breaks',''))[:130].replace('\n',' '))
print(f"""You are helping to evaluate a verification framework by writing realistic BUGS ("seeded changes") for the Python library discopy 0.3.5 (a later round). You have your own scratch git worktree of the library at {wt} (run code with `cd {wt} && /venv/bin/python ...`; check `python -c "import discopy; print(discopy.__file__)"` points into {wt}, use `PYTHONPATH={wt}` if needed). Work ONLY inside {wt} and {out}/ (create it). Do not read or touch /verif or /repo. No network. Never use `git stash`, never use `pkill`/`killall` (other people's processes run on this machine). TIME LIMIT: finish within 35 minutes.

The semantic property under test:

{prop}

Earlier rounds already produced these seeded changes for this property — do NOT repeat them or close variants; look in OTHER functions, branches, classes, flags and calling conventions that the property's statement and quantifier cover (re-read them: every class and operation they name is in scope, also the ones outside the 'relevant files'):
{chr(10).join(done) if done else '- (none)'}

Task: produce TWO further, different, independent changes to the library source such that each
  (a) BREAKS the property above for some inputs,
  (b) still lets the library import and the existing test suite pass: `cd {wt} && /venv/bin/python -m pytest -q -p no:cacheprovider test/ -q 2>&1 | tail -15` — exactly these tests fail even on the unchanged tree and are to be ignored: test_drawing::test_draw_eggs, test_drawing::test_pregroup_draw, test_tensor::test_Tensor_scalar, and test_zx::{{test_backnforth_pyzx,test_circui2zx,test_from_pyzx_errors,test_grad_to_pyzx,test_to_pyzx,test_to_pyzx_errors,test_to_pyzx_scalar}}; every other test (219) must still pass,
  (c) is REALISTIC (the kind of slip a maintainer makes in a refactoring, an optimisation or a feature addition — not sabotage keyed on a magic value) and HARD to notice: it needs something specific to manifest — an unusual but legitimate input, a multi-step sequence of operations, a rarely used subclass/flag/keyword argument/calling convention, or two cooperating sites that each look fine alone — and at least one of your two changes should produce a SILENTLY WRONG result (no exception).
For each change i = 1..2 write into {out}/m<i>/ :
  - patch.diff  (`git -C {wt} diff` for that change alone, applying cleanly with `git apply` to the unchanged tree),
  - demo.py     (self-contained; run from the tree root with the tree on sys.path via `sys.path.insert(0, os.getcwd())`; exits 0 on the UNCHANGED tree and 1, printing what went wrong, on the changed tree; it must check the PROPERTY as stated, not implementation details),
  - meta.json   {{"property": "{pid}", "what_it_breaks": "...", "needs_to_manifest": "...", "files_changed": [...], "tests_still_pass": true}}.
Procedure per change: edit, run the test suite, run demo on changed tree (must fail), `git -C {wt} diff > patch.diff`, then `git -C {wt} checkout -- .` and run demo on the clean tree (must pass). Leave the worktree clean at the end. Final answer: a 5-line summary per change.""")
