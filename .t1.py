import sys, random, time
sys.path.insert(0, '/tmp/ws-c0809/harness')
from common import Driver
from tensorlib import *
rng = random.Random(0)
drv = Driver()
N=600
cases = [prim_case(rng) for _ in range(N)]
t=time.time()
ans = ask_many(drv, [c[1] for c in cases])
print("prims", time.time()-t)
g = TGen(rng)
cases = []
for _ in range(600):
    e, d, c, b = g.expr(rng.randint(0, 4))
    cases.append(e)
t=time.time()
lines=["teval " + tok_texpr(e) for e in cases]
ts=[]
for l in lines:
    t1=time.time(); drv.ask(l) if len(l)<30000 else ask_many(drv,[l]); ts.append((time.time()-t1,l[:150]))
print("texpr", time.time()-t)
ts.sort(reverse=True)
for x in ts[:8]: print(x)
