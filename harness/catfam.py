"""The class `cat` for C01: plain `cat.Arrow`s and `cat.Functor`s as a full family.

Expression language (tuples), evaluated on the real code (`CatEval`) and sent to the Lean model
(`tok_cexpr`, driver command `cateval`, Model/CatArrow.lean):

    ("mk", dom, cod, [box])                 Arrow(dom, cod, boxes)
    ("box", box)                            Box(name, dom, cod, data=..., _dagger=...)
    ("id", ob, how)                         Id(x) | Arrow.id(x) | Arrow(x, x, [])
    ("thenN", form, recv, [arg])            recv.then(*args) in method / unbound / operator form
    ("dagger", a, how)                      a.dagger() | a[::-1]
    ("slice", a, s, t) ("slicerev", a, s, t) ("getitem", a, i)
    ("functor", F, a)                       Functor(ob, ar)(a), F = dict(ob=[(ob, ob)], ar=[(box, expr)],
                                            style=dict|callable|quiver)

An object spec is a list of names: `["x"]` is `Ob('x')` in the family "ob" and `Ty('x')` in the
family "ty" (monoidal types used as the objects of a plain arrow, as `layers` does); `[]`,
`["x", "y"]` exist in the family "ty" only.  A box spec is a dict(name, dom, cod, dagger, data).
"""
from common import err_class, tokname

OBJ_NAMES = ["a", "b", "c", "d"]
DATA = [None, None, None, 1, [1, 2], {"k": 3}]     # not a str: Box(data="s") recurses for ever (cat.py:515)


# ------------------------------------------------------------------ real side

class CatFamily:
    def __init__(self, obkind):
        from discopy import cat
        self.cat, self.obkind = cat, obkind
        if obkind == "ty":
            from discopy import monoidal
            self.Ty = monoidal.Ty

    def ob(self, spec):
        if self.obkind == "ty":
            return self.Ty(*spec)
        assert len(spec) == 1
        return self.cat.Ob(spec[0])

    def box(self, b):
        kw = {}
        if b["data"] is not None:
            kw["data"] = b["data"]
        if b["dagger"]:
            kw["_dagger"] = True
        return self.cat.Box(b["name"], self.ob(b["dom"]), self.ob(b["cod"]), **kw)

    def universe(self):
        if self.obkind == "ty":
            return [[], ["a"], ["b"], ["c"], ["a", "b"], ["b", "a"], ["a", "a"]]
        return [[n] for n in OBJ_NAMES]


def ob_key(x):
    """An object as plain data, independent of the library's `==`."""
    if hasattr(x, "objects"):
        return tuple((o.name, getattr(o, "z", 0) or 0) for o in x.objects)
    return ((x.name, getattr(x, "z", 0) or 0),)


def arrow_wf_failure(a):
    """C01's predicate for a plain arrow: reading the boxes from dom, each box finds its own
    domain and the reading ends on cod."""
    try:
        scan = ob_key(a.dom)
        for k, b in enumerate(a.boxes):
            if ob_key(b.dom) != scan:
                return "box %d (%s) does not find its domain %r: the reading stands on %r" % (
                    k, b, ob_key(b.dom), scan)
            scan = ob_key(b.cod)
        if scan != ob_key(a.cod):
            return "reading the boxes ends on %r but cod is %r" % (scan, ob_key(a.cod))
        return None
    except Exception as exc:
        return "exception while checking: %r" % (exc,)


def ser_ob(x):
    k = ob_key(x)
    return " ".join([str(len(k))] + ["%s %d" % (tokname(n), z) for n, z in k])


def ser_cbox(b):
    return "g %s %d %s %s %s" % (tokname(b.name), 1 if b.is_dagger else 0,
                                 "-" if b.data is None else tokname(b.data),
                                 ser_ob(b.dom), ser_ob(b.cod))


def ser_arrow(a):
    from discopy import cat
    boxes = list(a.boxes)
    return "%d %s %s %s" % (1 if isinstance(a, cat.Box) else 0, ser_ob(a.dom), ser_ob(a.cod),
                            " ".join([str(len(boxes))] + [ser_cbox(b) for b in boxes]))


def cat_err_class(exc):
    if isinstance(exc, KeyError):      # a mapping of a functor is not defined there
        return "value"
    return err_class(exc)


class Refusal(Exception):
    def __init__(self, cls, exc):
        super().__init__(cls)
        self.cls, self.exc = cls, exc


class CatEval:
    """Evaluates expressions on the real code; `on_value(op, expr, value)` sees every sub-result,
    `on_problem(signature, expr, text)` every breach of the property found on the way."""

    def __init__(self, fam, on_value, on_problem, count):
        self.fam, self.on_value, self.on_problem, self.count = fam, on_value, on_problem, count
        self.image_vals = {}      # id(F spec) -> [real image of each ar entry]

    def prepare_images(self, e, images):
        """Evaluate the images of every functor of `e` (they are closed expressions) and record
        their serialisation for the model request.  Raises Refusal if an image does."""
        if e[0] == "thenN":
            self.prepare_images(e[2], images)
            for a in e[3]:
                self.prepare_images(a, images)
        elif e[0] in ("dagger", "slice", "slicerev", "getitem"):
            self.prepare_images(e[1], images)
        elif e[0] == "functor":
            F = e[1]
            if id(F) not in self.image_vals:
                vals = [self.run(img) for _, img in F["ar"]]
                self.image_vals[id(F)] = vals
                images[id(F)] = [ser_arrow(v) for v in vals]
            self.prepare_images(e[2], images)

    def run(self, e):
        try:
            out = self._run(e)
        except Refusal:
            raise
        except Exception as exc:
            raise Refusal(cat_err_class(exc), exc)
        self.on_value(e[0], e, out)
        return out

    def functor(self, F):
        """The real Functor of a spec, and F on objects computed from the spec alone."""
        cat, fam = self.fam.cat, self.fam
        ob = {fam.ob(k): fam.ob(v) for k, v in F["ob"]}
        ar = {}
        vals = self.image_vals.get(id(F)) or [self.run(img) for _, img in F["ar"]]
        for (b, _), v in zip(F["ar"], vals):
            ar[fam.box(b)] = v
        style = F["style"]
        if style == "callable":
            return cat.Functor(ob=lambda x: ob[x], ar=lambda f: ar[f]), ar
        if style == "quiver":
            return cat.Functor(ob=cat.Quiver(lambda x: ob[x]), ar=cat.Quiver(lambda f: ar[f])), ar
        return cat.Functor(ob=ob, ar=ar), ar

    def _run(self, e):
        cat, fam = self.fam.cat, self.fam
        op = e[0]
        if op == "mk":
            _, dom, cod, boxes = e
            return cat.Arrow(fam.ob(dom), fam.ob(cod), [fam.box(b) for b in boxes])
        if op == "box":
            return fam.box(e[1])
        if op == "id":
            x = fam.ob(e[1])
            return {"Id": lambda: cat.Id(x), "Arrow.id": lambda: cat.Arrow.id(x),
                    "empty": lambda: cat.Arrow(x, x, [])}[e[2]]()
        if op == "thenN":
            _, form, recv_e, args_e = e
            recv = self.run(recv_e)
            args = [self.run(a) for a in args_e]
            self.count("cat_then_form:%s:%d" % (form, len(args)))
            try:
                out = {"method": lambda: recv.then(*args),
                       "unbound": lambda: cat.Arrow.then(recv, *args),
                       "class": lambda: type(recv).then(recv, *args),
                       "rshift": lambda: recv >> args[0],
                       "lshift": lambda: args[0] << recv}[form]()
            except Exception as exc:
                raise Refusal(cat_err_class(exc), exc)
            self.check_then(e, recv, args, out)
            return out
        if op == "dagger":
            a = self.run(e[1])
            return a.dagger() if e[2] == "method" else a[::-1]
        if op == "slice":
            return self.run(e[1])[e[2]:e[3]]
        if op == "slicerev":
            return self.run(e[1])[e[2]:e[3]:-1]
        if op == "getitem":
            return self.run(e[1])[e[2]]
        if op == "functor":
            a = self.run(e[2])
            F, _ = self.functor(e[1])
            try:
                out = F(a)
            except Exception as exc:
                raise Refusal(cat_err_class(exc), exc)
            self.check_functor(e, F, a, out)
            return out
        raise ValueError(op)

    # -- the property on one call ("ill-typed requests are refused")
    def check_then(self, e, recv, args, out):
        scan, where = ob_key(recv.cod), "the receiver"
        for k, x in enumerate(args):
            lib_mismatch = (args[k - 1].cod if k else recv.cod) != x.dom
            if ob_key(x.dom) != scan and lib_mismatch:
                self.on_problem(
                    "illtyped_request_accepted:then:cat", e,
                    "%r.then(%s) was accepted although argument %d starts on %r and %s ends on %r; "
                    "it handed back %r : %r -> %r" % (
                        recv, ", ".join(map(repr, args)), k, x.dom, where,
                        args[k - 1].cod if k else recv.cod, out, out.dom, out.cod))
                return
            scan, where = ob_key(x.cod), "argument %d" % k
        if ob_key(out.dom) != ob_key(recv.dom) or ob_key(out.cod) != scan:
            self.on_problem("composite_with_other_ends:then:cat", e,
                            "%r.then(%s) handed back %r : %r -> %r" % (
                                recv, ", ".join(map(repr, args)), out, out.dom, out.cod))

    def check_functor(self, e, F, a, out):
        cat = self.fam.cat
        if isinstance(a, cat.Box):
            return      # the image of a box is whatever the arrow mapping holds (cat.py:862-865)
        try:
            fdom = F(a.dom)
        except Exception:
            return
        if ob_key(out.dom) != ob_key(fdom):
            self.on_problem("functor_image_leaves_image_of_dom:cat", e,
                            "F(%r) = %r starts on %r but F(%r) = %r" % (a, out, out.dom, a.dom, fdom))
        try:
            if ob_key(out.cod) != ob_key(F(a.cod)):
                self.count("cat_functor:cod_is_not_image_of_cod")   # well-typed all the same
        except Exception:
            pass


# ------------------------------------------------------------------ tokens for the model

def tok_ob(spec):
    return " ".join([str(len(spec))] + ["%s 0" % tokname(n) for n in spec])


def tok_cbox(b):
    return "g %s %d %s %s %s" % (tokname(b["name"]), 1 if b["dagger"] else 0,
                                 "-" if b["data"] is None else tokname(b["data"]),
                                 tok_ob(b["dom"]), tok_ob(b["cod"]))


def _opt(i):
    return "N" if i is None else str(i)


def tok_cexpr(e, images):
    """`images[id(F spec)]` = {index of the ar entry: serialised real image}."""
    op = e[0]
    if op == "mk":
        return "mk %s %s %s" % (tok_ob(e[1]), tok_ob(e[2]),
                                " ".join([str(len(e[3]))] + [tok_cbox(b) for b in e[3]]))
    if op == "box":
        return "box " + tok_cbox(e[1])
    if op == "id":
        return "id " + tok_ob(e[1])
    if op == "thenN":
        return "thenN %s %s" % (tok_cexpr(e[2], images), " ".join(
            [str(len(e[3]))] + [tok_cexpr(a, images) for a in e[3]]))
    if op == "dagger":
        return "dagger " + tok_cexpr(e[1], images)
    if op in ("slice", "slicerev"):
        return "%s %s %s %s" % (op, tok_cexpr(e[1], images), _opt(e[2]), _opt(e[3]))
    if op == "getitem":
        return "getitem %s %d" % (tok_cexpr(e[1], images), e[2])
    if op == "functor":
        F = e[1]
        obs = ["%s %s" % (tok_ob(k), tok_ob(v)) for k, v in F["ob"]]
        ars = ["%s %s" % (tok_cbox(b), images[id(F)][i]) for i, (b, _) in enumerate(F["ar"])]
        return "functor %s %s %s" % (" ".join([str(len(obs))] + obs),
                                     " ".join([str(len(ars))] + ars), tok_cexpr(e[2], images))
    raise ValueError(op)


def cexpr_ops(e, acc=None):
    acc = [] if acc is None else acc
    acc.append(e[0])
    if e[0] == "thenN":
        cexpr_ops(e[2], acc)
        for a in e[3]:
            cexpr_ops(a, acc)
    elif e[0] == "functor":
        for _, img in e[1]["ar"]:
            cexpr_ops(img, [])
        cexpr_ops(e[2], acc)
    elif e[0] in ("dagger", "slice", "slicerev", "getitem"):
        cexpr_ops(e[1], acc)
    return acc


def base_box(b):
    if b["dagger"]:
        return dict(b, dom=b["cod"], cod=b["dom"], dagger=False)
    return b


def boxes_of(e, acc=None):
    """Every (undaggered) box spec that can occur in the value of `e` — syntactic."""
    acc = [] if acc is None else acc

    def add(b):
        b = base_box(b)
        if b not in acc:
            acc.append(b)
    if e[0] == "mk":
        for b in e[3]:
            add(b)
    elif e[0] == "box":
        add(e[1])
    elif e[0] == "thenN":
        boxes_of(e[2], acc)
        for a in e[3]:
            boxes_of(a, acc)
    elif e[0] == "functor":
        for _, img in e[1]["ar"]:
            boxes_of(img, acc)
    elif e[0] in ("dagger", "slice", "slicerev", "getitem"):
        boxes_of(e[1], acc)
    return acc


# ------------------------------------------------------------------ generator

class CatGen:
    """Every generator returns (expr, dom, cod, nboxes); dom/cod are None where not tracked.
    All randomness from `rng`."""

    def __init__(self, rng, fam, malformed=0.2):
        self.rng, self.fam, self.malformed = rng, fam, malformed
        self.obs = fam.universe()

    def ob(self, avoid=None):
        cands = [o for o in self.obs if o != avoid]
        return list(self.rng.choice(cands))

    def gbox(self, dom, cod=None, name=None):
        r = self.rng
        return dict(name=name or "f%d" % r.randint(0, 5), dom=list(dom),
                    cod=list(self.ob() if cod is None else cod),
                    dagger=r.random() < 0.2, data=r.choice(DATA))

    def chain(self, dom, n, cod=None):
        boxes, scan = [], list(dom)
        for i in range(n):
            last = i == n - 1 and cod is not None
            b = self.gbox(scan, cod if last else None)
            boxes.append(b)
            scan = b["cod"]
        return boxes, scan

    def ident(self, ob):
        return ("id", list(ob), self.rng.choice(["Id", "Id", "Arrow.id", "empty"]))

    def leaf(self, dom=None, cod=None):
        r = self.rng
        dom = self.ob() if dom is None else list(dom)
        if cod is not None and list(cod) == dom and r.random() < 0.3:
            return self.ident(dom), dom, dom, 0
        n = r.choice([0, 1, 1, 2, 2, 3, 4, 5])
        if cod is not None and n == 0 and list(cod) != dom:
            n = 1
        if n == 0:
            return self.ident(dom), dom, dom, 0
        boxes, end = self.chain(dom, n, cod)
        if n == 1 and r.random() < 0.6:
            return ("box", boxes[0]), dom, end, 1
        return ("mk", dom, end, boxes), dom, end, n

    def fixed_dom(self, dom, depth, cod=None):
        r = self.rng
        if depth <= 0 or r.random() < 0.5 or cod is not None:
            return self.leaf(dom, cod)
        return self.then_n(depth, recv_dom=dom, broken=False)

    def then_n(self, depth, recv_dom=None, broken=None):
        """recv.then(a_1..a_n), n in 0..4.  `broken`: one junction (any position, the one between
        the receiver and the first argument included) does not match."""
        r = self.rng
        n = r.choice([0, 1, 1, 2, 2, 2, 3, 3, 4])
        if broken is None:
            broken = n > 0 and r.random() < self.malformed
        kind = r.random()
        if kind < 0.4:                        # a receiver without boxes, in its three spellings
            o = self.ob() if recv_dom is None else list(recv_dom)
            recv, rd, rc, rn = self.ident(o), o, o, 0
        elif recv_dom is not None:
            recv, rd, rc, rn = self.fixed_dom(recv_dom, depth - 1)
        else:
            recv, rd, rc, rn = self.expr(depth - 1)
        bad_at = r.randrange(n) if broken and n else -1
        args, scan, total = [], rc, rn
        for k in range(n):
            start = scan
            if k == bad_at or start is None:
                start = self.ob(avoid=scan)
            sub = r.random()
            if sub < 0.2:                     # an argument without boxes
                a, ad, ac, an = self.ident(start), start, start, 0
            else:
                a, ad, ac, an = self.fixed_dom(start, depth - 2)
            args.append(a)
            scan, total = ac, total + an
        forms = ["method", "method", "unbound", "class"]
        if n == 1:
            forms += ["rshift", "rshift", "lshift"]
        e = ("thenN", r.choice(forms), recv, args)
        if bad_at >= 0 or rc is None:
            return e, None, None, total
        return e, rd, scan if n else rc, total

    def malformed_mk(self):
        """The scanning constructor with a break at one position: dom / first box, between two
        boxes, last box / cod, or no box and dom != cod."""
        r = self.rng
        dom = self.ob()
        n = r.choice([0, 1, 2, 3, 4])
        boxes, end = self.chain(dom, n)
        pos = r.randint(0, n)            # junction number `pos` is broken
        if n == 0:
            return ("mk", dom, self.ob(avoid=dom), []), None, None, 0
        if pos == 0:
            dom = self.ob(avoid=dom)
        elif pos == n and r.random() < 0.7:
            end = self.ob(avoid=end)
        else:
            pos = min(pos, n - 1)
            boxes[pos] = dict(boxes[pos], dom=self.ob(avoid=boxes[pos]["dom"]))
        return ("mk", dom, end, boxes), None, None, n

    def functor(self, arg, kind=None):
        """A functor defined on every object and every box that can occur in `arg`; `kind` says
        how its two mappings are made to disagree (None: they agree)."""
        r = self.rng
        if kind is None:
            kind = r.choice(["consistent"] * 5 + ["img_dom", "img_dom", "img_cod", "ob_changed",
                                                  "ob_changed", "swap_images", "missing_ob",
                                                  "missing_ar"])
        obmap = {tuple(o): self.ob() for o in self.obs}
        if r.random() < 0.25:
            obmap = {tuple(o): list(o) for o in self.obs}      # identity on objects
        boxes = boxes_of(arg)
        ar = []
        for b in boxes:
            dom, cod = obmap[tuple(b["dom"])], obmap[tuple(b["cod"])]
            roll = r.random()
            if roll < 0.35:
                img = ("box", dict(self.gbox(dom, cod, name="F" + b["name"]), dagger=False))
            else:
                img = self.leaf(dom, cod)[0]
            ar.append((b, img))
        ob = [(list(k), v) for k, v in sorted(obmap.items())]
        if kind in ("img_dom", "img_cod") and ar:
            i = r.randrange(len(ar))
            b = ar[i][0]
            dom, cod = obmap[tuple(b["dom"])], obmap[tuple(b["cod"])]
            if kind == "img_dom":
                dom = self.ob(avoid=dom)
            else:
                cod = self.ob(avoid=cod)
            ar[i] = (b, self.leaf(dom, cod)[0] if r.random() < 0.5 else
                     ("box", dict(self.gbox(dom, cod, name="G" + b["name"]), dagger=False)))
        elif kind == "ob_changed":
            used = [b["dom"] for b in boxes] + [b["cod"] for b in boxes] or [self.ob()]
            k = r.choice(used)
            ob = [(a, self.ob(avoid=v) if a == k else v) for a, v in ob]
        elif kind == "swap_images" and len(ar) >= 2:
            i, j = r.sample(range(len(ar)), 2)
            ar[i], ar[j] = (ar[i][0], ar[j][1]), (ar[j][0], ar[i][1])
        elif kind == "missing_ob":
            ob = ob[:-1] if r.random() < 0.5 else ob[1:]
        elif kind == "missing_ar" and ar:
            ar.pop(r.randrange(len(ar)))
        return dict(ob=ob, ar=ar, style=r.choice(["dict", "dict", "callable", "quiver"]),
                    kind=kind)

    def expr(self, depth):
        r = self.rng
        if depth <= 0 or r.random() < 0.2:
            if r.random() < 0.08:
                return self.malformed_mk()
            return self.leaf()
        op = r.choice(["thenN"] * 6 + ["dagger", "dagger", "slice", "slicerev", "getitem"]
                      + ["functor"] * 4 + ["mk_malformed"])
        if op == "thenN":
            return self.then_n(depth)
        if op == "mk_malformed":
            return self.malformed_mk()
        a, ad, ac, an = self.expr(depth - 1)
        if op == "dagger":
            return ("dagger", a, r.choice(["method", "slice"])), ac, ad, an
        if op in ("slice", "slicerev"):
            lo, hi = -an - 2, an + 2
            s = r.choice([None, r.randint(lo, hi)])
            t = r.choice([None, r.randint(lo, hi)])
            return (op, a, s, t), None, None, an
        if op == "getitem":
            i = r.randint(-an - 1, an) if r.random() < 0.15 or an == 0 else r.randint(-an, an - 1)
            return ("getitem", a, i), None, None, 1
        F = self.functor(a)
        return ("functor", F, a), None, None, an


# ------------------------------------------------------------------ the streams

def sweep_then(g):
    """Systematic: receiver kind x number of arguments x position of the broken junction (none,
    or any of them, the first included) x calling form."""
    r = g.rng
    out = []
    for recv_kind in ("Id", "Arrow.id", "empty", "box", "composite", "slice_empty"):
        for n in range(5):
            for bad_at in [-1] + list(range(n)):
                forms = ["method", "unbound", "class"] + (["rshift", "lshift"] if n == 1 else [])
                for form in forms:
                    o = g.ob()
                    if recv_kind in ("Id", "Arrow.id", "empty"):
                        recv, rc = ("id", o, recv_kind), o
                    elif recv_kind == "box":
                        b = g.gbox(o)
                        recv, rc = ("box", b), b["cod"]
                    elif recv_kind == "composite":
                        boxes, rc = g.chain(o, 2)
                        recv = ("mk", o, rc, boxes)
                    else:       # an arrow without boxes obtained by slicing: f[:0], f[1:]
                        b = g.gbox(o)
                        lo = r.random() < 0.5
                        recv, rc = ("slice", ("box", b), None if lo else 1, 0 if lo else None), \
                            (b["dom"] if lo else b["cod"])
                    args, scan = [], rc
                    for k in range(n):
                        start = g.ob(avoid=scan) if k == bad_at else scan
                        a, _, scan, _ = g.leaf(start) if r.random() < 0.8 else \
                            (g.ident(start), start, start, 0)
                        args.append(a)
                    out.append((("thenN", form, recv, args),
                                "then:%s:n=%d:%s" % (recv_kind, n, "ok" if bad_at < 0 else
                                                     "bad@%d" % bad_at)))
    return out


def sweep_functor(g):
    """Systematic: how the mappings disagree x style of the mappings x shape of the argument."""
    r = g.rng
    out = []
    for kind in ("consistent", "img_dom", "img_cod", "ob_changed", "swap_images", "missing_ob",
                 "missing_ar"):
        for style in ("dict", "callable", "quiver"):
            for shape in ("identity", "one_box_arrow", "box", "composite", "composite_dagger",
                          "then_of_two", "nested"):
                o = g.ob()
                if shape == "identity":
                    a = g.ident(o)
                elif shape == "one_box_arrow":
                    b = g.gbox(o)
                    a = ("mk", o, b["cod"], [b])
                elif shape == "box":
                    a = ("box", g.gbox(o))
                elif shape in ("composite", "composite_dagger"):
                    boxes, c = g.chain(o, r.randint(2, 4))
                    a = ("mk", o, c, boxes)
                    if shape == "composite_dagger":
                        a = ("dagger", a, "slice")
                elif shape == "then_of_two":
                    x, _, c, _ = g.leaf(o)
                    y = g.leaf(c)[0]
                    a = ("thenN", "method", g.ident(o), [x, y])
                else:
                    boxes, c = g.chain(o, 2)
                    inner = ("mk", o, c, boxes)
                    a = ("functor", dict(g.functor(inner, "consistent"), style="dict"), inner)
                F = dict(g.functor(a, kind), style=style)
                out.append((("functor", F, a), "functor:%s:%s:%s" % (kind, style, shape)))
    return out


def run_streams(rep, drv, rng, tier):
    """Class `cat` as a full family: model correspondence (driver command `cateval`) on every
    request, C01's predicate on every value handed back (sub-results included), refusal of
    ill-typed compositions, re-reading of earlier values."""
    import random
    quick = tier == "quick"
    fams = {"ob": CatFamily("ob"), "ty": CatFamily("ty")}
    cases = []          # (family name, label, expr)
    for rnd in range(1 if quick else 6):
        for famn in ("ob", "ty"):
            g = CatGen(random.Random(rng.getrandbits(64)), fams[famn])
            cases += [(famn, lab, e) for e, lab in sweep_then(g)]
            cases += [(famn, lab, e) for e, lab in sweep_functor(g)]
    for k in range(500 if quick else 20000):
        famn = "ty" if k % 4 == 3 else "ob"
        g = CatGen(random.Random(rng.getrandbits(64)), fams[famn])
        cases.append((famn, "random", g.expr(g.rng.randint(1, 4))[0]))
    pending = []
    for famn, label, e in cases:
        fam = fams[famn]
        case = dict(family="cat/" + famn, stream=label, expr=repr(e)[:3000])
        history = []

        def on_value(op, sub, v, case=case, history=history):
            rep.count("cat_op:" + op)
            why = arrow_wf_failure(v)
            if why:
                rep.fail("illtyped_result:%s:cat" % op,
                         dict(case, sub_expression=repr(sub)[:1500], value=repr(v)[:400]), why)
            if len(history) < 60:
                try:
                    history.append((op, v, ser_arrow(v)))
                except Exception:
                    pass

        def on_problem(sig, sub, text, case=case):
            rep.fail(sig, dict(case, sub_expression=repr(sub)[:1500]), text)
        ev = CatEval(fam, on_value, on_problem, rep.count)
        images = {}
        value = None
        try:
            ev.prepare_images(e, images)
        except Refusal as ref:          # generated images are well-typed: say so if one is not
            rep.count("cat_image_refused:" + ref.cls)
            continue
        try:
            value = ev.run(e)
            real = "ok " + ser_arrow(value)
        except Refusal as ref:
            real = "err " + ref.cls
            if ref.cls.startswith("exc:") or ref.cls == "recursion":
                rep.fail("unexpected_exception:cat", case, repr(ref.exc)[:300])
        for op, v, then in history:
            try:
                now = ser_arrow(v)
            except Exception as exc:
                now = "unreadable: %r" % (exc,)
            if now != then:
                rep.fail("earlier_value_spoilt:cat", dict(case, op=op),
                         "changed after it was handed out: was %s now %s" % (then[:200], now[:200]))
        ops = cexpr_ops(e)
        for o in set(ops):
            rep.count("cat_expr_op:" + o)
        rep.count("cat_family:" + famn)
        rep.count("cat_stream:" + label.split(":")[0])
        if label != "random":
            rep.count("cat_sweep:" + ":".join(label.split(":")[:2]))
        if e[0] == "functor":
            rep.count("cat_functor_kind:%s:%s" % (e[1]["kind"], real.split(" ")[0] if
                                                  real.startswith("ok") else real))
        rep.count("cat_result:" + (real.split(" ")[0] if real.startswith("ok") else real))
        nboxes = len(value.boxes) if value is not None else 0
        line = "cateval " + tok_cexpr(e, images)
        pending.append((case, line, real, nboxes >= 2 and len(ops) >= 2))
    answers = drv.ask_many([p[1] for p in pending]) if pending else []
    for (case, line, real, nontrivial), model in zip(pending, answers):
        rep.case(line, nontrivial)
        if real != model:
            rep.disagree("cateval", case, real[:600], model[:600])
        rep.sample(dict(family=case["family"], request=line[:300], answer=real[:200]), cap=10)
    return dict(cat_requests=len(pending))
