"""Exact semantic oracle: evaluate monoidal / rigid diagrams under a random tensor functor with
small integer entries (numpy int64 arithmetic is exact here), independent of discopy's own
evaluation code: the composite is computed layer by layer with Kronecker products."""
import numpy as np


class IntFunctor:
    """Random interpretation: dimension per object name (winding numbers ignored, i.e. self-dual),
    integer matrix per generator box (keyed by its canonical token)."""

    def __init__(self, rng, maxdim=2):
        self.rng = rng
        self.maxdim = maxdim
        self.dims = {}
        self.arrays = {}

    def dim(self, ob):
        key = ob.name
        if key not in self.dims:
            self.dims[key] = self.rng.randint(1, self.maxdim)
        return self.dims[key]

    def tydim(self, ty):
        n = 1
        for ob in ty.objects:
            n *= self.dim(ob)
        return n

    def box(self, box):
        from discopy import monoidal, rigid
        from common import ser_box
        m, n = self.tydim(box.dom), self.tydim(box.cod)
        if isinstance(box, monoidal.Swap):
            a, b = self.dim(box.dom.objects[0]), self.dim(box.dom.objects[1])
            out = np.zeros((a * b, b * a), dtype=np.int64)
            for i in range(a):
                for j in range(b):
                    out[i * b + j, j * a + i] = 1
            return out
        if isinstance(box, rigid.Cup):
            a = self.dim(box.dom.objects[0])
            return np.eye(a, dtype=np.int64).reshape(a * a, 1)
        if isinstance(box, rigid.Cap):
            a = self.dim(box.cod.objects[0])
            return np.eye(a, dtype=np.int64).reshape(1, a * a)
        key = ser_box(box if not box.is_dagger else box.dagger())
        if key not in self.arrays:
            base = box if not box.is_dagger else box.dagger()
            mm, nn = self.tydim(base.dom), self.tydim(base.cod)
            self.arrays[key] = np.array(
                [[self.rng.randint(-2, 2) for _ in range(nn)] for _ in range(mm)],
                dtype=np.int64).reshape(mm, nn)
        arr = self.arrays[key]
        return arr.T.copy() if box.is_dagger else arr

    def eval(self, d):
        """Matrix (dim dom) x (dim cod) of the diagram, layer by layer."""
        out = np.eye(self.tydim(d.dom), dtype=np.int64)
        for left, box, right in d.layers.boxes:
            layer = np.kron(np.kron(np.eye(self.tydim(left), dtype=np.int64), self.box(box)),
                            np.eye(self.tydim(right), dtype=np.int64))
            out = out @ layer
        return out


def wire_labels(d):
    """For every box k: the labels of the wires it consumes, a label being ('in', p) for the p-th
    input wire of the diagram or (producer-box-identity, port).  Boxes are identified by their
    index in `d.boxes`; returns (consumed: list of tuples, outputs: tuple)."""
    scan = [("in", p) for p in range(len(d.dom))]
    consumed = []
    for k, (box, off) in enumerate(zip(d.boxes, d.offsets)):
        consumed.append(tuple(scan[off:off + len(box.dom)]))
        scan = scan[:off] + [(k, q) for q in range(len(box.cod))] + scan[off + len(box.dom):]
    return consumed, tuple(scan)
