"""Histories with MUTABLE box data for C09.

`Box.data` is documented (cat.py:540) as "immutable, but it can hold a mutable object", and functors
are documented to follow in-place changes of such objects (cat.py:901).  So the tensor that
evaluation assigns to a box is the array the box holds AT THE MOMENT of the evaluation: a second
evaluation after an in-place update (a training step `weights -= lr * grad`, `box.data[0] = x`) must be
the layer-by-layer composite of the CURRENT arrays.  A single evaluation per box object never visits
that region; this module generates it:

  * tensor histories (`tensor_history`): a tbubblelib diagram (boxes, daggers, swaps, spiders, cups,
    caps, nested bubbles) whose generator boxes are ONE `tensor.Box` object each, holding a mutable
    container (1-d / shaped ndarray of complex, float or int dtype, flat list, nested list); a set of
    first uses (hash / == / dict key / `.array` / eval of the box / eval of the diagram / functor call /
    nothing at all); then 1-3 rounds of in-place updates (element assignment, `+=`, `*=`, `-= array`,
    `[:] =`, row assignment, `fill`, `.flat[k] =`, `np.copyto`, `put`, `reverse`, swapping two
    entries, replacing an inner list), each followed by: the SAME diagram object evaluated again, the
    diagram rebuilt from the same box objects (bubbles kept or re-wrapped), a NEW diagram built from the
    same box objects with `.dagger()` / `[::-1]`, `@`, `>>`, bubbles (`rand_term`), explicit
    `tensor.Functor`s (dict and callable `ob` / `ar`), and the boxes alone (`.array`, `.eval()`);
  * rigid histories (`rigid_history`): ONE `tensor.Functor` object whose arrow map (dict or callable)
    holds the mutable containers, called again on the same rigid diagram after each update;
  * circuit histories (`circuit_history`): custom `QuantumGate` / `ClassicalGate` boxes (their stored
    `.array` updated in place) next to fixed integer gates, and rotations whose phase is a 0-d ndarray
    (`rotation_history`, float, oracle only).

Everything is planned up front from the seed as plain data (`History.steps`: the update operations and
the snapshot of all arrays after each round); the model is a pure function of the data and is asked
with the snapshot of each round; the real run replays the plan on the containers in place and asserts
that the container then holds exactly the planned snapshot (a harness self-check)."""
import copy

import numpy as np

import tensorlib as tl
import tbubblelib as bl
from tensorlib import size, box_key, undagger

VALS = [1, -1, 1j, -1j, 1 + 1j, 1 - 1j, 2, -2, 2j, -1 + 1j, 3, 0]
REAL_VALS = [1, -1, 2, -2, 3, 0, -3]
COMPLEX_STYLES = ["nd_flat", "nd_shaped", "list", "nested"]
REAL_STYLES = ["nd_real", "nd_int", "list_int"]


class HarnessBug(Exception):
    """The replay of a planned update did not leave the planned data in the container."""


# ------------------------------------------------------------------ containers and updates

def is_real_style(style):
    return style in REAL_STYLES


def conv(style, v):
    v = complex(v)
    if style in ("nd_int", "list_int"):
        return int(v.real)
    if style == "nd_real":
        return float(v.real)
    return v


def nest(flat, shape):
    """Nested Python lists of the given shape."""
    if len(shape) <= 1:
        return list(flat)
    step = len(flat) // shape[0]
    return [nest(flat[i * step:(i + 1) * step], shape[1:]) for i in range(shape[0])]


def make_container(style, flat, shape):
    flat = [conv(style, v) for v in flat]
    if style == "nd_flat":
        return np.array(flat, dtype=complex)
    if style == "nd_shaped":
        return np.array(flat, dtype=complex).reshape(shape)
    if style == "nd_real":
        return np.array(flat, dtype=float).reshape(shape)
    if style == "nd_int":
        return np.array(flat, dtype=np.int64).reshape(shape)
    if style in ("list", "list_int"):
        return list(flat)
    if style == "nested":
        return nest(flat, shape)
    raise ValueError(style)


def read_container(cont):
    return [complex(v) for v in np.array(cont, dtype=complex).reshape(-1)]


def plan_update(rng, style, shape, old):
    """(op, params, new flat data): one in-place update that changes the data.  `old`: flat list of
    complex, `shape`: the shape of the box's array (`[1]` for a scalar box)."""
    n = len(old)
    real = is_real_style(style)
    nd = style.startswith("nd")
    shaped = style in ("nd_shaped", "nd_real", "nd_int", "nested")

    def val():
        return complex(rng.choice(REAL_VALS if real else VALS))

    def vals(k, density=0.7):
        return [val() if rng.random() < density else 0j for _ in range(k)]
    ops = ["setitem"] * 3 + ["assign_all"]
    if nd:
        ops += ["iadd", "imul", "isub_array", "fill", "flat_setitem", "copyto", "put"]
        if shaped and len(shape) >= 2:
            ops += ["row_assign"] * 2
    if style in ("list", "list_int"):
        ops += ["reverse", "swap", "slice_assign"]
    if style == "nested" and len(shape) >= 2:
        ops += ["row_replace", "row_slice_assign"]
    row = n // shape[0] if shape else n
    for _ in range(30):
        op = rng.choice(ops)
        new = list(old)
        if op in ("setitem", "flat_setitem"):
            k, v = rng.randrange(n), val()
            new[k], params = v, (k, v)
        elif op == "assign_all" or op == "copyto":
            new = vals(n)
            params = (tuple(new),)
        elif op == "iadd":
            c = val()
            new, params = [x + c for x in old], (c,)
        elif op == "imul":
            c = complex(rng.choice([2, -1] if real else [2, -1, 1j, 1 + 1j]))
            new, params = [x * c for x in old], (c,)
        elif op == "isub_array":
            g = vals(n, 0.5)
            new, params = [x - y for x, y in zip(old, g)], (tuple(g),)
        elif op == "fill":
            v = val()
            new, params = [v] * n, (v,)
        elif op == "put":
            ks = [rng.randrange(n) for _ in range(rng.randint(1, 2))]
            vs = [val() for _ in ks]
            for k, v in zip(ks, vs):
                new[k] = v
            params = (tuple(ks), tuple(vs))
        elif op in ("row_assign", "row_replace", "row_slice_assign"):
            i, r = rng.randrange(shape[0]), vals(row)
            new[i * row:(i + 1) * row] = r
            params = (i, tuple(r))
        elif op == "reverse":
            new, params = old[::-1], ()
        elif op == "swap":
            if n < 2:
                continue
            i, j = rng.sample(range(n), 2)
            new[i], new[j] = old[j], old[i]
            params = (i, j)
        elif op == "slice_assign":
            i = rng.randrange(n)
            j = rng.randint(i + 1, n)
            r = vals(j - i)
            new[i:j] = r
            params = (i, j, tuple(r))
        else:
            raise ValueError(op)
        if new != list(old):
            return op, params, new
    k = rng.randrange(n)
    v = old[k] + 1
    new = list(old)
    new[k] = v
    return "setitem", (k, v), new


def apply_update(cont, style, shape, op, params):
    """The planned update, IN PLACE on the container (the box keeps holding the same object)."""
    c = lambda v: conv(style, v)  # noqa: E731
    nd = isinstance(cont, np.ndarray)
    if op == "setitem":
        k, v = params
        if style == "nested":
            idx = np.unravel_index(k, shape)
            inner = cont
            for i in idx[:-1]:
                inner = inner[int(i)]
            inner[int(idx[-1])] = c(v)
        elif nd and cont.ndim != 1:
            cont[tuple(int(i) for i in np.unravel_index(k, cont.shape))] = c(v)
        else:
            cont[k] = c(v)
    elif op == "flat_setitem":
        cont.flat[params[0]] = c(params[1])
    elif op == "assign_all":
        new = [c(v) for v in params[0]]
        if nd:
            cont[...] = np.array(new).reshape(cont.shape)
        elif style == "nested":
            cont[:] = nest(new, shape)
        else:
            cont[:] = new
    elif op == "copyto":
        np.copyto(cont, np.array([c(v) for v in params[0]]).reshape(cont.shape))
    elif op == "iadd":
        cont += c(params[0])
    elif op == "imul":
        cont *= c(params[0])
    elif op == "isub_array":
        cont -= np.array([c(v) for v in params[0]]).reshape(cont.shape)
    elif op == "fill":
        cont.fill(c(params[0]))
    elif op == "put":
        cont.put(list(params[0]), [c(v) for v in params[1]])
    elif op == "row_assign":
        cont[params[0]] = np.array([c(v) for v in params[1]]).reshape(cont.shape[1:])
    elif op == "row_replace":
        cont[params[0]] = nest([c(v) for v in params[1]], shape[1:])
    elif op == "row_slice_assign":
        cont[params[0]][:] = nest([c(v) for v in params[1]], shape[1:])
    elif op == "reverse":
        cont.reverse()
    elif op == "swap":
        i, j = params
        cont[i], cont[j] = cont[j], cont[i]
    elif op == "slice_assign":
        i, j, r = params
        cont[i:j] = [c(v) for v in r]
    else:
        raise ValueError(op)


def show_params(params):
    def s(v):
        if isinstance(v, tuple):
            return "[%s]" % ", ".join(s(x) for x in v)
        if isinstance(v, (complex, np.complexfloating)):
            v = complex(v)
            return repr(int(v.real)) if v.imag == 0 and v.real == int(v.real) \
                else repr(v).strip("()")
        return repr(v)
    return ", ".join(s(p) for p in params)


def pick_style(rng, a, allowed=None):
    flat = np.asarray(a).reshape(-1)
    styles = list(COMPLEX_STYLES)
    if all(complex(v).imag == 0 for v in flat):
        styles += REAL_STYLES
    if allowed is not None:
        styles = [s for s in styles if s in allowed] or ["nd_shaped"]
    return rng.choice(styles)


# ------------------------------------------------------------------ the tensor case

class HCase(bl.BCase):
    """A BCase whose generator boxes are one `tensor.Box` object each, holding a mutable container.
    `ars` is the CURRENT data as plain arrays (the list object is shared with the views made by
    `view`), `cont` the containers held by the real boxes, `_objs` the real objects."""

    family_name = "tensor"

    def __init__(self, base, rng, styles=None):
        ars = [(b, a if isinstance(a, tuple) else np.array(a, dtype=complex)) for b, a in base.ars]
        bl.BCase.__init__(self, base.e, base.ob, ars, list(getattr(base, "bubbles", [])), True, True,
                          "mutable", getattr(base, "bubble_style", "method"))
        self.feat, self.transcendental = set(), False
        self.style = {}
        for b, a in ars:
            if not isinstance(a, tuple):
                self.style[box_key(b)] = pick_style(rng, a, styles)
        self.cont = {}
        self.dag_mode = rng.choice(["cached", "fresh", "slice"])
        self.keep_bubbles = True
        self.ntag = [0]

    # ---- data
    def shape_of(self, ub):
        return (self.fdims(ub["dom"]) + self.fdims(ub["cod"])) or [1]

    def gens(self):
        return [b for b, a in self.ars if not isinstance(a, tuple)]

    def install(self, snapshot):
        self.ars[:] = list(snapshot)

    def view(self, e, extra_bubbles=()):
        """The same boxes, containers and objects under another diagram."""
        v = copy.copy(self)
        v.e = e
        v.bubbles = list(self.bubbles) + list(extra_bubbles)
        v.bub = {box_key(b): (b, f, ie) for b, f, ie in v.bubbles}
        return v

    # ---- real side
    def dim(self, t):
        from discopy import tensor
        return tensor.Dim(*[n for n, _ in t])

    def make_gen(self, ub, spec):
        """(real box, the mutable container it holds)."""
        from discopy import tensor
        ukey = box_key(ub)
        cont = make_container(self.style[ukey], list(np.asarray(spec).reshape(-1)), self.shape_of(ub))
        return tensor.Box(ub["name"], self.dim(ub["dom"]), self.dim(ub["cod"]), cont), cont

    def real_box(self, b):
        from discopy import tensor
        key = box_key(b)
        if key in self.bub:
            if self.keep_bubbles and key in self._objs:
                return self._objs[key]
            _, f, ie = self.bub[key]
            inside = self.real_diagram(ie)
            kw = {} if f.py is None else {"func": f.py}
            obj = inside.bubble(**kw) if self.bubble_style == "method" else tensor.Bubble(inside, **kw)
            self._objs[key] = obj
            return obj
        if b["kind"] == "g":
            ub = undagger(b)
            ukey = box_key(ub)
            spec = dict(self.ars_by_key())[ukey]
            if not isinstance(spec, tuple):
                if ukey not in self._objs:
                    self._objs[ukey], self.cont[ukey] = self.make_gen(ub, spec)
                obj = self._objs[ukey]
                if not b["dagger"]:
                    return obj
                if self.dag_mode == "cached":
                    if key not in self._objs:
                        self._objs[key] = obj.dagger()
                    return self._objs[key]
                return obj[::-1] if self.dag_mode == "slice" else obj.dagger()
        return tl.FCase.real_box(self, b)

    def real_diagram(self, e=None):
        from discopy import tensor
        _, dom, cod, boxes, offsets = self.e if e is None else e
        return tensor.Diagram(self.dim(dom), self.dim(cod), [self.real_box(b) for b in boxes],
                              list(offsets))

    def real_eval(self, e=None):
        return self.real_diagram(e).eval()

    def mutate(self, muts, snapshot):
        """Replay one round of planned updates in place, then install the planned snapshot."""
        for ukey, op, params, new in muts:
            ub = dict((box_key(b), b) for b, _ in self.ars)[ukey]
            apply_update(self.cont[ukey], self.style[ukey], self.shape_of(ub), op, params)
            got = read_container(self.cont[ukey])
            if got != [complex(v) for v in new]:
                raise HarnessBug("update %s(%s) on a %s left %r, planned %r"
                                 % (op, show_params(params), self.style[ukey], got, new))
        self.install(snapshot)


# ------------------------------------------------------------------ new diagrams from the same boxes

def term_type(t):
    k = t[0]
    if k == "box":
        b = t[1]
        return list(b["dom"]), list(b["cod"])
    if k == "tensor":
        (ad, ac), (bd, bc) = term_type(t[1]), term_type(t[2])
        return ad + bd, ac + bc
    if k == "then":
        return term_type(t[1])[0], term_type(t[2])[1]
    if k == "dagger":
        d, c = term_type(t[1])
        return c, d
    if k == "bubble":
        return term_type(t[1])
    raise ValueError(k)


def has_bubble(t):
    if t[0] == "box":
        return False
    if t[0] == "bubble":
        return True
    return any(has_bubble(x) for x in t[1:3] if isinstance(x, tuple))


def dag_box(ub):
    return dict(ub, dom=ub["cod"], cod=ub["dom"], dagger=not ub["dagger"])


def rand_term(rng, case, bubbles=True, maxsize=500):
    """A new diagram over the generator boxes of the case: a term of box / tensor / then / dagger /
    bubble, small enough to evaluate."""
    gens = case.gens()
    both = gens + [dag_box(g) for g in gens]

    def leaf():
        ub = rng.choice(gens)
        return ("box", dag_box(ub) if rng.random() < 0.4 else ub)

    def sz(t):
        d, c = term_type(t)
        return size(case.fdims(d)) * size(case.fdims(c))
    t = leaf()
    for _ in range(rng.randint(1, 3)):
        op = rng.choice(["tensor", "tensor", "then_dagger", "then_match", "then_match", "dagger"] +
                        (["bubble"] * 2 if bubbles else []))
        new = t
        if op == "tensor":
            o = leaf()
            new = ("tensor", t, o) if rng.random() < 0.5 else ("tensor", o, t)
        elif op == "then_dagger" and not has_bubble(t):
            new = ("then", t, ("dagger", t)) if rng.random() < 0.5 else ("then", ("dagger", t), t)
        elif op == "then_match":
            _, cod = term_type(t)
            fits = [b for b in both if list(b["dom"]) == cod]
            if fits:
                new = ("then", t, ("box", rng.choice(fits)))
            elif not has_bubble(t):
                new = ("then", t, ("dagger", t))
        elif op == "dagger" and not has_bubble(t):
            new = ("dagger", t)
        elif op == "bubble":
            case.ntag[0] += 1
            new = ("bubble", t, bl.exact_fun(rng), "h%d" % case.ntag[0],
                   rng.choice(["method", "class"]))
        if sz(new) <= maxsize and max(len(x) for x in term_type(new)) <= 4:
            t = new
    return t


def term_spec(t):
    """(dom, cod, boxes, offsets, bubbles) of the term, the way discopy's `@`, `>>`, `.dagger()` and
    `.bubble()` build it (rigid.py / monoidal.py: `a @ b` = a @ Id >> Id @ b)."""
    k = t[0]
    if k == "box":
        b = t[1]
        return list(b["dom"]), list(b["cod"]), [b], [0], []
    if k == "tensor":
        ad, ac, ab, ao, au = term_spec(t[1])
        bd, bc, bb, bo, bu = term_spec(t[2])
        return ad + bd, ac + bc, ab + bb, ao + [o + len(ac) for o in bo], au + bu
    if k == "then":
        ad, ac, ab, ao, au = term_spec(t[1])
        bd, bc, bb, bo, bu = term_spec(t[2])
        assert ac == bd, (ac, bd)
        return ad, bc, ab + bb, ao + bo, au + bu
    if k == "dagger":
        d, c, boxes, offs, bub = term_spec(t[1])
        assert not bub
        return c, d, [dag_box(b) for b in reversed(boxes)], list(reversed(offs)), []
    if k == "bubble":
        d, c, boxes, offs, bub = term_spec(t[1])
        inner = ("mk", d, c, boxes, offs)
        b = dict(kind="g", name="Bubble", dom=list(d), cod=list(c), dagger=False, data=t[3])
        return list(d), list(c), [b], [0], bub + [(b, t[2], inner)]
    raise ValueError(k)


def term_real(case, t):
    """The same term on the real box objects, through discopy's own operators."""
    from discopy import tensor
    k = t[0]
    if k == "box":
        return case.real_box(t[1])
    if k == "tensor":
        return term_real(case, t[1]) @ term_real(case, t[2])
    if k == "then":
        return term_real(case, t[1]) >> term_real(case, t[2])
    if k == "dagger":
        return term_real(case, t[1]).dagger()
    if k == "bubble":
        f = t[2]
        kw = {} if f.py is None else {"func": f.py}
        inside = term_real(case, t[1])
        return inside.bubble(**kw) if t[4] == "method" else tensor.Bubble(inside, **kw)
    raise ValueError(k)


def show_term(t):
    k = t[0]
    if k == "box":
        b = t[1]
        return "%s%s%s" % (b["name"], b["data"] or "", ".dagger()" if b["dagger"] else "")
    if k == "tensor":
        return "(%s @ %s)" % (show_term(t[1]), show_term(t[2]))
    if k == "then":
        return "(%s >> %s)" % (show_term(t[1]), show_term(t[2]))
    if k == "dagger":
        return "%s.dagger()" % show_term(t[1])
    return "%s.bubble(%s)" % (show_term(t[1]), t[2].token)


def term_ops(t, acc=None):
    acc = set() if acc is None else acc
    if t[0] == "box":
        acc.add("dagger_box" if t[1]["dagger"] else "box")
        return acc
    acc.add(t[0])
    for x in t[1:3]:
        if isinstance(x, tuple):
            term_ops(x, acc)
    return acc


def term_view(case, t):
    d, c, boxes, offs, bub = term_spec(t)
    return case.view(("mk", d, c, boxes, offs), bub)


# ------------------------------------------------------------------ explicit functors

def walk_boxes(d):
    """Every box of the real diagram that the arrow map of a functor is asked about."""
    from discopy import tensor, rigid, monoidal
    for f in d.boxes:
        if isinstance(f, tensor.Bubble):
            for g in walk_boxes(f.inside):
                yield g
        elif isinstance(f, (monoidal.Swap, rigid.Cup, rigid.Cap)):
            continue
        else:
            yield f


def explicit_functor(case, d, ob_style, ar_style):
    """The identity-on-arrays functor written out by hand: every box is sent to the CURRENT array of
    the plan's snapshot (found through the identity of the container the box holds), never to
    anything the library computed from the box."""
    from discopy import tensor
    by_id = {}
    for k, a in case.ars_by_key():
        if k in case.cont:
            by_id[id(case.cont[k])] = np.array(a)

    def value(f):
        if isinstance(f, tensor.Spider):
            return f.array
        a = by_id[id(f.data)]
        return a if ar_style.endswith("array") else list(a.reshape(-1))
    if ar_style.startswith("callable"):
        ar = value
    else:
        ar = {}
        for f in walk_boxes(d):
            u = f.dagger() if f.is_dagger else f
            ar[u] = value(u)
    def dim_of(x):
        o = x.objects[0]
        return int(o if isinstance(o, int) else o.name)
    if ob_style == "callable":
        ob = lambda x: x  # noqa: E731
    elif ob_style == "callable_int":
        ob = dim_of
    else:
        # the types of a composite tensor diagram are rigid.Ty objects that are == to the Dims of its
        # boxes but hash differently (tensor.py:345 looks up `type(diagram)(obj)`): give both keys
        from discopy import rigid
        ob = {}
        for k in case.ob:
            ob[tensor.Dim(k)] = k
            ob[rigid.Ty(k)] = tensor.Dim(k)
    return tensor.Functor(ob, ar)


# ------------------------------------------------------------------ plans

FIRST_USES = ["eval", "eval", "eval", "hash", "eq", "dict_key", "in_list", "array", "eval_box",
              "functor", "repr", "make_dagger", "eval_dagger_box"]


class History:
    """case + plan.  steps[0] has no updates; steps[t] = dict(muts, snapshot, term, lines, ...)."""

    def __init__(self, kind, case, first_uses, steps, subseed):
        self.kind, self.case, self.first_uses, self.steps, self.subseed = \
            kind, case, first_uses, steps, subseed

    def describe(self):
        c = self.case
        names = {box_key(b): "%s%s" % (b["name"], b["data"] or "") for b, _ in c.ars}
        return dict(
            family="history:" + self.kind, subseed=self.subseed, expr=repr(c.e)[:1500],
            bubbles=[(b["data"], f.token or f.name, repr(ie)[:400]) for b, f, ie in getattr(c, "bubbles", [])][:8],
            containers={names[k]: s for k, s in c.style.items()},
            dagger_objects=getattr(c, "dag_mode", None),
            first_uses=list(self.first_uses),
            initial_data={names[box_key(b)]: show_params((tuple(np.asarray(a).reshape(-1)),))
                          for b, a in self.steps[0]["snapshot"] if not isinstance(a, tuple)},
            updates=[["%s: %s(%s)" % (names[k], op, show_params(params)) for k, op, params, _ in s["muts"]]
                     for s in self.steps[1:]],
            new_diagrams=[show_term(s["term"]) if s.get("term") else None for s in self.steps])


def plan_steps(rng, case, n_rounds, with_terms=True, bubbles=True):
    """The rounds of updates (pure data) with the snapshot after each and the driver lines."""
    steps = [dict(muts=[], snapshot=list(case.ars))]
    for _ in range(n_rounds):
        cur = list(steps[-1]["snapshot"])
        idx = [i for i, (b, a) in enumerate(cur) if not isinstance(a, tuple)
               and case.style.get(box_key(b)) != "fixed"]
        if not idx:
            break
        chosen = [i for i in idx if rng.random() < 0.6] or [rng.choice(idx)]
        muts = []
        for i in chosen:
            b, a = cur[i]
            k = box_key(b)
            old = [complex(v) for v in np.asarray(a).reshape(-1)]
            op, params, new = plan_update(rng, case.style[k], case.shape_of(b), old)
            muts.append((k, op, params, new))
            cur[i] = (b, np.array(new, dtype=complex).reshape(np.asarray(a).shape))
        steps.append(dict(muts=muts, snapshot=cur))
    for s in steps:
        case.install(s["snapshot"])
        s["line"] = case.line(case.cmd)
        s["term"] = s["term_line"] = None
        if with_terms and case.gens():
            s["term"] = rand_term(rng, case, bubbles=bubbles)
            s["term_line"] = term_view(case, s["term"]).line(case.cmd)
        s["keep_bubbles"] = rng.random() < 0.5
        s["functors"] = [(rng.choice(["callable", "callable_int", "dict_both"]),
                          rng.choice(["callable_list", "callable_array", "dict_list", "dict_array"]),
                          rng.choice(["same", "term"])) for _ in range(2)]
    case.install(steps[0]["snapshot"])
    return steps


def pick_first_uses(rng):
    r = rng.random()
    if r < 0.08:
        return ["none"]
    uses = set(rng.sample(FIRST_USES, rng.randint(1, 4)))
    if r < 0.3:
        uses.discard("eval")            # the boxes are only hashed / compared / read first
    return sorted(uses) or ["hash"]


def tensor_history(rng, subseed, quick=True):
    """A tensor.Diagram (with bubbles) over boxes with mutable data, and its plan."""
    for _ in range(40):
        base = bl.bubble_case(rng, True, quick) if rng.random() < 0.7 else \
            tl.tensor_case(rng, maxdim=3, maxw=3, maxdepth=5, limit=1500, work=60000)
        case = HCase(base, rng)
        if case.gens() and any(box_key(undagger(b)) in case.style for b in case.all_boxes()):
            break
    else:
        raise RuntimeError("no history case generated")
    case.cmd = "bfeval"
    steps = plan_steps(rng, case, rng.choice([1, 1, 2, 2, 3]))
    return History("tensor", case, pick_first_uses(rng), steps, subseed)


# ------------------------------------------------------------------ rigid: one functor object, mutable images

class RCase(tl.FCase):
    """A rigid diagram and ONE tensor.Functor whose arrow map holds mutable containers."""
    cmd = "feval"

    def __init__(self, base, rng):
        ars = [(b, np.array(a, dtype=complex)) for b, a in base.ars]
        tl.FCase.__init__(self, "rigid", base.e, base.ob, ars, base.ob_style, base.ar_style)
        self.style = {box_key(b): pick_style(rng, a) for b, a in ars}
        self.cont, self.functor = {}, None

    def shape_of(self, ub):
        return (self.fdims(ub["dom"]) + self.fdims(ub["cod"])) or [1]

    def gens(self):
        return [b for b, _ in self.ars]

    def install(self, snapshot):
        self.ars[:] = list(snapshot)

    def view_plain(self, e):
        v = copy.copy(self)
        v.e = e
        return v

    def build_functor(self):
        """A tensor.Functor over the containers (made on first use; later functors share them)."""
        from discopy import tensor, rigid
        from core import Family
        fam = Family("rigid")
        obd = {rigid.Ty(n): (v if isinstance(v, int) else tensor.Dim(*v)) for n, v in self.ob.items()}
        ard = {}
        for b, a in self.ars:
            k = box_key(b)
            if k not in self.cont:
                self.cont[k] = make_container(self.style[k], list(np.asarray(a).reshape(-1)),
                                              self.shape_of(b))
            ard[fam.box(b)] = self.cont[k]
        ob = obd if self.ob_style == "dict" else (lambda t: obd[t])
        ar = ard if self.ar_style == "dict" else (lambda f: ard[f])
        return tensor.Functor(ob, ar)

    mutate = HCase.mutate


def rigid_history(rng, subseed):
    for _ in range(60):
        base = tl.rigid_case(rng, maxdim=3, maxw=4, maxdepth=5, limit=1500, work=60000, multi=0.3)
        ok = base.ars and all(np.asarray(a).size == size(base.fdims(b["dom"]) + base.fdims(b["cod"]))
                              for b, a in base.ars)
        if ok:
            try:
                base.ref_layers()
            except ValueError:      # a cup / cap on a non-palindromic image: the statement does not apply
                continue
            break
    else:
        raise RuntimeError("no rigid history case generated")
    case = RCase(base, rng)
    steps = plan_steps(rng, case, rng.choice([1, 2, 2, 3]), with_terms=False)
    return History("rigid", case, [rng.choice(["call", "call", "call", "none"])], steps, subseed)


# ------------------------------------------------------------------ circuits with custom gate arrays

Q, B = ("q", 0), ("b", 0)
FIXED = {       # integer gates next to the custom ones (never updated), arrays in [input, output] order
    "X": (1, [0, 1, 1, 0]), "Z": (1, [1, 0, 0, -1]),
    "CX": (2, [1, 0, 0, 0, 0, 1, 0, 0, 0, 0, 0, 1, 0, 0, 1, 0]),
}


class CCase(HCase):
    """A pure Circuit of custom QuantumGate / ClassicalGate boxes; the mutable container of a gate
    is the ndarray the gate itself stores (`gate.array`), updated in place."""

    family_name = "circuit"

    def __init__(self, e, ars, kinds, rng):
        base = tl.FCase("tensor", e, {"q": 2, "b": 2}, ars)
        HCase.__init__(self, base, rng, styles=["nd_shaped"])
        self.kinds = kinds                      # ukey -> "Q" | "C" | "fixed"
        for k, v in kinds.items():
            if v == "fixed":
                self.style[k] = "fixed"
        self.dag_mode = "fresh"                 # gate.dagger() copies the array: only fresh daggers

    def dim(self, t):
        from discopy.quantum.circuit import qubit, bit, Ty
        out = Ty()
        for n, _ in t:
            out = out @ (qubit if n == "q" else bit)
        return out

    def make_gen(self, ub, spec):
        from discopy.quantum import gates
        kind = self.kinds[box_key(ub)]
        flat = [complex(v) for v in np.asarray(spec).reshape(-1)]
        if kind == "fixed":
            g = getattr(gates, ub["name"])
            return g, None
        if kind == "Q":
            g = gates.QuantumGate(ub["name"], len(ub["dom"]), flat)
        else:
            g = gates.ClassicalGate(ub["name"], len(ub["dom"]), len(ub["cod"]), flat)
        return g, g.array

    def real_diagram(self, e=None):
        from discopy.quantum.circuit import Circuit
        _, dom, cod, boxes, offsets = self.e if e is None else e
        return Circuit(self.dim(dom), self.dim(cod), [self.real_box(b) for b in boxes], list(offsets))


def circuit_history(rng, subseed):
    names, ars, kinds = [0], {}, {}

    def custom(dom, cod, kind):
        names[0] += 1
        ub = dict(kind="g", name="%s%d" % ("G" if kind == "Q" else "F", names[0]), dom=list(dom),
                  cod=list(cod), dagger=False, data=None)
        shape = [2] * (len(dom) + len(cod)) or [1]
        ars[box_key(ub)] = (ub, tl.rand_array(rng, shape, density=0.7))
        kinds[box_key(ub)] = kind
        return ub
    sort = rng.choice([Q, Q, B])            # one sort of wire per circuit: a pure circuit (circuit.py:164)
    scan = [sort] * rng.randint(0, 3)
    dom, boxes, offsets = list(scan), [], []
    for _ in range(rng.randint(2, 5)):
        n = len(scan)
        opts = ["new"] * 3 + (["reuse"] * 2 if ars else []) + ["fixed"]
        o = rng.choice(opts)
        b = off = None
        if o == "new":
            off = rng.randint(0, n)
            k = rng.randint(0, min(2, n - off))
            seg = scan[off:off + k]
            if (seg and sort == Q) or (not seg and rng.random() < (0.6 if sort == Q else 0.2)):
                b = custom(seg, seg if sort == Q else [], "Q")   # n qubits to n qubits (also n = 0)
            elif sort == B:
                cod = [B] * max(0, min(rng.randint(0, 2), 3 - n + k))
                b = custom(seg, cod, "C")
        elif o == "reuse":
            ub, _ = rng.choice(list(ars.values()))
            # gate.dagger() COPIES the gate's array (gates.py:43, 97): a daggered gate made before an
            # update is a snapshot by construction, so the circuit that is kept across updates only
            # holds the gates themselves; their daggers are made afresh after each update (terms)
            b = ub
            offs = [i for i in range(n - len(b["dom"]) + 1) if scan[i:i + len(b["dom"])] == b["dom"]]
            if not offs or kinds[box_key(ub)] == "fixed":
                b = None
            else:
                off = rng.choice(offs)
        else:
            name = rng.choice(sorted(FIXED))
            k, flat = FIXED[name]
            offs = [i for i in range(n - k + 1) if all(w == Q for w in scan[i:i + k])]
            if offs and sort == Q:
                off = rng.choice(offs)
                b = dict(kind="g", name=name, dom=[Q] * k, cod=[Q] * k, dagger=False, data=None)
                ars[box_key(b)] = (b, np.array(flat, dtype=complex).reshape([2] * (2 * k)))
                kinds[box_key(b)] = "fixed"
        if b is None:
            continue
        boxes.append(b)
        offsets.append(off)
        scan = scan[:off] + list(b["cod"]) + scan[off + len(b["dom"]):]
    if not any(v != "fixed" for v in kinds.values()):
        b = custom([], [], "Q")
        boxes.append(b)
        offsets.append(0)
    e = ("mk", dom, list(scan), boxes, offsets)
    case = CCase(e, list(ars.values()), kinds, rng)
    case.cmd = "bfeval"
    steps = plan_steps(rng, case, rng.choice([1, 2, 2]), bubbles=False)
    return History("circuit", case, [rng.choice(["eval", "eval", "eval", "array", "eq_hash", "none"])],
                   steps, subseed)


# ------------------------------------------------------------------ rotations with a 0-d ndarray phase

def rotation_history(rng):
    """(layers as (left, kind, phase index, right), n wires, list of rounds of phase updates).  The
    phase of each rotation is a 0-d float ndarray updated in place; float, oracle only."""
    n = rng.randint(1, 3)
    layers, n_ph = [], 0
    for _ in range(rng.randint(2, 5)):
        two = n >= 2 and rng.random() < 0.4
        kind = rng.choice(["CRz", "CRx", "CU1"] if two else ["Rx", "Ry", "Rz"])
        w = 2 if two else 1
        off = rng.randint(0, n - w)
        if n_ph and rng.random() < 0.3:
            p = rng.randrange(n_ph)             # two gates sharing one phase container
        else:
            p, n_ph = n_ph, n_ph + 1
        layers.append((off, kind, p, n - off - w))
    phases0 = [round(rng.uniform(-1, 1), 3) for _ in range(n_ph)]
    rounds = []
    for _ in range(rng.randint(1, 3)):
        ups = []
        for p in range(n_ph):
            if rng.random() < 0.6 or (p == n_ph - 1 and not ups):
                ups.append((p, rng.choice(["iadd", "fill", "assign", "copyto", "imul"]),
                            round(rng.uniform(-1, 1), 3) or 0.25))
        rounds.append(ups)
    return n, layers, phases0, rounds
