"""Exact numbers of the quantum layer: ℤ[ζ₈][1/2], ζ = e^{iπ/4}.

A value is the normalised tuple (a, b, c, d, e) meaning (a + bζ + cζ² + dζ³) / 2^e — the same
representation as lean/Model/Cyc8.lean.  `recognise` maps a numpy complex to that tuple (the only
place a tolerance is used: 1e-9 on the residual); everything downstream compares tuples with `==`.
"""
import math

import numpy as np

SQ = math.sqrt(0.5)
ZETA = complex(SQ, SQ)
TOL = 1e-9
UMAX = 1500
EMAX = 14
_U = np.arange(-UMAX, UMAX + 1)
_US = _U * SQ


def to_complex(t):
    a, b, c, d, e = t
    return (a + b * ZETA + c * ZETA ** 2 + d * ZETA ** 3) / 2.0 ** e


def _split(x):
    """x = a + u/√2 with integers a, u (|u| <= UMAX): returns (a, u) or None."""
    r = round(x)
    if abs(x - r) < TOL:
        return r, 0
    rest = x - _US
    frac = np.abs(rest - np.round(rest))
    k = int(np.argmin(frac))
    if frac[k] < TOL:
        return int(round(rest[k])), int(_U[k])
    return None


_cache = {}


def recognise(z):
    """Normalised tuple of a complex float, or None if it is not in ℤ[ζ₈]/2^e within TOL."""
    z = complex(z)
    key = (round(z.real, 11), round(z.imag, 11))
    if key in _cache:
        return _cache[key]
    out = None
    for e in range(EMAX + 1):
        s = 2.0 ** e
        re, im = _split(z.real * s), _split(z.imag * s)
        if re is None or im is None:
            continue
        (a, u), (c, v) = re, im           # u = b - d, v = b + d
        if (u + v) % 2:
            continue
        out = (a, (u + v) // 2, c, (v - u) // 2, e)
        break
    _cache[key] = out
    return out


def from_gaussian(re, im):
    """Normalised tuple of the EXACT Gaussian rational re + i*im (fractions.Fraction), or None if a
    denominator is not a power of two (or exceeds 2^EMAX): no float, no tolerance."""
    for e in range(EMAX + 1):
        a, c = re * 2 ** e, im * 2 ** e
        if a.denominator == 1 and c.denominator == 1:
            return (int(a), 0, int(c), 0, e)
    return None


def recognise_matrix(m, rows, cols):
    """Token string `ok rows cols (a b c d e)*` of a numpy array (any shape with rows*cols
    entries, row-major) or None if some entry is not representable."""
    flat = np.asarray(m, dtype=complex).reshape(-1)
    assert flat.size == rows * cols, (flat.size, rows, cols)
    toks = ["ok", str(rows), str(cols)]
    for z in flat:
        t = recognise(z)
        if t is None:
            return None
        toks.extend(str(k) for k in t)
    return " ".join(toks)


def parse_matrix(line):
    """Inverse of the driver's `pMat`: numpy complex matrix (for diagnostics only)."""
    toks = line.split()
    assert toks[0] == "ok", line
    r, c = int(toks[1]), int(toks[2])
    vals = [int(t) for t in toks[3:]]
    ent = [to_complex(tuple(vals[5 * k:5 * k + 5])) for k in range(r * c)]
    return np.array(ent, dtype=complex).reshape(r, c)


def scalar_tok(t):
    return " ".join(str(k) for k in t)


# --------------------------------------------------------------------------- exact arithmetic
# (same formulas as lean/Model/Cyc8.lean: `norm`, `mul`, `conj`; used to square a chosen root exactly)

def norm(a, b, c, d, e):
    while e > 0 and a % 2 == 0 and b % 2 == 0 and c % 2 == 0 and d % 2 == 0:
        a, b, c, d, e = a // 2, b // 2, c // 2, d // 2, e - 1
    return (a, b, c, d, e)


def mul(x, y):
    xa, xb, xc, xd, xe = x
    ya, yb, yc, yd, ye = y
    return norm(xa * ya - xb * yd - xc * yc - xd * yb,
                xa * yb + xb * ya - xc * yd - xd * yc,
                xa * yc + xb * yb + xc * ya - xd * yd,
                xa * yd + xb * yc + xc * yb + xd * ya, xe + ye)


def neg(x):
    return (-x[0], -x[1], -x[2], -x[3], x[4])


def conj(x):
    return (x[0], -x[3], -x[2], -x[1], x[4])


def is_real(x):
    """x = conj(x): no i-part and the ζ, ζ³ parts combine to a multiple of √2 = ζ − ζ³."""
    return conj(x) == x
